import PtnModel.Proofs.QrAlg
/-!
# The pipeline of `qr`: sort → loop over shared charges → un-sort

Named pieces of `BondOps.qr` (`srt`, `loopState`, `outQ`, `outR`), the unfolding lemmas `qr_eq`/`qr_eq_empty`,
and the entry-wise description of each piece.
-/
set_option linter.unusedSectionVars false

namespace Ptn.BondOps
open Finset

variable {𝕜 : Type} [CommRing 𝕜] [DecidableEq 𝕜]

/-- block sparsity of a matrix w.r.t. row charges `qa` and column charges `qb` (`is_qsparse(M, [qa, -qb])`) -/
def Sparse (M : Mat 𝕜) (qa qb : List Int) : Prop :=
  ∀ i j, i < M.m → j < M.n → M.f i j ≠ 0 → qa.getD i 0 = qb.getD j 0

theorem isSparseMat_iff (M : Mat 𝕜) (qa qb : List Int) : QN.isSparseMat M qa qb = true ↔ Sparse M qa qb := by
  unfold QN.isSparseMat Sparse
  simp only [List.all_eq_true, List.mem_range, Bool.or_eq_true, decide_eq_true_eq]
  constructor
  · intro h i j hi hj hne
    rcases h i hi j hj with h' | h'
    · omega
    · exact absurd h' hne
  · intro h i hi j hj
    by_cases h0 : M.f i j = 0
    · exact Or.inr h0
    · left; have := h i j hi hj h0; omega

theorem all_zero_iff (M : Mat 𝕜) :
    (M.all fun x => decide (x = 0)) = true ↔ ∀ i j, i < M.m → j < M.n → M.f i j = 0 := by
  unfold Mat.all
  simp only [List.all_eq_true, List.mem_range, decide_eq_true_eq]
  exact ⟨fun h i j hi hj => h i hi j hj, fun h i hi j hj => h i j hi hj⟩

theorem getD_range {n i : Nat} (h : i < n) : (List.range n).getD i 0 = i := by
  simp [List.getD_eq_getElem?_getD, h]

/-! ### named pieces -/

/-- the sorted quantum numbers and the row/column sorted matrix of `qr` -/
def srt (A : Mat 𝕜) (q0 q1 : List Int) : List Int × List Int × Mat 𝕜 :=
  let idx0 := stableArgsort q0
  let idx1 := stableArgsort q1
  let (q0s, A1) := if !isIdPerm idx0 then (permuteList q0 idx0, (A.selectRows idx0).tab) else (q0, A)
  let (q1s, A2) := if !isIdPerm idx1 then (permuteList q1 idx1, (A1.selectCols idx1).tab) else (q1, A1)
  (q0s, q1s, A2)

/-- the state after the loop `for qn in qis` -/
def loopState (dqr : Mat 𝕜 → Mat 𝕜 × Mat 𝕜) (A : Mat 𝕜) (q0 q1 : List Int) : QRState 𝕜 :=
  let s := srt A q0 q1
  let maxdim := min s.2.2.m s.2.2.n
  (intersect1d q0 q1).foldl (qrStep dqr s.2.2 s.1 s.2.1) ⟨0, Mat.zero s.2.2.m maxdim, Mat.zero maxdim s.2.2.n, []⟩

/-- the returned `Q` -/
def outQ (dqr : Mat 𝕜 → Mat 𝕜 × Mat 𝕜) (A : Mat 𝕜) (q0 q1 : List Int) : Mat 𝕜 :=
  let st := loopState dqr A q0 q1
  let Q := (st.Q.slice 0 (srt A q0 q1).2.2.m 0 st.D).tab
  if !isIdPerm (stableArgsort q0) then (Q.selectRows (invPerm (stableArgsort q0))).tab else Q

/-- the returned `R` -/
def outR (dqr : Mat 𝕜 → Mat 𝕜 × Mat 𝕜) (A : Mat 𝕜) (q0 q1 : List Int) : Mat 𝕜 :=
  let st := loopState dqr A q0 q1
  let R := (st.R.slice 0 st.D 0 (srt A q0 q1).2.2.n).tab
  if !isIdPerm (stableArgsort q1) then (R.selectCols (invPerm (stableArgsort q1))).tab else R

/-- `qr` when the three input assertions pass and there is a shared charge -/
theorem qr_eq (dqr : Mat 𝕜 → Mat 𝕜 × Mat 𝕜) (A : Mat 𝕜) (q0 q1 : List Int)
    (hq0 : q0.length = A.m) (hq1 : q1.length = A.n) (hsp : QN.isSparseMat A q0 q1 = true)
    (hne : (intersect1d q0 q1).isEmpty = false) :
    qr dqr A q0 q1 =
      if (loopState dqr A q0 q1).D ≤ min (srt A q0 q1).2.2.m (srt A q0 q1).2.2.n then
        .ok (outQ dqr A q0 q1, outR dqr A q0 q1, (loopState dqr A q0 q1).qinterm)
      else .error .assertion := by
  have key : qr dqr A q0 q1 = (do
      pyAssert (q0.length == A.m)
      pyAssert (q1.length == A.n)
      pyAssert (QN.isSparseMat A q0 q1)
      if (intersect1d q0 q1).isEmpty then
        pyAssert (A.all fun x => decide (x = 0))
        if A.m = 0 then throw .index
        let Q : Mat 𝕜 := ⟨A.m, 1, fun i _ => if i = 0 then 1 else 0⟩
        let R : Mat 𝕜 := Mat.zero 1 A.n
        return (Q, R, q0.take 1)
      pyAssert ((loopState dqr A q0 q1).D ≤ min (srt A q0 q1).2.2.m (srt A q0 q1).2.2.n)
      return (outQ dqr A q0 q1, outR dqr A q0 q1, (loopState dqr A q0 q1).qinterm)) := rfl
  rw [key]
  simp only [hq0, hq1, hsp, hne, beq_self_eq_true, pyAssert, if_true, bind, Except.bind, pure, Except.pure,
    Bool.false_eq_true, if_false]
  by_cases h : (loopState dqr A q0 q1).D ≤ min (srt A q0 q1).2.2.m (srt A q0 q1).2.2.n
  · simp [h]
  · simp [h]

/-- `qr` when the three input assertions pass and no charge is shared -/
theorem qr_eq_empty (dqr : Mat 𝕜 → Mat 𝕜 × Mat 𝕜) (A : Mat 𝕜) (q0 q1 : List Int)
    (hq0 : q0.length = A.m) (hq1 : q1.length = A.n) (hsp : QN.isSparseMat A q0 q1 = true)
    (he : (intersect1d q0 q1).isEmpty = true) (hz : (A.all fun x => decide (x = 0)) = true) (hm : A.m ≠ 0) :
    qr dqr A q0 q1 =
      .ok (⟨A.m, 1, fun i _ => if i = 0 then 1 else 0⟩, Mat.zero 1 A.n, q0.take 1) := by
  unfold qr
  simp only [hq0, hq1, hsp, he, hz, hm, beq_self_eq_true, pyAssert, if_true, bind, Except.bind, pure, Except.pure,
    if_false]

/-! ### sorting the input -/

theorem sortRows_spec (A : Mat 𝕜) (q : List Int) (σ : List Nat) (hσ : σ.length = A.m) (hq : q.length = A.m) :
    (if !isIdPerm σ then (permuteList q σ, (A.selectRows σ).tab) else (q, A)).1 = permuteList q σ ∧
    (if !isIdPerm σ then (permuteList q σ, (A.selectRows σ).tab) else (q, A)).2.m = A.m ∧
    (if !isIdPerm σ then (permuteList q σ, (A.selectRows σ).tab) else (q, A)).2.n = A.n ∧
    ∀ i j, i < A.m → j < A.n →
      (if !isIdPerm σ then (permuteList q σ, (A.selectRows σ).tab) else (q, A)).2.f i j = A.f (σ.getD i 0) j := by
  by_cases h : isIdPerm σ = true
  · have hr : σ = List.range A.m := by rw [← hσ]; exact (isIdPerm_iff σ).1 h
    simp only [h, Bool.not_true, Bool.false_eq_true, if_false]
    refine ⟨?_, trivial, trivial, ?_⟩
    · rw [hr, ← hq, permuteList_range]
    · intro i j hi _; rw [hr, getD_range hi]
  · simp only [h, Bool.not_false, if_true]
    refine ⟨trivial, by simp [hσ], by simp, ?_⟩
    intro i j hi hj
    rw [Mat.tab_f _ (by simpa [hσ] using hi) (by simpa using hj), Mat.selectRows_f _ _ _ (by omega)]

theorem sortCols_spec (A : Mat 𝕜) (q : List Int) (σ : List Nat) (hσ : σ.length = A.n) (hq : q.length = A.n) :
    (if !isIdPerm σ then (permuteList q σ, (A.selectCols σ).tab) else (q, A)).1 = permuteList q σ ∧
    (if !isIdPerm σ then (permuteList q σ, (A.selectCols σ).tab) else (q, A)).2.m = A.m ∧
    (if !isIdPerm σ then (permuteList q σ, (A.selectCols σ).tab) else (q, A)).2.n = A.n ∧
    ∀ i j, i < A.m → j < A.n →
      (if !isIdPerm σ then (permuteList q σ, (A.selectCols σ).tab) else (q, A)).2.f i j = A.f i (σ.getD j 0) := by
  by_cases h : isIdPerm σ = true
  · have hr : σ = List.range A.n := by rw [← hσ]; exact (isIdPerm_iff σ).1 h
    simp only [h, Bool.not_true, Bool.false_eq_true, if_false]
    refine ⟨?_, trivial, trivial, ?_⟩
    · rw [hr, ← hq, permuteList_range]
    · intro i j _ hj; rw [hr, getD_range hj]
  · simp only [h, Bool.not_false, if_true]
    refine ⟨trivial, by simp, by simp [hσ], ?_⟩
    intro i j hi hj
    rw [Mat.tab_f _ (by simpa using hi) (by simpa [hσ] using hj), Mat.selectCols_f _ _ _ (by omega)]

/-- the sorted input of `qr`, entry by entry -/
theorem srt_spec (A : Mat 𝕜) (q0 q1 : List Int) (hq0 : q0.length = A.m) (hq1 : q1.length = A.n) :
    (srt A q0 q1).1 = permuteList q0 (stableArgsort q0) ∧
    (srt A q0 q1).2.1 = permuteList q1 (stableArgsort q1) ∧
    (srt A q0 q1).2.2.m = A.m ∧ (srt A q0 q1).2.2.n = A.n ∧
    ∀ i j, i < A.m → j < A.n →
      (srt A q0 q1).2.2.f i j = A.f ((stableArgsort q0).getD i 0) ((stableArgsort q1).getD j 0) := by
  obtain ⟨r1, r2, r3, r4⟩ := sortRows_spec A q0 (stableArgsort q0) (by rw [stableArgsort_length, hq0]) hq0
  obtain ⟨c1, c2, c3, c4⟩ := sortCols_spec
    (if !isIdPerm (stableArgsort q0) then (permuteList q0 (stableArgsort q0), (A.selectRows (stableArgsort q0)).tab)
      else (q0, A)).2 q1 (stableArgsort q1) (by rw [stableArgsort_length, hq1, r3]) (by rw [hq1, r3])
  refine ⟨r1, c1, c2.trans r2, c3.trans r3, ?_⟩
  intro i j hi hj
  have := c4 i j (by rw [r2]; exact hi) (by rw [r3]; exact hj)
  rw [r4 i _ hi (by
    have := (stableArgsort_permInv q1).σ_lt j (by omega)
    omega)] at this
  exact this

/-! ### un-sorting the output -/

theorem unsortRows_spec (Q : Mat 𝕜) (σ : List Nat) {n : Nat} (hσ : σ.Perm (List.range n)) (hQ : Q.m = n) :
    (if !isIdPerm σ then (Q.selectRows (invPerm σ)).tab else Q).m = n ∧
    (if !isIdPerm σ then (Q.selectRows (invPerm σ)).tab else Q).n = Q.n ∧
    ∀ i p, i < n → p < Q.n →
      (if !isIdPerm σ then (Q.selectRows (invPerm σ)).tab else Q).f i p = Q.f ((invPerm σ).getD i 0) p := by
  have hinv := invPerm_spec hσ
  by_cases h : isIdPerm σ = true
  · have hr : σ = List.range n := by
      have := (isIdPerm_iff σ).1 h
      rwa [hinv.lenσ] at this
    simp only [h, Bool.not_true, Bool.false_eq_true, if_false]
    refine ⟨hQ, trivial, ?_⟩
    intro i p hi _
    have := hinv.τσ i hi
    rw [hr, getD_range hi] at this
    rw [hr, this]
  · simp only [h, Bool.not_false, if_true]
    refine ⟨by simp [hinv.lenτ], by simp, ?_⟩
    intro i p hi hp
    rw [Mat.tab_f _ (by simpa [hinv.lenτ] using hi) (by simpa using hp),
      Mat.selectRows_f _ _ _ (by rw [hinv.lenτ]; exact hi)]

theorem unsortCols_spec (R : Mat 𝕜) (σ : List Nat) {n : Nat} (hσ : σ.Perm (List.range n)) (hR : R.n = n) :
    (if !isIdPerm σ then (R.selectCols (invPerm σ)).tab else R).m = R.m ∧
    (if !isIdPerm σ then (R.selectCols (invPerm σ)).tab else R).n = n ∧
    ∀ p j, p < R.m → j < n →
      (if !isIdPerm σ then (R.selectCols (invPerm σ)).tab else R).f p j = R.f p ((invPerm σ).getD j 0) := by
  have hinv := invPerm_spec hσ
  by_cases h : isIdPerm σ = true
  · have hr : σ = List.range n := by
      have := (isIdPerm_iff σ).1 h
      rwa [hinv.lenσ] at this
    simp only [h, Bool.not_true, Bool.false_eq_true, if_false]
    refine ⟨trivial, hR, ?_⟩
    intro p j _ hj
    have := hinv.τσ j hj
    rw [hr, getD_range hj] at this
    rw [hr, this]
  · simp only [h, Bool.not_false, if_true]
    refine ⟨by simp, by simp [hinv.lenτ], ?_⟩
    intro p j hp hj
    rw [Mat.tab_f _ (by simpa using hp) (by simpa [hinv.lenτ] using hj),
      Mat.selectCols_f _ _ _ (by rw [hinv.lenτ]; exact hj)]

/-- the returned `Q`, entry by entry -/
theorem outQ_spec (dqr : Mat 𝕜 → Mat 𝕜 × Mat 𝕜) (A : Mat 𝕜) (q0 q1 : List Int)
    (hq0 : q0.length = A.m) (hq1 : q1.length = A.n) :
    (outQ dqr A q0 q1).m = A.m ∧ (outQ dqr A q0 q1).n = (loopState dqr A q0 q1).D ∧
    ∀ i p, i < A.m → p < (loopState dqr A q0 q1).D →
      (outQ dqr A q0 q1).f i p = (loopState dqr A q0 q1).Q.f ((invPerm (stableArgsort q0)).getD i 0) p := by
  obtain ⟨-, -, sm, sn, -⟩ := srt_spec A q0 q1 hq0 hq1
  have hσ := stableArgsort_perm q0
  rw [hq0] at hσ
  have hinv := invPerm_spec hσ
  obtain ⟨u1, u2, u3⟩ := unsortRows_spec
    (((loopState dqr A q0 q1).Q.slice 0 (srt A q0 q1).2.2.m 0 (loopState dqr A q0 q1).D).tab)
    (stableArgsort q0) hσ (by simp [sm])
  refine ⟨u1, u2.trans (by simp), ?_⟩
  intro i p hi hp
  have := u3 i p hi (by simpa using hp)
  rw [Mat.tab_f _ (by simpa [sm] using hinv.τ_lt i hi) (by simpa using hp)] at this
  simp only [Mat.slice_f, Nat.zero_add] at this
  exact this

/-- the returned `R`, entry by entry -/
theorem outR_spec (dqr : Mat 𝕜 → Mat 𝕜 × Mat 𝕜) (A : Mat 𝕜) (q0 q1 : List Int)
    (hq0 : q0.length = A.m) (hq1 : q1.length = A.n) :
    (outR dqr A q0 q1).m = (loopState dqr A q0 q1).D ∧ (outR dqr A q0 q1).n = A.n ∧
    ∀ p j, p < (loopState dqr A q0 q1).D → j < A.n →
      (outR dqr A q0 q1).f p j = (loopState dqr A q0 q1).R.f p ((invPerm (stableArgsort q1)).getD j 0) := by
  obtain ⟨-, -, sm, sn, -⟩ := srt_spec A q0 q1 hq0 hq1
  have hσ := stableArgsort_perm q1
  rw [hq1] at hσ
  have hinv := invPerm_spec hσ
  obtain ⟨u1, u2, u3⟩ := unsortCols_spec
    (((loopState dqr A q0 q1).R.slice 0 (loopState dqr A q0 q1).D 0 (srt A q0 q1).2.2.n).tab)
    (stableArgsort q1) hσ (by simp [sn])
  refine ⟨u1.trans (by simp), u2, ?_⟩
  intro p j hp hj
  have := u3 p j (by simpa using hp) hj
  rw [Mat.tab_f _ (by simpa using hp) (by simpa [sn] using hinv.τ_lt j hj)] at this
  simp only [Mat.slice_f, Nat.zero_add] at this
  exact this

/-! ### the sorted data satisfy the hypotheses of the loop lemmas -/

theorem permuteList_perm (q : List Int) : (permuteList q (stableArgsort q)).Perm q := by
  have h := (stableArgsort_perm q).map (fun i => q.getD i 0)
  rw [map_getD_range] at h
  exact h

theorem mem_permuteList (q : List Int) (c : Int) : c ∈ permuteList q (stableArgsort q) ↔ c ∈ q :=
  (permuteList_perm q).mem_iff

/-- the matrices handed to the dense kernel by `qr dqr A q0 q1`, in order -/
def blocks (A : Mat 𝕜) (q0 q1 : List Int) : List (Mat 𝕜) :=
  (intersect1d q0 q1).map (blk (srt A q0 q1).2.2 (srt A q0 q1).1 (srt A q0 q1).2.1)

theorem mem_blocks (A : Mat 𝕜) (q0 q1 : List Int) (hq0 : q0.length = A.m) (hq1 : q1.length = A.n) {c : Int}
    (h0 : c ∈ (srt A q0 q1).1) (h1 : c ∈ (srt A q0 q1).2.1) :
    blk (srt A q0 q1).2.2 (srt A q0 q1).1 (srt A q0 q1).2.1 c ∈ blocks A q0 q1 := by
  obtain ⟨s0, s1, -⟩ := srt_spec A q0 q1 hq0 hq1
  rw [s0, mem_permuteList] at h0
  rw [s1, mem_permuteList] at h1
  exact List.mem_map_of_mem (mem_intersect1d.2 ⟨h0, h1⟩)

/-- the shape clause of the kernel contract, required only at the blocks of the run -/
def QRShape (dqr : Mat 𝕜 → Mat 𝕜 × Mat 𝕜) (A : Mat 𝕜) (q0 q1 : List Int) : Prop :=
  ∀ B ∈ blocks A q0 q1, ShapeAt dqr B

/-- the product clause of the kernel contract, required only at the blocks of the run -/
def QRProduct (dqr : Mat 𝕜 → Mat 𝕜 × Mat 𝕜) (A : Mat 𝕜) (q0 q1 : List Int) : Prop :=
  ∀ B ∈ blocks A q0 q1, ProdAt dqr B

/-- the isometry clause of the kernel contract, required only at the blocks of the run -/
def QRIso [StarRing 𝕜] (dqr : Mat 𝕜 → Mat 𝕜 × Mat 𝕜) (A : Mat 𝕜) (q0 q1 : List Int) : Prop :=
  ∀ B ∈ blocks A q0 q1, IsoAt dqr B

theorem srt_ctx {dqr : Mat 𝕜 → Mat 𝕜 × Mat 𝕜} (A : Mat 𝕜) (q0 q1 : List Int) (hshape : QRShape dqr A q0 q1)
    (hq0 : q0.length = A.m) (hq1 : q1.length = A.n) :
    SortedCtx dqr (srt A q0 q1).2.2 (srt A q0 q1).1 (srt A q0 q1).2.1 := by
  obtain ⟨s0, s1, sm, sn, -⟩ := srt_spec A q0 q1 hq0 hq1
  refine ⟨?_, ?_, ?_, ?_, fun _ h0 h1 => hshape _ (mem_blocks A q0 q1 hq0 hq1 h0 h1)⟩
  · rw [s0]; exact stableArgsort_sorted q0
  · rw [s1]; exact stableArgsort_sorted q1
  · rw [s0, sm, permuteList_length, stableArgsort_length, hq0]
  · rw [s1, sn, permuteList_length, stableArgsort_length, hq1]

theorem srt_mem (A : Mat 𝕜) (q0 q1 : List Int) (hq0 : q0.length = A.m) (hq1 : q1.length = A.n) :
    ∀ c ∈ intersect1d q0 q1, c ∈ (srt A q0 q1).1 ∧ c ∈ (srt A q0 q1).2.1 := by
  obtain ⟨s0, s1, -⟩ := srt_spec A q0 q1 hq0 hq1
  intro c hc
  rw [s0, s1, mem_permuteList, mem_permuteList]
  exact mem_intersect1d.1 hc

/-- sorted charges in terms of the original ones -/
theorem srt_q0 (A : Mat 𝕜) (q0 q1 : List Int) (hq0 : q0.length = A.m) (hq1 : q1.length = A.n) {i : Nat}
    (hi : i < A.m) : (srt A q0 q1).1.getD i 0 = q0.getD ((stableArgsort q0).getD i 0) 0 := by
  rw [(srt_spec A q0 q1 hq0 hq1).1, permuteList_getD _ _ (by rw [stableArgsort_length, hq0]; exact hi)]

theorem srt_q1 (A : Mat 𝕜) (q0 q1 : List Int) (hq0 : q0.length = A.m) (hq1 : q1.length = A.n) {j : Nat}
    (hj : j < A.n) : (srt A q0 q1).2.1.getD j 0 = q1.getD ((stableArgsort q1).getD j 0) 0 := by
  rw [(srt_spec A q0 q1 hq0 hq1).2.1, permuteList_getD _ _ (by rw [stableArgsort_length, hq1]; exact hj)]

/-- the sorted matrix is block sparse w.r.t. the sorted charges -/
theorem srt_sparse (A : Mat 𝕜) (q0 q1 : List Int) (hq0 : q0.length = A.m) (hq1 : q1.length = A.n)
    (hsp : Sparse A q0 q1) : Sparse (srt A q0 q1).2.2 (srt A q0 q1).1 (srt A q0 q1).2.1 := by
  obtain ⟨-, -, sm, sn, sf⟩ := srt_spec A q0 q1 hq0 hq1
  intro i j hi hj hne
  rw [sm] at hi
  rw [sn] at hj
  rw [sf i j hi hj] at hne
  rw [srt_q0 A q0 q1 hq0 hq1 hi, srt_q1 A q0 q1 hq0 hq1 hj]
  have h0 := (stableArgsort_permInv q0).σ_lt i (by omega)
  have h1 := (stableArgsort_permInv q1).σ_lt j (by omega)
  exact hsp _ _ (by omega) (by omega) hne

/-- `BaseInv` for the actual loop of `qr` -/
theorem loopState_base {dqr : Mat 𝕜 → Mat 𝕜 × Mat 𝕜} (A : Mat 𝕜) (q0 q1 : List Int) (hshape : QRShape dqr A q0 q1)
    (hq0 : q0.length = A.m) (hq1 : q1.length = A.n) :
    BaseInv (srt A q0 q1).2.2 (srt A q0 q1).1 (srt A q0 q1).2.1 (intersect1d q0 q1) (loopState dqr A q0 q1) :=
  baseInv_foldl (srt_ctx A q0 q1 hshape hq0 hq1) (pairwise_intersect1d q0 q1) (srt_mem A q0 q1 hq0 hq1) _ _ _ _

theorem loopState_prod {dqr : Mat 𝕜 → Mat 𝕜 × Mat 𝕜} (A : Mat 𝕜) (q0 q1 : List Int)
    (hshape : QRShape dqr A q0 q1) (hprod : QRProduct dqr A q0 q1) (hq0 : q0.length = A.m) (hq1 : q1.length = A.n) :
    ProdInv (srt A q0 q1).2.2 (srt A q0 q1).1 (srt A q0 q1).2.1 (intersect1d q0 q1) (loopState dqr A q0 q1) :=
  prodInv_foldl (srt_ctx A q0 q1 hshape hq0 hq1) (fun _ h0 h1 => hprod _ (mem_blocks A q0 q1 hq0 hq1 h0 h1))
    (pairwise_intersect1d q0 q1)
    (srt_mem A q0 q1 hq0 hq1) _ _ _ _

theorem loopState_iso [StarRing 𝕜] {dqr : Mat 𝕜 → Mat 𝕜 × Mat 𝕜} (A : Mat 𝕜) (q0 q1 : List Int)
    (hshape : QRShape dqr A q0 q1) (hiso : QRIso dqr A q0 q1) (hq0 : q0.length = A.m) (hq1 : q1.length = A.n) :
    IsoInv (srt A q0 q1).2.2 (loopState dqr A q0 q1) :=
  isoInv_foldl (srt_ctx A q0 q1 hshape hq0 hq1) (fun _ h0 h1 => hiso _ (mem_blocks A q0 q1 hq0 hq1 h0 h1))
    (pairwise_intersect1d q0 q1)
    (srt_mem A q0 q1 hq0 hq1) _ _ _ _

end Ptn.BondOps

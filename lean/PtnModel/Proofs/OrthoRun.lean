import PtnModel.Proofs.OrthoNorm
import PtnModel.Proofs.OrthoReal
/-!
# A complete left-orthonormalization run and its consequences

Setting: entries in an `RCLike` field `𝕜` (`ℝ` or `ℂ`), norms in `ℝ`, `RealLike ℝ 𝕜 = ⟨(↑), re⟩`.

* `Admissible ψ`            : the hypotheses of C01 on the input;
* `LeftRun dqr ψ ψ' nrm`     : `ψ'`, `nrm` are the result of a left sweep over `ψ`, the extraction of the real part of
                              the trailing `1×1×1` factor and the sign flip.  All four variants of `orthonormalize`
                              (MPS/MPO, left/right) are instances after matricizing / mirroring the chain.
* consequences `LeftRun.adm`, `LeftRun.dense`, `LeftRun.iso`, `LeftRun.nonneg`, `LeftRun.bond`, `unit_of_leftIso`.
-/
set_option linter.unusedSectionVars false
namespace Ptn.Ortho
open Ptn.BondOps Finset Ptn.Env

/-- embedding of the reals and real part, as the model's `RealLike` -/
@[reducible] def rcRealLike (𝕜 : Type) [RCLike 𝕜] : RealLike ℝ 𝕜 := ⟨fun r => (r : 𝕜), RCLike.re⟩

variable {𝕜 : Type} [RCLike 𝕜] [DecidableEq 𝕜]
variable {dqr : Mat 𝕜 → Mat 𝕜 × Mat 𝕜}

/-- hypotheses of C01 on the input: well-formed (`MPS.wellFormed`: shapes consistent with the charge lists, block
sparse), `d ≥ 1`, `L ≥ 1`, all bond dimensions `≥ 1`, boundary bonds of dimension one -/
structure Admissible (ψ : MPS 𝕜) : Prop where
  wf : ψ.wellFormed = true
  d_pos : 0 < ψ.qd.length
  nonempty : ψ.A ≠ []
  bond_pos : ∀ q ∈ ψ.qD, 0 < q.length
  first : (ψ.qD.head?.getD []).length = 1
  last : (ψ.qD.getLast?.getD []).length = 1

theorem Admissible.chain {ψ : MPS 𝕜} (h : Admissible ψ) {A0 : T3 𝕜} {rest : List (T3 𝕜)} {q0 : List Int}
    {qrest : List (List Int)} (hA : ψ.A = A0 :: rest) (hq : ψ.qD = q0 :: qrest) :
    WfChain ψ.qd q0 (A0 :: rest) qrest ∧ q0.length = 1 ∧ ((q0 :: qrest).getLast?.getD []).length = 1 := by
  obtain ⟨q0', qs, hq', _, hw⟩ := (wfMPS_iff ψ).1 ⟨h.wf, h.bond_pos⟩
  rw [hq] at hq'
  injection hq' with e1 e2
  subst e1 e2
  have h1 := h.first
  have h2 := h.last
  rw [hq] at h1 h2
  rw [hA] at hw
  exact ⟨hw, by simpa using h1, h2⟩

theorem Admissible.exists_cons {ψ : MPS 𝕜} (h : Admissible ψ) :
    ∃ A0 rest q0 qrest, ψ.A = A0 :: rest ∧ ψ.qD = q0 :: qrest := by
  obtain ⟨q0, qs, hq, _, _⟩ := (wfMPS_iff ψ).1 ⟨h.wf, h.bond_pos⟩
  cases hA : ψ.A with
  | nil => exact absurd hA h.nonempty
  | cons A0 rest => exact ⟨A0, rest, q0, qs, rfl, hq⟩

/-- an admissible MPS built from a well-formed chain -/
theorem admissible_of_chain {qd q0 : List Int} {As : List (T3 𝕜)} {qs : List (List Int)}
    (hw : WfChain qd q0 As qs) (hd : 0 < qd.length) (hne : As ≠ []) (h0 : q0.length = 1)
    (hl : ((q0 :: qs).getLast?.getD []).length = 1) : Admissible (⟨qd, q0 :: qs, As⟩ : MPS 𝕜) := by
  have := (wfMPS_iff (⟨qd, q0 :: qs, As⟩ : MPS 𝕜)).2 ⟨q0, qs, rfl, by omega, hw⟩
  exact ⟨this.1, hd, hne, this.2, by simpa using h0, hl⟩

/-- bond dimensions of an admissible MPS form a chain from 1 to 1 -/
theorem Admissible.chain3 {ψ : MPS 𝕜} (h : Admissible ψ) :
    Chain3 (List.replicate ψ.A.length ψ.qd.length) ψ.A 1 1 := by
  obtain ⟨A0, rest, q0, qrest, hA, hq⟩ := h.exists_cons
  obtain ⟨hw, h0, hl⟩ := h.chain hA hq
  have := wfChain_chain3 hw
  rw [h0, hl, ← hA] at this
  exact this

/-- the result of a left sweep over `ψ`, reading off `nrm = Re T[0,0,0]` and flipping the sign of the last tensor
if `nrm < 0` -/
def LeftRun (dqr : Mat 𝕜 → Mat 𝕜 × Mat 𝕜) (ψ ψ' : MPS 𝕜) (nrm : ℝ) : Prop :=
  ∃ A0 rest q0 qrest As qs T, ψ.A = A0 :: rest ∧ ψ.qD = q0 :: qrest ∧
    SweepLeft dqr ψ.qd A0 q0 rest qrest As qs T ∧ T.d0 = 1 ∧ T.d1 = 1 ∧ T.d2 = 1 ∧
    ((RCLike.re (T.f 0 0 0) < 0 ∧ ψ' = ⟨ψ.qd, q0 :: qs, negLast As⟩ ∧ nrm = - RCLike.re (T.f 0 0 0)) ∨
     (¬ RCLike.re (T.f 0 0 0) < 0 ∧ ψ' = ⟨ψ.qd, q0 :: qs, As⟩ ∧ nrm = RCLike.re (T.f 0 0 0)))

section run
variable {ψ ψ' : MPS 𝕜} {nrm : ℝ}

theorem LeftRun.nonneg (h : LeftRun dqr ψ ψ' nrm) : 0 ≤ nrm := by
  obtain ⟨A0, rest, q0, qrest, As, qs, T, -, -, -, -, -, -, h | h⟩ := h
  · rw [h.2.2]; linarith [h.1]
  · rw [h.2.2]; exact not_lt.1 h.1

/-- the output is admissible again (for every kernel with the shape clause); physical charges and length unchanged -/
theorem LeftRun.adm (h : LeftRun dqr ψ ψ' nrm) (hshape : ∀ B, ShapeAt dqr B) (hadm : Admissible ψ) :
    Admissible ψ' ∧ ψ'.qd = ψ.qd ∧ ψ'.A.length = ψ.A.length ∧
      (ψ'.qD.head?.getD []) = (ψ.qD.head?.getD []) := by
  obtain ⟨A0, rest, q0, qrest, As, qs, T, hA, hq, hsw, t0, t1, t2, hcase⟩ := h
  obtain ⟨hw, h0, hl⟩ := hadm.chain hA hq
  obtain ⟨w1, w2, -, -, w5, -⟩ := hsw.wf hshape hadm.d_pos (by omega) hw
  have hl' : ((q0 :: qs).getLast?.getD []).length = 1 := by rw [← w5]; exact t1
  have hne : As ≠ [] := by intro h0; rw [h0] at w2; simp at w2
  rcases hcase with ⟨-, rfl, -⟩ | ⟨-, rfl, -⟩
  · refine ⟨admissible_of_chain (negLast_wf w1) hadm.d_pos ?_ h0 hl', rfl, ?_, ?_⟩
    · intro h0; have := negLast_length As; rw [h0] at this; rw [w2] at this; simp at this
    · show (negLast As).length = _; rw [negLast_length, w2, hA]; rfl
    · rw [hq]; rfl
  · refine ⟨admissible_of_chain w1 hadm.d_pos hne h0 hl', rfl, ?_, ?_⟩
    · show As.length = _; rw [w2, hA]; rfl
    · rw [hq]; rfl

/-- `nrm · ψ'[σ] = ψ[σ]` for every in-range digit list -/
theorem LeftRun.dense (h : LeftRun dqr ψ ψ' nrm) (hshape : ∀ B, ShapeAt dqr B) (hprod : ∀ B, ProdAt dqr B)
    (hreal : RealDiag dqr) (hadm : Admissible ψ)
    {σ : List Nat} (hσ : σ ∈ digitsU ψ.qd.length ψ.A.length) : (nrm : 𝕜) * ψ'.amp σ = ψ.amp σ := by
  have hadm' := (h.adm hshape hadm)
  obtain ⟨A0, rest, q0, qrest, As, qs, T, hA, hq, hsw, t0, t1, t2, hcase⟩ := h
  obtain ⟨hw, h0, hl⟩ := hadm.chain hA hq
  obtain ⟨w1, w2, -, -, w5, -⟩ := hsw.wf hshape hadm.d_pos (by omega) hw
  have hσ0 : σ ∈ digits (List.replicate (rest.length + 1) ψ.qd.length) := by
    have : ψ.A.length = rest.length + 1 := by rw [hA]; rfl
    rw [← this]; exact hσ
  have hd := hsw.dense hshape hprod hadm.d_pos (by omega) hw hσ0 (a := 0) (by omega)
  rw [t1, Finset.sum_range_one] at hd
  have hre : ((RCLike.re (T.f 0 0 0) : ℝ) : 𝕜) = T.f 0 0 0 :=
    RCLike.conj_eq_iff_re.1 (hsw.real hshape hreal hadm.d_pos (by omega) hw)
  have e1 : ψ.amp σ = pmat (A0 :: rest) σ 0 0 := by
    rw [amp_eq_pmat hadm.chain3 hσ, hA]
  have hσ' : σ ∈ digits (List.replicate ψ'.A.length ψ'.qd.length) := by
    rw [hadm'.2.1, hadm'.2.2.1]; exact hσ
  have e2 := amp_eq_pmat hadm'.1.chain3 hσ'
  rw [e1, hd, e2]
  rcases hcase with ⟨-, rfl, rfl⟩ | ⟨-, rfl, rfl⟩
  · have hc := wfChain_chain3 w1
    have hne : As ≠ [] := by intro h0; rw [h0] at w2; simp at w2
    have hσ2 : σ ∈ digits (List.replicate As.length ψ.qd.length) := by rw [w2]; exact hσ0
    show _ * pmat (negLast As) σ 0 0 = _
    rw [negLast_pmat hc hne hσ2, RCLike.ofReal_neg, hre]
    ring
  · show _ * pmat As σ 0 0 = _
    rw [hre]; ring

/-- every tensor of the output is a left isometry -/
theorem LeftRun.iso (h : LeftRun dqr ψ ψ' nrm) (hshape : ∀ B, ShapeAt dqr B) (hiso : ∀ B, IsoAt dqr B)
    (hadm : Admissible ψ) : ∀ B ∈ ψ'.A, LeftIso B := by
  obtain ⟨A0, rest, q0, qrest, As, qs, T, hA, hq, hsw, t0, t1, t2, hcase⟩ := h
  obtain ⟨hw, h0, hl⟩ := hadm.chain hA hq
  have hi := hsw.iso hshape hiso hadm.d_pos (by omega) hw
  rcases hcase with ⟨-, rfl, -⟩ | ⟨-, rfl, -⟩
  · exact negLast_iso hi
  · exact hi

/-- bond bounds: `D'_{k+1} ≤ min(d · D'_k, D_{k+1})` along the chain, in recursive form -/
theorem LeftRun.bond (h : LeftRun dqr ψ ψ' nrm) (hshape : ∀ B, ShapeAt dqr B) (hadm : Admissible ψ) :
    ∃ q0 qs qs', ψ.qD = q0 :: qs ∧ ψ'.qD = q0 :: qs' ∧ BondLe ψ.qd.length q0.length qs' qs := by
  obtain ⟨A0, rest, q0, qrest, As, qs, T, hA, hq, hsw, t0, t1, t2, hcase⟩ := h
  obtain ⟨hw, h0, hl⟩ := hadm.chain hA hq
  obtain ⟨-, -, -, -, -, w6⟩ := hsw.wf hshape hadm.d_pos (by omega) hw
  rcases hcase with ⟨-, rfl, -⟩ | ⟨-, rfl, -⟩
  · exact ⟨q0, qrest, qs, hq, rfl, w6⟩
  · exact ⟨q0, qrest, qs, hq, rfl, w6⟩

end run

/-- an admissible MPS all of whose tensors are left isometries has unit norm -/
theorem unit_of_leftIso {ψ : MPS 𝕜} (hadm : Admissible ψ) (hiso : ∀ B ∈ ψ.A, LeftIso B) :
    ∑ σ ∈ digitsU ψ.qd.length ψ.A.length, star (ψ.amp σ) * ψ.amp σ = 1 := by
  have hc := hadm.chain3
  have := leftIso_chain hc hiso (p := 0) (p' := 0) Nat.one_pos Nat.one_pos
  rw [if_pos rfl] at this
  rw [← this]
  refine Finset.sum_congr rfl fun σ hσ => ?_
  rw [Finset.sum_range_one, amp_eq_pmat hc hσ]

end Ptn.Ortho

import PtnModel.Proofs.OrthoMpo
import PtnModel.Proofs.HistRun
/-!
# C02, kernel-free bookkeeping: pools, `zero_qnumbers`, copy

* `poolWF_set`, `poolWF_append`, `poolWF_get` : the invariant under `List.set` / `++ [o]`;
* `zeroQ_wf`                                   : `zero_qnumbers` keeps well-formedness (a tensor that is block sparse
                                                 w.r.t. some charges is block sparse w.r.t. all-zero charges);
* `T3Wf.tab`, `T4Wf.tab`                        : memoisation does not change shape or sparsity.
-/
set_option linter.unusedSectionVars false
namespace Ptn.HistWf
open Ptn.Hist Ptn.Ortho

variable {𝕜 : Type} [CommRing 𝕜] [DecidableEq 𝕜]

/-! ## pools -/

theorem poolWF_iff (p : Pool 𝕜) : poolWF p = true ↔ ∀ o ∈ p, o.wellFormed = true := by
  simp [poolWF, List.all_eq_true]

theorem poolWF_get {p : Pool 𝕜} (h : poolWF p = true) {i : Nat} {o : Obj 𝕜} (hi : p[i]? = some o) :
    o.wellFormed = true :=
  (poolWF_iff p).1 h o (List.mem_of_getElem? hi)

theorem poolWF_set {p : Pool 𝕜} (h : poolWF p = true) (i : Nat) {o : Obj 𝕜} (ho : o.wellFormed = true) :
    poolWF (p.set i o) = true := by
  rw [poolWF_iff] at h ⊢
  intro x hx
  rcases List.mem_or_eq_of_mem_set hx with hx | rfl
  · exact h x hx
  · exact ho

theorem poolWF_append {p : Pool 𝕜} (h : poolWF p = true) {o : Obj 𝕜} (ho : o.wellFormed = true) :
    poolWF (p ++ [o]) = true := by
  rw [poolWF_iff] at h ⊢
  intro x hx
  rcases List.mem_append.1 hx with hx | hx
  · exact h x hx
  · rw [List.mem_singleton.1 hx]; exact ho

/-! ## memoisation -/

theorem T3Wf.tab {A : T3 𝕜} {qd qa qb : List Int} (h : T3Wf A qd qa qb) : T3Wf A.tab qd qa qb :=
  T3Wf.congr (T3Eqv.tab A) h

theorem T4Wf.tab {A : T4 𝕜} {qd qa qb : List Int} (h : T4Wf A qd qa qb) : T4Wf A.tab qd qa qb :=
  ⟨h.d0, h.d1, h.d2, h.d3, fun s t a b hs ht ha hb hne =>
    h.sp s t a b hs ht ha hb (by rw [← Env.t4_tab_f A hs ht ha hb]; exact hne)⟩

/-! ## `zero_qnumbers` -/

theorem getD_map_zero (l : List Int) (i : Nat) : (l.map fun _ => (0 : Int)).getD i 0 = 0 := by
  simp only [List.getD_eq_getElem?_getD, List.getElem?_map]
  cases l[i]? <;> rfl

theorem getD_map_map_zero_length (l : List (List Int)) (i : Nat) :
    ((l.map fun q => q.map fun _ => (0 : Int)).getD i []).length = (l.getD i []).length := by
  simp only [List.getD_eq_getElem?_getD, List.getElem?_map]
  cases l[i]? <;> simp

theorem getD_getD_map_map_zero (l : List (List Int)) (i a : Nat) :
    ((l.map fun q => q.map fun _ => (0 : Int)).getD i []).getD a 0 = 0 := by
  simp only [List.getD_eq_getElem?_getD, List.getElem?_map]
  cases l[i]? with
  | none => rfl
  | some q =>
    simp only [Option.map_some, Option.getD_some, List.getElem?_map]
    cases q[a]? <;> rfl

/-- `zero_qnumbers` keeps well-formedness: lengths are kept and every sparsity condition becomes `0 = 0` -/
theorem zeroQ_wf {o : Obj 𝕜} (h : o.wellFormed = true) : o.zeroQ.wellFormed = true := by
  cases o with
  | mps ψ =>
    simp only [Obj.wellFormed, Obj.zeroQ] at h ⊢
    rw [wellFormed_iff_idx] at h ⊢
    refine ⟨by simpa using h.1, fun i hi => ?_⟩
    have hw := h.2 i hi
    refine ⟨by simpa using hw.d0, ?_, ?_, ?_⟩
    · show _ = ((ψ.qD.map fun q => q.map fun _ => (0 : Int)).getD i []).length
      rw [getD_map_map_zero_length]; exact hw.d1
    · show _ = ((ψ.qD.map fun q => q.map fun _ => (0 : Int)).getD (i + 1) []).length
      rw [getD_map_map_zero_length]; exact hw.d2
    · intro s a b _ _ _ _
      show (ψ.qd.map fun _ => (0 : Int)).getD s 0 + ((ψ.qD.map fun q => q.map fun _ => (0 : Int)).getD i []).getD a 0
        - ((ψ.qD.map fun q => q.map fun _ => (0 : Int)).getD (i + 1) []).getD b 0 = 0
      rw [getD_map_zero, getD_getD_map_map_zero, getD_getD_map_map_zero]
      rfl
  | mpo ψ =>
    simp only [Obj.wellFormed, Obj.zeroQ] at h ⊢
    rw [mpo_wellFormed_iff_idx] at h ⊢
    refine ⟨by simpa using h.1, fun i hi => ?_⟩
    have hw := h.2 i hi
    refine ⟨by simpa using hw.d0, by simpa using hw.d1, ?_, ?_, ?_⟩
    · show _ = ((ψ.qD.map fun q => q.map fun _ => (0 : Int)).getD i []).length
      rw [getD_map_map_zero_length]; exact hw.d2
    · show _ = ((ψ.qD.map fun q => q.map fun _ => (0 : Int)).getD (i + 1) []).length
      rw [getD_map_map_zero_length]; exact hw.d3
    · intro s t a b _ _ _ _ _
      show (ψ.qd.map fun _ => (0 : Int)).getD s 0 - (ψ.qd.map fun _ => (0 : Int)).getD t 0
        + ((ψ.qD.map fun q => q.map fun _ => (0 : Int)).getD i []).getD a 0
        - ((ψ.qD.map fun q => q.map fun _ => (0 : Int)).getD (i + 1) []).getD b 0 = 0
      rw [getD_map_zero, getD_map_zero, getD_getD_map_map_zero, getD_getD_map_map_zero]
      rfl

end Ptn.HistWf

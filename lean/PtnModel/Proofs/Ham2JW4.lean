import PtnModel.Proofs.Ham2JW3
/-!
# The padded word of the interaction chain is the Jordan-Wigner product word, cases 8-13, and the summary

`molInt_spec`: for all `i < j < L`, `k < l < L` the chain of the interaction loop has coefficient `coeff` and identity-padded word
`fw L (intF i j k l)`.
-/
set_option linter.unusedSectionVars false
set_option linter.unusedSimpArgs false
namespace Ptn.Ham2
open Ptn Ptn.Og Ptn.Ham Ptn.Ch Ptn.Dense List

variable {κ : Type} [CommRing κ] [DecidableEq κ]

theorem molInt_case8 (L i j l : Int) (coeff : κ) (pi : 0 ≤ i) (pj : 0 ≤ j) (pl : 0 ≤ l) (h0 : i < l) (h1 : l < j) (hL : j < L) :
    ∃ ch : OpChain κ, molIntChain i j i l coeff = .ok ch ∧ ch.coeff = coeff ∧
      ch.paddedWord L 0 = fw L.toNat (intF i.toNat j.toNat i.toNat l.toNat) := by
  unfold molIntChain
  simp (disch := omega) only [sortPairs, List.foldr, insertPair_nil, insertPair_le, insertPair_gt, mC, mA, mN, mI, mZ,
    beq_iff_eq, if_pos, if_neg, decide_eq_true, pyAssert_true_bind, bind_pure_comp, pure_bind]
  refine ⟨_, mk'_ok _ _ _ _ (by chain_side) (by omega), rfl, ?_⟩
  refine word_eq _ [(i.toNat, 0), (1, 2), ((l - i - 1).toNat, 0), (1, -1), ((j - l - 1).toNat, 3), (1, 1), ((L - 1 - j).toNat, 0)] _ _ ?_ ?_ ?_
  · simp [expand, pyRepeat, OpChain.paddedWord, OpChain.length]
    omega
  · simp [total]; omega
  · refine ⟨?_, ?_, ?_, ?_, ?_, ?_, ?_, trivial⟩ <;> agree_int

theorem molInt_case9 (L i j k l : Int) (coeff : κ) (pi : 0 ≤ i) (pj : 0 ≤ j) (pk : 0 ≤ k) (pl : 0 ≤ l) (h0 : k < i) (h1 : i < j) (h2 : j < l) (hL : l < L) :
    ∃ ch : OpChain κ, molIntChain i j k l coeff = .ok ch ∧ ch.coeff = coeff ∧
      ch.paddedWord L 0 = fw L.toNat (intF i.toNat j.toNat k.toNat l.toNat) := by
  unfold molIntChain
  simp (disch := omega) only [sortPairs, List.foldr, insertPair_nil, insertPair_le, insertPair_gt, mC, mA, mN, mI, mZ,
    beq_iff_eq, if_pos, if_neg, decide_eq_true, pyAssert_true_bind, bind_pure_comp, pure_bind]
  refine ⟨_, mk'_ok _ _ _ _ (by chain_side) (by omega), rfl, ?_⟩
  refine word_eq _ [(k.toNat, 0), (1, -1), ((i - k - 1).toNat, 3), (1, 1), ((j - i - 1).toNat, 0), (1, 1), ((l - j - 1).toNat, 3), (1, -1), ((L - 1 - l).toNat, 0)] _ _ ?_ ?_ ?_
  · simp [expand, pyRepeat, OpChain.paddedWord, OpChain.length]
    omega
  · simp [total]; omega
  · refine ⟨?_, ?_, ?_, ?_, ?_, ?_, ?_, ?_, ?_, trivial⟩ <;> agree_int

theorem molInt_case10 (L i j k : Int) (coeff : κ) (pi : 0 ≤ i) (pj : 0 ≤ j) (pk : 0 ≤ k) (h0 : k < i) (h1 : i < j) (hL : j < L) :
    ∃ ch : OpChain κ, molIntChain i j k j coeff = .ok ch ∧ ch.coeff = coeff ∧
      ch.paddedWord L 0 = fw L.toNat (intF i.toNat j.toNat k.toNat j.toNat) := by
  unfold molIntChain
  simp (disch := omega) only [sortPairs, List.foldr, insertPair_nil, insertPair_le, insertPair_gt, mC, mA, mN, mI, mZ,
    beq_iff_eq, if_pos, if_neg, decide_eq_true, pyAssert_true_bind, bind_pure_comp, pure_bind]
  refine ⟨_, mk'_ok _ _ _ _ (by chain_side) (by omega), rfl, ?_⟩
  refine word_eq _ [(k.toNat, 0), (1, -1), ((i - k - 1).toNat, 3), (1, 1), ((j - i - 1).toNat, 0), (1, 2), ((L - 1 - j).toNat, 0)] _ _ ?_ ?_ ?_
  · simp [expand, pyRepeat, OpChain.paddedWord, OpChain.length]
    omega
  · simp [total]; omega
  · refine ⟨?_, ?_, ?_, ?_, ?_, ?_, ?_, trivial⟩ <;> agree_int

theorem molInt_case11 (L i j k l : Int) (coeff : κ) (pi : 0 ≤ i) (pj : 0 ≤ j) (pk : 0 ≤ k) (pl : 0 ≤ l) (h0 : k < i) (h1 : i < l) (h2 : l < j) (hL : j < L) :
    ∃ ch : OpChain κ, molIntChain i j k l coeff = .ok ch ∧ ch.coeff = coeff ∧
      ch.paddedWord L 0 = fw L.toNat (intF i.toNat j.toNat k.toNat l.toNat) := by
  unfold molIntChain
  simp (disch := omega) only [sortPairs, List.foldr, insertPair_nil, insertPair_le, insertPair_gt, mC, mA, mN, mI, mZ,
    beq_iff_eq, if_pos, if_neg, decide_eq_true, pyAssert_true_bind, bind_pure_comp, pure_bind]
  refine ⟨_, mk'_ok _ _ _ _ (by chain_side) (by omega), rfl, ?_⟩
  refine word_eq _ [(k.toNat, 0), (1, -1), ((i - k - 1).toNat, 3), (1, 1), ((l - i - 1).toNat, 0), (1, -1), ((j - l - 1).toNat, 3), (1, 1), ((L - 1 - j).toNat, 0)] _ _ ?_ ?_ ?_
  · simp [expand, pyRepeat, OpChain.paddedWord, OpChain.length]
    omega
  · simp [total]; omega
  · refine ⟨?_, ?_, ?_, ?_, ?_, ?_, ?_, ?_, ?_, trivial⟩ <;> agree_int

theorem molInt_case12 (L i j k : Int) (coeff : κ) (pi : 0 ≤ i) (pj : 0 ≤ j) (pk : 0 ≤ k) (h0 : k < i) (h1 : i < j) (hL : j < L) :
    ∃ ch : OpChain κ, molIntChain i j k i coeff = .ok ch ∧ ch.coeff = coeff ∧
      ch.paddedWord L 0 = fw L.toNat (intF i.toNat j.toNat k.toNat i.toNat) := by
  unfold molIntChain
  simp (disch := omega) only [sortPairs, List.foldr, insertPair_nil, insertPair_le, insertPair_gt, mC, mA, mN, mI, mZ,
    beq_iff_eq, if_pos, if_neg, decide_eq_true, pyAssert_true_bind, bind_pure_comp, pure_bind]
  refine ⟨_, mk'_ok _ _ _ _ (by chain_side) (by omega), rfl, ?_⟩
  refine word_eq _ [(k.toNat, 0), (1, -1), ((i - k - 1).toNat, 3), (1, 2), ((j - i - 1).toNat, 3), (1, 1), ((L - 1 - j).toNat, 0)] _ _ ?_ ?_ ?_
  · simp [expand, pyRepeat, OpChain.paddedWord, OpChain.length]
    omega
  · simp [total]; omega
  · refine ⟨?_, ?_, ?_, ?_, ?_, ?_, ?_, trivial⟩ <;> agree_int

theorem molInt_case13 (L i j k l : Int) (coeff : κ) (pi : 0 ≤ i) (pj : 0 ≤ j) (pk : 0 ≤ k) (pl : 0 ≤ l) (h0 : k < l) (h1 : l < i) (h2 : i < j) (hL : j < L) :
    ∃ ch : OpChain κ, molIntChain i j k l coeff = .ok ch ∧ ch.coeff = coeff ∧
      ch.paddedWord L 0 = fw L.toNat (intF i.toNat j.toNat k.toNat l.toNat) := by
  unfold molIntChain
  simp (disch := omega) only [sortPairs, List.foldr, insertPair_nil, insertPair_le, insertPair_gt, mC, mA, mN, mI, mZ,
    beq_iff_eq, if_pos, if_neg, decide_eq_true, pyAssert_true_bind, bind_pure_comp, pure_bind]
  refine ⟨_, mk'_ok _ _ _ _ (by chain_side) (by omega), rfl, ?_⟩
  refine word_eq _ [(k.toNat, 0), (1, -1), ((l - k - 1).toNat, 3), (1, -1), ((i - l - 1).toNat, 0), (1, 1), ((j - i - 1).toNat, 3), (1, 1), ((L - 1 - j).toNat, 0)] _ _ ?_ ?_ ?_
  · simp [expand, pyRepeat, OpChain.paddedWord, OpChain.length]
    omega
  · simp [total]; omega
  · refine ⟨?_, ?_, ?_, ?_, ?_, ?_, ?_, ?_, ?_, trivial⟩ <;> agree_int

/-- **the interaction chains**: for all `i < j < n`, `k < l < n` the chain `molecular_hamiltonian_mpo` creates for
`coeff · a†_i a†_j a_l a_k` has coefficient `coeff` and identity-padded word `fw n (intF i j k l)` -/
theorem molInt_spec (n i j k l : Nat) (hij : i < j) (hj : j < n) (hkl : k < l) (hl : l < n) (coeff : κ) :
    ∃ ch : OpChain κ, molIntChain (i : Int) (j : Int) (k : Int) (l : Int) coeff = .ok ch ∧ ch.coeff = coeff ∧
      ch.paddedWord (n : Int) 0 = fw n (intF i j k l) := by
  rcases Nat.lt_trichotomy i k with h1 | h1 | h1
  · rcases Nat.lt_trichotomy j k with h2 | h2 | h2
    · simpa using molInt_case1 (n : Int) i j k l coeff (by omega) (by omega) (by omega) (by omega)
        (by omega) (by omega) (by omega) (by omega)
    · subst h2
      simpa using molInt_case2 (n : Int) i j l coeff (by omega) (by omega) (by omega) (by omega) (by omega) (by omega)
    · rcases Nat.lt_trichotomy j l with h3 | h3 | h3
      · simpa using molInt_case3 (n : Int) i j k l coeff (by omega) (by omega) (by omega) (by omega)
          (by omega) (by omega) (by omega) (by omega)
      · subst h3
        simpa using molInt_case4 (n : Int) i j k coeff (by omega) (by omega) (by omega) (by omega) (by omega) (by omega)
      · simpa using molInt_case5 (n : Int) i j k l coeff (by omega) (by omega) (by omega) (by omega)
          (by omega) (by omega) (by omega) (by omega)
  · subst h1
    rcases Nat.lt_trichotomy j l with h3 | h3 | h3
    · simpa using molInt_case6 (n : Int) i j l coeff (by omega) (by omega) (by omega) (by omega) (by omega) (by omega)
    · subst h3
      simpa using molInt_case7 (n : Int) i j coeff (by omega) (by omega) (by omega) (by omega)
    · simpa using molInt_case8 (n : Int) i j l coeff (by omega) (by omega) (by omega) (by omega) (by omega) (by omega)
  · rcases Nat.lt_trichotomy i l with h2 | h2 | h2
    · rcases Nat.lt_trichotomy j l with h3 | h3 | h3
      · simpa using molInt_case9 (n : Int) i j k l coeff (by omega) (by omega) (by omega) (by omega)
          (by omega) (by omega) (by omega) (by omega)
      · subst h3
        simpa using molInt_case10 (n : Int) i j k coeff (by omega) (by omega) (by omega) (by omega) (by omega) (by omega)
      · simpa using molInt_case11 (n : Int) i j k l coeff (by omega) (by omega) (by omega) (by omega)
          (by omega) (by omega) (by omega) (by omega)
    · subst h2
      simpa using molInt_case12 (n : Int) i j k coeff (by omega) (by omega) (by omega) (by omega) (by omega) (by omega)
    · simpa using molInt_case13 (n : Int) i j k l coeff (by omega) (by omega) (by omega) (by omega)
        (by omega) (by omega) (by omega) (by omega)

/-- the dense entry of `a†_i a†_j a_l a_k = (a†_i a†_j)(a_l a_k)` under the Jordan-Wigner matrices -/
def jw4 (n i j k l : Nat) (s t : List Nat) : κ :=
  sumDigits 2 n (fun u =>
    (sumDigits 2 n fun u1 => wordWeight (molOpmap : OpMap κ) (jwC n i) s u1 * wordWeight molOpmap (jwC n j) u1 u) *
    (sumDigits 2 n fun u3 => wordWeight molOpmap (jwA n l) u u3 * wordWeight molOpmap (jwA n k) u3 t))

theorem mem_intTuples (L : Int) (q : Int × Int × Int × Int) :
    q ∈ intTuples L ↔ 0 ≤ q.1 ∧ q.1 < q.2.1 ∧ q.2.1 < L ∧ 0 ≤ q.2.2.1 ∧ q.2.2.1 < q.2.2.2 ∧ q.2.2.2 < L := by
  obtain ⟨i, j, k, l⟩ := q
  simp only [intTuples, mem_flatMap, mem_map, mem_pyRange, Prod.mk.injEq]
  constructor
  · rintro ⟨i', ⟨a1, a2⟩, j', ⟨b1, b2⟩, k', ⟨c1, c2⟩, l', ⟨d1, d2⟩, rfl, rfl, rfl, rfl⟩
    exact ⟨a1, by omega, b2, c1, by omega, d2⟩
  · rintro ⟨a1, a2, a3, a4, a5, a6⟩
    exact ⟨i, ⟨a1, by omega⟩, j, ⟨by omega, a3⟩, k, ⟨a4, by omega⟩, l, ⟨by omega, a6⟩, rfl, rfl, rfl, rfl⟩

/-- **the two-body part, chain by chain**: the chains of the interaction loop, as a dense operator, are
`Σ_{i<j, k<l} gint_ijkl · a†_i a†_j a_l a_k` under the Jordan-Wigner matrices -/
theorem int_two_body (c : Consts κ) (n : Nat) (vint : List (List (List (List κ)))) (int : List (OpChain κ))
    (h : (intTuples n).mapM (fun (q : Int × Int × Int × Int) =>
      molIntChain q.1 q.2.1 q.2.2.1 q.2.2.2 (gint c vint q.1 q.2.1 q.2.2.1 q.2.2.2)) = .ok int)
    (s t : List Nat) (hs : s.length = n) (ht : t.length = n) :
    termsEntry molOpmap (denChainsRaw int (n : Int) 0) s t =
      ((intTuples n).map fun q => gint c vint q.1 q.2.1 q.2.2.1 q.2.2.2 *
        jw4 n q.1.toNat q.2.1.toNat q.2.2.1.toNat q.2.2.2.toNat s t).sum := by
  obtain ⟨e1, _⟩ := mapM_sum _
    (fun ch : OpChain κ => ch.coeff * wordWeight molOpmap (ch.paddedWord (n : Int) 0) s t)
    (fun q : Int × Int × Int × Int => gint c vint q.1 q.2.1 q.2.2.1 q.2.2.2 *
      jw4 n q.1.toNat q.2.1.toNat q.2.2.1.toNat q.2.2.2.toNat s t)
    _ int h (by
      intro q hq y hy
      obtain ⟨a1, a2, a3, a4, a5, a6⟩ := (mem_intTuples _ q).1 hq
      obtain ⟨ch, hch, hc, hw⟩ := molInt_spec n q.1.toNat q.2.1.toNat q.2.2.1.toNat q.2.2.2.toNat (by omega) (by omega)
        (by omega) (by omega) (gint c vint q.1 q.2.1 q.2.2.1 q.2.2.2)
      have e1 : ((q.1.toNat : Nat) : Int) = q.1 := by omega
      have e2 : ((q.2.1.toNat : Nat) : Int) = q.2.1 := by omega
      have e3 : ((q.2.2.1.toNat : Nat) : Int) = q.2.2.1 := by omega
      have e4 : ((q.2.2.2.toNat : Nat) : Int) = q.2.2.2 := by omega
      rw [e1, e2, e3, e4] at hch
      rw [hch] at hy
      cases hy
      simp only [hc, hw]
      rw [jw4, jw_int_dense n _ _ _ _ (by omega) (by omega) (by omega) (by omega) s t hs ht])
  unfold termsEntry denChainsRaw
  rw [map_map]
  simp only [Function.comp_def]
  exact e1

end Ptn.Ham2

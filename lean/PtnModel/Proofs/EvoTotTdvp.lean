import PtnModel.Proofs.EvoTotLocal
import PtnModel.Proofs.HistEvoTdvp1
/-!
# Totality of the single-site TDVP sweep

`TInv H qd s c E` : the mixed-canonical invariant `DInv` (norm one, energy `E`) together with the block-sparsity invariant
`HistWf.EvoSparse` (centre `c`).  Under the kernel contracts every sub-call of the loop bodies returns:
* the Krylov steps because their start tensors have norm one (`DInv`) — `centre_step_ok`;
* the block QR because its input is block sparse (`EvoSparse`) with positive dimensions;
* the environment steps and the dimension checks by the shapes of `Canon`.
-/
set_option linter.unusedSectionVars false

namespace Ptn.Evo
open Ptn Ptn.BondOps Ptn.Ortho Ptn.Env Ptn.Krylov Ptn.Dense Finset

/-! ## loops that return -/

theorem foldIdx_nil {σ : Type} (f : σ → Nat → Except Err σ) (s : σ) : foldIdx f [] s = .ok s := rfl

theorem foldIdx_cons_ok {σ : Type} (f : σ → Nat → Except Err σ) (x : Nat) (xs : List Nat) (s r : σ) :
    foldIdx f (x :: xs) s = .ok r ↔ ∃ s', f s x = .ok s' ∧ foldIdx f xs s' = .ok r :=
  foldlM_ok_cons f s x xs r

/-- ascending loop: every body returns and moves the invariant forward -/
theorem foldIdx_range_ok {σ : Type} (f : σ → Nat → Except Err σ) (P : Nat → σ → Prop) :
    ∀ (n : Nat), (∀ i, i < n → ∀ s, P i s → ∃ s', f s i = .ok s' ∧ P (i + 1) s') →
    ∀ s, P 0 s → ∃ r, foldIdx f (List.range n) s = .ok r ∧ P n r
  | 0, _, s, h0 => ⟨s, rfl, h0⟩
  | n + 1, step, s, h0 => by
    obtain ⟨t, h1, ht⟩ := foldIdx_range_ok f P n (fun i hi => step i (by omega)) s h0
    obtain ⟨t', h2, ht'⟩ := step n (by omega) t ht
    refine ⟨t', ?_, ht'⟩
    rw [List.range_succ, foldIdx_append]
    refine ⟨t, h1, ?_⟩
    rw [foldIdx_cons_ok]
    exact ⟨t', h2, rfl⟩

/-- descending loop `for i in reversed(range(1, n+1))` -/
theorem foldIdx_down_ok {σ : Type} (f : σ → Nat → Except Err σ) (P : Nat → σ → Prop) :
    ∀ (n : Nat), (∀ i, i < n → ∀ s, P (i + 1) s → ∃ s', f s (i + 1) = .ok s' ∧ P i s') →
    ∀ s, P n s → ∃ r, foldIdx f ((List.range n).reverse.map (· + 1)) s = .ok r ∧ P 0 r
  | 0, _, s, h0 => ⟨s, rfl, h0⟩
  | n + 1, step, s, h0 => by
    obtain ⟨t, h1, ht⟩ := step n (by omega) s h0
    obtain ⟨r, h2, hr⟩ := foldIdx_down_ok f P n (fun i hi => step i (by omega)) t ht
    refine ⟨r, ?_, hr⟩
    rw [List.range_succ, List.reverse_append, List.reverse_singleton, List.singleton_append, List.map_cons,
      foldIdx_cons_ok]
    exact ⟨t, h1, h2⟩

theorem iterate_ok {σ : Type} (f : σ → Except Err σ) (P : σ → Prop) (step : ∀ s, P s → ∃ s', f s = .ok s' ∧ P s') :
    ∀ (n : Nat) (s : σ), P s → ∃ r, iterate f n s = .ok r ∧ P r
  | 0, s, h => ⟨s, rfl, h⟩
  | n + 1, s, h => by
    obtain ⟨s', h1, hs'⟩ := step s h
    obtain ⟨r, h2, hr⟩ := iterate_ok f P step n s' hs'
    refine ⟨r, ?_, hr⟩
    unfold iterate
    rw [bind_ok]
    exact ⟨s', h1, h2⟩

variable {𝕜 : Type} [RCLike 𝕜] [DecidableEq 𝕜]
local notation "conj" => starRingEnd 𝕜

variable {k : EvoKernels 𝕜 ℝ} {H : MPO 𝕜} {qd : List Int} {numiter : Nat}

/-- the two sweep invariants together -/
structure TInv (H : MPO 𝕜) (qd : List Int) (s : Sweep 𝕜) (c : Nat) (E : ℝ) : Prop where
  d : DInv H qd s c E
  sp : HistWf.EvoSparse H qd s c c

omit [DecidableEq 𝕜] in
/-- tensors of the same shape with the same in-range entries have the same Frobenius norm -/
theorem frob3_congr {X Y : T3 𝕜} (x0 : X.d0 = Y.d0) (x1 : X.d1 = Y.d1) (x2 : X.d2 = Y.d2)
    (h : ∀ s a b, s < Y.d0 → a < Y.d1 → b < Y.d2 → X.f s a b = Y.f s a b) : frob3 X = frob3 Y := by
  unfold frob3
  rw [x0, x1, x2]
  exact sum_congr rfl fun s hs => sum_congr rfl fun a ha => sum_congr rfl fun b hb => by
    rw [h s a b (mem_range.1 hs) (mem_range.1 ha) (mem_range.1 hb)]

/-- the centre tensor of a normalised mixed-canonical state has Frobenius norm one -/
theorem centre_frob (ctx : SweepCtx k H qd numiter) {s : Sweep 𝕜} {c : Nat} {E : ℝ} (h : DInv H qd s c E) :
    frob3 (getA s c) = 1 := by
  obtain ⟨hn0, _⟩ := canon_centre h.can ctx.hH
  have := hn0.symm.trans h.nrm
  exact_mod_cast this

/-- **the local Krylov step at the centre returns** (any time argument) -/
theorem centre_step_ok (ctx : SweepCtx k H qd numiter) (hm : 1 ≤ numiter) {s : Sweep 𝕜} {c : Nat} {E : ℝ}
    (h : DInv H qd s c E) (δ : 𝕜) :
    ∃ A1, localHamiltonianStep k (getBL s c) (getBR s c) (H.A.getD c zeroT4) (getA s c) δ numiter = .ok A1 :=
  localStep_isOk ctx.norm (cnorm_pos_flat3 ctx.norm (by rw [centre_frob ctx h]; exact one_pos)) hm (ctx.eigh _ _) δ

/-- **the left-to-right loop body returns** and keeps both invariants -/
theorem tdvp1Left_ok (ctx : SweepCtx k H qd numiter) (hexp : ∀ x : ℝ, ‖k.dexp (RCLike.I * (x : 𝕜))‖ = 1)
    {hh τ : ℝ} (hhalf : k.half = ((hh : ℝ) : 𝕜)) {dt : 𝕜} (hdt : dt = RCLike.I * ((τ : ℝ) : 𝕜)) (hm : 1 ≤ numiter)
    (hH : HistWf.HOk H qd) {s : Sweep 𝕜} {i : Nat} {E : ℝ} (h : TInv H qd s i E) (hi1 : i + 1 < H.A.length) :
    ∃ s', tdvp1Left k H qd dt numiter s i = .ok s' ∧ TInv H qd s' (i + 1) E := by
  have hδ1 : -(k.half * dt) = RCLike.I * ((-(hh * τ) : ℝ) : 𝕜) := by rw [hhalf, hdt]; push_cast; ring
  -- 1. forward half step
  obtain ⟨A1, h1⟩ := centre_step_ok ctx hm h.d (k.half * dt)
  obtain ⟨hsa, a0, a1, a2⟩ := centre_step_inv ctx hexp h.d hδ1 h1
  have hics : i < s.A.size := by rw [h.d.can.wf.sizeA]; omega
  have gsa : getA (⟨s.A.setIfInBounds i A1, s.qD, s.BL, s.BR⟩ : Sweep 𝕜) i = A1 := getD_setIfInBounds_eq _ _ _ hics
  have hfrobA1 : frob3 A1 = 1 := by
    have := centre_frob ctx hsa
    rwa [gsa] at this
  obtain ⟨s0, s1, s2⟩ := h.d.can.wf.shape i (by omega)
  obtain ⟨n0, n1, n2⟩ := h.d.can.wf.shape (i + 1) hi1
  -- 2. block QR
  have hwfA1 : T3Wf A1 qd (getQ s i) (getQ s (i + 1)) :=
    HistWf.localStep_wf hH h.sp (by omega) (Nat.le_refl _) (Nat.le_refl _) (h.sp.site i (by omega)) h1
  have hin := qrInput_flattenLeft hwfA1 ctx.dpos (h.d.can.wf.qpos i (by omega)) (h.d.can.wf.qpos (i + 1) (by omega))
  obtain ⟨Q, C, qb, h2⟩ := qr_ok' (fun B _ => ctx.qr.contract.shape B) hin
  have hf := qr_facts ctx.qr.contract hin.hm hin.hn h2
  set Ai : T3 𝕜 := (T3.ofFlattenLeft Q A1.d0 A1.d1).tab with hAi
  have hAiIso : LeftIso Ai := leftQR_iso hf
  have hAi2 : Ai.d2 = qb.length := hf.Qn
  have hCm : C.m = Ai.d2 := hf.Rm.trans hAi2.symm
  have hCn : C.n = A1.d2 := hf.Rn
  have hA1 : ∀ a x b, a < A1.d0 → x < A1.d1 → b < A1.d2 → (mulRight Ai C).f a x b = A1.f a x b := by
    intro a x b ha hx hb
    have hr : a * A1.d1 + x < A1.d0 * A1.d1 := fused_lt ha hx
    have := hf.prod (a * A1.d1 + x) b hr hb
    rw [Mat.tab_f A1.flattenLeft hr hb] at this
    show ∑ p ∈ range Ai.d2, Ai.f a x p * C.f p b = _
    rw [hAi2]
    have e : A1.flattenLeft.f (a * A1.d1 + x) b = A1.f a x b := by
      show A1.f ((a * A1.d1 + x) / A1.d1) ((a * A1.d1 + x) % A1.d1) b = _
      rw [fused_div hx, fused_mod hx]
    rw [← e, ← this]
    refine sum_congr rfl fun p hp => ?_
    rw [hAi, Env.t3_tab_f (A := T3.ofFlattenLeft Q A1.d0 A1.d1) ha hx (by show p < Q.n; rw [hf.Qn]; exact mem_range.1 hp)]
    rfl
  -- 3. the new left block
  obtain ⟨hF, hHerm⟩ := canon_local hsa.can ctx.hH ctx.herm
  rw [gsa] at hF hHerm
  have hF' : LocalFits (getBL s i) (getBR s i) (H.A.getD i zeroT4) Ai.d0 Ai.d1 A1.d2 := hF
  have hH' : LocalHermitian (getBL s i) (getBR s i) (H.A.getD i zeroT4) Ai.d0 Ai.d1 A1.d2 := hHerm
  obtain ⟨BLn, h3, _⟩ := opStepLeft_ok Ai Ai (H.A.getD i zeroT4) (getBL s i) hF'.l2 hF'.w0 hF'.w2 hF'.w1.symm hF'.l0.symm
  obtain ⟨hFB, hHB⟩ := bondHermitian_left hF' hH' h3
  -- 4. backward zero-site step: `C` has norm one
  have hfrobC : frob2 C = 1 := by
    rw [← frob_mulRight hAiIso hCm, frob3_congr (X := mulRight Ai C) (Y := A1) rfl rfl hCn hA1, hfrobA1]
  obtain ⟨C1, h4⟩ := bondStep_isOk (k := k) (L := BLn) (R := getBR s i)
    ctx.norm (cnorm_pos_flat2 ctx.norm (by rw [hfrobC]; exact one_pos)) hm (ctx.eigh _ _) (-(k.half * dt))
  obtain ⟨c0, c1⟩ := bondStep_dims h4
  have hc : C1.n = (getA s (i + 1)).d1 := by rw [c1, hCn, a2, s2, n1]
  -- 5. assemble
  have hrun : tdvp1Left k H qd dt numiter s i =
      .ok ⟨(s.A.setIfInBounds i Ai).setIfInBounds (i + 1) (pushLeft (getA s (i + 1)) C1),
        s.qD.setIfInBounds (i + 1) qb, s.BL.setIfInBounds (i + 1) BLn, s.BR⟩ := by
    unfold tdvp1Left
    rw [bind_ok]
    refine ⟨A1, h1, ?_⟩
    rw [bind_ok]
    refine ⟨(Q, C, qb), h2, ?_⟩
    dsimp only
    rw [bind_ok]
    refine ⟨BLn, h3, ?_⟩
    rw [bind_ok]
    refine ⟨C1, h4, ?_⟩
    rw [if_neg (not_not.2 hc)]
    rfl
  exact ⟨_, hrun, tdvp1Left_inv ctx hexp hhalf hdt h.d hi1 hrun,
    HistWf.tdvp1Left_sparse ctx.qr.contract.shape hH h.sp hi1 hrun⟩

/-- the state of the right-to-left loop body after the gauge move and before the final local step: the first three
sub-runs keep `DInv` (centre `j`) — the first part of `tdvp1Right_inv`, without the final run -/
theorem tdvp1Right_mid (ctx : SweepCtx k H qd numiter) (hexp : ∀ x : ℝ, ‖k.dexp (RCLike.I * (x : 𝕜))‖ = 1)
    {hh τ : ℝ} (hhalf : k.half = ((hh : ℝ) : 𝕜)) {dt : 𝕜} (hdt : dt = RCLike.I * ((τ : ℝ) : 𝕜))
    {s : Sweep 𝕜} {j : Nat} {E : ℝ} (h : DInv H qd s (j + 1) E) {Q C : Mat 𝕜} {qb : List Int} {BRn : T3 𝕜} {C1 : Mat 𝕜}
    (h1 : BondOps.qr k.dqr (getA s (j + 1)).swap12.flattenLeft.tab (QN.flatten2 qd (QN.neg (getQ s (j + 2))))
      (QN.neg (getQ s (j + 1))) = .ok (Q, C, qb))
    (h2 : Op.opStepRight (T3.ofFlattenLeft Q (getA s (j + 1)).d0 (getA s (j + 1)).d2).swap12.tab
      (T3.ofFlattenLeft Q (getA s (j + 1)).d0 (getA s (j + 1)).d2).swap12.tab (H.A.getD (j + 1) zeroT4)
      (getBR s (j + 1)) = .ok BRn)
    (h3 : localBondStep k (getBL s (j + 1)) BRn C.transpose.tab (-(k.half * dt)) numiter = .ok C1) :
    DInv H qd (⟨(s.A.setIfInBounds (j + 1) (T3.ofFlattenLeft Q (getA s (j + 1)).d0 (getA s (j + 1)).d2).swap12.tab).setIfInBounds j
      (pushRight (getA s j) C1), s.qD.setIfInBounds (j + 1) (QN.neg qb), s.BL, s.BR.setIfInBounds j BRn⟩ : Sweep 𝕜) j E := by
  have hδ2 : -(-(k.half * dt)) = RCLike.I * ((hh * τ : ℝ) : 𝕜) := by rw [hhalf, hdt]; push_cast; ring
  have hi : j + 1 < H.A.length := h.can.hc
  have hics : j + 1 < s.A.size := by rw [h.can.wf.sizeA]; exact hi
  have hjcs : j < s.A.size := by omega
  obtain ⟨s0, s1, s2⟩ := h.can.wf.shape (j + 1) hi
  obtain ⟨p0, p1, p2⟩ := h.can.wf.shape j (by omega)
  set Ac := getA s (j + 1) with hAc
  have hm : 0 < Ac.swap12.flattenLeft.tab.m := by
    show 0 < Ac.d0 * Ac.d2
    rw [s0, s2]; exact Nat.mul_pos ctx.dpos (h.can.wf.qpos (j + 2) (by omega))
  have hn : 0 < Ac.swap12.flattenLeft.tab.n := by
    show 0 < Ac.d1
    rw [s1]; exact h.can.wf.qpos (j + 1) (by omega)
  have hf := qr_facts ctx.qr.contract hm hn h1
  set Ai : T3 𝕜 := (T3.ofFlattenLeft Q Ac.d0 Ac.d2).swap12.tab with hAi
  have hAiIso : RightIso Ai := rightQR_iso hf
  have hAi1 : Ai.d1 = qb.length := hf.Qn
  set Ct : Mat 𝕜 := C.transpose.tab with hCt
  have hCtm : Ct.m = Ac.d1 := hf.Rn
  have hCtn : Ct.n = Ai.d1 := hf.Rm.trans hAi1.symm
  have hAcf : ∀ a x b, a < Ac.d0 → x < Ac.d1 → b < Ac.d2 → (mulLeft Ct Ai).f a x b = Ac.f a x b := by
    intro a x b ha hx hb
    have hr : a * Ac.d2 + b < Ac.d0 * Ac.d2 := fused_lt ha hb
    have := hf.prod (a * Ac.d2 + b) x hr hx
    rw [Mat.tab_f Ac.swap12.flattenLeft hr hx] at this
    show ∑ p ∈ range Ai.d1, Ct.f x p * Ai.f a p b = _
    rw [hAi1]
    have e : Ac.swap12.flattenLeft.f (a * Ac.d2 + b) x = Ac.f a x b := by
      show Ac.f ((a * Ac.d2 + b) / Ac.d2) x ((a * Ac.d2 + b) % Ac.d2) = _
      rw [fused_div hb, fused_mod hb]
    rw [← e, ← this]
    refine sum_congr rfl fun p hp => ?_
    have hp' : p < qb.length := mem_range.1 hp
    rw [hAi, Env.t3_tab_f (A := (T3.ofFlattenLeft Q Ac.d0 Ac.d2).swap12) ha (by show p < Q.n; rw [hf.Qn]; exact hp') hb,
      hCt, Env.mat_tab_f C.transpose (by show x < C.n; rw [hf.Rn]; exact hx) (by show p < C.m; rw [hf.Rm]; exact hp')]
    show C.f p x * Q.f (a * Ac.d2 + b) p = _
    ring
  obtain ⟨hF, hHerm⟩ := canon_local h.can ctx.hH ctx.herm
  have hF' : LocalFits (getBL s (j + 1)) (getBR s (j + 1)) (H.A.getD (j + 1) zeroT4) Ai.d0 Ac.d1 Ai.d2 := hF
  have hH' : LocalHermitian (getBL s (j + 1)) (getBR s (j + 1)) (H.A.getD (j + 1) zeroT4) Ai.d0 Ac.d1 Ai.d2 := hHerm
  obtain ⟨hFB, hHB⟩ := bondHermitian_right hF' hH' h2
  have hFB' : BondFits (getBL s (j + 1)) BRn Ct.m Ct.n := by rw [hCtm, hCtn]; exact hFB
  have hHB' : BondHermitian (getBL s (j + 1)) BRn Ct.m Ct.n := by rw [hCtm, hCtn]; exact hHB
  have hEb := ctx.eigh (localBondFun (getBL s (j + 1)) BRn Ct.m Ct.n) (flat2 Ct)
  obtain ⟨c0, c1, hfrobC⟩ := bondStep_norm ctx.norm hFB' hHB' hEb hexp hδ2 h3
  obtain ⟨KC, hKC, _⟩ := applyBond_ker hFB' (C := Ct) rfl rfl
  obtain ⟨KC1, hKC1, _⟩ := applyBond_ker hFB' (C := C1) c0 c1
  have henC := bondStep_energy ctx.norm hFB' hHB' hEb hexp hδ2 h3 hKC hKC1
  set B : T3 𝕜 := mulLeft C1 Ai with hB
  have hBd : B.d0 = Ac.d0 ∧ B.d1 = Ac.d1 ∧ B.d2 = Ac.d2 := ⟨rfl, c0.trans hCtm, rfl⟩
  have hcanB := canon_replace h.can (X := B) hBd
  set sb : Sweep 𝕜 := ⟨s.A.setIfInBounds (j + 1) B, s.qD, s.BL, s.BR⟩ with hsbdef
  have gsb : getA sb (j + 1) = B := getD_setIfInBounds_eq _ _ _ hics
  have gsbj : getA sb j = getA s j := by
    show (s.A.setIfInBounds (j + 1) B).getD j emptyT3 = _
    rw [getD_setIfInBounds_ne _ _ _ (by omega)]; rfl
  obtain ⟨hnB, heB⟩ := canon_centre hcanB ctx.hH
  rw [gsb] at hnB heB
  obtain ⟨hnA, heA⟩ := canon_centre h.can ctx.hH
  have hFm : LocalFits (getBL s (j + 1)) (getBR s (j + 1)) (H.A.getD (j + 1) zeroT4) (mulLeft Ct Ai).d0
      (mulLeft Ct Ai).d1 (mulLeft Ct Ai).d2 := by
    show LocalFits _ _ _ Ai.d0 Ct.m Ai.d2
    rw [hCtm]; exact hF'
  obtain ⟨TAc, hTAc, _⟩ := applyLocal_ker hF (A := Ac) rfl rfl rfl
  obtain ⟨TCA, hTCA, _⟩ := applyLocal_ker hF' (A := mulLeft Ct Ai) rfl hCtm rfl
  obtain ⟨TB, hTB, _⟩ := applyLocal_ker hF' (A := B) rfl (c0.trans hCtm) rfl
  obtain ⟨hcong1, hcong2⟩ := local_congr (X := Ac) (Y := mulLeft Ct Ai) hFm rfl hCtm.symm rfl
    (fun a x b ha hx hb => (hAcf a x b ha (by rw [← hCtm]; exact hx) hb).symm) hTAc hTCA
  have hDB : DInv H qd sb (j + 1) E := by
    refine ⟨hcanB, ?_, ?_⟩
    · rw [hnB, hB, frob_mulLeft hAiIso (c1.trans hCtn), hfrobC, ← frob_mulLeft hAiIso hCtn, ← hcong2, ← hnA]
      exact h.nrm
    · rw [heB TB hTB, hB, inner_proj_right hF' h2 (c0.trans hCtm) (c1.trans hCtn) hKC1 hTB, henC,
        ← inner_proj_right hF' h2 hCtm hCtn hKC hTCA, ← hcong1, ← heA TAc hTAc]
      exact h.en
  obtain ⟨hcan', hamp⟩ := canon_right hDB.can ctx.hH (X' := pushRight (getA s j) C1) (Y' := Ai) (qb := QN.neg qb)
    (BRn := BRn) ⟨p0, p1, by rw [neg_len]; exact c1.trans hf.Rm⟩ ⟨s0, by rw [neg_len]; exact hAi1, s2⟩
    (by rw [neg_len]; exact hf.pos) hAiIso
    (fun a0' a a1' y ha0 ha ha1 hy => by
      rw [gsb, gsbj] at *
      show ∑ x ∈ range C1.n, (pushRight (getA s j) C1).f a0' a x * Ai.f a1' x y =
        ∑ x ∈ range (getA s j).d2, (getA s j).f a0' a x * ∑ p ∈ range Ai.d1, C1.f x p * Ai.f a1' p y
      have e1 : ∀ x ∈ range C1.n, (pushRight (getA s j) C1).f a0' a x * Ai.f a1' x y =
          ∑ b ∈ range (getA s j).d2, (getA s j).f a0' a b * C1.f b x * Ai.f a1' x y := by
        intro x hx
        rw [pushRight_f _ _ (by rw [p0]; exact ha0) ha (mem_range.1 hx), Finset.sum_mul]
      rw [Finset.sum_congr rfl e1, Finset.sum_comm]
      refine sum_congr rfl fun b _ => ?_
      rw [Finset.mul_sum, c1, hCtn]
      exact sum_congr rfl fun p _ => by ring)
    (by rw [show getBR sb (j + 1) = getBR s (j + 1) from rfl]; exact h2)
  set sc : Sweep 𝕜 := ⟨(s.A.setIfInBounds (j + 1) Ai).setIfInBounds j (pushRight (getA s j) C1),
    s.qD.setIfInBounds (j + 1) (QN.neg qb), s.BL, s.BR.setIfInBounds j BRn⟩ with hscdef
  have hfin : (⟨(sb.A.setIfInBounds (j + 1) Ai).setIfInBounds j (pushRight (getA s j) C1),
      sb.qD.setIfInBounds (j + 1) (QN.neg qb), sb.BL, sb.BR.setIfInBounds j BRn⟩ : Sweep 𝕜) = sc := by
    simp [hsbdef, hscdef]
  rw [hfin] at hcan' hamp
  obtain ⟨e1, e2⟩ := normSq_energy_congr (o := H) (d := qd.length) (hcan'.len.trans hDB.can.len.symm)
    (fun σ hσ => hamp σ (by rw [← hDB.can.len]; exact hσ))
  exact ⟨hcan', e1.trans hDB.nrm, e2.trans hDB.en⟩

omit [DecidableEq 𝕜] in
/-- `A = Rᵀ · Q'` on in-range indices, for the factors of the block QR of the transposed tensor -/
theorem rightQR_recon {Ac : T3 𝕜} {Q C : Mat 𝕜} {qb : List Int} (hf : QRFacts Ac.swap12.flattenLeft.tab Q C qb) :
    ∀ a x b, a < Ac.d0 → x < Ac.d1 → b < Ac.d2 →
      (mulLeft C.transpose.tab (T3.ofFlattenLeft Q Ac.d0 Ac.d2).swap12.tab).f a x b = Ac.f a x b := by
  intro a x b ha hx hb
  have hr : a * Ac.d2 + b < Ac.d0 * Ac.d2 := fused_lt ha hb
  have := hf.prod (a * Ac.d2 + b) x hr hx
  rw [Mat.tab_f Ac.swap12.flattenLeft hr hx] at this
  show ∑ p ∈ range Q.n, C.transpose.tab.f x p * (T3.ofFlattenLeft Q Ac.d0 Ac.d2).swap12.tab.f a p b = _
  rw [hf.Qn]
  have e : Ac.swap12.flattenLeft.f (a * Ac.d2 + b) x = Ac.f a x b := by
    show Ac.f ((a * Ac.d2 + b) / Ac.d2) x ((a * Ac.d2 + b) % Ac.d2) = _
    rw [fused_div hb, fused_mod hb]
  rw [← e, ← this]
  refine sum_congr rfl fun p hp => ?_
  have hp' : p < qb.length := mem_range.1 hp
  rw [Env.t3_tab_f (A := (T3.ofFlattenLeft Q Ac.d0 Ac.d2).swap12) ha (by show p < Q.n; rw [hf.Qn]; exact hp') hb,
    Env.mat_tab_f C.transpose (by show x < C.n; rw [hf.Rn]; exact hx) (by show p < C.m; rw [hf.Rm]; exact hp')]
  show C.f p x * Q.f (a * Ac.d2 + b) p = _
  ring

/-- **the right-to-left loop body returns** and keeps both invariants -/
theorem tdvp1Right_ok (ctx : SweepCtx k H qd numiter) (hexp : ∀ x : ℝ, ‖k.dexp (RCLike.I * (x : 𝕜))‖ = 1)
    {hh τ : ℝ} (hhalf : k.half = ((hh : ℝ) : 𝕜)) {dt : 𝕜} (hdt : dt = RCLike.I * ((τ : ℝ) : 𝕜)) (hm : 1 ≤ numiter)
    (hH : HistWf.HOk H qd) {s : Sweep 𝕜} {j : Nat} {E : ℝ} (h : TInv H qd s (j + 1) E) :
    ∃ s', tdvp1Right k H qd dt numiter s (j + 1) = .ok s' ∧ TInv H qd s' j E := by
  have hi : j + 1 < H.A.length := h.d.can.hc
  obtain ⟨s0, s1, s2⟩ := h.d.can.wf.shape (j + 1) hi
  obtain ⟨p0, p1, p2⟩ := h.d.can.wf.shape j (by omega)
  -- 1. block QR of the transposed centre tensor
  have hwfA := t3wf_swap (h.sp.site (j + 1) hi)
  have hin := qrInput_flattenLeft hwfA ctx.dpos (by rw [neg_len]; exact h.d.can.wf.qpos (j + 2) (by omega))
    (by rw [neg_len]; exact h.d.can.wf.qpos (j + 1) (by omega))
  obtain ⟨Q, C, qb, h1⟩ := qr_ok' (fun B _ => ctx.qr.contract.shape B) hin
  have hf := qr_facts ctx.qr.contract hin.hm hin.hn h1
  set Ac := getA s (j + 1) with hAc
  set Ai : T3 𝕜 := (T3.ofFlattenLeft Q Ac.d0 Ac.d2).swap12.tab with hAi
  have hAiIso : RightIso Ai := rightQR_iso hf
  have hAi1 : Ai.d1 = qb.length := hf.Qn
  set Ct : Mat 𝕜 := C.transpose.tab with hCt
  have hCtm : Ct.m = Ac.d1 := hf.Rn
  have hCtn : Ct.n = Ai.d1 := hf.Rm.trans hAi1.symm
  -- 2. the new right block
  obtain ⟨hF, hHerm⟩ := canon_local h.d.can ctx.hH ctx.herm
  have hF' : LocalFits (getBL s (j + 1)) (getBR s (j + 1)) (H.A.getD (j + 1) zeroT4) Ai.d0 Ac.d1 Ai.d2 := hF
  obtain ⟨BRn, h2, _⟩ := opStepRight_ok Ai Ai (H.A.getD (j + 1) zeroT4) (getBR s (j + 1)) hF'.r0.symm hF'.w1 hF'.w3
    hF'.w0 hF'.r2
  -- 3. backward zero-site step: `Cᵀ` has norm one
  have hfrobC : frob2 Ct = 1 := by
    rw [← frob_mulLeft hAiIso hCtn, frob3_congr (X := mulLeft Ct Ai) (Y := Ac) rfl hCtm rfl (rightQR_recon hf),
      centre_frob ctx h.d]
  obtain ⟨C1, h3⟩ := bondStep_isOk (k := k) (L := getBL s (j + 1)) (R := BRn)
    ctx.norm (cnorm_pos_flat2 ctx.norm (by rw [hfrobC]; exact one_pos)) hm (ctx.eigh _ _) (-(k.half * dt))
  obtain ⟨c0, c1⟩ := bondStep_dims h3
  have hc : C1.m = (getA s j).d2 := by rw [c0, hCtm, s1, p2]
  -- 4. forward half step of the new centre tensor
  have hDC := tdvp1Right_mid ctx hexp hhalf hdt h.d h1 h2 h3
  have hjcs : j < s.A.size := by rw [h.d.can.wf.sizeA]; omega
  obtain ⟨Ap2, h4⟩ := centre_step_ok ctx hm hDC (k.half * dt)
  have gscA : getA (⟨(s.A.setIfInBounds (j + 1) Ai).setIfInBounds j (pushRight (getA s j) C1),
      s.qD.setIfInBounds (j + 1) (QN.neg qb), s.BL, s.BR.setIfInBounds j BRn⟩ : Sweep 𝕜) j = pushRight (getA s j) C1 := by
    show ((s.A.setIfInBounds (j + 1) Ai).setIfInBounds j _).getD j emptyT3 = _
    exact getD_setIfInBounds_eq _ _ _ (by simpa using hjcs)
  have gscR : getBR (⟨(s.A.setIfInBounds (j + 1) Ai).setIfInBounds j (pushRight (getA s j) C1),
      s.qD.setIfInBounds (j + 1) (QN.neg qb), s.BL, s.BR.setIfInBounds j BRn⟩ : Sweep 𝕜) j = BRn := by
    show (s.BR.setIfInBounds j BRn).getD j emptyT3 = _
    exact getD_setIfInBounds_eq _ _ _ (by rw [h.d.can.sizeBR]; omega)
  rw [gscA, gscR] at h4
  -- 5. assemble
  have hrun : tdvp1Right k H qd dt numiter s (j + 1) =
      .ok ⟨(s.A.setIfInBounds (j + 1) Ai).setIfInBounds j Ap2, s.qD.setIfInBounds (j + 1) (QN.neg qb), s.BL,
        s.BR.setIfInBounds j BRn⟩ := by
    unfold tdvp1Right
    simp only [Nat.add_sub_cancel]
    rw [bind_ok]
    refine ⟨(Q, C, qb), h1, ?_⟩
    dsimp only
    rw [bind_ok]
    refine ⟨BRn, h2, ?_⟩
    rw [bind_ok]
    refine ⟨C1, h3, ?_⟩
    rw [if_neg (not_not.2 hc), bind_ok]
    exact ⟨Ap2, h4, rfl⟩
  exact ⟨_, hrun, tdvp1Right_inv ctx hexp hhalf hdt h.d hrun,
    HistWf.tdvp1Right_sparse ctx.qr.contract.shape hH h.sp hi hrun⟩

end Ptn.Evo

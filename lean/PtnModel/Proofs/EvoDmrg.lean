import PtnModel.Proofs.EvoMove
import PtnModel.Proofs.EvoQR
/-!
# Single-site DMRG: the sweep invariant

`DInv H qd s c E` : mixed-canonical with centre `c`, the dense state has norm one and energy `E` (a real number).
* `minimize_inv`  : the local Ritz step at the centre keeps the invariant, the new energy is the reported value, which
                    is at most the old energy and at least every lower bound of the dense operator;
* `left_move_inv`, `right_move_inv` : the QR gauge moves keep the invariant and the energy;
* `dmrg1Left_inv`, `dmrg1Right_inv` : the two loop bodies.
-/
set_option linter.unusedSectionVars false

namespace Ptn.Evo
open Ptn Ptn.BondOps Ptn.Ortho Ptn.Env Ptn.Krylov Finset

variable {𝕜 : Type} [RCLike 𝕜] [DecidableEq 𝕜]
local notation "conj" => starRingEnd 𝕜

/-- kernel contracts and hypotheses on the Hamiltonian shared by the sweep theorems -/
structure SweepCtx (k : EvoKernels 𝕜 ℝ) (H : MPO 𝕜) (qd : List Int) (numiter : Nat) : Prop where
  qr : C01.QRKernel k.dqr
  norm : NormContract k.cnorm
  /-- the contract of `eigh_tridiagonal` at the tridiagonal matrices of all Lanczos runs with `numiter` iterations
  (implied by the global `C15.EighContract k.deigh`, see `SweepCtx.of_contract`) -/
  eigh : ∀ (Afun : List 𝕜 → List 𝕜) (v : List 𝕜), C15.EighAt Afun k.cnorm k.deigh v numiter
  hH : C04.MPO.Shaped H qd.length
  herm : C04.MPO.DenseHermitian H qd.length
  dpos : 0 < qd.length

/-- `μ` is a lower bound of the quadratic form of the dense operator -/
def DenseLower (H : MPO 𝕜) (d : Nat) (μ : ℝ) : Prop :=
  ∀ x : List Nat → 𝕜, μ * ∑ σ ∈ digitsU d H.A.length, ‖x σ‖ ^ 2 ≤
    RCLike.re (∑ σ ∈ digitsU d H.A.length, ∑ τ ∈ digitsU d H.A.length, star (x σ) * H.elem σ τ * x τ)

/-- mixed-canonical with centre `c`, unit norm, energy `E` -/
structure DInv (H : MPO 𝕜) (qd : List Int) (s : Sweep 𝕜) (c : Nat) (E : ℝ) : Prop where
  can : Canon H qd s c
  nrm : normSq (cur qd s) qd.length = 1
  en : energy (cur qd s) H qd.length = ((E : ℝ) : 𝕜)

omit [DecidableEq 𝕜] in
theorem normSq_real (ψ : MPS 𝕜) (d : Nat) :
    normSq ψ d = ((∑ σ ∈ digitsU d ψ.A.length, ‖ψ.amp σ‖ ^ 2 : ℝ) : 𝕜) := by
  unfold normSq
  push_cast
  refine sum_congr rfl fun σ _ => ?_
  rw [← starRingEnd_apply, RCLike.conj_mul]

omit [DecidableEq 𝕜] in
/-- states with the same amplitudes have the same norm and energy -/
theorem normSq_energy_congr {ψ ψ' : MPS 𝕜} {o : MPO 𝕜} {d : Nat} (hlen : ψ'.A.length = ψ.A.length)
    (h : ∀ σ, σ ∈ digitsU d ψ.A.length → ψ'.amp σ = ψ.amp σ) :
    normSq ψ' d = normSq ψ d ∧ energy ψ' o d = energy ψ o d := by
  unfold normSq energy
  rw [hlen]
  constructor
  · exact sum_congr rfl fun σ hσ => by rw [h σ hσ]
  · exact sum_congr rfl fun σ hσ => sum_congr rfl fun τ hτ => by rw [h σ hσ, h τ hτ]

variable {k : EvoKernels 𝕜 ℝ} {H : MPO 𝕜} {qd : List Int}

omit [DecidableEq 𝕜] in
/-- the global contract of `eigh_tridiagonal` gives the context for every iteration count -/
theorem SweepCtx.of_contract (hqr : C01.QRKernel k.dqr) (hn : NormContract k.cnorm) (he : C15.EighContract k.deigh)
    (hH : C04.MPO.Shaped H qd.length) (hh : C04.MPO.DenseHermitian H qd.length) (hd : 0 < qd.length) (numiter : Nat) :
    SweepCtx k H qd numiter :=
  ⟨hqr, hn, fun Afun v => he.at Afun k.cnorm v numiter, hH, hh, hd⟩

/-- **The local Ritz step at the centre.** -/
theorem minimize_inv {numiter : Nat} (ctx : SweepCtx k H qd numiter) {s : Sweep 𝕜} {c : Nat} {E : ℝ} (h : DInv H qd s c E)
    {en : ℝ} {Aopt : T3 𝕜}
    (hm : minimizeLocalEnergy k (getBL s c) (getBR s c) (H.A.getD c zeroT4) (getA s c) numiter = .ok (en, Aopt)) :
    DInv H qd (⟨s.A.setIfInBounds c Aopt, s.qD, s.BL, s.BR⟩ : Sweep 𝕜) c en ∧ en ≤ E ∧
      (∀ μ, DenseLower H qd.length μ → μ ≤ en) ∧
      Aopt.d0 = (getA s c).d0 ∧ Aopt.d1 = (getA s c).d1 ∧ Aopt.d2 = (getA s c).d2 := by
  obtain ⟨hF, hHerm⟩ := canon_local h.can ctx.hH ctx.herm
  have hE := ctx.eigh (localHFun (getBL s c) (getBR s c) (H.A.getD c zeroT4) (getA s c).d0 (getA s c).d1
    (getA s c).d2) (flat3 (getA s c))
  obtain ⟨a0, a1, a2, hfrob, hpos, hen, hup, hlow⟩ := minimize_spec ctx.norm hF hHerm hE hm
  have hcs : c < s.A.size := by rw [h.can.wf.sizeA]; exact h.can.hc
  -- the replaced state
  have hcan' := canon_replace h.can (X := Aopt) ⟨a0, a1, a2⟩
  have hget : getA (⟨s.A.setIfInBounds c Aopt, s.qD, s.BL, s.BR⟩ : Sweep 𝕜) c = Aopt := by
    show (s.A.setIfInBounds c Aopt).getD c emptyT3 = Aopt
    exact getD_setIfInBounds_eq _ _ _ hcs
  obtain ⟨hn', he'⟩ := canon_centre hcan' ctx.hH
  rw [hget] at hn' he'
  obtain ⟨Topt, hTopt, _⟩ := applyLocal_ker hF (A := Aopt) a0 a1 a2
  have he'' := he' Topt hTopt
  rw [hen Topt hTopt] at he''
  -- the old state
  obtain ⟨hn0, he0⟩ := canon_centre h.can ctx.hH
  obtain ⟨T0, hT0, _⟩ := applyLocal_ker hF (A := getA s c) rfl rfl rfl
  have hfr : frob3 (getA s c) = 1 := by
    have := hn0.symm.trans h.nrm
    exact_mod_cast this
  have hE0 : RCLike.re (inner3 (getA s c) T0) = E := by
    rw [← he0 T0 hT0, h.en, RCLike.ofReal_re]
  refine ⟨⟨hcan', by rw [hn', hfrob]; simp, he''⟩, ?_, ?_, a0, a1, a2⟩
  · have := hup T0 hT0
    rw [hfr, mul_one, hE0] at this
    exact this
  · intro μ hμ
    apply hlow
    intro X T x0 x1 x2 hT
    have hcanX := canon_replace h.can (X := X) ⟨x0, x1, x2⟩
    have hgetX : getA (⟨s.A.setIfInBounds c X, s.qD, s.BL, s.BR⟩ : Sweep 𝕜) c = X :=
      getD_setIfInBounds_eq _ _ _ hcs
    obtain ⟨hnX, heX⟩ := canon_centre hcanX ctx.hH
    rw [hgetX] at hnX heX
    have heX' := heX T hT
    have := hμ (fun σ => (cur qd (⟨s.A.setIfInBounds c X, s.qD, s.BL, s.BR⟩ : Sweep 𝕜)).amp σ)
    have hl := hcanX.len
    rw [normSq_real, hl] at hnX
    have hnX' : ∑ σ ∈ digitsU qd.length H.A.length,
        ‖(cur qd (⟨s.A.setIfInBounds c X, s.qD, s.BL, s.BR⟩ : Sweep 𝕜)).amp σ‖ ^ 2 = frob3 X := by exact_mod_cast hnX
    rw [hnX'] at this
    unfold energy at heX'
    rw [hl] at heX'
    rw [heX'] at this
    exact this

/-- **Left gauge move** (`local_orthonormalize_left_qr` of the centre, new `BL[c+1]`). -/
theorem left_move_inv {numiter : Nat} (ctx : SweepCtx k H qd numiter) {s : Sweep 𝕜} {c : Nat} {E : ℝ} (h : DInv H qd s c E)
    (hc1 : c + 1 < H.A.length) {Ai An : T3 𝕜} {qb : List Int} {BLn : T3 𝕜}
    (hq : MPS.localOrthoLeftQr k.dqr (getA s c) (getA s (c + 1)) qd (getQ s c) (getQ s (c + 1)) = .ok (Ai, An, qb))
    (hBL : Op.opStepLeft Ai Ai (H.A.getD c zeroT4) (getBL s c) = .ok BLn) :
    DInv H qd (⟨(s.A.setIfInBounds c Ai).setIfInBounds (c + 1) An, s.qD.setIfInBounds (c + 1) qb,
      s.BL.setIfInBounds (c + 1) BLn, s.BR⟩ : Sweep 𝕜) (c + 1) E := by
  obtain ⟨Q, R, hrun, hRn, rfl, rfl⟩ := localLeft_run hq
  obtain ⟨s0, s1, s2⟩ := h.can.wf.shape c h.can.hc
  obtain ⟨n0, n1, n2⟩ := h.can.wf.shape (c + 1) hc1
  have hm : 0 < (getA s c).flattenLeft.tab.m := by
    show 0 < (getA s c).d0 * (getA s c).d1
    rw [s0, s1]; exact Nat.mul_pos ctx.dpos (h.can.wf.qpos c (by omega))
  have hn : 0 < (getA s c).flattenLeft.tab.n := by
    show 0 < (getA s c).d2
    rw [s2]; exact h.can.wf.qpos (c + 1) (by omega)
  have hf := qr_facts ctx.qr.contract hm hn hrun
  have hRn' : R.n = (getA s c).d2 := hf.Rn
  have hY'f : ∀ s' p y, s' < (getA s (c + 1)).d0 → p < qb.length → y < (getA s (c + 1)).d2 →
      (pushR R (getA s (c + 1))).f s' p y = ∑ b ∈ range (getA s c).d2, R.f p b * (getA s (c + 1)).f s' b y := by
    intro s' p y hs' hp hy
    rw [(pushR_eqv R (getA s (c + 1))).f s' p y hs' (by show p < R.m; rw [hf.Rm]; exact hp) hy]
    show ∑ b ∈ range R.n, _ = _
    rw [hRn']
  obtain ⟨hcan, hamp⟩ := canon_left h.can ctx.hH hc1 (X' := (T3.ofFlattenLeft Q (getA s c).d0 (getA s c).d1).tab)
    (Y' := pushR R (getA s (c + 1))) (qb := qb) (BLn := BLn)
    ⟨s0, s1, hf.Qn⟩ ⟨n0, hf.Rm, n2⟩ hf.pos (leftQR_iso hf)
    (fun a0 a a1 y ha0 ha ha1 hy =>
      leftQR_prod hf hY'f (by rw [s0]; exact ha0) ha (by rw [n0]; exact ha1) hy) hBL
  obtain ⟨e1, e2⟩ := normSq_energy_congr (o := H) (d := qd.length) (hcan.len.trans h.can.len.symm)
    (fun σ hσ => hamp σ (by rw [← h.can.len]; exact hσ))
  exact ⟨hcan, e1.trans h.nrm, e2.trans h.en⟩

/-- **Right gauge move** (`local_orthonormalize_right_qr` of the centre `j+1`, new `BR[j]`). -/
theorem right_move_inv {numiter : Nat} (ctx : SweepCtx k H qd numiter) {s : Sweep 𝕜} {j : Nat} {E : ℝ} (h : DInv H qd s (j + 1) E)
    {Ai Ap : T3 𝕜} {qb : List Int} {BRn : T3 𝕜}
    (hq : MPS.localOrthoRightQr k.dqr (getA s (j + 1)) (getA s j) qd (getQ s (j + 1)) (getQ s (j + 2)) =
      .ok (Ai, Ap, qb))
    (hBR : Op.opStepRight Ai Ai (H.A.getD (j + 1) zeroT4) (getBR s (j + 1)) = .ok BRn) :
    DInv H qd (⟨(s.A.setIfInBounds (j + 1) Ai).setIfInBounds j Ap, s.qD.setIfInBounds (j + 1) qb,
      s.BL, s.BR.setIfInBounds j BRn⟩ : Sweep 𝕜) j E := by
  obtain ⟨Q, R, qb', hrun, hRn, rfl, rfl, rfl⟩ := localRight_run hq
  have hc1 : j + 1 < H.A.length := h.can.hc
  obtain ⟨s0, s1, s2⟩ := h.can.wf.shape (j + 1) hc1
  obtain ⟨p0, p1, p2⟩ := h.can.wf.shape j (by omega)
  have hm : 0 < (getA s (j + 1)).swap12.flattenLeft.tab.m := by
    show 0 < (getA s (j + 1)).d0 * (getA s (j + 1)).d2
    rw [s0, s2]; exact Nat.mul_pos ctx.dpos (h.can.wf.qpos (j + 2) (by omega))
  have hn : 0 < (getA s (j + 1)).swap12.flattenLeft.tab.n := by
    show 0 < (getA s (j + 1)).d1
    rw [s1]; exact h.can.wf.qpos (j + 1) (by omega)
  have hf := qr_facts ctx.qr.contract hm hn hrun
  have hRn' : R.n = (getA s (j + 1)).d1 := hf.Rn
  have hX'f : ∀ s' a p, s' < (getA s j).d0 → a < (getA s j).d1 → p < qb'.length →
      (pushL R (getA s j)).f s' a p = ∑ b ∈ range (getA s (j + 1)).d1, (getA s j).f s' a b * R.f p b := by
    intro s' a p hs' ha hp
    unfold pushL
    rw [Env.t3_tab_f (A := ⟨(getA s j).d0, (getA s j).d1, R.m, fun s1 a1 p1 => sumRange R.n fun b =>
      (getA s j).f s1 a1 b * R.f p1 b⟩) hs' ha (by show p < R.m; rw [hf.Rm]; exact hp)]
    show sumRange R.n _ = _
    rw [Env.sumRange_eq, hRn']
  obtain ⟨hcan, hamp⟩ := canon_right h.can ctx.hH (X' := pushL R (getA s j))
    (Y' := (T3.ofFlattenLeft Q (getA s (j + 1)).d0 (getA s (j + 1)).d2).swap12.tab) (qb := QN.neg qb') (BRn := BRn)
    ⟨p0, p1, by rw [neg_len]; exact hf.Rm⟩ ⟨s0, by rw [neg_len]; exact hf.Qn, s2⟩ (by rw [neg_len]; exact hf.pos)
    (rightQR_iso hf)
    (fun a0 a a1 y ha0 ha ha1 hy =>
      rightQR_prod hf (p2.trans s1.symm) hf.Rm hX'f (by rw [p0]; exact ha0) ha (by rw [s0]; exact ha1) hy) hBR
  obtain ⟨e1, e2⟩ := normSq_energy_congr (o := H) (d := qd.length) (hcan.len.trans h.can.len.symm)
    (fun σ hσ => hamp σ (by rw [← h.can.len]; exact hσ))
  exact ⟨hcan, e1.trans h.nrm, e2.trans h.en⟩

omit [RCLike 𝕜] [DecidableEq 𝕜] in
theorem setIfInBounds_twice {β : Type} (a : Array β) (i : Nat) (x y : β) :
    (a.setIfInBounds i x).setIfInBounds i y = a.setIfInBounds i y := by
  simp

/-- **Loop body of the left-to-right half sweep.** -/
theorem dmrg1Left_inv {numiter : Nat} (ctx : SweepCtx k H qd numiter) {s s' : Sweep 𝕜} {e e' E : ℝ} {c : Nat}
    (h : DInv H qd s c E) (hc1 : c + 1 < H.A.length) (hrun : dmrg1Left k H qd numiter (s, e) c = .ok (s', e')) :
    DInv H qd s' (c + 1) e' ∧ e' ≤ E ∧ ∀ μ, DenseLower H qd.length μ → μ ≤ e' := by
  obtain ⟨en, Aopt, Ai, An, qb, BLn, h1, h2, h3, h4⟩ := dmrg1Left_unfold hrun
  injection h4 with h4a h4b
  subst h4a h4b
  dsimp only at h1 h2 h3
  obtain ⟨hinv, hle, hlow, a0, a1, a2⟩ := minimize_inv ctx h h1
  have hcs : c < s.A.size := by rw [h.can.wf.sizeA]; omega
  set sa : Sweep 𝕜 := ⟨s.A.setIfInBounds c Aopt, s.qD, s.BL, s.BR⟩ with hsa
  have g1 : getA sa c = Aopt := getD_setIfInBounds_eq _ _ _ hcs
  have g2 : getA sa (c + 1) = getA s (c + 1) := by
    show (s.A.setIfInBounds c Aopt).getD (c + 1) emptyT3 = _
    rw [getD_setIfInBounds_ne _ _ _ (by omega)]; rfl
  have hq' : MPS.localOrthoLeftQr k.dqr (getA sa c) (getA sa (c + 1)) qd (getQ sa c) (getQ sa (c + 1)) =
      .ok (Ai, An, qb) := by rw [g1, g2]; exact h2
  have := left_move_inv ctx hinv hc1 hq' (BLn := BLn) h3
  rw [hsa] at this
  simp only [setIfInBounds_twice] at this
  exact ⟨this, hle, hlow⟩

/-- **Loop body of the right-to-left half sweep** (at site `j+1`). -/
theorem dmrg1Right_inv {numiter : Nat} (ctx : SweepCtx k H qd numiter) {s s' : Sweep 𝕜} {e e' E : ℝ} {j : Nat}
    (h : DInv H qd s (j + 1) E) (hrun : dmrg1Right k H qd numiter (s, e) (j + 1) = .ok (s', e')) :
    DInv H qd s' j e' ∧ e' ≤ E ∧ ∀ μ, DenseLower H qd.length μ → μ ≤ e' := by
  obtain ⟨en, Aopt, Ai, Ap, qb, BRn, h1, h2, h3, h4⟩ := dmrg1Right_unfold hrun
  injection h4 with h4a h4b
  subst h4a h4b
  dsimp only at h1 h2 h3
  simp only [Nat.add_sub_cancel] at h2 ⊢
  obtain ⟨hinv, hle, hlow, a0, a1, a2⟩ := minimize_inv ctx h h1
  have hc1 : j + 1 < H.A.length := h.can.hc
  have hcs : j + 1 < s.A.size := by rw [h.can.wf.sizeA]; omega
  set sa : Sweep 𝕜 := ⟨s.A.setIfInBounds (j + 1) Aopt, s.qD, s.BL, s.BR⟩ with hsa
  have g1 : getA sa (j + 1) = Aopt := getD_setIfInBounds_eq _ _ _ hcs
  have g2 : getA sa j = getA s j := by
    show (s.A.setIfInBounds (j + 1) Aopt).getD j emptyT3 = _
    rw [getD_setIfInBounds_ne _ _ _ (by omega)]; rfl
  have hq' : MPS.localOrthoRightQr k.dqr (getA sa (j + 1)) (getA sa j) qd (getQ sa (j + 1)) (getQ sa (j + 2)) =
      .ok (Ai, Ap, qb) := by rw [g1, g2]; exact h2
  have := right_move_inv ctx hinv hq' (BRn := BRn) h3
  rw [hsa] at this
  simp only [setIfInBounds_twice] at this
  exact ⟨this, hle, hlow⟩

end Ptn.Evo

import PtnModel.Proofs.HistEvoDmrg1
import PtnModel.Proofs.HistSvd
/-!
# C02: two-site TDVP and two-site DMRG keep the block-sparsity invariant

The merged two-site tensor is evolved / optimised and then split by `split_mps_tensor`, which re-asserts the sparsity of
its input (`is_qsparse` inside `split_matrix_svd`): the two new site tensors are reshaped `u`, `v` factors, block sparse
by C12 (`split_facts_of_rows`, shape clause of the SVD kernel only), for every truncation.  A successful Lanczos run
needs a start vector of positive norm; with the (very weak) clause "the norm oracle is not positive on the empty vector"
the merged tensor has no axis of dimension zero, which excludes the only ill-formed output of `split_matrix_svd` (the dummy
branch on a matrix without rows).

* `splitMps_wf`                 : the two tensors returned by `split_mps_tensor`;
* `twoSiteUpdate_sparse`, `tdvp2Left_sparse`, `tdvp2Right_sparse`, `tdvp2Step_sparse`, `tdvp2_wf`;
* `dmrg2Update_sparse`, `dmrg2Left_sparse`, `dmrg2Right_sparse`, `dmrg2Sweep_sparse`, `dmrg2_wf`.
-/
set_option linter.unusedSectionVars false
namespace Ptn.HistWf
open Ptn Ptn.Krylov Ptn.Evo Ptn.Ortho Ptn.BondOps Ptn.Dense Finset

variable {𝕜 : Type} [RCLike 𝕜] [DecidableEq 𝕜]

/-! ## a successful Lanczos run has a start vector of positive norm -/

omit [DecidableEq 𝕜] in
theorem lanczos_pos {Afun : List 𝕜 → List 𝕜} {dnorm : List 𝕜 → ℝ} {v : List 𝕜} {numiter : Nat}
    {r : List ℝ × List ℝ × Mat 𝕜} (h : lanczos Afun dnorm v numiter = .ok r) : 0 < dnorm v := by
  obtain ⟨alpha, beta, V⟩ := r
  obtain ⟨st, hc, _, _, _⟩ := lanczos_ok Afun dnorm h
  exact of_decide_eq_true (lanczosCore_ok Afun dnorm hc).1

theorem localStep_pos {k : EvoKernels 𝕜 ℝ} {L R : T3 𝕜} {W : T4 𝕜} {A A1 : T3 𝕜} {dt : 𝕜} {numiter : Nat}
    (h : localHamiltonianStep k L R W A dt numiter = .ok A1) : 0 < k.cnorm (flat3 A) := by
  obtain ⟨y, hy, _⟩ := localStep_unfold h
  unfold expmKrylov at hy
  simp only [if_true] at hy
  cases hl : lanczos (localHFun L R W A.d0 A.d1 A.d2) k.cnorm (flat3 A) numiter with
  | error e => rw [hl] at hy; cases hy
  | ok r => exact lanczos_pos hl

theorem minimize_pos {k : EvoKernels 𝕜 ℝ} {L R : T3 𝕜} {W : T4 𝕜} {A Aopt : T3 𝕜} {en : ℝ} {numiter : Nat}
    (h : minimizeLocalEnergy k L R W A numiter = .ok (en, Aopt)) : 0 < k.cnorm (flat3 A) := by
  obtain ⟨ws, u, hk, _, _, _⟩ := minimize_unfold h
  unfold eighKrylov at hk
  cases hl : lanczos (localHFun L R W A.d0 A.d1 A.d2) k.cnorm (flat3 A) numiter with
  | error e => rw [hl] at hk; cases hk
  | ok r => exact lanczos_pos hl

omit [DecidableEq 𝕜] in
/-- a flat vector of positive norm is not empty when the norm oracle is not positive on the empty vector -/
theorem dims_pos_of_norm {cnorm : List 𝕜 → ℝ} (hn0 : ¬ 0 < cnorm []) {A : T3 𝕜} (h : 0 < cnorm (flat3 A)) :
    0 < A.d0 ∧ 0 < A.d1 ∧ 0 < A.d2 := by
  have hne : A.d0 * A.d1 * A.d2 ≠ 0 := by
    intro h0
    apply hn0
    have : flat3 A = [] := by unfold flat3; rw [h0]; rfl
    rw [this] at h
    exact h
  refine ⟨Nat.pos_of_ne_zero ?_, Nat.pos_of_ne_zero ?_, Nat.pos_of_ne_zero ?_⟩
  · intro h0; apply hne; rw [h0]; simp
  · intro h0; apply hne; rw [h0]; simp
  · intro h0; apply hne; rw [h0]; simp

/-! ## `split_mps_tensor` -/

theorem splitMps_wf {ks : MPS.SvdKernels 𝕜 ℝ} {dsqrt : ℝ → ℝ} (hsvd : ∀ B, SvdShapeAt ks.dsvd B) {A : T3 𝕜}
    {qd qa qc qb : List Int} {distr : Nat} {tol : ℝ} {B0 B1 : T3 𝕜}
    (h : MPS.splitMpsTensor ks dsqrt A qd qd qa qc distr tol = .ok (B0, B1, qb))
    (h1 : A.d1 = qa.length) (h2 : A.d2 = qc.length) (hd : 0 < qd.length) (ha : 0 < qa.length) :
    T3Wf B0 qd qa qb ∧ T3Wf B1 qd qb qc := by
  unfold MPS.splitMpsTensor at h
  rw [pyAssert_bind] at h
  obtain ⟨_, h⟩ := h
  rw [bind_ok] at h
  obtain ⟨⟨U, sigma, V, qb'⟩, hrun, h⟩ := h
  dsimp only at h
  by_cases hdist : distr > 2
  · rw [if_pos hdist] at h
    simp [throw_map_ne] at h
  · rw [if_neg hdist] at h
    simp only [pure_ok, Prod.mk.injEq] at h
    obtain ⟨rfl, rfl, rfl⟩ := h
    have hq0 : QN.flatten2 qd qa ≠ [] := by
      intro h0
      have hl : (QN.flatten2 qd qa).length = qd.length * qa.length := flatten2_length qd qa
      have hp := Nat.mul_pos hd ha
      rw [← hl, h0] at hp
      exact absurd hp (by simp)
    have hf := split_facts_of_rows hsvd hrun hq0
    constructor
    · refine T3Wf.tab ⟨rfl, h1, hf.sl, ?_⟩
      intro s a p hs ha' hp hne
      have hs' : s < qd.length := hs
      have ha'' : a < qa.length := by rw [← h1]; exact ha'
      have hp' : p < sigma.length := hp
      have hU : U.f (s * A.d1 + a) p ≠ 0 := by
        intro h0
        apply hne
        show (if distr = 1 then U.f (s * A.d1 + a) p else U.f (s * A.d1 + a) p * _) = 0
        split
        · exact h0
        · rw [h0, zero_mul]
      have hrow : s * A.d1 + a < U.m := by
        rw [hf.um]
        show s * A.d1 + a < qd.length * A.d1
        exact Ortho.fused_lt hs' ha'
      have := hf.sparseU _ _ hrow (by rw [hf.un, ← hf.sl]; exact hp') hU
      rw [h1, flatten2_getD _ _ hs' ha''] at this
      omega
    · refine T3Wf.tab ⟨rfl, hf.sl, h2, ?_⟩
      intro s p c hs hp hc hne
      have hs' : s < qd.length := hs
      have hc' : c < qc.length := by rw [← h2]; exact hc
      have hp' : p < sigma.length := hp
      have hV : V.f p (s * A.d2 + c) ≠ 0 := by
        intro h0
        apply hne
        show (if distr = 0 then V.f p (s * A.d2 + c) else V.f p (s * A.d2 + c) * _) = 0
        split
        · exact h0
        · rw [h0, zero_mul]
      have hcol : s * A.d2 + c < V.n := by
        rw [hf.vn]
        show s * A.d2 + c < qd.length * A.d2
        exact Ortho.fused_lt hs' hc
      have := hf.sparseV _ _ (by rw [hf.vm, ← hf.sl]; exact hp') hcol hV
      rw [h2, flatten2_getD _ _ (by rw [neg_length]; exact hs') hc', neg_getD] at this
      omega

/-! ## the shared two-site update -/

variable {k : EvoKernels 𝕜 ℝ} {H : MPO 𝕜} {qd : List Int} {numiter : Nat} {tol : ℝ}

/-- dimensions of the merged tensor -/
theorem merged_pos (hn0 : ¬ 0 < k.cnorm []) {A0 A1 : T3 𝕜} {qa qm qc : List Int} (hA0 : T3Wf A0 qd qa qm)
    (hA1 : T3Wf A1 qd qm qc) (hpos : 0 < k.cnorm (flat3 (MPS.mergePair A0 A1).tab)) :
    0 < qd.length ∧ 0 < qa.length ∧ 0 < qc.length := by
  obtain ⟨p0, p1, p2⟩ := dims_pos_of_norm hn0 hpos
  have p0' : 0 < A0.d0 * A1.d0 := p0
  have p1' : 0 < A0.d1 := p1
  have p2' : 0 < A1.d2 := p2
  rw [hA0.d0, hA1.d0] at p0'
  rw [hA0.d1] at p1'
  rw [hA1.d2] at p2'
  refine ⟨?_, p1', p2'⟩
  rcases Nat.eq_zero_or_pos qd.length with h0 | h0
  · rw [h0] at p0'; simp at p0'
  · exact h0

theorem twoSiteUpdate_sparse (hsvd : ∀ B, SvdShapeAt k.svd.dsvd B) (hn0 : ¬ 0 < k.cnorm []) {tau : 𝕜} {distr : Nat}
    {s s' : Sweep 𝕜} {cl cr i : Nat} (h : EvoSparse H qd s cl cr) (hi : i + 1 < H.A.length)
    (hrun : twoSiteUpdate k H qd tau numiter tol distr s i = .ok s') :
    EvoSparse H qd s' (min cl i) (max cr (i + 1)) := by
  obtain ⟨Am1, A0, A1, qb, h1, h2, rfl⟩ := twoSiteUpdate_unfold hrun
  have hA0 := h.site i (by omega)
  have hA1 := h.site (i + 1) hi
  obtain ⟨pd, pa, _⟩ := merged_pos hn0 hA0 hA1 (localStep_pos h1)
  obtain ⟨_, a1, a2⟩ := localStep_dims h1
  obtain ⟨hX, hY⟩ := splitMps_wf hsvd h2 (a1.trans hA0.d1) (a2.trans hA1.d2) pd pa
  exact evoSparse_pair h hi hX hY

/-! ## two-site TDVP -/

variable {dt : 𝕜}

theorem tdvp2Left_sparse (hsvd : ∀ B, SvdShapeAt k.svd.dsvd B) (hn0 : ¬ 0 < k.cnorm [])
    (hH : HOk H qd) {s s' : Sweep 𝕜} {i : Nat} (h : EvoSparse H qd s i (i + 1)) (hi : i + 2 < H.A.length)
    (hrun : tdvp2Left k H qd dt numiter tol s i = .ok s') : EvoSparse H qd s' (i + 1) (i + 1) := by
  obtain ⟨s1, BLn, An, h1, h2, h3, rfl⟩ := tdvp2Left_unfold hrun
  have hs1 := twoSiteUpdate_sparse hsvd hn0 h (by omega) h1
  rw [Nat.min_self, Nat.max_self] at hs1
  obtain ⟨hbl, _⟩ := hs1.bl i (Nat.le_refl _) (by omega)
  have hAi := hs1.site i (by omega)
  obtain ⟨hBLn, b0, _, b2⟩ := opStepLeft_sparse h2 hAi.sp hAi.sp (hH.sp i) hbl
  have sqn : BLn.d2 = BLn.d0 := b2.trans b0.symm
  have hs2 := evoSparse_setBL hs1 (Nat.le_refl _) (by omega) hBLn sqn
  have hbl' : getBL (⟨s1.A, s1.qD, s1.BL.setIfInBounds (i + 1) BLn, s1.BR⟩ : Sweep 𝕜) (i + 1) = BLn := by
    show (s1.BL.setIfInBounds (i + 1) BLn).getD (i + 1) emptyT3 = BLn
    rw [getD_set1 _ _ BLn emptyT3 (by rw [hs1.sizeBL]; omega), if_pos rfl]
  have hX := localStep_wf (k := k) (numiter := numiter) (tau := -(k.half * dt)) hH hs2 (by omega : i + 1 < H.A.length)
    (Nat.le_refl _) (Nat.le_refl _) (X := getA s1 (i + 1)) (A1 := An) (hs1.site (i + 1) (by omega))
    (by rw [hbl']; exact h3)
  exact evoSparse_site (i := i + 1) hs2 hX

theorem tdvp2Right_sparse (hsvd : ∀ B, SvdShapeAt k.svd.dsvd B) (hn0 : ¬ 0 < k.cnorm [])
    (hH : HOk H qd) {s s' : Sweep 𝕜} {i : Nat} (h : EvoSparse H qd s (i + 1) (i + 1)) (hi : i + 1 < H.A.length)
    (hrun : tdvp2Right k H qd dt numiter tol s i = .ok s') : EvoSparse H qd s' i i := by
  obtain ⟨An, s1, BRn, h1, h2, h3, rfl⟩ := tdvp2Right_unfold hrun
  have hX := localStep_wf hH h hi (Nat.le_refl _) (Nat.le_refl _) (h.site (i + 1) hi) h1
  have hs0 := evoSparse_site (i := i + 1) h hX
  have hs1 := twoSiteUpdate_sparse hsvd hn0 hs0 hi h2
  rw [Nat.min_eq_right (Nat.le_succ i), Nat.max_self] at hs1
  obtain ⟨hbr, _⟩ := hs1.br (i + 1) (Nat.le_refl _) hi
  have hAi := hs1.site (i + 1) hi
  obtain ⟨hBRn, b0, _, b2⟩ := opStepRight_sparse h3 hAi.sp hAi.sp (hH.sp (i + 1)) hbr
  exact evoSparse_setBR hs1 (Nat.le_refl _) (by omega) hBRn (b2.trans b0.symm)

theorem tdvp2Step_sparse (hsvd : ∀ B, SvdShapeAt k.svd.dsvd B) (hn0 : ¬ 0 < k.cnorm [])
    (hH : HOk H qd) (hL : 2 ≤ H.A.length) {s s' : Sweep 𝕜} (h : EvoSparse H qd s 0 0)
    (hrun : tdvp2Step k H qd dt numiter tol s = .ok s') : EvoSparse H qd s' 0 0 := by
  obtain ⟨s1, s2, BRn, h1, h2, h3, h4⟩ := tdvp2Step_unfold hrun
  have hl : EvoSparse H qd s1 (H.A.length - 2) (H.A.length - 2 + 1) :=
    foldIdx_up (tdvp2Left k H qd dt numiter tol) (fun i t => EvoSparse H qd t i (i + 1)) (H.A.length - 2)
      (fun i hi t t' ht hr => (tdvp2Left_sparse hsvd hn0 hH ht (by omega) hr).mono (Nat.le_refl _) (by omega))
      s s1 (h.mono (Nat.le_refl _) (by omega)) h1
  have hm := twoSiteUpdate_sparse hsvd hn0 hl (by omega) h2
  rw [Nat.min_self, Nat.max_self] at hm
  obtain ⟨hbr, _⟩ := hm.br (H.A.length - 2 + 1) (Nat.le_refl _) (by omega)
  have hAi := hm.site (H.A.length - 2 + 1) (by omega)
  obtain ⟨hBRn, b0, _, b2⟩ := opStepRight_sparse h3 hAi.sp hAi.sp (hH.sp (H.A.length - 2 + 1)) hbr
  have hm' := evoSparse_setBR hm (Nat.le_refl _) (by omega) hBRn (b2.trans b0.symm)
  exact foldIdx_rev (tdvp2Right k H qd dt numiter tol) (fun i t => EvoSparse H qd t i i) (H.A.length - 2)
    (fun i hi t t' ht hr => tdvp2Right_sparse hsvd hn0 hH ht (by omega) hr) _ s' hm' h4

/-- **`integrate_local_twosite` returns a well-formed MPS** -/
theorem tdvp2_wf (hshape : ∀ B, ShapeAt k.dqr B) (hsvd : ∀ B, SvdShapeAt k.svd.dsvd B) (hn0 : ¬ 0 < k.cnorm [])
    {ψ ψ' : MPS 𝕜} {numsteps : Nat} {nrm : ℝ} (hw : ψ.wellFormed = true) (hH : HOk H ψ.qd)
    (h : integrateLocalTwosite k H ψ dt numsteps numiter tol = .ok (ψ', nrm)) : ψ'.wellFormed = true := by
  obtain ⟨s0, s, hp, hL, hit, rfl⟩ := integrate2_unfold h
  have h0 := prologue_sparse hshape hH hw hp (by omega)
  have hinv := iterate_inv (tdvp2Step k H ψ.qd dt numiter tol) (fun t => EvoSparse H ψ.qd t 0 0)
    (fun t t' ht ht' => tdvp2Step_sparse hsvd hn0 hH hL ht ht') numsteps s0 s h0 hit
  exact toMPS_wf hinv

/-! ## two-site DMRG -/

theorem dmrg2Update_unfold {distr : Nat} {s : Sweep 𝕜} {se' : Sweep 𝕜 × ℝ} {i : Nat}
    (h : dmrg2Update k H qd numiter tol distr s i = .ok se') :
    ∃ en Aopt A0 A1 qb,
      minimizeLocalEnergy k (getBL s i) (getBR s (i + 1))
        (MPO.mergePair (H.A.getD i zeroT4) (H.A.getD (i + 1) zeroT4)).tab
        (MPS.mergePair (getA s i) (getA s (i + 1))).tab numiter = .ok (en, Aopt) ∧
      MPS.splitMpsTensor k.svd k.dsqrt Aopt qd qd (getQ s i) (getQ s (i + 2)) distr tol = .ok (A0, A1, qb) ∧
      se' = (⟨(s.A.setIfInBounds i A0).setIfInBounds (i + 1) A1, s.qD.setIfInBounds (i + 1) qb, s.BL, s.BR⟩, en) := by
  unfold dmrg2Update at h
  rw [bind_ok] at h
  obtain ⟨⟨en, Aopt⟩, h1, h⟩ := h
  dsimp only at h
  rw [bind_ok] at h
  obtain ⟨⟨A0, A1, qb⟩, h2, h⟩ := h
  dsimp only at h
  rw [pure_ok] at h
  exact ⟨en, Aopt, A0, A1, qb, h1, h2, h.symm⟩

theorem dmrg2Update_sparse (hsvd : ∀ B, SvdShapeAt k.svd.dsvd B) (hn0 : ¬ 0 < k.cnorm []) {distr : Nat}
    {s : Sweep 𝕜} {se' : Sweep 𝕜 × ℝ} {cl cr i : Nat} (h : EvoSparse H qd s cl cr) (hi : i + 1 < H.A.length)
    (hrun : dmrg2Update k H qd numiter tol distr s i = .ok se') :
    EvoSparse H qd se'.1 (min cl i) (max cr (i + 1)) := by
  obtain ⟨en, Aopt, A0, A1, qb, h1, h2, rfl⟩ := dmrg2Update_unfold hrun
  have hA0 := h.site i (by omega)
  have hA1 := h.site (i + 1) hi
  obtain ⟨pd, pa, _⟩ := merged_pos hn0 hA0 hA1 (minimize_pos h1)
  obtain ⟨_, _, hk, _, _, rfl⟩ := minimize_unfold h1
  obtain ⟨hX, hY⟩ := splitMps_wf hsvd h2 hA0.d1 hA1.d2 pd pa
  exact evoSparse_pair h hi hX hY

theorem dmrg2Left_sparse (hsvd : ∀ B, SvdShapeAt k.svd.dsvd B) (hn0 : ¬ 0 < k.cnorm []) (hH : HOk H qd)
    {se se' : Sweep 𝕜 × ℝ} {i : Nat} (h : EvoSparse H qd se.1 i (i + 1)) (hi : i + 1 < H.A.length)
    (hrun : dmrg2Left k H qd numiter tol se i = .ok se') : EvoSparse H qd se'.1 (i + 1) (i + 1) := by
  unfold dmrg2Left at hrun
  rw [bind_ok] at hrun
  obtain ⟨⟨s1, en⟩, h1, hrun⟩ := hrun
  dsimp only at hrun
  rw [bind_ok] at hrun
  obtain ⟨BLn, h2, hrun⟩ := hrun
  rw [pure_ok] at hrun
  subst hrun
  have hs1 : EvoSparse H qd s1 i (i + 1) := by
    have := dmrg2Update_sparse hsvd hn0 h hi h1
    rwa [Nat.min_self, Nat.max_self] at this
  obtain ⟨hbl, _⟩ := hs1.bl i (Nat.le_refl _) (by omega)
  have hAi := hs1.site i (by omega)
  obtain ⟨hBLn, b0, _, b2⟩ := opStepLeft_sparse h2 hAi.sp hAi.sp (hH.sp i) hbl
  exact evoSparse_setBL hs1 (Nat.le_refl _) hi hBLn (b2.trans b0.symm)

theorem dmrg2Right_sparse (hsvd : ∀ B, SvdShapeAt k.svd.dsvd B) (hn0 : ¬ 0 < k.cnorm []) (hH : HOk H qd)
    {se se' : Sweep 𝕜 × ℝ} {i : Nat} (h : EvoSparse H qd se.1 i (i + 1)) (hi : i + 1 < H.A.length)
    (hrun : dmrg2Right k H qd numiter tol se i = .ok se') : EvoSparse H qd se'.1 i i := by
  unfold dmrg2Right at hrun
  rw [bind_ok] at hrun
  obtain ⟨⟨s1, en⟩, h1, hrun⟩ := hrun
  dsimp only at hrun
  rw [bind_ok] at hrun
  obtain ⟨BRn, h2, hrun⟩ := hrun
  rw [pure_ok] at hrun
  subst hrun
  have hs1 : EvoSparse H qd s1 i (i + 1) := by
    have := dmrg2Update_sparse hsvd hn0 h hi h1
    rwa [Nat.min_self, Nat.max_self] at this
  obtain ⟨hbr, _⟩ := hs1.br (i + 1) (Nat.le_refl _) hi
  have hAi := hs1.site (i + 1) hi
  obtain ⟨hBRn, b0, _, b2⟩ := opStepRight_sparse h2 hAi.sp hAi.sp (hH.sp (i + 1)) hbr
  exact evoSparse_setBR hs1 (Nat.le_refl _) (by omega) hBRn (b2.trans b0.symm)

theorem dmrg2Sweep_sparse (hshape : ∀ B, ShapeAt k.dqr B) (hsvd : ∀ B, SvdShapeAt k.svd.dsvd B) (hn0 : ¬ 0 < k.cnorm [])
    (hH : HOk H qd) (hL : 0 < H.A.length) {se se' : Sweep 𝕜 × List ℝ} (h : EvoSparse H qd se.1 0 0)
    (hrun : dmrg2Sweep k H qd numiter tol se = .ok se') : EvoSparse H qd se'.1 0 0 := by
  unfold dmrg2Sweep at hrun
  rw [bind_ok] at hrun
  obtain ⟨⟨s1, e1⟩, h1, hrun⟩ := hrun
  dsimp only at hrun
  rw [bind_ok] at hrun
  obtain ⟨⟨s2, e2⟩, h2, hrun⟩ := hrun
  dsimp only at hrun
  rw [bind_ok] at hrun
  obtain ⟨s3, h3, hrun⟩ := hrun
  rw [pure_ok] at hrun
  subst hrun
  have hl : EvoSparse H qd (s1, e1).1 (H.A.length - 2) (min (H.A.length - 2 + 1) (H.A.length - 1)) :=
    foldIdx_up (dmrg2Left k H qd numiter tol)
      (fun i (t : Sweep 𝕜 × ℝ) => EvoSparse H qd t.1 i (min (i + 1) (H.A.length - 1))) (H.A.length - 2)
      (fun i hi t t' ht hr => by
        have ht' : EvoSparse H qd t.1 i (i + 1) := by
          have e : min (i + 1) (H.A.length - 1) = i + 1 := by omega
          rwa [e] at ht
        exact (dmrg2Left_sparse hsvd hn0 hH ht' (by omega) hr).mono (Nat.le_refl _) (by omega))
      _ _ (h.mono (Nat.le_refl _) (Nat.zero_le _)) h1
  have hl' : EvoSparse H qd (s1, e1).1 (H.A.length - 1 - 1) (H.A.length - 1) :=
    hl.mono (by omega) (by omega)
  have hr : EvoSparse H qd (s2, e2).1 (0 - 1) 0 :=
    foldIdx_rev (dmrg2Right k H qd numiter tol) (fun n (t : Sweep 𝕜 × ℝ) => EvoSparse H qd t.1 (n - 1) n) (H.A.length - 1)
      (fun i hi t t' ht hr => by
        have ht' : EvoSparse H qd t.1 i (i + 1) := by simpa using ht
        exact (dmrg2Right_sparse hsvd hn0 hH ht' (by omega) hr).mono (by omega) (Nat.le_refl _))
      _ _ hl' h2
  exact dmrgNormalizeFirst_sparse hshape hL hr h3

/-- **`calculate_ground_state_local_twosite` returns a well-formed MPS** -/
theorem dmrg2_wf (hshape : ∀ B, ShapeAt k.dqr B) (hsvd : ∀ B, SvdShapeAt k.svd.dsvd B) (hn0 : ¬ 0 < k.cnorm [])
    {ψ ψ' : MPS 𝕜} {numsweeps : Nat} {en : List ℝ} (hw : ψ.wellFormed = true) (hH : HOk H ψ.qd)
    (h : dmrgTwosite k H ψ numsweeps numiter tol = .ok (ψ', en)) : ψ'.wellFormed = true := by
  unfold dmrgTwosite at h
  rw [bind_ok] at h
  obtain ⟨⟨s0, nrm⟩, hp, h⟩ := h
  dsimp only at h
  rw [bind_ok] at h
  obtain ⟨⟨s, en'⟩, hit, h⟩ := h
  dsimp only at h
  rw [pure_ok] at h
  injection h with ha hb
  subst ha
  have hL := prologue_pos hp
  have h0 := prologue_sparse hshape hH hw hp hL
  have hinv := iterate_inv (dmrg2Sweep k H ψ.qd numiter tol) (fun (t : Sweep 𝕜 × List ℝ) => EvoSparse H ψ.qd t.1 0 0)
    (fun t t' ht ht' => dmrg2Sweep_sparse hshape hsvd hn0 hH hL ht ht') numsweeps (s0, []) (s, en') h0 hit
  exact toMPS_wf hinv

end Ptn.HistWf

import PtnModel.Proofs.SpinExplDefs
import PtnModel.Proofs.ExplDense
/-!
# Explicit spin-orbital molecular graph, part 1: the node tables

Spin analogue of `HamMolLookup` / `ExplTab` and of the table parts of `ExplGraph` / `ExplDense`: the keys of the ten families of
`SpinMolecularOpGraphNodes.__init__` (`sfam_keys`, `sfam_keys_lookup`), all look-ups with labels inside the index ranges are defined
(`sTab`), the label table (`slab_mem_tabN`, `snidOf_inj`, `slabOf_nidOf`), the identity chains, and the initial nodes
(`snodeList_empty`, `snodeAt_qnum`, `snode_labelled`).
-/
set_option linter.unusedSectionVars false
set_option linter.unusedSimpArgs false
set_option linter.unusedVariables false
set_option linter.unusedTactic false
set_option linter.unreachableTactic false

namespace Ptn.Ham
open Ptn.Og List

theorem sx_ten {t : Nat} (ht : t < 10) : t = 0 ∨ t = 1 ∨ t = 2 ∨ t = 3 ∨ t = 4 ∨ t = 5 ∨ t = 6 ∨ t = 7 ∨ t = 8 ∨ t = 9 := by omega

theorem sfam_keys (L : Int) (t : Nat) (ht : t < 10) :
    famKeys ((SpinNodes.init L).fam t) = specKeys ((spinSpecs L).getD t []) := by
  rcases sx_ten ht with rfl | rfl | rfl | rfl | rfl | rfl | rfl | rfl | rfl | rfl
  · exact mkFams_keys (spinSpecs L) (idCount L) 0
  · exact mkFams_keys (spinSpecs L) (idCount L) 1
  · exact mkFams_keys (spinSpecs L) (idCount L) 2
  · exact mkFams_keys (spinSpecs L) (idCount L) 3
  · exact mkFams_keys (spinSpecs L) (idCount L) 4
  · exact mkFams_keys (spinSpecs L) (idCount L) 5
  · exact mkFams_keys (spinSpecs L) (idCount L) 6
  · exact mkFams_keys (spinSpecs L) (idCount L) 7
  · exact mkFams_keys (spinSpecs L) (idCount L) 8
  · exact mkFams_keys (spinSpecs L) (idCount L) 9

theorem sx_single_lookup (A : List (Int × Int)) (R : Int × Int → List Int) (q : Int × Int → Int) (p : Int × Int) (hp : p ∈ A) :
    (specKeys (A.map fun p => ([p.1, p.2], R p, q p))).lookup [p.1, p.2] = some (R p) := by
  apply lookup_of_forall
  · exact ⟨([p.1, p.2], R p), by simp only [specKeys, List.map_map, List.mem_map]; exact ⟨p, hp, rfl⟩, rfl⟩
  · intro x hx hk
    simp only [specKeys, List.map_map, List.mem_map, Function.comp] at hx
    obtain ⟨p', _, rfl⟩ := hx
    simp only [List.cons.injEq, and_true] at hk
    obtain ⟨h1, h2⟩ := hk
    have : p' = p := Prod.ext h1 h2
    subst this
    rfl

theorem sx_pair_lookup (A : List (Int × Int)) (B : Int × Int → List (Int × Int)) (R : Int × Int → Int × Int → List Int)
    (c : Int × Int → Int × Int → Int) (p q : Int × Int) (hp : p ∈ A) (hq : q ∈ B p) :
    (specKeys (A.flatMap fun p => (B p).map fun q => ([p.1, p.2, q.1, q.2], R p q, c p q))).lookup [p.1, p.2, q.1, q.2]
      = some (R p q) := by
  apply lookup_of_forall
  · refine ⟨([p.1, p.2, q.1, q.2], R p q), ?_, rfl⟩
    simp only [specKeys, List.mem_map, List.mem_flatMap]
    exact ⟨([p.1, p.2, q.1, q.2], R p q, c p q), ⟨p, hp, q, hq, rfl⟩, rfl⟩
  · intro x hx hk
    simp only [specKeys, List.mem_map, List.mem_flatMap] at hx
    obtain ⟨s, ⟨p', _, q', _, rfl⟩, rfl⟩ := hx
    simp only [List.cons.injEq, and_true] at hk
    obtain ⟨h1, h2, h3, h4⟩ := hk
    have e1 : p' = p := Prod.ext h1 h2
    have e2 : q' = q := Prod.ext h3 h4
    subst e1; subst e2
    rfl

theorem sx_keys0 (L i s : Int) (h0 : 0 ≤ i) (h1 : i < L - 1) (h2 : 0 ≤ s) (h3 : s ≤ 1) :
    (specKeys ((spinSpecs L).getD 0 [])).lookup [i, s] = some (pyRange (i + 1) L) :=
  sx_single_lookup (prodRS 0 (L - 1)) (fun p => pyRange (p.1 + 1) L) _ (i, s) (mem_prodRS.2 ⟨h0, h1, by simp only; omega⟩)

theorem sx_keys2 (L i s j t : Int) (h0 : 0 ≤ i) (h1 : i ≤ j) (h2 : j < L / 2) (h3 : 0 ≤ s) (h4 : s ≤ 1) (h5 : 0 ≤ t) (h6 : t ≤ 1)
    (h7 : i < j ∨ (i = j ∧ s < t)) :
    (specKeys ((spinSpecs L).getD 2 [])).lookup [i, s, j, t] = some (pyRange (j + 1) (L / 2 + 1)) :=
  sx_pair_lookup (prodRS 0 (L / 2)) (fun p => (prodRS p.1 (L / 2)).filter fun jt => pLt p jt) (fun p q => pyRange (q.1 + 1) (L / 2 + 1)) _
    (i, s) (j, t) (mem_prodRS.2 ⟨h0, by omega, by simp only; omega⟩)
    (mem_filter.2 ⟨mem_prodRS.2 ⟨h1, h2, by simp only; omega⟩, (pLt_iff _ _).2 h7⟩)

theorem sx_keys1 (L i s : Int) (h0 : 0 ≤ i) (h1 : i < L - 1) (h2 : 0 ≤ s) (h3 : s ≤ 1) :
    (specKeys ((spinSpecs L).getD 1 [])).lookup [i, s] = some (pyRange (i + 1) L) :=
  sx_single_lookup (prodRS 0 (L - 1)) (fun p => pyRange (p.1 + 1) L) _ (i, s) (mem_prodRS.2 ⟨h0, h1, by simp only; omega⟩)

theorem sx_keys3 (L i s j t : Int) (h0 : 0 ≤ j) (h1 : j ≤ i) (h2 : i < L / 2) (h3 : 0 ≤ s) (h4 : s ≤ 1) (h5 : 0 ≤ t) (h6 : t ≤ 1)
    (h7 : j < i ∨ (j = i ∧ t < s)) :
    (specKeys ((spinSpecs L).getD 3 [])).lookup [i, s, j, t] = some (pyRange (i + 1) (L / 2 + 1)) :=
  sx_pair_lookup (prodRS 0 (L / 2)) (fun p => (prodRS 0 (p.1 + 1)).filter fun jt => pLt jt p) (fun p q => pyRange (p.1 + 1) (L / 2 + 1)) _
    (i, s) (j, t) (mem_prodRS.2 ⟨by omega, h2, by simp only; omega⟩)
    (mem_filter.2 ⟨mem_prodRS.2 ⟨h0, by simp only; omega, by simp only; omega⟩, (pLt_iff _ _).2 h7⟩)

theorem sx_keys4 (L i s j t : Int) (h0 : 0 ≤ i) (h1 : i < L / 2) (h2 : 0 ≤ j) (h2' : j < L / 2) (h3 : 0 ≤ s) (h4 : s ≤ 1)
    (h5 : 0 ≤ t) (h6 : t ≤ 1) :
    (specKeys ((spinSpecs L).getD 4 [])).lookup [i, s, j, t] = some (pyRange (max i j + 1) (L / 2 + 1)) :=
  sx_pair_lookup (prodRS 0 (L / 2)) (fun p => prodRS 0 (L / 2)) (fun p q => pyRange (max p.1 q.1 + 1) (L / 2 + 1)) _
    (i, s) (j, t) (mem_prodRS.2 ⟨h0, h1, by simp only; omega⟩) (mem_prodRS.2 ⟨h2, h2', by simp only; omega⟩)

theorem sx_keys5 (L i s : Int) (h0 : 1 ≤ i) (h1 : i < L) (h2 : 0 ≤ s) (h3 : s ≤ 1) :
    (specKeys ((spinSpecs L).getD 5 [])).lookup [i, s] = some (pyRange 1 (i + 1)) :=
  sx_single_lookup (prodRS 1 L) (fun p => pyRange 1 (p.1 + 1)) _ (i, s) (mem_prodRS.2 ⟨h0, h1, by simp only; omega⟩)

theorem sx_keys6 (L i s : Int) (h0 : 1 ≤ i) (h1 : i < L) (h2 : 0 ≤ s) (h3 : s ≤ 1) :
    (specKeys ((spinSpecs L).getD 6 [])).lookup [i, s] = some (pyRange 1 (i + 1)) :=
  sx_single_lookup (prodRS 1 L) (fun p => pyRange 1 (p.1 + 1)) _ (i, s) (mem_prodRS.2 ⟨h0, h1, by simp only; omega⟩)

theorem sx_keys7 (L i s j t : Int) (h0 : L / 2 + 1 ≤ i) (h1 : i ≤ j) (h2 : j < L) (h3 : 0 ≤ s) (h4 : s ≤ 1) (h5 : 0 ≤ t) (h6 : t ≤ 1)
    (h7 : i < j ∨ (i = j ∧ s < t)) :
    (specKeys ((spinSpecs L).getD 7 [])).lookup [i, s, j, t] = some (pyRange (L / 2 + 1) (i + 1)) :=
  sx_pair_lookup (prodRS (L / 2 + 1) L) (fun p => (prodRS p.1 L).filter fun jt => pLt p jt) (fun p q => pyRange (L / 2 + 1) (p.1 + 1)) _
    (i, s) (j, t) (mem_prodRS.2 ⟨h0, by simp only; omega, by simp only; omega⟩)
    (mem_filter.2 ⟨mem_prodRS.2 ⟨h1, h2, by simp only; omega⟩, (pLt_iff _ _).2 h7⟩)

theorem sx_keys8 (L i s j t : Int) (h0 : L / 2 + 1 ≤ j) (h1 : j ≤ i) (h2 : i < L) (h3 : 0 ≤ s) (h4 : s ≤ 1) (h5 : 0 ≤ t) (h6 : t ≤ 1)
    (h7 : j < i ∨ (j = i ∧ t < s)) :
    (specKeys ((spinSpecs L).getD 8 [])).lookup [i, s, j, t] = some (pyRange (L / 2 + 1) (j + 1)) :=
  sx_pair_lookup (prodRS (L / 2 + 1) L) (fun p => (prodRS (L / 2 + 1) (p.1 + 1)).filter fun jt => pLt jt p)
    (fun p q => pyRange (L / 2 + 1) (q.1 + 1)) _
    (i, s) (j, t) (mem_prodRS.2 ⟨by simp only; omega, h2, by simp only; omega⟩)
    (mem_filter.2 ⟨mem_prodRS.2 ⟨h0, by simp only; omega, by simp only; omega⟩, (pLt_iff _ _).2 h7⟩)

theorem sx_keys9 (L i s j t : Int) (h0 : L / 2 + 1 ≤ i) (h1 : i < L) (h2 : L / 2 + 1 ≤ j) (h2' : j < L) (h3 : 0 ≤ s) (h4 : s ≤ 1)
    (h5 : 0 ≤ t) (h6 : t ≤ 1) :
    (specKeys ((spinSpecs L).getD 9 [])).lookup [i, s, j, t] = some (pyRange (L / 2 + 1) (min i j + 1)) :=
  sx_pair_lookup (prodRS (L / 2 + 1) L) (fun p => prodRS (L / 2 + 1) L) (fun p q => pyRange (L / 2 + 1) (min p.1 q.1 + 1)) _
    (i, s) (j, t) (mem_prodRS.2 ⟨h0, h1, by simp only; omega⟩) (mem_prodRS.2 ⟨h2, h2', by simp only; omega⟩)

/-- keys of the wrong shape are outside the index ranges -/
theorem sx_key2 {L : Int} {t : Nat} {key : List Int} {k : Int} (ht : t = 0 ∨ t = 1 ∨ t = 5 ∨ t = 6) (h : sLabOk L (t, key, k)) :
    ∃ i s, key = [i, s] := by
  rcases ht with rfl | rfl | rfl | rfl <;>
    (rcases key with _ | ⟨i, _ | ⟨s, _ | ⟨j, r⟩⟩⟩
     · exact h.elim
     · exact h.elim
     · exact ⟨i, s, rfl⟩
     · exact h.elim)

theorem sx_key4 {L : Int} {t : Nat} {key : List Int} {k : Int} (ht : t = 2 ∨ t = 3 ∨ t = 4 ∨ t = 7 ∨ t = 8 ∨ t = 9)
    (h : sLabOk L (t, key, k)) : ∃ i s j u, key = [i, s, j, u] := by
  rcases ht with rfl | rfl | rfl | rfl | rfl | rfl <;>
    (rcases key with _ | ⟨i, _ | ⟨s, _ | ⟨j, _ | ⟨u, _ | ⟨v, r⟩⟩⟩⟩⟩
     · exact h.elim
     · exact h.elim
     · exact h.elim
     · exact h.elim
     · exact ⟨i, s, j, u, rfl⟩
     · exact h.elim)

theorem sfam_keys_lookup (L : Int) (t : Nat) (key : List Int) (k : Int) (ht : t < 10) (h : sLabOk L (t, key, k)) :
    ∃ ks, (famKeys ((SpinNodes.init L).fam t)).lookup key = some ks ∧ k ∈ ks := by
  rw [sfam_keys L t ht]
  rcases sx_ten ht with rfl | rfl | rfl | rfl | rfl | rfl | rfl | rfl | rfl | rfl
  · obtain ⟨i, s, rfl⟩ := sx_key2 (by omega) h
    simp only [sLabOk] at h
    exact ⟨_, sx_keys0 L i s (by omega) (by omega) (by omega) (by omega), mem_pyRange.2 (by omega)⟩
  · obtain ⟨i, s, rfl⟩ := sx_key2 (by omega) h
    simp only [sLabOk] at h
    exact ⟨_, sx_keys1 L i s (by omega) (by omega) (by omega) (by omega), mem_pyRange.2 (by omega)⟩
  · obtain ⟨i, s, j, u, rfl⟩ := sx_key4 (by omega) h
    simp only [sLabOk] at h
    exact ⟨_, sx_keys2 L i s j u (by omega) (by omega) (by omega) (by omega) (by omega) (by omega) (by omega) (by omega),
      mem_pyRange.2 (by omega)⟩
  · obtain ⟨i, s, j, u, rfl⟩ := sx_key4 (by omega) h
    simp only [sLabOk] at h
    exact ⟨_, sx_keys3 L i s j u (by omega) (by omega) (by omega) (by omega) (by omega) (by omega) (by omega) (by omega),
      mem_pyRange.2 (by omega)⟩
  · obtain ⟨i, s, j, u, rfl⟩ := sx_key4 (by omega) h
    simp only [sLabOk] at h
    exact ⟨_, sx_keys4 L i s j u (by omega) (by omega) (by omega) (by omega) (by omega) (by omega) (by omega) (by omega),
      mem_pyRange.2 (by omega)⟩
  · obtain ⟨i, s, rfl⟩ := sx_key2 (by omega) h
    simp only [sLabOk] at h
    exact ⟨_, sx_keys5 L i s (by omega) (by omega) (by omega) (by omega), mem_pyRange.2 (by omega)⟩
  · obtain ⟨i, s, rfl⟩ := sx_key2 (by omega) h
    simp only [sLabOk] at h
    exact ⟨_, sx_keys6 L i s (by omega) (by omega) (by omega) (by omega), mem_pyRange.2 (by omega)⟩
  · obtain ⟨i, s, j, u, rfl⟩ := sx_key4 (by omega) h
    simp only [sLabOk] at h
    exact ⟨_, sx_keys7 L i s j u (by omega) (by omega) (by omega) (by omega) (by omega) (by omega) (by omega) (by omega),
      mem_pyRange.2 (by omega)⟩
  · obtain ⟨i, s, j, u, rfl⟩ := sx_key4 (by omega) h
    simp only [sLabOk] at h
    exact ⟨_, sx_keys8 L i s j u (by omega) (by omega) (by omega) (by omega) (by omega) (by omega) (by omega) (by omega),
      mem_pyRange.2 (by omega)⟩
  · obtain ⟨i, s, j, u, rfl⟩ := sx_key4 (by omega) h
    simp only [sLabOk] at h
    exact ⟨_, sx_keys9 L i s j u (by omega) (by omega) (by omega) (by omega) (by omega) (by omega) (by omega) (by omega),
      mem_pyRange.2 (by omega)⟩

/-! ## the look-ups -/

theorem snodeAt_fam (n : SpinNodes) (t : Nat) (ht : t < 10) (key : List Int) (k : Int) :
    n.nodeAt (t, key, k) = nodeOf (innerOf (n.fam t) key) k := by
  rcases sx_ten ht with rfl | rfl | rfl | rfl | rfl | rfl | rfl | rfl | rfl | rfl <;> rfl

theorem slook_fam (n : SpinNodes) (t : Nat) (ht : t < 10) (key : List Int) (k : Int) :
    n.look (t, key, k) = (n.fam t).get2 key k := by
  rcases sx_ten ht with rfl | rfl | rfl | rfl | rfl | rfl | rfl | rfl | rfl | rfl <;> rfl

theorem sidentityL_keys (L : Int) : (SpinNodes.init L).identityL.map (·.1) = pyRange 0 L := identityL_keys L
theorem sidentityR_keys (L : Int) : (SpinNodes.init L).identityR.map (·.1) = pyRange 1 (L + 1) := identityR_keys L

theorem sidentityL_dGet (L i : Int) (h0 : 0 ≤ i) (h1 : i < L) : dGet (SpinNodes.init L).identityL i = .ok ⟨i, [], [], 0⟩ :=
  identityL_dGet L i h0 h1
theorem sidentityR_dGet (L i : Int) (h0 : 1 ≤ i) (h1 : i < L + 1) :
    dGet (SpinNodes.init L).identityR i = .ok ⟨L + i - 1, [], [], 0⟩ :=
  identityR_dGet L i h0 h1

/-- shape of a label inside the index ranges -/
theorem sx_lab_cases {L : Int} {lab : Lab} (h : sLabOk L lab) :
    lab.1 < 10 ∨ (∃ k, lab = (10, [], k)) ∨ (∃ k, lab = (11, [], k)) := by
  obtain ⟨t, key, k⟩ := lab
  by_cases h10 : t < 10
  · exact Or.inl h10
  · right
    by_cases e10 : t = 10
    · subst e10
      rcases key with _ | ⟨i, r⟩
      · exact Or.inl ⟨k, rfl⟩
      · exact h.elim
    · by_cases e11 : t = 11
      · subst e11
        rcases key with _ | ⟨i, r⟩
        · exact Or.inr ⟨k, rfl⟩
        · exact h.elim
      · exfalso
        obtain ⟨t', rfl⟩ : ∃ t', t = t' + 12 := ⟨t - 12, by omega⟩
        exact h.elim

theorem sTab (L : Int) : STab L where
  fam := by
    intro t key k ht h
    obtain ⟨ks, hks, hk⟩ := sfam_keys_lookup L t key k ht h
    obtain ⟨h1, h2⟩ := fam_rules _ _ _ hks
    refine ⟨h1, ?_⟩
    rw [snodeAt_fam _ t ht]
    exact h2 k hk
  idL := by
    intro k h0 h1
    exact dGet_of_mem _ k (by rw [sidentityL_keys]; exact mem_pyRange.2 ⟨h0, h1⟩)
  idR := by
    intro k h0 h1
    exact dGet_of_mem _ k (by rw [sidentityR_keys]; exact mem_pyRange.2 ⟨h0, h1⟩)
  look := by
    intro lab h
    rcases sx_lab_cases h with ht | ⟨k, rfl⟩ | ⟨k, rfl⟩
    · obtain ⟨t, key, k⟩ := lab
      simp only at ht
      obtain ⟨ks, hks, hk⟩ := sfam_keys_lookup L t key k ht h
      obtain ⟨h1, h2⟩ := fam_rules _ _ _ hks
      rw [slook_fam _ t ht, snodeAt_fam _ t ht]
      exact get2_ok h1 (h2 k hk)
    · simp only [sLabOk] at h
      exact dGet_of_mem _ k (by rw [sidentityL_keys]; exact mem_pyRange.2 h)
    · simp only [sLabOk] at h
      exact dGet_of_mem _ k (by rw [sidentityR_keys]; exact mem_pyRange.2 h)

/-! ## the label table -/

theorem stabN_nodes (n : SpinNodes) : n.tabN.map (·.2) = n.nodeList := by
  simp only [SpinNodes.tabN, SpinNodes.nodeList, map_append, famTabN_nodes, idTabN_nodes]

theorem stabN_ids_nodup (L : Int) : ((SpinNodes.init L).tabN.map fun x => x.2.nid).Nodup := by
  have := spinNodes_ids_nodup L
  rw [← stabN_nodes, map_map] at this
  exact this

theorem sx_famTabN_sub (n : SpinNodes) (t : Nat) (ht : t < 10) : ∀ x ∈ famTabN t (n.fam t), x ∈ n.tabN := by
  intro x hx
  unfold SpinNodes.tabN
  simp only [mem_append]
  rcases sx_ten ht with rfl | rfl | rfl | rfl | rfl | rfl | rfl | rfl | rfl | rfl
  · exact Or.inl (Or.inl (Or.inl (Or.inl (Or.inl (Or.inl (Or.inl (Or.inl (Or.inl (Or.inr hx)))))))))
  · exact Or.inl (Or.inl (Or.inl (Or.inl (Or.inl (Or.inl (Or.inl (Or.inl (Or.inr hx))))))))
  · exact Or.inl (Or.inl (Or.inl (Or.inl (Or.inl (Or.inr hx)))))
  · exact Or.inl (Or.inl (Or.inl (Or.inl (Or.inr hx))))
  · exact Or.inl (Or.inl (Or.inl (Or.inr hx)))
  · exact Or.inl (Or.inl (Or.inl (Or.inl (Or.inl (Or.inl (Or.inl (Or.inr hx)))))))
  · exact Or.inl (Or.inl (Or.inl (Or.inl (Or.inl (Or.inl (Or.inr hx))))))
  · exact Or.inl (Or.inl (Or.inr hx))
  · exact Or.inl (Or.inr hx)
  · exact Or.inr hx

/-- **every label inside the index ranges occurs in the table**, with the node the look-up returns -/
theorem slab_mem_tabN (L : Int) (lab : Lab) (h : sLabOk L lab) :
    (lab, (SpinNodes.init L).nodeAt lab) ∈ (SpinNodes.init L).tabN := by
  rcases sx_lab_cases h with ht | ⟨k, rfl⟩ | ⟨k, rfl⟩
  · obtain ⟨t, key, k⟩ := lab
    simp only at ht
    obtain ⟨ks, hks, hk⟩ := sfam_keys_lookup L t key k ht h
    rw [snodeAt_fam _ t ht]
    exact sx_famTabN_sub _ t ht _ (famTabN_mem t _ key ks k hks hk)
  · simp only [sLabOk] at h
    unfold SpinNodes.tabN
    simp only [mem_append]
    exact Or.inl (Or.inl (Or.inl (Or.inl (Or.inl (Or.inl (Or.inl (Or.inl (Or.inl (Or.inl (Or.inl
      (idTabN_mem 10 _ _ (by rw [sidentityL_keys]; exact mem_pyRange.2 h))))))))))))
  · simp only [sLabOk] at h
    unfold SpinNodes.tabN
    simp only [mem_append]
    exact Or.inl (Or.inl (Or.inl (Or.inl (Or.inl (Or.inl (Or.inl (Or.inl (Or.inl (Or.inl (Or.inr
      (idTabN_mem 11 _ _ (by rw [sidentityR_keys]; exact mem_pyRange.2 h))))))))))))

/-- two table entries with the same node id are the same entry -/
theorem stabN_inj (L : Int) (x y : Lab × Node) (hx : x ∈ (SpinNodes.init L).tabN) (hy : y ∈ (SpinNodes.init L).tabN)
    (h : x.2.nid = y.2.nid) : x = y :=
  inj_on_of_nodup_map (stabN_ids_nodup L) hx hy h

/-- **the node id determines the label** -/
theorem snidOf_inj (L : Int) (a b : Lab) (ha : sLabOk L a) (hb : sLabOk L b)
    (h : (SpinNodes.init L).nidOf a = (SpinNodes.init L).nidOf b) : a = b :=
  congrArg Prod.fst (stabN_inj L _ _ (slab_mem_tabN L a ha) (slab_mem_tabN L b hb) h)

theorem snodeAt_mem (L : Int) (a : Lab) (ha : sLabOk L a) : (SpinNodes.init L).nodeAt a ∈ (SpinNodes.init L).nodeList := by
  rw [← stabN_nodes]
  exact mem_map.2 ⟨_, slab_mem_tabN L a ha, rfl⟩

theorem slabOf_nidOf (L : Int) (a : Lab) (ha : sLabOk L a) : (SpinNodes.init L).labOf ((SpinNodes.init L).nidOf a) = a := by
  unfold SpinNodes.labOf
  rw [lookup_of_mem _ (by rw [map_map]; exact stabN_ids_nodup L) ((SpinNodes.init L).nidOf a) a
    (mem_map.2 ⟨_, slab_mem_tabN L a ha, rfl⟩)]
  rfl

/-! ## the identity chains -/

theorem snodeAt_idL (L k : Int) (h0 : 0 ≤ k) (h1 : k < L) : (SpinNodes.init L).nodeAt (10, [], k) = ⟨k, [], [], 0⟩ := by
  have h := (sTab L).idL k h0 h1
  rw [sidentityL_dGet L k h0 h1] at h
  exact (Except.ok.inj h).symm

theorem snodeAt_idR (L k : Int) (h0 : 1 ≤ k) (h1 : k < L + 1) : (SpinNodes.init L).nodeAt (11, [], k) = ⟨L + k - 1, [], [], 0⟩ := by
  have h := (sTab L).idR k h0 h1
  rw [sidentityR_dGet L k h0 h1] at h
  exact (Except.ok.inj h).symm

theorem snidOf_idL (L k : Int) (h0 : 0 ≤ k) (h1 : k < L) : (SpinNodes.init L).nidOf (10, [], k) = k := by
  unfold SpinNodes.nidOf
  rw [snodeAt_idL L k h0 h1]

theorem snidOf_idR (L k : Int) (h0 : 1 ≤ k) (h1 : k < L + 1) : (SpinNodes.init L).nidOf (11, [], k) = L + k - 1 := by
  unfold SpinNodes.nidOf
  rw [snodeAt_idR L k h0 h1]

theorem snodeAt_idL0 (L : Int) (hL : 1 ≤ L) : (SpinNodes.init L).nodeAt (10, [], 0) = ⟨0, [], [], 0⟩ :=
  snodeAt_idL L 0 (by omega) (by omega)

theorem snodeAt_idRL (L : Int) (hL : 1 ≤ L) : (SpinNodes.init L).nodeAt (11, [], L) = ⟨L + L - 1, [], [], 0⟩ :=
  snodeAt_idR L L (by omega) (by omega)

/-! ## the initial nodes -/

theorem sx_fam_nodes_sub (n : SpinNodes) (m : Node) (hm : m ∈ n.nodeList) :
    (m ∈ n.identityL.map (·.2) ∨ m ∈ n.identityR.map (·.2)) ∨ ∃ t, t < 10 ∧ m ∈ (n.fam t).nodes := by
  simp only [SpinNodes.nodeList, mem_append] at hm
  rcases hm with ((((((((((hm | hm) | hm) | hm) | hm) | hm) | hm) | hm) | hm) | hm) | hm) | hm
  · exact Or.inl (Or.inl hm)
  · exact Or.inl (Or.inr hm)
  · exact Or.inr ⟨0, by omega, hm⟩
  · exact Or.inr ⟨1, by omega, hm⟩
  · exact Or.inr ⟨5, by omega, hm⟩
  · exact Or.inr ⟨6, by omega, hm⟩
  · exact Or.inr ⟨2, by omega, hm⟩
  · exact Or.inr ⟨3, by omega, hm⟩
  · exact Or.inr ⟨4, by omega, hm⟩
  · exact Or.inr ⟨7, by omega, hm⟩
  · exact Or.inr ⟨8, by omega, hm⟩
  · exact Or.inr ⟨9, by omega, hm⟩

theorem sfam_eq (L : Int) (t : Nat) (ht : t < 10) : (SpinNodes.init L).fam t = (mkFams (spinSpecs L) (idCount L)).1.getD t [] := by
  rcases sx_ten ht with rfl | rfl | rfl | rfl | rfl | rfl | rfl | rfl | rfl | rfl <;> rfl

theorem snodeList_empty (L : Int) : ∀ m ∈ (SpinNodes.init L).nodeList, m.eidsIn = [] ∧ m.eidsOut = [] := by
  intro m hm
  rcases sx_fam_nodes_sub _ m hm with (hm | hm) | ⟨t, ht, hm⟩
  · obtain ⟨p, hp, rfl⟩ := mem_map.1 hm
    obtain ⟨i, _, rfl⟩ := mem_map.1 hp
    exact ⟨rfl, rfl⟩
  · obtain ⟨p, hp, rfl⟩ := mem_map.1 hm
    obtain ⟨i, _, rfl⟩ := mem_map.1 hp
    exact ⟨rfl, rfl⟩
  · rw [sfam_eq L t ht] at hm
    exact mkFams_empty (spinSpecs L) _ t m hm

/-! ## node charges -/

/-- every entry of a created family stems from a spec entry: same key, same inner keys, all nodes with the charge of the entry -/
theorem sx_mkFam_fold_entry (spec : List (List Int × List Int × Int)) :
    ∀ acc : Fam × Int, ∀ e ∈ (spec.foldl (fun (acc : Fam × Int) (s : List Int × List Int × Int) =>
        let inner := s.2.1.zipIdx.map fun (k, idx) => (k, (⟨acc.2 + (idx : Int), [], [], s.2.2⟩ : Node))
        (acc.1 ++ [(s.1, inner)], acc.2 + (s.2.1.length : Int))) acc).1,
      e ∈ acc.1 ∨ ∃ s ∈ spec, e.1 = s.1 ∧ ∀ p ∈ e.2, p.2.qnum = s.2.2 := by
  induction spec with
  | nil => intro acc e he; exact Or.inl he
  | cons s rest ih =>
    intro acc e he
    simp only [List.foldl_cons] at he
    rcases ih _ e he with h | ⟨s', hs', h⟩
    · simp only [mem_append, mem_cons, not_mem_nil, or_false] at h
      rcases h with h | rfl
      · exact Or.inl h
      · refine Or.inr ⟨s, mem_cons_self .., rfl, ?_⟩
        intro p hp
        obtain ⟨q, _, rfl⟩ := mem_map.1 hp
        rfl
    · exact Or.inr ⟨s', mem_cons_of_mem _ hs', h⟩

theorem sx_mkFams_entry (specs : List (List (List Int × List Int × Int))) (n0 : Int) (idx : Nat) :
    ∀ e ∈ (mkFams specs n0).1.getD idx [], ∃ s ∈ specs.getD idx [], e.1 = s.1 ∧ ∀ p ∈ e.2, p.2.qnum = s.2.2 := by
  obtain ⟨n, hn⟩ := mkFams_getD specs n0 idx
  rw [hn]
  intro e he
  rcases sx_mkFam_fold_entry (specs.getD idx []) ([], n) e he with h | h
  · simp at h
  · exact h

/-- the charge in the spec entry is the charge of the labels with its key -/
theorem sx_spec_q (L : Int) (t : Nat) (ht : t < 10) (k : Int) : ∀ s ∈ (spinSpecs L).getD t [], s.2.2 = stagQ (t, s.1, k) := by
  intro s hs
  rcases sx_ten ht with rfl | rfl | rfl | rfl | rfl | rfl | rfl | rfl | rfl | rfl <;>
    (simp only [spinSpecs, List.getD_eq_getElem?_getD, List.getElem?_cons_zero, List.getElem?_cons_succ, Option.getD_some,
        mem_map, mem_flatMap, mem_filter] at hs
     first
     | (obtain ⟨_, _, rfl⟩ := hs; rfl)
     | (obtain ⟨_, _, _, _, rfl⟩ := hs; rfl))

theorem sx_entry_mem (f : Fam) (key ks : List Int) (k : Int) (h : (famKeys f).lookup key = some ks) (hk : k ∈ ks) :
    (key, innerOf f key) ∈ f ∧ (k, nodeOf (innerOf f key) k) ∈ innerOf f key := by
  obtain ⟨h1, h2⟩ := fam_get_of_keys f key ks h
  have hm : (key, innerOf f key) ∈ f := by
    unfold Fam.get at h1
    unfold innerOf
    cases hl : f.lookup key with
    | none => rw [hl] at h1; cases h1
    | some d => exact mem_of_lookup f key d hl
  exact ⟨hm, nodeOf_mem (innerOf f key) k (by rw [h2]; exact hk)⟩

/-- the node of a label carries the charge of its label -/
theorem snodeAt_qnum (L : Int) (lab : Lab) (h : sLabOk L lab) : ((SpinNodes.init L).nodeAt lab).qnum = stagQ lab := by
  rcases sx_lab_cases h with ht | ⟨k, rfl⟩ | ⟨k, rfl⟩
  · obtain ⟨t, key, k⟩ := lab
    simp only at ht
    obtain ⟨ks, hks, hk⟩ := sfam_keys_lookup L t key k ht h
    obtain ⟨h1, h2⟩ := sx_entry_mem _ key ks k hks hk
    rw [sfam_eq L t ht] at h1
    obtain ⟨s, hs, e1, e2⟩ := sx_mkFams_entry (spinSpecs L) _ t _ h1
    rw [snodeAt_fam _ t ht]
    simp only at e1
    rw [← sfam_eq L t ht] at e2
    rw [e2 _ h2, sx_spec_q L t ht k s hs, ← e1]
  · simp only [sLabOk] at h
    rw [snodeAt_idL L k h.1 h.2]; rfl
  · simp only [sLabOk] at h
    rw [snodeAt_idR L k h.1 h.2]; rfl

/-! ## every node carries a label -/

theorem sx_nodup_flatMap_proj {α β : Type} (π : α → β) (l : List β) (g : β → List α) (hl : l.Nodup)
    (hg : ∀ i ∈ l, (g i).Nodup) (hπ : ∀ i ∈ l, ∀ x ∈ g i, π x = i) : (l.flatMap g).Nodup := by
  induction l with
  | nil => simp
  | cons a l ih =>
    obtain ⟨ha, hl'⟩ := nodup_cons.1 hl
    rw [flatMap_cons, nodup_append]
    refine ⟨hg a (mem_cons_self ..), ih hl' (fun i hi => hg i (mem_cons_of_mem _ hi))
      (fun i hi => hπ i (mem_cons_of_mem _ hi)), ?_⟩
    intro x hx y hy hxy
    obtain ⟨i, hi, hyi⟩ := mem_flatMap.1 hy
    have h1 := hπ a (mem_cons_self ..) x hx
    have h2 := hπ i (mem_cons_of_mem _ hi) y hyi
    rw [← hxy, h1] at h2
    exact ha (h2 ▸ hi)

theorem prodRS_nodup (a b : Int) : (prodRS a b).Nodup :=
  sx_nodup_flatMap_proj Prod.fst (pyRange a b) _ (pyRange_nodup a b)
    (fun i _ => by simp)
    (fun i _ x hx => by
      simp only [mem_cons, not_mem_nil, or_false] at hx
      rcases hx with rfl | rfl <;> rfl)

theorem sx_nodup_spec1 (A : List (Int × Int)) (R : Int × Int → List Int) (q : Int × Int → Int) (hA : A.Nodup) :
    ((A.map fun p => ([p.1, p.2], R p, q p)).map (·.1)).Nodup := by
  rw [map_map]
  refine hA.map ?_
  intro a b h
  simp only [Function.comp, cons.injEq, and_true] at h
  exact Prod.ext h.1 h.2

theorem sx_nodup_spec2 (A : List (Int × Int)) (B : Int × Int → List (Int × Int)) (R : Int × Int → Int × Int → List Int)
    (c : Int × Int → Int × Int → Int) (hA : A.Nodup) (hB : ∀ p ∈ A, (B p).Nodup) :
    ((A.flatMap fun p => (B p).map fun q => ([p.1, p.2, q.1, q.2], R p q, c p q)).map (·.1)).Nodup := by
  rw [map_flatMap]
  refine sx_nodup_flatMap_proj (fun x => (x.headD 0, (x.drop 1).headD 0)) A _ hA ?_ ?_
  · intro p hp
    rw [map_map]
    refine (hB p hp).map ?_
    intro a b h
    simp only [Function.comp, cons.injEq, and_true, true_and] at h
    exact Prod.ext h.1 h.2
  · intro p _ x hx
    rw [map_map] at hx
    obtain ⟨q, _, rfl⟩ := mem_map.1 hx
    rfl

theorem sx_spec_keys_nodup (L : Int) (t : Nat) (ht : t < 10) : (((spinSpecs L).getD t []).map (·.1)).Nodup := by
  rcases sx_ten ht with rfl | rfl | rfl | rfl | rfl | rfl | rfl | rfl | rfl | rfl
  · exact sx_nodup_spec1 (prodRS 0 (L - 1)) (fun p => pyRange (p.1 + 1) L) _ (prodRS_nodup ..)
  · exact sx_nodup_spec1 (prodRS 0 (L - 1)) (fun p => pyRange (p.1 + 1) L) _ (prodRS_nodup ..)
  · exact sx_nodup_spec2 (prodRS 0 (L / 2)) (fun p => (prodRS p.1 (L / 2)).filter fun jt => pLt p jt)
      (fun p q => pyRange (q.1 + 1) (L / 2 + 1)) _ (prodRS_nodup ..) (fun _ _ => (prodRS_nodup ..).filter _)
  · exact sx_nodup_spec2 (prodRS 0 (L / 2)) (fun p => (prodRS 0 (p.1 + 1)).filter fun jt => pLt jt p)
      (fun p q => pyRange (p.1 + 1) (L / 2 + 1)) _ (prodRS_nodup ..) (fun _ _ => (prodRS_nodup ..).filter _)
  · exact sx_nodup_spec2 (prodRS 0 (L / 2)) (fun p => prodRS 0 (L / 2))
      (fun p q => pyRange (max p.1 q.1 + 1) (L / 2 + 1)) _ (prodRS_nodup ..) (fun _ _ => prodRS_nodup ..)
  · exact sx_nodup_spec1 (prodRS 1 L) (fun p => pyRange 1 (p.1 + 1)) _ (prodRS_nodup ..)
  · exact sx_nodup_spec1 (prodRS 1 L) (fun p => pyRange 1 (p.1 + 1)) _ (prodRS_nodup ..)
  · exact sx_nodup_spec2 (prodRS (L / 2 + 1) L) (fun p => (prodRS p.1 L).filter fun jt => pLt p jt)
      (fun p q => pyRange (L / 2 + 1) (p.1 + 1)) _ (prodRS_nodup ..) (fun _ _ => (prodRS_nodup ..).filter _)
  · exact sx_nodup_spec2 (prodRS (L / 2 + 1) L) (fun p => (prodRS (L / 2 + 1) (p.1 + 1)).filter fun jt => pLt jt p)
      (fun p q => pyRange (L / 2 + 1) (q.1 + 1)) _ (prodRS_nodup ..) (fun _ _ => (prodRS_nodup ..).filter _)
  · exact sx_nodup_spec2 (prodRS (L / 2 + 1) L) (fun p => prodRS (L / 2 + 1) L)
      (fun p q => pyRange (L / 2 + 1) (min p.1 q.1 + 1)) _ (prodRS_nodup ..) (fun _ _ => prodRS_nodup ..)

/-- inner keys pairwise different and inside the index ranges -/
theorem sx_spec_inner (L : Int) (t : Nat) (ht : t < 10) :
    ∀ s ∈ (spinSpecs L).getD t [], s.2.1.Nodup ∧ ∀ k ∈ s.2.1, sLabOk L (t, s.1, k) := by
  intro s hs
  rcases sx_ten ht with rfl | rfl | rfl | rfl | rfl | rfl | rfl | rfl | rfl | rfl <;>
    (simp only [spinSpecs, List.getD_eq_getElem?_getD, List.getElem?_cons_zero, List.getElem?_cons_succ, Option.getD_some,
        mem_map, mem_flatMap, mem_filter, mem_prodRS, pLt_iff] at hs
     first
     | (obtain ⟨⟨i, u⟩, hi, rfl⟩ := hs
        refine ⟨pyRange_nodup .., fun k hk => ?_⟩
        rw [mem_pyRange] at hk
        simp only [sLabOk]
        simp only at hi
        omega)
     | (obtain ⟨⟨i, u⟩, hi, ⟨j, v⟩, hj, rfl⟩ := hs
        refine ⟨pyRange_nodup .., fun k hk => ?_⟩
        rw [mem_pyRange] at hk
        simp only [sLabOk]
        simp only at hi hj
        omega))

/-- every node of a family is the node of a label inside the index ranges -/
theorem sfam_nodes_labelled (L : Int) (t : Nat) (ht : t < 10) (m : Node) (hm : m ∈ ((SpinNodes.init L).fam t).nodes) :
    ∃ a, sLabOk L a ∧ m = (SpinNodes.init L).nodeAt a := by
  have hK := sx_spec_keys_nodup L t ht
  have hI := sx_spec_inner L t ht
  have hfk := sfam_keys L t ht
  obtain ⟨e, he, hme⟩ := mem_flatMap.1 hm
  obtain ⟨p, hp, rfl⟩ := mem_map.1 hme
  have hek : (e.1, e.2.map (·.1)) ∈ specKeys ((spinSpecs L).getD t []) := by
    rw [← hfk]; exact mem_map.2 ⟨e, he, rfl⟩
  obtain ⟨s, hs, hse⟩ := mem_map.1 hek
  have h1 : s.1 = e.1 := congrArg Prod.fst hse
  have h2 : s.2.1 = e.2.map (·.1) := congrArg Prod.snd hse
  obtain ⟨hn, hok⟩ := hI s hs
  have hkeys : (((SpinNodes.init L).fam t).map (·.1)).Nodup := by
    have : ((SpinNodes.init L).fam t).map (·.1) = ((spinSpecs L).getD t []).map (·.1) := by
      have := congrArg (fun l => l.map Prod.fst) hfk
      simpa [famKeys, specKeys, map_map, Function.comp_def] using this
    rw [this]; exact hK
  refine ⟨(t, e.1, p.1), ?_, ?_⟩
  · rw [← h1]
    exact hok p.1 (by rw [h2]; exact mem_map.2 ⟨p, hp, rfl⟩)
  · rw [snodeAt_fam _ t ht]
    exact (fam_lookup_unique _ hkeys e he (h2 ▸ hn) p hp).symm

/-- **every node of `generate_graph`'s node list is the node of a label** -/
theorem snode_labelled (L : Int) (m : Node) (hm : m ∈ (SpinNodes.init L).nodeList) :
    ∃ a, sLabOk L a ∧ m = (SpinNodes.init L).nodeAt a := by
  rcases sx_fam_nodes_sub _ m hm with (hm | hm) | ⟨t, ht, hm⟩
  · obtain ⟨p, hp, rfl⟩ := mem_map.1 hm
    obtain ⟨i, hi, rfl⟩ := mem_map.1 hp
    obtain ⟨h0, h1⟩ := mem_pyRange.1 hi
    exact ⟨(10, [], i), by simp only [sLabOk]; omega, (snodeAt_idL L i h0 h1).symm⟩
  · obtain ⟨p, hp, rfl⟩ := mem_map.1 hm
    obtain ⟨i, hi, rfl⟩ := mem_map.1 hp
    obtain ⟨h0, h1⟩ := mem_pyRange.1 hi
    exact ⟨(11, [], i), by simp only [sLabOk]; omega, (snodeAt_idR L i h0 h1).symm⟩
  · exact sfam_nodes_labelled L t ht m hm

end Ptn.Ham

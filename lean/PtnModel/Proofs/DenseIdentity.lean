import PtnModel.Proofs.DenseRow
/-!
# Dense meaning of `MPO.identity`
-/
namespace Ptn.MPO
open Finset Dense
variable {R : Type} [CommRing R]

/-- the site tensor of `MPO.identity` -/
def idT (d : Nat) (c : R) : T4 R := ⟨d, d, 1, 1, fun s t _ _ => if s = t then c * 1 else c * 0⟩

theorem identity_A (qd : List Int) (L : Nat) (c : R) :
    (identity qd L c).A = List.replicate L (idT qd.length c) := rfl

theorem step_idT (d : Nat) (c : R) (s t : Nat) (v : Nat → R) (b : Nat) :
    step (idT d c) s t v b = v 0 * (if s = t then c else 0) := by
  simp only [step, idT, sum_range_one]
  split <;> simp

theorem identity_row (d : Nat) (c : R) : ∀ (n : Nat) (ss ts : List Nat) (v : Nat → R),
    ss.length = n → ts.length = n →
    elemRow (List.replicate n (idT d c)) ss ts v 0 = v 0 * (if ss = ts then c ^ n else 0)
  | 0, [], [], v, _, _ => by simp [elemRow_nil]
  | n + 1, s :: ss, t :: ts, v, hs, ht => by
      rw [List.replicate_succ, elemRow_cons,
        identity_row d c n ss ts _ (by simpa using hs) (by simpa using ht), step_idT]
      by_cases h1 : s = t
      · by_cases h2 : ss = ts
        · simp [h1, h2, pow_succ]; ring
        · simp [h1, h2]
      · simp [h1]

/-- dense meaning of the identity MPO -/
theorem identity_dense' (qd : List Int) (L : Nat) (c : R) (s t : List Nat) (hs : s.length = L) (ht : t.length = L) :
    (identity qd L c).elem s t = if s = t then c ^ L else 0 := by
  rw [elem_eq, identity_A, identity_row _ c L s t e0 hs ht]
  simp [e0]

end Ptn.MPO

import PtnModel.Proofs.EnvDense
/-!
# Merging two neighbouring tensors preserves the dense meaning; the two-site effective operator
-/
set_option linter.unusedSectionVars false
set_option linter.unusedVariables false
namespace Ptn.Env
open Finset
variable {R : Type} [CommRing R] [StarRing R]
attribute [local instance] starConj

theorem sum_range_mul {β : Type} [AddCommMonoid β] (m n : Nat) (f : Nat → β) :
    ∑ x ∈ range (m * n), f x = ∑ i ∈ range m, ∑ j ∈ range n, f (i * n + j) := by
  induction m with
  | zero => simp
  | succ m ih => rw [Nat.succ_mul, Finset.sum_range_add, ih, Finset.sum_range_succ]

theorem merge_idx {s0 s1 n : Nat} (h : s1 < n) : (s0 * n + s1) / n = s0 ∧ (s0 * n + s1) % n = s1 := by
  constructor
  · rw [Nat.mul_comm, Nat.mul_add_div (by omega), Nat.div_eq_of_lt h]; rfl
  · rw [Nat.mul_comm, Nat.mul_add_mod, Nat.mod_eq_of_lt h]

theorem pmat_merge (A0 A1 : T3 R) (Rs : List (T3 R)) (s0 : Nat) {s1 : Nat} (h1 : s1 < A1.d0) (σr : List Nat)
    (b c : Nat) :
    pmat (MPS.mergePair A0 A1 :: Rs) ((s0 * A1.d0 + s1) :: σr) b c = pmat (A0 :: A1 :: Rs) (s0 :: s1 :: σr) b c := by
  simp only [pmat_cons, MPS.mergePair, sumRange_eq, (merge_idx h1).1, (merge_idx h1).2, Finset.sum_mul,
    Finset.mul_sum]
  rw [Finset.sum_comm]
  refine Finset.sum_congr rfl fun y _ => Finset.sum_congr rfl fun x _ => ?_
  ring

theorem pmatO_merge (W0 W1 : T4 R) (WR : List (T4 R)) (s0 t0 : Nat) {s1 t1 : Nat} (h1 : s1 < W1.d0)
    (h2 : t1 < W1.d1) (σr τr : List Nat) (b c : Nat) :
    pmatO (MPO.mergePair W0 W1 :: WR) ((s0 * W1.d0 + s1) :: σr) ((t0 * W1.d1 + t1) :: τr) b c
      = pmatO (W0 :: W1 :: WR) (s0 :: s1 :: σr) (t0 :: t1 :: τr) b c := by
  simp only [pmatO_cons, MPO.mergePair, sumRange_eq, (merge_idx h1).1, (merge_idx h1).2, (merge_idx h2).1,
    (merge_idx h2).2, Finset.sum_mul, Finset.mul_sum]
  rw [Finset.sum_comm]
  refine Finset.sum_congr rfl fun y _ => Finset.sum_congr rfl fun x _ => ?_
  ring

theorem sum_digits_mid2 {β : Type} [AddCommMonoid β] (dl dr : List Nat) (d0 d1 : Nat) (g : List Nat → β) :
    ∑ σ ∈ digits (dl ++ d0 :: d1 :: dr), g σ
      = ∑ σl ∈ digits dl, ∑ s0 ∈ range d0, ∑ s1 ∈ range d1, ∑ σr ∈ digits dr, g (σl ++ s0 :: s1 :: σr) := by
  rw [sum_digits_append]
  refine Finset.sum_congr rfl fun σl _ => ?_
  rw [sum_digits_cons]
  refine Finset.sum_congr rfl fun s0 _ => ?_
  rw [sum_digits_cons]

theorem sum_digits_merged {β : Type} [AddCommMonoid β] (dl dr : List Nat) (d0 d1 : Nat) (f : List Nat → β) :
    ∑ σ ∈ digits (dl ++ (d0 * d1) :: dr), f σ
      = ∑ σl ∈ digits dl, ∑ s0 ∈ range d0, ∑ s1 ∈ range d1, ∑ σr ∈ digits dr, f (σl ++ (s0 * d1 + s1) :: σr) := by
  rw [sum_digits_append]
  refine Finset.sum_congr rfl fun σl _ => ?_
  rw [sum_digits_cons, sum_range_mul]

theorem two_chain {dl dr : List Nat} {d0 d1 : Nat} {Ls Rs Ls' Rs' : List (T3 R)} {WL WR : List (T4 R)}
    {A2 B2 : T3 R} {W0 W1 : T4 R} {L E : T3 R}
    (cL : Chain3 dl Ls 1 A2.d1) (cR : Chain3 dr Rs A2.d2 1)
    (cL' : Chain3 dl Ls' 1 B2.d1) (cR' : Chain3 dr Rs' B2.d2 1)
    (cWL : Chain4 dl WL 1 W0.d2) (cWR : Chain4 dr WR W1.d3 1)
    (hA0 : A2.d0 = d0 * d1) (hB0 : B2.d0 = d0 * d1)
    (hW00 : W0.d0 = d0) (hW01 : W0.d1 = d0) (hW10 : W1.d0 = d1) (hW11 : W1.d1 = d1) (hW : W0.d3 = W1.d2)
    (hL : IsLeftEnv dl Ls Ls' WL A2.d1 W0.d2 B2.d1 L) (hE : IsRightEnv dr Rs Rs' WR A2.d2 W1.d3 B2.d2 E) :
    ∃ T, Op.applyLocalHamiltonian L E (MPO.mergePair W0 W1) A2 = .ok T ∧ T.d0 = d0 * d1 ∧ T.d1 = B2.d1 ∧
      T.d2 = B2.d2 ∧
      ∑ s' ∈ range (d0 * d1), ∑ a' ∈ range B2.d1, ∑ b' ∈ range B2.d2, star (B2.f s' a' b') * T.f s' a' b'
      = ∑ σl ∈ digits dl, ∑ s0 ∈ range d0, ∑ s1 ∈ range d1, ∑ σr ∈ digits dr,
        ∑ τl ∈ digits dl, ∑ t0 ∈ range d0, ∑ t1 ∈ range d1, ∑ τr ∈ digits dr,
          star (pmat (Ls' ++ B2 :: Rs') (σl ++ (s0 * d1 + s1) :: σr) 0 0)
            * pmatO (WL ++ W0 :: W1 :: WR) (σl ++ s0 :: s1 :: σr) (τl ++ t0 :: t1 :: τr) 0 0
            * pmat (Ls ++ A2 :: Rs) (τl ++ (t0 * d1 + t1) :: τr) 0 0 := by
  have m0 : (MPO.mergePair W0 W1).d0 = d0 * d1 := by simp [MPO.mergePair, hW00, hW10]
  have m1 : (MPO.mergePair W0 W1).d1 = d0 * d1 := by simp [MPO.mergePair, hW01, hW11]
  obtain ⟨T, hT, t0, t1, t2, hsum⟩ := localH_chain (W := MPO.mergePair W0 W1) cL cR cL' cR'
    (show Chain4 dl WL 1 (MPO.mergePair W0 W1).d2 from cWL) (show Chain4 dr WR (MPO.mergePair W0 W1).d3 1 from cWR)
    hA0 hB0 m0 m1 hL hE
  refine ⟨T, hT, t0, t1, t2, ?_⟩
  rw [hsum, sum_digits_merged]
  refine Finset.sum_congr rfl fun σl hσl => Finset.sum_congr rfl fun s0 hs0 =>
    Finset.sum_congr rfl fun s1 hs1 => Finset.sum_congr rfl fun σr hσr => ?_
  rw [sum_digits_merged]
  refine Finset.sum_congr rfl fun τl hτl => Finset.sum_congr rfl fun t0 ht0 =>
    Finset.sum_congr rfl fun t1 ht1 => Finset.sum_congr rfl fun τr hτr => ?_
  congr 2
  rw [pmatO_append cWL _ hσl hτl _ _ Nat.one_pos 0, pmatO_append cWL _ hσl hτl _ _ Nat.one_pos 0]
  refine Finset.sum_congr rfl fun x _ => ?_
  have key := pmatO_merge W0 W1 WR s0 t0 (s1 := s1) (t1 := t1) (by simpa [hW10] using hs1)
    (by simpa [hW11] using ht1) σr τr x 0
  rw [hW10, hW11] at key
  rw [key]

end Ptn.Env

import PtnModel.Proofs.ExplWords
import PtnModel.Proofs.TotalMol
import PtnModel.Props.C05Total
/-!
# Explicit molecular graph, part 11: charges, single sink, length; the MPO of the explicit construction
-/
set_option linter.unusedSectionVars false
set_option linter.unusedSimpArgs false
set_option linter.unusedVariables false

namespace Ptn.Ham
open Ptn.Og List Ptn.Ham2 Ptn.Ch

variable {κ : Type} [CommRing κ] [DecidableEq κ]

/-! ## the chain list of the optimized construction, as a list of terms -/

theorem mapM_map_eq {α β γ : Type} (f : α → Except Err β) (g : β → γ) (h : α → γ) : ∀ (l : List α) (ys : List β),
    l.mapM f = .ok ys → (∀ x ∈ l, ∀ y, f x = .ok y → g y = h x) → ys.map g = l.map h := by
  intro l
  induction l with
  | nil =>
    intro ys hm _
    simp only [mapM_nil, pure_ok_iff] at hm
    subst hm
    rfl
  | cons a l ih =>
    intro ys hm hG
    simp only [mapM_cons, bind_ok_iff, pure_ok_iff] at hm
    obtain ⟨b, hb, bs, hbs, rfl⟩ := hm
    rw [map_cons, map_cons, hG a (mem_cons_self ..) b hb, ih bs hbs (fun x hx y hy => hG x (mem_cons_of_mem _ hx) y hy)]

/-- **the chain list of the bond-optimized construction is, term by term, the formal sum of the explicit graph** -/
theorem optimized_terms_eq (c : Consts κ) (tkin : List (List κ)) (vint : List (List (List (List κ)))) (chains : List (OpChain κ))
    (h : molChains c tkin vint = .ok chains) :
    denChainsRaw chains (tkin.length : Int) 0 = explTerms c tkin vint (tkin.length : Int) := by
  obtain ⟨hop, int, rfl, hhop, hint⟩ := molChains_split c tkin vint chains h
  unfold explTerms denChainsRaw
  rw [map_append]
  congr 1
  · refine mapM_map_eq _ _ _ _ hop hhop ?_
    intro p hp y hy
    obtain ⟨⟨hi0, hi1⟩, ⟨hj0, hj1⟩⟩ := (mem_hopPairs _ p).1 hp
    obtain ⟨i, j⟩ := p
    simp only at hi0 hi1 hj0 hj1 hy ⊢
    obtain ⟨ch, hch, hc, hw⟩ := molHop_spec tkin.length i.toNat j.toNat (by omega) (by omega) (t2 tkin i j)
    have ei : ((i.toNat : Nat) : Int) = i := by omega
    have ej : ((j.toNat : Nat) : Int) = j := by omega
    rw [ei, ej] at hch
    have hii : t2 tkin i i = t2 tkin i j ∨ (i == j) = false := by
      by_cases hij : i = j
      · subst hij; exact Or.inl rfl
      · exact Or.inr (by simpa using hij)
    have : y = ch := by
      rcases hii with hii | hii
      · rw [hii] at hy
        rw [hch] at hy
        cases hy; rfl
      · rw [hii] at hy hch
        simp only [Bool.false_eq_true, if_false] at hy hch
        rw [hch] at hy
        cases hy; rfl
    subst this
    rw [hc, hw, hopWord_fw _ _ _ (by omega) (by omega)]
    simp
  · refine mapM_map_eq _ _ _ _ int hint ?_
    intro q hq y hy
    obtain ⟨a, b, c', d, e, f⟩ := (mem_intTuples _ q).1 hq
    obtain ⟨i, j, k, l⟩ := q
    simp only at a b c' d e f hy ⊢
    obtain ⟨ch, hch, hc, hw⟩ := molInt_spec tkin.length i.toNat j.toNat k.toNat l.toNat (by omega) (by omega) (by omega) (by omega)
      (gint c vint i j k l)
    have ei : ((i.toNat : Nat) : Int) = i := by omega
    have ej : ((j.toNat : Nat) : Int) = j := by omega
    have ek : ((k.toNat : Nat) : Int) = k := by omega
    have el : ((l.toNat : Nat) : Int) = l := by omega
    rw [ei, ej, ek, el] at hch
    rw [hch] at hy
    cases hy
    rw [hc, hw]
    simp

/-! ## node charges -/

theorem mkFam_fold_qnum (spec : List (List Int × List Int × Int)) :
    ∀ acc : Fam × Int, ∀ m ∈ (spec.foldl (fun (acc : Fam × Int) (s : List Int × List Int × Int) =>
        let inner := s.2.1.zipIdx.map fun (k, idx) => (k, (⟨acc.2 + (idx : Int), [], [], s.2.2⟩ : Node))
        (acc.1 ++ [(s.1, inner)], acc.2 + (s.2.1.length : Int))) acc).1.nodes, m ∈ acc.1.nodes ∨ ∃ s ∈ spec, m.qnum = s.2.2 := by
  induction spec with
  | nil => intro acc m hm; exact Or.inl hm
  | cons s rest ih =>
    intro acc m hm
    simp only [List.foldl_cons] at hm
    rcases ih _ m hm with h | ⟨s', hs', h⟩
    · simp only [Fam.nodes, flatMap_append, mem_append, flatMap_cons, flatMap_nil, append_nil, mem_map] at h
      rcases h with h | ⟨p, ⟨q, _, rfl⟩, rfl⟩
      · exact Or.inl h
      · exact Or.inr ⟨s, mem_cons_self .., rfl⟩
    · exact Or.inr ⟨s', mem_cons_of_mem _ hs', h⟩

theorem mkFams_qnum (specs : List (List (List Int × List Int × Int))) (n0 : Int) (idx : Nat) (q : Int)
    (hq : ∀ s ∈ specs.getD idx [], s.2.2 = q) : ∀ m ∈ ((mkFams specs n0).1.getD idx []).nodes, m.qnum = q := by
  obtain ⟨n, hn⟩ := mkFams_getD specs n0 idx
  rw [hn]
  intro m hm
  rcases mkFam_fold_qnum (specs.getD idx []) ([], n) m hm with h | ⟨s, hs, h⟩
  · simp [Fam.nodes] at h
  · rw [h, hq s hs]

theorem molSpecs_q (L : Int) (idx : Nat) (hidx : idx < 10) : ∀ s ∈ (molSpecs L).getD idx [], s.2.2 = tagQ idx := by
  intro s hs
  have hc : idx = 0 ∨ idx = 1 ∨ idx = 2 ∨ idx = 3 ∨ idx = 4 ∨ idx = 5 ∨ idx = 6 ∨ idx = 7 ∨ idx = 8 ∨ idx = 9 := by omega
  rcases hc with rfl | rfl | rfl | rfl | rfl | rfl | rfl | rfl | rfl | rfl <;>
    (simp only [molSpecs, List.getD_eq_getElem?_getD, List.getElem?_cons_zero, List.getElem?_cons_succ, Option.getD_some,
        mem_map, mem_flatMap] at hs
     first
     | (obtain ⟨_, _, rfl⟩ := hs; rfl)
     | (obtain ⟨_, _, _, _, rfl⟩ := hs; rfl))

theorem fam_qnum (L : Int) (t : Nat) (ht : t < 10) : ∀ m ∈ ((MolNodes.init L).fam t).nodes, m.qnum = tagQ t := by
  intro m hm
  have hc : t = 0 ∨ t = 1 ∨ t = 2 ∨ t = 3 ∨ t = 4 ∨ t = 5 ∨ t = 6 ∨ t = 7 ∨ t = 8 ∨ t = 9 := by omega
  rcases hc with rfl | rfl | rfl | rfl | rfl | rfl | rfl | rfl | rfl | rfl
  · exact mkFams_qnum (molSpecs L) _ 0 _ (molSpecs_q L 0 (by omega)) m hm
  · exact mkFams_qnum (molSpecs L) _ 1 _ (molSpecs_q L 1 (by omega)) m hm
  · exact mkFams_qnum (molSpecs L) _ 2 _ (molSpecs_q L 2 (by omega)) m hm
  · exact mkFams_qnum (molSpecs L) _ 3 _ (molSpecs_q L 3 (by omega)) m hm
  · exact mkFams_qnum (molSpecs L) _ 4 _ (molSpecs_q L 4 (by omega)) m hm
  · exact mkFams_qnum (molSpecs L) _ 5 _ (molSpecs_q L 5 (by omega)) m hm
  · exact mkFams_qnum (molSpecs L) _ 6 _ (molSpecs_q L 6 (by omega)) m hm
  · exact mkFams_qnum (molSpecs L) _ 7 _ (molSpecs_q L 7 (by omega)) m hm
  · exact mkFams_qnum (molSpecs L) _ 8 _ (molSpecs_q L 8 (by omega)) m hm
  · exact mkFams_qnum (molSpecs L) _ 9 _ (molSpecs_q L 9 (by omega)) m hm


theorem fam_node_mem (f : Fam) (key ks : List Int) (k : Int) (h : (famKeys f).lookup key = some ks) (hk : k ∈ ks) :
    nodeOf (innerOf f key) k ∈ f.nodes := by
  have := famTabN_mem 0 f key ks k h hk
  rw [← famTabN_nodes 0 f]
  exact mem_map.2 ⟨_, this, rfl⟩

/-- the node of a label carries the charge of its family -/
theorem nodeAt_qnum (L : Int) (lab : Lab) (h : labOk L lab) : ((MolNodes.init L).nodeAt lab).qnum = tagQ lab.1 := by
  unfold labOk at h
  split at h
  · obtain ⟨a, b, c, d⟩ := h
    exact fam_qnum L 0 (by omega) _ (fam_node_mem _ _ _ _ (aDagL_keys L _ a b) (mem_pyRange.2 ⟨c, d⟩))
  · obtain ⟨a, b, c, d⟩ := h
    exact fam_qnum L 1 (by omega) _ (fam_node_mem _ _ _ _ (aAnnL_keys L _ a b) (mem_pyRange.2 ⟨c, d⟩))
  · obtain ⟨a, b, c, d, e, f⟩ := h
    exact fam_qnum L 2 (by omega) _ (fam_node_mem _ _ _ _ (aDagADagL_keys L _ _ a b c d) (mem_pyRange.2 ⟨e, f⟩))
  · obtain ⟨a, b, c, d, e, f⟩ := h
    exact fam_qnum L 3 (by omega) _ (fam_node_mem _ _ _ _ (aAnnAAnnL_keys L _ _ a b c d) (mem_pyRange.2 ⟨e, f⟩))
  · obtain ⟨a, b, c, d, e, f⟩ := h
    exact fam_qnum L 4 (by omega) _ (fam_node_mem _ _ _ _ (aDagAAnnL_keys L _ _ a b c d) (mem_pyRange.2 ⟨e, f⟩))
  · obtain ⟨a, b, c, d⟩ := h
    exact fam_qnum L 5 (by omega) _ (fam_node_mem _ _ _ _ (aDagR_keys L _ a b) (mem_pyRange.2 ⟨c, d⟩))
  · obtain ⟨a, b, c, d⟩ := h
    exact fam_qnum L 6 (by omega) _ (fam_node_mem _ _ _ _ (aAnnR_keys L _ a b) (mem_pyRange.2 ⟨c, d⟩))
  · obtain ⟨a, b, c, d, e, f⟩ := h
    exact fam_qnum L 7 (by omega) _ (fam_node_mem _ _ _ _ (aDagADagR_keys L _ _ a b c d) (mem_pyRange.2 ⟨e, f⟩))
  · obtain ⟨a, b, c, d, e, f⟩ := h
    exact fam_qnum L 8 (by omega) _ (fam_node_mem _ _ _ _ (aAnnAAnnR_keys L _ _ a b c d) (mem_pyRange.2 ⟨e, f⟩))
  · obtain ⟨a, b, c, d, e, f⟩ := h
    exact fam_qnum L 9 (by omega) _ (fam_node_mem _ _ _ _ (aDagAAnnR_keys L _ _ a b c d) (mem_pyRange.2 ⟨e, f⟩))
  · obtain ⟨a, b⟩ := h
    rename_i k
    have h1 := look_ok L (10, [], k) (by simp only [labOk]; omega)
    have h' : (MolNodes.init L).look (10, [], k) = dGet (MolNodes.init L).identityL k := rfl
    rw [h', identityL_dGet L k a b] at h1
    rw [← Except.ok.inj h1]
    rfl
  · obtain ⟨a, b⟩ := h
    rename_i k
    have h1 := look_ok L (11, [], k) (by simp only [labOk]; omega)
    have h' : (MolNodes.init L).look (11, [], k) = dGet (MolNodes.init L).identityR k := rfl
    rw [h', identityR_dGet L k a b] at h1
    rw [← Except.ok.inj h1]
    rfl
  · exact h.elim

/-- the charge of a labelled node in the initial graph -/
theorem qOf_explG0 (L : Int) (a : Lab) (ha : labOk L a) : qOf (explG0 (κ := κ) L) ((MolNodes.init L).nidOf a) = tagQ a.1 := by
  unfold qOf
  have hm : ((MolNodes.init L).nidOf a, (MolNodes.init L).nodeAt a) ∈ (explG0 (κ := κ) L).nodes :=
    mem_map.2 ⟨_, nodeAt_mem L a ha, rfl⟩
  have hk : (dKeys (explG0 (κ := κ) L).nodes).Nodup := by rw [explG0_keys]; exact molNodes_ids_nodup L
  rw [dGet?_eq_some_of_mem hk hm]
  simp only [Option.map_some, Option.getD_some]
  exact nodeAt_qnum L a ha

theorem letOf_isMolOid (a : Lab) (p : Int) : isMolOid (letOf a p) := by
  unfold letOf
  split <;> (try split_ifs) <;> simp [isMolOid, mA, mI, mC, mN, mZ]

theorem hopF_isMolOid (i j x : Nat) : isMolOid (hopF i j x) := by
  unfold hopF
  split_ifs <;> simp [isMolOid, mA, mI, mC, mN, mZ]

theorem intF_isMolOid (i j k l x : Nat) : isMolOid (intF i j k l x) := by
  unfold intF w1F w2F
  split_ifs <;> simp [isMolOid, sgnMul, mA, mI, mC, mN, mZ]


section
variable (c : Consts κ) (tkin : List (List κ)) (vint : List (List (List (List κ)))) (L : Int)

/-- every edge carries a table of the operator map, and its operator shifts the node charge by its own charge -/
theorem spec_charge (hL : 4 ≤ L) (x : LSpec κ) (hx : x ∈ wireSpecs (κ := κ) L ++ (hopSpecs L tkin ++ intSpecs c L vint)) :
    isMolOid x.2.2.1 ∧ tagQ x.2.1.1 = tagQ x.1.1 + ch x.2.2.1 := by
  simp only [mem_append] at hx
  rcases hx with h | h | h
  · obtain ⟨h1, _⟩ := wireSpecs_mem L x h
    rcases wire_cls L _ h1 with h3 | h3
    · refine ⟨?_, h3.chg⟩
      have := h3.last
      simp only [LSpec.tri] at this
      rw [← this]
      exact letOf_isMolOid _ _
    · refine ⟨?_, h3.chg⟩
      have := h3.first
      simp only [LSpec.tri] at this
      rw [← this]
      exact letOf_isMolOid _ _
  · obtain ⟨p, hp, rfl⟩ := mem_map.1 h
    obtain ⟨⟨a, b⟩, ⟨c', d⟩⟩ := (mem_hopPairs L p).1 hp
    have ht := hop_tspec L hL p.1 p.2 a b c' d
    refine ⟨?_, ht.chg⟩
    have := ht.mid
    simp only at this ⊢
    rw [this]
    exact hopF_isMolOid _ _ _
  · obtain ⟨q, hq, rfl⟩ := mem_map.1 h
    obtain ⟨a, b, c', d, e, f⟩ := (mem_intTuples L q).1 hq
    have ht := int_tspec L hL q.1 q.2.1 q.2.2.1 q.2.2.2 a b c' d e f
    refine ⟨?_, ht.chg⟩
    have := ht.mid
    simp only at this ⊢
    rw [this]
    exact intF_isMolOid _ _ _ _ _

theorem qOf_explGraph (hL : 4 ≤ L) (a : Lab) (ha : labOk L a) :
    qOf (explGraph c tkin vint L) ((MolNodes.init L).nidOf a) = tagQ a.1 := by
  rw [← qOf_explG0 (κ := κ) L a ha]
  unfold qOf
  rw [(explGraph_facts c tkin vint L hL).2.2.2.2.2]

/-- **the operators of the explicit graph are charge consistent** under `qd = [0, 1]` and the node charges -/
theorem explGraph_charged (hL : 4 ≤ L) : OpsCharged [0, 1] (explGraph c tkin vint L) (molOpmap : OpMap κ) := by
  intro p hp oc hoc
  have he : p.2 ∈ (explGraph c tkin vint L).edgeList := mem_map.2 ⟨p, hp, rfl⟩
  rw [(explGraph_facts c tkin vint L hL).2.2.1] at he
  obtain ⟨x, hx, eid, hpe⟩ := explEdges_specs c tkin vint L p.2 he
  have ok := (allSpecs_cls c tkin vint L hL x hx).ok
  obtain ⟨hmol, hchg⟩ := spec_charge c tkin vint L hL x hx
  rw [hpe] at hoc ⊢
  have hoc' : oc = (x.2.2.1, x.2.2.2) := by
    have : oc ∈ [((x.2.2.1, x.2.2.2) : Int × κ)] := hoc
    simpa using this
  subst hoc'
  show TableCharged [0, 1] (qOf (explGraph c tkin vint L) ((MolNodes.init L).nidOf x.1) -
    qOf (explGraph c tkin vint L) ((MolNodes.init L).nidOf x.2.1)) ((molOpmap : OpMap κ).lookup x.2.2.1)
  rw [qOf_explGraph c tkin vint L hL _ ok.ok1, qOf_explGraph c tkin vint L hL _ ok.ok2, hchg]
  exact mol_table_charged x.2.2.1 hmol _

end

/-! ## every node carries a label -/

theorem lookup_of_mem_gen {α β : Type} [BEq α] [LawfulBEq α] : ∀ (l : List (α × β)), (l.map (·.1)).Nodup → ∀ (k : α) (v : β),
    (k, v) ∈ l → l.lookup k = some v := by
  intro l
  induction l with
  | nil => intro _ k v h; simp at h
  | cons p l ih =>
    intro hn k v h
    obtain ⟨k0, v0⟩ := p
    simp only [List.map_cons, List.nodup_cons] at hn
    rcases List.mem_cons.1 h with h' | h'
    · simp only [Prod.mk.injEq] at h'
      obtain ⟨rfl, rfl⟩ := h'
      simp [List.lookup]
    · have hne : (k == k0) = false := by
        have : k ≠ k0 := by
          intro e
          apply hn.1
          rw [← e]
          exact List.mem_map.2 ⟨(k, v), h', rfl⟩
        simpa using this
      simp only [List.lookup, hne]
      exact ih hn.2 k v h'

theorem fam_lookup_unique (f : Fam) (hk : (f.map (·.1)).Nodup) (e : List Int × List (Int × Node)) (he : e ∈ f)
    (hin : (e.2.map (·.1)).Nodup) (p : Int × Node) (hp : p ∈ e.2) : nodeOf (innerOf f e.1) p.1 = p.2 := by
  unfold innerOf nodeOf
  rw [lookup_of_mem_gen f hk e.1 e.2 he]
  simp only [Option.getD_some]
  rw [lookup_of_mem_gen e.2 hin p.1 p.2 hp]
  rfl

theorem fam_keys (L : Int) (t : Nat) (ht : t < 10) : famKeys ((MolNodes.init L).fam t) = specKeys ((molSpecs L).getD t []) := by
  have hc : t = 0 ∨ t = 1 ∨ t = 2 ∨ t = 3 ∨ t = 4 ∨ t = 5 ∨ t = 6 ∨ t = 7 ∨ t = 8 ∨ t = 9 := by omega
  rcases hc with rfl | rfl | rfl | rfl | rfl | rfl | rfl | rfl | rfl | rfl
  · exact mkFams_keys (molSpecs L) (idCount L) 0
  · exact mkFams_keys (molSpecs L) (idCount L) 1
  · exact mkFams_keys (molSpecs L) (idCount L) 2
  · exact mkFams_keys (molSpecs L) (idCount L) 3
  · exact mkFams_keys (molSpecs L) (idCount L) 4
  · exact mkFams_keys (molSpecs L) (idCount L) 5
  · exact mkFams_keys (molSpecs L) (idCount L) 6
  · exact mkFams_keys (molSpecs L) (idCount L) 7
  · exact mkFams_keys (molSpecs L) (idCount L) 8
  · exact mkFams_keys (molSpecs L) (idCount L) 9

/-- the specification of family `t`: outer keys pairwise different, inner keys pairwise different and inside the index ranges -/
structure SpecGood (L : Int) (t : Nat) : Prop where
  keys : (((molSpecs L).getD t []).map (·.1)).Nodup
  inner : ∀ s ∈ (molSpecs L).getD t [], s.2.1.Nodup ∧ ∀ k ∈ s.2.1, labOk L (t, s.1, k)

theorem nodup_keys1 (I : List Int) (hI : I.Nodup) : (I.map fun i => [i]).Nodup :=
  hI.map (fun a b h => by injection h)

theorem nodup_keys2 (I : List Int) (J : Int → List Int) (hI : I.Nodup) (hJ : ∀ i ∈ I, (J i).Nodup) :
    (I.flatMap fun i => (J i).map fun j => [i, j]).Nodup :=
  nodup_flatMap_proj (fun x => x.headD 0) I _ hI
    (fun i hi => (hJ i hi).map (fun a b h => by injection h with _ h2; injection h2))
    (fun i _ x hx => by obtain ⟨j, _, rfl⟩ := mem_map.1 hx; rfl)

theorem specGood (L : Int) (t : Nat) (ht : t < 10) : SpecGood L t := by
  have hc : t = 0 ∨ t = 1 ∨ t = 2 ∨ t = 3 ∨ t = 4 ∨ t = 5 ∨ t = 6 ∨ t = 7 ∨ t = 8 ∨ t = 9 := by omega
  rcases hc with rfl | rfl | rfl | rfl | rfl | rfl | rfl | rfl | rfl | rfl
  all_goals
    constructor
    · simp only [molSpecs, List.getD_eq_getElem?_getD, List.getElem?_cons_zero, List.getElem?_cons_succ, Option.getD_some,
        map_map, map_flatMap, Function.comp_def]
      first
      | exact nodup_keys1 _ (pyRange_nodup ..)
      | exact nodup_keys2 _ _ (pyRange_nodup ..) (fun _ _ => pyRange_nodup ..)
    · intro s hs
      simp only [molSpecs, List.getD_eq_getElem?_getD, List.getElem?_cons_zero, List.getElem?_cons_succ, Option.getD_some,
        mem_map, mem_flatMap, mem_pyRange] at hs
      first
      | (obtain ⟨i, hi, rfl⟩ := hs
         refine ⟨pyRange_nodup .., fun k hk => ?_⟩
         rw [mem_pyRange] at hk
         simp only [labOk]
         omega)
      | (obtain ⟨i, hi, j, hj, rfl⟩ := hs
         refine ⟨pyRange_nodup .., fun k hk => ?_⟩
         rw [mem_pyRange] at hk
         simp only [labOk]
         omega)


theorem nodeAt_fam (n : MolNodes) (t : Nat) (ht : t < 10) (key : List Int) (k : Int) :
    n.nodeAt (t, key, k) = nodeOf (innerOf (n.fam t) key) k := by
  have hc : t = 0 ∨ t = 1 ∨ t = 2 ∨ t = 3 ∨ t = 4 ∨ t = 5 ∨ t = 6 ∨ t = 7 ∨ t = 8 ∨ t = 9 := by omega
  rcases hc with rfl | rfl | rfl | rfl | rfl | rfl | rfl | rfl | rfl | rfl <;> rfl

/-- every node of a family is the node of a label inside the index ranges -/
theorem fam_nodes_labelled (L : Int) (t : Nat) (ht : t < 10) (m : Node) (hm : m ∈ ((MolNodes.init L).fam t).nodes) :
    ∃ a, labOk L a ∧ (MolNodes.init L).nodeAt a = m := by
  obtain ⟨hK, hI⟩ := specGood L t ht
  have hfk := fam_keys L t ht
  obtain ⟨e, he, hme⟩ := mem_flatMap.1 hm
  obtain ⟨p, hp, rfl⟩ := mem_map.1 hme
  have hek : (e.1, e.2.map (·.1)) ∈ specKeys ((molSpecs L).getD t []) := by
    rw [← hfk]; exact mem_map.2 ⟨e, he, rfl⟩
  obtain ⟨s, hs, hse⟩ := mem_map.1 hek
  have h1 : s.1 = e.1 := congrArg Prod.fst hse
  have h2 : s.2.1 = e.2.map (·.1) := congrArg Prod.snd hse
  obtain ⟨hn, hok⟩ := hI s hs
  have hkeys : (((MolNodes.init L).fam t).map (·.1)).Nodup := by
    have : ((MolNodes.init L).fam t).map (·.1) = ((molSpecs L).getD t []).map (·.1) := by
      have := congrArg (fun l => l.map Prod.fst) hfk
      simpa [famKeys, specKeys, map_map, Function.comp_def] using this
    rw [this]; exact hK
  refine ⟨(t, e.1, p.1), ?_, ?_⟩
  · rw [← h1]
    exact hok p.1 (by rw [h2]; exact mem_map.2 ⟨p, hp, rfl⟩)
  · rw [nodeAt_fam _ t ht]
    exact fam_lookup_unique _ hkeys e he (h2 ▸ hn) p hp

/-- **every node of `generate_graph`'s node list is the node of a label** -/
theorem node_labelled (L : Int) (m : Node) (hm : m ∈ (MolNodes.init L).nodeList) :
    ∃ a, labOk L a ∧ (MolNodes.init L).nodeAt a = m := by
  simp only [MolNodes.nodeList, mem_append] at hm
  rcases hm with ((((((((((hm | hm) | hm) | hm) | hm) | hm) | hm) | hm) | hm) | hm) | hm) | hm
  · obtain ⟨p, hp, rfl⟩ := mem_map.1 hm
    obtain ⟨i, hi, rfl⟩ := mem_map.1 hp
    obtain ⟨h0, h1⟩ := mem_pyRange.1 hi
    refine ⟨(10, [], i), by simp only [labOk]; omega, ?_⟩
    have h := look_ok L (10, [], i) (by simp only [labOk]; omega)
    have h' : (MolNodes.init L).look (10, [], i) = dGet (MolNodes.init L).identityL i := rfl
    rw [h', identityL_dGet L i h0 h1] at h
    exact (Except.ok.inj h).symm
  · obtain ⟨p, hp, rfl⟩ := mem_map.1 hm
    obtain ⟨i, hi, rfl⟩ := mem_map.1 hp
    obtain ⟨h0, h1⟩ := mem_pyRange.1 hi
    refine ⟨(11, [], i), by simp only [labOk]; omega, ?_⟩
    have h := look_ok L (11, [], i) (by simp only [labOk]; omega)
    have h' : (MolNodes.init L).look (11, [], i) = dGet (MolNodes.init L).identityR i := rfl
    rw [h', identityR_dGet L i h0 h1] at h
    exact (Except.ok.inj h).symm
  · exact fam_nodes_labelled L 0 (by omega) m hm
  · exact fam_nodes_labelled L 1 (by omega) m hm
  · exact fam_nodes_labelled L 5 (by omega) m hm
  · exact fam_nodes_labelled L 6 (by omega) m hm
  · exact fam_nodes_labelled L 2 (by omega) m hm
  · exact fam_nodes_labelled L 3 (by omega) m hm
  · exact fam_nodes_labelled L 4 (by omega) m hm
  · exact fam_nodes_labelled L 7 (by omega) m hm
  · exact fam_nodes_labelled L 8 (by omega) m hm
  · exact fam_nodes_labelled L 9 (by omega) m hm


/-! ## every left node is the source of a term edge -/

set_option linter.unusedTactic false
set_option linter.unreachableTactic false

theorem src_idL (L k : Int) (h0 : 0 ≤ k) (h1 : k < L) : (hopLab L k k).1 = (10, [], k) := by
  lab_eval2

theorem src_aDagL (L i k : Int) (hL : 4 ≤ L) (h0 : 0 ≤ i) (h1 : i + 1 ≤ k) (h2 : k < L - 1) :
    (intLab L i k k (k + 1)).1 = (0, [i], k) := by
  int_sort
  lab_eval2

theorem src_aAnnL (L i k : Int) (hL : 4 ≤ L) (h0 : 0 ≤ i) (h1 : i + 1 ≤ k) (h2 : k < L - 1) :
    (intLab L k (k + 1) i k).1 = (1, [i], k) := by
  int_sort
  lab_eval2

theorem src_aDagADagL (L i j k : Int) (hL : 4 ≤ L) (h0 : 0 ≤ i) (h1 : i + 1 ≤ j) (h2 : j + 1 ≤ k) (h3 : k < L / 2 + 1) :
    (intLab L i j k (k + 1)).1 = (2, [i, j], k) := by
  int_sort
  lab_eval2

theorem src_aAnnAAnnL (L i j k : Int) (hL : 4 ≤ L) (h0 : 0 ≤ j) (h1 : j < i) (h2 : i + 1 ≤ k) (h3 : k < L / 2 + 1) :
    (intLab L k (k + 1) j i).1 = (3, [i, j], k) := by
  int_sort
  lab_eval2

theorem src_aDagAAnnL (L i j k : Int) (hL : 4 ≤ L) (h0 : 0 ≤ i) (h1 : 0 ≤ j) (h2 : max i j + 1 ≤ k) (h3 : k < L / 2 + 1) :
    (intLab L i k j (k + 1)).1 = (4, [i, j], k) := by
  rcases Int.lt_trichotomy i j with h | h | h
  · int_sort
    lab_eval2
  · subst h
    int_sort
    lab_eval2
  · int_sort
    lab_eval2


section
variable (c : Consts κ) (tkin : List (List κ)) (vint : List (List (List (List κ)))) (L : Int)

theorem hop_spec_edge (hL : 4 ≤ L) (p : Int × Int) (hp : p ∈ hopPairs L) :
    ∃ e ∈ explEdges c tkin vint L, e.nids.1 = (MolNodes.init L).nidOf (hopLab L p.1 p.2).1 := by
  have hmem : (((hopLab L p.1 p.2).1, (hopLab L p.1 p.2).2.1, (hopLab L p.1 p.2).2.2, t2 tkin p.1 p.2) : LSpec κ) ∈
      wireSpecs (κ := κ) L ++ (hopSpecs L tkin ++ intSpecs c L vint) :=
    mem_append_right _ (mem_append_left _ (mem_map.2 ⟨p, hp, rfl⟩))
  obtain ⟨eid, he⟩ := specs_explEdges c tkin vint L _ hmem
  exact ⟨_, he, rfl⟩

theorem int_spec_edge (hL : 4 ≤ L) (q : Int × Int × Int × Int) (hq : q ∈ intTuples L) :
    ∃ e ∈ explEdges c tkin vint L, e.nids.1 = (MolNodes.init L).nidOf (intLab L q.1 q.2.1 q.2.2.1 q.2.2.2).1 := by
  have hmem : (((intLab L q.1 q.2.1 q.2.2.1 q.2.2.2).1, (intLab L q.1 q.2.1 q.2.2.1 q.2.2.2).2.1,
      (intLab L q.1 q.2.1 q.2.2.1 q.2.2.2).2.2, gint c vint q.1 q.2.1 q.2.2.1 q.2.2.2) : LSpec κ) ∈
      wireSpecs (κ := κ) L ++ (hopSpecs L tkin ++ intSpecs c L vint) :=
    mem_append_right _ (mem_append_right _ (mem_map.2 ⟨q, hq, rfl⟩))
  obtain ⟨eid, he⟩ := specs_explEdges c tkin vint L _ hmem
  exact ⟨_, he, rfl⟩

/-- **every node other than the sink has an outgoing edge** -/
theorem explGraph_hasOut (hL : 4 ≤ L) (a : Lab) (ha : labOk L a) (hne : a ≠ (11, [], L)) :
    ∃ e ∈ explEdges c tkin vint L, e.nids.1 = (MolNodes.init L).nidOf a := by
  by_cases hl : isLeft a = true
  · unfold labOk at ha
    split at ha
    · obtain ⟨h0, h1, h2, h3⟩ := ha
      rename_i i k
      have := int_spec_edge c tkin vint L hL (i, k, k, k + 1) ((mem_intTuples L _).2 ⟨by simpa using h0, by simp only; omega,
        by simp only; omega, by simp only; omega, by simp only; omega, by simp only; omega⟩)
      simp only at this
      rwa [src_aDagL L i k hL h0 h2 h3] at this
    · obtain ⟨h0, h1, h2, h3⟩ := ha
      rename_i i k
      have := int_spec_edge c tkin vint L hL (k, k + 1, i, k) ((mem_intTuples L _).2 ⟨by simp only; omega, by simp only; omega,
        by simp only; omega, by simp only; omega, by simp only; omega, by simp only; omega⟩)
      simp only at this
      rwa [src_aAnnL L i k hL h0 h2 h3] at this
    · obtain ⟨h0, h1, h2, h3, h4, h5⟩ := ha
      rename_i i j k
      have := int_spec_edge c tkin vint L hL (i, j, k, k + 1) ((mem_intTuples L _).2 ⟨by simp only; omega, by simp only; omega,
        by simp only; omega, by simp only; omega, by simp only; omega, by simp only; omega⟩)
      simp only at this
      rwa [src_aDagADagL L i j k hL h0 h2 h4 h5] at this
    · obtain ⟨h0, h1, h2, h3, h4, h5⟩ := ha
      rename_i i j k
      have := int_spec_edge c tkin vint L hL (k, k + 1, j, i) ((mem_intTuples L _).2 ⟨by simp only; omega, by simp only; omega,
        by simp only; omega, by simp only; omega, by simp only; omega, by simp only; omega⟩)
      simp only at this
      rwa [src_aAnnAAnnL L i j k hL h2 h3 h4 h5] at this
    · obtain ⟨h0, h1, h2, h3, h4, h5⟩ := ha
      rename_i i j k
      have := int_spec_edge c tkin vint L hL (i, k, j, k + 1) ((mem_intTuples L _).2 ⟨by simp only; omega, by simp only; omega,
        by simp only; omega, by simp only; omega, by simp only; omega, by simp only; omega⟩)
      simp only at this
      rwa [src_aDagAAnnL L i j k hL h0 h2 h4 h5] at this
    · cases hl
    · cases hl
    · cases hl
    · cases hl
    · cases hl
    · obtain ⟨h0, h1⟩ := ha
      rename_i k
      have := hop_spec_edge c tkin vint L hL (k, k) ((mem_hopPairs L _).2 ⟨⟨h0, h1⟩, ⟨h0, h1⟩⟩)
      simp only at this
      rwa [src_idL L k h0 h1] at this
    · cases hl
    · exact ha.elim
  · have hr : isLeft a = false := by simpa using hl
    have hm := right_complete L a ha hr hne
    rw [← wire_rightSrcs] at hm
    obtain ⟨z, hz, hz1⟩ := mem_map.1 hm
    have hz' := (mem_filter.1 hz).1
    have hmem : ((z.1, z.2.1, z.2.2, (1 : κ)) : LSpec κ) ∈ wireSpecs (κ := κ) L ++ (hopSpecs L tkin ++ intSpecs c L vint) := by
      apply mem_append_left
      rw [wireSpecs_eq]
      exact mem_map.2 ⟨z, hz', rfl⟩
    obtain ⟨eid', he'⟩ := specs_explEdges c tkin vint L _ hmem
    refine ⟨_, he', ?_⟩
    show (MolNodes.init L).nidOf z.1 = (MolNodes.init L).nidOf a
    rw [hz1]

theorem explGraph_allOut (hL : 4 ≤ L) : AllOut (explGraph c tkin vint L) := by
  obtain ⟨_, _, hE, hK, hT, _⟩ := explGraph_facts c tkin vint L hL
  intro x hx hxt
  rw [hK, explG0_keys] at hx
  obtain ⟨m, hm, rfl⟩ := mem_map.1 hx
  obtain ⟨a, ha, rfl⟩ := node_labelled L m hm
  have hne : a ≠ (11, [], L) := by
    intro hc
    apply hxt
    simp only [Graph.term, hT, if_true]
    rw [hc]
    exact sink_nid L hL
  obtain ⟨e, he, hsrc⟩ := explGraph_hasOut c tkin vint L hL a ha hne
  exact ⟨e, hE ▸ he, hsrc⟩

theorem explGraph_singleSink (hL : 4 ≤ L) : SingleSink (explGraph c tkin vint L) := by
  have nd := noDeadEnd_of_allOut (explGraph_facts c tkin vint L hL).2.1 (explGraph_allOut c tkin vint L hL)
  intro p hp hout
  by_contra hc
  exact nd p.1 p.2 hp hc hout

theorem labOf_source (hL : 4 ≤ L) : (MolNodes.init L).labOf 0 = (10, [], 0) := by
  have := labOf_nidOf L (10, [], 0) (by simp only [labOk]; omega)
  rwa [source_nid L hL] at this

theorem labOf_sink (hL : 4 ≤ L) : (MolNodes.init L).labOf (L + L - 1) = (11, [], L) := by
  have := labOf_nidOf L (11, [], L) (by simp only [labOk]; omega)
  rwa [sink_nid L hL] at this

theorem explGraph_length (hL : 4 ≤ L) : (explGraph c tkin vint L).length = .ok L.toNat := by
  obtain ⟨_, sv, _, _, hT, _⟩ := explGraph_facts c tkin vint L hL
  have ht1 : (explGraph c tkin vint L).term true = L + L - 1 := by simp [Graph.term, hT]
  have ht0 : (explGraph c tkin vint L).term false = 0 := by simp [Graph.term, hT]
  have h0 : explLevel L ((explGraph c tkin vint L).term false) = 0 := by
    rw [ht0]
    unfold explLevel
    rw [labOf_source L hL]
  have h1 : explLevel L ((explGraph c tkin vint L).term true) = L := by
    rw [ht1]
    unfold explLevel
    rw [labOf_sink L hL]
  have h := length_of_lev sv (explGraph_lev c tkin vint L hL)
    (noDeadEnd_of_allOut sv (explGraph_allOut c tkin vint L hL)) h0
  rw [h, h1]

end

/-- **`molecular_hamiltonian_mpo(tkin, vint, optimize=False)` returns for every `L ≥ 4` and all well-shaped coefficient tensors**, and the
dense matrix of its MPO is `Σ_{terms} coeff · ⊗_k opmap[word_k]` over the formal sum `explTerms` -/
theorem molBuildExplicit_ok (c : Consts κ) (tkin : List (List κ)) (vint : List (List (List (List κ))))
    (hL : 4 ≤ (tkin.length : Int)) (hsh : shapesOk tkin vint = true) :
    ∃ out, molBuildExplicit c tkin vint =
        .ok (MolNodes.init tkin.length, ⟨[0, 1], molOpmap, explGraph c tkin vint tkin.length, out⟩) ∧
      fromOpgraph [0, 1] (explGraph c tkin vint tkin.length) (molOpmap : OpMap κ) true = .ok out ∧
      MPO.DenseIs (out.toMPO [0, 1]) 2 tkin.length (termsEntry molOpmap (explTerms c tkin vint tkin.length)) := by
  have hval := explGraph_valid c tkin vint (tkin.length : Int) hL
  have hcons := hval.isConsistent
  obtain ⟨out, hout⟩ := fromOpgraph_total [0, 1] (explGraph c tkin vint (tkin.length : Int)) (molOpmap : OpMap κ) true hcons
    (by decide) (explGraph_charged c tkin vint _ hL)
  refine ⟨out, ?_, hout, ?_⟩
  · unfold molBuildExplicit
    rw [hsh]
    simp only [pyAssert_true_bind]
    rw [molExplicitGraph_ok c tkin vint hL]
    simp only [ok_bind]
    rw [hcons]
    split
    · simp only [pyAssert_true_bind]
      rw [hout]
      rfl
    · rw [hout]
      rfl
  · have hlen := explGraph_length c tkin vint (tkin.length : Int) hL
    have e : (tkin.length : Int).toNat = tkin.length := by omega
    rw [e] at hlen
    exact fromOpgraph_denseIs [0, 1] _ molOpmap true out hout hcons (explGraph_singleSink c tkin vint _ hL) tkin.length hlen
      (by omega) molOpmap_wf (explTerms c tkin vint tkin.length)
      (fun w _ => explGraph_den c tkin vint _ hL w)

end Ptn.Ham

import PtnModel.Proofs.EnvDense
/-!
# Small lemmas on bond profiles (for `Props/C04Blocks.lean`)
-/
namespace Ptn.Env

theorem bond3_length_of_chain {α : Type} : ∀ {ds : List Nat} {As : List (T3 α)} {Dl Dr : Nat},
    Chain3 ds As Dl Dr → bond3 As Dl As.length = Dr
  | [], [], _, _, h => by simpa using h
  | _ :: _, A :: As, _, _, h => by
    rw [chain3_cons] at h
    simpa using bond3_length_of_chain h.2.2
  | [], _ :: _, _, _, h => by simp [Chain3] at h
  | _ :: _, [], _, _, h => by simp [Chain3] at h

theorem bond4_length_of_chain {α : Type} : ∀ {ds : List Nat} {As : List (T4 α)} {Dl Dr : Nat},
    Chain4 ds As Dl Dr → bond4 As Dl As.length = Dr
  | [], [], _, _, h => by simpa [Chain4] using h
  | _ :: _, A :: As, _, _, h => by
    simp only [Chain4] at h
    simpa using bond4_length_of_chain h.2.2.2
  | [], _ :: _, _, _, h => by simp [Chain4] at h
  | _ :: _, [], _, _, h => by simp [Chain4] at h

end Ptn.Env

import PtnModel.Proofs.AutSem
/-!
# The constructors `AutOp.__init__` / `AutOpNode.__init__` produce duplicate-free dictionaries and id lists
-/
set_option linter.unusedSectionVars false

namespace Ptn.Og
open List Ptn.Dense

variable {κ : Type} [CommRing κ] [DecidableEq κ]

theorem hasDup_false_iff (l : List Int) : hasDup l = false ↔ l.Nodup := by
  induction l with
  | nil => simp [hasDup]
  | cons x xs ih =>
    simp only [hasDup, Bool.or_eq_false_iff, contains_eq_mem, decide_eq_false_iff_not, ih, nodup_cons]

theorem Node.mk'_nodup {k q : Int} {i o : List Int} {n : Node} (h : Node.mk' k i o q = .ok n) :
    n.eidsIn.Nodup ∧ n.eidsOut.Nodup := by
  unfold Node.mk' at h
  rw [pyAssert_bind] at h
  obtain ⟨h1, h⟩ := h
  rw [pyAssert_bind] at h
  obtain ⟨h2, h⟩ := h
  rw [pure_ok] at h
  subst h
  simp only [Bool.not_eq_true'] at h1 h2
  exact ⟨(hasDup_false_iff _).1 h1, (hasDup_false_iff _).1 h2⟩

/-- the dictionary-building loops of `AutOp.__init__` -/
theorem buildDict_spec {β : Type} (key : β → Int) :
    ∀ (l : List β) (acc0 acc : List (Int × β)),
      l.foldlM (fun acc x => if dHas acc (key x) then (.error .value : Except Err _) else .ok (acc ++ [(key x, x)])) acc0
        = .ok acc →
      (dKeys acc0).Nodup → (dKeys acc).Nodup ∧ ∀ p ∈ acc, p ∈ acc0 ∨ p.2 ∈ l := by
  intro l
  induction l with
  | nil =>
    intro acc0 acc h hn
    rw [foldlM_ok_nil] at h
    subst h
    exact ⟨hn, fun p hp => Or.inl hp⟩
  | cons x xs ih =>
    intro acc0 acc h hn
    rw [foldlM_ok_cons] at h
    obtain ⟨s', h1, h2⟩ := h
    by_cases hk : dHas acc0 (key x) = true
    · simp only [hk, if_true] at h1; cases h1
    · simp only [hk, Bool.false_eq_true, if_false, Except.ok.injEq] at h1
      subst h1
      have hk' : key x ∉ dKeys acc0 := fun hc => hk (dHas_iff.2 hc)
      obtain ⟨a1, a2⟩ := ih _ acc h2 (by rw [dKeys_append]; exact nodup_append_single hn hk')
      refine ⟨a1, fun p hp => ?_⟩
      rcases a2 p hp with h3 | h3
      · rcases mem_append.1 h3 with h4 | h4
        · exact Or.inl h4
        · simp only [mem_singleton] at h4
          subst h4
          exact Or.inr (by simp)
      · exact Or.inr (by simp [h3])

/-- what `AutOp.__init__` guarantees for nodes built by `AutOpNode.__init__` -/
theorem AutOp.mk'_nodup {nodes : List Node} {edges : List (AEdge κ)} {term : List Int} {a : AutOp κ}
    (h : AutOp.mk' nodes edges term = .ok a) (hn : ∀ n ∈ nodes, n.eidsIn.Nodup ∧ n.eidsOut.Nodup) :
    (dKeys a.nodes).Nodup ∧ (dKeys a.edges).Nodup ∧ ∀ p ∈ a.nodes, p.2.eidsIn.Nodup ∧ p.2.eidsOut.Nodup := by
  unfold AutOp.mk' at h
  rw [bind_ok] at h
  obtain ⟨ns, hns, h⟩ := h
  obtain ⟨n1, n2⟩ := buildDict_spec (fun n : Node => n.nid) nodes [] ns hns (by simp [dKeys])
  match term, h with
  | [t0, t1], h =>
    simp only at h
    by_cases hc : (!(dHas ns t0) || !(dHas ns t1)) = true
    · simp only [hc, if_true] at h; cases h
    · simp only [hc, Bool.false_eq_true, if_false] at h
      rw [bind_ok] at h
      obtain ⟨es, hes, h⟩ := h
      rw [pure_ok] at h
      subst h
      obtain ⟨e1, _⟩ := buildDict_spec (fun e : AEdge κ => e.eid) edges [] es hes (by simp [dKeys])
      refine ⟨n1, e1, fun p hp => ?_⟩
      rcases n2 p hp with h3 | h3
      · simp at h3
      · exact hn _ h3

end Ptn.Og

import Mathlib.Algebra.BigOperators.Group.Finset.Basic
import Mathlib.Algebra.BigOperators.Intervals
import PtnModel.Model.Tensor
/-!
# Generic matrix lemmas for the index-function matrices `Ptn.Mat`

* `sumRange_eq_sum`     : the `List.range` fold `sumRange` is `∑ i ∈ Finset.range k, g i`;
* `Mat.tab_*`           : `tab` keeps the dimensions, is the identity on in-range indices, `0` outside,
                          and only depends on the in-range entries of its argument (`tab_congr`);
* entry lemmas for `slice`, `setBlock`, `selectRows`, `selectCols`, `zero`, `mul`.
-/
namespace Ptn

theorem sumRange_eq_sum {α : Type} [AddCommMonoid α] (k : Nat) (g : Nat → α) :
    sumRange k g = ∑ i ∈ Finset.range k, g i := by
  unfold sumRange
  induction k with
  | zero => simp
  | succ k ih => rw [List.range_succ, List.foldl_append, ih, Finset.sum_range_succ]; rfl

namespace Mat
variable {α : Type}

@[simp] theorem tab_m [OfNat α 0] (A : Mat α) : A.tab.m = A.m := rfl
@[simp] theorem tab_n [OfNat α 0] (A : Mat α) : A.tab.n = A.n := rfl

theorem tab_f [OfNat α 0] (A : Mat α) {i j : Nat} (hi : i < A.m) (hj : j < A.n) :
    A.tab.f i j = A.f i j := by
  have hk : i * A.n + j < A.m * A.n := by
    calc i * A.n + j < i * A.n + A.n := by omega
      _ = (i + 1) * A.n := by rw [Nat.succ_mul]
      _ ≤ A.m * A.n := Nat.mul_le_mul_right _ hi
  have h1 : (i * A.n + j) / A.n = i := by
    rw [Nat.mul_comm, Nat.mul_add_div (by omega), Nat.div_eq_of_lt hj]; rfl
  have h2 : (i * A.n + j) % A.n = j := by
    rw [Nat.mul_comm, Nat.mul_add_mod, Nat.mod_eq_of_lt hj]
  simp only [tab, hi, hj, and_self, if_true]
  simp [Array.getD, hk, h1, h2]

theorem tab_f_of_not [OfNat α 0] (A : Mat α) {i j : Nat} (h : ¬ (i < A.m ∧ j < A.n)) :
    A.tab.f i j = 0 := by
  simp only [tab, h, if_false]

/-- `tab` only looks at the in-range entries. -/
theorem tab_congr [OfNat α 0] {A B : Mat α} (hm : A.m = B.m) (hn : A.n = B.n)
    (h : ∀ i j, i < A.m → j < A.n → A.f i j = B.f i j) : A.tab = B.tab := by
  obtain ⟨m, n, f⟩ := A
  obtain ⟨m', n', f'⟩ := B
  simp only at hm hn h
  subst hm hn
  have : (Array.ofFn (n := m * n) fun k => f (k.val / n) (k.val % n))
       = (Array.ofFn (n := m * n) fun k => f' (k.val / n) (k.val % n)) := by
    congr 1
    funext k
    have hn : 0 < n := by
      rcases Nat.eq_zero_or_pos n with h0 | h0
      · have := k.isLt; simp [h0] at this
      · exact h0
    apply h
    · exact (Nat.div_lt_iff_lt_mul hn).2 k.isLt
    · exact Nat.mod_lt _ hn
  simp only [tab, this]

@[simp] theorem slice_m (A : Mat α) (i0 i1 j0 j1 : Nat) : (A.slice i0 i1 j0 j1).m = i1 - i0 := rfl
@[simp] theorem slice_n (A : Mat α) (i0 i1 j0 j1 : Nat) : (A.slice i0 i1 j0 j1).n = j1 - j0 := rfl
@[simp] theorem slice_f (A : Mat α) (i0 i1 j0 j1 i j : Nat) :
    (A.slice i0 i1 j0 j1).f i j = A.f (i0 + i) (j0 + j) := rfl

@[simp] theorem setBlock_m (Z : Mat α) (i0 j0 : Nat) (B : Mat α) : (Z.setBlock i0 j0 B).m = Z.m := rfl
@[simp] theorem setBlock_n (Z : Mat α) (i0 j0 : Nat) (B : Mat α) : (Z.setBlock i0 j0 B).n = Z.n := rfl
theorem setBlock_f (Z : Mat α) (i0 j0 : Nat) (B : Mat α) (i j : Nat) :
    (Z.setBlock i0 j0 B).f i j =
      if i0 ≤ i ∧ i < i0 + B.m ∧ j0 ≤ j ∧ j < j0 + B.n then B.f (i - i0) (j - j0) else Z.f i j := rfl

@[simp] theorem zero_m [OfNat α 0] (m n : Nat) : (Mat.zero m n : Mat α).m = m := rfl
@[simp] theorem zero_n [OfNat α 0] (m n : Nat) : (Mat.zero m n : Mat α).n = n := rfl
@[simp] theorem zero_f [OfNat α 0] (m n i j : Nat) : (Mat.zero m n : Mat α).f i j = 0 := rfl

@[simp] theorem selectRows_m [OfNat α 0] (A : Mat α) (idx : List Nat) : (A.selectRows idx).m = idx.length := rfl
@[simp] theorem selectRows_n [OfNat α 0] (A : Mat α) (idx : List Nat) : (A.selectRows idx).n = A.n := rfl
theorem selectRows_f [OfNat α 0] (A : Mat α) (idx : List Nat) {i : Nat} (j : Nat) (hi : i < idx.length) :
    (A.selectRows idx).f i j = A.f (idx.getD i 0) j := by
  simp [selectRows, hi, List.getD_eq_getElem?_getD]

@[simp] theorem selectCols_m [OfNat α 0] (A : Mat α) (idx : List Nat) : (A.selectCols idx).m = A.m := rfl
@[simp] theorem selectCols_n [OfNat α 0] (A : Mat α) (idx : List Nat) : (A.selectCols idx).n = idx.length := rfl
theorem selectCols_f [OfNat α 0] (A : Mat α) (idx : List Nat) (i : Nat) {j : Nat} (hj : j < idx.length) :
    (A.selectCols idx).f i j = A.f i (idx.getD j 0) := by
  simp [selectCols, hj, List.getD_eq_getElem?_getD]

@[simp] theorem mul_m [Add α] [Mul α] [OfNat α 0] (A B : Mat α) : (A.mul B).m = A.m := rfl
@[simp] theorem mul_n [Add α] [Mul α] [OfNat α 0] (A B : Mat α) : (A.mul B).n = B.n := rfl

theorem mul_f {α : Type} [Semiring α] (A B : Mat α) (i j : Nat) :
    (A.mul B).f i j = ∑ k ∈ Finset.range A.n, A.f i k * B.f k j := by
  simp only [mul]
  exact sumRange_eq_sum _ _

end Mat
end Ptn

namespace Ptn
open Finset

/-- a sum over `range m` of a function supported on the block `[i0, i0 + r)` -/
theorem sum_range_block {α : Type} [AddCommMonoid α] (m i0 r : Nat) (h : i0 + r ≤ m) (g : Nat → α) :
    ∑ i ∈ range m, (if i0 ≤ i ∧ i < i0 + r then g (i - i0) else 0) = ∑ k ∈ range r, g k := by
  obtain ⟨t, rfl⟩ := Nat.exists_eq_add_of_le h
  rw [sum_range_add, sum_range_add]
  have e1 : ∑ x ∈ range i0, (if i0 ≤ x ∧ x < i0 + r then g (x - i0) else 0) = 0 := by
    apply sum_eq_zero
    intro x hx
    rw [if_neg]
    have := mem_range.1 hx
    omega
  have e2 : ∑ x ∈ range t, (if i0 ≤ i0 + r + x ∧ i0 + r + x < i0 + r then g (i0 + r + x - i0) else 0) = 0 := by
    apply sum_eq_zero
    intro x _
    rw [if_neg]
    omega
  have e3 : ∑ x ∈ range r, (if i0 ≤ i0 + x ∧ i0 + x < i0 + r then g (i0 + x - i0) else 0) = ∑ k ∈ range r, g k := by
    apply sum_congr rfl
    intro x hx
    have := mem_range.1 hx
    rw [if_pos (by omega), Nat.add_sub_cancel_left]
  rw [e1, e2, e3, zero_add, add_zero]

end Ptn

namespace Ptn.Mat
open Finset

/-- rows of a product are selected by selecting rows of the left factor: `(A[idx, :] @ B) = (A @ B)[idx, :]` -/
theorem mul_selectRows_f {α : Type} [Semiring α] (A B : Mat α) (idx : List Nat) {i : Nat} (j : Nat)
    (hi : i < idx.length) : ((A.selectRows idx).mul B).f i j = (A.mul B).f (idx.getD i 0) j := by
  rw [mul_f, mul_f, selectRows_n]
  apply sum_congr rfl
  intro k _
  rw [selectRows_f _ _ _ hi]

/-- columns of a product are selected by selecting columns of the right factor: `(A @ B[:, idx]) = (A @ B)[:, idx]` -/
theorem mul_selectCols_f {α : Type} [Semiring α] (A B : Mat α) (idx : List Nat) (i : Nat) {j : Nat}
    (hj : j < idx.length) : (A.mul (B.selectCols idx)).f i j = (A.mul B).f i (idx.getD j 0) := by
  rw [mul_f, mul_f]
  apply sum_congr rfl
  intro k _
  rw [selectCols_f _ _ _ hj]

/-- `tab` does not change products on in-range rows of the left factor -/
theorem mul_tab_left_f {α : Type} [Semiring α] (A B : Mat α) {i : Nat} (j : Nat) (hi : i < A.m) :
    (A.tab.mul B).f i j = (A.mul B).f i j := by
  rw [mul_f, mul_f, tab_n]
  apply sum_congr rfl
  intro k hk
  rw [tab_f _ hi (mem_range.1 hk)]

/-- block embedding: a block `X` placed at `(i0, p0)` in a zero matrix times a block `Y` placed at `(p0, j0)`
in a zero matrix is the product `X Y` placed at `(i0, j0)` (entry form, inner dimensions `X.n = Y.m`). -/
theorem setBlock_zero_mul_f {α : Type} [Semiring α] (m k n i0 p0 j0 : Nat) (X Y : Mat α) (hXY : X.n = Y.m)
    (hk : p0 + X.n ≤ k) (i j : Nat) :
    (((Mat.zero m k).setBlock i0 p0 X).mul ((Mat.zero k n).setBlock p0 j0 Y)).f i j =
      if (i0 ≤ i ∧ i < i0 + X.m) ∧ (j0 ≤ j ∧ j < j0 + Y.n) then (X.mul Y).f (i - i0) (j - j0) else 0 := by
  rw [mul_f, setBlock_n, zero_n]
  have e : ∀ p ∈ range k, ((Mat.zero m k).setBlock i0 p0 X).f i p * ((Mat.zero k n).setBlock p0 j0 Y).f p j =
      if p0 ≤ p ∧ p < p0 + X.n then
        (fun q => if (i0 ≤ i ∧ i < i0 + X.m) ∧ (j0 ≤ j ∧ j < j0 + Y.n) then X.f (i - i0) q * Y.f q (j - j0) else 0)
          (p - p0)
      else 0 := by
    intro p _
    simp only [setBlock_f, zero_f, ← hXY]
    by_cases hp : p0 ≤ p ∧ p < p0 + X.n
    · by_cases hi : i0 ≤ i ∧ i < i0 + X.m
      · by_cases hj : j0 ≤ j ∧ j < j0 + Y.n
        · simp [hp, hi, hj]
        · simp [hp, hi, hj]
      · simp [hp, hi]
    · simp [hp]
  rw [sum_congr rfl e, Ptn.sum_range_block k p0 X.n hk
    (fun q => if (i0 ≤ i ∧ i < i0 + X.m) ∧ (j0 ≤ j ∧ j < j0 + Y.n) then X.f (i - i0) q * Y.f q (j - j0) else 0)]
  by_cases hc : (i0 ≤ i ∧ i < i0 + X.m) ∧ (j0 ≤ j ∧ j < j0 + Y.n)
  · simp only [if_pos hc]; rw [mul_f]
  · simp only [if_neg hc]; exact sum_const_zero

end Ptn.Mat

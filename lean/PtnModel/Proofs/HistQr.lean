import PtnModel.Proofs.HistSimple
import PtnModel.Proofs.DenseExcept
/-!
# C02: what a successful block QR returns — without positivity assumptions

`qr_facts`: whenever `qr dqr A q0 q1` returns `(Q, R, qi)` (so the input assertions of the code passed), for every
kernel satisfying only the shape clause: `Q` is `m × D`, `R` is `D × n`, `D = len qi ≥ 1`, both factors are block
sparse.  Degenerate inputs are covered: a matrix with no column (`n = 0`) goes through the dummy branch; a matrix with
no row makes the code raise `IndexError`, so there is nothing to show.
-/
set_option linter.unusedSectionVars false
namespace Ptn.HistWf
open Ptn.Hist Ptn.Ortho Ptn.BondOps Ptn.Dense
variable {𝕜 : Type} [CommRing 𝕜] [DecidableEq 𝕜]
variable {dqr : Mat 𝕜 → Mat 𝕜 × Mat 𝕜} {A Q R : Mat 𝕜} {q0 q1 qi : List Int}

/-- the three input assertions of `qr` passed -/
theorem qr_asserts {r : Mat 𝕜 × Mat 𝕜 × List Int} (h : qr dqr A q0 q1 = .ok r) :
    q0.length = A.m ∧ q1.length = A.n ∧ QN.isSparseMat A q0 q1 = true := by
  unfold qr at h
  simp only [pyAssert_bind] at h
  exact ⟨by simpa using h.1, by simpa using h.2.1, h.2.2.1⟩

/-- the dummy branch of `qr`, spelled out -/
theorem qr_empty_cases (dqr : Mat 𝕜 → Mat 𝕜 × Mat 𝕜) (hq0 : q0.length = A.m) (hq1 : q1.length = A.n)
    (hsp : QN.isSparseMat A q0 q1 = true) (he : (intersect1d q0 q1).isEmpty = true) :
    qr dqr A q0 q1 =
      if (A.all fun x => decide (x = 0)) = true then
        if A.m = 0 then .error .index
        else .ok (⟨A.m, 1, fun i _ => if i = 0 then 1 else 0⟩, Mat.zero 1 A.n, q0.take 1)
      else .error .assertion := by
  unfold qr
  simp only [hq0, hq1, hsp, he, beq_self_eq_true, pyAssert, if_true, bind, Except.bind, pure, Except.pure]
  by_cases hz : (A.all fun x => decide (x = 0)) = true
  · by_cases hm : A.m = 0
    · simp [hz, hm, throw, throwThe, MonadExceptOf.throw]
    · simp [hz, hm]
  · simp [hz]

/-- dimensions and block sparsity of a returned triple (no positivity assumption on the input) -/
structure QRFacts (A : Mat 𝕜) (q0 q1 : List Int) (Q R : Mat 𝕜) (qi : List Int) : Prop where
  hq0 : q0.length = A.m
  hq1 : q1.length = A.n
  hm : 0 < A.m
  Qm : Q.m = A.m
  Qn : Q.n = qi.length
  Rm : R.m = qi.length
  Rn : R.n = A.n
  pos : 0 < qi.length
  sparseQ : Sparse Q q0 qi
  sparseR : Sparse R qi q1
  dummy : intersect1d q0 q1 = [] → qi = q0.take 1

theorem qr_facts (hshape : ∀ B, ShapeAt dqr B) (hrun : qr dqr A q0 q1 = .ok (Q, R, qi)) :
    QRFacts A q0 q1 Q R qi := by
  obtain ⟨hq0, hq1, hsp⟩ := qr_asserts hrun
  by_cases he : (intersect1d q0 q1).isEmpty = true
  · rw [qr_empty_cases dqr hq0 hq1 hsp he] at hrun
    split at hrun
    · split at hrun
      · cases hrun
      · rename_i hm
        injection hrun with hrun
        injection hrun with h1 hrun
        injection hrun with h2 h3
        subst h1 h2 h3
        have hm' : 0 < A.m := Nat.pos_of_ne_zero hm
        have hl : (q0.take 1).length = 1 := by rw [List.length_take]; omega
        refine ⟨hq0, hq1, hm', rfl, hl.symm, hl.symm, rfl, by omega, ?_, ?_, fun _ => rfl⟩
        · intro i p _ hp hne
          have hp0 : p = 0 := by
            have : p < 1 := hp
            omega
          subst hp0
          by_cases hi : i = 0
          · subst hi; rw [take_one_getD]
          · exact absurd (if_neg hi) hne
        · intro p j _ _ hne
          exact absurd rfl hne
    · cases hrun
  · have hne : intersect1d q0 q1 ≠ [] := by
      intro h0
      apply he
      rw [h0]; rfl
    obtain ⟨c, hc⟩ := List.exists_mem_of_ne_nil _ hne
    obtain ⟨hc0, hc1⟩ := mem_intersect1d.1 hc
    have hm : 0 < A.m := by rw [← hq0]; exact List.length_pos_of_mem hc0
    have hn : 0 < A.n := by rw [← hq1]; exact List.length_pos_of_mem hc1
    have H : QRInput A q0 q1 := ⟨hq0, hq1, hm, hn, (isSparseMat_iff A q0 q1).1 hsp⟩
    have hres := result_of_run (fun B _ => hshape B) H hrun
    exact ⟨hq0, hq1, hm, hres.Qm, hres.Qn, hres.Rm, hres.Rn, hres.pos, hres.sparseQ, hres.sparseR,
      fun h0 => absurd h0 hne⟩

end Ptn.HistWf

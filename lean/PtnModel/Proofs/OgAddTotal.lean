import PtnModel.Proofs.OgTotal
import PtnModel.Proofs.OgHistory
/-!
# `rename_edge_id`, `rename_node_id` and `add` return under their preconditions
-/
set_option linter.unusedSectionVars false
namespace Ptn.Og
open List Rw
variable {κ : Type} [CommRing κ] [DecidableEq κ]

theorem mem_keys_get {β : Type} {dd : List (Int × β)} {k : Int} (hk : k ∈ dKeys dd) : ∃ v, dGet? dd k = some v := by
  cases hc : dGet? dd k with
  | none => exact absurd hk (dGet?_eq_none_iff.1 hc)
  | some v => exact ⟨v, rfl⟩

/-- **`rename_edge_id` returns** if the current id exists and the new one does not -/
theorem renameEdgeId_total {g : Graph κ} (h : SValid g) {cur new : Int} (hcur : cur ∈ dKeys g.edges)
    (hnew : new ∉ dKeys g.edges) : ∃ g', g.renameEdgeId cur new = .ok g' := by
  obtain ⟨edge, hget⟩ := mem_keys_get hcur
  have hm := mem_of_dGet?_eq_some hget
  have heid : edge.eid = cur := h.edgeKey _ _ hm
  obtain ⟨n0, hn0, hk0⟩ := h.edgeNode cur edge hm false
  obtain ⟨n1, hn1, hk1⟩ := h.edgeNode cur edge hm true
  have hl0 := dGet?_eq_some_of_mem h.nodesKeys hn0
  have hl1 := dGet?_eq_some_of_mem h.nodesKeys hn1
  have new_not : ∀ {k n}, (k, n) ∈ g.nodes → ∀ d, new ∉ n.eids d := by
    intro k n hn d hc
    obtain ⟨e, he, _⟩ := h.nodeEdge k n hn d new hc
    exact hnew (mem_map.2 ⟨_, he, rfl⟩)
  unfold Graph.renameEdgeId
  have c1 : dHas g.edges cur = true := dHas_iff.2 hcur
  have c2 : dHas g.edges new = false := by
    cases hc : dHas g.edges new with
    | false => rfl
    | true => exact absurd (dHas_iff.1 hc) hnew
  simp only [c1, c2, Bool.not_true, Bool.false_eq_true, if_false]
  have e1 : g.removeEdge cur = .ok (edge, { g with edges := dErase g.edges cur }) := removeEdge_ok.2 ⟨hget, rfl⟩
  rw [e1, ok_bind]
  simp only [heid, beq_self_eq_true, pyAssert_true, ok_bind, foldlM_cons, foldlM_nil]
  -- first end node
  have f0 : n0.renameEdgeId cur new (!false) = .ok (n0.setEids true ((n0.eids true).erase cur ++ [new])) := by
    unfold Node.renameEdgeId
    have r1 := (Node.removeEdgeId_ok (n := n0) (eid := cur) (d := true)).2 ⟨by simpa using hk0, rfl⟩
    simp only [Bool.not_false]
    rw [r1, ok_bind]
    exact Node.addEdgeId_ok.2 ⟨by
      rw [Node.setEids_eids_same]
      exact fun hc => new_not hn0 true (mem_of_mem_erase hc), by rw [Node.setEids_eids_same]; cases n0; rfl⟩
  have e2 := (Rw.modifyNode_ok (g := ({ g with edges := dErase g.edges cur } : Graph κ)) (k := edge.nid false)
      (f := fun n => n.renameEdgeId cur new (!false))).2 ⟨n0, _, hl0, f0, rfl⟩
  rw [e2, ok_bind]
  -- second end node, in the updated dictionary
  set n0' := n0.setEids true ((n0.eids true).erase cur ++ [new]) with hn0'
  obtain ⟨m1, hm1, hc1, hnw1⟩ : ∃ m1, dGet? (dReplace g.nodes (edge.nid false) n0') (edge.nid true) = some m1 ∧
      cur ∈ m1.eids false ∧ new ∉ m1.eids false := by
    rw [Rw.dGet?_dReplace]
    by_cases hq : edge.nid true = edge.nid false
    · rw [hq] at hl1
      rw [hl0] at hl1
      cases hl1
      simp only [hq, dGet?_some_mem_keys hl0, and_self, if_true]
      refine ⟨n0', rfl, ?_, ?_⟩
      · rw [hn0']; simpa [Node.setEids, Node.eids] using hk1
      · rw [hn0']
        have := new_not hn0 false
        simpa [Node.setEids, Node.eids] using this
    · simp only [hq, false_and, if_false]
      exact ⟨n1, hl1, by simpa using hk1, new_not hn1 false⟩
  have f1 : m1.renameEdgeId cur new (!true) = .ok (m1.setEids false ((m1.eids false).erase cur ++ [new])) := by
    unfold Node.renameEdgeId
    have r1 := (Node.removeEdgeId_ok (n := m1) (eid := cur) (d := false)).2 ⟨hc1, rfl⟩
    simp only [Bool.not_true]
    rw [r1, ok_bind]
    exact Node.addEdgeId_ok.2 ⟨by
      rw [Node.setEids_eids_same]
      exact fun hc => hnw1 (mem_of_mem_erase hc), by rw [Node.setEids_eids_same]; cases m1; rfl⟩
  have e3 := (Rw.modifyNode_ok (g := (⟨dReplace g.nodes (edge.nid false) n0', dErase g.edges cur, g.nidTerminal⟩ : Graph κ))
      (k := edge.nid true) (f := fun n => n.renameEdgeId cur new (!true))).2 ⟨m1, _, hm1, f1, rfl⟩
  rw [e3, ok_bind]
  simp only [pure, Except.pure, ok_bind]
  exact ⟨_, Rw.addEdge_ok.2 ⟨by
    simp only [dKeys_dErase]
    exact fun hc => hnew (mem_of_mem_erase hc), rfl⟩⟩


theorem foldlM_modifyEdge_assert_total {P : Edge κ → Bool} {f : Edge κ → Edge κ} :
    ∀ (l : List Int) (g : Graph κ), l.Nodup → (∀ k ∈ l, ∃ e, dGet? g.edges k = some e ∧ P e = true) →
      ∃ g', l.foldlM (fun g eid => g.modifyEdge eid (fun e => do
        Ptn.pyAssert (P e)
        pure (f e))) g = .ok g'
  | [], g, _, _ => ⟨g, rfl⟩
  | a :: l, g, hn, hk => by
    rw [nodup_cons] at hn
    obtain ⟨e, he, hp⟩ := hk a (by simp)
    have fe : (do Ptn.pyAssert (P e); pure (f e) : Except Err (Edge κ)) = .ok (f e) := by
      rw [hp, pyAssert_true, ok_bind]; rfl
    have e1 := (Rw.modifyEdge_ok (g := g) (k := a) (f := fun e => do Ptn.pyAssert (P e); pure (f e))).2
      ⟨e, f e, he, fe, rfl⟩
    obtain ⟨g', hg'⟩ := foldlM_modifyEdge_assert_total l { g with edges := dReplace g.edges a (f e) } hn.2 (by
      intro k hk'
      obtain ⟨e', he', hp'⟩ := hk k (mem_cons_of_mem _ hk')
      refine ⟨e', ?_, hp'⟩
      rw [Rw.dGet?_dReplace]
      have : ¬ k = a := fun q => hn.1 (q ▸ hk')
      simp [this, he'])
    exact ⟨g', by rw [foldlM_cons, e1, ok_bind]; exact hg'⟩

/-- **`rename_node_id` returns** if the current id exists and the new one does not -/
theorem renameNodeId_total {g : Graph κ} (h : SValid g) {cur new : Int} (hcur : cur ∈ dKeys g.nodes)
    (hnew : new ∉ dKeys g.nodes) : ∃ g', g.renameNodeId cur new = .ok g' := by
  obtain ⟨node, hget⟩ := mem_keys_get hcur
  have hm := mem_of_dGet?_eq_some hget
  have hnid : node.nid = cur := h.nodeKey _ _ hm
  unfold Graph.renameNodeId
  have c1 : dHas g.nodes cur = true := dHas_iff.2 hcur
  have c2 : dHas g.nodes new = false := by
    cases hc : dHas g.nodes new with
    | false => rfl
    | true => exact absurd (dHas_iff.1 hc) hnew
  simp only [c1, c2, Bool.not_true, Bool.false_eq_true, if_false]
  have e1 : g.removeNode cur = .ok (node, { g with nodes := dErase g.nodes cur }) := Rw.removeNode_ok.2 ⟨hget, rfl⟩
  rw [e1, ok_bind]
  simp only [hnid, beq_self_eq_true, pyAssert_true, ok_bind, foldlM_cons, foldlM_nil]
  -- first direction
  obtain ⟨g1, hg1⟩ := foldlM_modifyEdge_assert_total (P := fun e => e.nid (!false) == cur)
    (f := fun e => e.setNid (!false) new) (node.eids false) ({ g with nodes := dErase g.nodes cur } : Graph κ)
    (h.eidsNodup cur node hm false) (by
      intro k hk
      obtain ⟨e, he, hx⟩ := h.nodeEdge cur node hm false k hk
      exact ⟨e, dGet?_eq_some_of_mem h.edgesKeys he, by simpa using hx⟩)
  rw [hg1, ok_bind]
  obtain ⟨a1, a2, a3, a4, a5⟩ := foldlM_modifyEdge hg1 (h.eidsNodup cur node hm false)
  simp only [pure_bind]
  -- second direction, on the updated graph
  have e2 : ∀ (x : Graph κ) (d : Bool) (v : Int), (if x.term d == cur then x.setTerm d v else x).edges = x.edges := by
    intro x d v; split <;> cases d <;> rfl
  obtain ⟨g3, hg3⟩ := foldlM_modifyEdge_assert_total (P := fun e => e.nid (!true) == cur)
    (f := fun e => e.setNid (!true) new) (node.eids true)
    (if g1.term false == cur then g1.setTerm false new else g1)
    (h.eidsNodup cur node hm true) (by
      intro k hk
      obtain ⟨e, he, hx⟩ := h.nodeEdge cur node hm true k hk
      have hle := dGet?_eq_some_of_mem h.edgesKeys he
      rw [e2]
      by_cases hin : k ∈ node.eids false
      · obtain ⟨e0, e0', q1, q2, q3⟩ := a4 k hin
        simp only at q1
        rw [hle] at q1
        cases q1
        simp only [bind_ok, pyAssert_ok, pure_ok] at q2
        obtain ⟨_, _, rfl⟩ := q2
        refine ⟨_, q3, ?_⟩
        simp only [Bool.not_true, Bool.not_false, Edge.nid, Edge.setNid, if_true, Bool.false_eq_true, if_false] at hx ⊢
        simpa using hx
      · refine ⟨e, ?_, by simpa using hx⟩
        rw [a5 k hin]; exact hle)
  rw [hg3, ok_bind]
  simp only [pure_bind]
  obtain ⟨b1, _, _, _, _⟩ := foldlM_modifyEdge hg3 (h.eidsNodup cur node hm true)
  have n2 : ∀ (x : Graph κ) (d : Bool) (v : Int), (if x.term d == cur then x.setTerm d v else x).nodes = x.nodes := by
    intro x d v; split <;> cases d <;> rfl
  exact ⟨_, Rw.addNode_ok.2 ⟨by
    simp only [n2, b1, a1, dKeys_dErase]
    exact fun hc => hnew (mem_of_mem_erase hc), rfl⟩⟩


theorem foldRenameNodes_total :
    ∀ (S : List Int) (o : Graph κ) (c : Int), SValid o → S.Nodup → (∀ s ∈ S, s ∈ dKeys o.nodes) →
      (∀ k ∈ dKeys o.nodes, k < c) →
      ∃ r, S.foldlM (fun (acc : Graph κ × Int) nid => do
        let o ← acc.1.renameNodeId nid acc.2
        pure (o, acc.2 + 1)) (o, c) = .ok r
  | [], o, c, _, _, _, _ => ⟨(o, c), rfl⟩
  | s :: S, o, c, h, hn, hS, hc => by
    rw [nodup_cons] at hn
    obtain ⟨o1, ho1⟩ := renameNodeId_total h (hS s (by simp)) (fun q => by have := hc c q; omega)
    obtain ⟨k1, _, _⟩ := renameNodeId_keys h ho1
    obtain ⟨r, hr⟩ := foldRenameNodes_total S o1 (c + 1) (h.renameNodeId ho1) hn.2 (by
      intro s' hs'
      rw [k1]
      apply mem_append_left
      exact (mem_erase_of_ne (fun q => by rw [q] at hs'; exact hn.1 hs')).2 (hS s' (mem_cons_of_mem _ hs'))) (by
      intro k hk
      rw [k1, mem_append] at hk
      rcases hk with hk | hk
      · have := hc k (mem_of_mem_erase hk); omega
      · simp only [mem_singleton] at hk; omega)
    refine ⟨r, ?_⟩
    rw [foldlM_cons]
    simp only [ho1, ok_bind, pure_bind]
    exact hr

theorem foldRenameEdges_total :
    ∀ (S : List Int) (o : Graph κ) (c : Int), SValid o → S.Nodup → (∀ s ∈ S, s ∈ dKeys o.edges) →
      (∀ k ∈ dKeys o.edges, k < c) →
      ∃ r, S.foldlM (fun (acc : Graph κ × Int) eid => do
        let o ← acc.1.renameEdgeId eid acc.2
        pure (o, acc.2 + 1)) (o, c) = .ok r
  | [], o, c, _, _, _, _ => ⟨(o, c), rfl⟩
  | s :: S, o, c, h, hn, hS, hc => by
    rw [nodup_cons] at hn
    obtain ⟨o1, ho1⟩ := renameEdgeId_total h (hS s (by simp)) (fun q => by have := hc c q; omega)
    obtain ⟨_, k2⟩ := renameEdgeId_keys h ho1
    obtain ⟨r, hr⟩ := foldRenameEdges_total S o1 (c + 1) (h.renameEdgeId ho1) hn.2 (by
      intro s' hs'
      rw [k2]
      apply mem_append_left
      exact (mem_erase_of_ne (fun q => by rw [q] at hs'; exact hn.1 hs')).2 (hS s' (mem_cons_of_mem _ hs'))) (by
      intro k hk
      rw [k2, mem_append] at hk
      rcases hk with hk | hk
      · have := hc k (mem_of_mem_erase hk); omega
      · simp only [mem_singleton] at hk; omega)
    refine ⟨r, ?_⟩
    rw [foldlM_cons]
    simp only [ho1, ok_bind, pure_bind]
    exact hr

/-- **`add` returns**: for two valid graphs with two different terminals each and the same length, and iteration orders
that enumerate exactly the shared node resp. edge ids, `addWith` returns (no exception, no fuel exhaustion) -/
theorem addWith_total {g other : Graph κ} {sn se : List Int} (hg : Valid g) (ho : Valid other)
    (htg : g.term false ≠ g.term true) (hto : other.term false ≠ other.term true)
    (hsn : sn.Nodup ∧ ∀ k, k ∈ sn ↔ (k ∈ dKeys g.nodes ∧ k ∈ dKeys other.nodes))
    (hse : se.Nodup ∧ ∀ k, k ∈ se ↔ (k ∈ dKeys g.edges ∧ k ∈ dKeys other.edges))
    (hlen : ∀ d j j', ReachFrom g d (g.term d) j (g.term (!d)) →
      ReachFrom other d (other.term d) j' (other.term (!d)) → j = j') :
    ∃ g', g.addWith other sn se = .ok g' := by
  -- the maximum of the node ids
  obtain ⟨x, hx⟩ : ∃ x, maxInt? (dKeys g.nodes) = some x := by
    cases hc : dKeys g.nodes with
    | nil => exact absurd (term_mem_keys hg.1 false) (by rw [hc]; simp)
    | cons a b => exact ⟨_, rfl⟩
  obtain ⟨y, hy⟩ : ∃ y, maxInt? (dKeys other.nodes) = some y := by
    cases hc : dKeys other.nodes with
    | nil => exact absurd (term_mem_keys ho.1 false) (by rw [hc]; simp)
    | cons a b => exact ⟨_, rfl⟩
  have hmax : maxKeys2 g.nodes other.nodes = .ok (max x y) := by unfold maxKeys2; rw [hx, hy]
  have hGn : ∀ k ∈ dKeys g.nodes, k < max x y + 1 := by
    intro k hk
    have := le_maxInt? hx k hk
    have := le_max_left x y
    omega
  have hOn : ∀ k ∈ dKeys other.nodes, k < max x y + 1 := by
    intro k hk
    have := le_maxInt? hy k hk
    have := le_max_right x y
    omega
  obtain ⟨⟨o1, c1⟩, hf1⟩ := foldRenameNodes_total sn other (max x y + 1) ho.1 hsn.1
    (fun s hs => ((hsn.2 s).1 hs).2) hOn
  obtain ⟨P1, hd1, he1⟩ := foldRenameNodes hGn sn other (max x y + 1) o1 c1 hf1 (Prep.refl ho hto) (le_refl _)
    (fun k hk hkG => (hsn.2 k).2 ⟨hkG, hk⟩)
  have hGe : ∀ k ∈ dKeys g.edges, k < max (maxKeysD g.edges) (maxKeysD o1.edges) + 1 := by
    intro k hk
    have := le_maxKeysD g.edges k hk
    have := le_max_left (maxKeysD g.edges) (maxKeysD o1.edges)
    omega
  have hOe : ∀ k ∈ dKeys o1.edges, k < max (maxKeysD g.edges) (maxKeysD o1.edges) + 1 := by
    intro k hk
    have := le_maxKeysD o1.edges k hk
    have := le_max_right (maxKeysD g.edges) (maxKeysD o1.edges)
    omega
  obtain ⟨⟨o2, c2⟩, hf2⟩ := foldRenameEdges_total se o1 _ P1.hv.1 hse.1
    (fun s hs => by rw [he1]; exact ((hse.2 s).1 hs).2) hOe
  obtain ⟨P2, hd2, hn2⟩ := foldRenameEdges hGe se o1 _ o2 c2 hf2 P1 (le_refl _)
    (fun k hk hkG => (hse.2 k).2 ⟨hkG, he1 ▸ hk⟩)
  have hdn2 : ∀ k ∈ dKeys o2.nodes, k ∉ dKeys g.nodes := fun k hk => hd1 k (hn2 ▸ hk)
  -- terminal renamings
  obtain ⟨o3, hr3⟩ := renameNodeId_total P2.hv.1 (term_mem_keys P2.hv.1 false)
    (fun q => hdn2 _ q (term_mem_keys hg.1 false))
  have P3 := P2.renameNodeId hr3
  obtain ⟨k31, k32, _⟩ := renameNodeId_keys P2.hv.1 hr3
  obtain ⟨o4, hr4⟩ := renameNodeId_total P3.hv.1 (term_mem_keys P3.hv.1 true) (by
    rw [k31, mem_append]
    rintro (q | q)
    · exact hdn2 _ (mem_of_mem_erase q) (term_mem_keys hg.1 true)
    · simp only [mem_singleton] at q
      exact htg q.symm)
  -- everything after the renamings is determined: re-use the partial-correctness analysis
  have P4 := P3.renameNodeId hr4
  obtain ⟨k41, k42, _⟩ := renameNodeId_keys P3.hv.1 hr4
  obtain ⟨_, _, _, _, _, ht3⟩ := renameNodeId_spec P2.hv.1 hr3
  obtain ⟨_, _, _, _, _, ht4⟩ := renameNodeId_spec P3.hv.1 hr4
  have hne2 : o2.nidTerminal.2 ≠ o2.nidTerminal.1 := by
    have := P2.hterm
    simp only [Graph.term, Bool.false_eq_true, if_false, if_true] at this
    exact fun q => this q.symm
  have hterm3 : o3.nidTerminal = (g.term false, o2.nidTerminal.2) := by
    rw [ht3]; simp [rho, Graph.term, hne2]
  have htt_mem : o2.nidTerminal.2 ∈ dKeys o2.nodes := by
    have := term_mem_keys P2.hv.1 true
    simpa [Graph.term] using this
  have hGf : g.term false ≠ o2.nidTerminal.2 := by
    intro q
    exact hdn2 _ htt_mem (q ▸ term_mem_keys hg.1 false)
  have hterm4 : o4.nidTerminal = g.nidTerminal := by
    simp only [Graph.term, if_true, Bool.false_eq_true, if_false] at ht4 hGf hterm3
    rw [ht4, hterm3]
    simp [rho, hGf]
  have U : UnionOk g o4 := by
    refine ⟨hg.1, P4.hv.1, hterm4, htg, ?_, ?_⟩
    · intro k hkg hko
      rw [k41, mem_append] at hko
      rcases hko with hko | hko
      · have hko' := mem_of_mem_erase hko
        rw [k31, mem_append] at hko'
        rcases hko' with q | q
        · exact absurd hkg (hdn2 k (mem_of_mem_erase q))
        · left; simpa using q
      · right; simpa using hko
    · intro k hkg hko
      rw [k42, k32] at hko
      exact hd2 k hko hkg
  have hto4 : ∀ d, o4.term d = g.term d := o_term U
  have hlen4 : SameLength g o4 := by
    intro d j j' r1 r2
    rw [← hto4 d, ← hto4 (!d)] at r2
    exact hlen d j j' r1 (P4.hlen d j' r2)
  -- the tail
  obtain ⟨t0n, ht0n, ht0e⟩ := P4.hv.1.termNode false
  obtain ⟨t1n, ht1n, ht1e⟩ := P4.hv.1.termNode true
  obtain ⟨n0, hn0, _⟩ := hg.1.termNode false
  obtain ⟨n1, hn1, _⟩ := hg.1.termNode true
  have l0 := dGet?_eq_some_of_mem P4.hv.1.nodesKeys ht0n
  have l1 := dGet?_eq_some_of_mem P4.hv.1.nodesKeys ht1n
  have m0 := dGet?_eq_some_of_mem hg.1.nodesKeys hn0
  have m1 := dGet?_eq_some_of_mem hg.1.nodesKeys hn1
  have hne41 : o4.term true ≠ o4.term false := by rw [hto4, hto4]; exact fun q => htg q.symm
  have s1 : o4.removeNode (o4.term false) = .ok (t0n, { o4 with nodes := dErase o4.nodes (o4.term false) }) :=
    Rw.removeNode_ok.2 ⟨l0, rfl⟩
  have s2 := (Rw.modifyNode_ok (g := g) (k := g.term false)
    (f := fun n => pure (n.setEids (!false) (n.eids (!false) ++ t0n.eids (!false))))).2 ⟨n0, _, m0, rfl, rfl⟩
  have s3 : ({ o4 with nodes := dErase o4.nodes (o4.term false) } : Graph κ).removeNode
      (({ o4 with nodes := dErase o4.nodes (o4.term false) } : Graph κ).term true) =
      .ok (t1n, { o4 with nodes := dErase (dErase o4.nodes (o4.term false)) (o4.term true) }) :=
    Rw.removeNode_ok.2 ⟨by
      show dGet? (dErase o4.nodes (o4.term false)) (o4.term true) = some t1n
      rw [dGet?_dErase _ P4.hv.1.nodesKeys]; simp [hne41, l1], rfl⟩
  have hne10 : ¬ g.term true = g.term false := fun q => htg q.symm
  have s4 := (Rw.modifyNode_ok
    (g := ({ g with nodes := dReplace g.nodes (g.term false) (n0.setEids (!false) (n0.eids (!false) ++ t0n.eids (!false))) } : Graph κ))
    (k := ({ g with nodes := dReplace g.nodes (g.term false) (n0.setEids (!false) (n0.eids (!false) ++ t0n.eids (!false))) } : Graph κ).term true)
    (f := fun n => pure (n.setEids (!true) (n.eids (!true) ++ t1n.eids (!true))))).2
    ⟨n1, _, by
      show dGet? (dReplace g.nodes (g.term false) _) (g.term true) = some n1
      rw [Rw.dGet?_dReplace]
      simp only [hne10, false_and, if_false]
      exact m1, rfl, rfl⟩
  have hEq := addTail_eq U s1 s2 s3 s4
  have hUv := valid_union U hg P4.hv hlen4
  obtain ⟨g', hg'⟩ := simplify_total hUv
  refine ⟨g', ?_⟩
  unfold Graph.addWith
  rw [hmax, ok_bind, hf1, ok_bind]
  simp only
  rw [hf2, ok_bind]
  simp only [foldlM_cons, foldlM_nil, hr3, ok_bind, hr4, pure_bind]
  rw [s1, ok_bind]
  simp only [ht0e, isEmpty_nil, pyAssert_true, ok_bind]
  rw [s2, ok_bind]
  simp only [pure_bind]
  rw [s3, ok_bind]
  simp only [ht1e, isEmpty_nil, pyAssert_true, ok_bind]
  rw [s4, ok_bind]
  simp only [pure_bind]
  rw [← hEq] at hg'
  exact hg'

end Ptn.Og

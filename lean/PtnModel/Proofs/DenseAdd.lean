import PtnModel.Proofs.DenseRow
import PtnModel.Proofs.DenseExcept
/-!
# Dense meaning of `MPS.add` (`add_mps`)

Row-vector invariant: after the first site the row vector of the sum is the concatenation `[v0 | α·v1]` of the operands'
row vectors; block-diagonal interior tensors keep the concatenation, the last tensor (stacked along the left bond) adds the
two parts.
-/
namespace Ptn.MPS
open Finset Dense
variable {R : Type} [CommRing R]

/-- what a successful `add` returns (tensor list only) -/
theorem add_A [DecidableEq R] (ψ0 ψ1 : MPS R) (α : R) (r : MPS R) (h : MPS.add ψ0 ψ1 α = .ok r) :
    ψ0.A.length = ψ1.A.length ∧
    ((ψ0.A = [] ∧ r.A = []) ∨
     (∃ X Y, ψ0.A = [X] ∧ ψ1.A = [Y] ∧ X.d0 = Y.d0 ∧ X.d1 = Y.d1 ∧ X.d2 = Y.d2 ∧
        r.A = [(⟨X.d0, X.d1, X.d2, fun s a b => X.f s a b + α * Y.f s a b⟩ : T3 R).tab]) ∨
     (∃ X Xs Y Ys rest, ψ0.A = X :: Xs ∧ ψ1.A = Y :: Ys ∧ X.d0 = Y.d0 ∧ X.d1 = Y.d1 ∧
        addInterior Xs Ys = .ok rest ∧ r.A = (catLast X (scaleT3 α Y)).tab :: rest)) := by
  unfold MPS.add at h
  simp only [pyAssert_bind] at h
  obtain ⟨h1, h2, h⟩ := h
  refine ⟨by simpa using h1, ?_⟩
  split at h
  · left
    rw [pure_ok] at h
    subst h
    simp_all
  · right; left
    rename_i X Y hX hY
    simp only [pyAssert_bind] at h
    obtain ⟨_, _, h⟩ := h
    split at h
    · simp [throw_bind_ne] at h
    · simp only [pyAssert_bind, pure_ok] at h
      rename_i hne
      refine ⟨X, Y, hX, hY, ?_⟩
      simp only [not_or, not_not] at hne
      obtain ⟨_, rfl⟩ := h
      exact ⟨hne.1, hne.2.1, hne.2.2, rfl⟩
  · right; right
    rename_i X Xs Y Ys _ hX hY
    simp only [pyAssert_bind] at h
    obtain ⟨_, _, h⟩ := h
    split at h
    · simp [throw_bind_ne] at h
    · rename_i hne
      simp only [not_or, not_not] at hne
      simp only [bind_ok, pure_ok] at h
      obtain ⟨rest, hrest, _, _, rfl⟩ := h
      exact ⟨X, Xs, Y, Ys, rest, hX, hY, hne.1, hne.2, hrest, rfl⟩
  · simp [throw_ne] at h

/-- one step through a block-diagonal tensor keeps the concatenated form -/
theorem step_blockDiag (X Y : T3 R) (s : Nat) (hs : s < X.d0) (v v0 v1 : Nat → R)
    (hv : ∀ a < X.d1 + Y.d1, v a = if a < X.d1 then v0 a else v1 (a - X.d1)) :
    ∀ b < X.d2 + Y.d2, step (blockDiag X Y).tab s v b
      = if b < X.d2 then step X s v0 b else step Y s v1 (b - X.d2) := by
  intro b hb
  have e : step (blockDiag X Y).tab s v b
      = ∑ a ∈ range (X.d1 + Y.d1), (if a < X.d1 then v0 a else v1 (a - X.d1)) * (blockDiag X Y).f s a b := by
    apply sum_congr rfl
    intro a ha
    have ha := mem_range.1 ha
    simp only [T3.tab_d1, blockDiag] at ha
    rw [T3.tab_f (blockDiag X Y) hs ha hb, hv a ha]
  rw [e, sum_range_add]
  simp only [blockDiag, step]
  by_cases hb' : b < X.d2
  · simp only [hb', if_true]
    have z : ∑ x ∈ range Y.d1, (if X.d1 + x < X.d1 then v0 (X.d1 + x) else v1 (X.d1 + x - X.d1)) *
        (if X.d1 + x < X.d1 then X.f s (X.d1 + x) b else 0) = 0 := by
      apply sum_eq_zero; intro x _
      rw [if_neg (by omega), if_neg (by omega), mul_zero]
    rw [z, add_zero]
    apply sum_congr rfl; intro a ha
    have := mem_range.1 ha
    rw [if_pos this, if_pos this]
  · simp only [hb', if_false]
    have z : ∑ x ∈ range X.d1, (if x < X.d1 then v0 x else v1 (x - X.d1)) *
        (if x < X.d1 then 0 else Y.f s (x - X.d1) (b - X.d2)) = 0 := by
      apply sum_eq_zero; intro x hx
      have := mem_range.1 hx
      rw [if_pos this, if_pos this, mul_zero]
    rw [z, zero_add]
    apply sum_congr rfl; intro a _
    rw [if_neg (by omega), if_neg (by omega), Nat.add_sub_cancel_left]

/-- the last tensor (stacked along the left bond) adds the two parts -/
theorem step_catMid (X Y : T3 R) (s : Nat) (hs : s < X.d0) (v v0 v1 : Nat → R)
    (hv : ∀ a < X.d1 + Y.d1, v a = if a < X.d1 then v0 a else v1 (a - X.d1)) :
    ∀ b < X.d2, step (catMid X Y).tab s v b = step X s v0 b + step Y s v1 b := by
  intro b hb
  have e : step (catMid X Y).tab s v b
      = ∑ a ∈ range (X.d1 + Y.d1), (if a < X.d1 then v0 a else v1 (a - X.d1)) * (catMid X Y).f s a b := by
    apply sum_congr rfl
    intro a ha
    have ha := mem_range.1 ha
    simp only [T3.tab_d1, catMid] at ha
    rw [T3.tab_f (catMid X Y) hs ha hb, hv a ha]
  rw [e, sum_range_add]
  simp only [catMid, step]
  congr 1
  · apply sum_congr rfl; intro a ha
    have := mem_range.1 ha
    rw [if_pos this, if_pos this]
  · apply sum_congr rfl; intro a _
    rw [if_neg (by omega), if_neg (by omega), Nat.add_sub_cancel_left]

/-- the first tensor (concatenated along the right bond) produces `[v0 | α·v1]` -/
theorem step_catLast (X Y : T3 R) (α : R) (s : Nat) (hs : s < X.d0) (h1 : X.d1 = Y.d1) (v : Nat → R) :
    ∀ b < X.d2 + Y.d2, step (catLast X (scaleT3 α Y)).tab s v b
      = if b < X.d2 then step X s v b else α * step Y s v (b - X.d2) := by
  intro b hb
  have e : step (catLast X (scaleT3 α Y)).tab s v b
      = ∑ a ∈ range X.d1, v a * (catLast X (scaleT3 α Y)).f s a b := by
    apply sum_congr rfl
    intro a ha
    have ha := mem_range.1 ha
    simp only [T3.tab_d1, catLast] at ha
    rw [T3.tab_f (catLast X (scaleT3 α Y)) hs ha hb]
  rw [e]
  simp only [catLast, scaleT3, step]
  by_cases hb' : b < X.d2
  · simp only [hb', if_true]
  · simp only [hb', if_false, ← h1, mul_sum]
    apply sum_congr rfl; intro a _
    ring

/-- interior invariant of `add_mps` -/
theorem addInterior_row (d : Nat) : ∀ (Xs Ys rest : List (T3 R)) (D0 D1 : Nat) (ss : List Nat) (v v0 v1 : Nat → R),
    addInterior Xs Ys = .ok rest → Chain d D0 Xs 1 → Chain d D1 Ys 1 → Digits d Xs.length ss →
    (∀ a < D0 + D1, v a = if a < D0 then v0 a else v1 (a - D0)) →
    ampRow rest ss v 0 = ampRow Xs ss v0 0 + ampRow Ys ss v1 0
  | [], _, _, _, _, _, _, _, _, h, _, _, _, _ => by simp [addInterior] at h
  | [X], [Y], rest, D0, D1, ss, v, v0, v1, h, hc0, hc1, hss, hv => by
      simp only [addInterior] at h
      split at h
      · rename_i hd
        simp only [Except.ok.injEq] at h
        subst h
        obtain ⟨hl, hlt⟩ := hss
        match ss, hl with
        | [s], _ =>
          simp only [ampRow_cons, ampRow_nil]
          obtain ⟨hx0, hx1, hx2⟩ := hc0
          obtain ⟨hy0, hy1, hy2⟩ := hc1
          have hx2 : X.d2 = 1 := hx2
          subst hx1 hy1
          exact step_catMid X Y s (by rw [hx0]; exact hlt s (by simp)) v v0 v1 hv 0 (by omega)
      · simp at h
  | [_], [], _, _, _, _, _, _, _, h, _, _, _, _ => by simp [addInterior] at h
  | [X], Y :: Y' :: Ys, _, _, _, _, _, _, _, h, _, _, _, _ => by
      simp [addInterior, bind, Except.bind] at h
      split at h <;> simp at h
  | X :: X' :: Xs, [], _, _, _, _, _, _, _, h, _, _, _, _ => by simp [addInterior] at h
  | X :: X' :: Xs, Y :: Ys, rest, D0, D1, ss, v, v0, v1, h, hc0, hc1, hss, hv => by
      simp only [addInterior] at h
      split at h
      · simp [throw_bind_ne] at h
      · rename_i hd
        simp only [not_not] at hd
        simp only [bind_ok, pure_ok] at h
        obtain ⟨r', hr', rfl⟩ := h
        obtain ⟨hl, hlt⟩ := hss
        match ss, hl with
        | s :: ss', hl =>
          obtain ⟨hx0, hx1, hx2⟩ := hc0
          obtain ⟨hy0, hy1, hy2⟩ := hc1
          subst hx1 hy1
          have hs : s < X.d0 := by rw [hx0]; exact hlt s (by simp)
          simp only [ampRow_cons]
          exact addInterior_row d (X' :: Xs) Ys r' X.d2 Y.d2 ss' _ _ _ hr' hx2 hy2
            ⟨by simpa using hl, fun x hx => hlt x (by simp [hx])⟩
            (step_blockDiag X Y s hs v v0 v1 hv)

/-- dense meaning of `add_mps` -/
theorem add_dense [DecidableEq R] (ψ0 ψ1 r : MPS R) (α : R) (d : Nat) (h0 : Shaped ψ0 d) (h1 : Shaped ψ1 d)
    (h : MPS.add ψ0 ψ1 α = .ok r) (s : List Nat) (hs : Digits d ψ0.A.length s) :
    r.amp s = ψ0.amp s + α * ψ1.amp s := by
  obtain ⟨hlen, hA⟩ := add_A ψ0 ψ1 α r h
  have c0 := h0.chain
  have c1 := h1.chain
  obtain ⟨hl, hlt⟩ := hs
  simp only [amp_eq]
  rcases hA with ⟨hn, _⟩ | ⟨X, Y, hX, hY, e0', e1, e2, hr⟩ | ⟨X, Xs, Y, Ys, rest, hX, hY, e0', e1, hrest, hr⟩
  · exact absurd hn h0.nonempty
  · rw [hX] at c0 hl ⊢
    rw [hY] at c1 ⊢
    rw [hr]
    obtain ⟨hx0, hx1, hx2⟩ := c0
    obtain ⟨hy0, hy1, hy2⟩ := c1
    have hx2 : X.d2 = 1 := hx2
    match s, hl with
    | [s0], _ =>
      have hs0 : s0 < X.d0 := by rw [hx0]; exact hlt s0 (by simp)
      simp only [ampRow_cons, ampRow_nil]
      rw [step_e0 _ _ hx1, step_e0 _ _ hy1, step_e0 _ _ (by simpa using hx1)]
      exact T3.tab_f (⟨X.d0, X.d1, X.d2, fun s a b => X.f s a b + α * Y.f s a b⟩ : T3 R) hs0
        (by simp [hx1]) (by simp [hx2])
  · rw [hX] at c0 hl ⊢
    rw [hY] at c1 ⊢
    rw [hr]
    obtain ⟨hx0, hx1, hx2⟩ := c0
    obtain ⟨hy0, hy1, hy2⟩ := c1
    match s, hl with
    | s0 :: ss, hl =>
      have hs0 : s0 < X.d0 := by rw [hx0]; exact hlt s0 (by simp)
      simp only [ampRow_cons]
      rw [addInterior_row d Xs Ys rest X.d2 Y.d2 ss _ (step X s0 e0) (fun b => α * step Y s0 e0 b) hrest hx2 hy2
        ⟨by simpa using hl, fun x hx => hlt x (by simp [hx])⟩
        (step_catLast X Y α s0 hs0 e1 e0), ampRow_smul]

import PtnModel.Proofs.EvoExactDefs
/-!
# Transport of spectral relations through a square RIGHT isometry

`R` is a right isometry `(d0, d1, d2)` that is SQUARE as a matrix `a × (s,b)`: `d1 = d0 · d2`; hence it is unitary
(`sq_right_unitary`).  With `BRn = opStepRight R R W BR` the zero-site operator between `BL` and `BRn` is the one-site
operator between `BL`, `BR` conjugated by `R` (`bond_proj_right`), and because `Rᴴ R = 1` the two are intertwined in both
directions.
-/
set_option linter.unusedSectionVars false

namespace Ptn.Evo
open Ptn Ptn.BondOps Ptn.Ortho Ptn.Env Ptn.Krylov Ptn.Dense Finset

variable {𝕜 : Type} [RCLike 𝕜] [DecidableEq 𝕜]

omit [DecidableEq 𝕜] in
theorem tR_sq_right_unitary_aux {R : T3 𝕜} (hR : RightIso R) (hsq : R.d1 = R.d0 * R.d2) {s b s' b' : Nat}
    (hs : s < R.d0) (hb : b < R.d2) (hs' : s' < R.d0) (hb' : b' < R.d2) :
    ∑ a ∈ range R.d1, star (R.f s a b) * R.f s' a b' = if s = s' ∧ b = b' then 1 else 0 := by
  have key := sq_iso_unitary (𝕜 := 𝕜) R.d1 (fun q p => R.f (q / R.d2) p (q % R.d2)) (fun p p' hp hp' => by
    show ∑ q ∈ range R.d1, star (R.f (q / R.d2) p (q % R.d2)) * R.f (q / R.d2) p' (q % R.d2) = _
    rw [← hR p p' hp hp', hsq, Ortho.sum_fused R.d0 R.d2]
    refine sum_congr rfl fun s _ => sum_congr rfl fun b hb => ?_
    rw [Ortho.fused_div (mem_range.1 hb), Ortho.fused_mod (mem_range.1 hb)])
  have := key (s' * R.d2 + b') (s * R.d2 + b) (by rw [hsq]; exact Ortho.fused_lt hs' hb')
    (by rw [hsq]; exact Ortho.fused_lt hs hb)
  simp only [Ortho.fused_div hb, Ortho.fused_mod hb, Ortho.fused_div hb', Ortho.fused_mod hb'] at this
  have e : ∀ a ∈ range R.d1, star (R.f s a b) * R.f s' a b' = R.f s' a b' * star (R.f s a b) := fun a _ => mul_comm _ _
  rw [sum_congr rfl e, this]
  by_cases h : s = s' ∧ b = b'
  · rw [if_pos h, if_pos (by rw [h.1, h.2])]
  · rw [if_neg h, if_neg]
    intro c
    apply h
    have c1 := congrArg (· / R.d2) c
    have c2 := congrArg (· % R.d2) c
    simp only [Ortho.fused_div hb, Ortho.fused_mod hb, Ortho.fused_div hb', Ortho.fused_mod hb'] at c1 c2
    exact ⟨c1.symm, c2.symm⟩

/-- a square right isometry is unitary: its columns `(s,b)` are orthonormal as well -/
theorem sq_right_unitary {R : T3 𝕜} (hR : RightIso R) (hsq : R.d1 = R.d0 * R.d2) {s b s' b' : Nat}
    (hs : s < R.d0) (hb : b < R.d2) (hs' : s' < R.d0) (hb' : b' < R.d2) :
    ∑ a ∈ range R.d1, star (R.f s a b) * R.f s' a b' = if s = s' ∧ b = b' then 1 else 0 :=
  tR_sq_right_unitary_aux hR hsq hs hb hs' hb'

/-! ## algebra -/

omit [DecidableEq 𝕜] in
/-- a double sum against a Kronecker delta of a pair -/
theorem tR_sum_delta_pair (d0 d2 : Nat) (F : Nat → Nat → 𝕜) {s b : Nat} (hs : s < d0) (hb : b < d2) :
    ∑ s' ∈ range d0, ∑ b' ∈ range d2, F s' b' * (if s' = s ∧ b' = b then 1 else 0) = F s b := by
  have e : ∀ s' ∈ range d0, (∑ b' ∈ range d2, F s' b' * (if s' = s ∧ b' = b then (1 : 𝕜) else 0)) =
      if s' = s then F s' b else 0 := by
    intro s' _
    by_cases h : s' = s
    · rw [if_pos h]
      have e2 : ∀ b' ∈ range d2, F s' b' * (if s' = s ∧ b' = b then (1 : 𝕜) else 0) =
          if b' = b then F s' b' else 0 := by
        intro b' _
        by_cases h2 : b' = b
        · rw [if_pos ⟨h, h2⟩, if_pos h2, mul_one]
        · rw [if_neg (fun c => h2 c.2), if_neg h2, mul_zero]
      rw [sum_congr rfl e2, sum_ite_eq' (range d2) b, if_pos (mem_range.2 hb)]
    · rw [if_neg h]
      refine sum_eq_zero fun b' _ => ?_
      rw [if_neg (fun c => h c.1), mul_zero]
  rw [sum_congr rfl e, sum_ite_eq' (range d0) s, if_pos (mem_range.2 hs)]

omit [DecidableEq 𝕜] in
theorem tR_alg_collapse (Sp Ss Sb : Finset Nat) (Qc : Nat → Nat → Nat → 𝕜) (F : Nat → Nat → 𝕜) (q : Nat → 𝕜) :
    ∑ p ∈ Sp, (∑ s' ∈ Ss, ∑ b' ∈ Sb, Qc s' p b' * F s' b') * q p =
      ∑ s' ∈ Ss, ∑ b' ∈ Sb, F s' b' * ∑ p ∈ Sp, Qc s' p b' * q p := by
  simp only [Finset.sum_mul, Finset.mul_sum]
  sum_pull Ss
  sum_pull Sb
  sum_pull Sp
  ring

omit [DecidableEq 𝕜] in
theorem tR_alg_collapse_row (Ss Sb Sp : Finset Nat) (Qc : Nat → Nat → 𝕜) (Q : Nat → Nat → Nat → 𝕜) (c : Nat → 𝕜) :
    ∑ s ∈ Ss, ∑ b ∈ Sb, Qc s b * ∑ p ∈ Sp, c p * Q s p b =
      ∑ p ∈ Sp, c p * ∑ s ∈ Ss, ∑ b ∈ Sb, Qc s b * Q s p b := by
  simp only [Finset.mul_sum]
  sum_pull Sp
  sum_pull Ss
  sum_pull Sb
  ring

omit [DecidableEq 𝕜] in
/-- `(F Rᴴ) R = F` for a square right isometry -/
theorem tR_unit_collapse {R : T3 𝕜} (hR : RightIso R) (hsq : R.d1 = R.d0 * R.d2) (F : Nat → Nat → 𝕜) {s b : Nat}
    (hs : s < R.d0) (hb : b < R.d2) :
    ∑ p ∈ range R.d1, (∑ s' ∈ range R.d0, ∑ b' ∈ range R.d2, star (R.f s' p b') * F s' b') * R.f s p b = F s b := by
  refine (tR_alg_collapse (range R.d1) (range R.d0) (range R.d2) (fun s' p b' => star (R.f s' p b')) F
    (fun p => R.f s p b)).trans ?_
  have e : ∀ s' ∈ range R.d0, ∀ b' ∈ range R.d2, F s' b' * ∑ p ∈ range R.d1, star (R.f s' p b') * R.f s p b =
      F s' b' * (if s' = s ∧ b' = b then 1 else 0) := by
    intro s' hs' b' hb'
    rw [tR_sq_right_unitary_aux hR hsq (mem_range.1 hs') (mem_range.1 hb') hs hb]
  rw [sum_congr rfl fun s' hs' => sum_congr rfl fun b' hb' => e s' hs' b' hb']
  exact tR_sum_delta_pair R.d0 R.d2 F hs hb

omit [DecidableEq 𝕜] in
/-- `(c R) Rᴴ = c` for a right isometry -/
theorem tR_row_collapse {R : T3 𝕜} (hR : RightIso R) (c : Nat → 𝕜) {p : Nat} (hp : p < R.d1) :
    ∑ s ∈ range R.d0, ∑ b ∈ range R.d2, star (R.f s p b) * ∑ p' ∈ range R.d1, c p' * R.f s p' b = c p := by
  refine (tR_alg_collapse_row (range R.d0) (range R.d2) (range R.d1) (fun s b => star (R.f s p b)) R.f c).trans ?_
  have e : ∀ p' ∈ range R.d1, c p' * ∑ s ∈ range R.d0, ∑ b ∈ range R.d2, star (R.f s p b) * R.f s p' b =
      if p' = p then c p' else 0 := by
    intro p' hp'
    rw [hR p p' hp (mem_range.1 hp')]
    by_cases h : p' = p
    · rw [if_pos h.symm, if_pos h, mul_one]
    · rw [if_neg (fun c => h c.symm), if_neg h, mul_zero]
  rw [sum_congr rfl e, sum_ite_eq' (range R.d1) p, if_pos (mem_range.2 hp)]

/-! ## the local maps only look at in-range entries -/

omit [DecidableEq 𝕜] in
/-- `bond_proj_right` for any tensor `A` that agrees with `X · R` on in-range entries -/
theorem tR_bond_proj_right_of {BL BR : T3 𝕜} {W : T4 𝕜} {R BRn : T3 𝕜} {m : Nat}
    (hF : LocalFits BL BR W R.d0 m R.d2) (hBRn : Op.opStepRight R R W BR = .ok BRn)
    {X KX : Mat 𝕜} {A T : T3 𝕜} (x0 : X.m = m) (x1 : X.n = R.d1)
    (a0 : A.d0 = R.d0) (a1 : A.d1 = m) (a2 : A.d2 = R.d2)
    (hA : ∀ s a b, s < R.d0 → a < m → b < R.d2 → A.f s a b = ∑ p ∈ range R.d1, X.f a p * R.f s p b)
    (hKX : Op.applyLocalBondContraction BL BRn X = .ok KX) (hT : Op.applyLocalHamiltonian BL BR W A = .ok T) :
    ∀ a' p', a' < m → p' < R.d1 →
      KX.f a' p' = ∑ s' ∈ range R.d0, ∑ b' ∈ range R.d2, star (R.f s' p' b') * T.f s' a' b' := by
  obtain ⟨_, hproj⟩ := bond_proj_right hF hBRn
  obtain ⟨T0, hT0, _, _, _, _⟩ := applyLocal_ker hF (A := mulLeft X R) rfl x0 rfl
  intro a' p' ha' hp'
  rw [hproj X KX T0 x0 x1 hKX hT0 a' p' ha' hp']
  refine sum_congr rfl fun s' hs' => sum_congr rfl fun b' hb' => ?_
  rw [applyLocal_congr hF (A := mulLeft X R) (B := A) rfl x0 rfl a0 a1 a2
    (fun s a b hs ha hb => (hA s a b hs ha hb).symm) hT0 hT s' a' b' (mem_range.1 hs') ha' (mem_range.1 hb')]

/-! ## T2: the flat intertwiner `u ↦ u · R` -/

/-- the matrix of `C ↦ C · R` from flat `m × d1` matrices to flat `d0 × m × d2` tensors -/
def tR_pushFlat (R : T3 𝕜) (m : Nat) (i j : Nat) : 𝕜 :=
  if i / R.d2 % m = j / R.d1 then R.f (i / (m * R.d2)) (j % R.d1) (i % R.d2) else 0

omit [DecidableEq 𝕜] in
theorem tR_pushFlat_apply (R : T3 𝕜) {m : Nat} (x : List 𝕜) {i : Nat} (ha : i / R.d2 % m < m) :
    ∑ j ∈ range (m * R.d1), tR_pushFlat R m i j * vget x j =
      ∑ p ∈ range R.d1, vget x (i / R.d2 % m * R.d1 + p) * R.f (i / (m * R.d2)) p (i % R.d2) := by
  rw [Ortho.sum_fused m R.d1]
  have e : ∀ a' ∈ range m, (∑ p ∈ range R.d1, tR_pushFlat R m i (a' * R.d1 + p) * vget x (a' * R.d1 + p)) =
      if a' = i / R.d2 % m then ∑ p ∈ range R.d1, vget x (a' * R.d1 + p) * R.f (i / (m * R.d2)) p (i % R.d2)
      else 0 := by
    intro a' _
    by_cases h : a' = i / R.d2 % m
    · rw [if_pos h]
      refine sum_congr rfl fun p hp => ?_
      unfold tR_pushFlat
      rw [Ortho.fused_div (mem_range.1 hp), Ortho.fused_mod (mem_range.1 hp), if_pos h.symm, mul_comm]
    · rw [if_neg h]
      refine sum_eq_zero fun p hp => ?_
      unfold tR_pushFlat
      rw [Ortho.fused_div (mem_range.1 hp), if_neg (fun c => h c.symm), zero_mul]
  rw [sum_congr rfl e, sum_ite_eq' (range m) (i / R.d2 % m), if_pos (mem_range.2 ha)]

omit [DecidableEq 𝕜] in
/-- the index components of a flat index of a `d0 × d1 × d2` tensor are in range -/
theorem tR_idx3_parts {i d0 d1 d2 : Nat} (hi : i < d0 * d1 * d2) :
    i / (d1 * d2) < d0 ∧ i / d2 % d1 < d1 ∧ i % d2 < d2 := by
  have hi2 : i < d0 * (d1 * d2) := by rw [← Nat.mul_assoc]; exact hi
  exact ⟨Ortho.div_lt_of_lt_mul hi2, Ortho.mod_lt_of_lt_mul (Ortho.div_lt_of_lt_mul hi), Ortho.mod_lt_of_lt_mul hi⟩

omit [DecidableEq 𝕜] in
theorem tR_vget_flat3_gen {T : T3 𝕜} {d0 d1 d2 : Nat} (t0 : T.d0 = d0) (t1 : T.d1 = d1) (t2 : T.d2 = d2) {i : Nat}
    (hi : i < d0 * d1 * d2) : vget (flat3 T) i = T.f (i / (d1 * d2)) (i / d2 % d1) (i % d2) := by
  unfold flat3
  rw [vget_map_range, t0, t1, t2, if_pos hi]

omit [DecidableEq 𝕜] in
theorem tR_vget_flat2_gen {C : Mat 𝕜} {m n : Nat} (c0 : C.m = m) (c1 : C.n = n) {i : Nat}
    (hi : i < m * n) : vget (flat2 C) i = C.f (i / n) (i % n) := by
  unfold flat2
  rw [vget_map_range, c0, c1, if_pos hi]

omit [DecidableEq 𝕜] in
theorem tR_vget_flat2' {C : Mat 𝕜} {m n : Nat} (c0 : C.m = m) (c1 : C.n = n) {a p : Nat} (ha : a < m) (hp : p < n) :
    vget (flat2 C) (a * n + p) = C.f a p := by
  have := vget_flat2 C (i := a) (j := p) (by rw [c0]; exact ha) (by rw [c1]; exact hp)
  rw [c1] at this
  exact this

omit [DecidableEq 𝕜] in
theorem tR_vget_flat3' {T : T3 𝕜} {d0 d1 d2 : Nat} (t0 : T.d0 = d0) (t1 : T.d1 = d1) (t2 : T.d2 = d2) {s a b : Nat}
    (hs : s < d0) (ha : a < d1) (hb : b < d2) : vget (flat3 T) ((s * d1 + a) * d2 + b) = T.f s a b := by
  have := vget_flat3 T (i := s) (j := a) (k := b) (by rw [t0]; exact hs) (by rw [t1]; exact ha) (by rw [t2]; exact hb)
  rw [t1, t2] at this
  exact this

omit [DecidableEq 𝕜] in
/-- `flat3 (C · R) = G (flat2 C)` -/
theorem tR_push_vec {R : T3 𝕜} {m : Nat} {C : Mat 𝕜} (c0 : C.m = m) (c1 : C.n = R.d1)
    {X : T3 𝕜} (x0 : X.d0 = R.d0) (x1 : X.d1 = m) (x2 : X.d2 = R.d2)
    (hX : ∀ s a b, s < R.d0 → a < m → b < R.d2 → X.f s a b = ∑ p ∈ range R.d1, C.f a p * R.f s p b)
    {i : Nat} (hi : i < R.d0 * m * R.d2) :
    vget (flat3 X) i = ∑ j ∈ range (m * R.d1), tR_pushFlat R m i j * vget (flat2 C) j := by
  obtain ⟨hs, ha, hb⟩ := tR_idx3_parts hi
  rw [tR_pushFlat_apply R (flat2 C) ha, tR_vget_flat3_gen x0 x1 x2 hi, hX _ _ _ hs ha hb]
  refine sum_congr rfl fun p hp => ?_
  rw [tR_vget_flat2' c0 c1 ha (mem_range.1 hp)]

omit [DecidableEq 𝕜] in
/-- `H_eff (u · R) = K_eff(u) · R` on flat vectors -/
theorem tR_push_intertwine {BL BR : T3 𝕜} {W : T4 𝕜} {R BRn : T3 𝕜} {m : Nat}
    (hR : RightIso R) (hsq : R.d1 = R.d0 * R.d2)
    (hF : LocalFits BL BR W R.d0 m R.d2) (hBRn : Op.opStepRight R R W BR = .ok BRn)
    (u : List 𝕜) {i : Nat} (hi : i < R.d0 * m * R.d2) :
    vget (localHFun BL BR W R.d0 m R.d2 (mvecR (R.d0 * m * R.d2) (m * R.d1) (tR_pushFlat R m) u)) i =
      ∑ j ∈ range (m * R.d1), tR_pushFlat R m i j * vget (localBondFun BL BRn m R.d1 u) j := by
  obtain ⟨hs, ha, hb⟩ := tR_idx3_parts hi
  obtain ⟨hFB, _⟩ := bond_proj_right hF hBRn
  obtain ⟨KX, hKX, eK, k0, k1⟩ := localBondFun_eq hFB u
  obtain ⟨T, hT, eT, t0, t1, t2⟩ := localHFun_eq hF (mvecR (R.d0 * m * R.d2) (m * R.d1) (tR_pushFlat R m) u)
  have hA : ∀ s a b, s < R.d0 → a < m → b < R.d2 →
      (unflat3 (mvecR (R.d0 * m * R.d2) (m * R.d1) (tR_pushFlat R m) u) R.d0 m R.d2).f s a b =
        ∑ p ∈ range R.d1, (unflat2 u m R.d1).f a p * R.f s p b := by
    intro s a b hs' ha' hb'
    rw [unflat3_f, vget_mvecR (tR_pushFlat R m) u (idx3_lt hs' ha' hb'),
      tR_pushFlat_apply R u (by rw [idx3_div1 ha' hb']; exact ha'), idx3_div0 ha' hb', idx3_div1 ha' hb', idx3_mod hb']
    exact sum_congr rfl fun p _ => by rw [unflat2_f]
  have hproj := tR_bond_proj_right_of hF hBRn (X := unflat2 u m R.d1)
    (A := unflat3 (mvecR (R.d0 * m * R.d2) (m * R.d1) (tR_pushFlat R m) u) R.d0 m R.d2) rfl rfl rfl rfl rfl hA hKX hT
  rw [eT, eK, tR_pushFlat_apply R (flat2 KX) ha, tR_vget_flat3_gen t0 t1 t2 hi]
  have e : ∀ p ∈ range R.d1, vget (flat2 KX) (i / R.d2 % m * R.d1 + p) * R.f (i / (m * R.d2)) p (i % R.d2) =
      (∑ s' ∈ range R.d0, ∑ b' ∈ range R.d2, star (R.f s' p b') * T.f s' (i / R.d2 % m) b') *
        R.f (i / (m * R.d2)) p (i % R.d2) := by
    intro p hp
    rw [tR_vget_flat2' k0 k1 ha (mem_range.1 hp), hproj _ _ ha (mem_range.1 hp)]
  rw [sum_congr rfl e]
  exact (tR_unit_collapse hR hsq (fun s' b' => T.f s' (i / R.d2 % m) b') hs hb).symm

/-- **T2 (bond matrix pushed into a square right isometry, forward sweep).**  `X = Cx · R`, `Y = Cy · R`; a spectral relation
`Cy = E(γ K_eff) Cx` of the zero-site operator between `BL` and `BRn = opStepRight R R W BR` is a spectral relation
`Y = E(γ H_eff) X` of the one-site operator between `BL` and `BR`. -/
theorem spec_rightPush {BL BR : T3 𝕜} {W : T4 𝕜} {R BRn : T3 𝕜} {m : Nat} {E : 𝕜 → 𝕜} {γ : 𝕜}
    (hR : RightIso R) (hsq : R.d1 = R.d0 * R.d2)
    (hF : LocalFits BL BR W R.d0 m R.d2) (hBRn : Op.opStepRight R R W BR = .ok BRn)
    {Cx Cy : Mat 𝕜} (cx0 : Cx.m = m) (cx1 : Cx.n = R.d1) (cy0 : Cy.m = m) (cy1 : Cy.n = R.d1)
    {X Y : T3 𝕜} (x0 : X.d0 = R.d0) (x1 : X.d1 = m) (x2 : X.d2 = R.d2)
    (y0 : Y.d0 = R.d0) (y1 : Y.d1 = m) (y2 : Y.d2 = R.d2)
    (hX : ∀ s a b, s < R.d0 → a < m → b < R.d2 → X.f s a b = ∑ p ∈ range R.d1, Cx.f a p * R.f s p b)
    (hY : ∀ s a b, s < R.d0 → a < m → b < R.d2 → Y.f s a b = ∑ p ∈ range R.d1, Cy.f a p * R.f s p b)
    (h : Spec (m * R.d1) (localBondFun BL BRn m R.d1) E γ (flat2 Cx) (flat2 Cy)) :
    Spec (R.d0 * m * R.d2) (localHFun BL BR W R.d0 m R.d2) E γ (flat3 X) (flat3 Y) :=
  spec_transport (G := tR_pushFlat R m) h (fun u _ _ hi => tR_push_intertwine hR hsq hF hBRn u hi)
    (fun _ hi => tR_push_vec cx0 cx1 x0 x1 x2 hX hi) (fun _ hi => tR_push_vec cy0 cy1 y0 y1 y2 hY hi)

/-! ## T3: the flat intertwiner `T ↦ T · Rᴴ` -/

/-- the matrix of `T ↦ T · Qᴴ` from flat `d0 × m × d2` tensors to flat `m × d1` matrices -/
def tR_qrFlat (Q : T3 𝕜) (m : Nat) (i j : Nat) : 𝕜 :=
  if j / Q.d2 % m = i / Q.d1 then star (Q.f (j / (m * Q.d2)) (i % Q.d1) (j % Q.d2)) else 0

omit [DecidableEq 𝕜] in
theorem tR_qrFlat_apply (Q : T3 𝕜) {m : Nat} (x : List 𝕜) {i : Nat} (ha : i / Q.d1 < m) :
    ∑ j ∈ range (Q.d0 * m * Q.d2), tR_qrFlat Q m i j * vget x j =
      ∑ s ∈ range Q.d0, ∑ b ∈ range Q.d2, star (Q.f s (i % Q.d1) b) * vget x ((s * m + i / Q.d1) * Q.d2 + b) := by
  rw [sum_flat3]
  refine sum_congr rfl fun s _ => ?_
  have e : ∀ a' ∈ range m,
      (∑ b ∈ range Q.d2, tR_qrFlat Q m i ((s * m + a') * Q.d2 + b) * vget x ((s * m + a') * Q.d2 + b)) =
      if a' = i / Q.d1 then ∑ b ∈ range Q.d2, star (Q.f s (i % Q.d1) b) * vget x ((s * m + a') * Q.d2 + b)
      else 0 := by
    intro a' ha'
    by_cases h : a' = i / Q.d1
    · rw [if_pos h]
      refine sum_congr rfl fun b hb => ?_
      unfold tR_qrFlat
      rw [idx3_div0 (mem_range.1 ha') (mem_range.1 hb), idx3_div1 (mem_range.1 ha') (mem_range.1 hb),
        idx3_mod (mem_range.1 hb), if_pos h]
    · rw [if_neg h]
      refine sum_eq_zero fun b hb => ?_
      unfold tR_qrFlat
      rw [idx3_div1 (mem_range.1 ha') (mem_range.1 hb), if_neg h, zero_mul]
  rw [sum_congr rfl e, sum_ite_eq' (range m) (i / Q.d1), if_pos (mem_range.2 ha)]

/-- `X · Qᴴ` -/
noncomputable def tR_mulAdjRight (X Q : T3 𝕜) (m : Nat) : Mat 𝕜 :=
  ⟨m, Q.d1, fun a p => ∑ s ∈ range Q.d0, ∑ b ∈ range Q.d2, star (Q.f s p b) * X.f s a b⟩

omit [DecidableEq 𝕜] in
/-- `flat2 (X · Qᴴ) = G' (flat3 X)` -/
theorem tR_qr_vec_x {Q : T3 𝕜} {m : Nat} {X : T3 𝕜} (x0 : X.d0 = Q.d0) (x1 : X.d1 = m) (x2 : X.d2 = Q.d2)
    {i : Nat} (hi : i < m * Q.d1) :
    vget (flat2 (tR_mulAdjRight X Q m)) i = ∑ j ∈ range (Q.d0 * m * Q.d2), tR_qrFlat Q m i j * vget (flat3 X) j := by
  have ha : i / Q.d1 < m := Ortho.div_lt_of_lt_mul hi
  rw [tR_qrFlat_apply Q (flat3 X) ha, tR_vget_flat2_gen (C := tR_mulAdjRight X Q m) rfl rfl hi]
  show ∑ s ∈ range Q.d0, ∑ b ∈ range Q.d2, star (Q.f s (i % Q.d1) b) * X.f s (i / Q.d1) b = _
  refine sum_congr rfl fun s hs => sum_congr rfl fun b hb => ?_
  rw [tR_vget_flat3' x0 x1 x2 (mem_range.1 hs) ha (mem_range.1 hb)]

omit [DecidableEq 𝕜] in
/-- `flat2 C = G' (flat3 (C · Q))` -/
theorem tR_qr_vec_y {Q : T3 𝕜} (hQ : RightIso Q) {m : Nat} {C : Mat 𝕜} (c0 : C.m = m) (c1 : C.n = Q.d1)
    {Y : T3 𝕜} (y0 : Y.d0 = Q.d0) (y1 : Y.d1 = m) (y2 : Y.d2 = Q.d2)
    (hY : ∀ s a b, s < Q.d0 → a < m → b < Q.d2 → Y.f s a b = ∑ p ∈ range Q.d1, C.f a p * Q.f s p b)
    {i : Nat} (hi : i < m * Q.d1) :
    vget (flat2 C) i = ∑ j ∈ range (Q.d0 * m * Q.d2), tR_qrFlat Q m i j * vget (flat3 Y) j := by
  have ha : i / Q.d1 < m := Ortho.div_lt_of_lt_mul hi
  have hp : i % Q.d1 < Q.d1 := Ortho.mod_lt_of_lt_mul hi
  rw [tR_qrFlat_apply Q (flat3 Y) ha, tR_vget_flat2_gen c0 c1 hi]
  have e : ∀ s ∈ range Q.d0, ∀ b ∈ range Q.d2,
      star (Q.f s (i % Q.d1) b) * vget (flat3 Y) ((s * m + i / Q.d1) * Q.d2 + b) =
      star (Q.f s (i % Q.d1) b) * ∑ p' ∈ range Q.d1, C.f (i / Q.d1) p' * Q.f s p' b := by
    intro s hs b hb
    rw [tR_vget_flat3' y0 y1 y2 (mem_range.1 hs) ha (mem_range.1 hb), hY _ _ _ (mem_range.1 hs) ha (mem_range.1 hb)]
  rw [sum_congr rfl fun s hs => sum_congr rfl fun b hb => e s hs b hb]
  exact (tR_row_collapse hQ (fun p' => C.f (i / Q.d1) p') hp).symm

omit [DecidableEq 𝕜] in
/-- `K_eff (u · Qᴴ) = H_eff(u) · Qᴴ` on flat vectors -/
theorem tR_qr_intertwine {BL BR : T3 𝕜} {W : T4 𝕜} {Q BRn : T3 𝕜} {m : Nat}
    (hQ : RightIso Q) (hsq : Q.d1 = Q.d0 * Q.d2)
    (hF : LocalFits BL BR W Q.d0 m Q.d2) (hBRn : Op.opStepRight Q Q W BR = .ok BRn)
    (u : List 𝕜) {i : Nat} (hi : i < m * Q.d1) :
    vget (localBondFun BL BRn m Q.d1 (mvecR (m * Q.d1) (Q.d0 * m * Q.d2) (tR_qrFlat Q m) u)) i =
      ∑ j ∈ range (Q.d0 * m * Q.d2), tR_qrFlat Q m i j * vget (localHFun BL BR W Q.d0 m Q.d2 u) j := by
  have ha : i / Q.d1 < m := Ortho.div_lt_of_lt_mul hi
  have hp : i % Q.d1 < Q.d1 := Ortho.mod_lt_of_lt_mul hi
  obtain ⟨hFB, _⟩ := bond_proj_right hF hBRn
  obtain ⟨KC, hKC, eK, k0, k1⟩ := localBondFun_eq hFB (mvecR (m * Q.d1) (Q.d0 * m * Q.d2) (tR_qrFlat Q m) u)
  obtain ⟨T, hT, eT, t0, t1, t2⟩ := localHFun_eq hF u
  have hA : ∀ s a b, s < Q.d0 → a < m → b < Q.d2 →
      (unflat3 u Q.d0 m Q.d2).f s a b =
        ∑ p ∈ range Q.d1, (unflat2 (mvecR (m * Q.d1) (Q.d0 * m * Q.d2) (tR_qrFlat Q m) u) m Q.d1).f a p * Q.f s p b := by
    intro s a b hs' ha' hb'
    have e : ∀ p ∈ range Q.d1,
        (unflat2 (mvecR (m * Q.d1) (Q.d0 * m * Q.d2) (tR_qrFlat Q m) u) m Q.d1).f a p * Q.f s p b =
        (∑ s' ∈ range Q.d0, ∑ b' ∈ range Q.d2, star (Q.f s' p b') * vget u ((s' * m + a) * Q.d2 + b')) *
          Q.f s p b := by
      intro p hp'
      rw [unflat2_f, vget_mvecR (tR_qrFlat Q m) u (Ortho.fused_lt ha' (mem_range.1 hp')),
        tR_qrFlat_apply Q u (by rw [Ortho.fused_div (mem_range.1 hp')]; exact ha'),
        Ortho.fused_div (mem_range.1 hp'), Ortho.fused_mod (mem_range.1 hp')]
    rw [sum_congr rfl e, unflat3_f]
    exact (tR_unit_collapse hQ hsq (fun s' b' => vget u ((s' * m + a) * Q.d2 + b')) hs' hb').symm
  have hproj := tR_bond_proj_right_of hF hBRn
    (X := unflat2 (mvecR (m * Q.d1) (Q.d0 * m * Q.d2) (tR_qrFlat Q m) u) m Q.d1) (A := unflat3 u Q.d0 m Q.d2)
    rfl rfl rfl rfl rfl hA hKC hT
  rw [eK, eT, tR_qrFlat_apply Q (flat3 T) ha, tR_vget_flat2_gen k0 k1 hi, hproj _ _ ha hp]
  refine sum_congr rfl fun s hs => sum_congr rfl fun b hb => ?_
  rw [tR_vget_flat3' t0 t1 t2 (mem_range.1 hs) ha (mem_range.1 hb)]

/-- **T3 (QR of the centre tensor, backward sweep).**  `Y = Cy · Q`; a spectral relation `Y = E(γ H_eff) X` of the one-site
operator is a spectral relation `Cy = E(γ K_eff) Cx` of the zero-site operator, with `X = Cx · Q`. -/
theorem spec_rightQR {BL BR : T3 𝕜} {W : T4 𝕜} {Q BRn : T3 𝕜} {m : Nat} {E : 𝕜 → 𝕜} {γ : 𝕜}
    (hQ : RightIso Q) (hsq : Q.d1 = Q.d0 * Q.d2)
    (hF : LocalFits BL BR W Q.d0 m Q.d2) (hBRn : Op.opStepRight Q Q W BR = .ok BRn)
    {X Y : T3 𝕜} (x0 : X.d0 = Q.d0) (x1 : X.d1 = m) (x2 : X.d2 = Q.d2)
    (y0 : Y.d0 = Q.d0) (y1 : Y.d1 = m) (y2 : Y.d2 = Q.d2)
    {Cy : Mat 𝕜} (c0 : Cy.m = m) (c1 : Cy.n = Q.d1)
    (hY : ∀ s a b, s < Q.d0 → a < m → b < Q.d2 → Y.f s a b = ∑ p ∈ range Q.d1, Cy.f a p * Q.f s p b)
    (h : Spec (Q.d0 * m * Q.d2) (localHFun BL BR W Q.d0 m Q.d2) E γ (flat3 X) (flat3 Y)) :
    ∃ Cx : Mat 𝕜, Cx.m = m ∧ Cx.n = Q.d1 ∧
      (∀ s a b, s < Q.d0 → a < m → b < Q.d2 → X.f s a b = ∑ p ∈ range Q.d1, Cx.f a p * Q.f s p b) ∧
      Spec (m * Q.d1) (localBondFun BL BRn m Q.d1) E γ (flat2 Cx) (flat2 Cy) := by
  refine ⟨tR_mulAdjRight X Q m, rfl, rfl, ?_, ?_⟩
  · intro s a b hs _ hb
    exact (tR_unit_collapse hQ hsq (fun s' b' => X.f s' a b') hs hb).symm
  · exact spec_transport (G := tR_qrFlat Q m) h (fun u _ _ hi => tR_qr_intertwine hQ hsq hF hBRn u hi)
      (fun _ hi => tR_qr_vec_x x0 x1 x2 hi) (fun _ hi => tR_qr_vec_y hQ c0 c1 y0 y1 y2 hY hi)

end Ptn.Evo

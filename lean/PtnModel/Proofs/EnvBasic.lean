import Mathlib.Algebra.BigOperators.Ring.Finset
import Mathlib.Algebra.BigOperators.Intervals
import Mathlib.Algebra.Star.BigOperators
import Mathlib.Tactic.Ring
import PtnModel.Model.Operation
/-!
# Basic infrastructure for the environment-block proofs (C04)

* `Env.starConj`          : the `HasConj` instance `conj = star` used in all C04 statements;
* `Env.sumRange_eq`       : `sumRange k g = ∑ i ∈ range k, g i`;
* `Env.mat_tab_f`, `Env.t3_tab_f`, `Env.t4_tab_f` : `tab` is the identity on in-range indices;
* `Env.digits ds`         : the finite set of digit lists `s` with `s.length = ds.length`, `s[k] < ds[k]`
                            (the index set of the dense vector of an MPS with site dimensions `ds`),
                            with the unfolding lemmas `sum_digits_cons`, `sum_digits_append`;
* tactic `sum_pull S`     : bring the sum over `S` to the front on both sides of an equation of nested sums
                            and strip it.
-/
namespace Ptn.Env

open Finset

/-- complex conjugation of the model read as `star` (trivial on `ℝ`, `ℚ`, `ℤ`; conjugation on `ℂ`). -/
@[reducible] def starConj (R : Type) [Star R] : HasConj R := ⟨star⟩

theorem sumRange_eq {α : Type} [AddCommMonoid α] (k : Nat) (g : Nat → α) :
    sumRange k g = ∑ i ∈ Finset.range k, g i := by
  unfold sumRange
  induction k with
  | zero => simp
  | succ k ih => rw [List.range_succ, List.foldl_append, ih, Finset.sum_range_succ]; rfl

/-! ## `tab` -/

private theorem idx_lt {i j m n : Nat} (hi : i < m) (hj : j < n) : i * n + j < m * n := by
  calc i * n + j < i * n + n := by omega
    _ = (i + 1) * n := by rw [Nat.succ_mul]
    _ ≤ m * n := Nat.mul_le_mul_right _ hi

private theorem idx_div {i j n : Nat} (hj : j < n) : (i * n + j) / n = i := by
  rw [Nat.mul_comm, Nat.mul_add_div (by omega), Nat.div_eq_of_lt hj]; rfl

private theorem idx_mod {i j n : Nat} (hj : j < n) : (i * n + j) % n = j := by
  rw [Nat.mul_comm, Nat.mul_add_mod, Nat.mod_eq_of_lt hj]

variable {α : Type}

@[simp] theorem mat_tab_m [OfNat α 0] (A : Mat α) : A.tab.m = A.m := rfl
@[simp] theorem mat_tab_n [OfNat α 0] (A : Mat α) : A.tab.n = A.n := rfl

theorem mat_tab_f [OfNat α 0] (A : Mat α) {i j : Nat} (hi : i < A.m) (hj : j < A.n) :
    A.tab.f i j = A.f i j := by
  have hk := idx_lt hi hj
  simp only [Mat.tab, hi, hj, and_self, if_true]
  simp [Array.getD, hk, idx_div hj, idx_mod hj]

@[simp] theorem t3_tab_d0 [OfNat α 0] (A : T3 α) : A.tab.d0 = A.d0 := rfl
@[simp] theorem t3_tab_d1 [OfNat α 0] (A : T3 α) : A.tab.d1 = A.d1 := rfl
@[simp] theorem t3_tab_d2 [OfNat α 0] (A : T3 α) : A.tab.d2 = A.d2 := rfl

theorem t3_tab_f [OfNat α 0] (A : T3 α) {i j k : Nat} (hi : i < A.d0) (hj : j < A.d1) (hk : k < A.d2) :
    A.tab.f i j k = A.f i j k := by
  have h1 := idx_lt hi hj
  have h2 := idx_lt h1 hk
  have e1 : ((i * A.d1 + j) * A.d2 + k) / (A.d1 * A.d2) = i := by
    rw [Nat.mul_comm A.d1 A.d2, ← Nat.div_div_eq_div_mul, idx_div hk, idx_div hj]
  have e2 : ((i * A.d1 + j) * A.d2 + k) / A.d2 % A.d1 = j := by rw [idx_div hk, idx_mod hj]
  simp only [T3.tab, hi, hj, hk, and_self, if_true]
  simp [Array.getD, h2, e1, e2, idx_mod hk]

@[simp] theorem t4_tab_d0 [OfNat α 0] (A : T4 α) : A.tab.d0 = A.d0 := rfl
@[simp] theorem t4_tab_d1 [OfNat α 0] (A : T4 α) : A.tab.d1 = A.d1 := rfl
@[simp] theorem t4_tab_d2 [OfNat α 0] (A : T4 α) : A.tab.d2 = A.d2 := rfl
@[simp] theorem t4_tab_d3 [OfNat α 0] (A : T4 α) : A.tab.d3 = A.d3 := rfl

theorem t4_tab_f [OfNat α 0] (A : T4 α) {i j k l : Nat} (hi : i < A.d0) (hj : j < A.d1) (hk : k < A.d2)
    (hl : l < A.d3) : A.tab.f i j k l = A.f i j k l := by
  have h1 := idx_lt hi hj
  have h2 := idx_lt h1 hk
  have h3 := idx_lt h2 hl
  have e1 : (((i * A.d1 + j) * A.d2 + k) * A.d3 + l) / (A.d1 * A.d2 * A.d3) = i := by
    rw [Nat.mul_comm (A.d1 * A.d2) A.d3, ← Nat.div_div_eq_div_mul, idx_div hl,
      Nat.mul_comm A.d1 A.d2, ← Nat.div_div_eq_div_mul, idx_div hk, idx_div hj]
  have e2 : (((i * A.d1 + j) * A.d2 + k) * A.d3 + l) / (A.d2 * A.d3) % A.d1 = j := by
    rw [Nat.mul_comm A.d2 A.d3, ← Nat.div_div_eq_div_mul, idx_div hl, idx_div hk, idx_mod hj]
  have e3 : (((i * A.d1 + j) * A.d2 + k) * A.d3 + l) / A.d3 % A.d2 = k := by
    rw [idx_div hl, idx_mod hk]
  simp only [T4.tab, hi, hj, hk, hl, and_self, if_true]
  simp [Array.getD, h3, e1, e2, e3, idx_mod hl]

/-! ## digit lists -/

/-- digit lists `s` with `s.length = ds.length` and `s[k] < ds[k]`. -/
def digits : List Nat → Finset (List Nat)
  | [] => {[]}
  | d :: ds => (Finset.range d ×ˢ digits ds).image (fun p => p.1 :: p.2)

@[simp] theorem digits_nil : digits [] = {[]} := rfl

theorem mem_digits_cons {d : Nat} {ds : List Nat} {s : List Nat} :
    s ∈ digits (d :: ds) ↔ ∃ x t, x < d ∧ t ∈ digits ds ∧ s = x :: t := by
  simp only [digits, Finset.mem_image, Finset.mem_product, Finset.mem_range, Prod.exists]
  constructor
  · rintro ⟨x, t, ⟨hx, ht⟩, rfl⟩; exact ⟨x, t, hx, ht, rfl⟩
  · rintro ⟨x, t, hx, ht, rfl⟩; exact ⟨x, t, ⟨hx, ht⟩, rfl⟩

theorem cons_mem_digits {d x : Nat} {ds t : List Nat} :
    x :: t ∈ digits (d :: ds) ↔ x < d ∧ t ∈ digits ds := by
  rw [mem_digits_cons]
  constructor
  · rintro ⟨x', t', hx, ht, h⟩
    cases h; exact ⟨hx, ht⟩
  · rintro ⟨hx, ht⟩; exact ⟨x, t, hx, ht, rfl⟩

theorem length_of_mem_digits {ds s : List Nat} (h : s ∈ digits ds) : s.length = ds.length := by
  induction ds generalizing s with
  | nil => simp at h; simp [h]
  | cons d ds ih =>
    obtain ⟨x, t, _, ht, rfl⟩ := mem_digits_cons.1 h
    simp [ih ht]

theorem sum_digits_cons {β : Type} [AddCommMonoid β] (d : Nat) (ds : List Nat) (f : List Nat → β) :
    ∑ s ∈ digits (d :: ds), f s = ∑ x ∈ Finset.range d, ∑ t ∈ digits ds, f (x :: t) := by
  rw [digits, Finset.sum_image, Finset.sum_product]
  rintro ⟨x, t⟩ _ ⟨y, u⟩ _ h
  simp only [List.cons.injEq] at h
  simp [h.1, h.2]

theorem sum_digits_nil {β : Type} [AddCommMonoid β] (f : List Nat → β) :
    ∑ s ∈ digits [], f s = f [] := by simp

theorem sum_digits_append {β : Type} [AddCommMonoid β] (ds es : List Nat) (f : List Nat → β) :
    ∑ s ∈ digits (ds ++ es), f s = ∑ s ∈ digits ds, ∑ t ∈ digits es, f (s ++ t) := by
  induction ds generalizing f with
  | nil => simp
  | cons d ds ih =>
    rw [List.cons_append, sum_digits_cons, sum_digits_cons]
    refine Finset.sum_congr rfl fun x _ => ?_
    rw [ih]
    rfl

/-- uniform site dimension `d`, `L` sites. -/
abbrev digitsU (d L : Nat) : Finset (List Nat) := digits (List.replicate L d)

theorem sum_digitsU_succ {β : Type} [AddCommMonoid β] (d L : Nat) (f : List Nat → β) :
    ∑ s ∈ digitsU d (L + 1), f s = ∑ x ∈ Finset.range d, ∑ t ∈ digitsU d L, f (x :: t) := by
  rw [digitsU, List.replicate_succ, sum_digits_cons]

end Ptn.Env

/-- `sum_pull S`: on an equation between nested finite sums, move the sum over `S` to the front on both sides
and remove it (`Finset.sum_congr`). -/
macro "sum_pull " S:term : tactic =>
  `(tactic| ((try simp only [Finset.sum_comm (t := $S)]); refine Finset.sum_congr rfl fun _ _ => ?_))

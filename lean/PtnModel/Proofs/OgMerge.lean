import PtnModel.Proofs.OgMergeNodes
/-!
# `merge_edges`: both cases together
-/
set_option linter.unusedSectionVars false
namespace Ptn.Og
open List Rw
variable {κ : Type} [CommRing κ] [DecidableEq κ]

/-- a successful `merge_edges` found both edges -/
theorem mergeEdges_lookups {g g' : Graph κ} {eid1 eid2 : Int} {d : Bool} (hr : g.mergeEdges eid1 eid2 d = .ok g') :
    ∃ edge1 edge2, dGet? g.edges eid1 = some edge1 ∧ dGet? g.edges eid2 = some edge2 := by
  unfold Graph.mergeEdges at hr
  simp only [bind_ok, Prod.exists, Graph.getEdge, dGet_eq_ok_iff] at hr
  obtain ⟨e1, he1, e2, g1, hrem, _⟩ := hr
  rw [removeEdge_ok] at hrem
  exact ⟨e1, e2, he1, hrem.1⟩

/-- **`merge_edges`**: on a structurally valid graph a successful merge of two different edges keeps structural
validity, the terminals and the denoted operator. -/
theorem mergeEdges_sem {g g' : Graph κ} (h : SValid g) {eid1 eid2 : Int} {d : Bool} (hne : eid1 ≠ eid2)
    (hr : g.mergeEdges eid1 eid2 d = .ok g') :
    SValid g' ∧ g'.nidTerminal = g.nidTerminal ∧ ∀ w : Word, g'.denF w = g.denF w := by
  obtain ⟨edge1, edge2, h1, h2⟩ := mergeEdges_lookups hr
  by_cases hpar : edge1.nid (!d) = edge2.nid (!d)
  · have hv := h.mergeEdges_par hr h1 h2 hpar hne
    obtain ⟨_, _, hterm, _, _⟩ := mergeEdges_par_spec h hr h1 h2 hpar hne
    exact ⟨hv, hterm, denF_of_denD h hv d hterm (fun w => denD_mergeEdges_par h hr h1 h2 hpar hne d w _)⟩
  · have hv := h.mergeEdges_nodes hr h1 h2 hpar
    obtain ⟨N1, N2, _, _, _, _, hnt1, hnt2, _, _, _, _, hterm, _, _, _⟩ := mergeEdges_nodes_spec h hr h1 h2 hpar
    refine ⟨hv, hterm, denF_of_denD h hv d hterm (fun w => denD_mergeEdges_nodes h hr h1 h2 hpar w _ ?_)⟩
    cases d
    · simp only [Bool.not_false, Graph.term, if_true]; exact fun hc => hnt2 hc.symm
    · simp only [Bool.not_true, Graph.term, Bool.false_eq_true, if_false]; exact fun hc => hnt1 hc.symm

end Ptn.Og

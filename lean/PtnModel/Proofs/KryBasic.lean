import Mathlib.Analysis.RCLike.Basic
import PtnModel.Proofs.MatBasic
import PtnModel.Proofs.KryShapes
/-!
# Krylov model over `RCLike 𝕜`: instances and the algebra of `vdot`

* scoped instances `HasConj 𝕜` (`starRingEnd`), `RealLike ℝ 𝕜` (`RCLike.ofReal`, `RCLike.re`);
* entries and lengths of `vadd`, `vsub`, `vscale`, `vdiv`;
* `vdot n` is a sesquilinear, conjugate symmetric form (conjugate linear in the *first* argument, as `np.vdot`)
  that only reads the first `n` entries, and `vdot n x x` is the sum of the squared moduli;
* `getD` of a list extended by one element.
-/
set_option linter.unusedSectionVars false

namespace Ptn.Krylov
open Finset

section generic
variable {α : Type} [OfNat α 0]

theorem vget_map_range (n : Nat) (g : Nat → α) (i : Nat) :
    vget ((List.range n).map g) i = if i < n then g i else 0 := by
  unfold vget
  by_cases h : i < n
  · simp [List.getD_eq_getElem?_getD, h]
  · simp [List.getD_eq_getElem?_getD, h]

variable [Add α] [Mul α] [Sub α]

@[simp] theorem length_vadd (n : Nat) (x y : List α) : (vadd n x y).length = n := by simp [vadd]
@[simp] theorem length_vsub (n : Nat) (x y : List α) : (vsub n x y).length = n := by simp [vsub]
@[simp] theorem length_vscale (n : Nat) (c : α) (x : List α) : (vscale n c x).length = n := by simp [vscale]
@[simp] theorem length_vdiv [Div α] (n : Nat) (x : List α) (c : α) : (vdiv n x c).length = n := by simp [vdiv]

theorem vget_vadd {n i : Nat} (h : i < n) (x y : List α) : vget (vadd n x y) i = vget x i + vget y i := by
  rw [vadd, vget_map_range, if_pos h]
theorem vget_vsub {n i : Nat} (h : i < n) (x y : List α) : vget (vsub n x y) i = vget x i - vget y i := by
  rw [vsub, vget_map_range, if_pos h]
theorem vget_vscale {n i : Nat} (h : i < n) (c : α) (x : List α) : vget (vscale n c x) i = c * vget x i := by
  rw [vscale, vget_map_range, if_pos h]
theorem vget_vdiv [Div α] {n i : Nat} (h : i < n) (x : List α) (c : α) : vget (vdiv n x c) i = vget x i / c := by
  rw [vdiv, vget_map_range, if_pos h]

end generic


variable {𝕜 : Type} [RCLike 𝕜]

/-- conjugation of the model is complex conjugation -/
noncomputable scoped instance instHasConjRCLike : HasConj 𝕜 := ⟨starRingEnd 𝕜⟩
/-- the reals of the model are `ℝ` -/
noncomputable scoped instance instRealLikeRCLike : RealLike ℝ 𝕜 := ⟨RCLike.ofReal, RCLike.re⟩

local notation "conj" => starRingEnd 𝕜

theorem hasConj_eq (z : 𝕜) : HasConj.conj z = conj z := rfl
theorem ofReal_eq (r : ℝ) : (RealLike.ofReal r : 𝕜) = (r : 𝕜) := rfl
theorem re_eq (z : 𝕜) : (RealLike.re z : ℝ) = RCLike.re z := rfl

theorem vdot_eq_sum (n : Nat) (x y : List 𝕜) :
    vdot n x y = ∑ i ∈ range n, conj (vget x i) * vget y i := by
  unfold vdot; rw [sumRange_eq_sum]; rfl

/-- `vdot n` only reads the first `n` entries -/
theorem vdot_congr {n : Nat} {x x' y y' : List 𝕜} (hx : ∀ i < n, vget x i = vget x' i)
    (hy : ∀ i < n, vget y i = vget y' i) : vdot n x y = vdot n x' y' := by
  rw [vdot_eq_sum, vdot_eq_sum]
  exact sum_congr rfl fun i hi => by rw [hx i (mem_range.1 hi), hy i (mem_range.1 hi)]

theorem vdot_conj (n : Nat) (x y : List 𝕜) : conj (vdot n x y) = vdot n y x := by
  rw [vdot_eq_sum, vdot_eq_sum, map_sum]
  exact sum_congr rfl fun i _ => by rw [map_mul, RingHomCompTriple.comp_apply, RingHom.id_apply, mul_comm]

theorem vdot_vadd_right (n : Nat) (x y z : List 𝕜) : vdot n x (vadd n y z) = vdot n x y + vdot n x z := by
  simp only [vdot_eq_sum, ← sum_add_distrib]
  exact sum_congr rfl fun i hi => by rw [vget_vadd (mem_range.1 hi), mul_add]

theorem vdot_vsub_right (n : Nat) (x y z : List 𝕜) : vdot n x (vsub n y z) = vdot n x y - vdot n x z := by
  simp only [vdot_eq_sum, ← sum_sub_distrib]
  exact sum_congr rfl fun i hi => by rw [vget_vsub (mem_range.1 hi), mul_sub]

theorem vdot_vscale_right (n : Nat) (x : List 𝕜) (c : 𝕜) (y : List 𝕜) : vdot n x (vscale n c y) = c * vdot n x y := by
  simp only [vdot_eq_sum, mul_sum]
  exact sum_congr rfl fun i hi => by rw [vget_vscale (mem_range.1 hi)]; ring

theorem vdot_vdiv_right (n : Nat) (x y : List 𝕜) (c : 𝕜) : vdot n x (vdiv n y c) = vdot n x y / c := by
  simp only [vdot_eq_sum, div_eq_mul_inv, sum_mul]
  exact sum_congr rfl fun i hi => by rw [vget_vdiv (mem_range.1 hi), div_eq_mul_inv, mul_assoc]

theorem vdot_vadd_left (n : Nat) (x y z : List 𝕜) : vdot n (vadd n y z) x = vdot n y x + vdot n z x := by
  rw [← vdot_conj, vdot_vadd_right, map_add, vdot_conj, vdot_conj]

theorem vdot_vsub_left (n : Nat) (x y z : List 𝕜) : vdot n (vsub n y z) x = vdot n y x - vdot n z x := by
  rw [← vdot_conj, vdot_vsub_right, map_sub, vdot_conj, vdot_conj]

theorem vdot_vscale_left (n : Nat) (x : List 𝕜) (c : 𝕜) (y : List 𝕜) :
    vdot n (vscale n c y) x = conj c * vdot n y x := by
  rw [← vdot_conj, vdot_vscale_right, map_mul, vdot_conj]

theorem vdot_vdiv_left (n : Nat) (x y : List 𝕜) (c : 𝕜) : vdot n (vdiv n y c) x = vdot n y x / conj c := by
  rw [← vdot_conj, vdot_vdiv_right, map_div₀, vdot_conj]

/-- sum of the squared moduli of the entries of a list -/
noncomputable def sqNorm (x : List 𝕜) : ℝ := (x.map fun z => ‖z‖ ^ 2).sum

theorem sqNorm_nonneg (x : List 𝕜) : 0 ≤ sqNorm x := by
  unfold sqNorm
  apply List.sum_nonneg
  intro r hr
  obtain ⟨z, _, rfl⟩ := List.mem_map.1 hr
  positivity

theorem sqNorm_eq_sum (x : List 𝕜) : sqNorm x = ∑ i ∈ range x.length, ‖vget x i‖ ^ 2 := by
  unfold sqNorm
  induction x using List.reverseRecOn with
  | nil => simp
  | append_singleton l a ih =>
    rw [List.map_append, List.sum_append, ih, List.length_append, List.length_singleton, sum_range_succ]
    congr 1
    · exact sum_congr rfl fun i hi => by
        unfold vget; rw [getD_snoc_lt _ _ _ (mem_range.1 hi)]
    · unfold vget; rw [getD_snoc_eq]; simp

theorem vdot_self (x : List 𝕜) : vdot x.length x x = ((sqNorm x : ℝ) : 𝕜) := by
  rw [vdot_eq_sum, sqNorm_eq_sum, RCLike.ofReal_sum]
  exact sum_congr rfl fun i _ => by rw [mul_comm, RCLike.mul_conj, RCLike.ofReal_pow]

theorem sqNorm_eq_zero_iff (x : List 𝕜) : sqNorm x = 0 ↔ ∀ z ∈ x, z = 0 := by
  unfold sqNorm
  induction x with
  | nil => simp
  | cons a l ih =>
    have h1 : 0 ≤ ‖a‖ ^ 2 := by positivity
    have h2 : 0 ≤ (l.map fun z => ‖z‖ ^ 2).sum := sqNorm_nonneg l
    rw [List.map_cons, List.sum_cons]
    constructor
    · intro h
      have ha : ‖a‖ ^ 2 = 0 := by linarith
      have hl : (l.map fun z => ‖z‖ ^ 2).sum = 0 := by linarith
      intro z hz
      rcases List.mem_cons.1 hz with rfl | hz
      · simpa using ha
      · exact ih.1 hl z hz
    · intro h
      have ha : a = 0 := h a (List.mem_cons_self)
      have hl := ih.2 fun z hz => h z (List.mem_cons_of_mem _ hz)
      rw [hl, ha]; simp

end Ptn.Krylov

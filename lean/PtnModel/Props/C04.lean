import PtnModel.Proofs.EnvTwo
/-!
# C04 — inner products, expectation values and environment blocks equal the dense quantities

Property text: *The MPS inner product and norm, the expectation value and general matrix element of an MPO
between MPS, and the trace of a product of two MPOs equal the corresponding dense quantities up to rounding,
with the first argument of the inner product conjugated.  The effective local Hamiltonian assembled from the
left and right environment blocks is the projection of the full operator: its matrix elements between site
tensors equal those of the dense operator between the corresponding full states, and it is Hermitian whenever
the MPO is.*

Model: `Ptn.Op.*` (`Model/Operation.lean`, mirror of `pytenet/operation.py`), over any commutative `StarRing`
`R` with `HasConj.conj := star` (`ℝ`, `ℚ`, `ℤ` with trivial star; `ℂ` with complex conjugation).  Exact
arithmetic: "up to rounding" is the passage from `R` to floating point and is not part of the statements.

Dense meaning (digit-indexed, no flat indices).  `Env.digitsU d L` is the finite set of digit lists
`s : List ℕ` of length `L` with all entries `< d`.  The dense vector of an MPS `ψ` is `s ↦ ψ.amp s`
(`MPS.amp`, `Model/MPS.lean`), the dense matrix of an MPO `o` is `(s, t) ↦ o.elem s t` (`MPO.elem`).

Theorems (each total: the model call returns `.ok`, i.e. the Python raises no exception):
(a) `vdot_dense`, `norm_sq_dense`; (b) `inner_dense`, `average_dense`; (c) `density_dense`;
(d) `right_blocks_dense`, `left_block_zero_dense`, `left_step_dense`, `right_block_zero_average`;
(e) `local_projection` (one-site), `bond_projection` (zero-site), `two_site_projection`, `merge_dense`
(`merge_dense_mps`, `merge_dense_mpo`); (f) `local_hermitian`, `bond_hermitian`, `two_site_hermitian`.

Shapes: `MPS.Shaped ψ d` — at least one site, every tensor has physical dimension `d`, neighbouring bond
dimensions agree, outer bond dimensions are `1`; `MPO.Shaped o d` likewise.  Bond profiles of different
operands are independent.
-/
namespace Ptn.C04
open Ptn.Env Finset

variable {R : Type} [CommRing R] [StarRing R]
attribute [local instance] starConj

/-! ## shapes -/

/-- `ψ` has `L ≥ 1` sites; `A[k]` has shape `(d, D_k, D_{k+1})` with `D_0 = D_L = 1`
(`Env.Chain3 ds As Dl Dr`: `As[k].d0 = ds[k]`, `As[0].d1 = Dl`, `As[k].d2 = As[k+1].d1`, last `d2 = Dr`). -/
def MPS.Shaped {α : Type} (ψ : MPS α) (d : Nat) : Prop :=
  ψ.A ≠ [] ∧ Chain3 (List.replicate ψ.A.length d) ψ.A 1 1

/-- `o` has `L ≥ 1` sites; `A[k]` has shape `(d, d, D_k, D_{k+1})` with `D_0 = D_L = 1`. -/
def MPO.Shaped {α : Type} (o : MPO α) (d : Nat) : Prop :=
  o.A ≠ [] ∧ Chain4 (List.replicate o.A.length d) o.A 1 1

instance {α : Type} (ψ : MPS α) (d : Nat) : Decidable (MPS.Shaped ψ d) := by unfold MPS.Shaped; infer_instance
instance {α : Type} (o : MPO α) (d : Nat) : Decidable (MPO.Shaped o d) := by unfold MPO.Shaped; infer_instance

/-! ## (a) inner product -/

/-- `vdot(chi, psi)` returns (no exception) the dense inner product `Σ_s conj(χ[s]) ψ[s]`, first argument
conjugated; bra and ket bond profiles are independent. -/
theorem vdot_dense {χ ψ : MPS R} {d : Nat} (hχ : MPS.Shaped χ d) (hψ : MPS.Shaped ψ d)
    (hL : χ.A.length = ψ.A.length) :
    Op.vdot χ ψ = .ok (∑ s ∈ digitsU d ψ.A.length, star (χ.amp s) * ψ.amp s) := by
  have h1 := hχ.2
  rw [hL] at h1
  refine vdot_chain h1 hψ.2 ?_
  intro h
  have := congrArg List.length h
  simp only [List.length_replicate, List.length_nil] at this
  exact hψ.1 (List.length_eq_zero_iff.1 this)

/-- `norm(psi) = sqrt(vdot(psi, psi).real)`: the radicand is the dense squared norm `Σ_s conj(ψ[s]) ψ[s]`
(the floating-point `sqrt` and `.real` are outside the model). -/
theorem norm_sq_dense {ψ : MPS R} {d : Nat} (hψ : MPS.Shaped ψ d) :
    Op.vdot ψ ψ = .ok (∑ s ∈ digitsU d ψ.A.length, star (ψ.amp s) * ψ.amp s) :=
  vdot_dense hψ hψ rfl

/-! ### non-vacuity -/

/-- `χ₀ = (1,2) ⊗ (1,1) + (0,1) ⊗ (1,-1)` as an MPS with bond dimension 2 -/
def χ₀ : MPS ℤ := ⟨[0, 0], [[0], [0, 0], [0]],
  [⟨2, 1, 2, fun s _ b => if b = 0 then (if s = 0 then 1 else 2) else (if s = 0 then 0 else 1)⟩,
   ⟨2, 2, 1, fun s a _ => if a = 0 then 1 else (if s = 0 then 1 else -1)⟩]⟩

/-- product state `ψ₀ = (1,3) ⊗ (2,1)` (bond dimension 1) -/
def ψ₀ : MPS ℤ := ⟨[0, 0], [[0], [0], [0]],
  [⟨2, 1, 1, fun s _ _ => if s = 0 then 1 else 3⟩, ⟨2, 1, 1, fun s _ _ => if s = 0 then 2 else 1⟩]⟩

example : MPS.Shaped χ₀ 2 := by decide
example : MPS.Shaped ψ₀ 2 := by decide

/-- hypotheses of `vdot_dense` are satisfiable with different bra/ket bond profiles; `⟨χ₀|ψ₀⟩ = 24` -/
example : Op.vdot χ₀ ψ₀ = .ok 24 := by
  rw [vdot_dense (χ := χ₀) (ψ := ψ₀) (d := 2) (by decide) (by decide) rfl]
  decide

/-! ## (b) matrix elements and expectation values of an MPO -/

/-- `operator_inner_product(chi, op, psi)` returns (no exception) the dense matrix element
`Σ_{s,t} conj(χ[s]) · op[s,t] · ψ[t]`; the bond profiles of `χ`, `op`, `ψ` are independent. -/
theorem inner_dense {χ ψ : MPS R} {o : MPO R} {d : Nat} (hχ : MPS.Shaped χ d) (ho : MPO.Shaped o d)
    (hψ : MPS.Shaped ψ d) (hL : χ.A.length = o.A.length) (hL' : ψ.A.length = o.A.length) :
    Op.operatorInnerProduct χ o ψ
      = .ok (∑ s ∈ digitsU d o.A.length, ∑ t ∈ digitsU d o.A.length, star (χ.amp s) * o.elem s t * ψ.amp t) := by
  have h1 := hχ.2
  have h2 := hψ.2
  rw [hL] at h1
  rw [hL'] at h2
  refine inner_chain h1 h2 ho.2 ?_
  intro h
  have := congrArg List.length h
  simp only [List.length_replicate, List.length_nil] at this
  exact ho.1 (List.length_eq_zero_iff.1 this)

/-- `operator_average(psi, op)` returns (no exception) the dense expectation value
`Σ_{s,t} conj(ψ[s]) · op[s,t] · ψ[t]`. -/
theorem average_dense {ψ : MPS R} {o : MPO R} {d : Nat} (hψ : MPS.Shaped ψ d) (ho : MPO.Shaped o d)
    (hL : ψ.A.length = o.A.length) :
    Op.operatorAverage ψ o
      = .ok (∑ s ∈ digitsU d o.A.length, ∑ t ∈ digitsU d o.A.length, star (ψ.amp s) * o.elem s t * ψ.amp t) := by
  have h2 := hψ.2
  rw [hL] at h2
  refine average_chain h2 ho.2 ?_
  intro h
  have := congrArg List.length h
  simp only [List.length_replicate, List.length_nil] at this
  exact ho.1 (List.length_eq_zero_iff.1 this)

/-! ## (c) trace of a product of two MPOs -/

/-- `operator_density_average(rho, op)` returns (no exception) `tr(op · rho) = Σ_{s,t} op[t,s] · rho[s,t]`. -/
theorem density_dense {rho o : MPO R} {d : Nat} (hr : MPO.Shaped rho d) (ho : MPO.Shaped o d)
    (hL : rho.A.length = o.A.length) :
    Op.operatorDensityAverage rho o
      = .ok (∑ s ∈ digitsU d o.A.length, ∑ t ∈ digitsU d o.A.length, o.elem t s * rho.elem s t) := by
  have h1 := hr.2
  rw [hL] at h1
  refine density_chain h1 ho.2 ?_
  intro h
  have := congrArg List.length h
  simp only [List.length_replicate, List.length_nil] at this
  exact ho.1 (List.length_eq_zero_iff.1 this)

/-! ### non-vacuity -/

/-- `o₀ = Z ⊗ 1 + 1 ⊗ 2X` with bond dimension 2 -/
def o₀ : MPO ℤ := ⟨[0, 0], [[0], [0, 0], [0]],
  [⟨2, 2, 1, 2, fun s t _ b =>
      if b = 0 then (if s = t then (if s = 0 then 1 else -1) else 0) else (if s = t then 1 else 0)⟩,
   ⟨2, 2, 2, 1, fun s t a _ => if a = 0 then (if s = t then 1 else 0) else (if s = t then 0 else 2)⟩]⟩

/-- `ρ₀ = diag(1,2) ⊗ [[1,1],[0,3]]` with bond dimension 1 -/
def ρ₀ : MPO ℤ := ⟨[0, 0], [[0], [0], [0]],
  [⟨2, 2, 1, 1, fun s t _ _ => if s = t then (if s = 0 then 1 else 2) else 0⟩,
   ⟨2, 2, 1, 1, fun s t _ _ => if s = 0 then 1 else (if t = 0 then 0 else 3)⟩]⟩

example : MPO.Shaped o₀ 2 := by decide
example : MPO.Shaped ρ₀ 2 := by decide

/-- `⟨χ₀| o₀ |ψ₀⟩ = 18` (three different bond profiles) -/
example : Op.operatorInnerProduct χ₀ o₀ ψ₀ = .ok 18 := by
  rw [inner_dense (χ := χ₀) (o := o₀) (ψ := ψ₀) (d := 2) (by decide) (by decide) (by decide) rfl rfl]
  decide

/-- `⟨χ₀| o₀ |χ₀⟩ = 8` -/
example : Op.operatorAverage χ₀ o₀ = .ok 8 := by
  rw [average_dense (ψ := χ₀) (o := o₀) (d := 2) (by decide) (by decide) rfl]
  decide

/-- `tr(o₀ ρ₀) = 2` -/
example : Op.operatorDensityAverage ρ₀ o₀ = .ok 2 := by
  rw [density_dense (rho := ρ₀) (o := o₀) (d := 2) (by decide) (by decide) rfl]
  decide

/-! ## (d) environment blocks

Vocabulary (`Proofs/EnvDense.lean`, all written with the model's `MPS.ampRow` / `MPO.elemRow`):
`mpsBond ψ k`, `mpoBond o k` — bond dimensions `D_k`, `Dw_k` left of site `k`;
`IsLeftBlock ψ o d k E` — `E` has shape `(D_k, Dw_k, D_k)` and
`E[a,w,a'] = Σ_{σ,τ ∈ digitsU d k} ampPrefix ψ k τ a · elemPrefix o k σ τ w · conj (ampPrefix ψ k σ a')`
(partial contraction of the sites `0 … k-1`);
`IsRightBlock ψ o d k E` — the same with `ampSuffix`, `elemSuffix` over `digitsU d (L-k)`
(partial contraction of the sites `k … L-1`). -/

/-- `compute_right_operator_blocks(psi, op)` returns (no exception) a list `BR` of `L` blocks and `BR[i]` is the
partial contraction of the sites `i+1 … L-1` (bra = ket = `psi`). -/
theorem right_blocks_dense {ψ : MPS R} {o : MPO R} {d : Nat} (hψ : MPS.Shaped ψ d) (ho : MPO.Shaped o d)
    (hL : ψ.A.length = o.A.length) :
    ∃ BR, Op.rightBlocks ψ o = .ok BR ∧ BR.length = ψ.A.length ∧
      ∀ i, i < ψ.A.length → ∃ E, BR[i]? = some E ∧ IsRightBlock ψ o d (i + 1) E :=
  right_blocks_core hψ.2 (hL ▸ ho.2) hψ.1

/-- the initial left block `[[[1]]]` is the (empty) partial contraction of the sites left of site `0`. -/
theorem left_block_zero_dense {ψ : MPS R} {o : MPO R} {d : Nat} (hψ : MPS.Shaped ψ d) (ho : MPO.Shaped o d)
    (hL : ψ.A.length = o.A.length) : IsLeftBlock ψ o d 0 (MPS.ones111 : T3 R) :=
  left_block_zero hψ.2 (hL ▸ ho.2) rfl rfl rfl rfl

/-- `contraction_operator_step_left(A[i], A[i], W[i], BL[i])` raises no exception and turns the partial
contraction of the sites `0 … i-1` into the partial contraction of the sites `0 … i`. -/
theorem left_step_dense {ψ : MPS R} {o : MPO R} {d : Nat} (hψ : MPS.Shaped ψ d) (ho : MPO.Shaped o d)
    (hL : ψ.A.length = o.A.length) {i : Nat} (hi : i < ψ.A.length) {A : T3 R} {W : T4 R}
    (hA : ψ.A[i]? = some A) (hW : o.A[i]? = some W) {E : T3 R} (hE : IsLeftBlock ψ o d i E) :
    ∃ T, Op.opStepLeft A A W E = .ok T ∧ IsLeftBlock ψ o d (i + 1) T :=
  left_step_core hψ.2 (hL ▸ ho.2) hi hA hW hE

/-- consistency of the block vocabulary with (b): the partial contraction of *all* sites is the expectation value. -/
theorem right_block_zero_average {ψ : MPS R} {o : MPO R} {d : Nat} {E : T3 R} (hE : IsRightBlock ψ o d 0 E) :
    E.f 0 0 0 = ∑ s ∈ digitsU d ψ.A.length, ∑ t ∈ digitsU d ψ.A.length, star (ψ.amp s) * o.elem s t * ψ.amp t := by
  rw [hE.2.2.2 0 0 0 (by simp [mpsBond]) (by simp [mpoBond]) (by simp [mpsBond])]
  refine Finset.sum_congr rfl fun s _ => Finset.sum_congr rfl fun t _ => ?_
  simp only [ampSuffix, elemSuffix, List.drop_zero, MPS.amp, MPO.elem]
  ring

/-! ## (e) the effective local operators are projections of the full operator -/

/-- One-site map.  `Lb`, `Rb` are the partial contractions left and right of site `i`, `W = op.A[i]`, and `A`, `B`
are arbitrary site tensors of the shape `(d, D_i, D_{i+1})` of `psi.A[i]`.  Then
`apply_local_hamiltonian(Lb, Rb, W, A)` raises no exception, has that shape, and
`⟨B, H_eff A⟩ = Σ_{s,a,b} conj(B[s,a,b]) (H_eff A)[s,a,b]` equals the matrix element of the dense operator between
the full states obtained from `psi` by replacing the tensor of site `i` by `B` resp. `A`. -/
theorem local_projection {ψ : MPS R} {o : MPO R} {d : Nat} (hψ : MPS.Shaped ψ d) (ho : MPO.Shaped o d)
    (hL : ψ.A.length = o.A.length) {i : Nat} (hi : i < ψ.A.length) {W : T4 R} (hW : o.A[i]? = some W)
    {A B : T3 R} (hA0 : A.d0 = d) (hA1 : A.d1 = mpsBond ψ i) (hA2 : A.d2 = mpsBond ψ (i + 1))
    (hB0 : B.d0 = d) (hB1 : B.d1 = mpsBond ψ i) (hB2 : B.d2 = mpsBond ψ (i + 1))
    {Lb Rb : T3 R} (hLb : IsLeftBlock ψ o d i Lb) (hRb : IsRightBlock ψ o d (i + 1) Rb) :
    ∃ T, Op.applyLocalHamiltonian Lb Rb W A = .ok T ∧ T.d0 = d ∧ T.d1 = mpsBond ψ i ∧ T.d2 = mpsBond ψ (i + 1) ∧
      ∑ s ∈ range d, ∑ a ∈ range (mpsBond ψ i), ∑ b ∈ range (mpsBond ψ (i + 1)), star (B.f s a b) * T.f s a b
      = ∑ s ∈ digitsU d ψ.A.length, ∑ t ∈ digitsU d ψ.A.length,
          star ((ψ.setSite i B).amp s) * o.elem s t * (ψ.setSite i A).amp t :=
  local_projection_core hψ.2 (hL ▸ ho.2) hi hW hA0 hA1 hA2 hB0 hB1 hB2 hLb hRb

/-- Zero-site (bond) map.  `Lb`, `Rb` are the partial contractions of the sites `0 … k-1` and `k … L-1`, and `C`,
`C'` are arbitrary `D_k × D_k` matrices.  Then `apply_local_bond_contraction(Lb, Rb, C)` raises no exception and
`⟨C', K_eff C⟩` equals the matrix element of the dense operator between the full states obtained from `psi` by
inserting `C'` resp. `C` on bond `k` (`ampBond`; `ampBond_ident`: inserting the identity gives `psi`). -/
theorem bond_projection {ψ : MPS R} {o : MPO R} {d : Nat} (hψ : MPS.Shaped ψ d) (ho : MPO.Shaped o d)
    (hL : ψ.A.length = o.A.length) {k : Nat} (hk : k ≤ ψ.A.length) {C C' : Mat R}
    (hC0 : C.m = mpsBond ψ k) (hC1 : C.n = mpsBond ψ k) (hC0' : C'.m = mpsBond ψ k) (hC1' : C'.n = mpsBond ψ k)
    {Lb Rb : T3 R} (hLb : IsLeftBlock ψ o d k Lb) (hRb : IsRightBlock ψ o d k Rb) :
    ∃ T, Op.applyLocalBondContraction Lb Rb C = .ok T ∧ T.m = mpsBond ψ k ∧ T.n = mpsBond ψ k ∧
      ∑ a ∈ range (mpsBond ψ k), ∑ b ∈ range (mpsBond ψ k), star (C'.f a b) * T.f a b
      = ∑ s ∈ digitsU d ψ.A.length, ∑ t ∈ digitsU d ψ.A.length,
          star (ampBond ψ k C' s) * o.elem s t * ampBond ψ k C t :=
  bond_projection_core hψ.2 (hL ▸ ho.2) hk hC0 hC1 hC0' hC1' hLb hRb

/-! ## (f) Hermiticity -/

/-- the dense matrix of `o` is Hermitian -/
def MPO.DenseHermitian (o : MPO R) (d : Nat) : Prop :=
  ∀ s ∈ digitsU d o.A.length, ∀ t ∈ digitsU d o.A.length, o.elem s t = star (o.elem t s)

/-- If the dense operator is Hermitian, so is the one-site effective Hamiltonian:
`⟨B, H_eff A⟩ = conj ⟨A, H_eff B⟩` for all site tensors `A`, `B`. -/
theorem local_hermitian {ψ : MPS R} {o : MPO R} {d : Nat} (hψ : MPS.Shaped ψ d) (ho : MPO.Shaped o d)
    (hL : ψ.A.length = o.A.length) (hH : MPO.DenseHermitian o d)
    {i : Nat} (hi : i < ψ.A.length) {W : T4 R} (hW : o.A[i]? = some W)
    {A B : T3 R} (hA0 : A.d0 = d) (hA1 : A.d1 = mpsBond ψ i) (hA2 : A.d2 = mpsBond ψ (i + 1))
    (hB0 : B.d0 = d) (hB1 : B.d1 = mpsBond ψ i) (hB2 : B.d2 = mpsBond ψ (i + 1))
    {Lb Rb : T3 R} (hLb : IsLeftBlock ψ o d i Lb) (hRb : IsRightBlock ψ o d (i + 1) Rb) :
    ∃ TA TB, Op.applyLocalHamiltonian Lb Rb W A = .ok TA ∧ Op.applyLocalHamiltonian Lb Rb W B = .ok TB ∧
      ∑ s ∈ range d, ∑ a ∈ range (mpsBond ψ i), ∑ b ∈ range (mpsBond ψ (i + 1)), star (B.f s a b) * TA.f s a b
      = star (∑ s ∈ range d, ∑ a ∈ range (mpsBond ψ i), ∑ b ∈ range (mpsBond ψ (i + 1)),
          star (A.f s a b) * TB.f s a b) := by
  obtain ⟨TA, hTA, _, _, _, eA⟩ := local_projection hψ ho hL hi hW hA0 hA1 hA2 hB0 hB1 hB2 hLb hRb
  obtain ⟨TB, hTB, _, _, _, eB⟩ := local_projection hψ ho hL hi hW hB0 hB1 hB2 hA0 hA1 hA2 hLb hRb
  refine ⟨TA, TB, hTA, hTB, ?_⟩
  rw [eA, eB]
  exact herm_sum _ _ _ _ (by rw [hL]; exact hH)

/-- If the dense operator is Hermitian, so is the zero-site effective operator. -/
theorem bond_hermitian {ψ : MPS R} {o : MPO R} {d : Nat} (hψ : MPS.Shaped ψ d) (ho : MPO.Shaped o d)
    (hL : ψ.A.length = o.A.length) (hH : MPO.DenseHermitian o d) {k : Nat} (hk : k ≤ ψ.A.length) {C C' : Mat R}
    (hC0 : C.m = mpsBond ψ k) (hC1 : C.n = mpsBond ψ k) (hC0' : C'.m = mpsBond ψ k) (hC1' : C'.n = mpsBond ψ k)
    {Lb Rb : T3 R} (hLb : IsLeftBlock ψ o d k Lb) (hRb : IsRightBlock ψ o d k Rb) :
    ∃ T T', Op.applyLocalBondContraction Lb Rb C = .ok T ∧ Op.applyLocalBondContraction Lb Rb C' = .ok T' ∧
      ∑ a ∈ range (mpsBond ψ k), ∑ b ∈ range (mpsBond ψ k), star (C'.f a b) * T.f a b
      = star (∑ a ∈ range (mpsBond ψ k), ∑ b ∈ range (mpsBond ψ k), star (C.f a b) * T'.f a b) := by
  obtain ⟨T, hT, _, _, e⟩ := bond_projection hψ ho hL hk hC0 hC1 hC0' hC1' hLb hRb
  obtain ⟨T', hT', _, _, e'⟩ := bond_projection hψ ho hL hk hC0' hC1' hC0 hC1 hLb hRb
  refine ⟨T, T', hT, hT', ?_⟩
  rw [e, e']
  exact herm_sum _ _ _ _ (by rw [hL]; exact hH)

/-! ## two-site local operator (`merge_mps_tensor_pair`, `merge_mpo_tensor_pair`)

`ampTwo ψ d i A2 s` (`Proofs/EnvTwo.lean`) is the dense vector of `ψ` with the tensors of the sites `i, i+1`
replaced by the two-site tensor `A2` of shape `(d·d, D_i, D_{i+2})`, physical pair index `s_i · d + s_{i+1}`;
`elemTwo o d i W2 s t` the same for an MPO. -/

/-- merging two neighbouring MPS tensors preserves the amplitudes -/
theorem merge_dense_mps {ψ : MPS R} {d : Nat} (hψ : MPS.Shaped ψ d) {i : Nat} (hi : i + 1 < ψ.A.length)
    {A0 A1 : T3 R} (hA0 : ψ.A[i]? = some A0) (hA1 : ψ.A[i + 1]? = some A1) {s : List Nat}
    (hs : s ∈ digitsU d ψ.A.length) :
    ampTwo ψ d i (MPS.mergePair A0 A1) s = ψ.amp s :=
  ampTwo_merge hψ.2 hi hA0 hA1 hs

/-- merging two neighbouring MPO tensors preserves the matrix elements -/
theorem merge_dense_mpo {o : MPO R} {d : Nat} (ho : MPO.Shaped o d) {i : Nat} (hi : i + 1 < o.A.length)
    {W0 W1 : T4 R} (hW0 : o.A[i]? = some W0) (hW1 : o.A[i + 1]? = some W1) {s t : List Nat}
    (hs : s ∈ digitsU d o.A.length) (ht : t ∈ digitsU d o.A.length) :
    elemTwo o d i (MPO.mergePair W0 W1) s t = o.elem s t :=
  elemTwo_merge_len ho.2 hi hW0 hW1 hs ht

/-- `merge_dense`: merging two neighbouring tensors preserves `amp` / `elem`. -/
theorem merge_dense {ψ : MPS R} {o : MPO R} {d : Nat} (hψ : MPS.Shaped ψ d) (ho : MPO.Shaped o d)
    (hL : ψ.A.length = o.A.length) {i : Nat} (hi : i + 1 < ψ.A.length) {A0 A1 : T3 R} {W0 W1 : T4 R}
    (hA0 : ψ.A[i]? = some A0) (hA1 : ψ.A[i + 1]? = some A1) (hW0 : o.A[i]? = some W0) (hW1 : o.A[i + 1]? = some W1)
    {s t : List Nat} (hs : s ∈ digitsU d ψ.A.length) (ht : t ∈ digitsU d ψ.A.length) :
    ampTwo ψ d i (MPS.mergePair A0 A1) s = ψ.amp s ∧ elemTwo o d i (MPO.mergePair W0 W1) s t = o.elem s t :=
  ⟨merge_dense_mps hψ hi hA0 hA1 hs, merge_dense_mpo ho (hL ▸ hi) hW0 hW1 (hL ▸ hs) (hL ▸ ht)⟩

/-- Two-site map.  `Lb`, `Rb` are the partial contractions of the sites `0 … i-1` and `i+2 … L-1`,
`W2 = merge_mpo_tensor_pair(op.A[i], op.A[i+1])`, and `A2`, `B2` are arbitrary two-site tensors of shape
`(d·d, D_i, D_{i+2})`.  Then `apply_local_hamiltonian(Lb, Rb, W2, A2)` raises no exception and `⟨B2, H_eff A2⟩`
equals the matrix element of the dense operator between the full states obtained from `psi` by replacing the
tensors of the sites `i, i+1` by `B2` resp. `A2`. -/
theorem two_site_projection {ψ : MPS R} {o : MPO R} {d : Nat} (hψ : MPS.Shaped ψ d) (ho : MPO.Shaped o d)
    (hL : ψ.A.length = o.A.length) {i : Nat} (hi : i + 1 < ψ.A.length) {W0 W1 : T4 R}
    (hW0 : o.A[i]? = some W0) (hW1 : o.A[i + 1]? = some W1) {A2 B2 : T3 R}
    (hA0 : A2.d0 = d * d) (hA1 : A2.d1 = mpsBond ψ i) (hA2 : A2.d2 = mpsBond ψ (i + 2))
    (hB0 : B2.d0 = d * d) (hB1 : B2.d1 = mpsBond ψ i) (hB2 : B2.d2 = mpsBond ψ (i + 2))
    {Lb Rb : T3 R} (hLb : IsLeftBlock ψ o d i Lb) (hRb : IsRightBlock ψ o d (i + 2) Rb) :
    ∃ T, Op.applyLocalHamiltonian Lb Rb (MPO.mergePair W0 W1) A2 = .ok T ∧ T.d0 = d * d ∧
      T.d1 = mpsBond ψ i ∧ T.d2 = mpsBond ψ (i + 2) ∧
      ∑ s ∈ range (d * d), ∑ a ∈ range (mpsBond ψ i), ∑ b ∈ range (mpsBond ψ (i + 2)), star (B2.f s a b) * T.f s a b
      = ∑ s ∈ digitsU d ψ.A.length, ∑ t ∈ digitsU d ψ.A.length,
          star (ampTwo ψ d i B2 s) * o.elem s t * ampTwo ψ d i A2 t :=
  two_site_core hψ.2 (hL ▸ ho.2) hi hW0 hW1 hA0 hA1 hA2 hB0 hB1 hB2 hLb hRb

/-- If the dense operator is Hermitian, so is the two-site effective Hamiltonian. -/
theorem two_site_hermitian {ψ : MPS R} {o : MPO R} {d : Nat} (hψ : MPS.Shaped ψ d) (ho : MPO.Shaped o d)
    (hL : ψ.A.length = o.A.length) (hH : MPO.DenseHermitian o d) {i : Nat} (hi : i + 1 < ψ.A.length)
    {W0 W1 : T4 R} (hW0 : o.A[i]? = some W0) (hW1 : o.A[i + 1]? = some W1) {A2 B2 : T3 R}
    (hA0 : A2.d0 = d * d) (hA1 : A2.d1 = mpsBond ψ i) (hA2 : A2.d2 = mpsBond ψ (i + 2))
    (hB0 : B2.d0 = d * d) (hB1 : B2.d1 = mpsBond ψ i) (hB2 : B2.d2 = mpsBond ψ (i + 2))
    {Lb Rb : T3 R} (hLb : IsLeftBlock ψ o d i Lb) (hRb : IsRightBlock ψ o d (i + 2) Rb) :
    ∃ TA TB, Op.applyLocalHamiltonian Lb Rb (MPO.mergePair W0 W1) A2 = .ok TA ∧
      Op.applyLocalHamiltonian Lb Rb (MPO.mergePair W0 W1) B2 = .ok TB ∧
      ∑ s ∈ range (d * d), ∑ a ∈ range (mpsBond ψ i), ∑ b ∈ range (mpsBond ψ (i + 2)), star (B2.f s a b) * TA.f s a b
      = star (∑ s ∈ range (d * d), ∑ a ∈ range (mpsBond ψ i), ∑ b ∈ range (mpsBond ψ (i + 2)),
          star (A2.f s a b) * TB.f s a b) := by
  obtain ⟨TA, hTA, _, _, _, eA⟩ := two_site_projection hψ ho hL hi hW0 hW1 hA0 hA1 hA2 hB0 hB1 hB2 hLb hRb
  obtain ⟨TB, hTB, _, _, _, eB⟩ := two_site_projection hψ ho hL hi hW0 hW1 hB0 hB1 hB2 hA0 hA1 hA2 hLb hRb
  refine ⟨TA, TB, hTA, hTB, ?_⟩
  rw [eA, eB]
  exact herm_sum _ _ _ _ (by rw [hL]; exact hH)

/-! ### non-vacuity of (d), (e), (f) on `χ₀` (bond dimension 2) and `o₀` (bond dimension 2) -/

example : ∃ BR, Op.rightBlocks χ₀ o₀ = .ok BR ∧ BR.length = 2 := by
  obtain ⟨BR, h, hl, _⟩ := right_blocks_dense (ψ := χ₀) (o := o₀) (d := 2) (by decide) (by decide) rfl
  exact ⟨BR, h, hl⟩

/-- data satisfying all hypotheses of `left_step_dense`, `local_projection`, `local_hermitian` at site `0` -/
example : ∃ (Lb Rb : T3 ℤ) (W : T4 ℤ) (A : T3 ℤ), χ₀.A[0]? = some A ∧ o₀.A[0]? = some W ∧ A.d0 = 2 ∧
    A.d1 = mpsBond χ₀ 0 ∧ A.d2 = mpsBond χ₀ 1 ∧ IsLeftBlock χ₀ o₀ 2 0 Lb ∧ IsRightBlock χ₀ o₀ 2 1 Rb := by
  obtain ⟨BR, _, _, h⟩ := right_blocks_dense (ψ := χ₀) (o := o₀) (d := 2) (by decide) (by decide) rfl
  obtain ⟨E, _, hE⟩ := h 0 (by decide)
  exact ⟨MPS.ones111, E, _, _, rfl, rfl, rfl, rfl, rfl,
    left_block_zero_dense (ψ := χ₀) (o := o₀) (d := 2) (by decide) (by decide) rfl, hE⟩

/-- data satisfying all hypotheses of `bond_projection`, `bond_hermitian` on the inner bond `k = 1` -/
example : ∃ (Lb Rb : T3 ℤ) (C : Mat ℤ), C.m = mpsBond χ₀ 1 ∧ C.n = mpsBond χ₀ 1 ∧
    IsLeftBlock χ₀ o₀ 2 1 Lb ∧ IsRightBlock χ₀ o₀ 2 1 Rb := by
  obtain ⟨BR, _, _, h⟩ := right_blocks_dense (ψ := χ₀) (o := o₀) (d := 2) (by decide) (by decide) rfl
  obtain ⟨E, _, hE⟩ := h 0 (by decide)
  obtain ⟨T, _, hT⟩ := left_step_dense (ψ := χ₀) (o := o₀) (d := 2) (by decide) (by decide) rfl (i := 0)
    (by decide) rfl rfl (left_block_zero_dense (ψ := χ₀) (o := o₀) (d := 2) (by decide) (by decide) rfl)
  exact ⟨T, E, Op.identMat 2, rfl, rfl, hT, hE⟩

/-- `o₀ = Z ⊗ 1 + 1 ⊗ 2X` is Hermitian as a dense matrix -/
example : MPO.DenseHermitian o₀ 2 := by
  unfold MPO.DenseHermitian
  decide

/-- data satisfying all hypotheses of `merge_dense_*`, `two_site_projection`, `two_site_hermitian` at `i = 0` -/
example : ∃ (Lb Rb : T3 ℤ) (W0 W1 : T4 ℤ) (A0 A1 : T3 ℤ), χ₀.A[0]? = some A0 ∧ χ₀.A[1]? = some A1 ∧
    o₀.A[0]? = some W0 ∧ o₀.A[1]? = some W1 ∧ (MPS.mergePair A0 A1).d0 = 2 * 2 ∧
    (MPS.mergePair A0 A1).d1 = mpsBond χ₀ 0 ∧ (MPS.mergePair A0 A1).d2 = mpsBond χ₀ 2 ∧
    IsLeftBlock χ₀ o₀ 2 0 Lb ∧ IsRightBlock χ₀ o₀ 2 2 Rb := by
  obtain ⟨BR, _, _, h⟩ := right_blocks_dense (ψ := χ₀) (o := o₀) (d := 2) (by decide) (by decide) rfl
  obtain ⟨E, _, hE⟩ := h 1 (by decide)
  exact ⟨MPS.ones111, E, _, _, _, _, rfl, rfl, rfl, rfl, rfl, rfl, rfl,
    left_block_zero_dense (ψ := χ₀) (o := o₀) (d := 2) (by decide) (by decide) rfl, hE⟩

end Ptn.C04

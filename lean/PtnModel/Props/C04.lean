import PtnModel.Proofs.EnvFold
/-!
# C04 — inner products, expectation values and environment blocks equal the dense quantities

Property text: *The MPS inner product and norm, the expectation value and general matrix element of an MPO
between MPS, and the trace of a product of two MPOs equal the corresponding dense quantities up to rounding,
with the first argument of the inner product conjugated.  The effective local Hamiltonian assembled from the
left and right environment blocks is the projection of the full operator: its matrix elements between site
tensors equal those of the dense operator between the corresponding full states, and it is Hermitian whenever
the MPO is.*

Model: `Ptn.Op.*` (`Model/Operation.lean`, mirror of `pytenet/operation.py`), over any commutative `StarRing`
`R` with `HasConj.conj := star` (`ℝ`, `ℚ`, `ℤ` with trivial star; `ℂ` with complex conjugation).  Exact
arithmetic: "up to rounding" is the passage from `R` to floating point and is not part of the statements.

Dense meaning (digit-indexed, no flat indices).  `Env.digitsU d L` is the finite set of digit lists
`s : List ℕ` of length `L` with all entries `< d`.  The dense vector of an MPS `ψ` is `s ↦ ψ.amp s`
(`MPS.amp`, `Model/MPS.lean`), the dense matrix of an MPO `o` is `(s, t) ↦ o.elem s t` (`MPO.elem`).

Shapes: `MPS.Shaped ψ d` — at least one site, every tensor has physical dimension `d`, neighbouring bond
dimensions agree, outer bond dimensions are `1`; `MPO.Shaped o d` likewise.  Bond profiles of different
operands are independent.
-/
namespace Ptn.C04
open Ptn.Env Finset

variable {R : Type} [CommRing R] [StarRing R]
attribute [local instance] starConj

/-! ## shapes -/

/-- `ψ` has `L ≥ 1` sites; `A[k]` has shape `(d, D_k, D_{k+1})` with `D_0 = D_L = 1`
(`Env.Chain3 ds As Dl Dr`: `As[k].d0 = ds[k]`, `As[0].d1 = Dl`, `As[k].d2 = As[k+1].d1`, last `d2 = Dr`). -/
def MPS.Shaped {α : Type} (ψ : MPS α) (d : Nat) : Prop :=
  ψ.A ≠ [] ∧ Chain3 (List.replicate ψ.A.length d) ψ.A 1 1

/-- `o` has `L ≥ 1` sites; `A[k]` has shape `(d, d, D_k, D_{k+1})` with `D_0 = D_L = 1`. -/
def MPO.Shaped {α : Type} (o : MPO α) (d : Nat) : Prop :=
  o.A ≠ [] ∧ Chain4 (List.replicate o.A.length d) o.A 1 1

instance {α : Type} (ψ : MPS α) (d : Nat) : Decidable (MPS.Shaped ψ d) := by unfold MPS.Shaped; infer_instance
instance {α : Type} (o : MPO α) (d : Nat) : Decidable (MPO.Shaped o d) := by unfold MPO.Shaped; infer_instance

/-! ## (a) inner product -/

/-- `vdot(chi, psi)` returns (no exception) the dense inner product `Σ_s conj(χ[s]) ψ[s]`, first argument
conjugated; bra and ket bond profiles are independent. -/
theorem vdot_dense {χ ψ : MPS R} {d : Nat} (hχ : MPS.Shaped χ d) (hψ : MPS.Shaped ψ d)
    (hL : χ.A.length = ψ.A.length) :
    Op.vdot χ ψ = .ok (∑ s ∈ digitsU d ψ.A.length, star (χ.amp s) * ψ.amp s) := by
  have h1 := hχ.2
  rw [hL] at h1
  refine vdot_chain h1 hψ.2 ?_
  intro h
  have := congrArg List.length h
  simp only [List.length_replicate, List.length_nil] at this
  exact hψ.1 (List.length_eq_zero_iff.1 this)

/-! ### non-vacuity -/

/-- `χ₀ = (1,2) ⊗ (1,1) + (0,1) ⊗ (1,-1)` as an MPS with bond dimension 2 -/
def χ₀ : MPS ℤ := ⟨[0, 0], [[0], [0, 0], [0]],
  [⟨2, 1, 2, fun s _ b => if b = 0 then (if s = 0 then 1 else 2) else (if s = 0 then 0 else 1)⟩,
   ⟨2, 2, 1, fun s a _ => if a = 0 then 1 else (if s = 0 then 1 else -1)⟩]⟩

/-- product state `ψ₀ = (1,3) ⊗ (2,1)` (bond dimension 1) -/
def ψ₀ : MPS ℤ := ⟨[0, 0], [[0], [0], [0]],
  [⟨2, 1, 1, fun s _ _ => if s = 0 then 1 else 3⟩, ⟨2, 1, 1, fun s _ _ => if s = 0 then 2 else 1⟩]⟩

example : MPS.Shaped χ₀ 2 := by decide
example : MPS.Shaped ψ₀ 2 := by decide

/-- hypotheses of `vdot_dense` are satisfiable with different bra/ket bond profiles; `⟨χ₀|ψ₀⟩ = 24` -/
example : Op.vdot χ₀ ψ₀ = .ok 24 := by
  rw [vdot_dense (χ := χ₀) (ψ := ψ₀) (d := 2) (by decide) (by decide) rfl]
  decide

/-! ## (b) matrix elements and expectation values of an MPO -/

/-- `operator_inner_product(chi, op, psi)` returns (no exception) the dense matrix element
`Σ_{s,t} conj(χ[s]) · op[s,t] · ψ[t]`; the bond profiles of `χ`, `op`, `ψ` are independent. -/
theorem inner_dense {χ ψ : MPS R} {o : MPO R} {d : Nat} (hχ : MPS.Shaped χ d) (ho : MPO.Shaped o d)
    (hψ : MPS.Shaped ψ d) (hL : χ.A.length = o.A.length) (hL' : ψ.A.length = o.A.length) :
    Op.operatorInnerProduct χ o ψ
      = .ok (∑ s ∈ digitsU d o.A.length, ∑ t ∈ digitsU d o.A.length, star (χ.amp s) * o.elem s t * ψ.amp t) := by
  have h1 := hχ.2
  have h2 := hψ.2
  rw [hL] at h1
  rw [hL'] at h2
  refine inner_chain h1 h2 ho.2 ?_
  intro h
  have := congrArg List.length h
  simp only [List.length_replicate, List.length_nil] at this
  exact ho.1 (List.length_eq_zero_iff.1 this)

/-- `operator_average(psi, op)` returns (no exception) the dense expectation value
`Σ_{s,t} conj(ψ[s]) · op[s,t] · ψ[t]`. -/
theorem average_dense {ψ : MPS R} {o : MPO R} {d : Nat} (hψ : MPS.Shaped ψ d) (ho : MPO.Shaped o d)
    (hL : ψ.A.length = o.A.length) :
    Op.operatorAverage ψ o
      = .ok (∑ s ∈ digitsU d o.A.length, ∑ t ∈ digitsU d o.A.length, star (ψ.amp s) * o.elem s t * ψ.amp t) := by
  have h2 := hψ.2
  rw [hL] at h2
  refine average_chain h2 ho.2 ?_
  intro h
  have := congrArg List.length h
  simp only [List.length_replicate, List.length_nil] at this
  exact ho.1 (List.length_eq_zero_iff.1 this)

/-! ## (c) trace of a product of two MPOs -/

/-- `operator_density_average(rho, op)` returns (no exception) `tr(op · rho) = Σ_{s,t} op[t,s] · rho[s,t]`. -/
theorem density_dense {rho o : MPO R} {d : Nat} (hr : MPO.Shaped rho d) (ho : MPO.Shaped o d)
    (hL : rho.A.length = o.A.length) :
    Op.operatorDensityAverage rho o
      = .ok (∑ s ∈ digitsU d o.A.length, ∑ t ∈ digitsU d o.A.length, o.elem t s * rho.elem s t) := by
  have h1 := hr.2
  rw [hL] at h1
  refine density_chain h1 ho.2 ?_
  intro h
  have := congrArg List.length h
  simp only [List.length_replicate, List.length_nil] at this
  exact ho.1 (List.length_eq_zero_iff.1 this)

/-! ### non-vacuity -/

/-- `o₀ = Z ⊗ 1 + 1 ⊗ 2X` with bond dimension 2 -/
def o₀ : MPO ℤ := ⟨[0, 0], [[0], [0, 0], [0]],
  [⟨2, 2, 1, 2, fun s t _ b =>
      if b = 0 then (if s = t then (if s = 0 then 1 else -1) else 0) else (if s = t then 1 else 0)⟩,
   ⟨2, 2, 2, 1, fun s t a _ => if a = 0 then (if s = t then 1 else 0) else (if s = t then 0 else 2)⟩]⟩

/-- `ρ₀ = diag(1,2) ⊗ [[1,1],[0,3]]` with bond dimension 1 -/
def ρ₀ : MPO ℤ := ⟨[0, 0], [[0], [0], [0]],
  [⟨2, 2, 1, 1, fun s t _ _ => if s = t then (if s = 0 then 1 else 2) else 0⟩,
   ⟨2, 2, 1, 1, fun s t _ _ => if s = 0 then 1 else (if t = 0 then 0 else 3)⟩]⟩

example : MPO.Shaped o₀ 2 := by decide
example : MPO.Shaped ρ₀ 2 := by decide

/-- `⟨χ₀| o₀ |ψ₀⟩ = 18` (three different bond profiles) -/
example : Op.operatorInnerProduct χ₀ o₀ ψ₀ = .ok 18 := by
  rw [inner_dense (χ := χ₀) (o := o₀) (ψ := ψ₀) (d := 2) (by decide) (by decide) (by decide) rfl rfl]
  decide

/-- `⟨χ₀| o₀ |χ₀⟩ = 8` -/
example : Op.operatorAverage χ₀ o₀ = .ok 8 := by
  rw [average_dense (ψ := χ₀) (o := o₀) (d := 2) (by decide) (by decide) rfl]
  decide

/-- `tr(o₀ ρ₀) = 2` -/
example : Op.operatorDensityAverage ρ₀ o₀ = .ok 2 := by
  rw [density_dense (rho := ρ₀) (o := o₀) (d := 2) (by decide) (by decide) rfl]
  decide

end Ptn.C04

import PtnModel.Props.C17
import PtnModel.Proofs.TotalAutomaton
import PtnModel.Proofs.TotalTrees
/-!
# C17, totality: `OpGraph.from_automaton` and `OpGraph.from_optrees` return

`Props/C17.lean` describes the graph unrolled from an operator state automaton *whenever `from_automaton` returns*.  Here the call is
shown to return exactly when its guards hold, so the statements apply unconditionally.

`from_automaton(autop, L)` raises `ValueError` for `L < 1`, then computes the backward layers (`back[j]`: states from which terminal 1
is reached along edges active at the sites `j, …, L-1`) and the forward layers (`fwd[j]`: states reached from terminal 0 along edges
active at the sites `0, …, j-1`), intersects them to `nids_active`, and asserts `nids_active[0] == [terminal 0]`,
`nids_active[-1] == [terminal 1]`.  Since `fwd[0] = [terminal 0]`, `back[L] = [terminal 1]`, these two assertions say
`terminal 0 ∈ back[0]` and `terminal 1 ∈ fwd[L]`: the automaton admits an active path of length `L` between its terminals.

* `AutActive a L` (`Proofs/TotalAutomaton.lean`, decidable): the two reachability analyses of the model return and
  `a.term false ∈ back[0] ∧ a.term true ∈ fwd[L]`.

After the assertions nothing can fail on a well-formed automaton: every state of every layer is a state of the automaton and every
listed edge id an edge (so no look-up raises), the running node / edge ids are fresh (no `ValueError` from `add_node` /
`add_connect_edge`, no failing `add_edge_id` assertion), the node-map look-up `nids_map[i][…]` is in range, the dummy node is still
there to be removed, and the final `assert graph.is_consistent()` holds because every edge leads from the nodes of layer `j` to
those of layer `j + 1` (the graph is levelled) and the construction keeps it structurally valid.

## operator trees

`from_optrees(trees, L, id)` inserts, for every tree, `istart` identities from the start node (if `istart > 0`), then the tree by
`_insert_subtree(root, ·, L - istart)`, and finally calls `simplify()`.  Its guards (`Proofs/TotalTrees.lean`):

* `T.fits qT dist` (Bool): the subtree `T` fits into `dist` sites -- a leaf anywhere (`dist ≥ 0`; it is padded with `dist`
  identities), an inner node only with `dist ≥ 1` -- and a child reached exactly at distance 0 (it is identified with the end node,
  whose charge is `qT = 0`) carries the charge `qT`; otherwise the code raises `ValueError` (`terminal_dist < 0`) or
  `RuntimeError` (charge mismatch);
* `TreeOk L t` (decidable): `0 ≤ istart < L` (a tree starting at the last bond would have to be the end node itself: the assertion
  `nid_root == nid_terminal[1]` fails), `root.qnum = 0` if `istart = 0` (the root is the start node), and `root.fits 0 (L - istart)`.

Under `TreeOk` for every tree nothing can fail: all ids are `max + 1` (fresh), every `add_edge_id` assertion holds because all listed
edge ids are keys of the edge dictionary, the charges of existing nodes never change, the loop leaves a valid graph
(`optrees_consistent_presimplify`), and `simplify` returns on valid graphs (`C16.simplify_total`).
-/
set_option linter.unusedSectionVars false

namespace Ptn.C17
open Ptn.Og

variable {κ : Type} [CommRing κ] [DecidableEq κ]

/-- terminals of a well-formed automaton are states (last clause of `AutOp.is_consistent`) -/
theorem aut_terminals_mem {a : AutOp κ} (hwf : AutWellFormed a) (d : Bool) : a.term d ∈ dKeys a.nodes := by
  have hc := hwf.2.2.2
  unfold AutOp.isConsistent at hc
  rw [Bool.and_eq_true, List.all_eq_true] at hc
  exact dHas_iff.1 (hc.2 d (by cases d <;> simp))

/-- **The reachability analysis of `from_automaton` never raises** on a well-formed automaton, for any number of sites; every layer
consists of states of the automaton. -/
theorem automaton_layers_total {a : AutOp κ} (hwf : AutWellFormed a) (L : Nat) :
    ∃ back fwd, a.backwardLayers L = .ok back ∧ a.forwardLayers L = .ok fwd ∧
      (∀ layer ∈ back, ∀ x ∈ layer, x ∈ dKeys a.nodes) ∧ (∀ layer ∈ fwd, ∀ x ∈ layer, x ∈ dKeys a.nodes) := by
  obtain ⟨back, hb, hbn⟩ := backwardLayers_total hwf.valid (aut_terminals_mem hwf true) L
  obtain ⟨fwd, hf, hfn⟩ := forwardLayers_total hwf.valid (aut_terminals_mem hwf false) L
  exact ⟨back, fwd, hb, hf, hbn, hfn⟩

/-- **`from_automaton` returns exactly when its guards hold.**  For every well-formed automaton and every `L`:
`OpGraph.from_automaton(a, L)` returns iff `L ≥ 1` and the automaton admits an active path of length `L` between its terminals
(`AutActive a L`: terminal 0 lies in the first backward layer and terminal 1 in the last forward layer). -/
theorem automaton_returns_iff {a : AutOp κ} (hwf : AutWellFormed a) (L : Int) :
    (∃ g, fromAutomaton a L = .ok g) ↔ (1 ≤ L ∧ AutActive a L.toNat) :=
  fromAutomaton_returns_iff hwf.valid (aut_terminals_mem hwf false) (aut_terminals_mem hwf true) L

/-- **`from_automaton`, unconditional.**  For every well-formed automaton that admits an active path of length `L ≥ 1` between its
terminals, `OpGraph.from_automaton(a, L)` returns a consistent graph of length `L` that denotes, on every word of length `L`, the
path sum of the automaton (site-dependent activity and coefficients honoured). -/
theorem automaton_total {a : AutOp κ} (hwf : AutWellFormed a) {L : Int} (hL : 1 ≤ L) (hact : AutActive a L.toNat) :
    ∃ g, fromAutomaton a L = .ok g ∧ g.isConsistent = true ∧ g.length = .ok L.toNat ∧
      ∀ w : Word, (w.length : Int) = L → g.denF w = a.denF w := by
  obtain ⟨g, hg⟩ := (automaton_returns_iff hwf L).2 ⟨hL, hact⟩
  exact ⟨g, hg, automaton_consistent hg, (automaton_length hwf hg).1, fun w hw => automaton_sem hwf hg w hw⟩

/-- non-vacuity: the automaton `a₀` of `Props/C17.lean` (identity self loops at both terminals, a two-operator edge between them with a
site-dependent coefficient, a dead state) admits active paths of every length tested, and none of length 0 is asked for -/
example : AutWellFormed a₀ ∧ AutActive a₀ 1 ∧ AutActive a₀ 2 ∧ AutActive a₀ 5 := by
  refine ⟨by decide, by decide, by decide, by decide⟩

/-- the condition is not vacuous the other way either: an automaton whose only edge between the terminals is active at site 0 only,
without self loops, admits a path of length 1 but none of length 2, and `from_automaton(·, 2)` fails its assertion -/
example : AutWellFormed (⟨[(0, ⟨0, [], [0], 0⟩), (1, ⟨1, [0], [], 0⟩)],
      [(0, ⟨0, (0, 1), fun _ => [(5, 1)], fun i => i == 0⟩)], (0, 1)⟩ : AutOp ℤ) ∧
    AutActive (⟨[(0, ⟨0, [], [0], 0⟩), (1, ⟨1, [0], [], 0⟩)],
      [(0, ⟨0, (0, 1), fun _ => [(5, 1)], fun i => i == 0⟩)], (0, 1)⟩ : AutOp ℤ) 1 ∧
    ¬ AutActive (⟨[(0, ⟨0, [], [0], 0⟩), (1, ⟨1, [0], [], 0⟩)],
      [(0, ⟨0, (0, 1), fun _ => [(5, 1)], fun i => i == 0⟩)], (0, 1)⟩ : AutOp ℤ) 2 ∧
    fromAutomaton (⟨[(0, ⟨0, [], [0], 0⟩), (1, ⟨1, [0], [], 0⟩)],
      [(0, ⟨0, (0, 1), fun _ => [(5, 1)], fun i => i == 0⟩)], (0, 1)⟩ : AutOp ℤ) 2 = .error .assertion := by
  refine ⟨by decide, by decide, by decide, by rfl⟩

/-! ## operator trees -/

/-- **`from_optrees` returns under its guards, unconditional statement.**  For every list of trees satisfying `TreeOk L` (start site
`0 ≤ istart < L`, root charge 0 when `istart = 0`, the tree fits into `L - istart` sites, nodes reached at the last site carry charge
0) `OpGraph.from_optrees(trees, L, id)` returns; the returned graph is consistent, has terminals `0, 1`, has length `L` (for a
non-empty list), and denotes the sum of the trees, each padded with identities before its start site and after its leaves. -/
theorem optrees_total (trees : List (OpTree κ)) (L id : Int) (h : ∀ t ∈ trees, TreeOk L t) :
    ∃ g, fromOptrees trees L id = .ok g ∧ g.isConsistent = true ∧ g.nidTerminal = (0, 1) ∧
      (trees ≠ [] → g.length = .ok L.toNat) ∧ ∀ w, g.denF w = symCoeff (denTreesRaw trees L id) w := by
  obtain ⟨_, g, _, _, _, hg⟩ := fromOptrees_total trees L id h
  have hstart : ∀ t ∈ trees, 0 ≤ t.istart := fun t ht => (h t ht).1
  obtain ⟨_, _, ht, hsem⟩ := optrees_sem hg
  exact ⟨g, hg, optrees_consistent hg hstart, ht, fun hne => optrees_length hg hne hstart, hsem⟩

/-- the loop over the trees (before `simplify`) returns a valid graph, and `simplify` returns on it -/
theorem optrees_total_presimplify (trees : List (OpTree κ)) (L id : Int) (h : ∀ t ∈ trees, TreeOk L t) :
    ∃ gp g, fromOptreesPre trees L id = .ok gp ∧ Valid gp ∧ gp.simplify = .ok g ∧ fromOptrees trees L id = .ok g :=
  fromOptrees_total trees L id h

/-- non-vacuity: the two trees `ts₁` of `Props/C17.lean` on one site (one edge into the end node, and a single leaf padded with one
identity) satisfy the guard; a tree of height 2 does not fit on one site, a tree whose root charge is 1 cannot start at site 0, and a
tree cannot start at the last bond -/
example : (∀ t ∈ ts₁, TreeOk 1 t) ∧
    ¬ TreeOk 1 (⟨.mk 0 [(5, 2, .mk 0 [(5, 1, .mk 0 [])])], 0⟩ : OpTree ℤ) ∧
    ¬ TreeOk 2 (⟨.mk 1 [(5, 2, .mk 0 [])], 0⟩ : OpTree ℤ) ∧
    TreeOk 2 (⟨.mk 1 [(5, 2, .mk 0 [])], 1⟩ : OpTree ℤ) ∧
    ¬ TreeOk 2 (⟨.mk 0 [], 2⟩ : OpTree ℤ) := by
  refine ⟨by decide, by decide, by decide, by decide, by decide⟩

/-- and the code indeed raises outside the guard: height 2 on one site (`ValueError`), root charge 1 at the start node
(`RuntimeError`), a single leaf starting at the last bond (`AssertionError`) -/
example : fromOptrees ([⟨.mk 0 [(5, 2, .mk 0 [(5, 1, .mk 0 [])])], 0⟩] : List (OpTree ℤ)) 1 0 = .error .value ∧
    fromOptrees ([⟨.mk 1 [(5, 2, .mk 0 [])], 0⟩] : List (OpTree ℤ)) 2 0 = .error .runtime ∧
    fromOptrees ([⟨.mk 0 [], 2⟩] : List (OpTree ℤ)) 2 0 = .error .assertion := by
  refine ⟨by decide, by decide, by decide⟩

end Ptn.C17

import PtnModel.Props.C17
import PtnModel.Proofs.TotalAutomaton
/-!
# C17, totality: `OpGraph.from_automaton` returns

`Props/C17.lean` describes the graph unrolled from an operator state automaton *whenever `from_automaton` returns*.  Here the call is
shown to return exactly when its guards hold, so the statements apply unconditionally.

`from_automaton(autop, L)` raises `ValueError` for `L < 1`, then computes the backward layers (`back[j]`: states from which terminal 1
is reached along edges active at the sites `j, …, L-1`) and the forward layers (`fwd[j]`: states reached from terminal 0 along edges
active at the sites `0, …, j-1`), intersects them to `nids_active`, and asserts `nids_active[0] == [terminal 0]`,
`nids_active[-1] == [terminal 1]`.  Since `fwd[0] = [terminal 0]`, `back[L] = [terminal 1]`, these two assertions say
`terminal 0 ∈ back[0]` and `terminal 1 ∈ fwd[L]`: the automaton admits an active path of length `L` between its terminals.

* `AutActive a L` (`Proofs/TotalAutomaton.lean`, decidable): the two reachability analyses of the model return and
  `a.term false ∈ back[0] ∧ a.term true ∈ fwd[L]`.

After the assertions nothing can fail on a well-formed automaton: every state of every layer is a state of the automaton and every
listed edge id an edge (so no look-up raises), the running node / edge ids are fresh (no `ValueError` from `add_node` /
`add_connect_edge`, no failing `add_edge_id` assertion), the node-map look-up `nids_map[i][…]` is in range, the dummy node is still
there to be removed, and the final `assert graph.is_consistent()` holds because every edge leads from the nodes of layer `j` to
those of layer `j + 1` (the graph is levelled) and the construction keeps it structurally valid.
-/
set_option linter.unusedSectionVars false

namespace Ptn.C17
open Ptn.Og

variable {κ : Type} [CommRing κ] [DecidableEq κ]

/-- terminals of a well-formed automaton are states (last clause of `AutOp.is_consistent`) -/
theorem aut_terminals_mem {a : AutOp κ} (hwf : AutWellFormed a) (d : Bool) : a.term d ∈ dKeys a.nodes := by
  have hc := hwf.2.2.2
  unfold AutOp.isConsistent at hc
  rw [Bool.and_eq_true, List.all_eq_true] at hc
  exact dHas_iff.1 (hc.2 d (by cases d <;> simp))

/-- **The reachability analysis of `from_automaton` never raises** on a well-formed automaton, for any number of sites; every layer
consists of states of the automaton. -/
theorem automaton_layers_total {a : AutOp κ} (hwf : AutWellFormed a) (L : Nat) :
    ∃ back fwd, a.backwardLayers L = .ok back ∧ a.forwardLayers L = .ok fwd ∧
      (∀ layer ∈ back, ∀ x ∈ layer, x ∈ dKeys a.nodes) ∧ (∀ layer ∈ fwd, ∀ x ∈ layer, x ∈ dKeys a.nodes) := by
  obtain ⟨back, hb, hbn⟩ := backwardLayers_total hwf.valid (aut_terminals_mem hwf true) L
  obtain ⟨fwd, hf, hfn⟩ := forwardLayers_total hwf.valid (aut_terminals_mem hwf false) L
  exact ⟨back, fwd, hb, hf, hbn, hfn⟩

/-- **`from_automaton` returns exactly when its guards hold.**  For every well-formed automaton and every `L`:
`OpGraph.from_automaton(a, L)` returns iff `L ≥ 1` and the automaton admits an active path of length `L` between its terminals
(`AutActive a L`: terminal 0 lies in the first backward layer and terminal 1 in the last forward layer). -/
theorem automaton_returns_iff {a : AutOp κ} (hwf : AutWellFormed a) (L : Int) :
    (∃ g, fromAutomaton a L = .ok g) ↔ (1 ≤ L ∧ AutActive a L.toNat) :=
  fromAutomaton_returns_iff hwf.valid (aut_terminals_mem hwf false) (aut_terminals_mem hwf true) L

/-- **`from_automaton`, unconditional.**  For every well-formed automaton that admits an active path of length `L ≥ 1` between its
terminals, `OpGraph.from_automaton(a, L)` returns a consistent graph of length `L` that denotes, on every word of length `L`, the
path sum of the automaton (site-dependent activity and coefficients honoured). -/
theorem automaton_total {a : AutOp κ} (hwf : AutWellFormed a) {L : Int} (hL : 1 ≤ L) (hact : AutActive a L.toNat) :
    ∃ g, fromAutomaton a L = .ok g ∧ g.isConsistent = true ∧ g.length = .ok L.toNat ∧
      ∀ w : Word, (w.length : Int) = L → g.denF w = a.denF w := by
  obtain ⟨g, hg⟩ := (automaton_returns_iff hwf L).2 ⟨hL, hact⟩
  exact ⟨g, hg, automaton_consistent hg, (automaton_length hwf hg).1, fun w hw => automaton_sem hwf hg w hw⟩

/-- non-vacuity: the automaton `a₀` of `Props/C17.lean` (identity self loops at both terminals, a two-operator edge between them with a
site-dependent coefficient, a dead state) admits active paths of every length tested, and none of length 0 is asked for -/
example : AutWellFormed a₀ ∧ AutActive a₀ 1 ∧ AutActive a₀ 2 ∧ AutActive a₀ 5 := by
  refine ⟨by decide, by decide, by decide, by decide⟩

/-- the condition is not vacuous the other way either: an automaton whose only edge between the terminals is active at site 0 only,
without self loops, admits a path of length 1 but none of length 2, and `from_automaton(·, 2)` fails its assertion -/
example : AutWellFormed (⟨[(0, ⟨0, [], [0], 0⟩), (1, ⟨1, [0], [], 0⟩)],
      [(0, ⟨0, (0, 1), fun _ => [(5, 1)], fun i => i == 0⟩)], (0, 1)⟩ : AutOp ℤ) ∧
    AutActive (⟨[(0, ⟨0, [], [0], 0⟩), (1, ⟨1, [0], [], 0⟩)],
      [(0, ⟨0, (0, 1), fun _ => [(5, 1)], fun i => i == 0⟩)], (0, 1)⟩ : AutOp ℤ) 1 ∧
    ¬ AutActive (⟨[(0, ⟨0, [], [0], 0⟩), (1, ⟨1, [0], [], 0⟩)],
      [(0, ⟨0, (0, 1), fun _ => [(5, 1)], fun i => i == 0⟩)], (0, 1)⟩ : AutOp ℤ) 2 ∧
    fromAutomaton (⟨[(0, ⟨0, [], [0], 0⟩), (1, ⟨1, [0], [], 0⟩)],
      [(0, ⟨0, (0, 1), fun _ => [(5, 1)], fun i => i == 0⟩)], (0, 1)⟩ : AutOp ℤ) 2 = .error .assertion := by
  refine ⟨by decide, by decide, by decide, by rfl⟩

end Ptn.C17

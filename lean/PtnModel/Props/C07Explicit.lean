import PtnModel.Props.C07Total
import PtnModel.Proofs.ExplDense
/-!
# Property C07, explicit (`optimize=False`) spinless construction: same operator as the bond-optimized one

"... the bond-optimized and the explicit construction represent the same operator wherever both are defined."

`molecular_hamiltonian_mpo(tkin, vint, optimize=False)` builds the node tables `MolecularOpGraphNodes(L)`, wires them up in
`generate_graph` and adds one edge per term in `_molecular_hamiltonian_graph_add_term` (model: `Model/HamiltonianMolGraph.lean`,
`molExplicitGraph`, `molBuildExplicit`).  For every `L = len(tkin) ≥ 4` (the documented domain; below it the constructor raises its
`AssertionError`) and all coefficient tensors:

* `explicit_graph_valid`  -- the graph is built without exception (terminal look-ups, `OpGraph` constructor, every look-up and every
  `add_connect_edge` of the twelve edge loops of `generate_graph`, every look-up / assertion / `add_connect_edge` of the `L²` hopping and
  all interaction calls), it is `Valid` (duplicate-free dictionaries, passes `is_consistent`), layered with `L` layers (level = bond
  index of the node's table entry, source at level 0, sink at level `L`), of length `L`, and the sink is its only node without an
  outgoing edge.
* `explicit_term_paths`   -- the structure behind the denotation (`Forests`): nodes connected to the left terminal form a forest (every
  such node other than the source has exactly one incoming edge, which extends the left word `lw` by its operator), nodes connected to
  the right terminal form a forest (exactly one outgoing edge, which is the first letter of the right word `rw`), and every other edge
  is the edge of one term and crosses from left to right; for every hopping pair `(i, j)` resp. interaction tuple `(i<j, k<l)` the call of
  `_molecular_hamiltonian_graph_add_term` is one `add_connect_edge` whose crossing word `lw(src) ++ op :: rw(dst)` is the identity-padded
  word of the chain the bond-optimized enumeration creates for the same term (`I…I C Z…Z A I…I`, `A Z…Z C`, `N`; `intF` letters).
* `explicit_graph_words`, `explicit_eq_optimized_words` -- hence `denF(explicit graph) w = Σ_terms coeff · [word(term) = w]`, which is,
  term by term, the formal sum `denChainsRaw` of the optimized chain list; whenever the optimized constructor returns its graph has the
  same denotation.
* `explicit_dense`, `explicit_eq_optimized_dense` -- `molecular_hamiltonian_mpo(…, optimize=False)` returns (shape assertion, graph,
  `is_consistent` assertion for `L ≤ 12`, `MPO.from_opgraph` with `compute_nid_map=True` incl. its `is_qsparse` assertion), its dense
  matrix (`MPO.elem`, `as_matrix()` dense and sparse path) is the sum of the enumerated chains = the documented second-quantized operator
  under the Jordan-Wigner matrices, and equals entry by entry that of the bond-optimized MPO whenever the latter is returned.
-/
set_option linter.unusedSectionVars false

namespace Ptn.C07
open Ptn Ptn.Og Ptn.Ham Ptn.Ch Ptn.Dense Ptn.Ham2

variable {κ : Type} [CommRing κ] [DecidableEq κ]

/-- **The explicit graph is built without exception and is valid, layered, of length `L`, with the sink as its only dead end**, for every
`L = len(tkin) ≥ 4` and all coefficient tensors; for `L < 4` the constructor raises its `AssertionError`.  `explLevel L x` is the bond
index of the table entry whose node has id `x`; `explGraph` is the node list of `generate_graph` plus the consecutively numbered
edges `explEdges` (wiring, hopping terms, interaction terms). -/
theorem explicit_graph_valid (c : Consts κ) (tkin : List (List κ)) (vint : List (List (List (List κ)))) :
    ((tkin.length : Int) < 4 → molExplicitGraph c tkin vint = .error .assertion) ∧
    (4 ≤ (tkin.length : Int) →
      ∃ g, molExplicitGraph c tkin vint = .ok (MolNodes.init tkin.length, g) ∧ g = explGraph c tkin vint tkin.length ∧
        Valid g ∧ g.isConsistent = true ∧ NoDup g ∧
        g.nidTerminal = (0, (tkin.length : Int) + tkin.length - 1) ∧
        dKeys g.nodes = (MolNodes.init tkin.length).nodeList.map (·.nid) ∧
        Lev g (explLevel tkin.length) ∧ explLevel tkin.length (g.term false) = 0 ∧
        explLevel tkin.length (g.term true) = tkin.length ∧
        g.length = .ok tkin.length ∧ SingleSink g ∧ AllOut g ∧ OpsCharged [0, 1] g (molOpmap : OpMap κ)) := by
  constructor
  · intro h
    unfold molExplicitGraph
    have : decide ((tkin.length : Int) ≥ 4) = false := by simpa using h
    simp only [this]
    rfl
  · intro hL
    obtain ⟨_, sv, _, hK, hT, _⟩ := explGraph_facts c tkin vint (tkin.length : Int) hL
    have hval := explGraph_valid c tkin vint (tkin.length : Int) hL
    have hlen := explGraph_length c tkin vint (tkin.length : Int) hL
    have e : (tkin.length : Int).toNat = tkin.length := by omega
    rw [e] at hlen
    refine ⟨_, molExplicitGraph_ok c tkin vint hL, rfl, hval, hval.isConsistent, ((valid_iff _).1 hval).1, hT,
      by rw [hK, explG0_keys], explGraph_lev c tkin vint _ hL, ?_, ?_, hlen, explGraph_singleSink c tkin vint _ hL,
      explGraph_allOut c tkin vint _ hL, explGraph_charged c tkin vint _ hL⟩
    · have : (explGraph c tkin vint (tkin.length : Int)).term false = 0 := by simp [Graph.term, hT]
      rw [this]; unfold explLevel; rw [labOf_source _ hL]
    · have : (explGraph c tkin vint (tkin.length : Int)).term true = (tkin.length : Int) + tkin.length - 1 := by
        simp [Graph.term, hT]
      rw [this]; unfold explLevel; rw [labOf_sink _ hL]

/-- the edge loops of `generate_graph` alone run through for *every* `L` (all look-ups `identity_l[i]`, `a_dag_l[i][j]`, … are defined):
started on any graph with any running edge id they are the `add_connect_edge` calls for the edges `wireGen`, in this order, with
consecutive ids -/
theorem explicit_wiring_lookups_defined (L : Int) :
    Emits (κ := κ) (wireGen (fun a b o => ((MolNodes.init L).nidOf a, (MolNodes.init L).nidOf b, o, (1 : κ))) L) ()
      ((MolNodes.init L).wire (κ := κ)) :=
  wire_emits L

/-- **Paths of the terms.**  For `L ≥ 4`:
(1) the edges of the explicit graph form a left forest, a right forest and crossing edges (`Forests`, with the words `explLw`, `explRw` of
the unique paths to the two terminals);
(2) for every hopping pair the call of `_molecular_hamiltonian_graph_add_term` is one `add_connect_edge` from a node connected to the
left terminal to a node connected to the right terminal, one layer apart, whose crossing word is the hopping word `hopWord L i j`
(`I…I C Z…Z A I…I` for `i < j`, `I…I A Z…Z C I…I` for `i > j`, `I…I N I…I` for `i = j`);
(3) the same for every interaction tuple `i < j`, `k < l`, with the word of `a†_i a†_j a_l a_k` (letters `intF i j k l`), which is the
identity-padded word of the chain `molIntChain i j k l` of the bond-optimized enumeration. -/
theorem explicit_term_paths (c : Consts κ) (tkin : List (List κ)) (vint : List (List (List (List κ)))) (L : Int) (hL : 4 ≤ L) :
    Forests (explEdges c tkin vint L) 0 (L + L - 1) (explLf L) (explRG L) (explLw L) (explRw L) ∧
    (∀ (g : Graph κ) (m : Int) (coeff : κ) (i j : Int), maxInt? (dKeys g.edges) = some m → 0 ≤ i → i < L → 0 ≤ j → j < L →
      molAddTerm g (MolNodes.init L) [(i, mC), (j, mA)] coeff
        = g.addConnectEdge (Edge.mk' (m + 1)
            ((MolNodes.init L).nidOf (hopLab L i j).1, (MolNodes.init L).nidOf (hopLab L i j).2.1) [((hopLab L i j).2.2, coeff)]) ∧
      isLeft (hopLab L i j).1 = true ∧ isLeft (hopLab L i j).2.1 = false ∧
      (hopLab L i j).2.1.2.2 = (hopLab L i j).1.2.2 + 1 ∧
      lwLab (hopLab L i j).1 ++ (hopLab L i j).2.2 :: rwLab L (hopLab L i j).2.1 = hopWord L.toNat i.toNat j.toNat) ∧
    (∀ (g : Graph κ) (m : Int) (coeff : κ) (i j k l : Int), maxInt? (dKeys g.edges) = some m →
      0 ≤ i → i < j → j < L → 0 ≤ k → k < l → l < L →
      molAddTerm g (MolNodes.init L) [(i, mC), (j, mC), (l, mA), (k, mA)] coeff
        = g.addConnectEdge (Edge.mk' (m + 1)
            ((MolNodes.init L).nidOf (intLab L i j k l).1, (MolNodes.init L).nidOf (intLab L i j k l).2.1)
            [((intLab L i j k l).2.2, coeff)]) ∧
      isLeft (intLab L i j k l).1 = true ∧ isLeft (intLab L i j k l).2.1 = false ∧
      (intLab L i j k l).2.1.2.2 = (intLab L i j k l).1.2.2 + 1 ∧
      lwLab (intLab L i j k l).1 ++ (intLab L i j k l).2.2 :: rwLab L (intLab L i j k l).2.1
        = fw L.toNat (intF i.toNat j.toNat k.toNat l.toNat) ∧
      ∃ ch : OpChain κ, molIntChain i j k l coeff = .ok ch ∧ ch.coeff = coeff ∧
        ch.paddedWord L 0 = lwLab (intLab L i j k l).1 ++ (intLab L i j k l).2.2 :: rwLab L (intLab L i j k l).2.1) := by
  refine ⟨explForests c tkin vint L hL, ?_, ?_⟩
  · intro g m coeff i j hm hi hiL hj hjL
    have ht := hop_tspec L hL i j hi hiL hj hjL
    refine ⟨molAddTerm_hop_lab L hL g m hm coeff i j hi hiL hj hjL, ht.l1, ht.r2, ht.lev, ?_⟩
    rw [ht.word, hopWord_fw _ _ _ (by omega) (by omega)]
  · intro g m coeff i j k l hm hi hij hjL hk hkl hlL
    have ht := int_tspec L hL i j k l hi hij hjL hk hkl hlL
    refine ⟨molAddTerm_int_lab L hL g m hm coeff i j k l hi hij hjL hk hkl hlL, ht.l1, ht.r2, ht.lev, ht.word, ?_⟩
    obtain ⟨ch, hch, hc, hw⟩ := molInt_spec L.toNat i.toNat j.toNat k.toNat l.toNat (by omega) (by omega) (by omega) (by omega) coeff
    have ei : ((i.toNat : Nat) : Int) = i := by omega
    have ej : ((j.toNat : Nat) : Int) = j := by omega
    have ek : ((k.toNat : Nat) : Int) = k := by omega
    have el : ((l.toNat : Nat) : Int) = l := by omega
    have eL : ((L.toNat : Nat) : Int) = L := by omega
    rw [ei, ej, ek, el] at hch
    rw [eL] at hw
    exact ⟨ch, hch, hc, by rw [hw, ht.word]⟩

/-- **The denotation of the explicit graph.**  For `L = len(tkin) ≥ 4`, every word `w`:
`denF(explicit graph) w = Σ_ij t_ij · [w = hopping word(i, j)] + Σ_{i<j, k<l} gint_ijkl · [w = word(a†_i a†_j a_l a_k)]`
(`explTerms`: one `(word, coefficient)` entry per hopping pair and per interaction tuple, in the order of the loops). -/
theorem explicit_graph_words (c : Consts κ) (tkin : List (List κ)) (vint : List (List (List (List κ))))
    (hL : 4 ≤ (tkin.length : Int)) (w : Word) :
    ∃ g, molExplicitGraph c tkin vint = .ok (MolNodes.init tkin.length, g) ∧
      g.denF w = coeffIn (explTerms c tkin vint tkin.length) w ∧
      g.denF w = ((hopPairs tkin.length).map fun p =>
          if fw tkin.length (hopF p.1.toNat p.2.toNat) = w then t2 tkin p.1 p.2 else 0).sum +
        ((intTuples tkin.length).map fun q =>
          if fw tkin.length (intF q.1.toNat q.2.1.toNat q.2.2.1.toNat q.2.2.2.toNat) = w
            then gint c vint q.1 q.2.1 q.2.2.1 q.2.2.2 else 0).sum := by
  have h := explGraph_den c tkin vint (tkin.length : Int) hL w
  refine ⟨_, molExplicitGraph_ok c tkin vint hL, h, ?_⟩
  rw [h]
  unfold coeffIn explTerms
  have e : (tkin.length : Int).toNat = tkin.length := by omega
  rw [List.map_append, List.sum_append, List.map_map, List.map_map, e]
  rfl

/-- **Explicit = bond-optimized, as formal sums of words.**  For `L = len(tkin) ≥ 4` and all coefficient tensors: the chain enumeration
of the bond-optimized construction returns `chains` (it always does), its list of `(padded word, coefficient)` pairs *is* the list
`explTerms` of the explicit graph's terms, and the explicit graph denotes exactly this sum; whenever the bond-optimized constructor
returns, the graph it hands to `MPO.from_opgraph` has the same denotation. -/
theorem explicit_eq_optimized_words (c : Consts κ) (tkin : List (List κ)) (vint : List (List (List (List κ))))
    (hL : 4 ≤ (tkin.length : Int)) :
    ∃ g chains, molExplicitGraph c tkin vint = .ok (MolNodes.init tkin.length, g) ∧ molChains c tkin vint = .ok chains ∧
      denChainsRaw chains (tkin.length : Int) 0 = explTerms c tkin vint tkin.length ∧
      (∀ w : Word, g.denF w = coeffIn (denChainsRaw chains (tkin.length : Int) 0) w) ∧
      (∀ w : Word, g.denF w = chainsDen chains (tkin.length : Int) 0 w) ∧
      (∀ b, molBuildOpt c tkin vint = .ok b → ∀ w : Word, b.graph.denF w = g.denF w) := by
  obtain ⟨chains, hch, _⟩ := molecular_chains_wf c tkin vint
  have heq := optimized_terms_eq c tkin vint chains hch
  have hden : ∀ w : Word, (explGraph c tkin vint (tkin.length : Int)).denF w
      = coeffIn (denChainsRaw chains (tkin.length : Int) 0) w := by
    intro w; rw [heq]; exact explGraph_den c tkin vint _ hL w
  refine ⟨_, chains, molExplicitGraph_ok c tkin vint hL, hch, heq, hden, ?_, ?_⟩
  · intro w; rw [hden w, chainsDen_eq_coeffIn]
  · intro b hb w
    obtain ⟨chains', hch', _, hd⟩ := (optimized_graph_words c tkin vint (by omega) w).1 b hb
    rw [hch] at hch'
    cases hch'
    rw [hd, hden w]

/-- **The explicit MPO, dense.**  For `L = len(tkin) ≥ 4` and well-shaped coefficient tensors (no further condition: in contrast to the
bond-optimized constructor the explicit one also returns when all coefficients vanish): `molecular_hamiltonian_mpo(tkin, vint,
optimize=False)` returns; its MPO has `L` sites of dimension 2; its dense matrix (`MPO.elem`, `as_matrix()` dense and sparse) is the sum
of the enumerated chains of the bond-optimized construction; every tensor is block sparse; and the matrix elements are those of the
documented operator `Σ_ij t_ij a†_i a_j + ½ Σ_ijkl v_ijkl a†_i a†_j a_l a_k` under the Jordan-Wigner matrices. -/
theorem explicit_dense (c : Consts κ) (tkin : List (List κ)) (vint : List (List (List (List κ))))
    (hL : 4 ≤ (tkin.length : Int)) (hsh : shapesOk tkin vint = true) :
    ∃ r chains, molBuildExplicit c tkin vint = .ok r ∧ r.1 = MolNodes.init tkin.length ∧ r.2.qd = [0, 1] ∧
      r.2.opmap = molOpmap ∧ r.2.graph = explGraph c tkin vint tkin.length ∧
      molChains c tkin vint = .ok chains ∧
      MPO.DenseIs (r.2.mpo.toMPO [0, 1]) 2 tkin.length (termsEntry molOpmap (denChainsRaw chains (tkin.length : Int) 0)) ∧
      r.2.Sparse ∧
      ∀ s t : List Nat, Digits 2 tkin.length s → Digits 2 tkin.length t →
        (r.2.mpo.toMPO [0, 1]).elem s t =
          ((List.range tkin.length).map fun (i : Nat) => ((List.range tkin.length).map fun (j : Nat) =>
            t2 tkin (i : Int) (j : Int) * sumDigits 2 tkin.length (fun u =>
              wordWeight molOpmap (jwC tkin.length i) s u * wordWeight molOpmap (jwA tkin.length j) u t)).sum).sum +
          ((List.range tkin.length).map fun (i : Nat) => ((List.range tkin.length).map fun (j : Nat) =>
            ((List.range tkin.length).map fun (k : Nat) => ((List.range tkin.length).map fun (l : Nat) =>
              (c.half * v4 vint (i : Int) (j : Int) (k : Int) (l : Int)) * jw4 tkin.length i j k l s t).sum).sum).sum).sum := by
  obtain ⟨out, hb, _, hd⟩ := molBuildExplicit_ok c tkin vint hL hsh
  obtain ⟨chains, hch, _⟩ := molecular_chains_wf c tkin vint
  have heq := optimized_terms_eq c tkin vint chains hch
  rw [← heq] at hd
  refine ⟨_, chains, hb, rfl, rfl, rfl, rfl, hch, hd, (molecular_mpo_block_sparse c tkin vint).2.1 _ hb, ?_⟩
  intro s t hs ht
  obtain ⟨hop, int, rfl, _, hint, hk⟩ := kinetic_sem c tkin vint chains hch
  show (out.toMPO [0, 1]).elem s t = _
  rw [hd.elem s t hs ht, denChainsRaw, List.map_append, termsEntry_append]
  have h1 := hk s t hs.1 ht.1
  have h2 := int_two_body c tkin.length vint int hint s t hs.1 ht.1
  have h3 := two_body_full c vint tkin.length s t hs.1 ht.1
  unfold denChainsRaw at h1 h2
  rw [h1, h2, h3]
  rfl

/-- **Explicit = bond-optimized, dense.**  For `L = len(tkin) ≥ 4`, well-shaped tensors: the explicit constructor returns; whenever the
bond-optimized constructor returns too (i.e. some chain has a non-zero coefficient, `optimized_returns`), both MPOs have `L` sites of
dimension 2 and equal matrix elements for all occupation digit lists, both `as_matrix()` paths of both return `2^L × 2^L` matrices with
equal entries, and the common value is the documented second-quantized operator under the Jordan-Wigner matrices (`explicit_dense`). -/
theorem explicit_eq_optimized_dense (c : Consts κ) (tkin : List (List κ)) (vint : List (List (List (List κ))))
    (hL : 4 ≤ (tkin.length : Int)) (hsh : shapesOk tkin vint = true) :
    ∃ r, molBuildExplicit c tkin vint = .ok r ∧
      (MolNonzero c tkin vint → ∃ b, molBuildOpt c tkin vint = .ok b) ∧
      ∀ b, molBuildOpt c tkin vint = .ok b →
        (r.2.mpo.toMPO [0, 1]).A.length = tkin.length ∧ (b.mpo.toMPO [0, 1]).A.length = tkin.length ∧
        (∀ s t : List Nat, Digits 2 tkin.length s → Digits 2 tkin.length t →
          (r.2.mpo.toMPO [0, 1]).elem s t = (b.mpo.toMPO [0, 1]).elem s t) ∧
        (∃ me mb, (r.2.mpo.toMPO [0, 1]).asMatrix = .ok me ∧ (b.mpo.toMPO [0, 1]).asMatrix = .ok mb ∧
          me.m = 2 ^ tkin.length ∧ mb.m = 2 ^ tkin.length ∧ me.n = 2 ^ tkin.length ∧ mb.n = 2 ^ tkin.length ∧
          ∀ s t : List Nat, Digits 2 tkin.length s → Digits 2 tkin.length t →
            me.f (flat 2 s) (flat 2 t) = mb.f (flat 2 s) (flat 2 t)) ∧
        (∃ me mb, (r.2.mpo.toMPO [0, 1]).asMatrixSparse = .ok me ∧ (b.mpo.toMPO [0, 1]).asMatrixSparse = .ok mb ∧
          ∀ s t : List Nat, Digits 2 tkin.length s → Digits 2 tkin.length t →
            me.f (flat 2 s) (flat 2 t) = mb.f (flat 2 s) (flat 2 t)) := by
  obtain ⟨r, chains, hr, _, _, _, _, hch, hd, _, _⟩ := explicit_dense c tkin vint hL hsh
  refine ⟨r, hr, fun hnz => molBuildOpt_total c tkin vint hsh (by omega) hnz, ?_⟩
  intro b hb
  obtain ⟨chains', hch', _, _, _, hdb⟩ := (optimized_dense c tkin vint (by omega)).1 b hb
  rw [hch] at hch'
  cases hch'
  refine ⟨hd.sites, hdb.sites, fun s t hs ht => by rw [hd.elem s t hs ht, hdb.elem s t hs ht], ?_, ?_⟩
  · obtain ⟨me, a1, a2, a3, a4⟩ := hd.as_matrix
    obtain ⟨mb, b1, b2, b3, b4⟩ := hdb.as_matrix
    exact ⟨me, mb, a1, b1, a2, b2, a3, b3, fun s t hs ht => by rw [a4 s t hs ht, b4 s t hs ht]⟩
  · obtain ⟨me, a1, _, _, a4⟩ := hd.as_matrix_sparse
    obtain ⟨mb, b1, _, _, b4⟩ := hdb.as_matrix_sparse
    exact ⟨me, mb, a1, b1, fun s t hs ht => by rw [a4 s t hs ht, b4 s t hs ht]⟩

/-! ## non-vacuity: four orbitals -/

/-- hopping coefficients `t_ij = i + 2 j + 1` and a non-symmetric interaction tensor on four orbitals; `½` is replaced by `1` -/
def explTk4 : List (List Int) := (List.range 4).map fun i => (List.range 4).map fun j => ((i + 2 * j + 1 : Nat) : Int)
def explVi4 : List (List (List (List Int))) := (List.range 4).map fun i => (List.range 4).map fun j => (List.range 4).map fun k =>
  (List.range 4).map fun l => ((i * i * l + 3 * j * k + 5 * k * l * i + 7 * l : Nat) : Int)
def explC0 : Consts Int := ⟨1, fun _ => 0⟩

/-- the hypotheses hold for these tensors -/
example : 4 ≤ ((explTk4.length : Nat) : Int) ∧ shapesOk explTk4 explVi4 = true := by decide

/-- kernel evaluation of the model's explicit construction on four orbitals: 28 nodes, 78 edges (26 wiring edges, 16 hopping edges, 36
interaction edges), consistent, terminals 0 and 7; the word `C Z Z A` has the coefficient `t_03 = 7`, the word `C C A A` the coefficient
`gint_0123 = -4`, the word `N I I N` the coefficient `gint_0303 = -54`, and the identity word does not occur -/
example : (match molExplicitGraph explC0 explTk4 explVi4 with
    | .ok r => (r.2.nodes.length == 28) && (r.2.edges.length == 78) && r.2.isConsistent && (r.2.nidTerminal == (0, 7)) &&
      (r.2.denF [1, 3, 3, -1] == 7) && (r.2.denF [1, 1, -1, -1] == -4) && (r.2.denF [2, 0, 0, 2] == -54) &&
      (r.2.denF [0, 0, 0, 0] == 0)
    | .error _ => false) = true := by
  decide +kernel

/-- the term `a†_0 a_3` is inserted as the edge from `a_dag_l[0][2]` (word `C Z`) to `a_ann_r[3][3]` (word `A`) carrying `Z`; the term
`a†_0 a†_1 a_3 a_2` as the edge from `a_dag_a_dag_l[0, 1][2]` to `a_ann_r[3][3]` carrying `A` -/
example : hopLab 4 0 3 = ((0, [0], 2), (6, [3], 3), 3) ∧ intLab 4 0 1 2 3 = ((2, [0, 1], 2), (6, [3], 3), -1) ∧
    lwLab (hopLab 4 0 3).1 = [1, 3] ∧ rwLab 4 (hopLab 4 0 3).2.1 = [-1] ∧ hopWord 4 0 3 = [1, 3, 3, -1] := by
  decide

/-- the chain list of the bond-optimized construction on the same tensors has the same coefficients for these words -/
example : (match molChains explC0 explTk4 explVi4 with
    | .ok ch => (ch.length == 52) && (coeffIn (denChainsRaw ch 4 0) [1, 3, 3, -1] == 7) &&
      (coeffIn (denChainsRaw ch 4 0) [1, 1, -1, -1] == -4) && (coeffIn (denChainsRaw ch 4 0) [2, 0, 0, 2] == -54)
    | .error _ => false) = true := by
  decide +kernel

/-- the explicit MPO on four orbitals: four sites, bond dimensions `[1, 5, 16, 5, 1]` -/
example : (match molBuildExplicit explC0 explTk4 explVi4 with
    | .ok r => (r.2.mpo.tensors.length == 4) && (r.2.mpo.qD.map (·.length) == [1, 5, 16, 5, 1])
    | .error _ => false) = true := by
  decide +kernel

end Ptn.C07

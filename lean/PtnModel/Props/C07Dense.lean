import PtnModel.Props.C07
import PtnModel.Props.C05Dense
import PtnModel.Proofs.BridgeMol
import PtnModel.Proofs.BridgeExamples
import PtnModel.Proofs.BridgeExamplesSpin
/-!
# Property C07, bond-optimized constructions: the dense matrix of the returned MPO

`Props/C07.lean` (`optimized_graph_words`) shows that the graph compiled by `molecular_hamiltonian_mpo(…, optimize=True)` /
`spin_molecular_hamiltonian_mpo(…, optimize=True)` denotes the sum of the identity-padded chains of the enumeration.  Combined with the
dense semantics of `MPO.from_opgraph` (`Props/C05Dense.lean`) this gives the dense matrix of the MPO handed back:

* `b.mpo.toMPO qd` : the `MPO(qd, qD, A)` value for the `from_opgraph` output stored in the constructor result (`C05.to_mpo_entries`);
* `termsEntry opmap terms s t = Σ_{(v, c) ∈ terms} c · Π_k opmap[v_k][s_k][t_k]`;
* `denChainsRaw chains L 0` : the list `(identity-padded word of the chain, coefficient)`;
* `MPO.DenseIs o d n F` : `o` is shaped with `n` sites of dimension `d`, `o.elem s t = F s t` for all digit lists, and both paths of
  `as_matrix()` return the `d^n × d^n` matrix with entry `F s t` at row-major position `(flat d s, flat d t)`.

The chains are the Jordan-Wigner images of the terms `t_ij a†_i a_j` and `g_ijkl a†_i a†_j a_l a_k` (`molecular_hop_chain_wf`,
`molecular_int_chain_wf`); that their sum equals the second-quantized operator, and the explicit (`optimize=False`) constructions,
are not covered here.
-/
set_option linter.unusedSectionVars false

namespace Ptn.C07
open Ptn Ptn.Og Ptn.Ham Ptn.Ch

/-- **Bond-optimized molecular Hamiltonians: the dense matrix of the returned MPO is the sum of the enumerated chains.**  Whenever the
constructor returns for `L = len(tkin) ≥ 1` orbitals (all coefficient tensors): the enumeration returned well-formed chains, the MPO has
`L` sites of dimension 2 (spinless) resp. 4 (spin-orbital), and its dense matrix is
`Σ_{ch ∈ chains} coeff(ch) · ⊗_k opmap[padded word(ch)_k]`, entry by entry (`MPO.elem`, `as_matrix()` dense and sparse path). -/
theorem optimized_dense {R : Type} [CommRing R] [DecidableEq R] (c : Consts R) (tkin : List (List R))
    (vint : List (List (List (List R)))) (hL : 1 ≤ (tkin.length : Int)) :
    (∀ b, molBuildOpt c tkin vint = .ok b →
      ∃ chains, molChains c tkin vint = .ok chains ∧ (∀ ch ∈ chains, ChainWF (tkin.length : Int) ch) ∧
        b.qd = [0, 1] ∧ b.opmap = molOpmap ∧
        MPO.DenseIs (b.mpo.toMPO [0, 1]) 2 tkin.length
          (termsEntry molOpmap (denChainsRaw chains (tkin.length : Int) 0))) ∧
    (∀ b, spinMolBuildOpt c tkin vint = .ok b →
      ∃ chains, spinMolChains c tkin vint = .ok chains ∧ (∀ ch ∈ chains, ChainWF (tkin.length : Int) ch) ∧
        b.qd = spinQd ∧ b.opmap = spinMolOpmap ∧
        MPO.DenseIs (b.mpo.toMPO spinQd) 4 tkin.length
          (termsEntry spinMolOpmap (denChainsRaw chains (tkin.length : Int) 0))) :=
  ⟨fun b hb => mol_denseIs c tkin vint b hb hL, fun b hb => spinMol_denseIs c tkin vint b hb hL⟩

/-- the operator tables of both constructions are square of the physical dimension (what `optimized_dense` needs of them) -/
theorem molecular_tables_square {R : Type} [CommRing R] [DecidableEq R] :
    OpMapWF (molOpmap : OpMap R) 2 ∧ OpMapWF (spinMolOpmap : OpMap R) 4 :=
  ⟨molOpmap_wf, spinMolOpmap_wf⟩

/-- non-vacuity of `optimized_dense`: one orbital, `tkin = [[3]]`: the constructor returns, the enumeration is the single chain
`3 · n_0`, and the `(1, 1)` entry of the dense matrix is `3` -/
example (c : Consts Int) : (1 : Int) ≤ (([[3]] : List (List Int)).length : Int) ∧
    (∃ b, molBuildOpt c [[3]] [[[[9]]]] = .ok b) ∧ molChains c [[3]] [[[[9]]]] = .ok [⟨[2], [0, 0], 3, 0⟩] ∧
    termsEntry (molOpmap : OpMap Int) (denChainsRaw [⟨[2], [0, 0], 3, 0⟩] 1 0) [1] [1] = 3 :=
  ⟨by decide, mol_L1_ok c, rfl, by decide⟩

/-- non-vacuity of the spin-orbital half: one spatial orbital, `tkin = [[3]]`, `vint = 0`: the constructor returns; the enumeration is
`3 · (n ⊗ I)`, `3 · (I ⊗ n)` and an interaction chain with coefficient 0; the dense matrix is `3 (n_up + n_dn) = diag(0, 3, 3, 6)` -/
example : (∃ b, spinMolBuildOpt (⟨0, fun _ => 0⟩ : Consts Int) [[3]] [[[[0]]]] = .ok b) ∧
    spinMolChains (⟨0, fun _ => 0⟩ : Consts Int) [[3]] [[[[0]]]]
      = .ok [⟨[14], [0, 0], 3, 0⟩, ⟨[3], [0, 0], 3, 0⟩, ⟨[17], [0, 0], 0, 0⟩] ∧
    (List.range 4).map (fun s => termsEntry (spinMolOpmap : OpMap Int)
      (denChainsRaw [⟨[14], [0, 0], 3, 0⟩, ⟨[3], [0, 0], 3, 0⟩, ⟨[17], [0, 0], 0, 0⟩] 1 0) [s] [s]) = [0, 3, 3, 6] :=
  ⟨spinMol_L1_ok, by decide, by decide⟩

end Ptn.C07

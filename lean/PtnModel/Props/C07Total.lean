import PtnModel.Props.C07Dense
import PtnModel.Props.C07JW
import PtnModel.Props.C05Total
import PtnModel.Proofs.TotalMol
import PtnModel.Proofs.TotalSpinMol
/-!
# Property C07, totality: the bond-optimized molecular constructions return

`Props/C07.lean`, `C07Dense.lean`, `C07JW.lean` describe the MPO of `molecular_hamiltonian_mpo(tkin, vint, optimize=True)` *whenever the
constructor returns*.  Here it is shown to return -- shape assertion, chain enumeration, `OpGraph.from_opchains` (its assertion on
the single trailing half-chain), the optional `is_consistent` assertion (`L ≤ 12`) and `MPO.from_opgraph` with its final `is_qsparse`
assertion -- for every `L = len(tkin) ≥ 1`, well-shaped tensors and every coefficient choice that leaves at least one chain with
non-zero coefficient.

The exact condition (`MolNonzero c tkin vint`, decidable, `Proofs/TotalMol.lean`): the enumeration hands `from_opchains` one chain
per hopping index pair `(i, j)` with coefficient `t_ij` and one per interaction index quadruple `i < j`, `k < l` with the
antisymmetrised coefficient `g_ijkl = ½ (v_ijkl - v_jikl - v_ijlk + v_jilk)`; `from_opchains` drops chains with coefficient `0` and
fails when nothing is left.  So the constructor returns iff some `t_ij ≠ 0` or some `g_ijkl ≠ 0` (`i < j`, `k < l`).

Ingredient beyond C05: every chain of the enumeration is Jordan-Wigner shaped (`JW`: the interleaved charges follow the operators:
`a†` raises, `a` lowers, `n`, `I`, `Z` keep the charge), hence charge consistent under `qd = [0, 1]` for the tables of `molOpmap`.

Spin-orbital construction (`spin_molecular_hamiltonian_mpo(…, optimize=True)`): the same chains on `2 L` modes, restricted to the
spin-conserving index tuples, are converted by `to_spin_opchain` into chains over the pair tables `kron(op_up, op_dn)` with the
encoded bond charges `(N << 16) + S`.  `SpinMolNonzero c tkin vint` (decidable, `Proofs/TotalSpinMol.lean`): some chain of that
enumeration has a non-zero coefficient (the coefficients are `t_{i/2, j/2}` for mode pairs of equal spin and the value returned by
`get_vint_coeff` for the valid spin patterns; `to_spin_opchain` keeps them).  Ingredient: every pair table shifts `(N, S)` by
`(ch x + ch y, ch x - ch y)` (`kron` of two single-mode tables of charges `ch x`, `ch y`), which is exactly the jump of the converted
bond charges, so the converted chains are charge consistent under `spinQd` / `spinMolOpmap`.

The explicit (`optimize=False`) constructions are not covered: see `obligations/C07.json`.
-/
set_option linter.unusedSectionVars false

namespace Ptn.C07
open Ptn Ptn.Og Ptn.Ham Ptn.Ch Ptn.Ham2

variable {κ : Type} [CommRing κ] [DecidableEq κ]

/-- every chain of the bond-optimized spinless enumeration is well formed and Jordan-Wigner shaped (leading charge 0, every operator
shifts the running charge by its own charge), and the coefficients are exactly the hopping coefficients `t_ij` followed by the
antisymmetrised interaction coefficients `g_ijkl`, `i < j`, `k < l` -/
theorem molecular_chains_charged (c : Consts κ) (tkin : List (List κ)) (vint : List (List (List (List κ)))) :
    ∃ chains, molChains c tkin vint = .ok chains ∧ (∀ ch ∈ chains, ChainWF (tkin.length : Int) ch ∧ JWReady ch) ∧
      chains.map (·.coeff) = (molHopIdx (tkin.length : Int)).map (fun x => t2 tkin x.1 x.2) ++
        (molIntIdx (tkin.length : Int)).map (fun x => gint c vint x.1 x.2.1 x.2.2.1 x.2.2.2) :=
  molChains_jw c tkin vint

/-- every chain of the bond-optimized spin-orbital enumeration is well formed and charge consistent under the encoded `(N, S)` charges
and the pair tables (`SpinP κ o q0 q1`: the table of `o` exists, is `4 × 4`, and every non-zero entry `[s, t]` has
`spinQd[s] - spinQd[t] + q0 - q1 = 0`) -/
theorem spin_molecular_chains_charged (c : Consts κ) (tkin : List (List κ)) (vint : List (List (List (List κ)))) :
    ∃ chains, spinMolChains c tkin vint = .ok chains ∧
      ∀ ch ∈ chains, ChainWF (tkin.length : Int) ch ∧ chOK (SpinP κ) ch.oids ch.qnums :=
  spinMolChains_charged c tkin vint

/-- **The bond-optimized constructions return exactly when some chain survives.**  For `L = len(tkin) ≥ 1`:
`molecular_hamiltonian_mpo(tkin, vint, optimize=True)` returns iff the tensors have the shapes `(L, L)`, `(L, L, L, L)` and some `t_ij`
or some `g_ijkl` (`i < j`, `k < l`) is non-zero (`MolNonzero`); `spin_molecular_hamiltonian_mpo(tkin, vint, optimize=True)` returns iff
the shapes are right and some chain of its enumeration has a non-zero coefficient (`SpinMolNonzero`).  In both cases every step
succeeds: shape assertion, enumeration (incl. `to_spin_opchain`), `from_opchains`, the `is_consistent` assertion, `from_opgraph` with
its final `is_qsparse` assertion. -/
theorem optimized_returns (c : Consts κ) (tkin : List (List κ)) (vint : List (List (List (List κ))))
    (hL : 1 ≤ tkin.length) :
    ((∃ b, molBuildOpt c tkin vint = .ok b) ↔ (shapesOk tkin vint = true ∧ MolNonzero c tkin vint)) ∧
    ((∃ b, spinMolBuildOpt c tkin vint = .ok b) ↔ (shapesOk tkin vint = true ∧ SpinMolNonzero c tkin vint)) :=
  ⟨⟨fun ⟨b, hb⟩ => molBuildOpt_only_if c tkin vint b hb hL, fun ⟨h1, h2⟩ => molBuildOpt_total c tkin vint h1 hL h2⟩,
   ⟨fun ⟨b, hb⟩ => spinMolBuildOpt_only_if c tkin vint b hb hL, fun ⟨h1, h2⟩ => spinMolBuildOpt_total c tkin vint h1 hL h2⟩⟩

/-- **The bond-optimized molecular MPOs, unconditional.**  For every `L = len(tkin) ≥ 1` and well-shaped coefficient tensors:
* spinless, `MolNonzero`: the constructor returns an MPO with `L` sites of dimension 2 whose dense matrix is the sum of the enumerated
  chains (`MPO.DenseIs`, both `as_matrix()` paths), every tensor is block sparse under `qd = [0, 1]`, and the matrix elements are those
  of the documented second-quantized operator `Σ_ij t_ij a†_i a_j + ½ Σ_ijkl v_ijkl a†_i a†_j a_l a_k` under the Jordan-Wigner matrices;
* spin-orbital, `SpinMolNonzero`: the constructor returns an MPO with `L` sites of dimension 4 whose dense matrix is the sum of the
  enumerated chains over the pair tables, block sparse under the encoded `(N, S)` charges.  (The interpretation of that sum as the
  second-quantized spin-orbital operator is not part of this statement.) -/
theorem optimized_dense_total (c : Consts κ) (tkin : List (List κ)) (vint : List (List (List (List κ))))
    (hL : 1 ≤ tkin.length) (hsh : shapesOk tkin vint = true) :
    (MolNonzero c tkin vint →
      ∃ b chains, molBuildOpt c tkin vint = .ok b ∧ molChains c tkin vint = .ok chains ∧
        MPO.DenseIs (b.mpo.toMPO [0, 1]) 2 tkin.length (termsEntry molOpmap (denChainsRaw chains (tkin.length : Int) 0)) ∧
        b.Sparse ∧
        ∀ s t : List Nat, Digits 2 tkin.length s → Digits 2 tkin.length t →
          (b.mpo.toMPO [0, 1]).elem s t =
            ((List.range tkin.length).map fun (i : Nat) => ((List.range tkin.length).map fun (j : Nat) =>
              t2 tkin (i : Int) (j : Int) * sumDigits 2 tkin.length (fun u =>
                wordWeight molOpmap (jwC tkin.length i) s u * wordWeight molOpmap (jwA tkin.length j) u t)).sum).sum +
            ((List.range tkin.length).map fun (i : Nat) => ((List.range tkin.length).map fun (j : Nat) =>
              ((List.range tkin.length).map fun (k : Nat) => ((List.range tkin.length).map fun (l : Nat) =>
                (c.half * v4 vint (i : Int) (j : Int) (k : Int) (l : Int)) * jw4 tkin.length i j k l s t).sum).sum).sum).sum) ∧
    (SpinMolNonzero c tkin vint →
      ∃ b chains, spinMolBuildOpt c tkin vint = .ok b ∧ spinMolChains c tkin vint = .ok chains ∧
        MPO.DenseIs (b.mpo.toMPO spinQd) 4 tkin.length
          (termsEntry spinMolOpmap (denChainsRaw chains (tkin.length : Int) 0)) ∧
        b.Sparse) := by
  have hL' : 1 ≤ (tkin.length : Int) := by omega
  constructor
  · intro hnz
    obtain ⟨b, hb⟩ := molBuildOpt_total c tkin vint hsh hL hnz
    obtain ⟨chains, hch, _, _, _, hd⟩ := (optimized_dense c tkin vint hL').1 b hb
    exact ⟨b, chains, hb, hch, hd, (molecular_mpo_block_sparse c tkin vint).1 b hb,
      molecular_chain_sum_jw c tkin vint hL' b hb⟩
  · intro hnz
    obtain ⟨b, hb⟩ := spinMolBuildOpt_total c tkin vint hsh hL hnz
    obtain ⟨chains, hch, _, _, _, hd⟩ := (optimized_dense c tkin vint hL').2 b hb
    exact ⟨b, chains, hb, hch, hd, (molecular_mpo_block_sparse c tkin vint).2.2.1 b hb⟩

/-- non-vacuity: two orbitals with a single non-zero hopping coefficient `t_01 = 5` and vanishing interaction satisfy the condition;
the all-zero tensors do not (and the constructor then fails `from_opchains`' assertion) -/
example :
    shapesOk ([[0, 5], [0, 0]] : List (List Int)) [[[[0, 0], [0, 0]], [[0, 0], [0, 0]]], [[[0, 0], [0, 0]], [[0, 0], [0, 0]]]] = true ∧
    (∃ x ∈ molHopIdx 2, t2 ([[0, 5], [0, 0]] : List (List Int)) x.1 x.2 ≠ 0) ∧
    ¬ (∃ x ∈ molHopIdx 2, t2 ([[0, 0], [0, 0]] : List (List Int)) x.1 x.2 ≠ 0) := by
  refine ⟨by decide, by decide, by decide⟩

example : molBuildOpt (⟨0, fun _ => 0⟩ : Consts Int) [[0]] [[[[0]]]] = .error .assertion := by rfl

/-- non-vacuity of the spin-orbital condition: one spatial orbital with `t_00 = 3` satisfies it (the two chains `3 · n_up`,
`3 · n_dn`), the all-zero tensors do not -/
example : SpinMolNonzero (⟨0, fun _ => 0⟩ : Consts Int) [[3]] [[[[0]]]] ∧
    ¬ SpinMolNonzero (⟨0, fun _ => 0⟩ : Consts Int) [[0]] [[[[0]]]] := by
  constructor <;> decide

end Ptn.C07

import PtnModel.Proofs.Evo2Dmrg
/-!
# Property C10 on a chain of ONE site: the negative statement (known finding F16)

For `L = 1` both sweep loops of `calculate_ground_state_local_singlesite` (`range(L - 1)`, `reversed(range(1, L))`) and of
`calculate_ground_state_local_twosite` (`range(L - 2)`, `reversed(range(L - 1))`) are empty: no local eigenvalue problem is
solved, the variable `en` keeps its initial value `0`, and that value is reported for every sweep.  This is a theorem about
the model (which the correspondence ties to the code on one-site chains as well); the energy of the returned state is
`⟨ψ|H|ψ⟩ / ⟨ψ|ψ⟩` of the start state, in general not zero -- so the clauses "the energy expectation value equals the last
reported energy" and "on a complete manifold the exact ground-state energy is reached" of C10 FAIL for `L = 1`
(`known_findings.txt`, key `dmrg-one-site-chain`; the theorems of `Props/C10*.lean` all carry `2 ≤ L`).

* `dmrg1_one_site_reports_zero`, `dmrg2_one_site_reports_zero`: every reported energy is `0`, for every Hamiltonian, state,
  kernel family, number of sweeps and Lanczos iterations (and every tolerance).
-/
set_option linter.unusedSectionVars false
namespace Ptn.C10
open Ptn Ptn.Krylov Ptn.Evo Ptn.Dense

variable {𝕜 : Type} [RCLike 𝕜] [DecidableEq 𝕜]
variable {k : EvoKernels 𝕜 ℝ} {H : MPO 𝕜} {qd : List Int} {numiter : Nat}

theorem iterate_inv {σ : Type} (f : σ → Except Err σ) (P : σ → Prop) (step : ∀ s s', f s = .ok s' → P s → P s') :
    ∀ (n : Nat) (s r : σ), iterate f n s = .ok r → P s → P r
  | 0, s, r, h, hs => by
    unfold iterate at h
    injection h with h
    subst h
    exact hs
  | n + 1, s, r, h, hs => by
    unfold iterate at h
    rw [bind_ok] at h
    obtain ⟨s', h1, h2⟩ := h
    exact iterate_inv f P step n s' r h2 (step s s' h1 hs)

theorem dmrg1Sweep_one_site (hL : H.A.length ≤ 1) {se se' : Sweep 𝕜 × List ℝ}
    (h : dmrg1Sweep k H qd numiter se = .ok se') : se'.2 = se.2 ++ [0] := by
  obtain ⟨s1, e1, s2, e2, s3, h1, h2, _, rfl⟩ := dmrg1Sweep_unfold h
  have hr : List.range (H.A.length - 1) = [] := by
    have : H.A.length - 1 = 0 := by omega
    rw [this]; rfl
  rw [hr] at h1 h2
  simp only [foldIdx, List.foldlM, pure, Except.pure, Except.ok.injEq, Prod.mk.injEq, List.reverse_nil, List.map_nil] at h1 h2
  obtain ⟨_, rfl⟩ := h1
  obtain ⟨_, rfl⟩ := h2
  rfl

theorem dmrg2Sweep_one_site (hL : H.A.length ≤ 1) {tol : ℝ} {se se' : Sweep 𝕜 × List ℝ}
    (h : dmrg2Sweep k H qd numiter tol se = .ok se') : se'.2 = se.2 ++ [0] := by
  obtain ⟨s1, e1, s2, e2, s3, h1, h2, _, rfl⟩ := dmrg2Sweep_unfold h
  have hr1 : List.range (H.A.length - 2) = [] := by
    have : H.A.length - 2 = 0 := by omega
    rw [this]; rfl
  have hr2 : List.range (H.A.length - 1) = [] := by
    have : H.A.length - 1 = 0 := by omega
    rw [this]; rfl
  rw [hr1] at h1
  rw [hr2] at h2
  simp only [foldIdx, List.foldlM, pure, Except.pure, Except.ok.injEq, Prod.mk.injEq, List.reverse_nil] at h1 h2
  obtain ⟨_, rfl⟩ := h1
  obtain ⟨_, rfl⟩ := h2
  rfl

/-- **single-site DMRG on one site reports the energy `0` for every sweep** -/
theorem dmrg1_one_site_reports_zero {ψ ψ' : MPS 𝕜} (hL : H.A.length ≤ 1) {numsweeps : Nat} {en : List ℝ}
    (h : dmrgSinglesite k H ψ numsweeps numiter = .ok (ψ', en)) : ∀ e ∈ en, e = 0 := by
  obtain ⟨s0, nrm, s, _, hit, _⟩ := dmrgSinglesite_unfold h
  have := iterate_inv (dmrg1Sweep k H ψ.qd numiter) (fun t => ∀ e ∈ t.2, e = 0)
    (fun t t' ht hP => by
      rw [dmrg1Sweep_one_site hL ht]
      intro e he
      rcases List.mem_append.1 he with he | he
      · exact hP e he
      · simpa using he) numsweeps (s0, []) (s, en) hit (fun e he => absurd he (by simp))
  exact this

/-- **two-site DMRG on one site reports the energy `0` for every sweep** (every tolerance) -/
theorem dmrg2_one_site_reports_zero {ψ ψ' : MPS 𝕜} (hL : H.A.length ≤ 1) {tol : ℝ} {numsweeps : Nat} {en : List ℝ}
    (h : dmrgTwosite k H ψ numsweeps numiter tol = .ok (ψ', en)) : ∀ e ∈ en, e = 0 := by
  obtain ⟨s0, nrm, s, _, hit, _⟩ := dmrgTwosite_unfold h
  have := iterate_inv (dmrg2Sweep k H ψ.qd numiter tol) (fun t => ∀ e ∈ t.2, e = 0)
    (fun t t' ht hP => by
      rw [dmrg2Sweep_one_site hL ht]
      intro e he
      rcases List.mem_append.1 he with he | he
      · exact hP e he
      · simpa using he) numsweeps (s0, []) (s, en) hit (fun e he => absurd he (by simp))
  exact this

end Ptn.C10

import PtnModel.Proofs.Evo2RevExample
/-!
# C09 (reversibility part) — single-site TDVP steps are undone by the mirrored steps with negated time

Property (properties.jsonl): *… With exact local exponentials, single-site steps with dt followed by the same number of
steps with -dt return the initial state for any bond dimension and any complex dt, once the result is multiplied by the
norm reported by the second call (which is one for purely imaginary dt), because the integrator is symmetric.*

Model: `Ptn.Evo.tdvp1Left`, `tdvp1Right`, `localHamiltonianStep`, `localBondStep` (`PtnModel/Model/Evolution.lean`),
`Ptn.Krylov.expmKrylov`, `Ptn.BondOps.qr`, tied to `pytenet/evolution.py`, `krylov.py`, `bond_ops.py` by the correspondences
of `harness/props/c09.py`, `c15.py`, `c11.py`.  Scalars: any `RCLike 𝕜`, exact arithmetic.

## What is true, and what is proved

One time step is the symmetric composition
`S(dt) = A_0(dt/2) B_1(-dt/2) A_1(dt/2) … A_{L-1}(dt) … A_1(dt/2) B_1(-dt/2) A_0(dt/2)` of one-site steps `A_i` and zero-site
steps `B_i`, whose effective operators are the compressions `P H P` of `H` to subspaces fixed by the *current* gauge
(left-orthonormal tensors left of the centre, right-orthonormal ones right of it).  `S(-dt)` visits the same steps in
reverse order with negated times, so `S(-dt) ∘ S(dt) = id` **provided every local step of the second call sees the
projector of the mirrored step of the first call**.  Two things stand in the way of a literal argument:

1. *The QR gauge is not pinned down by the kernel contract* (and not even by a deterministic kernel): the bond matrix
   handed back to the QR in the second call is the *evolved* one, so the isometry returned there is `Q' = Q · U` with a
   unitary `U ≠ 1` in general (already a phase for bond dimension one and complex `dt`).  The effective operators of the
   second call are therefore not equal to those of the first call but *intertwined* with them by `U`.  This is handled
   here: `krylov_cancel_gauge`, `bond_step_cancel_gauge`, `qr_gauge_unique`.
2. *The projectors only coincide if the column spaces coincide*, i.e. if no QR changes a bond dimension and the bond
   matrices met by the second call have full rank.  If a bond dimension shrinks during the first call (a bond dimension
   larger than the QR can support from the other side) or an evolved bond matrix is rank deficient, the completion of the
   column space chosen by the QR is arbitrary and the second call evolves with a *different* compression of `H`:
   reversibility then fails in general.  "For any bond dimension" in the property text has to be read with these
   regularity conditions (`PairExact.hsq`, `hsq'`, `hinv` below); they hold for generic states whose bond dimensions are
   stable under left- and right-orthonormalisation.

Proved (for every complex `dt`):
* `krylov_cancel_gauge`     : `expm_krylov(A', G · expm_krylov(A, v, dt), -dt) = G · v` whenever `A' G = G A` (both runs
  exhausted, `E(a) E(-a) = 1`); `G = 1` is `C09.krylov_cancel`;
* `qr_gauge_unique`         : two factorisations `Q' C' = P C1` with left isometries of the same shape and a
  right-invertible `C'` differ by a unitary: `Q' = P U`, `C' = Uᴴ C1`, `U Uᴴ = 1`;
* `bond_step_cancel_gauge`  : the zero-site step built from `Q` with `(Ct, δ)`, followed by the zero-site step built from
  `Q' = Q U` with `(Uᴴ C1, -δ)`, returns `Uᴴ Ct` (with `U = 1`: the zero-site analogue of `C09.step_cancel`);
* `tdvp1_reversible_partial`: **one step of the right-to-left half sweep with `dt` followed by the mirrored step of the
  left-to-right half sweep with `-dt` restores every amplitude of the dense state** (`tdvp1Right` at site `j+1`, then
  `tdvp1Left` at site `j`): the last step of a call with `dt` is undone by the first step of a call with `-dt`, across
  the change of QR gauge.
Not proved: the composition over complete sweeps and several time steps (the gauge unitaries accumulate on all bonds left
of the centre, which needs the gauge relation between the two calls as a loop invariant, in both sweep directions), and
the initial re-orthonormalisation of the second call; see `obligations/C09.json`.
-/
set_option linter.unusedSectionVars false

namespace Ptn.C09
open Ptn Ptn.Krylov Ptn.Evo Ptn.BondOps Ptn.Ortho Ptn.Env Finset

variable {𝕜 : Type} [RCLike 𝕜] [DecidableEq 𝕜]
local notation "conj" => starRingEnd 𝕜

omit [DecidableEq 𝕜] in
/-- **Krylov exponentials of intertwined operators cancel up to the intertwiner.**  `Afun` acts as the Hermitian matrix
`M`, `Afun'` as the Hermitian matrix `M'`, and `M' G = G M` (entrywise on `n × n`, `n = len v`).  The run on
`(Afun, v, dt, m)` returns `r`; the run on `(Afun', v', -dt, m')` with `v' = G r` returns `r'`; both runs exhaust their
Krylov spaces; `E(-dt x) E(dt x) = 1`.  Then `r' = G v`.  (`G` need not be unitary; `m`, `m'` are unrelated.) -/
theorem krylov_cancel_gauge {Afun Afun' : List 𝕜 → List 𝕜} {dnorm : List 𝕜 → ℝ}
    {deigh : List ℝ → List ℝ → List ℝ × Mat ℝ} {dexp : 𝕜 → 𝕜} {dexpm : Mat 𝕜 → Mat 𝕜} (hN : NormContract dnorm)
    {v r v' r' : List 𝕜} {m m' : Nat} {M M' G : Nat → Nat → 𝕜}
    (hM : ActsAs v.length Afun M) (hH : ∀ i j, i < v.length → j < v.length → conj (M i j) = M j i)
    (hM' : ActsAs v.length Afun' M') (hH' : ∀ i j, i < v.length → j < v.length → conj (M' i j) = M' j i)
    (hG : ∀ i j, i < v.length → j < v.length →
      ∑ l ∈ range v.length, M' i l * G l j = ∑ l ∈ range v.length, G i l * M l j) {dt : 𝕜}
    (hE : C15.EighAt Afun dnorm deigh v m) (hX : C15.Exhausted Afun dnorm v m)
    (h : expmKrylov Afun dnorm deigh dexp dexpm v dt m true = .ok r)
    (hv'l : v'.length = v.length)
    (hv' : ∀ i, i < v.length → vget v' i = ∑ j ∈ range v.length, G i j * vget r j)
    (hE' : C15.EighAt Afun' dnorm deigh v' m') (hX' : C15.Exhausted Afun' dnorm v' m')
    (h' : expmKrylov Afun' dnorm deigh dexp dexpm v' (-dt) m' true = .ok r')
    (hexp : ∀ x : ℝ, dexp (-dt * (x : 𝕜)) * dexp (dt * (x : 𝕜)) = 1) :
    r'.length = v.length ∧ ∀ i, i < v.length → vget r' i = ∑ j ∈ range v.length, G i j * vget v j :=
  Evo.krylov_cancel_gauge hN hM hH hM' hH' hG hE hX h hv'l hv' hE' hX' h' hexp

omit [DecidableEq 𝕜] in
/-- **QR gauge freedom.**  `P` and `Q'` are left isometries of the same shape `(d, D_l, D)`, `C1` and `C'` matrices with
`Q' · C' = P · C1` (as `(d, D_l, n)` tensors), and `C'` has a right inverse.  Then there is a `D × D` matrix `U` with
`U Uᴴ = 1`, `Q' = P · U` and `C' = Uᴴ · C1` (explicitly `U = C1 · C'⁻¹`; it is unitary because a square isometry is). -/
theorem qr_gauge_unique {P Q' : T3 𝕜} {C1 C' Cinv : Mat 𝕜} (hP : LeftIso P) (hQ' : LeftIso Q')
    (q0 : Q'.d0 = P.d0) (q1 : Q'.d1 = P.d1) (q2 : Q'.d2 = P.d2)
    (hprod : ∀ s a j, s < P.d0 → a < P.d1 → j < C1.n →
      ∑ p ∈ range P.d2, Q'.f s a p * C'.f p j = ∑ q ∈ range P.d2, P.f s a q * C1.f q j)
    (hinv : ∀ p p', p < P.d2 → p' < P.d2 → ∑ j ∈ range C1.n, C'.f p j * Cinv.f j p' = if p = p' then 1 else 0) :
    ∃ U : Mat 𝕜, U.m = P.d2 ∧ U.n = P.d2 ∧
      (∀ q r, q < P.d2 → r < P.d2 → ∑ p ∈ range P.d2, U.f q p * star (U.f r p) = if q = r then 1 else 0) ∧
      (∀ s a p, s < P.d0 → a < P.d1 → p < P.d2 → Q'.f s a p = ∑ q ∈ range P.d2, P.f s a q * U.f q p) ∧
      (∀ p j, p < P.d2 → j < C1.n → C'.f p j = ∑ r ∈ range P.d2, star (U.f r p) * C1.f r j) :=
  qr_gauge_left hP hQ' q0 q1 q2 hprod hinv

/-- **A forward and a backward zero-site step cancel across a change of the QR gauge.**  `Q` and `Q' = Q · U` (`U` square,
`U Uᴴ = 1`) are site tensors of the same shape; `BLn`, `BLn'` are the left blocks
`contraction_operator_step_left(Q, Q, W, BL)` resp. `…(Q', Q', W, BL)`; the one-site operator between `BL` and `BR` is
well-dimensioned and Hermitian.  `_local_bond_step(BLn, BR, Ct, δ, m)` returns `C1`; `_local_bond_step(BLn', BR, C', -δ, m')`
with `C' = Uᴴ C1` returns `C1'`; both Lanczos runs exhaust their Krylov spaces; `E(a) E(-a) = 1`.  Then `C1' = Uᴴ Ct`, for
every complex `δ`.  For `U = 1`, `Q' = Q`: a zero-site step is undone by the zero-site step with negated time. -/
theorem bond_step_cancel_gauge {k : EvoKernels 𝕜 ℝ} {BL BR : T3 𝕜} {W : T4 𝕜} {Q Q' BLn BLn' : T3 𝕜} {n : Nat}
    {U Ct C1 C' C1' : Mat 𝕜} {δ : 𝕜} {m m' : Nat} (hN : NormContract k.cnorm)
    (hF : LocalFits BL BR W Q.d0 Q.d1 n) (hH : LocalHermitian BL BR W Q.d0 Q.d1 n)
    (q0 : Q'.d0 = Q.d0) (q1 : Q'.d1 = Q.d1) (q2 : Q'.d2 = Q.d2) (hUm : U.m = Q.d2) (hUn : U.n = Q.d2)
    (hUU : ∀ q r, q < Q.d2 → r < Q.d2 → ∑ p ∈ range Q.d2, U.f q p * star (U.f r p) = if q = r then 1 else 0)
    (hQ' : ∀ s a p, s < Q.d0 → a < Q.d1 → p < Q.d2 → Q'.f s a p = ∑ q ∈ range Q.d2, Q.f s a q * U.f q p)
    (hBLn : Op.opStepLeft Q Q W BL = .ok BLn) (hBLn' : Op.opStepLeft Q' Q' W BL = .ok BLn')
    (hCtm : Ct.m = Q.d2) (hCtn : Ct.n = n)
    (hE : C15.EighAt (localBondFun BLn BR Ct.m Ct.n) k.cnorm k.deigh (flat2 Ct) m)
    (hX : C15.Exhausted (localBondFun BLn BR Ct.m Ct.n) k.cnorm (flat2 Ct) m)
    (h1 : localBondStep k BLn BR Ct δ m = .ok C1)
    (hC'm : C'.m = Q.d2) (hC'n : C'.n = n)
    (hC' : ∀ p b, p < Q.d2 → b < n → C'.f p b = ∑ r ∈ range Q.d2, star (U.f r p) * C1.f r b)
    (hE' : C15.EighAt (localBondFun BLn' BR C'.m C'.n) k.cnorm k.deigh (flat2 C') m')
    (hX' : C15.Exhausted (localBondFun BLn' BR C'.m C'.n) k.cnorm (flat2 C') m')
    (h2 : localBondStep k BLn' BR C' (-δ) m' = .ok C1')
    (hexp : ∀ x : ℝ, k.dexp (δ * (x : 𝕜)) * k.dexp (-δ * (x : 𝕜)) = 1) :
    C1'.m = Q.d2 ∧ C1'.n = n ∧
      ∀ p b, p < Q.d2 → b < n → C1'.f p b = ∑ r ∈ range Q.d2, star (U.f r p) * Ct.f r b :=
  bondStep_cancel_gauge hN hF hH q0 q1 q2 hUm hUn hUU hQ' hBLn hBLn' hCtm hCtn hE hX h1 hC'm hC'n hC' hE' hX' h2 hexp

/-- **One backward-sweep step of single-site TDVP is undone by the mirrored forward-sweep step with negated time
(partial reversibility).**  `s` is a sweep state in mixed-canonical form with centre `j+1` (`Canon`, the invariant of the
sweeps, `Props/C10.lean`); `tdvp1Right … dt` at site `j+1` (QR of `A[j+1]ᵀ`, new `BR[j]`, zero-site step with `-dt/2`, push
into `A[j]`, one-site step with `dt/2` at `j`) returns `s'`, and `tdvp1Left … (-dt)` at site `j` (one-site step with `-dt/2`,
QR of `A[j]`, new `BL[j+1]`, zero-site step with `+dt/2`, push into `A[j+1]`) applied to `s'` returns `s''`.  Then every
amplitude of the dense state of `s''` equals that of `s` — for every complex `dt`, every Hermitian MPO and every number of
Krylov iterations — under:
* `SweepCtx` (QR / norm / `eigh_tridiagonal` contracts, `H` shaped and Hermitian);
* `hex` : for the intermediate results of the two calls (`PairData`, the conclusions of `tdvp1Right_unfold` /
  `tdvp1Left_unfold`; they are determined by the calls) `PairExact` holds: the four Lanczos runs exhaust their Krylov
  spaces (exact local exponentials), both QR calls keep the bond dimension `D_{j+1}`, and the triangular factor returned
  by the second QR has a right inverse (full rank);
* `E(a) E(-a) = 1` for the scalar exponential oracle.
What is missing for the full clause of C09 (`_partial`): the composition of these pairs over complete sweeps and several
time steps — the second QR returns `Q' = Q · U` with a unitary `U ≠ 1`, so the state after the pair equals `s` only up to
this gauge on bond `j+1`, and the gauges accumulate; the initial re-orthonormalisation of the second call; the mirrored
pair (`tdvp1Left … dt`, then `tdvp1Right … (-dt)`) and the middle step. -/
theorem tdvp1_reversible_partial {k : EvoKernels 𝕜 ℝ} {H : MPO 𝕜} {qd : List Int} {numiter : Nat}
    (ctx : SweepCtx k H qd numiter) {s s' s'' : Sweep 𝕜} {j : Nat} {dt : 𝕜}
    (h : Canon H qd s (j + 1))
    (hR : tdvp1Right k H qd dt numiter s (j + 1) = .ok s') (hL : tdvp1Left k H qd (-dt) numiter s' j = .ok s'')
    (hex : ∀ Q C qb BRn C1 Ap2 A1' Q' C' qb' BLn' C1',
      PairData k H qd numiter s j dt Q C qb BRn C1 Ap2 A1' Q' C' qb' BLn' C1' →
      PairExact k H numiter s j C qb BRn C1 Ap2 C' qb' BLn')
    (hexp : ∀ (a : 𝕜) (x : ℝ), k.dexp (a * (x : 𝕜)) * k.dexp (-a * (x : 𝕜)) = 1)
    {σ : List Nat} (hσ : σ ∈ digitsU qd.length H.A.length) : (cur qd s'').amp σ = (cur qd s).amp σ :=
  tdvp1_pair_reversible ctx h hR hL hex hexp hσ

/-! ## non-vacuity

As in `Props/C09.lean`, joint satisfiability of *successful runs* with `C15.Exhausted` is exhibited on the vector level
(`krylov_cancel_gauge`); for the tensor-level lemmas all other hypotheses are exhibited (kernels `exK`: `dexp ≡ 1`, so
`E(a) E(-a) = 1`; one Lanczos iteration, `C15.EighAt` by `eighAt_one`). -/

omit [RCLike 𝕜] [DecidableEq 𝕜] in
/-- all hypotheses of `krylov_cancel_gauge` hold jointly for a run that really changes the vector (the map `x ↦ 2x` on
`ℝ²`, identity intertwiner, one iteration in both directions, `dt = 1`, `E(y) = y + √(1 + y²)`) -/
example : ∃ (Afun Afun' : List ℝ → List ℝ) (M M' G : Nat → Nat → ℝ) (dnorm : List ℝ → ℝ)
    (deigh : List ℝ → List ℝ → List ℝ × Mat ℝ) (dexp : ℝ → ℝ) (v r v' r' : List ℝ) (dt : ℝ),
    NormContract dnorm ∧ ActsAs v.length Afun M ∧
    (∀ i j, i < v.length → j < v.length → (starRingEnd ℝ) (M i j) = M j i) ∧
    ActsAs v.length Afun' M' ∧ (∀ i j, i < v.length → j < v.length → (starRingEnd ℝ) (M' i j) = M' j i) ∧
    (∀ i j, i < v.length → j < v.length →
      ∑ l ∈ range v.length, M' i l * G l j = ∑ l ∈ range v.length, G i l * M l j) ∧
    C15.EighAt Afun dnorm deigh v 1 ∧ C15.Exhausted Afun dnorm v 1 ∧
    expmKrylov Afun dnorm deigh dexp id v dt 1 true = .ok r ∧
    v'.length = v.length ∧ (∀ i, i < v.length → vget v' i = ∑ j ∈ range v.length, G i j * vget r j) ∧
    C15.EighAt Afun' dnorm deigh v' 1 ∧ C15.Exhausted Afun' dnorm v' 1 ∧
    expmKrylov Afun' dnorm deigh dexp id v' (-dt) 1 true = .ok r' ∧
    (∀ x : ℝ, dexp (-dt * (RCLike.ofReal x : ℝ)) * dexp (dt * (RCLike.ofReal x : ℝ)) = 1) ∧ vget r 0 ≠ vget v 0 :=
  gauge_cancel_nonvacuous

/-- hypotheses of `qr_gauge_unique`: the left isometry `(1, 0)` (shape `(2, 1, 1)`) with `C1 = C' = C'⁻¹ = (1)` -/
example : LeftIso exA ∧ (∀ s a j, s < exA.d0 → a < exA.d1 → j < exU.n →
      ∑ p ∈ range exA.d2, exA.f s a p * exU.f p j = ∑ q ∈ range exA.d2, exA.f s a q * exU.f q j) ∧
    (∀ p p', p < exA.d2 → p' < exA.d2 → ∑ j ∈ range exU.n, exU.f p j * exU.f j p' = if p = p' then 1 else 0) := by
  refine ⟨?_, fun _ _ _ _ _ _ => rfl, ?_⟩
  · intro p p' hp hp'
    have hp0 : p = 0 := by have : p < 1 := hp; omega
    have hp0' : p' = 0 := by have : p' < 1 := hp'; omega
    subst hp0 hp0'
    show ∑ s ∈ range 2, ∑ a ∈ range 1, star (exA.f s a 0) * exA.f s a 0 = _
    simp [Evo.exA]
  · intro p p' hp hp'
    have hp0 : p = 0 := by have : p < 1 := hp; omega
    have hp0' : p' = 0 := by have : p' < 1 := hp'; omega
    subst hp0 hp0'
    show ∑ j ∈ range 1, (1 : ℂ) * 1 = _
    simp

/-- hypotheses of `bond_step_cancel_gauge` other than `C15.Exhausted` and the backward run: the Hermitian one-site
operator `exW` between trivial blocks, `Q = Q' = (1, 0)`, `U = (1)`, a successful forward zero-site step on `exC = (1)` -/
example : ∃ BLn C1 : _,
    NormContract exK.cnorm ∧ LocalFits (ones111 : T3 ℂ) ones111 exW exA.d0 exA.d1 1 ∧
    LocalHermitian (ones111 : T3 ℂ) ones111 exW exA.d0 exA.d1 1 ∧ exU.m = exA.d2 ∧ exU.n = exA.d2 ∧
    (∀ q r, q < exA.d2 → r < exA.d2 → ∑ p ∈ range exA.d2, exU.f q p * star (exU.f r p) = if q = r then 1 else 0) ∧
    (∀ s a p, s < exA.d0 → a < exA.d1 → p < exA.d2 → exA.f s a p = ∑ q ∈ range exA.d2, exA.f s a q * exU.f q p) ∧
    Op.opStepLeft exA exA exW (ones111 : T3 ℂ) = .ok BLn ∧ exC.m = exA.d2 ∧ exC.n = 1 ∧
    C15.EighAt (localBondFun BLn (ones111 : T3 ℂ) exC.m exC.n) exK.cnorm exK.deigh (flat2 exC) 1 ∧
    localBondStep exK BLn ones111 exC Complex.I 1 = .ok C1 ∧
    (adjMul exU C1).m = exA.d2 ∧ (adjMul exU C1).n = 1 ∧
    (∀ p b, p < exA.d2 → b < 1 → (adjMul exU C1).f p b = ∑ r ∈ range exA.d2, star (exU.f r p) * C1.f r b) ∧
    ∀ x : ℝ, exK.dexp (Complex.I * (x : ℂ)) * exK.dexp (-Complex.I * (x : ℂ)) = 1 :=
  exBondGauge

/-- hypotheses of `tdvp1_reversible_partial` other than the two runs and `hex` (which speaks about their intermediate
results): kernel contracts, Hermitian shaped MPO, a sweep state holding `exψC = |01⟩ + i|10⟩` (its first tensor is a left
isometry) in mixed-canonical form with centre `1 = j + 1`, and `E(a) E(-a) = 1` -/
example : ∃ s : Sweep ℂ, SweepCtx exK exOC exψC.qd 1 ∧ Canon exOC exψC.qd s (0 + 1) ∧
    ∀ (a : ℂ) (x : ℝ), exK.dexp (a * (x : ℂ)) * exK.dexp (-a * (x : ℂ)) = 1 := by
  obtain ⟨s, _, _, hcan⟩ := canon_two_sites_one (H := exOC) exψC_adm exOC_shaped rfl rfl exψC_leftIso
  exact ⟨s, exK_ctx, hcan, fun _ _ => by simp [exK]⟩

end Ptn.C09

import PtnModel.Proofs.OrthoMpoFinal
import PtnModel.Proofs.OrthoExample
import PtnModel.Proofs.OrthoKernel
/-!
# Property C01 (`MPS.orthonormalize` / `MPO.orthonormalize`)

"Left- or right-orthonormalizing an MPS or MPO in place returns a non-negative factor equal to the (Frobenius)
norm of the original object, and factor times the new dense vector/matrix equals the original dense vector/matrix.
Afterwards every site tensor is an isometry in the chosen direction, the object has unit norm whenever the original
was non-zero, and no bond is larger than what the neighbouring dimensions allow."

All statements are about the executable model `MPS.orthonormalize` (`PtnModel/Model/MPS.lean`), tied to
`pytenet/mps.py` by the differential correspondence of `./check C01`.  The boolean argument `left` is the mode
(`true` = `'left'`, `false` = `'right'`).

Setting: entries in an `RCLike` field `𝕜` (`ℝ`, `ℂ`), norms in `ℝ`, with the model's `RealLike ℝ 𝕜 = ⟨(↑), re⟩`
(`Ortho.rcRealLike`).  Exact field arithmetic; IEEE rounding is not modelled.

Vocabulary (defined in `PtnModel/Proofs/Ortho*.lean`, `Env*.lean`, `Qr*.lean`):
* `Admissible ψ`   : `ψ.wellFormed = true` (the model's decidable test: `len(qD) = L + 1`, every `A[i]` has shape
                     `(len qd, len qD[i], len qD[i+1])` and is block sparse), `d = len qd ≥ 1`, `L ≥ 1`, every bond
                     dimension `≥ 1`, and the two boundary bonds have dimension one;
* `digitsU d L`    : the digit lists `s` of length `L` with entries `< d` (index set of the dense vector);
  `ψ.amp s`        : the dense amplitude `(∏ₖ Aₖ[sₖ])₀₀` (`MPS.amp`);
* `ShapeAt dqr B`  : the shape clause of the kernel contract at `B` (`Q : m × min m n`, `R : min m n × n` for
                     `m, n ≥ 1`);
* `LeftIso A`      : `Σ_{s,a} conj(A[s,a,b]) A[s,a,b'] = δ_{b b'}`;  `RightIso A` : `Σ_{s,b} conj(A[s,a,b]) A[s,a',b] = δ_{a a'}`.

* MPO: `MpoAdmissible o` (the same with `MPO.wellFormed`), `o.elem s t` the dense matrix element `(∏ₖ Aₖ[sₖ,tₖ])₀₀`
  (`MPO.elem`), `LeftIso4 A` : `Σ_{s,t,a} conj(A[s,t,a,b]) A[s,t,a,b'] = δ_{b b'}`, `RightIso4 A` mirrored.
  The MPO statements are obtained from the same sweep theorems: an MPO tensor with fused physical index
  `(s, t) ↦ s·d + t` and physical charges `qd ⊕ (-qd)` is an MPS tensor, and the right sweep is the left sweep of the
  mirrored chain (`PtnModel/Proofs/OrthoMpo*.lean`, `OrthoMirror.lean`).

The dense kernel `np.linalg.qr(·, mode='reduced')` is the oracle argument `dqr`.  Its contract `QRKernel dqr` is a
hypothesis: the contract of C11 (shapes, `Q R = B`, orthonormal columns of `Q`) plus *the in-range diagonal entries
of `R` are real* — the fact behind `nrm = T[0, 0, 0].real` in the code.  `ortho_ok`, `ortho_wf`, `ortho_bond` hold
for every kernel satisfying only the shape clause.
-/
namespace Ptn.C01
open Ptn.Ortho Ptn.Env Ptn.BondOps Finset

variable {𝕜 : Type} [RCLike 𝕜] [DecidableEq 𝕜]
attribute [local instance] rcRealLike

/-- Contract of `np.linalg.qr(B, mode='reduced')`: the contract of C11 and real diagonal entries of `R`. -/
structure QRKernel (dqr : Mat 𝕜 → Mat 𝕜 × Mat 𝕜) : Prop where
  contract : C11.QRContract dqr
  realDiag : ∀ (B : Mat 𝕜) (p : Nat), p < (dqr B).2.m → p < (dqr B).2.n →
    star ((dqr B).2.f p p) = (dqr B).2.f p p

variable {dqr : Mat 𝕜 → Mat 𝕜 × Mat 𝕜} {ψ ψ' : MPS 𝕜} {nrm : ℝ} {left : Bool}

/-- 1. No exception: on admissible input `orthonormalize` returns a pair `(ψ', nrm)` in both modes, for EVERY
kernel that returns factors of the right shapes (in particular the trailing factor passes
`assert T.shape == (1, 1, 1)`). -/
theorem ortho_ok (hshape : ∀ B, ShapeAt dqr B) (hadm : Admissible ψ) (left : Bool) :
    ∃ ψ' nrm, MPS.orthonormalize (ρ := ℝ) dqr ψ left = .ok (ψ', nrm) := by
  cases left with
  | true => exact mps_left_ok hshape hadm
  | false => exact mps_right_ok hshape hadm

/-- 2. The result is admissible again (well-formed: charge lists of the right lengths, tensors block sparse w.r.t.
the NEW bond charges; boundary bonds still of dimension one), with the same physical charges and length — for every
kernel with the shape clause. -/
theorem ortho_wf (hshape : ∀ B, ShapeAt dqr B) (hadm : Admissible ψ)
    (hrun : MPS.orthonormalize dqr ψ left = .ok (ψ', nrm)) :
    Admissible ψ' ∧ ψ'.qd = ψ.qd ∧ ψ'.A.length = ψ.A.length :=
  (runOf_mps hadm.nonempty hrun).adm hshape hadm

/-- 3. `nrm` times the new dense vector is the original dense vector, entry by entry. -/
theorem ortho_dense (hc : QRKernel dqr) (hadm : Admissible ψ)
    (hrun : MPS.orthonormalize dqr ψ left = .ok (ψ', nrm))
    {s : List Nat} (hs : s ∈ digitsU ψ.qd.length ψ.A.length) : (nrm : 𝕜) * ψ'.amp s = ψ.amp s :=
  (runOf_mps hadm.nonempty hrun).dense hc.contract.shape hc.contract.product hc.realDiag hadm hs

/-- 4. Every site tensor of the result is an isometry in the chosen direction. -/
theorem ortho_isometry (hc : QRKernel dqr) (hadm : Admissible ψ)
    (hrun : MPS.orthonormalize dqr ψ left = .ok (ψ', nrm)) :
    ∀ B ∈ ψ'.A, if left then LeftIso B else RightIso B :=
  (runOf_mps hadm.nonempty hrun).iso hc.contract.shape hc.contract.iso hadm

/-- 5a. The returned factor is non-negative (any kernel, any input). -/
theorem ortho_nonneg (hrun : MPS.orthonormalize dqr ψ left = .ok (ψ', nrm)) : 0 ≤ nrm := by
  by_cases hne : ψ.A = []
  · unfold MPS.orthonormalize at hrun
    rw [hne] at hrun
    injection hrun with h
    injection h with _ h2
    rw [← h2]
    exact zero_le_one
  · exact (runOf_mps hne hrun).nonneg

/-- 5c. The result has unit norm.  (In exact arithmetic this holds unconditionally: for the zero state, e.g. charge
sectors without overlap, the sweep returns the dummy isometries and `nrm = 0`.  In particular it holds "whenever the
original was non-zero".) -/
theorem ortho_unit (hc : QRKernel dqr) (hadm : Admissible ψ)
    (hrun : MPS.orthonormalize dqr ψ left = .ok (ψ', nrm)) :
    ∑ s ∈ digitsU ψ.qd.length ψ.A.length, ‖ψ'.amp s‖ ^ 2 = 1 :=
  (runOf_mps hadm.nonempty hrun).unit hc.contract.shape hc.contract.iso hadm

/-- 5b. The returned factor is the norm of the original dense vector: `nrm² = Σ_s |ψ[s]|²` (and `nrm ≥ 0`). -/
theorem ortho_norm_sq (hc : QRKernel dqr) (hadm : Admissible ψ)
    (hrun : MPS.orthonormalize dqr ψ left = .ok (ψ', nrm)) :
    nrm ^ 2 = ∑ s ∈ digitsU ψ.qd.length ψ.A.length, ‖ψ.amp s‖ ^ 2 :=
  norm_sq_of (fun _ hs => ortho_dense hc hadm hrun hs) (ortho_unit hc hadm hrun)

/-- 6. No bond is larger than what the neighbouring dimensions allow: in left mode
`D'_{i+1} ≤ min(d · D'_i, D_{i+1})`, in right mode `D'_i ≤ min(d · D'_{i+1}, D_i)` (`D = len qD[·]` before,
`D'` after) — for every kernel with the shape clause. -/
theorem ortho_bond (hshape : ∀ B, ShapeAt dqr B) (hadm : Admissible ψ)
    (hrun : MPS.orthonormalize dqr ψ left = .ok (ψ', nrm)) {i : Nat} (hi : i < ψ.A.length) :
    if left then
      (ψ'.qD.getD (i + 1) []).length ≤ min (ψ.qd.length * (ψ'.qD.getD i []).length) (ψ.qD.getD (i + 1) []).length
    else
      (ψ'.qD.getD i []).length ≤ min (ψ.qd.length * (ψ'.qD.getD (i + 1) []).length) (ψ.qD.getD i []).length :=
  (runOf_mps hadm.nonempty hrun).bond hshape hadm hi


/-! ## MPO -/

section mpo
variable {o o' : MPO 𝕜}

/-- 7.1 No exception on admissible MPOs, both modes, every kernel with the shape clause
(`assert T.shape == (1, 1, 1, 1)` passes). -/
theorem ortho_mpo_ok (hshape : ∀ B, ShapeAt dqr B) (hadm : MpoAdmissible o) (left : Bool) :
    ∃ o' nrm, MPO.orthonormalize (ρ := ℝ) dqr o left = .ok (o', nrm) :=
  mpo_ok hshape hadm left

/-- 7.2 The resulting MPO is admissible again (well-formed w.r.t. the new bond charges, boundary bonds of dimension
one), same physical charges and length. -/
theorem ortho_mpo_wf (hshape : ∀ B, ShapeAt dqr B) (hadm : MpoAdmissible o)
    (hrun : MPO.orthonormalize dqr o left = .ok (o', nrm)) :
    MpoAdmissible o' ∧ o'.qd = o.qd ∧ o'.A.length = o.A.length :=
  mpo_wf hshape hadm hrun

/-- 7.3 `nrm` times the new dense matrix is the original dense matrix, entry by entry. -/
theorem ortho_mpo_dense (hc : QRKernel dqr) (hadm : MpoAdmissible o)
    (hrun : MPO.orthonormalize dqr o left = .ok (o', nrm))
    {s t : List Nat} (hs : s ∈ digitsU o.qd.length o.A.length) (ht : t ∈ digitsU o.qd.length o.A.length) :
    (nrm : 𝕜) * o'.elem s t = o.elem s t :=
  mpo_dense hc.contract.shape hc.contract.product hc.realDiag hadm hrun hs ht

/-- 7.4 Every site tensor of the resulting MPO is an isometry in the chosen direction. -/
theorem ortho_mpo_isometry (hc : QRKernel dqr) (hadm : MpoAdmissible o)
    (hrun : MPO.orthonormalize dqr o left = .ok (o', nrm)) :
    ∀ B ∈ o'.A, if left then LeftIso4 B else RightIso4 B :=
  mpo_iso hc.contract.shape hc.contract.iso hadm hrun

/-- 7.5a The returned factor is non-negative. -/
theorem ortho_mpo_nonneg (hrun : MPO.orthonormalize dqr o left = .ok (o', nrm)) : 0 ≤ nrm :=
  mpo_nonneg hrun

/-- 7.5b The returned factor is the Frobenius norm of the original dense matrix. -/
theorem ortho_mpo_norm_sq (hc : QRKernel dqr) (hadm : MpoAdmissible o)
    (hrun : MPO.orthonormalize dqr o left = .ok (o', nrm)) :
    nrm ^ 2 = ∑ s ∈ digitsU o.qd.length o.A.length, ∑ t ∈ digitsU o.qd.length o.A.length, ‖o.elem s t‖ ^ 2 :=
  mpo_norm_sq hc.contract.shape hc.contract.product hc.contract.iso hc.realDiag hadm hrun

/-- 7.5c The resulting MPO has unit Frobenius norm (unconditionally in exact arithmetic). -/
theorem ortho_mpo_unit (hc : QRKernel dqr) (hadm : MpoAdmissible o)
    (hrun : MPO.orthonormalize dqr o left = .ok (o', nrm)) :
    ∑ s ∈ digitsU o.qd.length o.A.length, ∑ t ∈ digitsU o.qd.length o.A.length, ‖o'.elem s t‖ ^ 2 = 1 :=
  mpo_unit hc.contract.shape hc.contract.iso hadm hrun

/-- 7.6 Bond bounds for MPOs: `D'_{i+1} ≤ min(d² · D'_i, D_{i+1})` in left mode, mirrored in right mode. -/
theorem ortho_mpo_bond (hshape : ∀ B, ShapeAt dqr B) (hadm : MpoAdmissible o)
    (hrun : MPO.orthonormalize dqr o left = .ok (o', nrm)) {i : Nat} (hi : i < o.A.length) :
    if left then
      (o'.qD.getD (i + 1) []).length ≤
        min (o.qd.length * o.qd.length * (o'.qD.getD i []).length) (o.qD.getD (i + 1) []).length
    else
      (o'.qD.getD i []).length ≤
        min (o.qd.length * o.qd.length * (o'.qD.getD (i + 1) []).length) (o.qD.getD i []).length :=
  mpo_bond hshape hadm hrun hi

end mpo

/-! ## Non-vacuity

Kernel: `QrExists.fullQR` over `ℝ` satisfies the contract of C11 for ALL matrices (`C11.fullQR_contract`) and its
`R` has a real diagonal (trivially over `ℝ`).  Input: `Ortho.exψ = |01⟩ + |10⟩`, two sites, physical charges `[0, 1]`,
bond charges `[0], [0, 1], [1]` (two sectors on the middle bond), `‖ψ‖² = 2`; its complex variant `exψC`; the MPO
`Ortho.exO = Z ⊗ 1 + 1 ⊗ Z` (bond dimension 2).  Over `ℂ` the kernel `Ortho.realQR` (below) satisfies the contract. -/

/-- the contract `QRKernel` is satisfiable -/
theorem fullQR_kernel : QRKernel (QrExists.fullQR : Mat ℝ → Mat ℝ × Mat ℝ) :=
  ⟨C11.fullQR_contract, fun _ _ _ _ => rfl⟩

/-- non-vacuity of `ortho_ok`, `ortho_wf`, `ortho_dense`, `ortho_isometry`, `ortho_nonneg`, `ortho_unit`,
`ortho_norm_sq`, `ortho_bond`: in both modes all hypotheses (including the successful run) hold for `exψ` with the
kernel `fullQR`; the state is non-zero and the returned factor satisfies `nrm² = 2`. -/
example (left : Bool) : ∃ (ψ' : MPS ℝ) (nrm : ℝ),
    QRKernel (QrExists.fullQR : Mat ℝ → Mat ℝ × Mat ℝ) ∧ (∀ B, ShapeAt (QrExists.fullQR : Mat ℝ → Mat ℝ × Mat ℝ) B) ∧
    Admissible exψ ∧ MPS.orthonormalize QrExists.fullQR exψ left = .ok (ψ', nrm) ∧
    [0, 1] ∈ digitsU exψ.qd.length exψ.A.length ∧ 0 < exψ.A.length ∧ nrm ^ 2 = 2 := by
  obtain ⟨ψ', nrm, hrun⟩ := ortho_ok (dqr := QrExists.fullQR) fullQR_kernel.contract.shape exψ_adm left
  refine ⟨ψ', nrm, fullQR_kernel, fullQR_kernel.contract.shape, exψ_adm, hrun, by decide, by decide, ?_⟩
  rw [ortho_norm_sq fullQR_kernel exψ_adm hrun, exψ_normsq]

/-- non-vacuity of the `ortho_mpo_*` theorems: in both modes all hypotheses hold for `exO = Z ⊗ 1 + 1 ⊗ Z` (bond
dimension 2) with the kernel `fullQR`; the operator is non-zero and `nrm² = 8`. -/
example (left : Bool) : ∃ (o' : MPO ℝ) (nrm : ℝ),
    QRKernel (QrExists.fullQR : Mat ℝ → Mat ℝ × Mat ℝ) ∧ MpoAdmissible exO ∧
    MPO.orthonormalize QrExists.fullQR exO left = .ok (o', nrm) ∧
    [0, 1] ∈ digitsU exO.qd.length exO.A.length ∧ 0 < exO.A.length ∧ nrm ^ 2 = 8 := by
  obtain ⟨o', nrm, hrun⟩ := ortho_mpo_ok (dqr := QrExists.fullQR) fullQR_kernel.contract.shape exO_adm left
  refine ⟨o', nrm, fullQR_kernel, exO_adm, hrun, by decide, by decide, ?_⟩
  rw [ortho_mpo_norm_sq fullQR_kernel exO_adm hrun, exO_normsq]

omit [DecidableEq 𝕜] in
/-- the contract `QRKernel` is satisfiable over every `RCLike` field (`ℝ`, `ℂ`): `Ortho.realQR` is `fullQR` with the
phases of the diagonal of `R` moved into `Q` -/
theorem realQR_kernel : QRKernel (realQR : Mat 𝕜 → Mat 𝕜 × Mat 𝕜) :=
  ⟨realQR_contract, realQR_realDiag⟩

/-- non-vacuity with complex entries: `exψC = |01⟩ + i|10⟩` over `ℂ` with the kernel `realQR`, both modes -/
example (left : Bool) : ∃ (ψ' : MPS ℂ) (nrm : ℝ),
    QRKernel (realQR : Mat ℂ → Mat ℂ × Mat ℂ) ∧ Admissible exψC ∧
    MPS.orthonormalize realQR exψC left = .ok (ψ', nrm) ∧ nrm ^ 2 = 2 := by
  obtain ⟨ψ', nrm, hrun⟩ := ortho_ok (dqr := realQR) (realQR_kernel (𝕜 := ℂ)).contract.shape exψC_adm left
  refine ⟨ψ', nrm, realQR_kernel, exψC_adm, hrun, ?_⟩
  rw [ortho_norm_sq realQR_kernel exψC_adm hrun, exψC_normsq]

end Ptn.C01

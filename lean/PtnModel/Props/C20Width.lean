import PtnModel.Props.C18
/-!
# C20 (layer widths) — the minimality property of `minimum_vertex_cover` behind `siteNodeCounts = (graphWidths g).tail`

`Props/C20Chain.lean` proves the bound "bond dimension ≤ number of non-zero chains" as an inequality: the nodes created in
round `k` of the sweep of `from_opchains` contain layer `k + 1` of the returned graph.  The *equality* (every node of a
round's id block is reachable from the start node) needs that no vertex of the returned cover is superfluous:
a `V` vertex of the cover gets its incoming graph edges exactly from the bipartite edges `(i, j)` with `i` outside the `U`
part of the cover (`vCoverStep`: the edges still in `s.edges` after the `u_cover` loop), so it is reachable iff such an
edge exists.  This file proves that property of the cover from "cover size = maximum matching size" (König,
`Ptn.C18.cover_minimum_matching_maximum`): removing a superfluous vertex would give a smaller cover.

* `cover_vertex_needed_V` -- every `V` vertex of the returned cover has a neighbour outside the `U` part of the cover;
* `cover_vertex_needed_U` -- every `U` vertex of the returned cover has a neighbour outside the `V` part of the cover
  (so every node created by the `u_cover` loop hands on at least one half-chain: no dead ends);
* `cover_irredundant_partial` -- both together.  *Partial* with respect to the C20 equality: the transport of this fact
  through the sweep (reachability of every node of a round's block, and the evaluation of `graphWidths` on the returned
  graph) is not proved; the equality stays validated per correspondence case.
-/
namespace Ptn.C20
open Ptn.Bip

/-- a `V` vertex of the cover returned by `minimum_vertex_cover` has a neighbour that is not in the `U` part of the cover -/
theorem cover_vertex_needed_V {g : BGraph} (hg : g.WF) {uc vc : List Nat}
    (h : minimumVertexCover g = .ok (uc, vc)) {v : Nat} (hv : v ∈ vc) : ∃ u, g.Edge u v ∧ u ∉ uc := by
  obtain ⟨m, _, _, hc, _, _, hmin⟩ := Ptn.C18.cover_minimum_matching_maximum hg h
  by_contra hno
  have hall : ∀ u, g.Edge u v → u ∈ uc := by
    intro u he
    by_contra hu
    exact hno ⟨u, he, hu⟩
  have hc' : IsCover g uc (vc.erase v) := by
    intro u' v' he
    by_cases hq : v' = v
    · subst hq; exact Or.inl (hall u' he)
    · rcases hc u' v' he with q | q
      · exact Or.inl q
      · exact Or.inr ((List.mem_erase_of_ne hq).2 q)
  have := hmin uc (vc.erase v) hc'
  rw [List.length_erase_of_mem hv] at this
  have hpos : 0 < vc.length := List.length_pos_of_mem hv
  omega

/-- a `U` vertex of the cover returned by `minimum_vertex_cover` has a neighbour that is not in the `V` part of the cover -/
theorem cover_vertex_needed_U {g : BGraph} (hg : g.WF) {uc vc : List Nat}
    (h : minimumVertexCover g = .ok (uc, vc)) {u : Nat} (hu : u ∈ uc) : ∃ v, g.Edge u v ∧ v ∉ vc := by
  obtain ⟨m, _, _, hc, _, _, hmin⟩ := Ptn.C18.cover_minimum_matching_maximum hg h
  by_contra hno
  have hall : ∀ v, g.Edge u v → v ∈ vc := by
    intro v he
    by_contra hv
    exact hno ⟨v, he, hv⟩
  have hc' : IsCover g (uc.erase u) vc := by
    intro u' v' he
    by_cases hq : u' = u
    · subst hq; exact Or.inr (hall v' he)
    · rcases hc u' v' he with q | q
      · exact Or.inl ((List.mem_erase_of_ne hq).2 q)
      · exact Or.inr q
  have := hmin (uc.erase u) vc hc'
  rw [List.length_erase_of_mem hu] at this
  have hpos : 0 < uc.length := List.length_pos_of_mem hu
  omega

/-- **No vertex of the returned cover is superfluous** (the minimality property of `minimum_vertex_cover` that the
equality `siteNodeCounts = (graphWidths g).tail` rests on).  *Partial*: see the file header. -/
theorem cover_irredundant_partial {g : BGraph} (hg : g.WF) {uc vc : List Nat}
    (h : minimumVertexCover g = .ok (uc, vc)) :
    (∀ v ∈ vc, ∃ u, g.Edge u v ∧ u ∉ uc) ∧ (∀ u ∈ uc, ∃ v, g.Edge u v ∧ v ∉ vc) :=
  ⟨fun _ hv => cover_vertex_needed_V hg h hv, fun _ hu => cover_vertex_needed_U hg h hu⟩

/-- non-vacuity: on the example graph of C18 (`minimumVertexCover exK = ([2], [0])`) -/
example : exK.WF ∧ minimumVertexCover exK = .ok ([2], [0]) ∧
    (∃ u, exK.Edge u 0 ∧ u ∉ [2]) ∧ (∃ v, exK.Edge 2 v ∧ v ∉ [0]) := by
  obtain ⟨h1, h2⟩ := cover_irredundant_partial exK_wf exK_mvc
  exact ⟨exK_wf, exK_mvc, h1 0 (by simp), h2 2 (by simp)⟩

end Ptn.C20

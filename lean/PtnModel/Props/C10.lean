import PtnModel.Proofs.EvoDmrgMain
import PtnModel.Proofs.EvoExample
/-!
# C10 — DMRG energies are variational, consistent with the returned state and monotone

Property (properties.jsonl): *For a Hermitian MPO, single-site and two-site DMRG leave a normalized state whose energy
expectation value equals the last reported energy; every reported energy is at least the exact ground-state energy (of
the quantum-number sector of the state), never exceeds the energy of the normalized starting state, and the sequence of
reported energies is non-increasing (two-site: for zero split tolerance).  On a complete manifold with enough local
Lanczos iterations the exact ground-state energy is reached; the Hamiltonian is never modified.*

Model: `Ptn.Evo.dmrgSinglesite`, `Ptn.Evo.dmrgTwosite` and their sub-steps (`PtnModel/Model/Evolution.lean`), tied to
`pytenet/minimization.py` by the correspondence of `harness/props/c10.py`.  Scalars: any `RCLike 𝕜`, reals `ℝ`, exact
arithmetic; kernel contracts are hypotheses (`NormContract k.cnorm`, `C15.EighAt … k.deigh …`).

Vocabulary as in `Props/C08.lean` (`frob3`, `inner3`, `LocalFits`, `LocalHermitian`, bridge `local_of_blocks`).

Further vocabulary (`PtnModel/Proofs/EvoCanon.lean`, `EvoDmrg.lean`): `normSq ψ d = Σ_σ conj(ψ[σ]) ψ[σ]` and
`energy ψ H d = Σ_{σ,τ} conj(ψ[σ]) H[σ,τ] ψ[τ]` over the digit lists `digitsU d L` (dense meaning `MPS.amp`, `MPO.elem`);
`DenseLower H d μ` : `μ Σ|x_σ|² ≤ Re Σ conj(x_σ) H[σ,τ] x_τ` for *every* dense vector `x` (e.g. `μ` = the exact ground-state
energy of the dense operator); `SweepCtx k H qd` : the kernel contracts (`C01.QRKernel k.dqr`, `NormContract k.cnorm`,
`C15.EighAt … k.deigh … numiter` for all Lanczos runs with `numiter` iterations — implied by `C15.EighContract k.deigh`,
`SweepCtx.of_contract`), `H` shaped with physical dimension `len qd` and Hermitian as a dense matrix, `len qd ≥ 1`.

Proved here:
* `local_ritz` — the site-local optimisation `_minimize_local_energy` returns a normalised tensor whose local energy is the
  reported value, which lies between every lower bound of the effective operator and the Rayleigh quotient of the start;
* `qr_step_dense` — the gauge moves of the sweep (QR of the centre tensor, remainder pushed into the neighbour, updated
  environment block) keep the mixed-canonical invariant and every amplitude of the dense state;
* `dmrg1_energy_consistent`, `dmrg1_variational` — all global clauses for single-site DMRG (`L ≥ 2`), for every number of
  sweeps and every number of Lanczos iterations `≥ 1`, whenever the call returns.
See `obligations/C10.json` for what is not proved (two-site DMRG, exactness on a complete manifold, totality, sector-wise
ground-state energy).
-/
set_option linter.unusedSectionVars false

namespace Ptn.C10
open Ptn Ptn.Krylov Ptn.Evo Ptn.BondOps Ptn.Ortho Ptn.Env Finset

variable {𝕜 : Type} [RCLike 𝕜] [DecidableEq 𝕜]
local notation "conj" => starRingEnd 𝕜

/-- **Bridge from C04.**  Environment blocks of a shaped MPS with a shaped MPO whose dense matrix is Hermitian give a
well-dimensioned Hermitian effective one-site operator. -/
theorem local_of_blocks {ψ : MPS 𝕜} {o : MPO 𝕜} {d : Nat} (hψ : C04.MPS.Shaped ψ d) (ho : C04.MPO.Shaped o d)
    (hL : ψ.A.length = o.A.length) (hH : C04.MPO.DenseHermitian o d) {i : Nat} (hi : i < ψ.A.length) {W : T4 𝕜}
    (hW : o.A[i]? = some W) {Lb Rb : T3 𝕜} (hLb : IsLeftBlock ψ o d i Lb) (hRb : IsRightBlock ψ o d (i + 1) Rb) :
    LocalFits Lb Rb W d (mpsBond ψ i) (mpsBond ψ (i + 1)) ∧
    LocalHermitian Lb Rb W d (mpsBond ψ i) (mpsBond ψ (i + 1)) :=
  Evo.local_of_blocks hψ ho hL hH hi hW hLb hRb

/-- **Local Ritz pair.**  `_minimize_local_energy(L, R, W, A, numiter)` with a Hermitian effective operator
`H_eff X = apply_local_hamiltonian(L, R, W, X)` returns `(en, Aopt)` such that, for every iteration count `≥ 1`:
* `Aopt` has the shape of `A` and Frobenius norm one; the start tensor `A` is non-zero;
* `⟨Aopt, H_eff Aopt⟩ = en` (the reported value is the energy of the returned tensor);
* `en ‖A‖² ≤ ⟨A, H_eff A⟩` (the reported value does not exceed the Rayleigh quotient of the start tensor);
* every lower bound `μ` of the quadratic form of `H_eff` (`μ ‖X‖² ≤ ⟨X, H_eff X⟩` for all `X` of the shape of `A`)
  satisfies `μ ≤ en`. -/
theorem local_ritz {k : EvoKernels 𝕜 ℝ} {L R : T3 𝕜} {W : T4 𝕜} {A Aopt : T3 𝕜} {en : ℝ} {numiter : Nat}
    (hN : NormContract k.cnorm) (hF : LocalFits L R W A.d0 A.d1 A.d2) (hH : LocalHermitian L R W A.d0 A.d1 A.d2)
    (hE : C15.EighAt (localHFun L R W A.d0 A.d1 A.d2) k.cnorm k.deigh (flat3 A) numiter)
    (h : minimizeLocalEnergy k L R W A numiter = .ok (en, Aopt)) :
    Aopt.d0 = A.d0 ∧ Aopt.d1 = A.d1 ∧ Aopt.d2 = A.d2 ∧ frob3 Aopt = 1 ∧ 0 < frob3 A ∧
    (∀ T, Op.applyLocalHamiltonian L R W Aopt = .ok T → inner3 Aopt T = ((en : ℝ) : 𝕜)) ∧
    (∀ T, Op.applyLocalHamiltonian L R W A = .ok T → en * frob3 A ≤ RCLike.re (inner3 A T)) ∧
    (∀ μ : ℝ, (∀ X T : T3 𝕜, X.d0 = A.d0 → X.d1 = A.d1 → X.d2 = A.d2 → Op.applyLocalHamiltonian L R W X = .ok T →
        μ * frob3 X ≤ RCLike.re (inner3 X T)) → μ ≤ en) :=
  minimize_spec hN hF hH hE h

/-- **Gauge move keeps the dense state.**  In mixed-canonical form with centre `c` (`Canon`), replacing the tensors of
the sites `c, c+1` by `(X', Y')` with the same two-site product (`X'` a left isometry, e.g. `X' = Q`, `Y' = R · A[c+1]` from
`local_orthonormalize_left_qr`) and storing `BL[c+1] = contraction_operator_step_left(X', X', W[c], BL[c])` gives the
mixed-canonical form with centre `c+1`, and no amplitude of the dense state changes. -/
theorem qr_step_dense {H : MPO 𝕜} {qd : List Int} {s : Sweep 𝕜} {c : Nat} (h : Canon H qd s c)
    (hH : C04.MPO.Shaped H qd.length) (hc1 : c + 1 < H.A.length) {X' Y' : T3 𝕜} {qb : List Int} {BLn : T3 𝕜}
    (hX' : X'.d0 = qd.length ∧ X'.d1 = (getQ s c).length ∧ X'.d2 = qb.length)
    (hY' : Y'.d0 = qd.length ∧ Y'.d1 = qb.length ∧ Y'.d2 = (getQ s (c + 2)).length) (hq : 0 < qb.length)
    (hiso : LeftIso X')
    (hprod : ∀ s0 a s1 y, s0 < qd.length → a < (getA s c).d1 → s1 < qd.length → y < (getA s (c + 1)).d2 →
      ∑ x ∈ range X'.d2, X'.f s0 a x * Y'.f s1 x y =
        ∑ x ∈ range (getA s c).d2, (getA s c).f s0 a x * (getA s (c + 1)).f s1 x y)
    (hBL : Op.opStepLeft X' X' (H.A.getD c zeroT4) (getBL s c) = .ok BLn) :
    Canon H qd (⟨(s.A.setIfInBounds c X').setIfInBounds (c + 1) Y', s.qD.setIfInBounds (c + 1) qb,
      s.BL.setIfInBounds (c + 1) BLn, s.BR⟩ : Sweep 𝕜) (c + 1) ∧
    ∀ σ, σ ∈ digitsU qd.length H.A.length →
      (cur qd (⟨(s.A.setIfInBounds c X').setIfInBounds (c + 1) Y', s.qD.setIfInBounds (c + 1) qb,
        s.BL.setIfInBounds (c + 1) BLn, s.BR⟩ : Sweep 𝕜)).amp σ = (cur qd s).amp σ :=
  canon_left h hH hc1 hX' hY' hq hiso hprod hBL

/-- **Gauge move to the left** (centre `j+1 → j`; `Y'` a right isometry, `X' = A[j] · Rᵀ`, new `BR[j]`). -/
theorem qr_step_dense_right {H : MPO 𝕜} {qd : List Int} {s : Sweep 𝕜} {j : Nat} (h : Canon H qd s (j + 1))
    (hH : C04.MPO.Shaped H qd.length) {X' Y' : T3 𝕜} {qb : List Int} {BRn : T3 𝕜}
    (hX' : X'.d0 = qd.length ∧ X'.d1 = (getQ s j).length ∧ X'.d2 = qb.length)
    (hY' : Y'.d0 = qd.length ∧ Y'.d1 = qb.length ∧ Y'.d2 = (getQ s (j + 2)).length) (hq : 0 < qb.length)
    (hiso : RightIso Y')
    (hprod : ∀ s0 a s1 y, s0 < qd.length → a < (getA s j).d1 → s1 < qd.length → y < (getA s (j + 1)).d2 →
      ∑ x ∈ range X'.d2, X'.f s0 a x * Y'.f s1 x y =
        ∑ x ∈ range (getA s j).d2, (getA s j).f s0 a x * (getA s (j + 1)).f s1 x y)
    (hBR : Op.opStepRight Y' Y' (H.A.getD (j + 1) zeroT4) (getBR s (j + 1)) = .ok BRn) :
    Canon H qd (⟨(s.A.setIfInBounds (j + 1) Y').setIfInBounds j X', s.qD.setIfInBounds (j + 1) qb,
      s.BL, s.BR.setIfInBounds j BRn⟩ : Sweep 𝕜) j ∧
    ∀ σ, σ ∈ digitsU qd.length H.A.length →
      (cur qd (⟨(s.A.setIfInBounds (j + 1) Y').setIfInBounds j X', s.qD.setIfInBounds (j + 1) qb,
        s.BL, s.BR.setIfInBounds j BRn⟩ : Sweep 𝕜)).amp σ = (cur qd s).amp σ :=
  canon_right h hH hX' hY' hq hiso hprod hBR

/-- **Single-site DMRG returns a normalised state whose energy is the last reported energy.**  For a Hermitian MPO with
`L ≥ 2` sites, an admissible start state, every number of sweeps `≥ 1` and every number of Lanczos iterations, if
`calculate_ground_state_local_singlesite` returns `(ψ', en)` then `en` has one entry per sweep, `Σ_σ |ψ'[σ]|² = 1`, and
`⟨ψ'|H|ψ'⟩` equals the last entry of `en`. -/
theorem dmrg1_energy_consistent {k : EvoKernels 𝕜 ℝ} {H : MPO 𝕜} {ψ ψ' : MPS 𝕜} {numiter : Nat}
    (ctx : SweepCtx k H ψ.qd numiter)
    (hL2 : 2 ≤ H.A.length) (hadm : Admissible ψ) {numsweeps : Nat} (hns : 1 ≤ numsweeps) {en : List ℝ}
    (h : dmrgSinglesite k H ψ numsweeps numiter = .ok (ψ', en)) :
    en.length = numsweeps ∧ ∑ σ ∈ digitsU ψ.qd.length ψ'.A.length, ‖ψ'.amp σ‖ ^ 2 = 1 ∧
      ∃ elast, en.getLast? = some elast ∧ energy ψ' H ψ.qd.length = ((elast : ℝ) : 𝕜) := by
  obtain ⟨ψ1, nrm, E0, _, _, hlen, hn, he, _, _⟩ := dmrg1_main ctx hL2 rfl hadm h
  refine ⟨hlen, ?_, ?_⟩
  · rw [normSq_real] at hn
    exact_mod_cast hn
  · cases hl : en.getLast? with
    | none =>
      rw [List.getLast?_eq_none_iff] at hl
      rw [hl] at hlen
      simp at hlen
      omega
    | some e =>
      rw [hl] at he
      exact ⟨e, rfl, he⟩

/-- **Single-site DMRG is variational and monotone.**  Under the same hypotheses every reported energy `e` satisfies
* `μ ≤ e` for every lower bound `μ` of the dense operator (in particular its exact ground-state energy),
* `e ‖ψ‖² ≤ ⟨ψ|H|ψ⟩` for the start state `ψ` (the energy of the normalised start state is not exceeded; `⟨ψ|H|ψ⟩` is real),
and the sequence of reported energies is non-increasing. -/
theorem dmrg1_variational {k : EvoKernels 𝕜 ℝ} {H : MPO 𝕜} {ψ ψ' : MPS 𝕜} {numiter : Nat}
    (ctx : SweepCtx k H ψ.qd numiter)
    (hL2 : 2 ≤ H.A.length) (hadm : Admissible ψ) {numsweeps : Nat} {en : List ℝ}
    (h : dmrgSinglesite k H ψ numsweeps numiter = .ok (ψ', en)) :
    (∀ e ∈ en, (∀ μ, DenseLower H ψ.qd.length μ → μ ≤ e) ∧
      e * ∑ σ ∈ digitsU ψ.qd.length ψ.A.length, ‖ψ.amp σ‖ ^ 2 ≤ RCLike.re (energy ψ H ψ.qd.length)) ∧
    en.Pairwise (· ≥ ·) := by
  obtain ⟨ψ1, nrm, E0, ho, hE0, _, _, _, hall, hpw⟩ := dmrg1_main ctx hL2 rfl hadm h
  refine ⟨fun e he => ⟨(hall e he).2, ?_⟩, hpw⟩
  obtain ⟨hen, _⟩ := start_energy ctx.qr hadm ho H
  rw [hen, hE0, ← C01.ortho_norm_sq ctx.qr hadm ho]
  have : RCLike.re (((nrm ^ 2 : ℝ) : 𝕜) * ((E0 : ℝ) : 𝕜)) = nrm ^ 2 * E0 := by
    rw [← RCLike.ofReal_mul, RCLike.ofReal_re]
  rw [this, mul_comm]
  exact mul_le_mul_of_nonneg_left (hall e he).1 (sq_nonneg nrm)

/-! ## non-vacuity

Concrete objects as in `Props/C08.lean` (`PtnModel/Proofs/EvoExample.lean`).  The hypothesis "the driver returns `.ok`" is
witnessed by the runs of the correspondence check (`harness/props/c10.py`), not by a Lean term over `ℂ`. -/

/-- hypotheses of `dmrg1_energy_consistent` / `dmrg1_variational` (other than the run): kernel contracts with one Lanczos
iteration, Hermitian shaped MPO with `L = 2`, admissible start state (the lower-bound clause is universally quantified
over `μ` with `DenseLower`, so it needs no witness).  The hypothesis `Canon` of `qr_step_dense` is what `prologue_inv`
(`Proofs/EvoDmrgMain.lean`) establishes for the state after the prologue. -/
example : SweepCtx exK exOC exψC.qd 1 ∧ 2 ≤ exOC.A.length ∧ Admissible exψC :=
  ⟨exK_ctx, by decide, exψC_adm⟩

/-- hypotheses of `local_ritz` including the successful run: the Hermitian one-site operator `[[1, i], [-i, -1]]`, start
tensor `(1, 0)`, one Lanczos iteration -/
example : ∃ r : ℝ × T3 ℂ, NormContract exK.cnorm ∧ LocalFits (ones111 : T3 ℂ) ones111 exW exA.d0 exA.d1 exA.d2 ∧
    LocalHermitian (ones111 : T3 ℂ) ones111 exW exA.d0 exA.d1 exA.d2 ∧
    C15.EighAt (localHFun (ones111 : T3 ℂ) ones111 exW exA.d0 exA.d1 exA.d2) exK.cnorm exK.deigh (flat3 exA) 1 ∧
    minimizeLocalEnergy exK ones111 ones111 exW exA 1 = .ok r := by
  obtain ⟨r, h⟩ := minimize_ok_one (k := exK) rfl (L := ones111) (R := ones111) (W := exW) sqrtNorm_contract exA_pos
  exact ⟨r, sqrtNorm_contract, exLocal_fits, exLocal_herm, eighAt_one _ _ _, h⟩

/-- hypotheses of `local_of_blocks`: blocks of `exψC` with the Hermitian MPO `exOC` exist -/
example : C04.MPS.Shaped exψC 2 ∧ C04.MPO.Shaped exOC 2 ∧ C04.MPO.DenseHermitian exOC 2 ∧
    (∃ Lb : T3 ℂ, IsLeftBlock exψC exOC 2 0 Lb) ∧ ∃ Rb : T3 ℂ, IsRightBlock exψC exOC 2 1 Rb := by
  have hψ : C04.MPS.Shaped exψC 2 := ⟨exψC_adm.nonempty, exψC_adm.chain3⟩
  obtain ⟨BR, _, _, h⟩ := C04.right_blocks_dense hψ exOC_shaped rfl
  obtain ⟨E, _, hE⟩ := h 0 (by decide)
  exact ⟨hψ, exOC_shaped, exOC_herm, ⟨_, C04.left_block_zero_dense hψ exOC_shaped rfl⟩, E, hE⟩

end Ptn.C10

import PtnModel.Proofs.EvoTdvp
import PtnModel.Proofs.EvoExample
/-!
# C08 — real-time TDVP conserves norm and energy; structure of the integrators

Property (properties.jsonl): *For a Hermitian MPO and a purely imaginary time step, single-site TDVP and two-site TDVP
with zero split tolerance keep the norm of the evolved state at one and its energy expectation value at the initial
value, for any number of steps and any number of local Krylov iterations.  Both integrators return the norm of the input
state, evolve the normalized input, never modify the Hamiltonian, and single-site TDVP never increases a bond dimension.*

Model: `Ptn.Evo.integrateLocalSinglesite`, `Ptn.Evo.integrateLocalTwosite` and their sub-steps
(`PtnModel/Model/Evolution.lean`), tied to `pytenet/evolution.py` by the correspondence of `harness/props/c08.py`.
Scalars: any `RCLike 𝕜`, reals `ℝ`, exact arithmetic.  The instances `HasConj 𝕜`, `RealLike ℝ 𝕜` of the model are the scoped
instances of `Ptn.Krylov` (conjugation, `RCLike.ofReal`, `RCLike.re`).

Kernel contracts (hypotheses, never axioms): `C01.QRKernel k.dqr` (or only its shape clause `ShapeAt`) for
`np.linalg.qr`; `NormContract k.cnorm` for `np.linalg.norm`; `C15.EighAt … k.deigh …` (implied by
`C15.EighContract k.deigh`) for `eigh_tridiagonal`; `‖k.dexp (i x)‖ = 1` for `np.exp`.

Vocabulary (`PtnModel/Proofs/Evo*.lean`): `frob3 A = Σ |A[s,a,b]|²`, `inner3 B A = Σ conj(B[s,a,b]) A[s,a,b]`
(`frob2`, `inner2` for bond matrices); `LocalFits L R W d0 d1 d2` — the dimension checks of
`apply_local_hamiltonian(L, R, W, ·)` pass on tensors of shape `(d0, d1, d2)` and the output has that shape;
`LocalHermitian L R W d0 d1 d2` — `⟨B, H_eff A⟩ = conj ⟨A, H_eff B⟩` for all such tensors (`BondFits`, `BondHermitian`
for the zero-site map).  `local_of_blocks` / `bond_of_blocks` derive both from the environment blocks of C04 of a
Hermitian MPO.

Further vocabulary (`PtnModel/Proofs/EvoCanon.lean`, `EvoDmrg.lean`): `normSq ψ d = Σ_σ conj(ψ[σ]) ψ[σ]`,
`energy ψ H d = Σ_{σ,τ} conj(ψ[σ]) H[σ,τ] ψ[τ]` over the digit lists `digitsU d L`; `SweepCtx k H qd numiter` : the kernel
contracts (`C01.QRKernel k.dqr`, `NormContract k.cnorm`, `C15.EighAt … k.deigh … numiter` for all Lanczos runs with `numiter`
iterations — implied by `C15.EighContract k.deigh`), `H` shaped (C04) with physical dimension `len qd` and Hermitian as a
dense matrix, `len qd ≥ 1`.

What is proved here:
* structure: `tdvp1_returns_norm`, `tdvp2_returns_norm`, `tdvp1_only_psi`, `tdvp2_only_psi`, `tdvp1_bond_mono`;
* the local conservation laws, for every iteration count: `local_step_unitary`, `local_step_energy`,
  `bond_step_unitary`, `bond_step_energy`, with the bridges `local_of_blocks`, `bond_of_blocks`;
* `bond_projection_rect` : the zero-site operator behind a new left isometry is the projected one-site operator (valid
  for rectangular bond matrices, which C04's `bond_projection` does not cover) and is Hermitian;
* `tdvp1_norm_energy` : **single-site TDVP with a purely imaginary time step keeps the norm of the evolved state at one
  and its energy at the energy of the normalised input**, for any number of steps and any number of Krylov iterations.
See `obligations/C08.json` for what is not proved (two-site TDVP, totality).
-/
set_option linter.unusedSectionVars false

namespace Ptn.C08
open Ptn Ptn.Krylov Ptn.Evo Ptn.BondOps Ptn.Ortho Ptn.Env Finset

variable {𝕜 : Type} [RCLike 𝕜] [DecidableEq 𝕜]
local notation "conj" => starRingEnd 𝕜

/-! ## structure of the integrators -/

/-- **Returned value (single-site).**  On an admissible state, under the QR contract, the second component returned by
`integrate_local_singlesite` is the factor `nrm` of the initial `orthonormalize(mode='right')`: it is non-negative and its
square is the squared norm `Σ_s |ψ[s]|²` of the *input* state — for every Hamiltonian, time step, number of steps and
number of Krylov iterations. -/
theorem tdvp1_returns_norm {k : EvoKernels 𝕜 ℝ} (hc : C01.QRKernel k.dqr) {H : MPO 𝕜} {ψ ψ' : MPS 𝕜} {dt : 𝕜}
    {numsteps numiter : Nat} {nrm : ℝ} (hadm : Admissible ψ)
    (h : integrateLocalSinglesite k H ψ dt numsteps numiter = .ok (ψ', nrm)) :
    (∃ ψ1, MPS.orthonormalize (ρ := ℝ) k.dqr ψ false = .ok (ψ1, nrm)) ∧ 0 ≤ nrm ∧
      nrm ^ 2 = ∑ s ∈ digitsU ψ.qd.length ψ.A.length, ‖ψ.amp s‖ ^ 2 := by
  obtain ⟨ψ1, ho, _⟩ := integrate1_struct hc.contract.shape hadm h
  exact ⟨⟨ψ1, ho⟩, C01.ortho_nonneg (dqr := k.dqr) ho, C01.ortho_norm_sq hc hadm ho⟩

/-- **Returned value (two-site).** -/
theorem tdvp2_returns_norm {k : EvoKernels 𝕜 ℝ} (hc : C01.QRKernel k.dqr) {H : MPO 𝕜} {ψ ψ' : MPS 𝕜} {dt : 𝕜}
    {numsteps numiter : Nat} {tol nrm : ℝ} (hadm : Admissible ψ)
    (h : integrateLocalTwosite k H ψ dt numsteps numiter tol = .ok (ψ', nrm)) :
    (∃ ψ1, MPS.orthonormalize (ρ := ℝ) k.dqr ψ false = .ok (ψ1, nrm)) ∧ 0 ≤ nrm ∧
      nrm ^ 2 = ∑ s ∈ digitsU ψ.qd.length ψ.A.length, ‖ψ.amp s‖ ^ 2 := by
  obtain ⟨ψ1, ho, _⟩ := integrate2_struct hc.contract.shape hadm h
  exact ⟨⟨ψ1, ho⟩, C01.ortho_nonneg (dqr := k.dqr) ho, C01.ortho_norm_sq hc hadm ho⟩

/-- **Only the state is updated (single-site).**  The model is functional: the Hamiltonian `H` is an input only and the
call returns a new state and a number; that the Python code does not mutate `H` is carried by the correspondence check
(which compares `H` before and after), not by this theorem.  What is proved: the returned state has the physical charges,
the number of sites and the number of bonds of the input, and the call requires `H.nsites = psi.nsites`. -/
theorem tdvp1_only_psi {k : EvoKernels 𝕜 ℝ} (hshape : ∀ B, ShapeAt k.dqr B) {H : MPO 𝕜} {ψ ψ' : MPS 𝕜} {dt : 𝕜}
    {numsteps numiter : Nat} {nrm : ℝ} (hadm : Admissible ψ)
    (h : integrateLocalSinglesite k H ψ dt numsteps numiter = .ok (ψ', nrm)) :
    ψ'.qd = ψ.qd ∧ ψ'.A.length = ψ.A.length ∧ ψ'.qD.length = ψ.qD.length ∧ H.A.length = ψ.A.length := by
  obtain ⟨_, _, h1, h2, h3, h4, _⟩ := integrate1_struct hshape hadm h
  exact ⟨h1, h2, h3, h4⟩

/-- **Only the state is updated (two-site)**; the call requires `L ≥ 2`. -/
theorem tdvp2_only_psi {k : EvoKernels 𝕜 ℝ} (hshape : ∀ B, ShapeAt k.dqr B) {H : MPO 𝕜} {ψ ψ' : MPS 𝕜} {dt : 𝕜}
    {numsteps numiter : Nat} {tol nrm : ℝ} (hadm : Admissible ψ)
    (h : integrateLocalTwosite k H ψ dt numsteps numiter tol = .ok (ψ', nrm)) :
    ψ'.qd = ψ.qd ∧ ψ'.A.length = ψ.A.length ∧ ψ'.qD.length = ψ.qD.length ∧ H.A.length = ψ.A.length ∧
      2 ≤ ψ.A.length := by
  obtain ⟨_, _, h1, h2, h3, h4, h5⟩ := integrate2_struct hshape hadm h
  exact ⟨h1, h2, h3, h4, h5⟩

/-- **Single-site TDVP never increases a bond dimension.**  For every kernel with the shape clause, every Hamiltonian,
time step, number of steps and Krylov iterations: every bond dimension of the result is at most the bond dimension after
the initial right-orthonormalisation (state `ψ1`), which is at most the bond dimension of the input. -/
theorem tdvp1_bond_mono {k : EvoKernels 𝕜 ℝ} (hshape : ∀ B, ShapeAt k.dqr B) {H : MPO 𝕜} {ψ ψ' : MPS 𝕜} {dt : 𝕜}
    {numsteps numiter : Nat} {nrm : ℝ} (hadm : Admissible ψ)
    (h : integrateLocalSinglesite k H ψ dt numsteps numiter = .ok (ψ', nrm)) :
    ∃ ψ1, MPS.orthonormalize (ρ := ℝ) k.dqr ψ false = .ok (ψ1, nrm) ∧
      ∀ i, (ψ'.qD.getD i []).length ≤ (ψ1.qD.getD i []).length ∧ (ψ1.qD.getD i []).length ≤ (ψ.qD.getD i []).length := by
  obtain ⟨ψ1, ho, _, _, _, _, hb⟩ := integrate1_struct hshape hadm h
  exact ⟨ψ1, ho, hb⟩

/-! ## the local conservation laws -/

/-- **Bridge from C04 (one site).**  If `Lb`, `Rb` are the environment blocks left and right of site `i` of a shaped MPS
with a shaped MPO whose dense matrix is Hermitian, and `W = H.A[i]`, then the dimension checks of the one-site map pass
and the map is Hermitian. -/
theorem local_of_blocks {ψ : MPS 𝕜} {o : MPO 𝕜} {d : Nat} (hψ : C04.MPS.Shaped ψ d) (ho : C04.MPO.Shaped o d)
    (hL : ψ.A.length = o.A.length) (hH : C04.MPO.DenseHermitian o d) {i : Nat} (hi : i < ψ.A.length) {W : T4 𝕜}
    (hW : o.A[i]? = some W) {Lb Rb : T3 𝕜} (hLb : IsLeftBlock ψ o d i Lb) (hRb : IsRightBlock ψ o d (i + 1) Rb) :
    LocalFits Lb Rb W d (mpsBond ψ i) (mpsBond ψ (i + 1)) ∧
    LocalHermitian Lb Rb W d (mpsBond ψ i) (mpsBond ψ (i + 1)) :=
  Evo.local_of_blocks hψ ho hL hH hi hW hLb hRb

/-- **Bridge from C04 (zero site).** -/
theorem bond_of_blocks {ψ : MPS 𝕜} {o : MPO 𝕜} {d : Nat} (hψ : C04.MPS.Shaped ψ d) (ho : C04.MPO.Shaped o d)
    (hL : ψ.A.length = o.A.length) (hH : C04.MPO.DenseHermitian o d) {j : Nat} (hj : j ≤ ψ.A.length)
    {Lb Rb : T3 𝕜} (hLb : IsLeftBlock ψ o d j Lb) (hRb : IsRightBlock ψ o d j Rb) :
    BondFits Lb Rb (mpsBond ψ j) (mpsBond ψ j) ∧ BondHermitian Lb Rb (mpsBond ψ j) (mpsBond ψ j) :=
  Evo.bond_of_blocks hψ ho hL hH hj hLb hRb

/-- **Local unitarity.**  `_local_hamiltonian_step(L, R, W, A, dt, numiter)` with a Hermitian effective operator and a
purely imaginary time step (`-dt = i t`, `t` real) returns a tensor of the shape and the Frobenius norm of `A`, for
every iteration count. -/
theorem local_step_unitary {k : EvoKernels 𝕜 ℝ} {L R : T3 𝕜} {W : T4 𝕜} {A A1 : T3 𝕜} {dt : 𝕜} {numiter : Nat}
    (hN : NormContract k.cnorm) (hF : LocalFits L R W A.d0 A.d1 A.d2) (hH : LocalHermitian L R W A.d0 A.d1 A.d2)
    (hE : C15.EighAt (localHFun L R W A.d0 A.d1 A.d2) k.cnorm k.deigh (flat3 A) numiter)
    (hexp : ∀ x : ℝ, ‖k.dexp (RCLike.I * (x : 𝕜))‖ = 1) {t : ℝ} (hdt : -dt = RCLike.I * (t : 𝕜))
    (h : localHamiltonianStep k L R W A dt numiter = .ok A1) :
    A1.d0 = A.d0 ∧ A1.d1 = A.d1 ∧ A1.d2 = A.d2 ∧ frob3 A1 = frob3 A :=
  localStep_norm hN hF hH hE hexp hdt h

/-- **Local energy conservation.**  Under the same hypotheses `⟨A1, H_eff A1⟩ = ⟨A, H_eff A⟩`
(`H_eff X = apply_local_hamiltonian(L, R, W, X)`), for every iteration count. -/
theorem local_step_energy {k : EvoKernels 𝕜 ℝ} {L R : T3 𝕜} {W : T4 𝕜} {A A1 : T3 𝕜} {dt : 𝕜} {numiter : Nat}
    (hN : NormContract k.cnorm) (hF : LocalFits L R W A.d0 A.d1 A.d2) (hH : LocalHermitian L R W A.d0 A.d1 A.d2)
    (hE : C15.EighAt (localHFun L R W A.d0 A.d1 A.d2) k.cnorm k.deigh (flat3 A) numiter)
    (hexp : ∀ x : ℝ, ‖k.dexp (RCLike.I * (x : 𝕜))‖ = 1) {t : ℝ} (hdt : -dt = RCLike.I * (t : 𝕜))
    (h : localHamiltonianStep k L R W A dt numiter = .ok A1) {T T1 : T3 𝕜}
    (hT : Op.applyLocalHamiltonian L R W A = .ok T) (hT1 : Op.applyLocalHamiltonian L R W A1 = .ok T1) :
    inner3 A1 T1 = inner3 A T :=
  localStep_energy hN hF hH hE hexp hdt h hT hT1

/-- **Zero-site unitarity** (`_local_bond_step`). -/
theorem bond_step_unitary {k : EvoKernels 𝕜 ℝ} {L R : T3 𝕜} {C C1 : Mat 𝕜} {dt : 𝕜} {numiter : Nat}
    (hN : NormContract k.cnorm) (hF : BondFits L R C.m C.n) (hH : BondHermitian L R C.m C.n)
    (hE : C15.EighAt (localBondFun L R C.m C.n) k.cnorm k.deigh (flat2 C) numiter)
    (hexp : ∀ x : ℝ, ‖k.dexp (RCLike.I * (x : 𝕜))‖ = 1) {t : ℝ} (hdt : -dt = RCLike.I * (t : 𝕜))
    (h : localBondStep k L R C dt numiter = .ok C1) :
    C1.m = C.m ∧ C1.n = C.n ∧ frob2 C1 = frob2 C :=
  bondStep_norm hN hF hH hE hexp hdt h

/-- **Zero-site energy conservation.** -/
theorem bond_step_energy {k : EvoKernels 𝕜 ℝ} {L R : T3 𝕜} {C C1 : Mat 𝕜} {dt : 𝕜} {numiter : Nat}
    (hN : NormContract k.cnorm) (hF : BondFits L R C.m C.n) (hH : BondHermitian L R C.m C.n)
    (hE : C15.EighAt (localBondFun L R C.m C.n) k.cnorm k.deigh (flat2 C) numiter)
    (hexp : ∀ x : ℝ, ‖k.dexp (RCLike.I * (x : 𝕜))‖ = 1) {t : ℝ} (hdt : -dt = RCLike.I * (t : 𝕜))
    (h : localBondStep k L R C dt numiter = .ok C1) {T T1 : Mat 𝕜}
    (hT : Op.applyLocalBondContraction L R C = .ok T) (hT1 : Op.applyLocalBondContraction L R C1 = .ok T1) :
    inner2 C1 T1 = inner2 C T :=
  bondStep_energy hN hF hH hE hexp hdt h hT hT1

/-- **The zero-site operator is the projected one-site operator.**  For a site tensor `Q` and
`BLn = contraction_operator_step_left(Q, Q, W, BL)`: the bond map between `BLn` and `BR` is well-dimensioned on
`Q.d2 × n` matrices (rectangular allowed) and Hermitian whenever the one-site map between `BL` and `BR` is. -/
theorem bond_projection_rect {BL BR : T3 𝕜} {W : T4 𝕜} {Q BLn : T3 𝕜} {n : Nat} (hF : LocalFits BL BR W Q.d0 Q.d1 n)
    (hH : LocalHermitian BL BR W Q.d0 Q.d1 n) (hBLn : Op.opStepLeft Q Q W BL = .ok BLn) :
    BondFits BLn BR Q.d2 n ∧ BondHermitian BLn BR Q.d2 n :=
  bondHermitian_left hF hH hBLn

/-- **Single-site TDVP conserves norm and energy.**  For a Hermitian MPO (`SweepCtx`), an admissible input state, a
purely imaginary time step `dt = i τ`, a real oracle scalar `k.half` (the `0.5` of the code) and `|exp(i x)| = 1`: if
`integrate_local_singlesite` returns `(ψ', nrm)` then — for every number of steps and every number of Krylov
iterations — `Σ_σ |ψ'[σ]|² = 1` and `⟨ψ'|H|ψ'⟩ = ⟨ψ1|H|ψ1⟩`, where `ψ1` is the right-orthonormalised (normalised) input:
`orthonormalize(ψ, 'right') = (ψ1, nrm)`, `nrm · ψ1 = ψ` as dense vectors (`C01.ortho_dense`), so
`⟨ψ|H|ψ⟩ = nrm² ⟨ψ'|H|ψ'⟩`. -/
theorem tdvp1_norm_energy {k : EvoKernels 𝕜 ℝ} {H : MPO 𝕜} {ψ ψ' : MPS 𝕜} {numiter : Nat}
    (ctx : SweepCtx k H ψ.qd numiter) (hexp : ∀ x : ℝ, ‖k.dexp (RCLike.I * (x : 𝕜))‖ = 1)
    {hh τ : ℝ} (hhalf : k.half = ((hh : ℝ) : 𝕜)) {dt : 𝕜} (hdt : dt = RCLike.I * ((τ : ℝ) : 𝕜))
    (hadm : Admissible ψ) {numsteps : Nat} {nrm : ℝ}
    (h : integrateLocalSinglesite k H ψ dt numsteps numiter = .ok (ψ', nrm)) :
    ∑ σ ∈ digitsU ψ.qd.length ψ'.A.length, ‖ψ'.amp σ‖ ^ 2 = 1 ∧
    ∃ ψ1, MPS.orthonormalize (ρ := ℝ) k.dqr ψ false = .ok (ψ1, nrm) ∧
      energy ψ' H ψ.qd.length = energy ψ1 H ψ.qd.length ∧
      energy ψ H ψ.qd.length = ((nrm ^ 2 : ℝ) : 𝕜) * energy ψ' H ψ.qd.length := by
  obtain ⟨ψ1, E0, ho, hE1, hn, hE'⟩ := tdvp1_main ctx hexp hhalf hdt rfl hadm h
  refine ⟨?_, ψ1, ho, hE'.trans hE1.symm, ?_⟩
  · rw [normSq_real] at hn
    exact_mod_cast hn
  · rw [(start_energy ctx.qr hadm ho H).1, hE', hE1]

/-! ## non-vacuity

Concrete objects (`PtnModel/Proofs/EvoExample.lean`): kernels `exK` over `ℂ` (QR kernel `Ortho.realQR`, 2-norm, the
eigen-decomposition of `1 × 1` matrices, `dexp ≡ 1`, `half = 1/2`), the Hermitian two-site MPO `exOC = Z ⊗ 1 + 1 ⊗ Z`, the
admissible two-site state `Ortho.exψC = |01⟩ + i|10⟩`, the genuinely complex Hermitian one-site operator
`exW = [[1, i], [-i, -1]]` between trivial blocks with start tensor `exA = (1, 0)`, the `1 × 1` bond matrix `exC`.
With one Lanczos iteration the per-run contract `C15.EighAt` holds for every map (`eighAt_one`).

The hypothesis "the integrator returns `.ok`" of the driver-level theorems is witnessed by the runs of the
correspondence check (`harness/props/c08.py`, model side over Gaussian rationals), not by a Lean term over `ℂ`; the
examples below show that all *other* hypotheses of those theorems are jointly satisfiable, and that the hypotheses of
the local theorems including the successful run are jointly satisfiable. -/

/-- hypotheses of `tdvp1_returns_norm`, `tdvp2_returns_norm`, `tdvp1_only_psi`, `tdvp2_only_psi`, `tdvp1_bond_mono`
(other than the run) -/
example : C01.QRKernel exK.dqr ∧ (∀ B, ShapeAt exK.dqr B) ∧ Admissible exψC :=
  ⟨⟨realQR_contract, realQR_realDiag⟩, realQR_contract.shape, exψC_adm⟩

/-- hypotheses of `tdvp1_norm_energy` (other than the run): kernel contracts, Hermitian shaped MPO, admissible state,
`|dexp(i x)| = 1`, real `half`, purely imaginary `dt` -/
example : SweepCtx exK exOC exψC.qd 1 ∧ (∀ x : ℝ, ‖exK.dexp (RCLike.I * (x : ℂ))‖ = 1) ∧
    exK.half = (((1 / 2 : ℝ) : ℝ) : ℂ) ∧ Admissible exψC ∧ exOC.A.length = exψC.A.length ∧
    ∃ τ : ℝ, (Complex.I : ℂ) = RCLike.I * ((τ : ℝ) : ℂ) :=
  ⟨exK_ctx, exK_exp, rfl, exψC_adm, rfl, 1, by simp⟩

/-- hypotheses of `local_step_unitary` / `local_step_energy` including the successful run -/
example : ∃ A1 : T3 ℂ, NormContract exK.cnorm ∧ LocalFits (ones111 : T3 ℂ) ones111 exW exA.d0 exA.d1 exA.d2 ∧
    LocalHermitian (ones111 : T3 ℂ) ones111 exW exA.d0 exA.d1 exA.d2 ∧
    C15.EighAt (localHFun (ones111 : T3 ℂ) ones111 exW exA.d0 exA.d1 exA.d2) exK.cnorm exK.deigh (flat3 exA) 1 ∧
    (∀ x : ℝ, ‖exK.dexp (RCLike.I * (x : ℂ))‖ = 1) ∧
    -(-(RCLike.I * (((1 : ℝ) : ℝ) : ℂ))) = RCLike.I * (((1 : ℝ) : ℝ) : ℂ) ∧
    localHamiltonianStep exK ones111 ones111 exW exA (-(RCLike.I * (((1 : ℝ) : ℝ) : ℂ))) 1 = .ok A1 := by
  obtain ⟨A1, h⟩ := localStep_ok_one (k := exK) rfl (L := ones111) (R := ones111) (W := exW) sqrtNorm_contract exA_pos
    (-(RCLike.I * (((1 : ℝ) : ℝ) : ℂ)))
  exact ⟨A1, sqrtNorm_contract, exLocal_fits, exLocal_herm, eighAt_one _ _ _, exK_exp, neg_neg _, h⟩

/-- hypotheses of `bond_step_unitary` / `bond_step_energy` including the successful run -/
example : ∃ C1 : Mat ℂ, NormContract exK.cnorm ∧ BondFits (ones111 : T3 ℂ) ones111 exC.m exC.n ∧
    BondHermitian (ones111 : T3 ℂ) ones111 exC.m exC.n ∧
    C15.EighAt (localBondFun (ones111 : T3 ℂ) ones111 exC.m exC.n) exK.cnorm exK.deigh (flat2 exC) 1 ∧
    -(-(RCLike.I * (((1 : ℝ) : ℝ) : ℂ))) = RCLike.I * (((1 : ℝ) : ℝ) : ℂ) ∧
    localBondStep exK ones111 ones111 exC (-(RCLike.I * (((1 : ℝ) : ℝ) : ℂ))) 1 = .ok C1 := by
  obtain ⟨C1, h⟩ := bondStep_ok_one (k := exK) rfl (L := ones111) (R := ones111) sqrtNorm_contract exC_pos
    (-(RCLike.I * (((1 : ℝ) : ℝ) : ℂ)))
  exact ⟨C1, sqrtNorm_contract, exBond_fits, exBond_herm, eighAt_one _ _ _, neg_neg _, h⟩

/-- hypotheses of `local_of_blocks`, `bond_of_blocks`, `bond_projection_rect`: blocks of the shaped MPS `exψC` with the
Hermitian MPO `exOC` exist (the initial left block and the right blocks computed by the model) -/
example : C04.MPS.Shaped exψC 2 ∧ C04.MPO.Shaped exOC 2 ∧ C04.MPO.DenseHermitian exOC 2 ∧
    (∃ Lb : T3 ℂ, IsLeftBlock exψC exOC 2 0 Lb) ∧ ∃ Rb : T3 ℂ, IsRightBlock exψC exOC 2 1 Rb := by
  have hψ : C04.MPS.Shaped exψC 2 := ⟨exψC_adm.nonempty, exψC_adm.chain3⟩
  obtain ⟨BR, _, _, h⟩ := C04.right_blocks_dense hψ exOC_shaped rfl
  obtain ⟨E, _, hE⟩ := h 0 (by decide)
  exact ⟨hψ, exOC_shaped, exOC_herm, ⟨_, C04.left_block_zero_dense hψ exOC_shaped rfl⟩, E, hE⟩

end Ptn.C08

import PtnModel.Proofs.SpecKrylov
/-!
# C14 — "the Krylov space has at least the requested dimension" versus "no breakdown"

Property (properties.jsonl): *For a Hermitian map and a starting vector whose Krylov space has at least the requested
dimension, the Lanczos iteration returns orthonormal vectors, … ; the Arnoldi iteration does the same for a general map …
If the Krylov space is exhausted earlier the call still returns …*

`Props/C14.lean` states the factorisation relations for whatever the call returns and `lanczos_full` / `arnoldi_full`: the
result is shortened only if a residual norm fell below the threshold `breakdownThr = 100 n 2^-52`.  Here the link between
the property's own hypothesis — a condition on the *dimension of the Krylov space* — and the breakdown test, in exact
arithmetic:

* `krylov_exhausted_of_lanczos_breakdown` : if the last residual of the returned Lanczos data (`k` columns) is exactly zero,
  then `v, A v, …, A^k v` are linearly dependent — an exact breakdown happens only when the Krylov space is exhausted
  (dimension `≤ k`);
* `lanczos_no_breakdown_of_independent`   : contrapositive — if `v, A v, …, A^k v` are linearly independent (Krylov dimension
  `≥ k + 1`), the residual following the `k` returned vectors is NOT zero (its norm, the candidate `β_{k-1}`, is positive), and
  all returned off-diagonals `β_j`, `j < k - 1`, are positive.  With the comparison `β_j = 0` instead of `β_j < threshold` (exact
  arithmetic, threshold `0`) the iteration therefore never stops before `numiter` vectors when the Krylov dimension is
  `≥ numiter`;
* `lanczos_short_only_by_threshold`       : for the model's positive threshold: if the Krylov dimension is `≥ numiter` and the
  result is nevertheless shortened (`k < numiter`), the last residual norm lies strictly between `0` and the threshold —
  the shortening is a pure threshold effect, never an exact breakdown;
* `krylov_exhausted_of_arnoldi_breakdown`, `arnoldi_no_breakdown_of_independent`, `arnoldi_short_only_by_threshold` : the same
  for the Arnoldi iteration and an arbitrary linear map.

What remains open for the positive threshold `100 n 2^-52` (see `obligations/C14.json`): linear independence gives `β_j ≠ 0`
but no quantitative bound `β_j ≥ threshold`; that depends on the scale and conditioning of the Krylov basis (e.g. for
`A = ε·[[0,1],[1,0]]`, `v = e₀`, `ε < 200·2^-52` the Krylov space is two-dimensional and the call with `numiter = 2` returns a
single vector).  So "Krylov dimension `≥ numiter` ⟹ `numiter` vectors are returned" is true for the exact test and false for
the thresholded test; what holds for the thresholded test is `lanczos_short_only_by_threshold`.

"Linear map": `ActsAs n Afun M` (on vectors of length `n` the map is the matrix `M`); Krylov vectors as Mathlib vectors
`(toMatrix n M)^j *ᵥ toVec n v`, `j = 0 … k`.
-/
set_option linter.unusedSectionVars false

namespace Ptn.C14
open Ptn Ptn.Krylov Finset Matrix

variable {𝕜 : Type} [RCLike 𝕜]
local notation "conj" => starRingEnd 𝕜
variable {Afun : List 𝕜 → List 𝕜} {dnorm : List 𝕜 → ℝ}

/-- **Exact Lanczos breakdown ⟹ Krylov space exhausted.**  For a linear Hermitian map, if the residual
`A v_{k-1} - alpha_{k-1} v_{k-1} - beta_{k-2} v_{k-2}` of the returned data (`k = V.n` columns) has norm exactly zero, then the
`k + 1` Krylov vectors `v, A v, …, A^k v` are linearly dependent: all of them lie in the span of the `k` returned vectors. -/
theorem krylov_exhausted_of_lanczos_breakdown (hN : NormContract dnorm) {v : List 𝕜} {numiter : Nat}
    {M : Nat → Nat → 𝕜} (hM : ActsAs v.length Afun M)
    (hH : ∀ i j, i < v.length → j < v.length → conj (M i j) = M j i)
    {alpha beta : List ℝ} {V : Mat 𝕜} (hl : lanczos Afun dnorm v numiter = .ok (alpha, beta, V))
    (hz : dnorm (lanczosResidual Afun alpha beta V (V.n - 1)) = 0) :
    ¬ LinearIndependent 𝕜 (fun j : Fin (V.n + 1) => (toMatrix v.length M ^ (j : ℕ)) *ᵥ toVec v.length v) :=
  krylov_dependent_of_residual_zero hN hM hH hl hz

/-- **No exact breakdown while the Krylov space is not exhausted (exact-arithmetic form of the property's hypothesis).**
For a linear Hermitian map and the returned data (`k = V.n` columns): if `v, A v, …, A^k v` are linearly independent then
* the residual following the returned vectors is not zero: `0 < ‖A v_{k-1} - alpha_{k-1} v_{k-1} - beta_{k-2} v_{k-2}‖` — the
  comparison `β_{k-1} = 0` (threshold `0`) would not have stopped the iteration;
* every returned off-diagonal is positive: `0 < beta_j` for `j < k - 1`.
For the model's positive threshold this does NOT give `k = numiter`: that needs `β_j ≥ 100 n 2^-52`, a quantitative statement
that linear independence alone does not provide. -/
theorem lanczos_no_breakdown_of_independent (hN : NormContract dnorm) {v : List 𝕜} {numiter : Nat}
    {M : Nat → Nat → 𝕜} (hM : ActsAs v.length Afun M)
    (hH : ∀ i j, i < v.length → j < v.length → conj (M i j) = M j i)
    {alpha beta : List ℝ} {V : Mat 𝕜} (hl : lanczos Afun dnorm v numiter = .ok (alpha, beta, V))
    (hind : LinearIndependent 𝕜 (fun j : Fin (V.n + 1) => (toMatrix v.length M ^ (j : ℕ)) *ᵥ toVec v.length v)) :
    0 < dnorm (lanczosResidual Afun alpha beta V (V.n - 1)) ∧ ∀ i, i < beta.length → 0 < beta.getD i 0 := by
  refine ⟨lt_of_le_of_ne (hN.nonneg _) fun h0 => ?_, fun i hi => ?_⟩
  · exact krylov_dependent_of_residual_zero hN hM hH hl h0.symm hind
  · exact ((lanczos_relations hN (hM.isHermitian hH) hl).2.2.1 i hi).1

/-- **A shortened result is a pure threshold effect when the Krylov space is large enough.**  If the Krylov space has
dimension `≥ numiter` (`v, A v, …, A^{numiter-1} v` linearly independent) and fewer than `numiter` vectors are returned, the
norm of the last residual lies strictly between `0` and the threshold `100 n 2^-52`. -/
theorem lanczos_short_only_by_threshold (hN : NormContract dnorm) {v : List 𝕜} {numiter : Nat}
    {M : Nat → Nat → 𝕜} (hM : ActsAs v.length Afun M)
    (hH : ∀ i j, i < v.length → j < v.length → conj (M i j) = M j i)
    {alpha beta : List ℝ} {V : Mat 𝕜} (hl : lanczos Afun dnorm v numiter = .ok (alpha, beta, V))
    (hind : LinearIndependent 𝕜 (fun j : Fin numiter => (toMatrix v.length M ^ (j : ℕ)) *ᵥ toVec v.length v))
    (hk : V.n < numiter) :
    0 < dnorm (lanczosResidual Afun alpha beta V (V.n - 1)) ∧
      dnorm (lanczosResidual Afun alpha beta V (V.n - 1)) < breakdownThr ℝ v.length := by
  have hle : V.n + 1 ≤ numiter := hk
  have hind' : LinearIndependent 𝕜
      (fun j : Fin (V.n + 1) => (toMatrix v.length M ^ (j : ℕ)) *ᵥ toVec v.length v) :=
    hind.comp (Fin.castLE hle) (Fin.castLE_injective hle)
  have hdim : numiter ≤ v.length := by
    have := hind.fintype_card_le_finrank
    simpa using this
  exact ⟨(lanczos_no_breakdown_of_independent hN hM hH hl hind').1,
    lanczos_full_le hN (hM.isHermitian hH) hl hdim hk⟩

/-- **Exact Arnoldi breakdown ⟹ Krylov space exhausted** (arbitrary linear map). -/
theorem krylov_exhausted_of_arnoldi_breakdown (hN : NormContract dnorm) {v : List 𝕜} {numiter : Nat}
    {M : Nat → Nat → 𝕜} (hM : ActsAs v.length Afun M) {H V : Mat 𝕜}
    (hl : arnoldi Afun dnorm v numiter = .ok (H, V)) (hz : dnorm (arnoldiResidual Afun V (V.n - 1)) = 0) :
    ¬ LinearIndependent 𝕜 (fun j : Fin (V.n + 1) => (toMatrix v.length M ^ (j : ℕ)) *ᵥ toVec v.length v) :=
  krylov_dependent_of_arnoldi_residual_zero hN hM hl hz

/-- **No exact Arnoldi breakdown while the Krylov space is not exhausted**: if `v, A v, …, A^k v` are linearly independent
(`k = V.n` returned columns) the Gram–Schmidt residual of `A v_{k-1}` is not zero, and every returned subdiagonal entry is
positive. -/
theorem arnoldi_no_breakdown_of_independent (hN : NormContract dnorm) {v : List 𝕜} {numiter : Nat}
    {M : Nat → Nat → 𝕜} (hM : ActsAs v.length Afun M) {H V : Mat 𝕜}
    (hl : arnoldi Afun dnorm v numiter = .ok (H, V))
    (hind : LinearIndependent 𝕜 (fun j : Fin (V.n + 1) => (toMatrix v.length M ^ (j : ℕ)) *ᵥ toVec v.length v)) :
    0 < dnorm (arnoldiResidual Afun V (V.n - 1)) ∧
      ∀ b, b + 1 < H.m → ∃ s : ℝ, H.f (b + 1) b = (s : 𝕜) ∧ 0 < s := by
  refine ⟨lt_of_le_of_ne (hN.nonneg _) fun h0 => ?_, fun b hb => ?_⟩
  · exact krylov_dependent_of_arnoldi_residual_zero hN hM hl h0.symm hind
  · obtain ⟨s, h1, h2, _⟩ := (arnoldi_relations hN hl).2.2.2.1 b hb
    exact ⟨s, h1, h2⟩

/-- **A shortened Arnoldi result is a pure threshold effect when the Krylov space is large enough.** -/
theorem arnoldi_short_only_by_threshold (hN : NormContract dnorm) {v : List 𝕜} {numiter : Nat}
    {M : Nat → Nat → 𝕜} (hM : ActsAs v.length Afun M) {H V : Mat 𝕜}
    (hl : arnoldi Afun dnorm v numiter = .ok (H, V))
    (hind : LinearIndependent 𝕜 (fun j : Fin numiter => (toMatrix v.length M ^ (j : ℕ)) *ᵥ toVec v.length v))
    (hk : V.n < numiter) :
    0 < dnorm (arnoldiResidual Afun V (V.n - 1)) ∧
      dnorm (arnoldiResidual Afun V (V.n - 1)) < breakdownThr ℝ v.length := by
  have hle : V.n + 1 ≤ numiter := hk
  have hind' : LinearIndependent 𝕜
      (fun j : Fin (V.n + 1) => (toMatrix v.length M ^ (j : ℕ)) *ᵥ toVec v.length v) :=
    hind.comp (Fin.castLE hle) (Fin.castLE_injective hle)
  have hdim : numiter ≤ v.length := by
    have := hind.fintype_card_le_finrank
    simpa using this
  exact ⟨(arnoldi_no_breakdown_of_independent hN hM hl hind').1, arnoldi_full_le hN hl hdim hk⟩

/-! ### non-vacuity -/

/-- the Krylov vectors `v = (1, 0)`, `A v = (2, 1)` of `A = [[2, 1], [1, 2]]` are linearly independent -/
theorem exKrylov_indep : LinearIndependent ℝ (fun j : Fin 2 =>
    (toMatrix 2 (fun i k => if i = k then (2 : ℝ) else 1) ^ (j : ℕ)) *ᵥ toVec 2 ([1, 0] : List ℝ)) := by
  rw [linearIndependent_fin2]
  have e1 : ∀ i : Fin 2, ((toMatrix 2 (fun i k => if i = k then (2 : ℝ) else 1) ^ ((1 : Fin 2) : ℕ)) *ᵥ
      toVec 2 ([1, 0] : List ℝ)) i = if (i : ℕ) = 0 then 2 else 1 := by
    intro i
    show ((toMatrix 2 (fun i k => if i = k then (2 : ℝ) else 1) ^ 1) *ᵥ toVec 2 ([1, 0] : List ℝ)) i = _
    rw [pow_one, mulVec_toVec]
    fin_cases i <;> simp [Finset.sum_range_succ, vget]
  have e0 : ∀ i : Fin 2, ((toMatrix 2 (fun i k => if i = k then (2 : ℝ) else 1) ^ ((0 : Fin 2) : ℕ)) *ᵥ
      toVec 2 ([1, 0] : List ℝ)) i = if (i : ℕ) = 0 then 1 else 0 := by
    intro i
    show ((toMatrix 2 (fun i k => if i = k then (2 : ℝ) else 1) ^ 0) *ᵥ toVec 2 ([1, 0] : List ℝ)) i = _
    rw [pow_zero, Matrix.one_mulVec]
    fin_cases i <;> simp [toVec, vget]
  constructor
  · intro h
    have := congrFun h 1
    rw [e1] at this
    simp at this
  · intro a h
    have h1 := congrFun h 1
    have h0 := congrFun h 0
    rw [Pi.smul_apply, e1, e0] at h1 h0
    simp at h1 h0
    rw [h1] at h0
    simp at h0

/-- the hypotheses of `lanczos_no_breakdown_of_independent` / `arnoldi_no_breakdown_of_independent` are jointly satisfiable by
an actual run: the 2-norm, `A = [[2, 1], [1, 2]]`, `v = (1, 0)`, one iteration (`k = 1` returned vector, `v` and `A v`
linearly independent); the theorems then say that the residual `A v₀ - α₀ v₀` is not zero -/
example : ∃ (Afun : List ℝ → List ℝ) (M : Nat → Nat → ℝ) (dnorm : List ℝ → ℝ) (v : List ℝ),
    NormContract dnorm ∧ ActsAs v.length Afun M ∧
    (∀ i j, i < v.length → j < v.length → (starRingEnd ℝ) (M i j) = M j i) ∧
    (∃ alpha beta V, lanczos Afun dnorm v 1 = .ok (alpha, beta, V) ∧
      LinearIndependent ℝ (fun j : Fin (V.n + 1) => (toMatrix v.length M ^ (j : ℕ)) *ᵥ toVec v.length v) ∧
      0 < dnorm (lanczosResidual Afun alpha beta V (V.n - 1))) ∧
    ∃ H V, arnoldi Afun dnorm v 1 = .ok (H, V) ∧
      LinearIndependent ℝ (fun j : Fin (V.n + 1) => (toMatrix v.length M ^ (j : ℕ)) *ᵥ toVec v.length v) ∧
      0 < dnorm (arnoldiResidual Afun V (V.n - 1)) := by
  let A : Mat ℝ := ⟨2, 2, fun i k => if i = k then 2 else 1⟩
  have hH : ∀ i j, i < 2 → j < 2 → (starRingEnd ℝ) (A.f i j) = A.f j i := by
    intro i k _ _
    simp only [A, RCLike.conj_to_real]
    by_cases h : i = k
    · subst h; rfl
    · rw [if_neg h, if_neg (Ne.symm h)]
  have hM : ActsAs 2 (matvec A) A.f := actsAs_matvec A rfl rfl
  have hpos : 0 < sqrtNorm ([1, 0] : List ℝ) := (sqrtNorm_contract.pos_iff _).2 ⟨1, by simp, one_ne_zero⟩
  refine ⟨matvec A, A.f, sqrtNorm, [1, 0], sqrtNorm_contract, hM, hH, ?_, ?_⟩
  · obtain ⟨⟨alpha, beta, V⟩, hl⟩ := lanczos_returns (matvec A) (sqrtNorm (𝕜 := ℝ)) (vstart := [1, 0]) (numiter := 1)
      hpos (by omega) (by simp)
    obtain ⟨h1, h2, _, _, h5⟩ := lanczos_shapes _ _ hl
    have hVn : V.n = 1 := by omega
    obtain ⟨m, k, f⟩ := V
    have hk : k = 1 := hVn
    subst hk
    have hind : LinearIndependent ℝ (fun j : Fin (1 + 1) => (toMatrix 2 A.f ^ (j : ℕ)) *ᵥ toVec 2 ([1, 0] : List ℝ)) :=
      exKrylov_indep
    exact ⟨alpha, beta, _, hl, hind, (lanczos_no_breakdown_of_independent (v := [1, 0]) sqrtNorm_contract hM hH hl hind).1⟩
  · obtain ⟨⟨H, V⟩, hl⟩ := arnoldi_returns (matvec A) (sqrtNorm (𝕜 := ℝ)) (vstart := [1, 0]) (numiter := 1)
      hpos (by omega) (by simp)
    obtain ⟨h1, h2, _, _, h5⟩ := arnoldi_shapes _ _ hl
    have hVn : V.n = 1 := by omega
    obtain ⟨m, k, f⟩ := V
    have hk : k = 1 := hVn
    subst hk
    have hind : LinearIndependent ℝ (fun j : Fin (1 + 1) => (toMatrix 2 A.f ^ (j : ℕ)) *ᵥ toVec 2 ([1, 0] : List ℝ)) :=
      exKrylov_indep
    exact ⟨H, _, hl, hind, (arnoldi_no_breakdown_of_independent (v := [1, 0]) sqrtNorm_contract hM hl hind).1⟩

/-- the tiny Hermitian matrix `ε·[[0, 1], [1, 0]]`, `ε = 2^-52` (below the threshold `200·2^-52` for `n = 2`) -/
noncomputable def exTiny : Mat ℝ := ⟨2, 2, fun i k => if i = k then 0 else 1 / 2 ^ 52⟩

/-- its Krylov vectors `v = (1, 0)`, `A v = (0, ε)` are linearly independent -/
theorem exTiny_indep : LinearIndependent ℝ (fun j : Fin 2 => (toMatrix 2 exTiny.f ^ (j : ℕ)) *ᵥ toVec 2 ([1, 0] : List ℝ)) := by
  rw [linearIndependent_fin2]
  have e1 : ∀ i : Fin 2, ((toMatrix 2 exTiny.f ^ ((1 : Fin 2) : ℕ)) *ᵥ toVec 2 ([1, 0] : List ℝ)) i =
      if (i : ℕ) = 0 then 0 else 1 / 2 ^ 52 := by
    intro i
    show ((toMatrix 2 exTiny.f ^ 1) *ᵥ toVec 2 ([1, 0] : List ℝ)) i = _
    rw [pow_one, mulVec_toVec]
    fin_cases i <;> simp [Finset.sum_range_succ, vget, exTiny]
  have e0 : ∀ i : Fin 2, ((toMatrix 2 exTiny.f ^ ((0 : Fin 2) : ℕ)) *ᵥ toVec 2 ([1, 0] : List ℝ)) i =
      if (i : ℕ) = 0 then 1 else 0 := by
    intro i
    show ((toMatrix 2 exTiny.f ^ 0) *ᵥ toVec 2 ([1, 0] : List ℝ)) i = _
    rw [pow_zero, Matrix.one_mulVec]
    fin_cases i <;> simp [toVec, vget]
  constructor
  · intro h
    have := congrFun h 1
    rw [e1] at this
    simp at this
  · intro a h
    have h0 := congrFun h 0
    rw [Pi.smul_apply, e1, e0] at h0
    simp at h0

/-- **the threshold effect is real**: all hypotheses of `lanczos_short_only_by_threshold` hold for an actual run — the
Krylov space of `(ε·[[0,1],[1,0]], (1, 0))` is two-dimensional, yet the call with `numiter = 2` returns a single vector
(its residual `(0, ε)` has norm `ε = 2^-52`, below the threshold `200·2^-52`, and is not zero) -/
example : ∃ alpha beta V, NormContract (sqrtNorm (𝕜 := ℝ)) ∧ ActsAs 2 (matvec exTiny) exTiny.f ∧
    (∀ i j, i < 2 → j < 2 → (starRingEnd ℝ) (exTiny.f i j) = exTiny.f j i) ∧
    lanczos (matvec exTiny) sqrtNorm ([1, 0] : List ℝ) 2 = .ok (alpha, beta, V) ∧
    LinearIndependent ℝ (fun j : Fin 2 => (toMatrix 2 exTiny.f ^ (j : ℕ)) *ᵥ toVec 2 ([1, 0] : List ℝ)) ∧ V.n < 2 := by
  have hH : ∀ i j, i < 2 → j < 2 → (starRingEnd ℝ) (exTiny.f i j) = exTiny.f j i := by
    intro i k _ _
    simp only [exTiny, RCLike.conj_to_real]
    by_cases h : i = k
    · subst h; rfl
    · rw [if_neg h, if_neg (Ne.symm h)]
  have hM : ActsAs 2 (matvec exTiny) exTiny.f := actsAs_matvec exTiny rfl rfl
  have hA : IsHermitian ([1, 0] : List ℝ).length (matvec exTiny) := isHermitian_matvec exTiny rfl rfl hH
  have hsq : sqNorm ([1, 0] : List ℝ) = 1 := by simp [sqNorm]
  have hnrm : sqrtNorm ([1, 0] : List ℝ) = 1 := by unfold sqrtNorm; rw [hsq, Real.sqrt_one]
  obtain ⟨⟨alpha, beta, V⟩, hl⟩ := lanczos_returns (matvec exTiny) (sqrtNorm (𝕜 := ℝ)) (vstart := [1, 0])
    (numiter := 2) (by rw [hnrm]; exact one_pos) (by omega) (by simp)
  refine ⟨alpha, beta, V, sqrtNorm_contract, hM, hH, hl, exTiny_indep, ?_⟩
  obtain ⟨h1, h2, h3, h4, h5⟩ := lanczos_shapes _ _ hl
  by_contra hcon
  have hVn : V.n = 2 := by omega
  obtain ⟨c0, orth, bpos, proj⟩ := lanczos_relations sqrtNorm_contract hA hl
  have hb := (bpos 0 (by omega)).2
  have hp := proj 0 1 (by omega) (by omega)
  have ho := orth 1 1 (by omega) (by omega)
  have hm : V.m = 2 := h4
  rw [hm] at hp ho
  rw [if_pos rfl, vdot_eq_sum] at ho
  rw [c0, hnrm, vdot_eq_sum] at hp
  have hl1 : (matCol V 1).length = 2 := by simp [matCol, hm]
  simp only [Finset.sum_range_succ, Finset.sum_range_zero, zero_add, RCLike.conj_to_real] at hp ho
  rw [vget_vdiv (by omega : 0 < ([1, 0] : List ℝ).length), vget_vdiv (by omega : 1 < ([1, 0] : List ℝ).length),
    vget_matvec exTiny _ (by show 0 < 2; omega), vget_matvec exTiny _ (by show 1 < 2; omega)] at hp
  have ht : tridiag alpha beta 0 1 = beta.getD 0 0 := by unfold tridiag; simp
  rw [ht] at hp
  simp [exTiny, Finset.sum_range_succ, vget, ofReal_eq] at hp
  have hthr : breakdownThr ℝ ([1, 0] : List ℝ).length = 200 / 2 ^ 52 := by
    unfold breakdownThr; norm_num
  rw [hthr] at hb
  simp only [vget, List.getD_eq_getElem?_getD] at ho hb
  rw [← hp] at hb
  -- `x₁ ≥ 200` contradicts `x₀² + x₁² = 1`
  generalize (matCol V 1)[1]?.getD 0 = x1 at ho hb
  generalize (matCol V 1)[0]?.getD 0 = x0 at ho
  have hx : (200 : ℝ) ≤ x1 := by
    have h52 : (0 : ℝ) < 2 ^ 52 := by positivity
    have : 200 / 2 ^ 52 ≤ x1 / 2 ^ 52 := by
      rw [div_eq_mul_inv x1, mul_comm x1]; exact hb
    exact (div_le_div_iff_of_pos_right h52).1 this
  nlinarith [sq_nonneg x0]

end Ptn.C14

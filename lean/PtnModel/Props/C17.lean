import PtnModel.Proofs.AutLen
import PtnModel.Proofs.AutPaths
import PtnModel.Proofs.TreeFinal
/-!
# C17 — operator trees and state automata unfold to graphs with the same meaning

Property text: *The graph built from a list of operator trees denotes the sum of the trees, each padded with
identities before its start site and after its leaves up to the requested length; the graph unrolled from an
operator state automaton denotes the sum over all automaton paths of that length between the terminal nodes,
honouring site-dependent edge activity and coefficients.  Both graphs are consistent and of the requested length,
and the dense meaning of chains, trees and graphs agrees with this symbolic meaning under any operator map.*

Model: `Ptn.Og.*` (`Model/OpGraph.lean`, `Model/OpTree.lean`, `Model/AutOp.lean`, `Model/OpChain.lean`,
`Model/Symbolic.lean`; mirrors of `pytenet/opgraph.py`, `optree.py`, `autop.py`, `opchain.py`).  Coefficients
live in an arbitrary commutative ring `κ` with decidable equality (exact arithmetic).

Symbolic meaning.  `Graph.denF g w` is the coefficient of the word `w` (one operator id per site) in the operator
denoted by the graph `g`: the sum over all paths from terminal 0 to terminal 1 of the products of the edge
coefficients of the chosen operators.  `AutOp.denF a w` is the same path sum for the automaton: the edge taken at
site `k` must be active at `k` and contributes the coefficient of `w_k` in its operator list at site `k`
(`AutOp.denFrom`; `autDenF_eq_paths` identifies it with the coefficient of `w` in the explicit list
`AutOp.pathsFrom` of all paths of that length).

## (1) automata

`automaton_sem`, `automaton_consistent`, `automaton_length`: for a well-formed automaton (what `AutOp.__init__` and
`AutOpNode.__init__` guarantee, and `AutOp.is_consistent` checks) every successful call
`OpGraph.from_automaton(autop, L)` returns a consistent graph of length `L` whose denotation on every word of length
`L` is the path sum of the automaton.

## (2) operator trees

`OpGraph.from_optrees(trees, L, oid_identity)` = `fromOptreesPre` (the loop over the trees: `_insert_opchain` for
the identities before the start site, `_insert_subtree` for the tree) followed by `simplify()`.
`optrees_sem_presimplify`: the graph before `simplify` is structurally valid and its denotation is the coefficient
function of `denTreesRaw trees L id` — for every tree and every root-to-leaf path `p` with coefficient `c` the word
`id^istart ++ p ++ id^(L - istart - |p|)` with coefficient `c`.  `insert_opchain_sem` / `insert_subtree_sem` are the
two building blocks.  `optrees_sem_partial` is the statement after `simplify`, under the hypothesis that `simplify`
keeps structural validity and the denotation (C16).
-/
namespace Ptn.C17
open Ptn.Og

variable {κ : Type} [CommRing κ] [DecidableEq κ]

/-! ## (1) automata -/

/-- Well-formed automaton: duplicate-free dictionaries and edge-id lists (guaranteed by the Python constructors
`AutOp.__init__` / `AutOpNode.__init__`) and `AutOp.is_consistent()`.  Self loops, parallel edges, dead states
and site-dependent `active` / `opics` tables are all allowed. -/
def AutWellFormed (a : AutOp κ) : Prop :=
  (dKeys a.nodes).Nodup ∧ (dKeys a.edges).Nodup ∧
    (∀ p ∈ a.nodes, p.2.eidsIn.Nodup ∧ p.2.eidsOut.Nodup) ∧ a.isConsistent = true

instance (a : AutOp κ) : Decidable (AutWellFormed a) := by unfold AutWellFormed; infer_instance

theorem AutWellFormed.valid {a : AutOp κ} (h : AutWellFormed a) : AutValid a := by
  obtain ⟨h1, h2, h3, h4⟩ := h
  refine AutValid.of_isConsistent h1 h2 ?_ h4
  intro k n hkn d
  have := h3 (k, n) hkn
  cases d
  · exact this.1
  · exact this.2

/-- **The graph unrolled from an automaton denotes the automaton's path sum.**  If
`OpGraph.from_automaton(a, L)` returns `g`, then for every word `w` of length `L` the coefficient of `w` in `g`
is the sum over all automaton paths of length `L` from terminal 0 to terminal 1 whose `k`-th edge is active at
site `k`, of the product over `k` of the coefficient of `w_k` in `opics_k(edge_k)`.  Dead states (not reachable
from terminal 0, or not co-reachable from terminal 1, within the given number of sites) are pruned without
changing the sum. -/
theorem automaton_sem {a : AutOp κ} {L : Int} {g : Graph κ} (hwf : AutWellFormed a)
    (h : fromAutomaton a L = .ok g) (w : Word) (hw : (w.length : Int) = L) : g.denF w = a.denF w :=
  fromAutomaton_denF hwf.valid h w hw

/-- The automaton's path sum `AutOp.denF` is the coefficient of `w` in the explicit list of all automaton paths
of length `|w|` from terminal 0 to terminal 1 along edges active at their site (`AutOp.pathsFrom`, the raw formal
sum behind `denAutomaton`). -/
theorem autDenF_eq_paths (a : AutOp κ) (w : Word) :
    a.denF w = symCoeff (a.pathsFrom w.length 0 (a.term false)) w :=
  autDenFrom_eq_paths a w 0 _

/-- The unrolled graph passes `is_consistent` (the model mirrors the final `assert graph.is_consistent()`;
this theorem does not claim that the assertion cannot fail). -/
theorem automaton_consistent {a : AutOp κ} {L : Int} {g : Graph κ}
    (h : fromAutomaton a L = .ok g) : g.isConsistent = true :=
  fromAutomaton_isConsistent h

/-- The unrolled graph has length `L` (`OpGraph.length`: follow first outgoing edges from terminal 0). -/
theorem automaton_length {a : AutOp κ} {L : Int} {g : Graph κ} (hwf : AutWellFormed a)
    (h : fromAutomaton a L = .ok g) : g.length = .ok L.toNat ∧ 1 ≤ L :=
  ⟨fromAutomaton_length hwf.valid h, (fromAutomaton_unrolled h).1⟩

/-! ### non-vacuity -/

/-- three states: `0` (start, identity self loop), `1` (end, identity self loop), `2` (dead: reachable only at
site 0, never leaves); the edge `0 → 1` carries two operators with a site-dependent coefficient `i + 2`. -/
def a₀ : AutOp ℤ :=
  ⟨[(0, ⟨0, [0], [0, 1, 3], 0⟩), (1, ⟨1, [1, 2], [2], 0⟩), (2, ⟨2, [3], [], 0⟩)],
   [(0, ⟨0, (0, 0), fun _ => [(0, 1)], fun _ => true⟩),
    (1, ⟨1, (0, 1), fun i => [(1, (i : ℤ) + 2), (2, 1)], fun _ => true⟩),
    (2, ⟨2, (1, 1), fun _ => [(0, 1)], fun _ => true⟩),
    (3, ⟨3, (0, 2), fun _ => [(7, 1)], fun i => i == 0⟩)], (0, 1)⟩

/-- the graph `from_automaton(a₀, 2)`: the dead state is pruned -/
def g₀ : Graph ℤ :=
  ⟨[(0, ⟨0, [], [0, 1], 0⟩), (1, ⟨1, [0], [2], 0⟩), (2, ⟨2, [1], [3], 0⟩), (3, ⟨3, [2, 3], [], 0⟩)],
   [(0, ⟨0, (0, 1), [(0, 1)]⟩), (1, ⟨1, (0, 2), [(1, 2), (2, 1)]⟩), (2, ⟨2, (1, 3), [(1, 3), (2, 1)]⟩),
    (3, ⟨3, (2, 3), [(0, 1)]⟩)], (0, 3)⟩

example : AutWellFormed a₀ ∧ fromAutomaton a₀ 2 = .ok g₀ ∧ g₀.denF [0, 1] = 3 ∧ g₀.denF [1, 0] = 2 ∧
    a₀.denF [0, 1] = 3 ∧ g₀.length = .ok 2 :=
  ⟨by decide, by rfl, by rfl, by rfl, by rfl, by rfl⟩

/-! ## (2) operator trees -/

/-- **`_insert_opchain`** (direction 1): on a structurally valid graph, inserting the chain `oids` / `coeffs` from
the node `nidStart` (not the end terminal) to a different node `nidEnd` (not the start terminal) adds to the path
sum from `nidStart` exactly the chain followed by whatever `nidEnd` denotes afterwards
(`chainCoef oids coeffs D w = Π coeffs · D w'` if `w = oids ++ w'`, else `0`).  `UHyps g U nidStart`: `U` is a set
of existing nodes, closed under following edges, that contains the end terminal and the current successors of
`nidStart` but not `nidStart` itself (no cycle through `nidStart`). -/
theorem insert_opchain_sem {g g' : Graph κ} {nidStart nidEnd : Int} {oids : List Int} {coeffs : List κ}
    {qnums : List Int} {U : Int → Prop}
    (h : g.insertOpchain nidStart nidEnd oids coeffs qnums true = .ok g') (sv : SValid g)
    (hs : nidStart ≠ g.term true) (he : nidEnd ≠ g.term false) (hse : nidStart ≠ nidEnd) (hU : UHyps g U nidStart) :
    SValid g' ∧ g'.nidTerminal = g.nidTerminal ∧ ∀ w, g'.denFrom w nidStart =
      g.denFrom w nidStart + chainCoef oids coeffs (fun w' => g'.denFrom w' nidEnd) w :=
  insertOpchain_sem h sv hs he hse hU

/-- **`_insert_subtree`**: inserting the subtree `T` below the node `r` at distance `dist` from the end terminal
adds to the path sum from `r` exactly the tree's path sum, every root-to-leaf path padded with identities after
its leaf up to `dist` sites (`padPath`); a leaf at distance 0 must be the terminal itself and changes nothing.
Guards of the code: the call returns (`terminal_dist ≥ 0`, matching charges, tree height ≤ `dist`). -/
theorem insert_subtree_sem {id : Int} {T : TNode κ} {g g' : Graph κ} {r dist : Int} {U : Int → Prop}
    (h : Graph.insertSubtree id T r dist g = .ok g') (sv : SValid g) (hr : r ∈ dKeys g.nodes)
    (hrt : r = g.term true → dist = 0) (ht01 : g.term true ≠ g.term false) (hU : UHyps g U r) :
    SValid g' ∧ g'.nidTerminal = g.nidTerminal ∧ ∀ w, g'.denFrom w r =
      (if r = g.term true then 0 else g.denFrom w r) + symCoeff (T.paths.map (padPath id dist.toNat)) w :=
  insertSubtree_sem h sv hr hrt ht01 hU

/-- **The graph built from a list of operator trees, before `simplify`,** is structurally valid (all clauses of
`is_consistent` except the level clause: `structOk`), has the terminals `0`, `1`, and denotes the sum of the trees,
each padded with identities before its start site and after its leaves up to `L` (`denTreesRaw`), for every word. -/
theorem optrees_sem_presimplify {trees : List (OpTree κ)} {L id : Int} {g : Graph κ}
    (h : fromOptreesPre trees L id = .ok g) :
    SValid g ∧ g.structOk = true ∧ g.nidTerminal = (0, 1) ∧
      ∀ w, g.denF w = symCoeff (denTreesRaw trees L id) w := by
  obtain ⟨sv, ht, sem⟩ := fromOptreesPre_denF h
  exact ⟨sv, sv.structOk, ht, sem⟩

/-- `from_optrees` is the loop over the trees followed by `simplify` -/
theorem optrees_eq_presimplify_simplify (trees : List (OpTree κ)) (L id : Int) :
    fromOptrees trees L id = fromOptreesPre trees L id >>= Graph.simplify := rfl

/-- **The graph built from a list of operator trees** denotes the sum of the padded trees.
PARTIAL: under the hypothesis `SimplifyKeeps κ` (property C16: `simplify` keeps structural validity and the
denotation `denF`), which is not proved here. -/
theorem optrees_sem_partial (hs : SimplifyKeeps κ) {trees : List (OpTree κ)} {L id : Int} {g : Graph κ}
    (h : fromOptrees trees L id = .ok g) :
    SValid g ∧ g.structOk = true ∧ ∀ w, g.denF w = symCoeff (denTreesRaw trees L id) w := by
  obtain ⟨sv, sem⟩ := fromOptrees_denF_of_simplify hs h
  exact ⟨sv, sv.structOk, sem⟩

/-! ### non-vacuity -/

/-- a tree with one edge (operator 5, coefficient 2) and the height-0 tree (a single leaf), both starting at
site 0, on one site: two parallel edges before `simplify` -/
def ts₁ : List (OpTree ℤ) := [⟨.mk 0 [(5, 2, .mk 0 [])], 0⟩, ⟨.mk 0 [], 0⟩]

def g₁ : Graph ℤ :=
  ⟨[(0, ⟨0, [], [1, 2], 0⟩), (1, ⟨1, [1, 2], [], 0⟩)], [(1, ⟨1, (0, 1), [(5, 2)]⟩), (2, ⟨2, (0, 1), [(0, 1)]⟩)], (0, 1)⟩

example : fromOptreesPre ts₁ 1 0 = .ok g₁ ∧ g₁.denF [5] = 2 ∧ g₁.denF [0] = 1 ∧
    symCoeff (denTreesRaw ts₁ 1 0) [5] = 2 :=
  ⟨by decide, by decide, by decide, by decide⟩

end Ptn.C17

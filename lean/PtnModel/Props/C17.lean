import PtnModel.Proofs.AutLen
import PtnModel.Proofs.AutPaths
import PtnModel.Proofs.AutCtor
import PtnModel.Proofs.TreeFinal
import PtnModel.Proofs.SymDenseGraph
import PtnModel.Proofs.TreeLevels
import PtnModel.Proofs.TreeLength
import PtnModel.Proofs.SymDenseTree
import PtnModel.Proofs.SymDenseUniform
import PtnModel.Proofs.OgSimplify
import PtnModel.Proofs.OgSimplifyLev
/-!
# C17 — operator trees and state automata unfold to graphs with the same meaning

Property text: *The graph built from a list of operator trees denotes the sum of the trees, each padded with
identities before its start site and after its leaves up to the requested length; the graph unrolled from an
operator state automaton denotes the sum over all automaton paths of that length between the terminal nodes,
honouring site-dependent edge activity and coefficients.  Both graphs are consistent and of the requested length,
and the dense meaning of chains, trees and graphs agrees with this symbolic meaning under any operator map.*

Model: `Ptn.Og.*` (`Model/OpGraph.lean`, `Model/OpTree.lean`, `Model/AutOp.lean`, `Model/OpChain.lean`,
`Model/Symbolic.lean`; mirrors of `pytenet/opgraph.py`, `optree.py`, `autop.py`, `opchain.py`).  Coefficients
live in an arbitrary commutative ring `κ` with decidable equality (exact arithmetic).

Symbolic meaning.  `Graph.denF g w` is the coefficient of the word `w` (one operator id per site) in the operator
denoted by the graph `g`: the sum over all paths from terminal 0 to terminal 1 of the products of the edge
coefficients of the chosen operators.  `AutOp.denF a w` is the same path sum for the automaton: the edge taken at
site `k` must be active at `k` and contributes the coefficient of `w_k` in its operator list at site `k`
(`AutOp.denFrom`; `autDenF_eq_paths` identifies it with the coefficient of `w` in the explicit list
`AutOp.pathsFrom` of all paths of that length).

## (1) automata

`automaton_sem`, `automaton_consistent`, `automaton_length`: for a well-formed automaton (what `AutOp.__init__` and
`AutOpNode.__init__` guarantee, and `AutOp.is_consistent` checks) every successful call
`OpGraph.from_automaton(autop, L)` returns a consistent graph of length `L` whose denotation on every word of length
`L` is the path sum of the automaton.

## (2) operator trees

`OpGraph.from_optrees(trees, L, oid_identity)` = `fromOptreesPre` (the loop over the trees: `_insert_opchain` for
the identities before the start site, `_insert_subtree` for the tree) followed by `simplify()`.
`optrees_sem_presimplify`: the graph before `simplify` is structurally valid and its denotation is the coefficient
function of `denTreesRaw trees L id` — for every tree and every root-to-leaf path `p` with coefficient `c` the word
`id^istart ++ p ++ id^(L - istart - |p|)` with coefficient `c`.  `insert_opchain_sem` / `insert_subtree_sem` are the
two building blocks.  `optrees_sem` / `optrees_consistent` are the statements for the returned graph, using the
theorem `Ptn.Og.simplify_sem` of property C16 (`simplify` keeps validity and the denotation).
`optrees_consistent_presimplify`, `optrees_length_presimplify`: before `simplify` the graph is layered (start
node on level 0, end node on level `L`) without dead ends, hence consistent and of length `L`;
`optrees_length`: length of the returned graph (`simplify` keeps `length` on layered graphs without dead ends,
`Ptn.Og.simplify_length`).
All statements are conditional on the construction returning (the guards of the code: tree height ≤ `L - istart`,
matching charges, a leaf at distance 0 is the terminal).

## (3) dense meaning = symbolic meaning

Matrices are exact (`Mat κ`, lists of rows, `numpy.kron` index convention).  Statements are digit-indexed: for digit
lists `s`, `t` of length `n` with digits `< d` (`IsDigits d n`), `digIdx d s` is the flat index (first digit most
significant) and `wordEntry opmap w s t = Π_k opmap[w_k][s_k, t_k]` is the entry of the Kronecker product along the
word `w`.  `OpMapOk opmap d ids`: every id of `ids` is mapped to a `d × d` matrix.  `symSum F S = Σ_(w,c)∈S c · F w`.
`dense_chain`: `OpChain.as_matrix`; `dense_sym`: the dense meaning `denseOfSym` of any formal sum;
`dense_tree`: `OpTree.as_matrix` with its `kron` padding (`d ≥ 2`, `id ↦` identity);
`dense_graph` / `dense_graph_consistent`: `OpGraph.as_matrix` in both directions (modelled as `denseOfSym` of the
path enumeration `denDir` in that direction) together with `graph_coeff`: the enumeration in either direction has
the path sums `denF` as coefficients.
-/
namespace Ptn.C17
open Ptn.Og

variable {κ : Type} [CommRing κ] [DecidableEq κ]

/-! ## (1) automata -/

/-- Well-formed automaton: duplicate-free dictionaries and edge-id lists (guaranteed by the Python constructors
`AutOp.__init__` / `AutOpNode.__init__`) and `AutOp.is_consistent()`.  Self loops, parallel edges, dead states
and site-dependent `active` / `opics` tables are all allowed. -/
def AutWellFormed (a : AutOp κ) : Prop :=
  (dKeys a.nodes).Nodup ∧ (dKeys a.edges).Nodup ∧
    (∀ p ∈ a.nodes, p.2.eidsIn.Nodup ∧ p.2.eidsOut.Nodup) ∧ a.isConsistent = true

instance (a : AutOp κ) : Decidable (AutWellFormed a) := by unfold AutWellFormed; infer_instance

theorem AutWellFormed.valid {a : AutOp κ} (h : AutWellFormed a) : AutValid a := by
  obtain ⟨h1, h2, h3, h4⟩ := h
  refine AutValid.of_isConsistent h1 h2 ?_ h4
  intro k n hkn d
  have := h3 (k, n) hkn
  cases d
  · exact this.1
  · exact this.2

/-- Well-formedness is what the Python constructors and `is_consistent()` give: if `AutOp.__init__` accepts nodes
built by `AutOpNode.__init__` (`Node.mk'`, which rejects repeated edge ids) and `is_consistent()` holds, the
automaton is well-formed. -/
theorem aut_wellFormed_of_ctor {nodes : List Node} {edges : List (AEdge κ)} {term : List Int} {a : AutOp κ}
    (h : AutOp.mk' nodes edges term = .ok a)
    (hn : ∀ n ∈ nodes, ∃ k i o q, Node.mk' k i o q = .ok n) (hc : a.isConsistent = true) : AutWellFormed a := by
  obtain ⟨h1, h2, h3⟩ := AutOp.mk'_nodup h (fun n hn' => by
    obtain ⟨k, i, o, q, hk⟩ := hn n hn'
    exact Node.mk'_nodup hk)
  exact ⟨h1, h2, h3, hc⟩

/-- **The graph unrolled from an automaton denotes the automaton's path sum.**  If
`OpGraph.from_automaton(a, L)` returns `g`, then for every word `w` of length `L` the coefficient of `w` in `g`
is the sum over all automaton paths of length `L` from terminal 0 to terminal 1 whose `k`-th edge is active at
site `k`, of the product over `k` of the coefficient of `w_k` in `opics_k(edge_k)`.  Dead states (not reachable
from terminal 0, or not co-reachable from terminal 1, within the given number of sites) are pruned without
changing the sum. -/
theorem automaton_sem {a : AutOp κ} {L : Int} {g : Graph κ} (hwf : AutWellFormed a)
    (h : fromAutomaton a L = .ok g) (w : Word) (hw : (w.length : Int) = L) : g.denF w = a.denF w :=
  fromAutomaton_denF hwf.valid h w hw

/-- The automaton's path sum `AutOp.denF` is the coefficient of `w` in the explicit list of all automaton paths
of length `|w|` from terminal 0 to terminal 1 along edges active at their site (`AutOp.pathsFrom`, the raw formal
sum behind `denAutomaton`). -/
theorem autDenF_eq_paths (a : AutOp κ) (w : Word) :
    a.denF w = symCoeff (a.pathsFrom w.length 0 (a.term false)) w :=
  autDenFrom_eq_paths a w 0 _

/-- The unrolled graph passes `is_consistent` (the model mirrors the final `assert graph.is_consistent()`;
this theorem does not claim that the assertion cannot fail). -/
theorem automaton_consistent {a : AutOp κ} {L : Int} {g : Graph κ}
    (h : fromAutomaton a L = .ok g) : g.isConsistent = true :=
  fromAutomaton_isConsistent h

/-- The unrolled graph has length `L` (`OpGraph.length`: follow first outgoing edges from terminal 0). -/
theorem automaton_length {a : AutOp κ} {L : Int} {g : Graph κ} (hwf : AutWellFormed a)
    (h : fromAutomaton a L = .ok g) : g.length = .ok L.toNat ∧ 1 ≤ L :=
  ⟨fromAutomaton_length hwf.valid h, (fromAutomaton_unrolled h).1⟩

/-! ### non-vacuity -/

/-- three states: `0` (start, identity self loop), `1` (end, identity self loop), `2` (dead: reachable only at
site 0, never leaves); the edge `0 → 1` carries two operators with a site-dependent coefficient `i + 2`. -/
def a₀ : AutOp ℤ :=
  ⟨[(0, ⟨0, [0], [0, 1, 3], 0⟩), (1, ⟨1, [1, 2], [2], 0⟩), (2, ⟨2, [3], [], 0⟩)],
   [(0, ⟨0, (0, 0), fun _ => [(0, 1)], fun _ => true⟩),
    (1, ⟨1, (0, 1), fun i => [(1, (i : ℤ) + 2), (2, 1)], fun _ => true⟩),
    (2, ⟨2, (1, 1), fun _ => [(0, 1)], fun _ => true⟩),
    (3, ⟨3, (0, 2), fun _ => [(7, 1)], fun i => i == 0⟩)], (0, 1)⟩

/-- the graph `from_automaton(a₀, 2)`: the dead state is pruned -/
def g₀ : Graph ℤ :=
  ⟨[(0, ⟨0, [], [0, 1], 0⟩), (1, ⟨1, [0], [2], 0⟩), (2, ⟨2, [1], [3], 0⟩), (3, ⟨3, [2, 3], [], 0⟩)],
   [(0, ⟨0, (0, 1), [(0, 1)]⟩), (1, ⟨1, (0, 2), [(1, 2), (2, 1)]⟩), (2, ⟨2, (1, 3), [(1, 3), (2, 1)]⟩),
    (3, ⟨3, (2, 3), [(0, 1)]⟩)], (0, 3)⟩

example : AutWellFormed a₀ ∧ fromAutomaton a₀ 2 = .ok g₀ ∧ g₀.denF [0, 1] = 3 ∧ g₀.denF [1, 0] = 2 ∧
    a₀.denF [0, 1] = 3 ∧ g₀.length = .ok 2 :=
  ⟨by decide, by rfl, by rfl, by rfl, by rfl, by rfl⟩

/-! ## (2) operator trees -/

/-- **`_insert_opchain`** (direction 1): on a structurally valid graph, inserting the chain `oids` / `coeffs` from
the node `nidStart` (not the end terminal) to a different node `nidEnd` (not the start terminal) adds to the path
sum from `nidStart` exactly the chain followed by whatever `nidEnd` denotes afterwards
(`chainCoef oids coeffs D w = Π coeffs · D w'` if `w = oids ++ w'`, else `0`).  `UHyps g U nidStart`: `U` is a set
of existing nodes, closed under following edges, that contains the end terminal and the current successors of
`nidStart` but not `nidStart` itself (no cycle through `nidStart`). -/
theorem insert_opchain_sem {g g' : Graph κ} {nidStart nidEnd : Int} {oids : List Int} {coeffs : List κ}
    {qnums : List Int} {U : Int → Prop}
    (h : g.insertOpchain nidStart nidEnd oids coeffs qnums true = .ok g') (sv : SValid g)
    (hs : nidStart ≠ g.term true) (he : nidEnd ≠ g.term false) (hse : nidStart ≠ nidEnd) (hU : UHyps g U nidStart) :
    SValid g' ∧ g'.nidTerminal = g.nidTerminal ∧ ∀ w, g'.denFrom w nidStart =
      g.denFrom w nidStart + chainCoef oids coeffs (fun w' => g'.denFrom w' nidEnd) w :=
  insertOpchain_sem h sv hs he hse hU

/-- **`_insert_subtree`**: inserting the subtree `T` below the node `r` at distance `dist` from the end terminal
adds to the path sum from `r` exactly the tree's path sum, every root-to-leaf path padded with identities after
its leaf up to `dist` sites (`padPath`); a leaf at distance 0 must be the terminal itself and changes nothing.
Guards of the code: the call returns (`terminal_dist ≥ 0`, matching charges, tree height ≤ `dist`). -/
theorem insert_subtree_sem {id : Int} {T : TNode κ} {g g' : Graph κ} {r dist : Int} {U : Int → Prop}
    (h : Graph.insertSubtree id T r dist g = .ok g') (sv : SValid g) (hr : r ∈ dKeys g.nodes)
    (hrt : r = g.term true → dist = 0) (ht01 : g.term true ≠ g.term false) (hU : UHyps g U r) :
    SValid g' ∧ g'.nidTerminal = g.nidTerminal ∧ ∀ w, g'.denFrom w r =
      (if r = g.term true then 0 else g.denFrom w r) + symCoeff (T.paths.map (padPath id dist.toNat)) w :=
  insertSubtree_sem h sv hr hrt ht01 hU

/-- **The graph built from a list of operator trees, before `simplify`,** is structurally valid (all clauses of
`is_consistent` except the level clause: `structOk`), has the terminals `0`, `1`, and denotes the sum of the trees,
each padded with identities before its start site and after its leaves up to `L` (`denTreesRaw`), for every word. -/
theorem optrees_sem_presimplify {trees : List (OpTree κ)} {L id : Int} {g : Graph κ}
    (h : fromOptreesPre trees L id = .ok g) :
    SValid g ∧ g.structOk = true ∧ g.nidTerminal = (0, 1) ∧
      ∀ w, g.denF w = symCoeff (denTreesRaw trees L id) w := by
  obtain ⟨sv, ht, sem⟩ := fromOptreesPre_denF h
  exact ⟨sv, sv.structOk, ht, sem⟩

/-- `from_optrees` is the loop over the trees followed by `simplify` -/
theorem optrees_eq_presimplify_simplify (trees : List (OpTree κ)) (L id : Int) :
    fromOptrees trees L id = fromOptreesPre trees L id >>= Graph.simplify := rfl

/-- **The graph built from a list of operator trees denotes the sum of the trees**, each padded with identities
before its start site and after its leaves up to the requested length: for every word `w`, the coefficient of `w` in
the returned graph is its coefficient in `denTreesRaw trees L id`.  The graph is structurally valid (`structOk`)
with terminals `0`, `1`.  (Uses `Ptn.Og.simplify_sem` of C16 for the final `simplify`.) -/
theorem optrees_sem {trees : List (OpTree κ)} {L id : Int} {g : Graph κ}
    (h : fromOptrees trees L id = .ok g) :
    SValid g ∧ g.structOk = true ∧ g.nidTerminal = (0, 1) ∧
      ∀ w, g.denF w = symCoeff (denTreesRaw trees L id) w := by
  rw [fromOptrees_eq, Ptn.Dense.bind_ok] at h
  obtain ⟨gp, hp, hsimp⟩ := h
  obtain ⟨sv, ht, sem⟩ := fromOptreesPre_denF hp
  obtain ⟨sv', rel, _⟩ := simplify_sem sv hsimp
  exact ⟨sv', sv'.structOk, by rw [rel.term, ht], fun w => by rw [rel.den w, sem w]⟩

/-- **The graph built from a list of operator trees, before `simplify`, is consistent**: it passes every clause of
`is_consistent` (structure and levels), for trees with non-negative start sites. -/
theorem optrees_consistent_presimplify {trees : List (OpTree κ)} {L id : Int} {g : Graph κ}
    (h : fromOptreesPre trees L id = .ok g) (hstart : ∀ t ∈ trees, 0 ≤ t.istart) :
    g.isConsistent = true :=
  (fromOptreesPre_valid h hstart).isConsistent

/-- **The graph returned by `from_optrees` is consistent** (`is_consistent`, all clauses), for trees with
non-negative start sites.  (Uses `Ptn.Og.simplify_sem` of C16 for the final `simplify`.) -/
theorem optrees_consistent {trees : List (OpTree κ)} {L id : Int} {g : Graph κ}
    (h : fromOptrees trees L id = .ok g) (hstart : ∀ t ∈ trees, 0 ≤ t.istart) :
    g.isConsistent = true := by
  rw [fromOptrees_eq, Ptn.Dense.bind_ok] at h
  obtain ⟨gp, hp, hsimp⟩ := h
  have v := fromOptreesPre_valid hp hstart
  exact ((simplify_sem v.1 hsimp).2.2 v).isConsistent

/-! ### non-vacuity -/

/-- a tree with one edge (operator 5, coefficient 2) and the height-0 tree (a single leaf), both starting at
site 0, on one site: two parallel edges before `simplify` -/
def ts₁ : List (OpTree ℤ) := [⟨.mk 0 [(5, 2, .mk 0 [])], 0⟩, ⟨.mk 0 [], 0⟩]

def g₁ : Graph ℤ :=
  ⟨[(0, ⟨0, [], [1, 2], 0⟩), (1, ⟨1, [1, 2], [], 0⟩)], [(1, ⟨1, (0, 1), [(5, 2)]⟩), (2, ⟨2, (0, 1), [(0, 1)]⟩)], (0, 1)⟩

example : fromOptreesPre ts₁ 1 0 = .ok g₁ ∧ g₁.denF [5] = 2 ∧ g₁.denF [0] = 1 ∧
    symCoeff (denTreesRaw ts₁ 1 0) [5] = 2 ∧ (∀ t ∈ ts₁, 0 ≤ t.istart) ∧ g₁.isConsistent = true :=
  ⟨by decide, by decide, by decide, by decide, by decide, by decide⟩

/-- **The graph built from a non-empty list of operator trees, before `simplify`, has the requested length**
(`OpGraph.length`: follow first outgoing edges from terminal 0): it is layered with terminal 1 on level `L` and has
no dead ends. -/
theorem optrees_length_presimplify {trees : List (OpTree κ)} {L id : Int} {g : Graph κ}
    (h : fromOptreesPre trees L id = .ok g) (hne : trees ≠ []) (hstart : ∀ t ∈ trees, 0 ≤ t.istart) :
    g.length = .ok L.toNat :=
  fromOptreesPre_length h hne hstart

/-- **The graph returned by `from_optrees` has the requested length.**  `simplify` keeps `length` on layered graphs
without dead ends (`Ptn.Og.simplify_length`: a surviving node keeps its level, no dead end is created), and the graph
before `simplify` is such a graph (`optrees_length_presimplify`). -/
theorem optrees_length
    {trees : List (OpTree κ)} {L id : Int} {g : Graph κ}
    (h : fromOptrees trees L id = .ok g) (hne : trees ≠ []) (hstart : ∀ t ∈ trees, 0 ≤ t.istart) :
    g.length = .ok L.toNat := by
  rw [fromOptrees_eq, Ptn.Dense.bind_ok] at h
  obtain ⟨gp, hp, hsimp⟩ := h
  obtain ⟨sv, ht, ⟨ℓ, hl, h0, _⟩, _, hall⟩ := fromOptreesPre_layered hp hstart
  have t0 : gp.term false = 0 := by simp [Graph.term, ht]
  rw [simplify_length sv hl (noDeadEnd_of_allOut sv (hall hne)) (by rw [t0]; exact h0) hsimp]
  exact fromOptreesPre_length hp hne hstart

/-- `from_optrees(ts₁, 1, 0)`: `simplify` has merged the two parallel edges -/
def g₁' : Graph ℤ := ⟨[(0, ⟨0, [], [1], 0⟩), (1, ⟨1, [1], [], 0⟩)], [(1, ⟨1, (0, 1), [(0, 1), (5, 2)]⟩)], (0, 1)⟩

example : fromOptrees ts₁ 1 0 = .ok g₁' ∧ g₁'.denF [5] = 2 ∧ g₁'.isConsistent = true ∧ ts₁ ≠ [] ∧
    g₁.length = .ok 1 ∧ g₁'.length = .ok 1 :=
  ⟨by decide, by decide, by decide, by decide, by decide, by decide⟩

/-! ## (3) dense meaning = symbolic meaning -/

/-- **Dense meaning of a chain.**  `OpChain.as_matrix(opmap)` returns (no exception) the `d^n × d^n` matrix with
the entries `coeff · Π_k opmap[oid_k][s_k, t_k]`: the coefficient times the Kronecker product along the word. -/
theorem dense_chain (c : OpChain κ) (opmap : OpMap κ) (d : Nat) (hop : OpMapOk opmap d c.oids) :
    ∃ M, c.asMatrix opmap = .ok M ∧ IsMat M (d ^ c.length) (d ^ c.length) ∧
      ∀ (s t : List Nat), IsDigits d c.length s → IsDigits d c.length t →
        M.entry (digIdx d s) (digIdx d t) = c.coeff * wordEntry opmap c.oids s t :=
  chain_asMatrix_spec c opmap d hop

/-- **Dense meaning of a formal sum** (the reference `denseOfSym` used for trees and graphs): for words of a
common length `L` the result is the `d^L × d^L` matrix `Σ_(w,c) c · ⊗_k opmap[w_k]`. -/
theorem dense_sym (opmap : OpMap κ) (d L : Nat) (S : Sym κ)
    (hS : ∀ p ∈ S, p.1.length = L ∧ OpMapOk opmap d p.1) :
    ∃ M, denseOfSym opmap (d ^ L) S = .ok M ∧ IsMat M (d ^ L) (d ^ L) ∧
      ∀ (s t : List Nat), IsDigits d L s → IsDigits d L t →
        M.entry (digIdx d s) (digIdx d t) = symSum (fun w => wordEntry opmap w s t) S := by
  obtain ⟨M, hM, hshape, hent⟩ := denseOfSym_spec opmap d L S hS _ (zero_isMat _ _)
  refine ⟨M, hM, hshape, fun s t hs ht => ?_⟩
  rw [hent s t hs ht, zero_entry, zero_add]
  rfl

/-- the dense meaning of the chain's symbolic meaning `denChain` is the matrix of `dense_chain` -/
theorem dense_chain_sym (c : OpChain κ) (opmap : OpMap κ) (d : Nat) (hop : OpMapOk opmap d c.oids) :
    ∃ M M', c.asMatrix opmap = .ok M ∧ denseOfSym opmap (d ^ c.length) (denChain c) = .ok M' ∧
      ∀ (s t : List Nat), IsDigits d c.length s → IsDigits d c.length t →
        M.entry (digIdx d s) (digIdx d t) = M'.entry (digIdx d s) (digIdx d t) := by
  obtain ⟨M, hM, _, hent⟩ := dense_chain c opmap d hop
  obtain ⟨M', hM', _, hent'⟩ := dense_sym opmap d c.length (denChain c)
    (by intro p hp; simp only [denChain, List.mem_singleton] at hp; subst hp; exact ⟨rfl, hop⟩)
  refine ⟨M, M', hM, hM', fun s t hs ht => ?_⟩
  rw [hent s t hs ht, hent' s t hs ht]
  simp [symSum, denChain]

/-- **Dense meaning of a tree.**  For `d ≥ 2`, an operator map with `d × d` matrices for all operators of the tree
and the `d × d` identity for `id`: `OpTree.as_matrix` (`_subtree_as_matrix`, including the `kron` padding with
identities of subtrees of unequal height) returns (no exception) the `d^h × d^h` matrix, `h` the height of the tree,
whose entries are those of the dense meaning of the padded path sum `denTreeBare` (every root-to-leaf path padded
with identities after its leaf up to `h`).  A single leaf gives the `1 × 1` identity (`h = 0`). -/
theorem dense_tree (opmap : OpMap κ) (d : Nat) (id : Int) (hd : 2 ≤ d) (hid : IdOk opmap d id) (T : TNode κ)
    (hops : ∀ p ∈ T.paths, OpMapOk opmap d p.1) :
    ∃ M, T.asMatrix opmap = .ok M ∧ IsMat M (d ^ T.height) (d ^ T.height) ∧
      ∀ s t, IsDigits d T.height s → IsDigits d T.height t →
        M.entry (digIdx d s) (digIdx d t) = symSum (fun w => wordEntry opmap w s t) (denTreeBare T id) :=
  (subtree_children_dense opmap d id hd hid).1 T hops

/-- the tree's `as_matrix` agrees entrywise with `denseOfSym` of `denTreeBare` -/
theorem dense_tree_sym (opmap : OpMap κ) (d : Nat) (id : Int) (hd : 2 ≤ d) (hid : IdOk opmap d id) (T : TNode κ)
    (hops : ∀ p ∈ T.paths, OpMapOk opmap d p.1) :
    ∃ M M', T.asMatrix opmap = .ok M ∧ denseOfSym opmap (d ^ T.height) (denTreeBare T id) = .ok M' ∧
      ∀ s t, IsDigits d T.height s → IsDigits d T.height t →
        M.entry (digIdx d s) (digIdx d t) = M'.entry (digIdx d s) (digIdx d t) := by
  obtain ⟨M, hM, _, hent⟩ := dense_tree opmap d id hd hid T hops
  obtain ⟨I, hI, hIm, _⟩ := hid
  obtain ⟨M', hM', _, hent'⟩ := dense_sym opmap d T.height (denTreeBare T id) (by
    intro p hp
    simp only [denTreeBare, List.mem_map] at hp
    obtain ⟨q, hq, rfl⟩ := hp
    have hl := paths_length_le.1 T q hq
    refine ⟨by simp only [List.length_append, List.length_replicate]; omega, ?_⟩
    intro o ho
    simp only [List.mem_append, List.mem_replicate] at ho
    rcases ho with ho | ⟨_, rfl⟩
    · exact hops q hq o ho
    · exact ⟨I, hI, hIm⟩)
  exact ⟨M, M', hM, hM', fun s t hs ht => by rw [hent s t hs ht, hent' s t hs ht]⟩

/-- **The path enumeration of a graph in either direction has the path sums `denF` as coefficients** (words up to
the number of nodes, which bounds the length of every path of a consistent graph). -/
theorem graph_coeff {g : Graph κ} (sv : SValid g) (dir : Bool) (w : Word) (hw : w.length ≤ g.nodes.length) :
    symCoeff (g.denDir dir) w = g.denF w :=
  denDir_coeff sv dir w hw

/-- **Dense meaning of a graph.**  `OpGraph.as_matrix(opmap, direction)` (the dense meaning of the path enumeration
in that direction) is, for a graph all of whose paths have `L` edges, the `d^L × d^L` matrix
`Σ_w c_w · ⊗_k opmap[w_k]` over the normal form `denDir dir` of the enumeration, whose coefficients are the path
sums `denF` by `graph_coeff`. -/
theorem dense_graph {g : Graph κ} (dir : Bool) (opmap : OpMap κ) (d L : Nat)
    (hwords : ∀ p ∈ g.denDir dir, p.1.length = L ∧ OpMapOk opmap d p.1) :
    ∃ M, denseOfSym opmap (d ^ L) (g.denDir dir) = .ok M ∧ IsMat M (d ^ L) (d ^ L) ∧
      ∀ (s t : List Nat), IsDigits d L s → IsDigits d L t →
        M.entry (digIdx d s) (digIdx d t) = symSum (fun w => wordEntry opmap w s t) (g.denDir dir) :=
  denseOfSym_denDir dir opmap d L hwords

/-- **Dense meaning of a consistent graph** (`Valid g`: duplicate-free dictionaries and `is_consistent`): all
enumerated paths have the same number `L` of edges, `as_matrix(opmap, direction)` is the `d^L × d^L` matrix
`Σ_w c_w · ⊗_k opmap[w_k]` over the enumeration of that direction, and the coefficients `c_w` are the path sums
`denF w` in both directions. -/
theorem dense_graph_consistent {g : Graph κ} (v : Valid g) (dir : Bool) (opmap : OpMap κ) (d : Nat)
    (hop : ∀ p ∈ g.denDir dir, OpMapOk opmap d p.1) :
    ∃ L M, denseOfSym opmap (d ^ L) (g.denDir dir) = .ok M ∧ IsMat M (d ^ L) (d ^ L) ∧
      (∀ (s t : List Nat), IsDigits d L s → IsDigits d L t →
        M.entry (digIdx d s) (digIdx d t) = symSum (fun w => wordEntry opmap w s t) (g.denDir dir)) ∧
      (∀ w : Word, w.length ≤ g.nodes.length → symCoeff (g.denDir dir) w = g.denF w) := by
  obtain ⟨L, hL⟩ := denDir_uniform v dir
  obtain ⟨M, hM, hshape, hent⟩ := dense_graph dir opmap d L (fun p hp => ⟨hL p hp, hop p hp⟩)
  exact ⟨L, M, hM, hshape, hent, fun w hw => graph_coeff v.1 dir w hw⟩

/-! ### non-vacuity -/

/-- Pauli-like 2×2 integer matrices: `0 ↦ identity`, `1 ↦ [[0,1],[1,0]]`, `2 ↦ [[1,0],[0,-1]]` -/
def om₀ : OpMap ℤ := [(0, [[1, 0], [0, 1]]), (1, [[0, 1], [1, 0]]), (2, [[1, 0], [0, -1]])]

example : OpMapOk om₀ 2 [0, 1, 2] := by
  intro o ho
  simp only [List.mem_cons, List.not_mem_nil, or_false] at ho
  rcases ho with rfl | rfl | rfl
  · exact ⟨[[1, 0], [0, 1]], rfl, rfl, by decide⟩
  · exact ⟨[[0, 1], [1, 0]], rfl, rfl, by decide⟩
  · exact ⟨[[1, 0], [0, -1]], rfl, rfl, by decide⟩

example : IdOk om₀ 2 0 := by
  refine ⟨[[1, 0], [0, 1]], rfl, ⟨rfl, by decide⟩, ?_⟩
  intro a b ha hb
  have h1 : a = 0 ∨ a = 1 := by omega
  have h2 : b = 0 ∨ b = 1 := by omega
  rcases h1 with rfl | rfl <;> rcases h2 with rfl | rfl <;> rfl

/-- leaves at different depths: the `kron` padding of the shorter branch -/
example : (TNode.mk 0 [(1, 2, .mk 0 []), (2, 1, .mk 0 [(1, 3, .mk 0 [])])] : TNode ℤ).asMatrix om₀ =
    .ok [[0, 3, 2, 0], [3, 0, 0, 2], [2, 0, 0, -3], [0, 2, -3, 0]] := by decide

example : (⟨[1, 2], [0, 0, 0], 3, 0⟩ : OpChain ℤ).asMatrix om₀ =
    .ok [[0, 0, 3, 0], [0, 0, 0, -3], [3, 0, 0, 0], [0, -3, 0, 0]] := by decide

example : denseOfSym om₀ 4 (g₀.denDir true) = denseOfSym om₀ 4 (g₀.denDir false) ∧
    (∀ p ∈ g₀.denDir true, p.1.length = 2) := by decide

end Ptn.C17

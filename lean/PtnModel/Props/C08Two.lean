import PtnModel.Proofs.Evo2Example
/-!
# C08 (two-site part) — two-site TDVP with zero split tolerance conserves norm and energy

Property (properties.jsonl): *For a Hermitian MPO and a purely imaginary time step, single-site TDVP and two-site TDVP
with zero split tolerance keep the norm of the evolved state at one and its energy expectation value at the initial
value, for any number of steps and any number of local Krylov iterations.  …*  The single-site clauses and the structural
clauses of both integrators are in `Props/C08.lean`; this file adds the two-site conservation law.

Model: `Ptn.Evo.integrateLocalTwosite`, `twoSiteUpdate`, `tdvp2Left/Right/Step` (`PtnModel/Model/Evolution.lean`) and
`Ptn.MPS.splitMpsTensor` (`Model/MPSSvd.lean`), tied to `pytenet/evolution.py`, `pytenet/mps.py` by the correspondences of
`harness/props/c08.py`, `c03.py`.  Scalars: any `RCLike 𝕜`, reals `ℝ`, exact arithmetic.

Kernel contracts (hypotheses, never axioms): `SweepCtx k H qd numiter` as in `Props/C08.lean` (QR kernel, `np.linalg.norm`,
`eigh_tridiagonal` for the Lanczos runs, `H` shaped and Hermitian as a dense matrix, `len qd ≥ 1`), and for the split
`Compress.SvdKernel k.svd` (`Proofs/CompressLocal.lean`, the contracts of C12/C13 for all inputs):
`C12.SVDContract` for `np.linalg.svd(·, full_matrices=False)` (shapes, `U diag(s) Vh = B`, `UᴴU = 1`, `Vh Vhᴴ = 1`, `s ≥ 0`),
`C12.NormContract` for `np.linalg.norm` of the spectrum, `C12.SortContract` for `np.argsort`.

Vocabulary (`PtnModel/Proofs/Evo2Canon.lean`): `Canon2 H qd s i` — the sweep state `s` is mixed-canonical around the
two-site window `(i, i+1)`: shapes fit (`SweepWf`), boundary bonds have dimension one, the tensors of the sites `< i` are
left isometries, those of the sites `> i+1` right isometries, `BL[j]` (`j ≤ i`) and `BR[j]` (`j ≥ i+1`) are the partial
contractions (C04 `IsLeftBlock` / `IsRightBlock`) of the current tensors.  The one-site invariants `Canon … i` and
`Canon … (i+1)` of `Props/C10.lean` both imply it (`Canon.toTwoL`, `Canon.toTwoR`).  `mergedA s i`, `mergedW H i` are the
merged state and operator tensors of the window exactly as the model builds them (`merge_mps_tensor_pair`,
`merge_mpo_tensor_pair`); `ampTwo ψ d i X σ` (C04) is the amplitude of `ψ` with the two-site tensor `X` inserted at
`(i, i+1)`; `cur qd s` is the MPS held by the sweep state; `normSq`, `energy`, `frob3`, `inner3`, `LocalFits`,
`LocalHermitian` as in `Props/C08.lean`.

Proved here:
* `two_site_local`   : the two-site effective operator of a window is well-dimensioned and Hermitian;
* `split_step_canon` : the gauge step — `split_mps_tensor` at tolerance zero with the singular values distributed to the
  right (left) returns a left (right) isometry as first (second) tensor, the merged pair is the split tensor, hence the
  window invariant is kept and norm / energy / every amplitude of the new state are those of the split tensor inserted
  into the window; `split_step_dense` : splitting the merged pair of the window itself changes no amplitude;
* `tdvp2_norm_energy` : **two-site TDVP with a purely imaginary time step and `tol_split = 0` keeps the norm of the evolved
  state at one and its energy at the energy of the normalised input**, for any number of steps and Krylov iterations.
-/
set_option linter.unusedSectionVars false

namespace Ptn.C08
open Ptn Ptn.Krylov Ptn.Evo Ptn.BondOps Ptn.Ortho Ptn.Env Finset

variable {𝕜 : Type} [RCLike 𝕜] [DecidableEq 𝕜]
local notation "conj" => starRingEnd 𝕜

/-- **The two-site effective operator of a window.**  In a two-site window `(i, i+1)` of a mixed-canonical state, for a
shaped MPO with Hermitian dense matrix, the map `X ↦ apply_local_hamiltonian(BL[i], BR[i+1], merge(W[i], W[i+1]), X)` passes
all dimension checks on tensors of shape `(d², D_i, D_{i+2})` and is Hermitian as a quadratic form on such tensors. -/
theorem two_site_local {H : MPO 𝕜} {qd : List Int} {s : Sweep 𝕜} {i : Nat} (h : Canon2 H qd s i)
    (hH : C04.MPO.Shaped H qd.length) (hHerm : C04.MPO.DenseHermitian H qd.length) :
    LocalFits (getBL s i) (getBR s (i + 1)) (mergedW H i) (qd.length * qd.length) (getQ s i).length
      (getQ s (i + 2)).length ∧
    LocalHermitian (getBL s i) (getBR s (i + 1)) (mergedW H i) (qd.length * qd.length) (getQ s i).length
      (getQ s (i + 2)).length :=
  canon2_local h hH hHerm

/-- **Gauge step of the two-site sweeps.**  In a two-site window `(i, i+1)` of a mixed-canonical state (`Canon2`) let `X` be
a non-zero two-site tensor of the shape `(d², D_i, D_{i+2})` of the window and let
`split_mps_tensor(X, qd, qd, [qD[i], qD[i+2]], svd_distr, tol = 0)` return `(A0, A1, qb)`, `svd_distr` = `'left'` (0) or
`'right'` (1).  Under the SVD / norm / argsort kernel contracts, for the sweep state `s'` with `(A0, A1, qb)` stored at the
sites `i, i+1` and the bond between them:
* `s'` satisfies the window invariant;
* `'right'`: `A0` is a left isometry; `'left'`: `A1` is a right isometry (the singular values are distributed into the
  other factor);
* every amplitude of the dense state of `s'` is the amplitude of the old state with `X` inserted into the window (the merge
  of the returned pair is `X`, `C03.split_merge_tol0`);
* hence `Σ_σ |ψ'[σ]|² = ‖X‖²` and `⟨ψ'|H|ψ'⟩ = ⟨X, H_eff X⟩` with the two-site effective operator of the window. -/
theorem split_step_canon {k : MPS.SvdKernels 𝕜 ℝ} (hk : Compress.SvdKernel k) {dsqrt : ℝ → ℝ} {H : MPO 𝕜}
    {qd : List Int} {s : Sweep 𝕜} {i : Nat} (h : Canon2 H qd s i)
    (hH : C04.MPO.Shaped H qd.length) (hd : 0 < qd.length) {X A0 A1 : T3 𝕜} {qb : List Int} {distr : Nat}
    (hdistr : distr ≤ 1)
    (hX : X.d0 = qd.length * qd.length ∧ X.d1 = (getQ s i).length ∧ X.d2 = (getQ s (i + 2)).length)
    (hpos : 0 < frob3 X)
    (hrun : MPS.splitMpsTensor k dsqrt X qd qd (getQ s i) (getQ s (i + 2)) distr (0 : ℝ) = .ok (A0, A1, qb)) :
    Canon2 H qd (⟨(s.A.setIfInBounds i A0).setIfInBounds (i + 1) A1, s.qD.setIfInBounds (i + 1) qb, s.BL, s.BR⟩ :
      Sweep 𝕜) i ∧
    (distr = 1 → LeftIso A0) ∧ (distr = 0 → RightIso A1) ∧
    (∀ σ, σ ∈ digitsU qd.length H.A.length →
      (cur qd (⟨(s.A.setIfInBounds i A0).setIfInBounds (i + 1) A1, s.qD.setIfInBounds (i + 1) qb, s.BL, s.BR⟩ :
        Sweep 𝕜)).amp σ = ampTwo (cur qd s) qd.length i X σ) ∧
    normSq (cur qd (⟨(s.A.setIfInBounds i A0).setIfInBounds (i + 1) A1, s.qD.setIfInBounds (i + 1) qb, s.BL, s.BR⟩ :
        Sweep 𝕜)) qd.length = ((frob3 X : ℝ) : 𝕜) ∧
    ∀ T, Op.applyLocalHamiltonian (getBL s i) (getBR s (i + 1)) (mergedW H i) X = .ok T →
      energy (cur qd (⟨(s.A.setIfInBounds i A0).setIfInBounds (i + 1) A1, s.qD.setIfInBounds (i + 1) qb, s.BL,
        s.BR⟩ : Sweep 𝕜)) H qd.length = inner3 X T :=
  Evo.split_step_canon hk h hH hd hdistr hX hpos hrun

/-- **The pure gauge step keeps the dense state.**  If the tensor that is split is the merged pair of the window itself
(`merge_mps_tensor_pair(A[i], A[i+1])`), replacing the pair by the result of the zero-tolerance split changes no
amplitude. -/
theorem split_step_dense {k : MPS.SvdKernels 𝕜 ℝ} (hk : Compress.SvdKernel k) {dsqrt : ℝ → ℝ} {H : MPO 𝕜}
    {qd : List Int} {s : Sweep 𝕜} {i : Nat} (h : Canon2 H qd s i)
    (hH : C04.MPO.Shaped H qd.length) (hd : 0 < qd.length) {A0 A1 : T3 𝕜} {qb : List Int} {distr : Nat}
    (hdistr : distr ≤ 1) (hpos : 0 < frob3 (mergedA s i))
    (hrun : MPS.splitMpsTensor k dsqrt (mergedA s i) qd qd (getQ s i) (getQ s (i + 2)) distr (0 : ℝ) =
      .ok (A0, A1, qb)) {σ : List Nat} (hσ : σ ∈ digitsU qd.length H.A.length) :
    (cur qd (⟨(s.A.setIfInBounds i A0).setIfInBounds (i + 1) A1, s.qD.setIfInBounds (i + 1) qb, s.BL, s.BR⟩ :
      Sweep 𝕜)).amp σ = (cur qd s).amp σ :=
  Evo.split_step_dense hk h hH hd hdistr hpos hrun hσ

/-- **Two-site TDVP conserves norm and energy.**  For a Hermitian MPO (`SweepCtx`), the SVD / norm / argsort kernel
contracts (`Compress.SvdKernel k.svd`), an admissible input state, a purely imaginary time step `dt = i τ`, a real oracle
scalar `k.half` (the `0.5` of the code), `|exp(i x)| = 1` and `tol_split = 0`: if `integrate_local_twosite` returns
`(ψ', nrm)` then — for every number of steps and every number of Krylov iterations — `Σ_σ |ψ'[σ]|² = 1` and
`⟨ψ'|H|ψ'⟩ = ⟨ψ1|H|ψ1⟩`, where `ψ1` is the right-orthonormalised (normalised) input:
`orthonormalize(ψ, 'right') = (ψ1, nrm)`, `nrm · ψ1 = ψ` as dense vectors (`C01.ortho_dense`), so
`⟨ψ|H|ψ⟩ = nrm² ⟨ψ'|H|ψ'⟩`.  (The call itself requires `L ≥ 2`, `C08.tdvp2_only_psi`.) -/
theorem tdvp2_norm_energy {k : EvoKernels 𝕜 ℝ} {H : MPO 𝕜} {ψ ψ' : MPS 𝕜} {numiter : Nat}
    (ctx : SweepCtx k H ψ.qd numiter) (hk : Compress.SvdKernel k.svd)
    (hexp : ∀ x : ℝ, ‖k.dexp (RCLike.I * (x : 𝕜))‖ = 1)
    {hh τ : ℝ} (hhalf : k.half = ((hh : ℝ) : 𝕜)) {dt : 𝕜} (hdt : dt = RCLike.I * ((τ : ℝ) : 𝕜))
    (hadm : Admissible ψ) {numsteps : Nat} {nrm : ℝ}
    (h : integrateLocalTwosite k H ψ dt numsteps numiter (0 : ℝ) = .ok (ψ', nrm)) :
    ∑ σ ∈ digitsU ψ.qd.length ψ'.A.length, ‖ψ'.amp σ‖ ^ 2 = 1 ∧
    ∃ ψ1, MPS.orthonormalize (ρ := ℝ) k.dqr ψ false = .ok (ψ1, nrm) ∧
      energy ψ' H ψ.qd.length = energy ψ1 H ψ.qd.length ∧
      energy ψ H ψ.qd.length = ((nrm ^ 2 : ℝ) : 𝕜) * energy ψ' H ψ.qd.length := by
  obtain ⟨ψ1, E0, ho, hE1, hn, hE'⟩ := tdvp2_main ctx hk hexp hhalf hdt rfl hadm h
  refine ⟨?_, ψ1, ho, hE'.trans hE1.symm, ?_⟩
  · rw [normSq_real] at hn
    exact_mod_cast hn
  · rw [(start_energy ctx.qr hadm ho H).1, hE', hE1]

/-! ## non-vacuity

Concrete objects (`PtnModel/Proofs/Evo2Example.lean`, `EvoExample.lean`): kernels `exK2` over `ℂ` = the kernels `exK` of
`Props/C08.lean` with the SVD kernels `Compress.exKernels ℂ` (a reduced SVD of every complex matrix from the spectral
theorem, the 2-norm, an insertion-sort `argsort`); the Hermitian two-site MPO `exOC = Z ⊗ 1 + 1 ⊗ Z`; the admissible
two-site state `exψC = |01⟩ + i|10⟩`.  As in `Props/C08.lean` the hypothesis "the integrator returns `.ok`" of
`tdvp2_norm_energy` is witnessed by the runs of the correspondence check (`harness/props/c08.py`), not by a Lean term over
`ℂ`; for the gauge step all hypotheses *including the successful split* are exhibited. -/

/-- hypotheses of `tdvp2_norm_energy` (other than the run): kernel contracts including the SVD kernels, Hermitian shaped
MPO with `L = 2`, admissible state, `|dexp(i x)| = 1`, real `half`, purely imaginary `dt` -/
example : SweepCtx exK2 exOC exψC.qd 1 ∧ Compress.SvdKernel exK2.svd ∧
    (∀ x : ℝ, ‖exK2.dexp (RCLike.I * (x : ℂ))‖ = 1) ∧ exK2.half = (((1 / 2 : ℝ) : ℝ) : ℂ) ∧ Admissible exψC ∧
    exOC.A.length = exψC.A.length ∧ 2 ≤ exOC.A.length ∧ ∃ τ : ℝ, (Complex.I : ℂ) = RCLike.I * ((τ : ℝ) : ℂ) :=
  ⟨exK2_ctx, exK2_svd, exK2_exp, rfl, exψC_adm, rfl, by decide, 1, by simp⟩

/-- hypotheses of `two_site_local`, `split_step_canon`, `split_step_dense` **including the successful split**: a sweep
state holding `exψC` satisfies the window invariant at `i = 0`, its merged pair is non-zero, has the shape of the window,
and `split_mps_tensor(·, tol = 0)` returns for both distributions of the singular values -/
example (distr : Nat) (hdistr : distr ≤ 1) : ∃ s : Sweep ℂ, Canon2 exOC exψC.qd s 0 ∧ Compress.SvdKernel exK2.svd ∧
    C04.MPO.Shaped exOC exψC.qd.length ∧ C04.MPO.DenseHermitian exOC exψC.qd.length ∧ 0 < exψC.qd.length ∧
    ((mergedA s 0).d0 = exψC.qd.length * exψC.qd.length ∧ (mergedA s 0).d1 = (getQ s 0).length ∧
      (mergedA s 0).d2 = (getQ s (0 + 2)).length) ∧ 0 < frob3 (mergedA s 0) ∧
    ∃ r, MPS.splitMpsTensor exK2.svd exK2.dsqrt (mergedA s 0) exψC.qd exψC.qd (getQ s 0) (getQ s (0 + 2)) distr (0 : ℝ) =
      .ok r := by
  obtain ⟨s, hA, hQ, _, hcan⟩ := canon2_two_sites (H := exOC) exψC_adm exOC_shaped rfl rfl
  obtain ⟨hpos, hrun⟩ := exSplit_ok hA hQ hdistr
  exact ⟨s, hcan, exK2_svd, exOC_shaped, exOC_herm, by decide, mergedA_dims hcan, hpos, hrun⟩

end Ptn.C08

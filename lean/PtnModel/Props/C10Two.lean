import PtnModel.Proofs.Evo2Example
/-!
# C10 (two-site part) — two-site DMRG at zero split tolerance: consistent, variational, monotone energies

Property (properties.jsonl): *For a Hermitian MPO, single-site and two-site DMRG leave a normalized state whose energy
expectation value equals the last reported energy; every reported energy is at least the exact ground-state energy (of
the quantum-number sector of the state), never exceeds the energy of the normalized starting state, and the sequence of
reported energies is non-increasing (two-site: for zero split tolerance).  …*  The single-site clauses are in
`Props/C10.lean`; this file adds the two-site clauses for `tol_split = 0`.

Model: `Ptn.Evo.dmrgTwosite`, `dmrg2Update`, `dmrg2Left/Right/Sweep` (`PtnModel/Model/Evolution.lean`) and
`Ptn.MPS.splitMpsTensor` (`Model/MPSSvd.lean`), tied to `pytenet/minimization.py`, `pytenet/mps.py` by the correspondences
of `harness/props/c10.py`, `c03.py`.  Scalars: any `RCLike 𝕜`, reals `ℝ`, exact arithmetic.

Kernel contracts (hypotheses): `SweepCtx k H qd numiter` as in `Props/C10.lean`, and `Compress.SvdKernel k.svd`
(`C12.SVDContract`, `C12.NormContract`, `C12.SortContract` for all inputs) for the split.  Vocabulary (`normSq`, `energy`,
`DenseLower`, `Canon2`, `mergedA`, `mergedW`) as in `Props/C10.lean` and `Props/C08Two.lean`.

Proved here, for `L ≥ 2`, every number of sweeps and every number of Lanczos iterations, whenever the call returns:
* `two_site_ritz`           : one two-site update (merge, `_minimize_local_energy`, zero-tolerance split) in a window of a
  normalised mixed-canonical state: the new state is normalised, its energy is the reported value, which is at most the
  old energy and at least every lower bound of the dense operator;
* `dmrg2_energy_consistent` : one energy per sweep, the returned state is normalised and its energy is the last reported
  value;
* `dmrg2_variational`       : every reported energy is `≥` every lower bound of the dense operator, `≤` the energy of the
  normalised start state, and the sequence is non-increasing.
-/
set_option linter.unusedSectionVars false

namespace Ptn.C10
open Ptn Ptn.Krylov Ptn.Evo Ptn.BondOps Ptn.Ortho Ptn.Env Finset

variable {𝕜 : Type} [RCLike 𝕜] [DecidableEq 𝕜]
local notation "conj" => starRingEnd 𝕜

/-- **One two-site update.**  In a two-site window `(i, i+1)` of a mixed-canonical state with `Σ_σ |ψ[σ]|² = 1` and
`⟨ψ|H|ψ⟩ = E` (`DInv2`), if the update (merge the pair, `_minimize_local_energy` with the two-site effective operator,
`split_mps_tensor` with `tol = 0` and the singular values to the left (0) or right (1)) returns `(s', en)` then the new
state again satisfies the window invariant with `Σ_σ |ψ'[σ]|² = 1` and `⟨ψ'|H|ψ'⟩ = en`; `en ≤ E`; `μ ≤ en` for every lower
bound `μ` of the dense operator; the factor that does not carry the singular values is an isometry; the environment
blocks are untouched. -/
theorem two_site_ritz {k : EvoKernels 𝕜 ℝ} {H : MPO 𝕜} {qd : List Int} {numiter : Nat}
    (ctx : SweepCtx k H qd numiter) (hk : Compress.SvdKernel k.svd) {s s' : Sweep 𝕜} {i : Nat}
    {E en : ℝ} (h : DInv2 H qd s i E) {distr : Nat} (hdistr : distr ≤ 1)
    (hrun : dmrg2Update k H qd numiter (0 : ℝ) distr s i = .ok (s', en)) :
    DInv2 H qd s' i en ∧ en ≤ E ∧ (∀ μ, DenseLower H qd.length μ → μ ≤ en) ∧
      (distr = 1 → LeftIso (getA s' i)) ∧ (distr = 0 → RightIso (getA s' (i + 1))) ∧ s'.BL = s.BL ∧ s'.BR = s.BR :=
  dmrg2Update_inv ctx hk h hdistr hrun

/-- **Two-site DMRG returns a normalised state whose energy is the last reported energy.**  For a Hermitian MPO with
`L ≥ 2` sites, an admissible start state, `tol_split = 0`, every number of sweeps `≥ 1` and every number of Lanczos
iterations, if `calculate_ground_state_local_twosite` returns `(ψ', en)` then `en` has one entry per sweep,
`Σ_σ |ψ'[σ]|² = 1`, and `⟨ψ'|H|ψ'⟩` equals the last entry of `en`. -/
theorem dmrg2_energy_consistent {k : EvoKernels 𝕜 ℝ} {H : MPO 𝕜} {ψ ψ' : MPS 𝕜} {numiter : Nat}
    (ctx : SweepCtx k H ψ.qd numiter) (hk : Compress.SvdKernel k.svd)
    (hL2 : 2 ≤ H.A.length) (hadm : Admissible ψ) {numsweeps : Nat} (hns : 1 ≤ numsweeps) {en : List ℝ}
    (h : dmrgTwosite k H ψ numsweeps numiter (0 : ℝ) = .ok (ψ', en)) :
    en.length = numsweeps ∧ ∑ σ ∈ digitsU ψ.qd.length ψ'.A.length, ‖ψ'.amp σ‖ ^ 2 = 1 ∧
      ∃ elast, en.getLast? = some elast ∧ energy ψ' H ψ.qd.length = ((elast : ℝ) : 𝕜) := by
  obtain ⟨ψ1, nrm, E0, _, _, hlen, hn, he, _, _⟩ := dmrg2_main ctx hk hL2 rfl hadm h
  refine ⟨hlen, ?_, ?_⟩
  · rw [normSq_real] at hn
    exact_mod_cast hn
  · cases hl : en.getLast? with
    | none =>
      rw [List.getLast?_eq_none_iff] at hl
      rw [hl] at hlen
      simp at hlen
      omega
    | some e =>
      rw [hl] at he
      exact ⟨e, rfl, he⟩

/-- **Two-site DMRG is variational and monotone** (`tol_split = 0`).  Under the same hypotheses every reported energy `e`
satisfies
* `μ ≤ e` for every lower bound `μ` of the dense operator (in particular its exact ground-state energy),
* `e ‖ψ‖² ≤ ⟨ψ|H|ψ⟩` for the start state `ψ` (the energy of the normalised start state is not exceeded; `⟨ψ|H|ψ⟩` is real),
and the sequence of reported energies is non-increasing. -/
theorem dmrg2_variational {k : EvoKernels 𝕜 ℝ} {H : MPO 𝕜} {ψ ψ' : MPS 𝕜} {numiter : Nat}
    (ctx : SweepCtx k H ψ.qd numiter) (hk : Compress.SvdKernel k.svd)
    (hL2 : 2 ≤ H.A.length) (hadm : Admissible ψ) {numsweeps : Nat} {en : List ℝ}
    (h : dmrgTwosite k H ψ numsweeps numiter (0 : ℝ) = .ok (ψ', en)) :
    (∀ e ∈ en, (∀ μ, DenseLower H ψ.qd.length μ → μ ≤ e) ∧
      e * ∑ σ ∈ digitsU ψ.qd.length ψ.A.length, ‖ψ.amp σ‖ ^ 2 ≤ RCLike.re (energy ψ H ψ.qd.length)) ∧
    en.Pairwise (· ≥ ·) := by
  obtain ⟨ψ1, nrm, E0, ho, hE0, _, _, _, hall, hpw⟩ := dmrg2_main ctx hk hL2 rfl hadm h
  refine ⟨fun e he => ⟨(hall e he).2, ?_⟩, hpw⟩
  obtain ⟨hen, _⟩ := start_energy ctx.qr hadm ho H
  rw [hen, hE0, ← C01.ortho_norm_sq ctx.qr hadm ho]
  have : RCLike.re (((nrm ^ 2 : ℝ) : 𝕜) * ((E0 : ℝ) : 𝕜)) = nrm ^ 2 * E0 := by
    rw [← RCLike.ofReal_mul, RCLike.ofReal_re]
  rw [this, mul_comm]
  exact mul_le_mul_of_nonneg_left (hall e he).1 (sq_nonneg nrm)

/-! ## non-vacuity

Concrete objects as in `Props/C08Two.lean` (`PtnModel/Proofs/Evo2Example.lean`).  The hypothesis "the driver returns
`.ok`" is witnessed by the runs of the correspondence check (`harness/props/c10.py`), not by a Lean term over `ℂ`. -/

/-- hypotheses of `dmrg2_energy_consistent` / `dmrg2_variational` (other than the run): kernel contracts with one Lanczos
iteration including the SVD kernels, Hermitian shaped MPO with `L = 2`, admissible start state (the lower-bound clause is
universally quantified over `μ` with `DenseLower`, so it needs no witness) -/
example : SweepCtx exK2 exOC exψC.qd 1 ∧ Compress.SvdKernel exK2.svd ∧ 2 ≤ exOC.A.length ∧ Admissible exψC ∧
    exOC.A.length = exψC.A.length :=
  ⟨exK2_ctx, exK2_svd, by decide, exψC_adm, rfl⟩

/-- hypotheses of `two_site_ritz` (other than the run and the normalisation, which `prologue_inv` establishes for the state
after the prologue): the window invariant holds for a sweep state holding `exψC`, and the zero-tolerance split of a
non-zero tensor of the window returns (both distributions) -/
example (distr : Nat) (hdistr : distr ≤ 1) : ∃ s : Sweep ℂ, Canon2 exOC exψC.qd s 0 ∧
    SweepCtx exK2 exOC exψC.qd 1 ∧ Compress.SvdKernel exK2.svd ∧ 0 < frob3 (mergedA s 0) ∧
    ∃ r, MPS.splitMpsTensor exK2.svd exK2.dsqrt (mergedA s 0) exψC.qd exψC.qd (getQ s 0) (getQ s (0 + 2)) distr (0 : ℝ) =
      .ok r := by
  obtain ⟨s, hA, hQ, _, hcan⟩ := canon2_two_sites (H := exOC) exψC_adm exOC_shaped rfl rfl
  obtain ⟨hpos, hrun⟩ := exSplit_ok hA hQ hdistr
  exact ⟨s, hcan, exK2_ctx, exK2_svd, hpos, hrun⟩

end Ptn.C10

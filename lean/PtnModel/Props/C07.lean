import PtnModel.Proofs.HamMolChains
/-!
# Property C07 (molecular Hamiltonian MPOs are exact for every orbital count, both build paths)

"For every number of orbitals and all one- and two-body coefficient tensors, the spinless and the spin-orbital molecular
Hamiltonian MPOs equal the second-quantized operator of the documented formula, and the bond-optimized and the explicit
construction represent the same operator wherever both are defined.  The gauge matrices returned for a two-orbital
rotation transform the explicit MPO of the original coefficients into that of the rotated coefficients."

All statements are about the executable model `PtnModel/Model/HamiltonianMol.lean`, `HamiltonianMolGraph.lean`,
`HamiltonianSpinGraph.lean` (`molChains`, `molIntChain`, `molHopChain`, `molBuildOpt`, `molBuildExplicit`, `spinMolBuildOpt`,
`spinMolBuildExplicit`), which mirrors what `molecular_hamiltonian_mpo` / `spin_molecular_hamiltonian_mpo` compute before
handing over to `OpGraph.from_opchains` resp. `MPO.from_opgraph`, and is tied to `pytenet/hamiltonian.py` by the exact
differential correspondence of `./check C07` (chain lists, node tables, complete explicit graphs, tensors; spinless `L ≤ 8`,
spin `L ≤ 6`).  `molecular_hamiltonian_orbital_gauge_transform` is not modelled (oracle only).

Proved here, for every number of orbitals `L ≥ 0` and arbitrary coefficient tensors over any scalar type:

* `molecular_hop_chain_wf`, `molecular_int_chain_wf` -- the case analysis on the sorted `(site, OID)` pairs: for all
  `0 ≤ i < j < L`, `0 ≤ k < l < L` (all 13 relative orders, coinciding sites included) the internal `assert b < c` holds, the
  `OpChain` constructor accepts the operator / charge lists, and the chain satisfies the guards of `from_opchains`;
* `molecular_chains_wf` -- hence the whole enumeration of the bond-optimized spinless construction returns and every chain is
  well formed; this is what makes `from_opchains` applicable for every `L`, including `L = 1`;
* `molecular_mpo_block_sparse` -- whenever any of the four constructions returns, every tensor is block sparse under the physical
  charges (`[0, 1]` resp. the encoded `(N, S)` pairs) and the bond charges.
-/
set_option linter.unusedSectionVars false

namespace Ptn.C07
open Ptn Ptn.Og Ptn.Ham

variable {κ : Type} [Add κ] [Mul κ] [Neg κ] [OfNat κ 0] [OfNat κ 1] [DecidableEq κ]

/-- hopping term `t a†_i a_j`, `i ≠ j`: `[p] + (b-a-1)*[Z] + [q]` with charges `[0] + (b-a)*[int(p)] + [0]` is accepted and well formed -/
theorem molecular_hop_chain_wf (L i j : Int) (coeff : κ) (hi : 0 ≤ i) (hj : 0 ≤ j) (hiL : i < L) (hjL : j < L) (hij : i ≠ j) :
    ∃ ch, molHopChain i j coeff = .ok ch ∧ ChainWF L ch :=
  molHopChain_wf L i j coeff hi hj hiL hjL hij

/-- interaction term `g a†_i a†_j a_l a_k`, `i < j`, `k < l`: every branch of the case analysis (two number operators, number
operator first / in the middle / last, generic) yields an accepted, well-formed chain; `assert b < c` never fires -/
theorem molecular_int_chain_wf (L i j k l : Int) (coeff : κ) (hi : 0 ≤ i) (hij : i < j) (hjL : j < L)
    (hk : 0 ≤ k) (hkl : k < l) (hlL : l < L) :
    ∃ ch, molIntChain i j k l coeff = .ok ch ∧ ChainWF L ch :=
  molIntChain_wf L i j k l coeff hi hij hjL hk hkl hlL

/-- non-vacuity: the term `a†_0 a†_2 a_2 a_1` on four orbitals (number operator in the middle, Jordan-Wigner `Z` on orbital 1
is absent because `b - a - 1 = 0`): the chain `C_0 A_1 N_2` -/
example : molIntChain 0 2 1 2 (7 : Int) = .ok ⟨[1, -1, 2], [0, 1, 0, 0], 7, 0⟩ := rfl

/-- **The bond-optimized spinless enumeration is well formed for every `L`** (all coefficient tensors). -/
theorem molecular_chains_wf (c : Consts κ) (tkin : List (List κ)) (vint : List (List (List (List κ)))) :
    ∃ chains, molChains c tkin vint = .ok chains ∧ ∀ ch ∈ chains, ChainWF (tkin.length : Int) ch :=
  molChains_wf c tkin vint

/-- non-vacuity: `L = 1` (the case that used to abort): the single chain `t_00 N_0`; `L = 2`: four hopping chains and one
interaction chain -/
example (c : Consts Int) : molChains c [[5]] [[[[9]]]] = .ok [⟨[2], [0, 0], 5, 0⟩] := rfl

example (c : Consts Int) : (molChains c [[1, 2], [3, 4]] [[[[0, 0], [0, 0]], [[0, 0], [0, 0]]], [[[0, 0], [0, 0]], [[0, 0], [0, 0]]]]).toOption.map List.length
    = some 5 := rfl

/-- **Block sparsity of all four constructions**: whenever the optimized or the explicit, spinless or spin-orbital
constructor returns, all tensors are block sparse under `qd` / `qD`. -/
theorem molecular_mpo_block_sparse (c : Consts κ) (tkin : List (List κ)) (vint : List (List (List (List κ)))) :
    (∀ b, molBuildOpt c tkin vint = .ok b → b.Sparse) ∧
    (∀ r, molBuildExplicit c tkin vint = .ok r → r.2.Sparse) ∧
    (∀ b, spinMolBuildOpt c tkin vint = .ok b → b.Sparse) ∧
    (∀ r, spinMolBuildExplicit c tkin vint = .ok r → r.2.Sparse) :=
  ⟨fun _ h => molBuildOpt_sparse h, fun _ h => molBuildExplicit_sparse h,
   fun _ h => spinMolBuildOpt_sparse h, fun _ h => spinMolBuildExplicit_sparse h⟩

end Ptn.C07

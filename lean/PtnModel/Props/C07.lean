import PtnModel.Proofs.HamMolChains
import PtnModel.Proofs.HamMolNodes
import PtnModel.Proofs.HamMolTerms
import PtnModel.Proofs.HamSpinChains
import PtnModel.Proofs.HamMolGraphWords
/-!
# Property C07 (molecular Hamiltonian MPOs are exact for every orbital count, both build paths)

"For every number of orbitals and all one- and two-body coefficient tensors, the spinless and the spin-orbital molecular
Hamiltonian MPOs equal the second-quantized operator of the documented formula, and the bond-optimized and the explicit
construction represent the same operator wherever both are defined.  The gauge matrices returned for a two-orbital
rotation transform the explicit MPO of the original coefficients into that of the rotated coefficients."

All statements are about the executable model `PtnModel/Model/HamiltonianMol.lean`, `HamiltonianMolGraph.lean`,
`HamiltonianSpinGraph.lean` (`molChains`, `molIntChain`, `molHopChain`, `molBuildOpt`, `molBuildExplicit`, `spinMolBuildOpt`,
`spinMolBuildExplicit`), which mirrors what `molecular_hamiltonian_mpo` / `spin_molecular_hamiltonian_mpo` compute before
handing over to `OpGraph.from_opchains` resp. `MPO.from_opgraph`, and is tied to `pytenet/hamiltonian.py` by the exact
differential correspondence of `./check C07` (chain lists, node tables, complete explicit graphs, tensors; spinless `L ≤ 8`,
spin `L ≤ 6`).  `molecular_hamiltonian_orbital_gauge_transform` is not modelled (oracle only).

Proved here, for every number of orbitals `L ≥ 0` and arbitrary coefficient tensors over any scalar type:

* `molecular_hop_chain_wf`, `molecular_int_chain_wf` -- the case analysis on the sorted `(site, OID)` pairs: for all
  `0 ≤ i < j < L`, `0 ≤ k < l < L` (all 13 relative orders, coinciding sites included) the internal `assert b < c` holds, the
  `OpChain` constructor accepts the operator / charge lists, and the chain satisfies the guards of `from_opchains`;
* `molecular_chains_wf` -- hence the whole enumeration of the bond-optimized spinless construction returns and every chain is
  well formed; this is what makes `from_opchains` applicable for every `L`, including `L = 1`;
* `to_spin_opchain_wf`, `spin_molecular_chains_wf` -- spin-orbital basis: `SpinOperatorConverter.to_spin_opchain` succeeds on every
  Jordan-Wigner shaped chain with balanced spin (no `KeyError` for `(I, Z)` / `(Z, I)`, final charge assertion holds), all chains of
  the enumeration have this shape (`get_vint_coeff` only lets spin-conserving index tuples pass), hence the whole bond-optimized
  spin-orbital enumeration returns well-formed chains on `L` sites for every `L`;
* `optimized_graph_words` -- combined with C05's `from_opchains_sem`: whenever a bond-optimized construction returns (`L ≥ 1`), the graph
  handed to `MPO.from_opgraph` denotes exactly the sum of the identity-padded chains of the enumeration (spinless and spin-orbital);
* `explicit_ids_distinct`, `explicit_nodes_accepted` -- explicit constructions, every `L`: the running counter `nid_next` hands every
  node of `MolecularOpGraphNodes` / `SpinMolecularOpGraphNodes` a different id (the ids of the graph's node list are a
  rearrangement of `0 .. N-1`), the terminal nodes `identity_l[0]`, `identity_r[L]` exist for `L ≥ 1`, and therefore the `OpGraph`
  constructor in `generate_graph` accepts the node list;
* `explicit_lookups_defined` -- spinless explicit construction, every `L ≥ 4` (exactly the documented domain): for every hopping term and
  every interaction term `_molecular_hamiltonian_graph_add_term` only consults node-table entries that exist (`nodes.get(...)`,
  `nodes_l[...]`, `identity_l/r[...]`), its internal assertions hold, and the call is a single `add_connect_edge` of an edge with the
  next free id `max(graph.edges) + 1`;
* `molecular_mpo_block_sparse` -- whenever any of the four constructions returns, every tensor is block sparse under the physical
  charges (`[0, 1]` resp. the encoded `(N, S)` pairs) and the bond charges.
-/
set_option linter.unusedSectionVars false

namespace Ptn.C07
open Ptn Ptn.Og Ptn.Ham

variable {κ : Type} [Add κ] [Mul κ] [Neg κ] [OfNat κ 0] [OfNat κ 1] [DecidableEq κ]

/-- hopping term `t a†_i a_j`, `i ≠ j`: `[p] + (b-a-1)*[Z] + [q]` with charges `[0] + (b-a)*[int(p)] + [0]` is accepted and well formed -/
theorem molecular_hop_chain_wf (L i j : Int) (coeff : κ) (hi : 0 ≤ i) (hj : 0 ≤ j) (hiL : i < L) (hjL : j < L) (hij : i ≠ j) :
    ∃ ch, molHopChain i j coeff = .ok ch ∧ ChainWF L ch :=
  molHopChain_wf L i j coeff hi hj hiL hjL hij

/-- interaction term `g a†_i a†_j a_l a_k`, `i < j`, `k < l`: every branch of the case analysis (two number operators, number
operator first / in the middle / last, generic) yields an accepted, well-formed chain; `assert b < c` never fires -/
theorem molecular_int_chain_wf (L i j k l : Int) (coeff : κ) (hi : 0 ≤ i) (hij : i < j) (hjL : j < L)
    (hk : 0 ≤ k) (hkl : k < l) (hlL : l < L) :
    ∃ ch, molIntChain i j k l coeff = .ok ch ∧ ChainWF L ch :=
  molIntChain_wf L i j k l coeff hi hij hjL hk hkl hlL

/-- non-vacuity: the term `a†_0 a†_2 a_2 a_1` on four orbitals (number operator in the middle, Jordan-Wigner `Z` on orbital 1
is absent because `b - a - 1 = 0`): the chain `C_0 A_1 N_2` -/
example : molIntChain 0 2 1 2 (7 : Int) = .ok ⟨[1, -1, 2], [0, 1, 0, 0], 7, 0⟩ := rfl

/-- **The bond-optimized spinless enumeration is well formed for every `L`** (all coefficient tensors). -/
theorem molecular_chains_wf (c : Consts κ) (tkin : List (List κ)) (vint : List (List (List (List κ)))) :
    ∃ chains, molChains c tkin vint = .ok chains ∧ ∀ ch ∈ chains, ChainWF (tkin.length : Int) ch :=
  molChains_wf c tkin vint

/-- non-vacuity: `L = 1` (the case that used to abort): the single chain `t_00 N_0`; `L = 2`: four hopping chains and one
interaction chain -/
example (c : Consts Int) : molChains c [[5]] [[[[9]]]] = .ok [⟨[2], [0, 0], 5, 0⟩] := rfl

example (c : Consts Int) : (molChains c [[1, 2], [3, 4]] [[[[0, 0], [0, 0]], [[0, 0], [0, 0]]], [[[0, 0], [0, 0]], [[0, 0], [0, 0]]]]).toOption.map List.length
    = some 5 := rfl

/-- **`to_spin_opchain` succeeds** on every chain on `2 L` modes that satisfies the guards of `from_opchains`, whose charges follow its
operators with `Z` only at odd and `I` only at even charge (`JW`), and whose spin-up and spin-down particle-number changes
cancel separately (`altCharge = 0`); the converted chain satisfies the guards on `L` sites. -/
theorem to_spin_opchain_wf (L : Int) (c : OpChain κ) (tail : List Int) (h : SpinReady L c tail) :
    ∃ sc, toSpinOpchain c = .ok sc ∧ ChainWF L sc :=
  toSpinOpchain_wf L c tail h

/-- non-vacuity: the hopping chain `a†_1 Z_2 a_3` between the spin-down modes of sites 0 and 1 becomes `(I C)_0 (Z A)_1` with the
encoded charges `(1 << 16) - 1` in between -/
example : toSpinOpchain (⟨[1, 3, -1], [0, 1, 1, 0], (7 : Int), 1⟩ : OpChain Int) = .ok ⟨[1, 20], [0, 65535, 0], 7, 0⟩ := rfl

/-- **The bond-optimized spin-orbital enumeration is well formed for every `L`** (all coefficient tensors). -/
theorem spin_molecular_chains_wf (c : Consts κ) (tkin : List (List κ)) (vint : List (List (List (List κ)))) :
    ∃ chains, spinMolChains c tkin vint = .ok chains ∧ ∀ ch ∈ chains, ChainWF (tkin.length : Int) ch :=
  spinMolChains_wf c tkin vint

/-- non-vacuity: one spatial orbital: two diagonal hopping chains `N I`, `I N` and the single interaction chain `N N` -/
example : (spinMolChains (⟨0, fun _ => 0⟩ : Consts Int) [[5]] [[[[9]]]]).toOption.map
    (fun l => l.map fun ch => (ch.oids, ch.qnums, ch.istart)) = some [([14], [0, 0], 0), ([3], [0, 0], 0), ([17], [0, 0], 0)] := by
  decide

/-- **Block sparsity of all four constructions**: whenever the optimized or the explicit, spinless or spin-orbital
constructor returns, all tensors are block sparse under `qd` / `qD`. -/
theorem molecular_mpo_block_sparse (c : Consts κ) (tkin : List (List κ)) (vint : List (List (List (List κ)))) :
    (∀ b, molBuildOpt c tkin vint = .ok b → b.Sparse) ∧
    (∀ r, molBuildExplicit c tkin vint = .ok r → r.2.Sparse) ∧
    (∀ b, spinMolBuildOpt c tkin vint = .ok b → b.Sparse) ∧
    (∀ r, spinMolBuildExplicit c tkin vint = .ok r → r.2.Sparse) :=
  ⟨fun _ h => molBuildOpt_sparse h, fun _ h => molBuildExplicit_sparse h,
   fun _ h => spinMolBuildOpt_sparse h, fun _ h => spinMolBuildExplicit_sparse h⟩

/-- **Explicit constructions: node ids are pairwise distinct, for every `L`.**  The ids of the node list handed to the `OpGraph`
constructor by `generate_graph` are a rearrangement of `0, 1, ..., N - 1` (spinless and spin-orbital node tables). -/
theorem explicit_ids_distinct (L : Int) :
    (∃ N : Int, ((MolNodes.init L).nodeList.map (·.nid)).Perm (pyRange 0 N)) ∧ ((MolNodes.init L).nodeList.map (·.nid)).Nodup ∧
    (∃ N : Int, ((SpinNodes.init L).nodeList.map (·.nid)).Perm (pyRange 0 N)) ∧ ((SpinNodes.init L).nodeList.map (·.nid)).Nodup :=
  ⟨molNodes_ids L, molNodes_ids_nodup L, spinNodes_ids L, spinNodes_ids_nodup L⟩

/-- non-vacuity: `L = 4` spinless has 28 nodes -/
example : ((MolNodes.init 4).nodeList.map (·.nid)).length = 28 := by decide

/-- **`generate_graph`, every `L ≥ 1`: the terminal look-ups `identity_l[0]`, `identity_r[L]` are defined and the `OpGraph` constructor
accepts the node list** (no `ValueError`), for both node tables. -/
theorem explicit_nodes_accepted (L : Int) (hL : 1 ≤ L) :
    (∃ t0 t1, dGet (MolNodes.init L).identityL 0 = .ok t0 ∧ dGet (MolNodes.init L).identityR L = .ok t1 ∧
      Graph.mk' (MolNodes.init L).nodeList ([] : List (Edge κ)) [t0.nid, t1.nid]
        = .ok ⟨(MolNodes.init L).nodeList.map fun n => (n.nid, n), [], (t0.nid, t1.nid)⟩) ∧
    (∃ t0 t1, dGet (SpinNodes.init L).identityL 0 = .ok t0 ∧ dGet (SpinNodes.init L).identityR L = .ok t1 ∧
      Graph.mk' (SpinNodes.init L).nodeList ([] : List (Edge κ)) [t0.nid, t1.nid]
        = .ok ⟨(SpinNodes.init L).nodeList.map fun n => (n.nid, n), [], (t0.nid, t1.nid)⟩) :=
  ⟨molNodes_graph_init L hL, spinNodes_graph_init L hL⟩

/-- **Spinless explicit construction, every `L ≥ 4`: all look-ups of `_molecular_hamiltonian_graph_add_term` are defined.**
On any graph with at least one edge (`max(graph.edges.keys()) = m`), for every hopping term `(i, j)` and every interaction term
`i < j`, `k < l` the call reduces to `graph.add_connect_edge(OpGraphEdge(m + 1, [n0.nid, n1.nid], [(oid, coeff)]))`: every
`nodes.get`, `nodes_l[...]`, `nodes_r[...]`, `identity_l[...]`, `identity_r[...]` look-up hits an existing entry and every
internal assertion holds. -/
theorem explicit_lookups_defined (L : Int) (hL : 4 ≤ L) (g : Graph κ) (m : Int) (hm : maxInt? (dKeys g.edges) = some m) (coeff : κ) :
    (∀ i j : Int, 0 ≤ i → i < L → 0 ≤ j → j < L →
      ∃ (n0 n1 : Node) (oid : Int), molAddTerm g (MolNodes.init L) [(i, mC), (j, mA)] coeff
        = g.addConnectEdge (Edge.mk' (m + 1) (n0.nid, n1.nid) [(oid, coeff)])) ∧
    (∀ i j k l : Int, 0 ≤ i → i < j → j < L → 0 ≤ k → k < l → l < L →
      ∃ (n0 n1 : Node) (oid : Int), molAddTerm g (MolNodes.init L) [(i, mC), (j, mC), (l, mA), (k, mA)] coeff
        = g.addConnectEdge (Edge.mk' (m + 1) (n0.nid, n1.nid) [(oid, coeff)])) :=
  ⟨fun i j hi hiL hj hjL => molAddTerm_hop L hL g m hm coeff i j hi hiL hj hjL,
   fun i j k l hi hij hjL hk hkl hlL => molAddTerm_int L hL g m hm coeff i j k l hi hij hjL hk hkl hlL⟩

/-- non-vacuity: `L = 4`, a graph whose only edge has id 7; the across-the-middle term `a†_0 a_3` becomes the edge with id 8 from
`a_dag_l[0][2]` (node 9) to `a_ann_r[3][3]` (node 26) carrying the Jordan-Wigner `Z` -/
example : (molAddTerm (⟨[], [(7, ⟨7, (0, 1), [(0, 1)]⟩)], (0, 1)⟩ : Graph Int) (MolNodes.init 4) [(0, mC), (3, mA)] 5).toOption.map
    (fun g => g.edges.map fun e => (e.1, e.2.nids, e.2.opics)) = some [(7, (0, 1), [(0, 1)]), (8, (9, 26), [(3, 5)])] := by
  decide

/-- **Bond-optimized constructions: the compiled graph denotes the sum of the enumerated chains** (`L ≥ 1`; spinless and spin-orbital).
`coeffIn s w` is the coefficient of the word `w` in the formal sum `s`; the enumeration itself returns well-formed chains
(`molecular_chains_wf`, `spin_molecular_chains_wf`). -/
theorem optimized_graph_words {R : Type} [CommRing R] [DecidableEq R] (c : Consts R) (tkin : List (List R))
    (vint : List (List (List (List R)))) (hL : 1 ≤ (tkin.length : Int)) (w : Word) :
    (∀ b, molBuildOpt c tkin vint = .ok b →
      ∃ chains, molChains c tkin vint = .ok chains ∧ (∀ ch ∈ chains, ChainWF (tkin.length : Int) ch) ∧
        b.graph.denF w = coeffIn (denChainsRaw chains (tkin.length : Int) 0) w) ∧
    (∀ b, spinMolBuildOpt c tkin vint = .ok b →
      ∃ chains, spinMolChains c tkin vint = .ok chains ∧ (∀ ch ∈ chains, ChainWF (tkin.length : Int) ch) ∧
        b.graph.denF w = coeffIn (denChainsRaw chains (tkin.length : Int) 0) w) :=
  ⟨fun b hb => mol_graph_den c tkin vint b hb hL w, fun b hb => spinMol_graph_den c tkin vint b hb hL w⟩

end Ptn.C07

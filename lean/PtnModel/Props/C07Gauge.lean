import PtnModel.Proofs.GaugeMain
import PtnModel.Proofs.GaugeGRat
import PtnModel.Proofs.HamSparse
/-!
# Property C07, third sentence: `molecular_hamiltonian_orbital_gauge_transform`

"The gauge matrices returned for a two-orbital rotation transform the explicit MPO of the original coefficients into that of the
rotated coefficients."

`PtnModel/Model/HamiltonianGauge.lean` models the function statement by statement (`gaugeTransform h u i`; `h : GaugeH` holds what
the function reads from the MPO: `nsites`, `bond_dims`, `nid_map` and the ten node tables copied over by `copy_nids`); it is tied to
`pytenet/hamiltonian.py` by the exact correspondence stream `gauge.exact` of `./check C07` (driver op `ham.gauge`: `v_l`, `v_r`
entry by entry for all 32 exactly representable monomial unitaries, every pair `i`, `L = 4..7`, thorough `L = 8`) and the stream
`gauge.malformed` (non-unitary `u`, wrong shapes, `i` out of range).

Proved here
* `gauge_shapes` -- any tables, any `nid_map`, any `u`, any `i`: whenever the function returns, `v_l` is square of size `bond_dims[i]`
  and `v_r` square of size `bond_dims[i + 2]`;
* `gauge_tables_of_built` -- the tables of the MPO returned by `molecular_hamiltonian_mpo(tkin, vint, optimize=False)` are those of
  `MolecularOpGraphNodes(L)`, `L = len(tkin)`, whatever the coefficients;
* `gauge_table_lookups_defined` -- every `L`, every `0 ≤ i < L - 1`, no hypothesis: whenever one of the membership tests
  `key in h.nids_x and k in h.nids_x[key]` of the Python text succeeds, every other table entry `h.nids_x[key'][k]` read inside the
  same `if` block exists (index arithmetic on the ranges of `MolecularOpGraphNodes.__init__`, both halves of the function);
* `gauge_lookups_defined_partial` -- additionally assuming the bookkeeping predicate `GaugeH.wf` (`nid_map` has every table node
  `x[key][k]` on bond `k` at an index below `bond_dims[k]`; different node ids on one bond have different indices) and
  `len(bond_dims) = nsites + 1`: the only exception the function raises is the `AssertionError` of its three argument checks -- no
  `KeyError` from `h.nid_map[...]` / `h.nids_x[...]`, no `IndexError`; it returns for every unitary `u` and `0 ≤ i < L - 1`;
* `gauge_unitary_partial` -- under the same hypotheses, `u` unitary: the function returns and `v_l`, `v_r` are unitary (so the two
  closing assertions of the function never fire).  Proof: the statements overwrite pairwise disjoint diagonal blocks of the identity
  (different table entries carry different node ids, `C07.explicit_ids_distinct`; `nid_map` is injective per bond) by `u`, `conj u`,
  `det u`, `conj det u` and `u ⊗ conj u`, each of which satisfies `Mᴴ M = 1`;
* `gauge_is_unitary_iff` -- the model's exact unitarity test is `vᴴ v = 1` entry by entry.

`_partial`: what remains a hypothesis is `GaugeH.wf` for the `nid_map` that `MPO.from_opgraph` computes on the explicit graph.  It is
proved here for `L = 4` by kernel evaluation of the model's complete construction (`gauge_built_L4`, `gauge_wf_L4`), and evaluated for `L = 4..8` on both
sides by the correspondence (reply field `wf` of `ham.gauge` against the same predicate computed on the real MPO); for general `L`
it would follow from the (unproved) denotation of the explicit graph.  Scalars: any commutative ring with an involutive ring
homomorphism `conj` (`ConjLaws`), e.g. the driver's Gaussian rationals (`GRat.conjLaws`).

NOT proved: the conjugation identity itself (gauge-transformed explicit MPO of the original coefficients = explicit MPO of the rotated
coefficients); carried by the numerical stream `gauge-transform (numeric, not modelled)` and the search oracle.
-/
set_option linter.unusedSectionVars false

namespace Ptn.C07
open Ptn Ptn.Og Ptn.Ham Ptn.Ham.Gauge

/-- **Shapes.**  Whatever `h`, `u`, `i`: if the function returns `(v_l, v_r)` then `v_l` is a `bond_dims[i] × bond_dims[i]` and `v_r` a
`bond_dims[i + 2] × bond_dims[i + 2]` matrix. -/
theorem gauge_shapes {α : Type} [Add α] [Mul α] [Sub α] [OfNat α 0] [OfNat α 1] [HasConj α] [DecidableEq α]
    (h : GaugeH) (u : Mat α) (i : Int) (vl vr : Mat α) (hs : gaugeTransform h u i = .ok (vl, vr)) :
    (∃ dl, h.bondDims[i.toNat]? = some dl ∧ IsSquare vl dl) ∧ (∃ dr, h.bondDims[i.toNat + 2]? = some dr ∧ IsSquare vr dr) :=
  gaugeTransform_shapes h u i vl vr hs

/-- the exact unitarity test of the model is `vᴴ v = 1` -/
theorem gauge_is_unitary_iff {α : Type} [CommRing α] [HasConj α] [DecidableEq α] (v : Mat α) (n : Nat) (hv : IsSquare v n) :
    isUnitary v = true ↔
      ∀ a < n, ∀ b < n, (∑ c ∈ Finset.range n, HasConj.conj (v.entry c a) * v.entry c b) = if a = b then 1 else 0 :=
  isUnitary_iff hv

/-- **The tables read by the function are those of `MolecularOpGraphNodes(L)`**, for every coefficient tensor pair the explicit
constructor accepts. -/
theorem gauge_tables_of_built {κ : Type} [Add κ] [Mul κ] [Neg κ] [OfNat κ 0] [OfNat κ 1] [DecidableEq κ]
    (c : Consts κ) (tkin : List (List κ)) (vint : List (List (List (List κ)))) (r : MolNodes × Built κ)
    (hb : molBuildExplicit c tkin vint = .ok r) : (GaugeH.ofBuilt r).nodes = MolNodes.init tkin.length := by
  unfold molBuildExplicit at hb
  obtain ⟨_, _, hb⟩ := bind_ok hb
  obtain ⟨⟨nodes, graph⟩, hg, hb⟩ := bind_ok hb
  have hb := ite_jp_ok hb
  obtain ⟨m, _, hb⟩ := bind_ok hb
  simp only [pure, Except.pure, Except.ok.injEq] at hb
  subst hb
  unfold molExplicitGraph at hg
  obtain ⟨_, _, hg⟩ := bind_ok hg
  obtain ⟨_, _, hg⟩ := bind_ok hg
  obtain ⟨_, _, hg⟩ := bind_ok hg
  obtain ⟨_, _, hg⟩ := bind_ok hg
  simp only [pure, Except.pure, Except.ok.injEq, Prod.mk.injEq] at hg
  exact hg.1.symm

/-- **Table look-ups, every `L`, every `0 ≤ i < L - 1`** (no hypothesis).  `SideGets fams k i L` lists, for one half of the function,
every membership test of the Python text together with the table entries read when it succeeds; first component: left matrix
(tables `a_dag_r, a_ann_r, a_dag_a_dag_r, a_ann_a_ann_r, a_dag_a_ann_r`, inner key `i`), second: right matrix (tables `..._l`, inner
key `i + 2`). -/
theorem gauge_table_lookups_defined (L i : Int) (hi0 : 0 ≤ i) (hi1 : i < L - 1) :
    SideGets (fun a => tableAt (MolNodes.init L) (a + 5)) i i L ∧
    SideGets (fun a => tableAt (MolNodes.init L) (a + 0)) (i + 2) i L :=
  ⟨sideGets_right L i hi0 hi1, sideGets_left L i hi0 hi1⟩

/-- the tables by index: `0..4` are `a_dag_l, a_ann_l, a_dag_a_dag_l, a_ann_a_ann_l, a_dag_a_ann_l`, `5..9` the `..._r` tables -/
example (L : Int) : tableAt (MolNodes.init L) 5 = (MolNodes.init L).aDagR ∧ tableAt (MolNodes.init L) 4 = (MolNodes.init L).aDagAAnnL :=
  ⟨rfl, rfl⟩

section main
variable {α : Type} [CommRing α] [HasConj α] [DecidableEq α]

/-- **Unitarity (partial: `GaugeH.wf` is a hypothesis).**  Tables of `MolecularOpGraphNodes(L)`, `nsites = L`,
`len(bond_dims) = L + 1`, `nid_map` satisfying `wf`; `u` a unitary `2 × 2` matrix, `0 ≤ i < L - 1`: the function returns `(v_l, v_r)`,
square of sizes `bond_dims[i]`, `bond_dims[i + 2]`, both unitary.  Missing for the full statement: `wf` of the `nid_map` computed by
`MPO.from_opgraph` on the explicit graph for general `L` (proved for `L = 4`: `gauge_built_L4`, `gauge_wf_L4`; checked by execution for `L ≤ 8`). -/
theorem gauge_unitary_partial (hc : ConjLaws α) (h : GaugeH) (L : Int) (hn : h.nodes = MolNodes.init L)
    (hns : (h.nsites : Int) = L) (hd : h.dimsOk = true) (hwf : h.wf = true)
    (u : Mat α) (hs : Shape22 u) (hu : isUnitary u = true) (i : Int) (hi0 : 0 ≤ i) (hi1 : i < L - 1) :
    ∃ vl vr dl dr, gaugeTransform h u i = .ok (vl, vr) ∧
      h.bondDims[i.toNat]? = some dl ∧ h.bondDims[i.toNat + 2]? = some dr ∧ IsSquare vl dl ∧ IsSquare vr dr ∧
      isUnitary vl = true ∧ isUnitary vr = true := by
  obtain ⟨ns, bd, nm, nodes⟩ := h
  simp only at hn hns
  subst hn
  have hbd : bd.length = ns + 1 := by simpa [GaugeH.dimsOk] using hd
  exact gaugeTransform_ok hc ns bd nm L hns hbd hwf u hs hu i hi0 hi1

/-- **No `KeyError`, no `IndexError` (partial: `GaugeH.wf` is a hypothesis).**  Under the hypotheses of `gauge_unitary_partial` on `h`,
for arbitrary arguments `u`, `i`: the only exception is the `AssertionError` of the argument checks `u.shape == (2, 2)`,
`u` unitary, `0 ≤ i < nsites - 1`; when these hold the function returns.  (The statement goes through `gauge_unitary_partial`:
the look-ups are only reached for unitary `u`, and then the closing assertions hold as well.) -/
theorem gauge_lookups_defined_partial (hc : ConjLaws α) (h : GaugeH) (L : Int) (hn : h.nodes = MolNodes.init L)
    (hns : (h.nsites : Int) = L) (hd : h.dimsOk = true) (hwf : h.wf = true) (u : Mat α) (i : Int) :
    (∀ e, gaugeTransform h u i = .error e → e = .assertion) ∧
    (Shape22 u → isUnitary u = true → 0 ≤ i → i < L - 1 → ∃ r, gaugeTransform h u i = .ok r) := by
  constructor
  · obtain ⟨ns, bd, nm, nodes⟩ := h
    simp only at hn hns
    subst hn
    have hbd : bd.length = ns + 1 := by simpa [GaugeH.dimsOk] using hd
    intro e he
    exact gaugeTransform_err hc ns bd nm L hns hbd hwf u i e he
  · intro hs hu hi0 hi1
    obtain ⟨vl, vr, _, _, hok, _⟩ := gauge_unitary_partial hc h L hn hns hd hwf u hs hu i hi0 hi1
    exact ⟨(vl, vr), hok⟩

end main

/-! ## non-vacuity -/

/-- zero coefficients over `ℤ` (the construction does not look at the values) -/
def gaugeC0 : Consts Int := ⟨0, fun _ => 0⟩

/-- `nid_map` of the explicit MPO on four orbitals -/
def gaugeNm4 : List (Int × (Nat × Nat)) :=
  [(0, (0, 0)), (1, (1, 0)), (4, (1, 1)), (8, (1, 2)), (11, (1, 3)), (16, (1, 4)), (2, (2, 0)), (5, (2, 1)), (9, (2, 2)), (10, (2, 3)),
   (12, (2, 4)), (13, (2, 5)), (14, (2, 6)), (15, (2, 7)), (17, (2, 8)), (18, (2, 9)), (19, (2, 10)), (20, (2, 11)), (21, (2, 12)),
   (22, (2, 13)), (24, (2, 14)), (25, (2, 15)), (3, (3, 0)), (6, (3, 1)), (23, (3, 2)), (26, (3, 3)), (27, (3, 4)), (7, (4, 0))]

/-- what the function reads from the explicit MPO on four orbitals -/
def gaugeH4 : GaugeH := mkH 4 [1, 5, 16, 5, 1] gaugeNm4 4

/-- kernel evaluation of the model's complete explicit construction for `L = 4` (`generate_graph`, all hopping and interaction
terms, `MPO.from_opgraph` with `nid_map`): four sites, bond dimensions `[1, 5, 16, 5, 1]`, the `nid_map` above -/
theorem gauge_built_L4_data : (match molGaugeH gaugeC0 4 with
    | .ok h => (h.nsites == 4) && (h.bondDims == [1, 5, 16, 5, 1]) && (h.nidMap == gaugeNm4)
    | .error _ => false) = true := by
  decide +kernel

/-- the model's explicit MPO on four orbitals hands `gaugeH4` to the function -/
theorem gauge_built_L4 : molGaugeH gaugeC0 4 = .ok gaugeH4 := by
  have key := gauge_built_L4_data
  cases hm : molGaugeH gaugeC0 4 with
  | error e => rw [hm] at key; cases key
  | ok h =>
    rw [hm] at key
    simp only [Bool.and_eq_true, beq_iff_eq] at key
    have hn : h.nodes = MolNodes.init 4 := by
      unfold molGaugeH at hm
      simp only at hm
      split at hm
      · next r hr =>
        cases hm
        exact gauge_tables_of_built _ _ _ r hr
      · cases hm
    obtain ⟨ns, bd, nm, nodes⟩ := h
    simp only at key hn
    obtain ⟨⟨rfl, rfl⟩, rfl⟩ := key
    subst hn
    rfl

/-- **`wf` holds for `L = 4`** -/
theorem gauge_wf_L4 : gaugeH4.wf = true ∧ gaugeH4.dimsOk = true := by
  decide +kernel

/-- the unitary `u = [[0, i], [1, 0]]` -/
def gaugeU : Mat GRat := [[⟨0, 0⟩, ⟨0, 1⟩], [⟨1, 0⟩, ⟨0, 0⟩]]

/-- the hypotheses of `gauge_unitary_partial` / `gauge_lookups_defined_partial` are satisfied by the model's MPO for `L = 4`, the
scalars `GRat` and `u = [[0, i], [1, 0]]` -/
example : gaugeH4.nodes = MolNodes.init 4 ∧ (gaugeH4.nsites : Int) = 4 ∧ gaugeH4.dimsOk = true ∧ gaugeH4.wf = true ∧
    Shape22 gaugeU ∧ isUnitary gaugeU = true ∧ ConjLaws GRat :=
  ⟨rfl, rfl, gauge_wf_L4.2, gauge_wf_L4.1, ⟨rfl, by decide⟩, by decide +kernel, GRat.conjLaws⟩

/-- entries of a matrix that differ from the identity -/
def gaugeOffIdentity (m : Mat GRat) : List (Nat × Nat × GRat) :=
  (m.zipIdx.flatMap fun (row, a) => row.zipIdx.map fun (x, b) => (a, b, x)).filter fun (a, b, x) => x != (if a = b then 1 else 0)

/-- `L = 4`, `i = 1`, `u = [[0, i], [1, 0]]`: every membership test fails (`a_dag_r[1]`, `a_dag_l[1][3]`, ... do not exist); both matrices
are `5 × 5` identities -/
example : gaugeTransform gaugeH4 gaugeU 1 = .ok (Mat.identity 5, Mat.identity 5) := by
  decide +kernel

/-- `L = 4`, `i = 0`, same `u`: `v_l` is `1 × 1`; `v_r` is `16 × 16` with the block `u` at `(2, 3)` (`a†_0`, `a†_1` to the left),
`conj u` at `(4, 5)`, `det u = -i` at `6`, `conj det u = i` at `7` and the `4 × 4` block `u ⊗ conj u` at `8..11` (the function's closing assertion has checked that it is unitary) -/
example : (match gaugeTransform gaugeH4 gaugeU 0 with
    | .ok r => r.1 == [[1]] && r.2.length == 16 &&
        gaugeOffIdentity r.2 == [(2, 2, 0), (2, 3, ⟨0, 1⟩), (3, 2, 1), (3, 3, 0), (4, 4, 0), (4, 5, ⟨0, -1⟩), (5, 4, 1), (5, 5, 0),
          (6, 6, ⟨0, -1⟩), (7, 7, ⟨0, 1⟩), (8, 8, 0), (8, 11, 1), (9, 9, 0), (9, 10, ⟨0, 1⟩), (10, 9, ⟨0, -1⟩), (10, 10, 0),
          (11, 8, 1), (11, 11, 0)]
    | .error _ => false) = true := by
  decide +kernel

/-- a non-unitary `u`, and `i = L - 1`: `AssertionError` -/
example : gaugeTransform gaugeH4 ([[1, 1], [0, 1]] : Mat GRat) 1 = .error .assertion ∧ gaugeTransform gaugeH4 gaugeU 3 = .error .assertion := by
  decide +kernel

/-- the ring structure used in the theorems is the one of the model's scalar type: over `GRat` the function of the theorems is the
function the driver executes -/
example (h : GaugeH) (u : Mat GRat) (i : Int) :
    @gaugeTransform GRat (Distrib.toAdd) (NonUnitalNonAssocSemiring.toMul) (SubNegMonoid.toSub) Zero.toOfNat0 One.toOfNat1 _ _ h u i
      = @gaugeTransform GRat GRat.instAdd GRat.instMul GRat.instSub GRat.instOfNatOfNatNat GRat.instOfNatOfNatNat_1 _ _ h u i :=
  rfl

end Ptn.C07

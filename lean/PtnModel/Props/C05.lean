import PtnModel.Proofs.ChainMain
import PtnModel.Proofs.ChainExamples
import PtnModel.Proofs.ChainOk
import PtnModel.Proofs.ChainMpoAll
/-!
# Property C05 (operator chains compile to an equivalent operator graph and MPO)

"For every list of operator chains containing at least one non-zero coefficient, graph construction succeeds,
yields an internally consistent graph of the requested length, and the operator denoted by the graph equals
the sum of the identity-padded chains exactly, including repeated chains, chains whose coefficients accumulate
or cancel, and a single chain with an arbitrary coefficient.  Converting any consistent operator graph to an
MPO preserves the denoted operator, takes the bond quantum numbers from the graph nodes, and the optional
node map locates every node at its bond index."

All statements are about the executable model `PtnModel/Model/OpGraph.lean` / `OpChain.lean`
(`fromOpchains`, `sitePartition`, `siteStep`, `uCoverStep`, `vCoverStep`, `Graph.denF`, `Graph.isConsistent`),
which is tied to `pytenet/opgraph.py`, `opchain.py` by the differential correspondence of `./check C05`.
Coefficients live in an arbitrary commutative ring `κ` with decidable equality.

Vocabulary (defined in `PtnModel/Proofs/Chain*.lean`, namespace `Ptn.Ch`):
* `chainsDen chains L id w`  : `Σ_{c ∈ chains} (if c.paddedWord L id = w then c.coeff else 0)` -- the coefficient of the
  word `w` (one operator id per site) in the sum of the identity-padded chains; chains with coefficient `0`
  contribute nothing (`chainsDen_filter`);
* `Graph.denF g w` (model)   : the coefficient of `w` in the operator denoted by `g` (sum over all paths from the
  start node to the end node, product of the edge coefficients);
* `joinUV u v`               : the half-chain that starts with the operator of the `U` node `u` at its node and continues with `v`;
  `edgeVal ulist vlist φ (i, j) = φ (joinUV ulist[i] vlist[j])`;
* `pre es 0 r x`             : coefficient of the word `r.reverse` on walks from node `0` to node `x` in the edge list `es`;
* `hsum es hs cs r b`        : `Σ_{(h, c) ∈ zip hs cs} c · pre es 0 r h.nidl · [b = h.oids]` -- the operator still to be
  emitted by the sweep, as a function of the (reversed) consumed prefix `r` and the rest `b` of the word
  (`b` includes the dummy identity appended by `from_opchains`);
* `ChainsWF chains L`        : the decidable guard of `from_opchains_ok`: `L ≥ 1`, some coefficient is non-zero, and every chain
  with non-zero coefficient has `istart ≥ 0`, fits (`istart + len ≤ L`), has `len + 1` quantum numbers, the first and
  the last of which are `0`;
* `layerQ g S`               : the quantum numbers of the nodes `S` (in the order of `S`);
  `IsSucc g A x` : `x` is the target of an edge leaving a node of `A`;
* `tn fin Ts ss ts i`        : the contraction of the tensor chain `Ts` (`A[s][t][i][j]` = `tEntry A s t i j`) with row digits `ss`,
  column digits `ts`, left bond index `i` and weights `fin` on the last bond; `finOf g last j` is `1` iff the `j`-th
  node of the last layer is the end node of `g` (for a proper MPO the last layer is `[end node]` and this is `[j = 0]`);
* `wordsOver ids n`          : all words of length `n` over the alphabet `ids`; `wordWeight opmap w ss ts = Π_k opmap[w_k][s_k][t_k]`;
  `OpMapWF opmap d` : every matrix of the operator map is `d × d`;
* `SInv s`                   : every edge built so far goes from a smaller to a larger node id below `s.nidNext`, every
  half-chain is attached to a node below `s.nidNext`, and `1 ≤ s.nidNext`.
-/
set_option linter.unusedSectionVars false

namespace Ptn.C05
open Ptn Ptn.Og Ptn.Ch List

variable {κ : Type} [CommRing κ] [DecidableEq κ]

/-- **`_site_partition_halfchains` preserves the weighted multiset of half-chains.**
For every weight function `φ`, `Σ_h c_h · φ(h) = Σ_{((i,j),γ) ∈ gamma} γ · φ(u_i ⊕ v_j)`; the keys of `gamma` are exactly
`edges`, which is duplicate-free, with all indices in range (so every `u_i`, `v_j` exists); `ulist` and `vlist`
are duplicate-free. -/
theorem partition_sem (hs : List HalfChain) (cs : List κ) (p : Partition κ)
    (h : sitePartition hs cs = .ok p) :
    (∀ φ : HalfChain → κ,
      ((hs.zip cs).map fun hc => hc.2 * φ hc.1).sum
        = (p.gamma.map fun ec => ec.2 * edgeVal p.ulist p.vlist φ ec.1).sum) ∧
    p.gamma.map (·.1) = p.edges ∧ p.edges.Nodup ∧
    (∀ e ∈ p.edges, ∃ u v, p.ulist[e.1]? = some u ∧ p.vlist[e.2]? = some v) ∧
    p.ulist.Nodup ∧ p.vlist.Nodup := by
  have hI := sitePartition_inv hs cs p h
  refine ⟨hI.sem, hI.keys, hI.nodup, ?_, hI.unodup, hI.vnodup⟩
  intro e he
  obtain ⟨h1, h2⟩ := hI.range e he
  exact ⟨p.ulist[e.1], p.vlist[e.2], getElem?_eq_getElem h1, getElem?_eq_getElem h2⟩

/-- non-vacuity of `partition_sem`: three half-chains, two of which coincide (their coefficients `3` and `-1`
accumulate to `2`) -/
example : sitePartition [(⟨[5, 0], [0, 0, 0], 0⟩ : HalfChain), ⟨[5, 0], [0, 0, 0], 0⟩, ⟨[7, 0], [0, 0, 0], 0⟩] [(3 : Int), -1, 2]
    = .ok ⟨[⟨5, 0, 0, 0⟩, ⟨7, 0, 0, 0⟩], [⟨[0], [0, 0], -1⟩], [(0, 0), (1, 0)], [((0, 0), 2), ((1, 0), 2)]⟩ :=
  ex_partition_acc

/-- **The half-chain invariant of the sweep.**  Let the body of `for _ in range(length)` be run with an
arbitrary routine `cover` in place of `minimum_vertex_cover` (`siteStepWith cover`; the model's `siteStep` is the
instance `cover = minimumVertexCover`, by `rfl`).  Whenever the step does not raise, the half-chain sum after
the step, with one more letter `o` consumed, equals the half-chain sum before the step:
`hsum' (o :: r) b = hsum r (o :: b)`.  Nothing about the returned lists is used (not even that they form a
cover): the bookkeeping of `edges` -- every `edges.remove` succeeds and `assert not edges` holds -- suffices.
The state invariant `SInv` is preserved, the new half-chains sit at nodes created in this step and are tails of
old half-chains. -/
theorem site_step_sem (cover : Ptn.Bip.BGraph → Except Err (List Nat × List Nat)) (s s' : ChState κ)
    (h : siteStepWith cover s = .ok s') (hS : SInv s) :
    SInv s' ∧
    (∀ o r b, hsum (edgeList s'.graph) s'.vlistNext s'.coeffsNext (o :: r) b
        = hsum (edgeList s.graph) s.vlistNext s.coeffsNext r (o :: b)) ∧
    (∀ h' ∈ s'.vlistNext, s.nidNext ≤ h'.nidl) ∧
    (∀ h' ∈ s'.vlistNext, ∃ h ∈ s.vlistNext, ∃ o, h.oids = o :: h'.oids) :=
  siteStepWith_sem cover s s' h hS

/-- the model's sweep step is `siteStepWith minimumVertexCover` -/
theorem site_step_is_instance (s : ChState κ) : siteStep s = siteStepWith Ptn.Bip.minimumVertexCover s := rfl

/-- non-vacuity of `site_step_sem`: the step for the single half-chain `3 · [op₅, id]` at the start node -/
example : siteStepWith Ptn.Bip.minimumVertexCover exState0 = .ok exState1 ∧ SInv exState0 :=
  ⟨ex_site, exState0_sinv⟩

/-- **Semantics of `from_opchains`.**  If `from_opchains(chains, L, id)` returns a graph `g` (with `L ≥ 1` and every
chain with non-zero coefficient starting at a site `≥ 0`, as `OpChain.__init__` enforces) then for *every* word `w`
the coefficient of `w` in the operator denoted by `g` is the sum of the coefficients of the chains whose
identity-padded word is `w` -- exactly: repeated chains add up, cancelling chains give `0`, a single chain keeps
its coefficient (the trailing-coefficient branch), zero-coefficient chains are irrelevant. -/
theorem from_opchains_sem (chains : List (OpChain κ)) (L id : Int) (g : Graph κ)
    (h : fromOpchains chains L id = .ok g) (hL : 1 ≤ L)
    (hst : ∀ c ∈ chains, c.coeff ≠ 0 → 0 ≤ c.istart) (w : Word) :
    g.denF w = chainsDen chains L id w :=
  fromOpchains_denF chains L id g h hL hst w

/-- words of the wrong length have coefficient `0` in the result of `from_opchains` -/
theorem from_opchains_sem_length (chains : List (OpChain κ)) (L id : Int) (g : Graph κ)
    (h : fromOpchains chains L id = .ok g) (hL : 1 ≤ L)
    (hst : ∀ c ∈ chains, c.coeff ≠ 0 → 0 ≤ c.istart) (w : Word) (hw : (w.length : Int) ≠ L) :
    g.denF w = 0 := by
  rw [fromOpchains_denF chains L id g h hL hst w]
  unfold chainsDen
  apply sum_map_eq_zero
  intro c hc
  by_cases h0 : c.coeff = 0
  · simp [h0]
  · -- a chain with non-zero coefficient was padded to length `L`
    have hlen := fromOpchains_padded_length chains L id g h hst c hc h0
    have : ¬ c.paddedWord L id = w := by
      intro he; rw [he] at hlen; omega
    simp [this]

/-- non-vacuity of `from_opchains_sem`: the single chain `3 · op₅` on one site; the coefficient ends up on the edge
entering the end node (the branch `coeffs_next[0] != 1`), and `denF [5] = 3`. -/
example : fromOpchains exChains 1 0 = .ok exGraph ∧ (1 : Int) ≤ 1 ∧
    (∀ c ∈ exChains, c.coeff ≠ 0 → 0 ≤ c.istart) ∧ exGraph.denF [5] = 3 ∧ chainsDen exChains 1 0 [5] = 3 :=
  ⟨ex_from, le_refl _, by decide, by decide, by decide⟩

/-- The graph returned by `from_opchains` is internally consistent (`is_consistent()` holds). -/
theorem from_opchains_consistent (chains : List (OpChain κ)) (L id : Int) (g : Graph κ)
    (h : fromOpchains chains L id = .ok g) : g.isConsistent = true :=
  fromOpchains_consistent chains L id g h

/-- non-vacuity of `from_opchains_consistent` -/
example : fromOpchains exChains 1 0 = .ok exGraph ∧ exGraph.isConsistent = true := ⟨ex_from, by decide⟩

/-- **Construction succeeds.**  For every chain list with at least one non-zero coefficient whose (non-zero)
chains fit on the lattice and carry well-formed quantum numbers with leading and trailing charge 0, and every
`L ≥ 1`, `from_opchains` returns a graph: no `ValueError`, no failing assertion (in particular not the final
assertions on the single trailing half-chain and on `is_consistent`), no fuel exhaustion in the vertex-cover
routine.  This includes repeated chains, cancelling coefficients and a single chain with any coefficient. -/
theorem from_opchains_ok (chains : List (OpChain κ)) (L id : Int) (hwf : ChainsWF chains L) :
    ∃ g, fromOpchains chains L id = .ok g := by
  obtain ⟨g1, _, _, _, t, h, _⟩ := fromOpchains_result chains L id hwf
  exact ⟨_, h⟩

/-- non-vacuity of `from_opchains_ok`: three chains on two sites, two of which cancel -/
example : ChainsWF ([⟨[1], [0, 0], 2, 0⟩, ⟨[1], [0, 0], -2, 0⟩, ⟨[3, 4], [0, 1, 0], 5, 0⟩] : List (OpChain Int)) 2 := by
  decide

/-- The graph returned by `from_opchains` for a well-formed chain list has the requested length. -/
theorem from_opchains_length (chains : List (OpChain κ)) (L id : Int) (g : Graph κ) (hwf : ChainsWF chains L)
    (h : fromOpchains chains L id = .ok g) : g.length = .ok L.toNat := by
  obtain ⟨g1, nn, en, lay, t, h', hlay, _, _, _, hout⟩ := fromOpchains_result chains L id hwf
  rw [h'] at h
  cases h
  exact final_length hlay t hout

/-- non-vacuity of `from_opchains_length` -/
example : ChainsWF exChains 1 ∧ fromOpchains exChains 1 0 = .ok exGraph ∧ exGraph.length = .ok 1 :=
  ⟨by decide, ex_from, by decide⟩

/-- **C05, the `from_opchains` half, all clauses together.**  For every well-formed chain list (see `ChainsWF`)
construction succeeds; the graph is internally consistent, has length `L`, and denotes exactly the sum of the
identity-padded chains. -/
theorem from_opchains_all (chains : List (OpChain κ)) (L id : Int) (hwf : ChainsWF chains L) :
    ∃ g, fromOpchains chains L id = .ok g ∧ g.isConsistent = true ∧ g.length = .ok L.toNat ∧
      ∀ w, g.denF w = chainsDen chains L id w := by
  obtain ⟨g, h⟩ := from_opchains_ok chains L id hwf
  exact ⟨g, h, from_opchains_consistent chains L id g h, from_opchains_length chains L id g hwf h,
    from_opchains_sem chains L id g h hwf.1 (fun c hc hc0 => (hwf.2.2 c hc hc0).1)⟩

/-- non-vacuity of `from_opchains_all`, and an instance: two cancelling chains `±2 · op₁ ⊗ id` and `5 · op₃ ⊗ op₄` on two
sites compile to a graph in which the word `[1, 0]` has coefficient `0` and `[3, 4]` has coefficient `5`. -/
example : ∃ g : Graph Int,
    fromOpchains [⟨[1], [0, 0], 2, 0⟩, ⟨[1], [0, 0], -2, 0⟩, ⟨[3, 4], [0, 1, 0], 5, 0⟩] 2 0 = .ok g ∧
    g.isConsistent = true ∧ g.length = .ok 2 ∧ g.denF [1, 0] = 0 ∧ g.denF [3, 4] = 5 := by
  obtain ⟨g, h1, h2, h3, h4⟩ := from_opchains_all
    ([⟨[1], [0, 0], 2, 0⟩, ⟨[1], [0, 0], -2, 0⟩, ⟨[3, 4], [0, 1, 0], 5, 0⟩] : List (OpChain Int)) 2 0 (by decide)
  exact ⟨g, h1, h2, h3, by rw [h4]; decide, by rw [h4]; decide⟩

/-! ## `MPO.from_opgraph` -/

/-- **Master theorem for `MPO.from_opgraph`.**  If the conversion of a consistent graph returns, there is a list
of layers, starting with `[start node]`, such that
* the bond quantum numbers are the node quantum numbers of the layers (`qD = layers.map (layerQ g)`), one more
  layer than tensors;
* every layer is strictly increasing in the node ids (sorted order), layer `k+1` consists exactly of the
  successors of layer `k`, the last layer has no successors, and the layers are pairwise disjoint;
* with `compute_nid_map`, the node map sends the `i`-th node of layer `k` to `(k, i)`;
* for a `d × d` operator map the contraction of the tensors equals the path sum of the graph evaluated in the
  matrix algebra (`denseFrom`, see `from_opgraph_dense` for the expansion over words). -/
theorem from_opgraph_all (qd : List Int) (g : Graph κ) (opmap : OpMap κ) (on : Bool) (out : MpoOut κ)
    (h : fromOpgraph qd g opmap on = .ok out) (hc : g.isConsistent = true) :
    ∃ layers : List (List Int),
      layers.head? = some [g.term false] ∧
      out.qD = layers.map (layerQ g) ∧
      out.tensors.length + 1 = layers.length ∧
      (∀ S ∈ layers, S.Pairwise (· < ·)) ∧
      (∀ k A B, layers[k]? = some A → layers[k + 1]? = some B → ∀ x, x ∈ B ↔ IsSucc g A x) ∧
      (∀ last, layers.getLast? = some last → ∀ x, ¬ IsSucc g last x) ∧
      layers.Pairwise (fun A B => ∀ x ∈ A, x ∉ B) ∧
      (on = true → ∀ k S i x, layers[k]? = some S → S[i]? = some x → dGet? out.nidMap x = some (k, i)) ∧
      (OpMapWF opmap qd.length → ∀ last, layers.getLast? = some last →
        ∀ ss ts : List Nat, ss.length = out.tensors.length → ts.length = out.tensors.length →
          (∀ s ∈ ss, s < qd.length) → (∀ t ∈ ts, t < qd.length) →
          tn (finOf g last) out.tensors ss ts 0 = denseFrom g opmap ss ts (g.term false)) :=
  fromOpgraph_all qd g opmap on out h hc

/-- **The MPO preserves the denoted operator.**  For every consistent graph, every `d × d` operator map and every
duplicate-free list `ids` containing the operator ids of the graph: the tensors produced by `from_opgraph`, contracted
over the bonds for the physical digits `(s_k, t_k)`, give `Σ_w denF(g)(w) · Π_k opmap[w_k][s_k][t_k]`, the sum over all
words `w` over `ids` with one letter per tensor. -/
theorem from_opgraph_dense (qd : List Int) (g : Graph κ) (opmap : OpMap κ) (on : Bool) (out : MpoOut κ)
    (h : fromOpgraph qd g opmap on = .ok out) (hc : g.isConsistent = true) (hw : OpMapWF opmap qd.length)
    (ids : List Int) (hids : ∀ p ∈ g.edges, ∀ q ∈ p.2.opics, q.1 ∈ ids) (hnd : ids.Nodup) :
    ∃ (L : List (List Int)) (last : List Int),
      L.head? = some [g.term false] ∧ L.getLast? = some last ∧ out.tensors.length + 1 = L.length ∧
      (∀ x, ¬ IsSucc g last x) ∧
      ∀ ss ts : List Nat, ss.length = out.tensors.length → ts.length = out.tensors.length →
        (∀ s ∈ ss, s < qd.length) → (∀ t ∈ ts, t < qd.length) →
        tn (finOf g last) out.tensors ss ts 0
          = ((wordsOver ids ss.length).map fun w => g.denF w * wordWeight opmap w ss ts).sum := by
  obtain ⟨L, h1, _, h3, _, _, h6, _, _, h9⟩ := fromOpgraph_all qd g opmap on out h hc
  have hne : L ≠ [] := by intro h0; rw [h0] at h1; simp at h1
  obtain ⟨last, hlast⟩ : ∃ last, L.getLast? = some last := ⟨L.getLast hne, getLast?_eq_some_getLast hne⟩
  obtain ⟨_, _, ft⟩ := isConsistent_facts g hc
  obtain ⟨n, hn1, hn2⟩ := ft true
  refine ⟨L, last, h1, hlast, h3, h6 last hlast, ?_⟩
  intro ss ts hs ht hsd htd
  rw [h9 hw last hlast ss ts hs ht hsd htd,
    denseFrom_words g opmap ids hids hnd ⟨n, hn1, by simpa [Node.eids] using hn2⟩ ss ts _ (by rw [hs, ht])]
  rfl

/-- **Bond quantum numbers.**  `qD` lists, bond by bond, the quantum numbers of the graph nodes of that layer in
ascending node-id order; layer 0 is the start node, layer `k+1` is the set of successors of layer `k`. -/
theorem from_opgraph_qD (qd : List Int) (g : Graph κ) (opmap : OpMap κ) (on : Bool) (out : MpoOut κ)
    (h : fromOpgraph qd g opmap on = .ok out) (hc : g.isConsistent = true) :
    ∃ layers : List (List Int),
      layers.head? = some [g.term false] ∧ out.qD = layers.map (layerQ g) ∧
      out.tensors.length + 1 = layers.length ∧ (∀ S ∈ layers, S.Pairwise (· < ·)) ∧
      (∀ k A B, layers[k]? = some A → layers[k + 1]? = some B → ∀ x, x ∈ B ↔ IsSucc g A x) := by
  obtain ⟨L, h1, h2, h3, h4, h5, _⟩ := fromOpgraph_all qd g opmap on out h hc
  exact ⟨L, h1, h2, h3, h4, h5⟩

/-- **Node map.**  With `compute_nid_map=True` every node of every layer is found at `(layer, index in the sorted
layer)`; since the layers of a consistent graph are pairwise disjoint this is the node's only position. -/
theorem from_opgraph_nid_map (qd : List Int) (g : Graph κ) (opmap : OpMap κ) (out : MpoOut κ)
    (h : fromOpgraph qd g opmap true = .ok out) (hc : g.isConsistent = true) :
    ∃ layers : List (List Int),
      layers.head? = some [g.term false] ∧ out.qD = layers.map (layerQ g) ∧
      layers.Pairwise (fun A B => ∀ x ∈ A, x ∉ B) ∧
      ∀ k S i x, layers[k]? = some S → S[i]? = some x → dGet? out.nidMap x = some (k, i) := by
  obtain ⟨L, h1, h2, _, _, _, _, h7, h8, _⟩ := fromOpgraph_all qd g opmap true out h hc
  exact ⟨L, h1, h2, h7, h8 rfl⟩

/-- **Chains to MPO, end to end.**  For a well-formed chain list the graph built by `from_opchains`, converted by
`from_opgraph` with a `d × d` operator map, yields tensors whose contraction is
`Σ_w (Σ_{c : paddedWord c = w} c.coeff) · Π_k opmap[w_k][s_k][t_k]`. -/
theorem chains_to_mpo (chains : List (OpChain κ)) (L id : Int) (hwf : ChainsWF chains L) (g : Graph κ)
    (hg : fromOpchains chains L id = .ok g) (qd : List Int) (opmap : OpMap κ) (on : Bool) (out : MpoOut κ)
    (h : fromOpgraph qd g opmap on = .ok out) (hw : OpMapWF opmap qd.length)
    (ids : List Int) (hids : ∀ p ∈ g.edges, ∀ q ∈ p.2.opics, q.1 ∈ ids) (hnd : ids.Nodup) :
    ∃ (layers : List (List Int)) (last : List Int),
      layers.head? = some [g.term false] ∧ layers.getLast? = some last ∧ out.tensors.length + 1 = layers.length ∧
      ∀ ss ts : List Nat, ss.length = out.tensors.length → ts.length = out.tensors.length →
        (∀ s ∈ ss, s < qd.length) → (∀ t ∈ ts, t < qd.length) →
        tn (finOf g last) out.tensors ss ts 0
          = ((wordsOver ids ss.length).map fun w => chainsDen chains L id w * wordWeight opmap w ss ts).sum := by
  have hc := from_opchains_consistent chains L id g hg
  obtain ⟨layers, last, h1, h2, h3, _, h5⟩ := from_opgraph_dense qd g opmap on out h hc hw ids hids hnd
  refine ⟨layers, last, h1, h2, h3, ?_⟩
  intro ss ts hs ht hsd htd
  rw [h5 ss ts hs ht hsd htd]
  apply sum_map_congr
  intro w _
  rw [from_opchains_sem chains L id g hg hwf.1 (fun c hc' hc0 => (hwf.2.2 c hc' hc0).1) w]

/-- non-vacuity of the `from_opgraph` theorems: the graph of the single chain `3 · op₅`, a `2 × 2` operator map -/
example : exGraph.isConsistent = true ∧ OpMapWF ([(5, [[1, 2], [3, 4]])] : OpMap Int) 2 ∧
    (∃ out, fromOpgraph [0, 0] exGraph [(5, [[1, 2], [3, 4]])] true = .ok out ∧
      out.qD = [[0], [0]] ∧ out.tensors = [[[[[3]], [[6]]], [[[9]], [[12]]]]] ∧ out.nidMap = [(0, (0, 0)), (1, (1, 0))]) :=
  ⟨by decide, by intro p hp; simp at hp; subst hp; exact ⟨rfl, by simp⟩, _, rfl, rfl, rfl, rfl⟩

end Ptn.C05

import PtnModel.Proofs.KryFullEvo
import PtnModel.Proofs.KryFullEvoExample
import PtnModel.Props.C09Exact
import PtnModel.Props.C09Sweep
/-!
# C09 — "the local Krylov dimension covers the local problem" as a checkable condition on the Lanczos outputs

Property (properties.jsonl): *When the bond dimensions of the state accommodate every vector of its quantum-number sector and
the local Krylov dimension covers the local problem, one or more TDVP steps of either integrator reproduce exp(-dt·n·H) applied
to the normalized initial state … Evolving with dt and then -dt returns the initial state whenever the local exponentials are
exact, for any bond dimension.*

In `Props/C09Exact.lean`, `Props/C09Sweep.lean` "the local Krylov dimension covers the local problem" / "the local exponentials
are exact" is the trace predicate `StepExact` / `RunExact`, whose Lanczos part is `C15.Exhausted` (the norm oracle returns
EXACTLY zero on the last Lanczos residual) for every executed local run.  Here that part is replaced by a condition that can
be read off the outputs of `lanczos_iteration`: **every executed local Lanczos run returned as many vectors as the dimension
of the local problem** (`C15.FullRun`: `V.shape[1] == len(vstart)`; this needs `numiter ≥` the local dimension
`d·D_i·D_{i+1}` resp. `D_i·D_{i+1}` — "the local Krylov dimension covers the local problem" — and no early breakdown), collected
along the run as `Evo.StepFull` / `Evo.RunFull` (`Proofs/KryFullEvo.lean`).  The other parts of `StepExact` / `RunExact` are
kept as they are: every executed QR returns as many columns as the old bond dimension, and (only `inv = true`, only for the
run with `-dt`) its triangular factor has a right inverse.

`run_full_exact` : along a run from a state in canonical form, `RunFull → RunExact` — by `C15.exhausted_of_full` (a
full-length Lanczos run of a Hermitian map is exhausted: `n` orthonormal vectors of length `n` span everything) and the
Hermiticity of every local map met by the run (`Evo.canon_local`, `Evo.bondHermitian_left`, `Evo.right_move_canon`).
With it: `tdvp1_step_exact_complete_full`, `tdvp1_steps_exact_complete_full`, `tdvp1_call_exact_complete_full`,
`tdvp1_call_matrix_exp_full` (exactness on a complete manifold) and `tdvp1_step_reversible_full`,
`tdvp1_steps_reversible_full`, `tdvp1_calls_reversible_full` (reversibility) — no `C15.Exhausted` hypothesis.

What a full-length run does NOT cover: a local Krylov space of dimension smaller than the local dimension (e.g. a start tensor
that is an eigenvector of the effective operator) ends the iteration early through the threshold test; the run is then exact
only if the residual vanishes exactly, which remains the hypothesis `RunExact` of the original theorems.
-/
set_option linter.unusedSectionVars false

namespace Ptn.C09
open Ptn Ptn.Krylov Ptn.Evo Ptn.BondOps Ptn.Ortho Ptn.Env Finset
open scoped Matrix

variable {𝕜 : Type} [RCLike 𝕜] [DecidableEq 𝕜]
variable {k : EvoKernels 𝕜 ℝ} {H : MPO 𝕜} {qd : List Int} {numiter : Nat}

/-- **Full-length local Lanczos runs are exact local exponentials, along the whole run.**  `s` in canonical form with centre
`0`.  If every Lanczos run executed by `numsteps` time steps from `s` returned as many vectors as its local dimension and the
QR steps are regular (`RunFull inv`), then every executed sub-step is exact and regular in the sense of `RunExact inv`
(every executed Lanczos run exhausts its Krylov space). -/
theorem run_full_exact (ctx : SweepCtx k H qd numiter) {inv : Bool} {dt : 𝕜} {numsteps : Nat} {s : Sweep 𝕜}
    (h : Canon H qd s 0) (hfull : RunFull inv k H qd dt numiter numsteps s) :
    RunExact inv k H qd dt numiter numsteps s :=
  runExact_of_full ctx h hfull

/-- the same for one time step -/
theorem step_full_exact (ctx : SweepCtx k H qd numiter) {inv : Bool} {dt : 𝕜} {s : Sweep 𝕜}
    (h : Canon H qd s 0) (hfull : StepFull inv k H qd dt numiter s) : StepExact inv k H qd dt numiter s :=
  stepExact_of_full ctx h hfull

/-! ## exactness on a complete manifold -/

/-- **One time step on a complete manifold with full-length local Lanczos runs is exact**
(`tdvp1_step_exact_complete` with `StepFull` in place of `StepExact`). -/
theorem tdvp1_step_exact_complete_full (ctx : SweepCtx k H qd numiter) (hE : ExpLaw k.dexp) (hhalf : k.half + k.half = 1)
    {dt : 𝕜} {m : Nat} {s s' : Sweep 𝕜} (h : Canon H qd s 0) (hcomp : Complete qd H.A.length m s)
    (hS : tdvp1Step k H qd dt numiter s = .ok s') (hfull : StepFull false k H qd dt numiter s) :
    Canon H qd s' 0 ∧ SameDims s s' ∧ DenseExp H qd.length k.dexp (-dt) (cur qd s).amp (cur qd s').amp :=
  tdvp1_step_exact_complete ctx hE hhalf h hcomp hS (stepExact_of_full ctx h hfull)

/-- **`n` time steps on a complete manifold with full-length local Lanczos runs**: the dense state is multiplied by
`E(-(n · dt) · H_dense)`. -/
theorem tdvp1_steps_exact_complete_full (ctx : SweepCtx k H qd numiter) (hE : ExpLaw k.dexp)
    (hhalf : k.half + k.half = 1) {dt : 𝕜} {m n : Nat} {s s' : Sweep 𝕜} (h : Canon H qd s 0)
    (hcomp : Complete qd H.A.length m s) (hS : iterate (tdvp1Step k H qd dt numiter) n s = .ok s')
    (hfull : RunFull false k H qd dt numiter n s) :
    Canon H qd s' 0 ∧ SameDims s s' ∧
      DenseExp H qd.length k.dexp (-((n : 𝕜) * dt)) (cur qd s).amp (cur qd s').amp :=
  tdvp1_steps_exact_complete ctx hE hhalf h hcomp hS (runExact_of_full ctx h hfull)

/-- the prologue state of a returned call is in canonical form with centre `0` -/
theorem prologue_canon {ψ ψ' : MPS 𝕜} (ctx : SweepCtx k H ψ.qd numiter) (hadm : Admissible ψ) {dt : 𝕜} {n : Nat}
    {nrm : ℝ} (h : integrateLocalSinglesite k H ψ dt n numiter = .ok (ψ', nrm)) {s0 : Sweep 𝕜}
    (hp : prologue k H ψ = .ok (s0, nrm)) : Canon H ψ.qd s0 0 := by
  obtain ⟨s0', _, _, hp', _, _, hcan0, _⟩ := integrate1_canon ctx hadm h
  have e0 : s0 = s0' := by
    have := hp.symm.trans hp'
    injection this with this
    exact (Prod.mk.inj this).1
  rw [e0]; exact hcan0

/-- **`integrate_local_singlesite` on a complete manifold, Krylov dimension covering the local problems.**
`tdvp1_call_exact_complete` with the hypothesis on the Lanczos runs in checkable form: every local Lanczos run executed by
the `n` time steps from the prologue state returned as many vectors as its local dimension, and every QR kept its bond
dimension (`RunFull false`).  Then `ψ0 = ψ / nrm` has norm one and `ψ' = E(-(n·dt) · H_dense) ψ0`, every complex `dt`. -/
theorem tdvp1_call_exact_complete_full {ψ ψ' : MPS 𝕜} (ctx : SweepCtx k H ψ.qd numiter) (hE : ExpLaw k.dexp)
    (hhalf : k.half + k.half = 1) (hadm : Admissible ψ) {dt : 𝕜} {n m : Nat} {nrm : ℝ}
    (h : integrateLocalSinglesite k H ψ dt n numiter = .ok (ψ', nrm))
    (hcomp : ∀ ψ0, MPS.orthonormalize (ρ := ℝ) k.dqr ψ false = .ok (ψ0, nrm) → CompleteMPS ψ0 m)
    (hfull : ∀ s0, prologue k H ψ = .ok (s0, nrm) → RunFull false k H ψ.qd dt numiter n s0) :
    ∃ ψ0, MPS.orthonormalize (ρ := ℝ) k.dqr ψ false = .ok (ψ0, nrm) ∧
      (∀ σ, σ ∈ digitsU ψ.qd.length ψ.A.length → (nrm : 𝕜) * ψ0.amp σ = ψ.amp σ) ∧
      (∑ σ ∈ digitsU ψ.qd.length ψ.A.length, ‖ψ0.amp σ‖ ^ 2 = 1) ∧
      DenseExp H ψ.qd.length k.dexp (-((n : 𝕜) * dt)) ψ0.amp ψ'.amp :=
  tdvp1_call_exact_complete ctx hE hhalf hadm h hcomp
    (fun s0 hp => runExact_of_full ctx (prologue_canon ctx hadm h hp) (hfull s0 hp))

/-- **… returns Mathlib's `exp(-(n·dt) • H_dense) *ᵥ ψ0`** (matrix-exponential form, `k.dexp = NormedSpace.exp`). -/
theorem tdvp1_call_matrix_exp_full {ψ ψ' : MPS 𝕜} (ctx : SweepCtx k H ψ.qd numiter)
    (hexp : ∀ z : 𝕜, k.dexp z = NormedSpace.exp z) (hhalf : k.half + k.half = 1) (hadm : Admissible ψ) {dt : 𝕜}
    {n m : Nat} {nrm : ℝ} (h : integrateLocalSinglesite k H ψ dt n numiter = .ok (ψ', nrm))
    (hcomp : ∀ ψ0, MPS.orthonormalize (ρ := ℝ) k.dqr ψ false = .ok (ψ0, nrm) → CompleteMPS ψ0 m)
    (hfull : ∀ s0, prologue k H ψ = .ok (s0, nrm) → RunFull false k H ψ.qd dt numiter n s0) :
    ∃ ψ0, MPS.orthonormalize (ρ := ℝ) k.dqr ψ false = .ok (ψ0, nrm) ∧
      (∀ σ, σ ∈ digitsU ψ.qd.length ψ.A.length → (nrm : 𝕜) * ψ0.amp σ = ψ.amp σ) ∧
      denseVec ψ.qd.length H.A.length ψ'.amp =
        NormedSpace.exp ((-((n : 𝕜) * dt)) • denseMatrix H ψ.qd.length) *ᵥ denseVec ψ.qd.length H.A.length ψ0.amp :=
  tdvp1_call_matrix_exp ctx hexp hhalf hadm h hcomp
    (fun s0 hp => runExact_of_full ctx (prologue_canon ctx hadm h hp) (hfull s0 hp))

/-! ## reversibility -/

/-- **One time step with `dt` followed by one time step with `-dt`**, local exponentials exact because every local Lanczos
run is full-length (`tdvp1_step_reversible` with `StepFull`). -/
theorem tdvp1_step_reversible_full (ctx : SweepCtx k H qd numiter) {dt : 𝕜} {s b t e : Sweep 𝕜} (h : Canon H qd s 0)
    (hS : tdvp1Step k H qd dt numiter s = .ok b) (hg : GaugeEq H qd b t 0)
    (hS' : tdvp1Step k H qd (-dt) numiter t = .ok e)
    (hfull : StepFull false k H qd dt numiter s) (hfull' : StepFull true k H qd (-dt) numiter t)
    (hexp : ∀ (a : 𝕜) (x : ℝ), k.dexp (a * (x : 𝕜)) * k.dexp (-a * (x : 𝕜)) = 1) :
    GaugeEq H qd s e 0 ∧ ∀ σ, σ ∈ digitsU qd.length H.A.length → (cur qd e).amp σ = (cur qd s).amp σ :=
  tdvp1_step_reversible ctx h hS hg hS' (stepExact_of_full ctx h hfull) (stepExact_of_full ctx hg.2.1 hfull') hexp

/-- **`numsteps` time steps with `dt` followed by `numsteps` time steps with `-dt` return the initial dense state**, with the
exactness of the local exponentials in checkable form (`RunFull`): `tdvp1_steps_reversible` without `C15.Exhausted`. -/
theorem tdvp1_steps_reversible_full (ctx : SweepCtx k H qd numiter) {dt : 𝕜} {numsteps : Nat} {s b t e : Sweep 𝕜}
    (h : Canon H qd s 0)
    (hS : iterate (tdvp1Step k H qd dt numiter) numsteps s = .ok b) (hg : GaugeEq H qd b t 0)
    (hS' : iterate (tdvp1Step k H qd (-dt) numiter) numsteps t = .ok e)
    (hfull : RunFull false k H qd dt numiter numsteps s) (hfull' : RunFull true k H qd (-dt) numiter numsteps t)
    (hexp : ∀ (a : 𝕜) (x : ℝ), k.dexp (a * (x : 𝕜)) * k.dexp (-a * (x : 𝕜)) = 1) :
    GaugeEq H qd s e 0 ∧ ∀ σ, σ ∈ digitsU qd.length H.A.length → (cur qd e).amp σ = (cur qd s).amp σ :=
  tdvp1_steps_reversible ctx h hS hg hS' (runExact_of_full ctx h hfull) (runExact_of_full ctx hg.2.1 hfull') hexp

/-- **Two calls of `integrate_local_singlesite` with `dt` and `-dt`, purely imaginary `dt`** (`tdvp1_calls_reversible` with
`RunFull`): the second call reports the norm one and returns the normalised initial state. -/
theorem tdvp1_calls_reversible_full {ψ ψ1 ψ2 : MPS 𝕜} (ctx : SweepCtx k H ψ.qd numiter)
    (hexpI : ∀ x : ℝ, ‖k.dexp (RCLike.I * (x : 𝕜))‖ = 1) {hh τ : ℝ} (hhalf : k.half = ((hh : ℝ) : 𝕜)) {dt : 𝕜}
    (hdt : dt = RCLike.I * ((τ : ℝ) : 𝕜)) (hHwf : H.wellFormed = true) (hc : C02.EvoCompat H ψ) (hadm : Admissible ψ)
    {numsteps : Nat} {nrm1 nrm2 : ℝ}
    (h1 : integrateLocalSinglesite k H ψ dt numsteps numiter = .ok (ψ1, nrm1))
    (h2 : integrateLocalSinglesite k H ψ1 (-dt) numsteps numiter = .ok (ψ2, nrm2))
    (hfull1 : ∀ s0, prologue k H ψ = .ok (s0, nrm1) → RunFull false k H ψ.qd dt numiter numsteps s0)
    (hfull2 : ∀ t0, prologue k H ψ1 = .ok (t0, nrm2) → RunFull true k H ψ.qd (-dt) numiter numsteps t0)
    (hreg : OrthoRightRegular k.dqr ψ1)
    (hexp : ∀ (a : 𝕜) (x : ℝ), k.dexp (a * (x : 𝕜)) * k.dexp (-a * (x : 𝕜)) = 1) :
    nrm2 = 1 ∧ ∃ ψ0, MPS.orthonormalize (ρ := ℝ) k.dqr ψ false = .ok (ψ0, nrm1) ∧
      ∀ σ, σ ∈ digitsU ψ.qd.length H.A.length → ψ2.amp σ = ψ0.amp σ := by
  refine tdvp1_calls_reversible ctx hexpI hhalf hdt hHwf hc hadm h1 h2
    (fun s0 hp => runExact_of_full ctx (prologue_canon ctx hadm h1 hp) (hfull1 s0 hp)) ?_ hreg hexp
  intro t0 hp2
  obtain ⟨_, _, _, _, hn1, _⟩ := tdvp1_main ctx hexpI hhalf hdt rfl hadm h1
  have hwf1 := C02.tdvp1_wf ctx.qr.contract.shape hHwf hadm.wf hc h1
  obtain ⟨s0, b, ψ0, hp, ho, hcur, hcan0, hit, hcanb, e1⟩ := integrate1_canon ctx hadm h1
  subst e1
  have hadm1 : Admissible (toMPS ψ b) := admissible_of_canon hcanb hadm.d_pos hwf1
  have hn : normSq (cur ψ.qd b) ψ.qd.length = 1 := hn1
  have hg := prologue_gauge ctx rfl hcanb hadm1 hp2 hreg hn
  exact runExact_of_full ctx hg.2.1 (hfull2 t0 hp2)

/-! ## non-vacuity

`Proofs/KryFullEvoExample.lean`: the one-site system `exHz = σ_z` (`d = 2`, local dimension `2`), the state `exψ1 = (1, i)`,
kernels `exKF` (QR kernel `realQR`, 2-norm, the exact `eigh_tridiagonal` kernel `C15.eighExact`, `dexp = Complex.exp`,
`half = 1/2`), TWO Lanczos iterations, `dt = iτ`.  The centre tensor stays balanced (`|a₀| = |a₁| ≠ 0`) along the run, the first
Lanczos residual has norm one, so every executed Lanczos run really returns two vectors (a genuinely two-dimensional Krylov
space — in the examples of `Props/C09Exact.lean` the Krylov spaces are one-dimensional and the runs are NOT full-length). -/

/-- **ALL hypotheses of `tdvp1_steps_exact_complete_full` / `run_full_exact` hold jointly for actual runs**, every number of time
steps `n` and every real `τ`: context, `ExpLaw`, prologue state in canonical form and of complete shape, the sweeps succeed, and
`RunFull false` -/
example (n : Nat) (τ : ℝ) : ∃ (s0 b : Sweep ℂ) (nrm : ℝ),
    SweepCtx exKF exHz exψ1.qd 2 ∧ ExpLaw exKF.dexp ∧ exKF.half + exKF.half = 1 ∧
    prologue exKF exHz exψ1 = .ok (s0, nrm) ∧ Canon exHz exψ1.qd s0 0 ∧ Complete exψ1.qd exHz.A.length 0 s0 ∧
    iterate (tdvp1Step exKF exHz exψ1.qd (Complex.I * τ) 2) n s0 = .ok b ∧
    RunFull false exKF exHz exψ1.qd (Complex.I * τ) 2 n s0 :=
  exFull1 n τ

/-- the hypotheses of `tdvp1_steps_reversible_full` for the same system: forward run with `dt`, backward run with `-dt` from
the final state, `RunFull false` / `RunFull true`, gauge equivalence, and `E(a)E(-a) = 1` -/
example (n : Nat) (τ : ℝ) : ∃ (s0 b e : Sweep ℂ),
    SweepCtx exKF exHz exψ1.qd 2 ∧ Canon exHz exψ1.qd s0 0 ∧
    iterate (tdvp1Step exKF exHz exψ1.qd (Complex.I * τ) 2) n s0 = .ok b ∧
    iterate (tdvp1Step exKF exHz exψ1.qd (-(Complex.I * τ)) 2) n b = .ok e ∧
    RunFull false exKF exHz exψ1.qd (Complex.I * τ) 2 n s0 ∧
    RunFull true exKF exHz exψ1.qd (-(Complex.I * τ)) 2 n b ∧
    GaugeEq exHz exψ1.qd b b 0 ∧
    (∀ (a : ℂ) (x : ℝ), exKF.dexp (a * (x : ℂ)) * exKF.dexp (-a * (x : ℂ)) = 1) := by
  obtain ⟨s0, b, e, nrm, ctx, _, _, _, hcan, _, hit, hit', hf, hf', hg⟩ := exFull1_rev n τ
  exact ⟨s0, b, e, ctx, hcan, hit, hit', hf, hf', hg, exRev1_exp⟩

/-- the conclusion of `tdvp1_steps_exact_complete_full` for this instance: after `n` steps the dense state is
`E(-(n·iτ) · H_dense)` applied to the dense state of the prologue state -/
example (n : Nat) (τ : ℝ) : ∃ (s0 b : Sweep ℂ) (nrm : ℝ),
    prologue exKF exHz exψ1 = .ok (s0, nrm) ∧
    iterate (tdvp1Step exKF exHz exψ1.qd (Complex.I * τ) 2) n s0 = .ok b ∧
    DenseExp exHz exψ1.qd.length exKF.dexp (-((n : ℂ) * (Complex.I * τ))) (cur exψ1.qd s0).amp (cur exψ1.qd b).amp := by
  obtain ⟨s0, b, nrm, ctx, hE, hh, hp, hcan, hcomp, hit, hf⟩ := exFull1 n τ
  exact ⟨s0, b, nrm, hp, hit, (tdvp1_steps_exact_complete_full ctx hE hh hcan hcomp hit hf).2.2⟩

end Ptn.C09

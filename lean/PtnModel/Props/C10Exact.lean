import PtnModel.Proofs.KryFullDmrgSweep
import PtnModel.Proofs.KryFullDmrgFrom
import PtnModel.Proofs.KryFullDmrgAny
import PtnModel.Proofs.KryFullDmrgExample
import PtnModel.Proofs.KryFullDmrgExample2
import PtnModel.Props.C10
/-!
# C10 (exactness clause) — on a complete manifold with enough local Lanczos iterations the exact ground-state energy is reached

Property (properties.jsonl, last clause): *On a complete manifold with enough local Lanczos iterations the exact ground-state
energy is reached.*

Model: `Ptn.Evo.minimizeLocalEnergy` (`_minimize_local_energy`), `Ptn.Evo.dmrgSinglesite`
(`PtnModel/Model/Evolution.lean`).  Scalars: any `RCLike 𝕜`, exact arithmetic.

## What is proved (single-site DMRG)

"Complete manifold" is the shape condition of `Props/C09Exact.lean` at the site `c` that is being optimised: all sites left of
`c` have the dimensions of SQUARE left isometries (`SqL`), all sites right of `c` those of square right isometries (`SqR`) —
e.g. the maximal bond dimensions `min(d^j, d^(L-j))` without quantum numbers, `c = L/2`.  Then the frame
`V : X ↦ dense state of s[c := X]` is unitary and the effective one-site operator is `Vᴴ H V`, unitarily equivalent to the dense
operator.  "Enough local Lanczos iterations" is the checkable condition `Evo.MidFull`: the Lanczos run of the local
optimisation returned as many vectors as the local dimension `d·D_c·D_{c+1}` (`C15.FullRun`; this needs
`numiter ≥ d·D_c·D_{c+1}` and no early breakdown), so that the run is exhausted (`C15.exhausted_of_full`).

* `dmrg_centre_step_exact` : the local optimisation at such a site returns the energy `en` and a state whose dense vector is a
  normalised EIGENVECTOR of the dense operator with eigenvalue `en`; `en ≤ λ` for every eigenvalue `λ` of the dense operator
  with an eigenvector overlapping the current dense state `ψ` (`⟪x, ψ⟫ ≠ 0`) — `en` is the smallest eigenvalue reachable from
  `ψ`; and if `ψ` overlaps a ground state (`x₀` eigenvector for `λ₀`, `λ₀` a lower bound of the quadratic form), `en = λ₀`:
  the exact ground-state energy is reached.  The overlap hypothesis is necessary in exact arithmetic (a start state orthogonal
  to the ground space stays orthogonal).
* `dmrg1_ground_energy_stays` : in the list of energies reported by `calculate_ground_state_local_singlesite`, once an entry
  equals the exact ground-state energy `λ₀` (a lower bound of the quadratic form), all later entries equal `λ₀`
  (monotonicity + variational bound of `Props/C10.lean`).

* `dmrg1_sweep_ground_exact_any`, `dmrg1_ground_exact_any` : the most general form — the hit may occur at ANY site, in either
  half of ANY sweep `j` (`Evo.SweepHit`, an existential trace predicate `FoldAny` over the local steps of the sweep); from
  sweep `j` on every reported energy is `λ₀`, and the returned state has energy `λ₀`.  Special cases kept for readability:
* `dmrg1_sweep_ground_exact`, `dmrg1_ground_exact`, `dmrg1_ground_exact_from` (hit in sweep number `j`: the entries
  `j, j+1, …` equal `λ₀`) : sweep and call level.  The condition is a trace predicate on the state
  `t` that the left-to-right half of the (first) sweep has reached when it arrives at a site `m ≤ L-2`
  (`Evo.CentreHit … λ₀ t m`): `t` has square left isometries left of `m` and square right isometries right of `m`, the Lanczos
  run of the local optimisation at `m` is full-length, and the dense state of `t` overlaps an eigenvector for `λ₀`, where `λ₀`
  is a lower bound of the quadratic form of the dense operator (so `λ₀` is the exact ground-state energy).  Then the local step
  at `m` returns `λ₀`, all later local steps stay at `λ₀` (non-increasing, bounded below by `λ₀`), the sweep reports `λ₀`, and
  so does every later sweep: ALL reported energies equal `λ₀`, and `⟨ψ'|H|ψ'⟩ = λ₀` for the returned state.

Not proved (see `obligations/C10.json`): `CentreHit` is a hypothesis on the state met at site `m` — its derivation from the
START state (that the QR gauge moves before `m` keep the maximal bond dimensions needs their regularity; that the dense state still
overlaps the ground space when site `m` is reached; that the Lanczos run is full-length) is not proved; the two-site variant;
quantum-number sectors.
-/
set_option linter.unusedSectionVars false

namespace Ptn.C10
open Ptn Ptn.Krylov Ptn.Evo Ptn.BondOps Ptn.Ortho Ptn.Env Finset

variable {𝕜 : Type} [RCLike 𝕜] [DecidableEq 𝕜]

/-- **The local optimisation at the centre of a complete state solves the dense eigenproblem.**
`s` is in mixed-canonical form with centre `c`, norm one and energy `E` (`DInv`); all sites left of `c` have the dimensions of
square left isometries and all sites right of `c` those of square right isometries; `_minimize_local_energy` at `c` returns
`(en, Aopt)` and its Lanczos run returned as many vectors as the local dimension (`MidFull`).  With `ψ` the dense state of
`s` and `ψ'` that of `s[c := Aopt]`:
* `s[c := Aopt]` is in canonical form, `‖ψ'‖ = 1`, `⟨ψ'|H|ψ'⟩ = en`, and `en ≤ E`;
* `H_dense ψ' = en ψ'`;
* `en ≤ λ` for every eigenpair `(λ, x)` of the dense operator with `⟪x, ψ⟫ ≠ 0`;
* if `λ₀` is a lower bound of the quadratic form of the dense operator (`DenseLower`) and `x₀` an eigenvector for `λ₀`
  (a ground state) with `⟪x₀, ψ⟫ ≠ 0`, then `en = λ₀`. -/
theorem dmrg_centre_step_exact {k : EvoKernels 𝕜 ℝ} {H : MPO 𝕜} {qd : List Int} {numiter : Nat}
    (ctx : SweepCtx k H qd numiter) {s : Sweep 𝕜} {c : Nat} {E : ℝ} (h : DInv H qd s c E)
    (hsqL : ∀ j, j < c → SqL qd s j) (hsqR : ∀ j, c < j → j < H.A.length → SqR qd s j) {en : ℝ} {Aopt : T3 𝕜}
    (hm : minimizeLocalEnergy k (getBL s c) (getBR s c) (H.A.getD c zeroT4) (getA s c) numiter = .ok (en, Aopt))
    (hfull : MidFull k H numiter s c) :
    DInv H qd (setA s c Aopt) c en ∧ en ≤ E ∧
    DenseEig H qd.length en (cur qd (setA s c Aopt)).amp ∧
    (∀ (lam : ℝ) (x : List Nat → 𝕜), DenseEig H qd.length lam x →
      ∑ σ ∈ digitsU qd.length H.A.length, star (x σ) * (cur qd s).amp σ ≠ 0 → en ≤ lam) ∧
    (∀ (lam0 : ℝ) (x0 : List Nat → 𝕜), DenseLower H qd.length lam0 → DenseEig H qd.length lam0 x0 →
      ∑ σ ∈ digitsU qd.length H.A.length, star (x0 σ) * (cur qd s).amp σ ≠ 0 → en = lam0) := by
  obtain ⟨hinv, hle, hlow, _⟩ := minimize_inv ctx h hm
  have hreach : ∀ (lam : ℝ) (x : List Nat → 𝕜), DenseEig H qd.length lam x →
      ∑ σ ∈ digitsU qd.length H.A.length, star (x σ) * (cur qd s).amp σ ≠ 0 → en ≤ lam :=
    fun lam x hx hov => dmrg_centre_reach ctx h.can hsqL hsqR hm hfull hx hov
  exact ⟨hinv, hle, dmrg_centre_eigen ctx h.can hsqL hsqR hm hfull, hreach,
    fun lam0 x0 hl hx hov => le_antisymm (hreach lam0 x0 hx hov) (hlow lam0 hl)⟩

/-- **Once the exact ground-state energy is reported it stays.**  For single-site DMRG (hypotheses of `dmrg1_variational`): if
`λ₀` is a lower bound of the quadratic form of the dense operator (e.g. its smallest eigenvalue) and the `i`-th reported energy
equals `λ₀`, every later reported energy equals `λ₀`. -/
theorem dmrg1_ground_energy_stays {k : EvoKernels 𝕜 ℝ} {H : MPO 𝕜} {ψ ψ' : MPS 𝕜} {numiter : Nat}
    (ctx : SweepCtx k H ψ.qd numiter) (hL2 : 2 ≤ H.A.length) (hadm : Admissible ψ) {numsweeps : Nat} {en : List ℝ}
    (h : dmrgSinglesite k H ψ numsweeps numiter = .ok (ψ', en)) {lam0 : ℝ} (hlow : DenseLower H ψ.qd.length lam0)
    {i : Nat} (hi : i < en.length) (hreach : en[i] = lam0) :
    ∀ j (hj : j < en.length), i ≤ j → en[j] = lam0 := by
  obtain ⟨hall, hpw⟩ := dmrg1_variational ctx hL2 hadm h
  intro j hj hij
  rcases Nat.lt_or_eq_of_le hij with hlt | rfl
  · have h1 : en[i] ≥ en[j] := List.pairwise_iff_getElem.1 hpw i j hi hj hlt
    have h2 : lam0 ≤ en[j] := (hall _ (List.getElem_mem hj)).1 lam0 hlow
    rw [hreach] at h1
    exact le_antisymm h1 h2
  · exact hreach

/-- **A sweep that optimises the centre of a complete state overlapping a ground state reports the exact ground-state
energy.**  `s` in canonical form with centre `0`, norm one (`DInv`); `dmrg1Sweep` (left-to-right half, right-to-left half, final
normalisation) returns `(s', es')`; `λ₀` is a lower bound of the quadratic form of the dense operator; the state `t` that the
left-to-right half has reached when it arrives at the site `m ≤ L-2` satisfies `CentreHit` (complete shape with centre `m`,
full-length local Lanczos run, overlap with an eigenvector for `λ₀`).  Then the sweep appends exactly `λ₀` to the list of
energies, and `s'` is in canonical form with norm one and energy `λ₀`. -/
theorem dmrg1_sweep_ground_exact {k : EvoKernels 𝕜 ℝ} {H : MPO 𝕜} {qd : List Int} {numiter : Nat}
    (ctx : SweepCtx k H qd numiter) (hL2 : 2 ≤ H.A.length) {s s' : Sweep 𝕜} {es es' : List ℝ} {E lam0 : ℝ}
    (h : DInv H qd s 0 E) (hrun : dmrg1Sweep k H qd numiter (s, es) = .ok (s', es'))
    (hlow : DenseLower H qd.length lam0) {m : Nat} (hm : m + 1 < H.A.length)
    (hhit : ∀ t, foldIdx (dmrg1Left k H qd numiter) (List.range m) (s, (0 : ℝ)) = .ok t →
      CentreHit k H qd numiter lam0 t.1 m) :
    es' = es ++ [lam0] ∧ DInv H qd s' 0 lam0 :=
  dmrg1Sweep_ground ctx hL2 h hrun hlow hm hhit

/-- **`calculate_ground_state_local_singlesite` reaches the exact ground-state energy on a complete manifold with enough
Lanczos iterations.**  Hermitian MPO with `L ≥ 2` sites, admissible start state, the call returns `(ψ', en)`; `λ₀` a lower
bound of the quadratic form of the dense operator; in the FIRST sweep the state `t` met by the left-to-right half at a site
`m ≤ L-2` satisfies `CentreHit` (square left isometries left of `m`, square right isometries right of `m`; the local Lanczos
run returned `d·D_m·D_{m+1}` vectors; the dense state overlaps an eigenvector for `λ₀`).  Then EVERY reported energy equals
`λ₀`, and (for `numsweeps ≥ 1`) the returned normalised state has energy `⟨ψ'|H|ψ'⟩ = λ₀`. -/
theorem dmrg1_ground_exact {k : EvoKernels 𝕜 ℝ} {H : MPO 𝕜} {ψ ψ' : MPS 𝕜} {numiter : Nat}
    (ctx : SweepCtx k H ψ.qd numiter) (hL2 : 2 ≤ H.A.length) (hadm : Admissible ψ) {numsweeps : Nat} {en : List ℝ}
    (h : dmrgSinglesite k H ψ numsweeps numiter = .ok (ψ', en)) {lam0 : ℝ} (hlow : DenseLower H ψ.qd.length lam0)
    {m : Nat} (hm : m + 1 < H.A.length)
    (hhit : ∀ s0 nrm t, prologue k H ψ = .ok (s0, nrm) →
      foldIdx (dmrg1Left k H ψ.qd numiter) (List.range m) (s0, (0 : ℝ)) = .ok t →
      CentreHit k H ψ.qd numiter lam0 t.1 m) :
    (∀ e ∈ en, e = lam0) ∧ (1 ≤ numsweeps → energy ψ' H ψ.qd.length = ((lam0 : ℝ) : 𝕜)) := by
  have hall := dmrg1_ground ctx hL2 rfl hadm h hlow hm hhit
  refine ⟨hall, fun hns => ?_⟩
  obtain ⟨_, _, elast, hl, he⟩ := dmrg1_energy_consistent ctx hL2 hadm hns h
  rw [he, hall elast (List.mem_of_getLast? hl)]

/-- **From the sweep that optimises the centre of a complete state overlapping a ground state on, the exact ground-state energy
is reported.**  As `dmrg1_ground_exact`, with the hit in sweep number `j` (counted from `0`, `j < numsweeps`): the state `t`
met by the left-to-right half of that sweep — started from the state `sj` reached after `j` sweeps — at a site `m ≤ L-2`
satisfies `CentreHit`.  Then the entries `j, j+1, …` of the list of reported energies all equal `λ₀`. -/
theorem dmrg1_ground_exact_from {k : EvoKernels 𝕜 ℝ} {H : MPO 𝕜} {ψ ψ' : MPS 𝕜} {numiter : Nat}
    (ctx : SweepCtx k H ψ.qd numiter) (hL2 : 2 ≤ H.A.length) (hadm : Admissible ψ) {numsweeps : Nat} {en : List ℝ}
    (h : dmrgSinglesite k H ψ numsweeps numiter = .ok (ψ', en)) {lam0 : ℝ} (hlow : DenseLower H ψ.qd.length lam0)
    {m : Nat} (hm : m + 1 < H.A.length) {j : Nat} (hj : j < numsweeps)
    (hhit : ∀ s0 nrm sj esj t, prologue k H ψ = .ok (s0, nrm) →
      iterate (dmrg1Sweep k H ψ.qd numiter) j (s0, []) = .ok (sj, esj) →
      foldIdx (dmrg1Left k H ψ.qd numiter) (List.range m) (sj, (0 : ℝ)) = .ok t →
      CentreHit k H ψ.qd numiter lam0 t.1 m) :
    ∀ i (hi : i < en.length), j ≤ i → en[i] = lam0 :=
  dmrg1_ground_from ctx hL2 rfl hadm h hlow hm hj hhit

/-- **A sweep in which some executed local optimisation is a `CentreHit` reports the exact ground-state energy** — the hit may
occur at ANY site, in the left-to-right or in the right-to-left half (`SweepHit`: `FoldAny` over the local steps of the sweep;
e.g. `L = 2` with the bond dimensions `[1, 2, 1]` and the centre `m = 1`, which is optimised only in the right-to-left half). -/
theorem dmrg1_sweep_ground_exact_any {k : EvoKernels 𝕜 ℝ} {H : MPO 𝕜} {qd : List Int} {numiter : Nat}
    (ctx : SweepCtx k H qd numiter) (hL2 : 2 ≤ H.A.length) {s s' : Sweep 𝕜} {es es' : List ℝ} {E lam0 : ℝ}
    (h : DInv H qd s 0 E) (hrun : dmrg1Sweep k H qd numiter (s, es) = .ok (s', es'))
    (hlow : DenseLower H qd.length lam0) (hhit : SweepHit k H qd numiter lam0 s) :
    es' = es ++ [lam0] ∧ DInv H qd s' 0 lam0 :=
  dmrg1Sweep_ground_any ctx hL2 h hrun hlow hhit

/-- **`calculate_ground_state_local_singlesite`: from the sweep with a hit on, every reported energy is the exact
ground-state energy** — hit at any site, in either half of sweep number `j` (`j < numsweeps`, counted from `0`; `sj` the state
reached after `j` sweeps).  For `j = 0` all reported energies equal `λ₀`. -/
theorem dmrg1_ground_exact_any {k : EvoKernels 𝕜 ℝ} {H : MPO 𝕜} {ψ ψ' : MPS 𝕜} {numiter : Nat}
    (ctx : SweepCtx k H ψ.qd numiter) (hL2 : 2 ≤ H.A.length) (hadm : Admissible ψ) {numsweeps : Nat} {en : List ℝ}
    (h : dmrgSinglesite k H ψ numsweeps numiter = .ok (ψ', en)) {lam0 : ℝ} (hlow : DenseLower H ψ.qd.length lam0)
    {j : Nat} (hj : j < numsweeps)
    (hhit : ∀ s0 nrm sj esj, prologue k H ψ = .ok (s0, nrm) →
      iterate (dmrg1Sweep k H ψ.qd numiter) j (s0, []) = .ok (sj, esj) → SweepHit k H ψ.qd numiter lam0 sj) :
    (∀ i (hi : i < en.length), j ≤ i → en[i] = lam0) ∧ energy ψ' H ψ.qd.length = ((lam0 : ℝ) : 𝕜) := by
  have hall := dmrg1_ground_any ctx hL2 rfl hadm h hlow hj hhit
  refine ⟨hall, ?_⟩
  obtain ⟨hlen, _, elast, hl, he⟩ := dmrg1_energy_consistent ctx hL2 hadm (by omega : 1 ≤ numsweeps) h
  rw [he]
  have hne : en ≠ [] := by
    intro h0; rw [h0] at hlen; simp at hlen; omega
  have : elast = en[en.length - 1]'(by have := List.length_pos_iff.2 hne; omega) := by
    rw [List.getLast?_eq_getElem?] at hl
    rw [List.getElem?_eq_getElem (by have := List.length_pos_iff.2 hne; omega)] at hl
    exact (Option.some.inj hl).symm
  rw [this, hall _ _ (by omega)]

/-! ## non-vacuity

`Proofs/KryFullDmrgExample.lean`: the one-site system `exHz = σ_z` (`d = 2`; dense operator `diag(1, -1)`, ground-state energy
`-1`, ground state `exGround = |1⟩`), the prologue state of `exψ1 = (1, i)` (norm one, overlap `i/√2` with the ground state),
kernels `exKF` (QR kernel `realQR`, 2-norm, exact `eigh_tridiagonal` kernel), TWO Lanczos iterations — the local Lanczos run
really returns two vectors.  The sweep-level theorems need `L ≥ 2` sites: a non-degenerate witness with `L = 2`, `d = 2` needs a
hand-computed four-dimensional Lanczos run and is not provided; `Proofs/KryFullDmrgExample2.lean` gives the DEGENERATE witness with
two sites of physical dimension one (one-dimensional Hilbert space, all bond dimensions one), which shows that the hypotheses of
the sweep-level theorems are jointly satisfiable for actual calls. -/

/-- **ALL hypotheses of `dmrg_centre_step_exact` hold jointly for an actual run**, including the overlap with the ground state
and the lower bound `λ₀ = -1`; all components of `CentreHit` hold; and the returned energy is the exact ground-state
energy `-1` -/
example : ∃ (s0 : Sweep ℂ) (nrm E0 en : ℝ) (Aopt : T3 ℂ),
    SweepCtx exKF exHz [0, 0] 2 ∧ prologue exKF exHz exψ1 = .ok (s0, nrm) ∧ DInv exHz [0, 0] s0 0 E0 ∧
    (∀ j, j < 0 → SqL [0, 0] s0 j) ∧ (∀ j, 0 < j → j < exHz.A.length → SqR [0, 0] s0 j) ∧
    MidFull exKF exHz 2 s0 0 ∧
    minimizeLocalEnergy exKF (getBL s0 0) (getBR s0 0) (exHz.A.getD 0 zeroT4) (getA s0 0) 2 = .ok (en, Aopt) ∧
    DenseLower exHz 2 (-1) ∧ DenseEig exHz 2 (-1) exGround ∧
    ∑ σ ∈ digitsU 2 exHz.A.length, star (exGround σ) * (cur [0, 0] s0).amp σ ≠ 0 ∧
    CentreHit exKF exHz [0, 0] 2 (-1) s0 0 ∧ en = -1 :=
  exz_dmrg

/-- the conclusion of `dmrg_centre_step_exact` for this instance: the optimised state is a normalised eigenvector of the dense
operator for the eigenvalue `-1` -/
example : ∃ (s0 : Sweep ℂ) (Aopt : T3 ℂ),
    DInv exHz [0, 0] (setA s0 0 Aopt) 0 (-1) ∧ DenseEig exHz 2 (-1) (cur [0, 0] (setA s0 0 Aopt)).amp := by
  obtain ⟨s0, nrm, E0, en, Aopt, ctx, _, hinv, hL, hR, hmid, hm, _, _, _, _, hen⟩ := exz_dmrg
  obtain ⟨h1, _, h3, _, _⟩ := dmrg_centre_step_exact ctx hinv hL hR hm hmid
  rw [hen] at h1 h3
  exact ⟨s0, Aopt, h1, h3⟩

/-- **ALL hypotheses of `dmrg1_ground_exact_any` (hence of `dmrg1_sweep_ground_exact_any`) hold jointly for actual calls with
`L = 2` sites** (degenerate: physical dimension one; `exHd` has the dense operator `(1)`, `exψd` the amplitude `1`), every number
of sweeps `≥ 1`, one Lanczos iteration (= the local dimension): context, admissibility, the call returns, `λ₀ = 1` is a lower
bound, the first local optimisation of the first sweep is a hit — and the conclusion: every reported energy is `1` -/
example (numsweeps : Nat) (hns : 1 ≤ numsweeps) : ∃ (ψ' : MPS ℂ) (en : List ℝ),
    SweepCtx exKF exHd exψd.qd 1 ∧ 2 ≤ exHd.A.length ∧ Admissible exψd ∧
    dmrgSinglesite exKF exHd exψd numsweeps 1 = .ok (ψ', en) ∧ DenseLower exHd exψd.qd.length 1 ∧
    (∀ s0 nrm sj esj, prologue exKF exHd exψd = .ok (s0, nrm) →
      iterate (dmrg1Sweep exKF exHd exψd.qd 1) 0 (s0, []) = .ok (sj, esj) → SweepHit exKF exHd exψd.qd 1 1 sj) ∧
    (∀ e ∈ en, e = 1) := by
  obtain ⟨ψ', en, h⟩ := exd_total (numiter := 1) (le_refl 1) numsweeps
  have hhit : ∀ s0 nrm sj esj, prologue exKF exHd exψd = .ok (s0, nrm) →
      iterate (dmrg1Sweep exKF exHd exψd.qd 1) 0 (s0, []) = .ok (sj, esj) → SweepHit exKF exHd exψd.qd 1 1 sj := by
    intro s0 nrm sj esj hp hit
    unfold iterate at hit
    injection hit with hit
    have : s0 = sj := (Prod.mk.inj hit).1
    subst this
    exact exd_hit hp
  refine ⟨ψ', en, exKFd_ctx 1, by decide, exψd_adm, h, exHd_lower, hhit, ?_⟩
  obtain ⟨hall, _⟩ := dmrg1_ground_exact_any (exKFd_ctx 1) (by decide) exψd_adm h exHd_lower (j := 0) (by omega) hhit
  intro e he
  obtain ⟨i, hi, rfl⟩ := List.getElem_of_mem he
  exact hall i hi (Nat.zero_le i)

end Ptn.C10

import PtnModel.Props.C15
import PtnModel.Proofs.KryExpArnoldi
/-!
# C15 — the cap on the number of Krylov iterations (F11)

`lanczos_iteration` / `arnoldi_iteration` start with `numiter = min(numiter, len(vstart))` (repair F11 of
`pytenet/krylov.py`, mirrored in `Ptn.Krylov.lanczosCore` / `arnoldiCore`).  `eigh_krylov` and `expm_krylov` only use
the arrays the iteration returns, hence

* `eigh_krylov_capped`, `expm_krylov_capped`: the call with `numiter` iterations *is* the call with
  `min numiter (len v)` iterations (every scalar type, every oracle, both branches, error values included);
* `eighAt_capped`, `exhausted_capped`, `exhaustedA_capped`: the per-call hypotheses of the C15 theorems
  (`EighAt`, `Exhausted`, `ExhaustedA`), being stated through `lanczos … numiter = .ok …`, are the same propositions for
  `numiter` and for the capped count — all theorems of `Props/C15*.lean` hold verbatim for `numiter > len v`;
* `eigh_krylov_le_dim`: never more than `len v` Ritz pairs are returned.
-/
set_option linter.unusedSectionVars false

namespace Ptn.C15
open Ptn Ptn.Krylov

section generic
variable {α ρ : Type} [OfNat α 0] [Add α] [Mul α] [Sub α] [Div α] [HasConj α] [RealLike ρ α]
  [OfNat ρ 0] [NatCast ρ] [Div ρ] [LT ρ] [DecidableLT ρ]

/-- **F11 for `eigh_krylov`**: the iteration count is capped at the dimension of the vector space -/
theorem eigh_krylov_capped (Afun : List α → List α) (dnorm : List α → ρ) (deigh : List ρ → List ρ → List ρ × Mat ρ)
    (vstart : List α) (numiter numeig : Nat) :
    eighKrylov Afun dnorm deigh vstart numiter numeig =
      eighKrylov Afun dnorm deigh vstart (min numiter vstart.length) numeig := by
  unfold eighKrylov
  rw [lanczos_capped' Afun dnorm vstart numiter]

/-- **F11 for `expm_krylov`** (both branches) -/
theorem expm_krylov_capped (Afun : List α → List α) (dnorm : List α → ρ) (deigh : List ρ → List ρ → List ρ × Mat ρ)
    (dexp : α → α) (dexpm : Mat α → Mat α) (v : List α) (dt : α) (numiter : Nat) (hermitian : Bool) :
    expmKrylov Afun dnorm deigh dexp dexpm v dt numiter hermitian =
      expmKrylov Afun dnorm deigh dexp dexpm v dt (min numiter v.length) hermitian := by
  unfold expmKrylov
  rw [lanczos_capped' Afun dnorm v numiter, arnoldi_capped' Afun dnorm v numiter]

end generic

variable {𝕜 : Type} [RCLike 𝕜]

/-- the eigen-solver contract at the run is the contract at the capped run -/
theorem eighAt_capped (Afun : List 𝕜 → List 𝕜) (dnorm : List 𝕜 → ℝ) (deigh : List ℝ → List ℝ → List ℝ × Mat ℝ)
    (vstart : List 𝕜) (numiter : Nat) :
    EighAt Afun dnorm deigh vstart numiter ↔ EighAt Afun dnorm deigh vstart (min numiter vstart.length) := by
  unfold EighAt
  rw [lanczos_capped' Afun dnorm vstart numiter]

theorem exhausted_capped (Afun : List 𝕜 → List 𝕜) (dnorm : List 𝕜 → ℝ) (vstart : List 𝕜) (numiter : Nat) :
    Exhausted Afun dnorm vstart numiter ↔ Exhausted Afun dnorm vstart (min numiter vstart.length) := by
  unfold Exhausted
  rw [lanczos_capped' Afun dnorm vstart numiter]

theorem exhaustedA_capped (Afun : List 𝕜 → List 𝕜) (dnorm : List 𝕜 → ℝ) (v : List 𝕜) (numiter : Nat) :
    ExhaustedA Afun dnorm v numiter ↔ ExhaustedA Afun dnorm v (min numiter v.length) := by
  unfold ExhaustedA
  rw [arnoldi_capped' Afun dnorm v numiter]

/-- **never more Ritz pairs than the dimension**: under the eigen-solver contract at the run, `eigh_krylov` returns at most
`len(vstart)` Ritz values and Ritz vectors, whatever `numiter` and `numeig` are -/
theorem eigh_krylov_le_dim {Afun : List 𝕜 → List 𝕜} {dnorm : List 𝕜 → ℝ} {deigh : List ℝ → List ℝ → List ℝ × Mat ℝ}
    {vstart : List 𝕜} {numiter numeig : Nat} (hE : EighAt Afun dnorm deigh vstart numiter)
    {ws : List ℝ} {u : Mat 𝕜} (h : eighKrylov Afun dnorm deigh vstart numiter numeig = .ok (ws, u)) :
    ws.length ≤ vstart.length ∧ u.n ≤ vstart.length ∧ ws.length ≤ numiter := by
  obtain ⟨alpha, beta, V, hl, _, rfl, rfl⟩ := eighKrylov_ok h
  have hS := hE alpha beta V hl
  have hle := (lanczos_le_length Afun dnorm hl).2
  have hsz := (lanczos_sizes Afun dnorm hl).2.1
  refine ⟨?_, ?_, ?_⟩
  · rw [List.length_take, hS.wlen]; omega
  · show min numeig (deigh alpha beta).2.n ≤ _
    rw [hS.Un]; omega
  · rw [List.length_take, hS.wlen]; omega

/-! ### non-vacuity -/

/-- the cap is effective on executable scalars: 25 iterations on a vector of length 2 are 2 iterations -/
example (deigh : List Rat → List Rat → List Rat × Mat Rat) (numeig : Nat) :
    eighKrylov (α := Rat) (ρ := Rat) (matvec ⟨2, 2, fun i k => if i = k then 2 else 1⟩) (fun _ => 1) deigh [1, 0] 25 numeig =
      eighKrylov (matvec ⟨2, 2, fun i k => if i = k then 2 else 1⟩) (fun _ => 1) deigh [1, 0] 2 numeig :=
  eigh_krylov_capped _ _ _ _ 25 numeig

end Ptn.C15

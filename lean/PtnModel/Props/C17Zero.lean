import PtnModel.Props.C17Total
/-!
# Property C17 on automata without a path: the negative statement (known finding F14, C17 part)

`automaton_no_path_raises`: when the automaton admits no active path of the requested length between its terminals (the sum
over all paths is the empty sum, i.e. the zero operator), `OpGraph.from_automaton` does not return (the Python raises a bare
`AssertionError`).  Corollary of `C17.automaton_returns_iff`.
-/
set_option linter.unusedSectionVars false
namespace Ptn.C17
open Ptn Ptn.Og

variable {κ : Type} [CommRing κ] [DecidableEq κ]

theorem automaton_no_path_raises {a : AutOp κ} (hwf : AutWellFormed a) (L : Int) (hno : ¬ AutActive a L.toNat) :
    ¬ ∃ g, fromAutomaton a L = .ok g := by
  rw [automaton_returns_iff hwf L]
  exact fun h => hno h.2

end Ptn.C17

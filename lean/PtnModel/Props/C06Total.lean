import PtnModel.Props.C06Dense
import PtnModel.Props.C05Total
import PtnModel.Proofs.TotalLattice
import PtnModel.Proofs.TotalFermi
import PtnModel.Proofs.TotalIsing
import PtnModel.Props.C06Fermi
/-!
# Property C06, totality: the lattice-model constructors return

`Props/C06.lean`, `C06Dense.lean` describe the MPO of each constructor *whenever the constructor returns*.  Here the modelled
constructors are shown to return -- no exception, no failing assertion (in particular not `from_opchains`' assertion on the single
trailing half-chain, not `is_consistent`, and not the final `is_qsparse` assertion of `MPO.from_opgraph`), no exhaustion of model
fuel -- for every `L ≥ 1` and all parameters that do not make the chain list vanish, and the headline statements are restated
without the hypothesis "the constructor returns".

The exact condition.  `OpGraph.from_opchains` drops chains with coefficient `0` and fails (`assert len(vlist_next) == 1`) when
nothing is left.  A template of `k` sites contributes chains only if `k ≤ L`.  Hence `_local_opchains_to_mpo` returns iff some
template with non-zero coefficient fits on the lattice (`lattice_returns_iff`); spelled out per model (`L ≥ 1`):
* XXZ, spin-1/2 and spin-1:  `h ≠ 0 ∨ (2 ≤ L ∧ (0.5·J ≠ 0 ∨ D ≠ 0))`   (on one site only the field term exists);
* Bose-Hubbard (`d ≥ 1`), Fermi-Hubbard:  `μ ≠ 0 ∨ U ≠ 0 ∨ (2 ≤ L ∧ t ≠ 0)`.
(`0.5·J` is the coefficient the code computes; over a field of characteristic `≠ 2` it is non-zero iff `J` is.)

Ingredients: `*_chains_wf` / `ChainsWF` + `C05.from_opchains_ok` (graph construction succeeds), `C05.from_opchains_ops_charged`
(the graph inherits the charge consistency of the tables, `*_tables_charged`), `C05.from_opgraph_total` (`from_opgraph` returns).
-/
set_option linter.unusedSectionVars false

namespace Ptn.C06
open Ptn Ptn.Og Ptn.Ham Ptn.Ch Ptn.Ham2

variable {κ : Type} [CommRing κ] [DecidableEq κ]

/-- **`_local_opchains_to_mpo` returns exactly when some template with non-zero coefficient fits.**  For well-formed templates,
charge-consistent `d × d` tables (`LatticeCharged`), `d ≥ 1` and `L ≥ 1`. -/
theorem lattice_returns_iff (lat : Ham.Lattice κ) (L : Int) (htw : ∀ t ∈ lat.lopchains, TemplateWF t)
    (hch : LatticeCharged lat) (hd : 1 ≤ lat.qd.length) (hL : 1 ≤ L) :
    (∃ b, localOpchainsToMpo lat L = .ok b) ↔ ∃ t ∈ lat.lopchains, t.coeff ≠ 0 ∧ (t.oids.length : Int) ≤ L :=
  ⟨fun ⟨b, hb⟩ => lattice_returns_only_if lat L htw hL b hb, fun h => lattice_returns lat L htw hch hd hL h⟩

/-- **Chain-template models, generic, unconditional.**  Under the hypotheses of `lattice_returns_iff` and the non-vanishing
condition the constructor returns an MPO with `L` sites whose dense matrix is the sum over all translated templates of
`coeff · (identities ⊗ template operators ⊗ identities)`, and all of whose tensors are block sparse. -/
theorem lattice_dense_total (lat : Ham.Lattice κ) (L : Int) (htw : ∀ t ∈ lat.lopchains, TemplateWF t)
    (hch : LatticeCharged lat) (hd : 1 ≤ lat.qd.length) (hL : 1 ≤ L)
    (hnz : ∃ t ∈ lat.lopchains, t.coeff ≠ 0 ∧ (t.oids.length : Int) ≤ L) :
    ∃ b, localOpchainsToMpo lat L = .ok b ∧ b.qd = lat.qd ∧ b.opmap = lat.opmap ∧
      MPO.DenseIs (b.mpo.toMPO lat.qd) lat.qd.length L.toNat
        (termsEntry lat.opmap (denChainsRaw (translateChains lat.lopchains L) L lat.oidIdentity)) ∧
      b.Sparse := by
  obtain ⟨b, hb⟩ := lattice_returns lat L htw hch hd hL hnz
  obtain ⟨h1, h2, h3⟩ := lattice_dense lat L b hb hL htw hch.square
  exact ⟨b, hb, h1, h2, h3, mpo_block_sparse.1 lat L b hb⟩

/-! ## XXZ spin-1/2 -/

/-- `heisenberg_xxz_mpo(L, J, D, h)` returns for every `L ≥ 1` iff `h ≠ 0 ∨ (2 ≤ L ∧ (0.5·J ≠ 0 ∨ D ≠ 0))` -/
theorem xxz_returns (c : Consts κ) (J D h : κ) (L : Int) (hL : 1 ≤ L) :
    (∃ lat b, xxzLattice c J D h = .ok lat ∧ localOpchainsToMpo lat L = .ok b) ↔
      (h ≠ 0 ∨ (2 ≤ L ∧ (c.half * J ≠ 0 ∨ D ≠ 0))) := by
  rw [← xxz_nz c J D h L hL]
  have := lattice_returns_iff (⟨[1, -1], xxzOpmap c, xxzTemplates c J D h, 0⟩ : Ham.Lattice κ) L
    (xxz_templates c J D h) (xxz_charged c J D h) (by simp) hL
  rw [← this]
  constructor
  · rintro ⟨lat, b, h1, h2⟩
    rw [xxzLattice_eq] at h1
    cases h1
    exact ⟨b, h2⟩
  · rintro ⟨b, hb⟩
    exact ⟨_, b, xxzLattice_eq c J D h, hb⟩

/-- **`heisenberg_xxz_mpo`, unconditional.**  For every `L ≥ 1` and all parameters with `h ≠ 0 ∨ (2 ≤ L ∧ (0.5·J ≠ 0 ∨ D ≠ 0))` the
constructor returns an MPO with `L` sites whose dense matrix is `Σ_i J/2 S⁺_i S⁻_{i+1} + J/2 S⁻_i S⁺_{i+1} + D Sᶻ_i Sᶻ_{i+1} - h Sᶻ_i`;
it is Hermitian for real parameters (`elem s t = σ (elem t s)` for every ring endomorphism `σ` fixing `0.5, J, D, h`), and every
tensor is block sparse under `qd = [1, -1]`. -/
theorem xxz_dense_total (c : Consts κ) (J D h : κ) (L : Int) (hL : 1 ≤ L)
    (hnz : h ≠ 0 ∨ (2 ≤ L ∧ (c.half * J ≠ 0 ∨ D ≠ 0))) :
    ∃ b, localOpchainsToMpo (⟨[1, -1], xxzOpmap c, xxzTemplates c J D h, 0⟩ : Ham.Lattice κ) L = .ok b ∧
      MPO.DenseIs (b.mpo.toMPO [1, -1]) 2 L.toNat (termsEntry (xxzOpmap c)
        (((pyRange 0 (L - 1)).map fun i => (pyRepeat i 0 ++ [1, -1] ++ pyRepeat (L - 2 - i) 0, c.half * J)) ++
         ((pyRange 0 (L - 1)).map fun i => (pyRepeat i 0 ++ [-1, 1] ++ pyRepeat (L - 2 - i) 0, c.half * J)) ++
         ((pyRange 0 (L - 1)).map fun i => (pyRepeat i 0 ++ [2, 2] ++ pyRepeat (L - 2 - i) 0, D)) ++
         ((pyRange 0 L).map fun i => (pyRepeat i 0 ++ [2] ++ pyRepeat (L - 1 - i) 0, -h)))) ∧
      b.Sparse ∧
      ∀ σ : κ →+* κ, σ c.half = c.half → σ J = J → σ D = D → σ h = h →
        ∀ s t : List Nat, Digits 2 L.toNat s → Digits 2 L.toNat t →
          (b.mpo.toMPO [1, -1]).elem s t = σ ((b.mpo.toMPO [1, -1]).elem t s) := by
  obtain ⟨b, hb⟩ := lattice_returns _ L (xxz_templates c J D h) (xxz_charged c J D h) (by simp) hL
    ((xxz_nz c J D h L hL).2 hnz)
  exact ⟨b, hb, xxz_dense c J D h L b hb hL, mpo_block_sparse.1 _ L b hb,
    fun σ h5 hJ hD hh s t hs ht => xxz_dense_hermitian c J D h σ h5 hJ hD hh L b hb hL s t hs ht⟩

/-- non-vacuity: on one site only the field term exists -- the constructor returns for `h = 3` whatever `J`, `D`, and does not
return (the condition fails) for `h = 0`; on two sites `D = 1` suffices -/
example (c : Consts Int) :
    ((3 : Int) ≠ 0 ∨ (2 ≤ (1 : Int) ∧ (c.half * 2 ≠ 0 ∨ (5 : Int) ≠ 0))) ∧
    ¬ ((0 : Int) ≠ 0 ∨ (2 ≤ (1 : Int) ∧ (c.half * 2 ≠ 0 ∨ (5 : Int) ≠ 0))) ∧
    ((0 : Int) ≠ 0 ∨ (2 ≤ (2 : Int) ∧ (c.half * 0 ≠ 0 ∨ (1 : Int) ≠ 0))) := by
  refine ⟨Or.inl (by decide), ?_, Or.inr ⟨by decide, Or.inr (by decide)⟩⟩
  rintro (h | ⟨h, _⟩)
  · exact h rfl
  · omega

/-! ## XXZ spin-1 -/

/-- `heisenberg_xxz_spin1_mpo(L, J, D, h)` returns for every `L ≥ 1` iff `h ≠ 0 ∨ (2 ≤ L ∧ (0.5·J ≠ 0 ∨ D ≠ 0))` -/
theorem xxz1_returns (c : Consts κ) (J D h : κ) (L : Int) (hL : 1 ≤ L) :
    (∃ lat b, xxz1Lattice c J D h = .ok lat ∧ localOpchainsToMpo lat L = .ok b) ↔
      (h ≠ 0 ∨ (2 ≤ L ∧ (c.half * J ≠ 0 ∨ D ≠ 0))) := by
  rw [← xxz1_nz c J D h L hL]
  have := lattice_returns_iff (⟨[1, 0, -1], xxz1Opmap c, xxz1Templates c J D h, 0⟩ : Ham.Lattice κ) L
    (xxz1_templates c J D h) (xxz1_charged c J D h) (by simp) hL
  rw [← this]
  constructor
  · rintro ⟨lat, b, h1, h2⟩
    rw [xxz1Lattice_eq] at h1
    cases h1
    exact ⟨b, h2⟩
  · rintro ⟨b, hb⟩
    exact ⟨_, b, xxz1Lattice_eq c J D h, hb⟩

/-- **`heisenberg_xxz_spin1_mpo`, unconditional**: returns, dense matrix = the XXZ terms over the spin-1 tables, Hermitian for real
parameters (`σ` fixes `0.5, √2, J, D, h`), block sparse under `qd = [1, 0, -1]`. -/
theorem xxz1_dense_total (c : Consts κ) (J D h : κ) (L : Int) (hL : 1 ≤ L)
    (hnz : h ≠ 0 ∨ (2 ≤ L ∧ (c.half * J ≠ 0 ∨ D ≠ 0))) :
    ∃ b, localOpchainsToMpo (⟨[1, 0, -1], xxz1Opmap c, xxz1Templates c J D h, 0⟩ : Ham.Lattice κ) L = .ok b ∧
      MPO.DenseIs (b.mpo.toMPO [1, 0, -1]) 3 L.toNat (termsEntry (xxz1Opmap c)
        (((pyRange 0 (L - 1)).map fun i => (pyRepeat i 0 ++ [1, -1] ++ pyRepeat (L - 2 - i) 0, c.half * J)) ++
         ((pyRange 0 (L - 1)).map fun i => (pyRepeat i 0 ++ [-1, 1] ++ pyRepeat (L - 2 - i) 0, c.half * J)) ++
         ((pyRange 0 (L - 1)).map fun i => (pyRepeat i 0 ++ [2, 2] ++ pyRepeat (L - 2 - i) 0, D)) ++
         ((pyRange 0 L).map fun i => (pyRepeat i 0 ++ [2] ++ pyRepeat (L - 1 - i) 0, -h)))) ∧
      b.Sparse ∧
      ∀ σ : κ →+* κ, σ c.half = c.half → σ (c.sq 2) = c.sq 2 → σ J = J → σ D = D → σ h = h →
        ∀ s t : List Nat, Digits 3 L.toNat s → Digits 3 L.toNat t →
          (b.mpo.toMPO [1, 0, -1]).elem s t = σ ((b.mpo.toMPO [1, 0, -1]).elem t s) := by
  obtain ⟨b, hb⟩ := lattice_returns _ L (xxz1_templates c J D h) (xxz1_charged c J D h) (by simp) hL
    ((xxz1_nz c J D h L hL).2 hnz)
  exact ⟨b, hb, xxz1_dense c J D h L b hb hL, mpo_block_sparse.1 _ L b hb,
    fun σ h5 h2 hJ hD hh s t hs ht => xxz1_dense_hermitian c J D h σ h5 h2 hJ hD hh L b hb hL s t hs ht⟩

/-! ## Bose-Hubbard -/

/-- `bose_hubbard_mpo(d, L, t, U, mu)` returns for every `d ≥ 1`, `L ≥ 1` iff `μ ≠ 0 ∨ U ≠ 0 ∨ (2 ≤ L ∧ t ≠ 0)` -/
theorem bose_returns (c : Consts κ) (d : Nat) (hd : 1 ≤ d) (t U mu : κ) (L : Int) (hL : 1 ≤ L) :
    (∃ lat b, boseLattice c d t U mu = .ok lat ∧ localOpchainsToMpo lat L = .ok b) ↔
      (mu ≠ 0 ∨ U ≠ 0 ∨ (2 ≤ L ∧ t ≠ 0)) := by
  rw [← bose_nz t U mu L hL]
  have := lattice_returns_iff (⟨boseQd d, boseOpmap c d, boseTemplates t U mu, 0⟩ : Ham.Lattice κ) L
    (bose_templates t U mu) (bose_charged c d t U mu) (by simpa [boseQd] using hd) hL
  rw [← this]
  constructor
  · rintro ⟨lat, b, h1, h2⟩
    rw [boseLattice_eq] at h1
    cases h1
    exact ⟨b, h2⟩
  · rintro ⟨b, hb⟩
    exact ⟨_, b, boseLattice_eq c d t U mu, hb⟩

/-- **`bose_hubbard_mpo`, unconditional**, every local dimension `d ≥ 1`: returns, dense matrix =
`Σ_i -t b†_i b_{i+1} - t b_i b†_{i+1} - μ n_i + U n_i (n_i - 1)/2`, Hermitian for real parameters (`σ` fixes all `√n`, `t`, `U`, `μ`),
block sparse under `qd = [0, 1, …, d-1]`. -/
theorem bose_dense_total (c : Consts κ) (d : Nat) (hd : 1 ≤ d) (t' U mu : κ) (L : Int) (hL : 1 ≤ L)
    (hnz : mu ≠ 0 ∨ U ≠ 0 ∨ (2 ≤ L ∧ t' ≠ 0)) :
    ∃ b, localOpchainsToMpo (⟨boseQd d, boseOpmap c d, boseTemplates t' U mu, 0⟩ : Ham.Lattice κ) L = .ok b ∧
      MPO.DenseIs (b.mpo.toMPO (boseQd d)) d L.toNat (termsEntry (boseOpmap c d)
        (((pyRange 0 (L - 1)).map fun i => (pyRepeat i 0 ++ [1, -1] ++ pyRepeat (L - 2 - i) 0, -t')) ++
         ((pyRange 0 (L - 1)).map fun i => (pyRepeat i 0 ++ [-1, 1] ++ pyRepeat (L - 2 - i) 0, -t')) ++
         ((pyRange 0 L).map fun i => (pyRepeat i 0 ++ [2] ++ pyRepeat (L - 1 - i) 0, -mu)) ++
         ((pyRange 0 L).map fun i => (pyRepeat i 0 ++ [3] ++ pyRepeat (L - 1 - i) 0, U)))) ∧
      b.Sparse ∧
      ∀ σ : κ →+* κ, (∀ n, σ (c.sq n) = c.sq n) → σ t' = t' → σ U = U → σ mu = mu →
        ∀ s t : List Nat, Digits d L.toNat s → Digits d L.toNat t →
          (b.mpo.toMPO (boseQd d)).elem s t = σ ((b.mpo.toMPO (boseQd d)).elem t s) := by
  obtain ⟨b, hb⟩ := lattice_returns _ L (bose_templates t' U mu) (bose_charged c d t' U mu)
    (by simpa [boseQd] using hd) hL ((bose_nz t' U mu L hL).2 hnz)
  exact ⟨b, hb, bose_dense c d t' U mu L b hb hL, mpo_block_sparse.1 _ L b hb,
    fun σ hq ht' hU hmu s t hs ht => bose_dense_hermitian c d t' U mu σ hq ht' hU hmu L b hb hL s t hs ht⟩

/-! ## Fermi-Hubbard -/

/-- `fermi_hubbard_mpo(L, t, U, mu)` returns for every `L ≥ 1` iff `μ ≠ 0 ∨ U ≠ 0 ∨ (2 ≤ L ∧ t ≠ 0)` -/
theorem fermi_hubbard_returns (c : Consts κ) (t U mu : κ) (L : Int) (hL : 1 ≤ L) :
    (∃ lat b, fermiHubbardLattice c t U mu = .ok lat ∧ localOpchainsToMpo lat L = .ok b) ↔
      (mu ≠ 0 ∨ U ≠ 0 ∨ (2 ≤ L ∧ t ≠ 0)) := by
  rw [← fh_nz t U mu L hL]
  have := lattice_returns_iff (⟨spinQd, fermiHubbardOpmap c, fhTemplates t U mu, 0⟩ : Ham.Lattice κ) L
    (fh_templates t U mu) (fh_charged c t U mu) (by show 1 ≤ spinQd.length; decide) hL
  rw [← this]
  constructor
  · rintro ⟨lat, b, h1, h2⟩
    rw [fermiHubbardLattice_eq] at h1
    cases h1
    exact ⟨b, h2⟩
  · rintro ⟨b, hb⟩
    exact ⟨_, b, fermiHubbardLattice_eq c t U mu, hb⟩

/-- **`fermi_hubbard_mpo`, unconditional**: returns, dense matrix = the Jordan-Wigner hopping terms of either spin,
`-μ (n_up + n_dn)` and `U (n_up - 1/2)(n_dn - 1/2)`, Hermitian for real parameters (`σ` fixes `0.5, t, U, μ`), block sparse under
the particle-number / spin charges `(N << 16) + S`. -/
theorem fermi_hubbard_dense_total (c : Consts κ) (t' U mu : κ) (L : Int) (hL : 1 ≤ L)
    (hnz : mu ≠ 0 ∨ U ≠ 0 ∨ (2 ≤ L ∧ t' ≠ 0)) :
    ∃ b, localOpchainsToMpo (⟨spinQd, fermiHubbardOpmap c, fhTemplates t' U mu, 0⟩ : Ham.Lattice κ) L = .ok b ∧
      MPO.DenseIs (b.mpo.toMPO spinQd) 4 L.toNat (termsEntry (fermiHubbardOpmap c)
        (((pyRange 0 (L - 1)).map fun i => (pyRepeat i 0 ++ [3, 2] ++ pyRepeat (L - 2 - i) 0, -t')) ++
         ((pyRange 0 (L - 1)).map fun i => (pyRepeat i 0 ++ [4, 1] ++ pyRepeat (L - 2 - i) 0, -t')) ++
         ((pyRange 0 (L - 1)).map fun i => (pyRepeat i 0 ++ [5, 8] ++ pyRepeat (L - 2 - i) 0, -t')) ++
         ((pyRange 0 (L - 1)).map fun i => (pyRepeat i 0 ++ [6, 7] ++ pyRepeat (L - 2 - i) 0, -t')) ++
         ((pyRange 0 L).map fun i => (pyRepeat i 0 ++ [9] ++ pyRepeat (L - 1 - i) 0, -mu)) ++
         ((pyRange 0 L).map fun i => (pyRepeat i 0 ++ [10] ++ pyRepeat (L - 1 - i) 0, U)))) ∧
      b.Sparse ∧
      ∀ σ : κ →+* κ, σ c.half = c.half → σ t' = t' → σ U = U → σ mu = mu →
        ∀ s t : List Nat, Digits 4 L.toNat s → Digits 4 L.toNat t →
          (b.mpo.toMPO spinQd).elem s t = σ ((b.mpo.toMPO spinQd).elem t s) := by
  obtain ⟨b, hb⟩ := lattice_returns _ L (fh_templates t' U mu) (fh_charged c t' U mu) (by show 1 ≤ spinQd.length; decide) hL
    ((fh_nz t' U mu L hL).2 hnz)
  exact ⟨b, hb, fermi_hubbard_dense c t' U mu L b hb hL, mpo_block_sparse.1 _ L b hb,
    fun σ h5 ht' hU hmu s t hs ht => fermi_hubbard_dense_hermitian c t' U mu σ h5 ht' hU hmu L b hb hL s t hs ht⟩

/-- non-vacuity of the Bose- and Fermi-Hubbard conditions: pure hopping needs two sites -/
example : ((0 : Int) ≠ 0 ∨ (0 : Int) ≠ 0 ∨ (2 ≤ (2 : Int) ∧ (1 : Int) ≠ 0)) ∧
    ¬ ((0 : Int) ≠ 0 ∨ (0 : Int) ≠ 0 ∨ (2 ≤ (1 : Int) ∧ (1 : Int) ≠ 0)) := by decide

/-! ## Ising -/

/-- **`ising_mpo(L, J, h, g)` returns iff `L ≥ 1`** -- for all parameters, zeros included: the three-state automaton has the same
edges whatever the coefficients, it admits an active path of every length `L ≥ 1` between its terminals (`C17.automaton_returns_iff`
with `AutActive`, proved here for every `L` from the explicit layers `[0] / [0,1,2] … [0,1,2] / [1]`), and all charges vanish, so the
`is_qsparse` assertion of `from_opgraph` holds trivially.  For `L < 1` `from_automaton` raises `ValueError`. -/
theorem ising_returns (L : Int) (J h g : κ) : (∃ b, isingBuild L J h g = .ok b) ↔ 1 ≤ L :=
  ⟨fun ⟨b, hb⟩ => (ising_dense L J h g b hb).1, fun hL => isingBuild_total L hL J h g⟩

/-- **`ising_mpo`, unconditional**: for every `L ≥ 1` and all `J, h, g` the constructor returns an MPO with `L` sites whose dense matrix is
`Σ_i J Z_i Z_{i+1} + h Z_i + g X_i`; it is Hermitian for real parameters and block sparse (trivially: all charges are `0`). -/
theorem ising_dense_total (L : Int) (hL : 1 ≤ L) (J h g : κ) :
    ∃ b, isingBuild L J h g = .ok b ∧
      MPO.DenseIs (b.mpo.toMPO isingQd) 2 L.toNat (termsEntry isingOpmap (isingTerms J h g L.toNat)) ∧
      b.Sparse ∧
      ∀ σ : κ →+* κ, σ J = J → σ h = h → σ g = g →
        ∀ s t : List Nat, Digits 2 L.toNat s → Digits 2 L.toNat t →
          (b.mpo.toMPO isingQd).elem s t = σ ((b.mpo.toMPO isingQd).elem t s) := by
  obtain ⟨b, hb⟩ := isingBuild_total L hL J h g
  exact ⟨b, hb, (ising_dense L J h g b hb).2, mpo_block_sparse.2.1 L J h g b hb,
    fun σ hJ hh hg s t hs ht => ising_dense_hermitian L J h g σ hJ hh hg b hb s t hs ht⟩

/-- non-vacuity: the all-zero Ising model on three sites is admissible and the constructor returns -/
example : (1 : Int) ≤ 3 ∧ (isingBuild 3 (0 : Int) 0 0).isOk = true := by
  constructor <;> decide

/-! ## `linear_fermionic_mpo` -/

/-- **`linear_fermionic_mpo(coeff, ftype)` returns for every non-empty coefficient vector** -- all coefficients, zero vectors
included (the hand-built graph does not depend on which coefficients vanish), both operator types; for the empty vector it
raises `KeyError`.  The hand-built graph is charge consistent: identity and `Z` edges connect nodes of equal charge, the edge
carrying `a†_i` (`a_i`) leads from charge `0` to charge `+1` (`-1`). -/
theorem linear_fermionic_returns (coeff : List κ) (create : Bool) :
    (∃ b, linFermiBuild coeff create = .ok b) ↔ 1 ≤ coeff.length :=
  ⟨fun ⟨b, hb⟩ => (linear_fermionic_dense coeff create b hb).1, fun hn => linFermiBuild_total coeff create hn⟩

/-- **`linear_fermionic_mpo`, unconditional**: for every `L = len(coeff) ≥ 1` the constructor returns an MPO with `L` sites whose dense
matrix is `Σ_i coeff_i · I^{⊗ i} ⊗ (a†|a) ⊗ Z^{⊗ (L-1-i)}`; leading bond charge `0`, trailing bond charge `±1`, all tensors block
sparse, every non-zero matrix element shifts the particle number by `±1`.  (Not Hermitian, and not claimed to be.) -/
theorem linear_fermionic_dense_total (coeff : List κ) (create : Bool) (hn : 1 ≤ coeff.length) :
    ∃ b, linFermiBuild coeff create = .ok b ∧
      MPO.DenseIs (b.mpo.toMPO [0, 1]) 2 coeff.length
        (termsEntry linFermiOpmap ((List.range coeff.length).map fun i =>
          (List.replicate i 0 ++ (if create then 1 else -1) :: List.replicate (coeff.length - 1 - i) 2, coeff.getD i 0))) ∧
      b.mpo.qD.head? = some [0] ∧ b.mpo.qD.getLast? = some [if create then 1 else -1] ∧ b.Sparse ∧
      ∀ s t : List Nat, Digits 2 coeff.length s → Digits 2 coeff.length t → (b.mpo.toMPO [0, 1]).elem s t ≠ 0 →
        (s.map fun (x : Nat) => (x : Int)).sum - (t.map fun (x : Nat) => (x : Int)).sum = if create then 1 else -1 := by
  obtain ⟨b, hb⟩ := linFermiBuild_total coeff create hn
  obtain ⟨c1, c2, c3, c4⟩ := linear_fermionic_charges coeff create b hb
  exact ⟨b, hb, (linear_fermionic_dense coeff create b hb).2.2.2, c1, c2, c3, c4⟩

/-- non-vacuity: the all-zero coefficient vector of length 2 is admissible (`1 ≤ 2`), and the constructor indeed returns -/
example : 1 ≤ ([0, 0] : List Int).length ∧ (linFermiBuild ([0, 0] : List Int) true).isOk = true := by
  constructor <;> decide

end Ptn.C06

import PtnModel.Proofs.Evo2TotDmrg
import PtnModel.Props.C08Two
import PtnModel.Props.C08Total
/-!
# C08 — totality of two-site TDVP (the run returns), and the unconditional form of norm / energy conservation

`Props/C08Two.lean` proves norm and energy conservation of `integrate_local_twosite` at `tol_split = 0` *conditional on the
run returning `.ok`*.  Here the condition is removed, and totality is proved for **every split tolerance `0 ≤ tol < 1`**.

Model: `Ptn.Evo.integrateLocalTwosite` (`PtnModel/Model/Evolution.lean`), `Ptn.MPS.splitMpsTensor` (`Model/MPSSvd.lean`),
`Ptn.BondOps.splitMatrixSvd` / `retainedBondIndices` (`Model/BondOps.lean`, including the zero-matrix branch of finding F9).
Exception paths of the model and why they are excluded (the prologue and the one-site Krylov steps as in
`Props/C08Total.lean`):

* `assert L == psi.nsites`, `assert L >= 2`      — hypotheses `H.A.length = ψ.A.length`, `2 ≤ H.A.length`;
* prologue (`orthonormalize`, `compute_right_operator_blocks`, `assert is_qsparse(BR[i], …)`) — `Evo.prologue_ok`
  (needs the trailing MPO bond charge to be zero);
* `_local_hamiltonian_step` on the **merged** tensor: `lanczos_iteration`'s `assert nrmv > 0` — in a window `(i, i+1)` of a
  mixed-canonical state the merged pair has the Frobenius norm of the centre tensor (`Evo.mergedA_frob_L/R`), which is
  non-zero; `numiter ≥ 1`; the index errors of `expm_krylov` are excluded by the shape clauses of `C15.EighAt`;
* `split_mps_tensor`: `assert d0*d1 == A.shape[0]` — shape of the evolved tensor (`localStep_norm`);
  inside `split_matrix_svd`: the two length assertions and **`assert is_qsparse(A, [q0, -q1])`** — the merged state tensor
  and the merged MPO tensor are block sparse w.r.t. the fused physical charges (`Evo.mergePair_wf`, `Evo.mergePairW_sparse`),
  the two-site effective operator keeps the charge sector (`HistWf.localStep_sparse`), and the matricised two-site tensor
  is block sparse (`Evo.splitMat_sparse`); `assert D <= max_interm_dim` — shape clause of the SVD contract (`C12.split_ok`);
* `retained_bond_indices`: the normalisation `s / norm(s)` is guarded twice — `split_matrix_svd` takes its zero-matrix
  branch (F9: dummy bond of dimension one) when `not np.any(A)`, and `retained_bond_indices` returns early when
  `norm(s) == 0`.  **Neither guard is ever exercised on the two-site sweeps**: the evolved two-site tensor is not zero,
  because the local step is unitary for purely imaginary `dt` (`C08.local_step_unitary`) — the same reason as in
  `tdvp1_total`, no additional hypothesis is needed;
* `contraction_operator_step_left/right` after the split — the new pair keeps the window invariant `Canon2`
  (`C04.left_step_dense`, `Evo.right_step_dense`);
* the one-site backward step on `A[i+1]`: its start tensor is the factor of the split that carries the singular values; its
  squared norm is the kept weight `Σ_kept σ² ≥ (1 - tol)‖A_m‖² > 0` (`Evo.split_facts_tol`, from `Compress.SplitSem.wge`).
  **This is where `tol < 1` is needed**, and it is necessary: for `tol_split ≥ 1` every index is discarded, the new bond
  has dimension `0` and the next Lanczos run fails with `assert nrmv > 0` — observed on the real code
  (`tol_split ∈ {1.0, 1.5}`: `AssertionError`; `tol_split = 0.999999`: returns).  `0 ≤ tol` is the hypothesis of the
  truncation-rule theorems of C12 (for negative `tol` nothing is discarded either).

For `tol > 0` the truncation changes the norm of the state, so the sweep invariant of this proof is *positivity*, not
normalisation (`Evo.PInv`: mixed canonical, centre tensor non-zero, block sparse).

Hypotheses of `tdvp2_total` (all used): those of `tdvp1_total`, `Compress.SvdKernel k.svd` (`C12.SVDContract`,
`C12.NormContract`, `C12.SortContract`: `np.linalg.svd`, `np.linalg.norm`, `np.argsort` of `split_matrix_svd`), `L ≥ 2`,
`0 ≤ tol < 1`.  No hypothesis beyond the single-site theorem was forced other than these.
-/
set_option linter.unusedSectionVars false

namespace Ptn.C08
open Ptn Ptn.Krylov Ptn.Evo Ptn.BondOps Ptn.Ortho Ptn.Env Finset

variable {𝕜 : Type} [RCLike 𝕜] [DecidableEq 𝕜]

/-- **Totality of two-site TDVP.**  For a well-formed (block-sparse), shaped, dense-Hermitian MPO `H` compatible with the
admissible state `ψ` (`C02.EvoCompat`: same physical charges, leading MPO bond charge zero) whose trailing bond charge is
zero, `L ≥ 2`, `numiter ≥ 1`, any number of steps, a purely imaginary time step, **any split tolerance `0 ≤ tol < 1`**, under
the kernel contracts (`SweepCtx`: `C01.QRKernel`, `NormContract`, `C15.EighAt` at all Lanczos runs; `Compress.SvdKernel`:
SVD / norm / argsort contracts of `split_matrix_svd`; `|dexp(i x)| = 1`, real `half`):
`integrate_local_twosite(H, psi, dt, numsteps, numiter, tol_split)` returns — no assertion, value, index or shape error. -/
theorem tdvp2_total {k : EvoKernels 𝕜 ℝ} {H : MPO 𝕜} {ψ : MPS 𝕜} {numiter : Nat}
    (ctx : SweepCtx k H ψ.qd numiter) (hk : Compress.SvdKernel k.svd)
    (hexp : ∀ x : ℝ, ‖k.dexp (RCLike.I * (x : 𝕜))‖ = 1)
    {hh τ : ℝ} (hhalf : k.half = ((hh : ℝ) : 𝕜)) {dt : 𝕜} (hdt : dt = RCLike.I * ((τ : ℝ) : 𝕜)) (hm : 1 ≤ numiter)
    (hHwf : H.wellFormed = true) (hc : C02.EvoCompat H ψ) (hlast : (H.qD.getD H.A.length []).getD 0 0 = 0)
    (hadm : Admissible ψ) (hlen : H.A.length = ψ.A.length) (hL2 : 2 ≤ H.A.length) {tol : ℝ} (ht0 : 0 ≤ tol)
    (ht1 : tol < 1) (numsteps : Nat) :
    ∃ ψ' nrm, integrateLocalTwosite k H ψ dt numsteps numiter tol = .ok (ψ', nrm) :=
  tdvp2_ok ctx hk hexp hhalf hdt hm (HistWf.hOk_of_wf hHwf hc.1 hc.2) hlast hadm hlen hL2 ht0 ht1 numsteps

/-- **Two-site TDVP with zero split tolerance conserves norm and energy — unconditional form.**  Under the hypotheses of
`tdvp2_total` with `tol_split = 0` the call returns some `(ψ', nrm)` and `Σ_σ |ψ'[σ]|² = 1`,
`⟨ψ'|H|ψ'⟩ = ⟨ψ1|H|ψ1⟩` for the normalised input `ψ1` (`orthonormalize(ψ, 'right') = (ψ1, nrm)`),
`⟨ψ|H|ψ⟩ = nrm² ⟨ψ'|H|ψ'⟩`, `nrm ≥ 0`, `nrm² = Σ_σ |ψ[σ]|²`. -/
theorem tdvp2_norm_energy_total {k : EvoKernels 𝕜 ℝ} {H : MPO 𝕜} {ψ : MPS 𝕜} {numiter : Nat}
    (ctx : SweepCtx k H ψ.qd numiter) (hk : Compress.SvdKernel k.svd)
    (hexp : ∀ x : ℝ, ‖k.dexp (RCLike.I * (x : 𝕜))‖ = 1)
    {hh τ : ℝ} (hhalf : k.half = ((hh : ℝ) : 𝕜)) {dt : 𝕜} (hdt : dt = RCLike.I * ((τ : ℝ) : 𝕜)) (hm : 1 ≤ numiter)
    (hHwf : H.wellFormed = true) (hc : C02.EvoCompat H ψ) (hlast : (H.qD.getD H.A.length []).getD 0 0 = 0)
    (hadm : Admissible ψ) (hlen : H.A.length = ψ.A.length) (hL2 : 2 ≤ H.A.length) (numsteps : Nat) :
    ∃ ψ' nrm, integrateLocalTwosite k H ψ dt numsteps numiter (0 : ℝ) = .ok (ψ', nrm) ∧
      ∑ σ ∈ digitsU ψ.qd.length ψ'.A.length, ‖ψ'.amp σ‖ ^ 2 = 1 ∧
      0 ≤ nrm ∧ nrm ^ 2 = ∑ s ∈ digitsU ψ.qd.length ψ.A.length, ‖ψ.amp s‖ ^ 2 ∧
      ∃ ψ1, MPS.orthonormalize (ρ := ℝ) k.dqr ψ false = .ok (ψ1, nrm) ∧
        energy ψ' H ψ.qd.length = energy ψ1 H ψ.qd.length ∧
        energy ψ H ψ.qd.length = ((nrm ^ 2 : ℝ) : 𝕜) * energy ψ' H ψ.qd.length := by
  obtain ⟨ψ', nrm, h⟩ := tdvp2_total ctx hk hexp hhalf hdt hm hHwf hc hlast hadm hlen hL2 (le_refl 0) zero_lt_one numsteps
  obtain ⟨h1, h2⟩ := tdvp2_norm_energy ctx hk hexp hhalf hdt hadm h
  obtain ⟨_, h3, h4⟩ := tdvp2_returns_norm ctx.qr hadm h
  exact ⟨ψ', nrm, h, h1, h3, h4, h2⟩

/-- **One two-site update returns** (`twoSiteUpdate`: `merge_mps_tensor_pair`, `_local_hamiltonian_step` with the merged MPO
tensor, `split_mps_tensor`), in a window `(i, i+1)` of a mixed-canonical (`Canon2`), block-sparse (`HistWf.EvoSparse` with
valid blocks `BL[i]`, `BR[i+1]`) sweep state whose merged pair is not zero; time argument `-δ = i t`, `svd_distr ∈ {left,
right}`, `0 ≤ tol < 1`.  The new state keeps the window invariant and block sparsity; the factor without the singular
values is an isometry and the factor with the singular values is not zero. -/
theorem tdvp2_step_total {k : EvoKernels 𝕜 ℝ} {H : MPO 𝕜} {qd : List Int} {numiter : Nat}
    (ctx : SweepCtx k H qd numiter) (hk : Compress.SvdKernel k.svd)
    (hexp : ∀ x : ℝ, ‖k.dexp (RCLike.I * (x : 𝕜))‖ = 1) (hm : 1 ≤ numiter) (hH : HistWf.HOk H qd)
    {s : Sweep 𝕜} {i : Nat} (h : Canon2 H qd s i) (hsp : HistWf.EvoSparse H qd s i (i + 1))
    (hpos : 0 < frob3 (mergedA s i)) {δ : 𝕜} {t : ℝ} (hδ : -δ = RCLike.I * (t : 𝕜))
    {distr : Nat} (hdistr : distr ≤ 1) {tol : ℝ} (ht0 : 0 ≤ tol) (ht1 : tol < 1) :
    ∃ s', twoSiteUpdate k H qd δ numiter tol distr s i = .ok s' ∧ Canon2 H qd s' i ∧
      HistWf.EvoSparse H qd s' i (i + 1) ∧
      (distr = 1 → LeftIso (getA s' i) ∧ 0 < frob3 (getA s' (i + 1))) ∧
      (distr = 0 → RightIso (getA s' (i + 1)) ∧ 0 < frob3 (getA s' i)) := by
  obtain ⟨s', h1, h2, h3, h4, h5, _⟩ := twoSiteUpdate_ok ctx hk hexp hm hH h hsp (Nat.le_refl i) (Nat.le_refl _) hpos hδ
    hdistr ht0 ht1
  rw [Nat.min_self, Nat.max_self] at h3
  exact ⟨s', h1, h2, h3, h4, h5⟩

/-! ## non-vacuity

All hypotheses of `tdvp2_total` / `tdvp2_norm_energy_total` hold for the kernels `Evo.exK2` over `ℂ` (the kernels `exK` of
`Props/C08Total.lean` with the SVD kernels `Compress.exKernels ℂ`: a reduced SVD of every complex matrix from the spectral
theorem, the 2-norm, an insertion-sort `argsort`), one Lanczos iteration, the Hermitian block-sparse two-site MPO
`exOC = Z ⊗ 1 + 1 ⊗ Z` and the admissible two-site state `exψC = |01⟩ + i|10⟩`, `dt = i`; hence (by the theorems) the
driver-level run returns for EVERY number of time steps and every tolerance in `[0, 1)`. -/

example : SweepCtx exK2 exOC exψC.qd 1 ∧ Compress.SvdKernel exK2.svd ∧ (∀ x : ℝ, ‖exK2.dexp (RCLike.I * (x : ℂ))‖ = 1) ∧
    exK2.half = (((1 / 2 : ℝ) : ℝ) : ℂ) ∧ (Complex.I : ℂ) = RCLike.I * (((1 : ℝ) : ℝ) : ℂ) ∧ 1 ≤ 1 ∧
    exOC.wellFormed = true ∧ C02.EvoCompat exOC exψC ∧ (exOC.qD.getD exOC.A.length []).getD 0 0 = 0 ∧
    Admissible exψC ∧ exOC.A.length = exψC.A.length ∧ 2 ≤ exOC.A.length ∧ (0 : ℝ) ≤ 1 / 2 ∧ (1 / 2 : ℝ) < 1 :=
  ⟨exK2_ctx, exK2_svd, exK2_exp, rfl, by simp, le_refl 1, C02.exOC_wf, C02.exCompat, rfl, exψC_adm, rfl, by decide,
    by norm_num, by norm_num⟩

/-- an actual driver-level run with a genuine tolerance: every number of time steps -/
example (numsteps : Nat) : ∃ ψ' nrm, integrateLocalTwosite exK2 exOC exψC Complex.I numsteps 1 (1 / 2 : ℝ) = .ok (ψ', nrm) :=
  tdvp2_total (k := exK2) (H := exOC) (ψ := exψC) exK2_ctx exK2_svd exK2_exp (hh := 1 / 2) (τ := 1) rfl
    (dt := Complex.I) (by simp) (le_refl 1) C02.exOC_wf C02.exCompat rfl exψC_adm rfl (by decide) (by norm_num)
    (by norm_num) numsteps

/-- zero tolerance: the run returns a normalised state, the returned number is the norm of the input -/
example (numsteps : Nat) : ∃ ψ' nrm, integrateLocalTwosite exK2 exOC exψC Complex.I numsteps 1 (0 : ℝ) = .ok (ψ', nrm) ∧
    ∑ σ ∈ digitsU exψC.qd.length ψ'.A.length, ‖ψ'.amp σ‖ ^ 2 = 1 ∧ nrm ^ 2 = 2 := by
  obtain ⟨ψ', nrm, h, h1, _, h3, _⟩ := tdvp2_norm_energy_total (k := exK2) (H := exOC) (ψ := exψC) exK2_ctx exK2_svd
    exK2_exp (hh := 1 / 2) (τ := 1) rfl (dt := Complex.I) (by simp) (le_refl 1) C02.exOC_wf C02.exCompat rfl exψC_adm rfl
    (by decide) numsteps
  exact ⟨ψ', nrm, h, h1, by rw [h3, exψC_normsq]⟩

/-- hypotheses of `tdvp2_step_total` (other than the kernel contracts above): the sweep state returned by the prologue for
`exψC` satisfies the window invariant at `i = 0`, is block sparse with valid blocks `BL[0]`, `BR[1]`, and its merged pair is
not zero; `exOC` satisfies `HOk` -/
example : ∃ s : Sweep ℂ, Canon2 exOC exψC.qd s 0 ∧ HistWf.EvoSparse exOC exψC.qd s 0 (0 + 1) ∧
    0 < frob3 (mergedA s 0) ∧ HistWf.HOk exOC exψC.qd := by
  have hH := HistWf.hOk_of_wf C02.exOC_wf C02.exCompat.1 C02.exCompat.2
  obtain ⟨s0, nrm, E0, hp, hinv0⟩ := prologue_ok (k := exK2) (ψ := exψC) exK2_ctx hH rfl exψC_adm rfl
  have hw := (hinv0.toP exK2_ctx).toWL (by decide) exK2_ctx.hH
  exact ⟨s0, hw.can, hw.sp, hw.pos, hH⟩

end Ptn.C08

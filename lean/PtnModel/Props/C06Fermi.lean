import PtnModel.Props.C06Dense
import PtnModel.Proofs.Ham2FermiDense
/-!
# Property C06, `linear_fermionic_mpo`

"... `linear_fermionic_mpo(coeff, ftype)` represents `Σ_i coeff_i a†_i` or `Σ_i coeff_i a_i` ..."  pytenet's Jordan-Wigner convention
puts the `Z` string to the RIGHT of the fermionic operator: the operator is `Σ_i coeff_i · I^{⊗ i} ⊗ (C|A) ⊗ Z^{⊗ (L-1-i)}` with the
`2 × 2` tables `A = a_ann = [[0,1],[0,0]]` (id `-1`), `I` (id `0`), `C = a_dag = [[0,0],[1,0]]` (id `1`), `Z = diag(1,-1)` (id `2`).

The model `Ham.linFermiGraph coeff create` / `Ham.linFermiBuild coeff create` (Model/Hamiltonian.lean) takes the operator type as a
`Bool`: `create = (ftype in ['c', 'create', 'creation'])`, the only way the Python uses `ftype`; so `create = true` stands for the three
accepted spellings and `create = false` for every other string.  The model mirrors the Python statement by statement (two node
dictionaries, the `OpGraph` constructor, three `add_connect_edge` loops with a running edge id, `assert graph.is_consistent()`,
`MPO.from_opgraph`); `./check C06` compares the complete graph and MPO exactly for `L = 1..6`, both operator types.

* `linear_fermionic_graph`   -- for EVERY non-empty coefficient vector the graph construction returns (no look-up, no
  `add_connect_edge`, not the consistency assertion can fail); the graph is valid (`Og.Valid`, so `is_consistent()` holds), layered,
  has `L` layers of edges (`length = L`), and the end node is its only sink: the hypotheses of `C05.from_opgraph_elem`.
  For the empty vector the construction raises `KeyError` (`identity_l[0]`).
* `linear_fermionic_words`   -- the graph denotes, on words of every length, exactly `Σ_i coeff_i · I^i (C|A) Z^{L-1-i}`.
* `linear_fermionic_dense`   -- whenever `MPO.from_opgraph` returns (its final `is_qsparse` assertion is the only step not proved
  to succeed), the MPO has `L` sites of dimension 2 and `MPO.elem` / both `as_matrix()` paths give exactly
  `Σ_i coeff_i · Π_{k<i} I[s_k,t_k] · (C|A)[s_i,t_i] · Π_{k>i} Z[s_k,t_k]`.
* `linear_fermionic_charges` -- the leading bond charge is `0`, the trailing bond charge `+1` (creation) / `-1` (annihilation), all
  tensors are block sparse under `qd = [0, 1]`, and every non-zero matrix element changes the particle number `Σ_k s_k` by exactly
  that amount.
-/
set_option linter.unusedSectionVars false

namespace Ptn.C06
open Ptn Ptn.Og Ptn.Ham Ptn.Ch Ptn.Ham2

variable {κ : Type} [CommRing κ] [DecidableEq κ]

/-- the operator tables of `linear_fermionic_mpo`, spelled out -/
theorem linear_fermionic_tables :
    (linFermiOpmap : OpMap κ) = [(-1, [[0, 1], [0, 0]]), (0, [[1, 0], [0, 1]]), (1, [[0, 0], [1, 0]]), (2, [[1, 0], [0, -1]])] := rfl

/-- **The hand-built graph, every `L ≥ 1`, all coefficients, both operator types.**  The construction returns; the graph is valid
(passes `is_consistent()`), every edge goes from layer `ℓ` to layer `ℓ + 1` for the layer function `ℓ(x) = x` (identity node `x < L`),
`ℓ(x) = x - L + 1` (node of the `Z` string), it has length `L`, the end node is its only sink, the terminals are the nodes `0` and
`2L - 1`.  For the empty coefficient vector the Python raises `KeyError`. -/
theorem linear_fermionic_graph (coeff : List κ) (create : Bool) :
    (1 ≤ coeff.length → ∃ g, linFermiGraph coeff create = .ok g ∧ Valid g ∧ g.isConsistent = true ∧
      Lev g (fun x => if x < (coeff.length : Int) then x else x - coeff.length + 1) ∧
      g.length = .ok coeff.length ∧ SingleSink g ∧ g.nidTerminal = (0, 2 * (coeff.length : Int) - 1)) ∧
    (coeff.length = 0 → linFermiGraph coeff create = .error .key) := by
  constructor
  · intro hn
    refine ⟨lfGraph coeff create, linFermiGraph_ok coeff create hn, lfGraph_valid coeff create hn,
      (lfGraph_valid coeff create hn).isConsistent, lfGraph_lev coeff create hn, lfGraph_length coeff create hn,
      lfGraph_singleSink coeff create hn, ?_⟩
    rw [(lfGraph_facts coeff create hn).2.2.2.2.1]
    congr 1
    omega
  · intro h0
    have : coeff = [] := List.length_eq_zero_iff.1 h0
    subst this
    exact linFermiGraph_nil create

/-- **Words of `linear_fermionic_mpo`.**  Whenever the graph construction returns (it does for `L ≥ 1`), the coefficient of every word
`w` (one operator id per site, any length) in the operator denoted by the graph is
`Σ_{i<L} [w = I^i · op · Z^{L-1-i}] · coeff_i`, `op = C` (id 1) for creation and `A` (id -1) for annihilation: the `Z` string stands to
the right of the fermionic operator. -/
theorem linear_fermionic_words (coeff : List κ) (create : Bool) (g : Graph κ) (h : linFermiGraph coeff create = .ok g) (w : Word) :
    g.denF w = ((List.range coeff.length).map fun i =>
      if List.replicate i 0 ++ (if create then 1 else -1) :: List.replicate (coeff.length - 1 - i) 2 = w
        then coeff.getD i 0 else 0).sum := by
  have hn : 1 ≤ coeff.length := by
    cases coeff with
    | nil => rw [linFermiGraph_nil] at h; cases h
    | cons c cs => simp
  rw [linFermiGraph_ok coeff create hn] at h
  cases h
  rw [lfGraph_denF coeff create hn w, lfTerms, List.map_map]
  rfl

/-- **Dense matrix of `linear_fermionic_mpo`.**  Whenever the constructor returns, `L ≥ 1`, the MPO has `L` sites of dimension 2, is
shaped, and `MPO.elem s t` as well as the entries of both `as_matrix()` paths equal
`Σ_{i<L} coeff_i · Π_k opmap[word_i[k]][s_k][t_k]` with `word_i = I^i · (C|A) · Z^{L-1-i}` and the `2 × 2` tables of
`linear_fermionic_tables`. -/
theorem linear_fermionic_dense (coeff : List κ) (create : Bool) (b : Built κ) (hb : linFermiBuild coeff create = .ok b) :
    1 ≤ coeff.length ∧ b.qd = [0, 1] ∧ b.opmap = linFermiOpmap ∧
    MPO.DenseIs (b.mpo.toMPO [0, 1]) 2 coeff.length
      (termsEntry linFermiOpmap ((List.range coeff.length).map fun i =>
        (List.replicate i 0 ++ (if create then 1 else -1) :: List.replicate (coeff.length - 1 - i) 2, coeff.getD i 0))) := by
  obtain ⟨hn, h1, h2, _, _⟩ := linFermiBuild_spec coeff create b hb
  exact ⟨hn, h1, h2, linFermi_denseIs coeff create b hb⟩

/-- **Charges of `linear_fermionic_mpo`.**  Whenever the constructor returns: the leading bond carries charge `0` and the trailing
bond charge `+1` for creation, `-1` for annihilation; every tensor is block sparse under `qd = [0, 1]` and the bond charges
(`A[a, b, i, j] ≠ 0 → qd[a] - qd[b] + qD_l[i] - qD_{l+1}[j] = 0`); and every non-zero matrix element `⟨s| op |t⟩` between occupation
digit lists has `Σ_k s_k - Σ_k t_k = ±1`: the operator shifts the particle number by a fixed amount. -/
theorem linear_fermionic_charges (coeff : List κ) (create : Bool) (b : Built κ) (hb : linFermiBuild coeff create = .ok b) :
    b.mpo.qD.head? = some [0] ∧ b.mpo.qD.getLast? = some [if create then 1 else -1] ∧ b.Sparse ∧
    ∀ s t : List Nat, Digits 2 coeff.length s → Digits 2 coeff.length t → (b.mpo.toMPO [0, 1]).elem s t ≠ 0 →
      (s.map fun (x : Nat) => (x : Int)).sum - (t.map fun (x : Nat) => (x : Int)).sum = if create then 1 else -1 :=
  ⟨(linFermi_qD coeff create b hb).1, (linFermi_qD coeff create b hb).2, mpo_block_sparse.2.2 coeff create b hb,
    fun s t hs ht h => linFermi_shift coeff create b hb s t hs ht h⟩

/-! ## non-vacuity -/

/-- `linear_fermionic_mpo([2, 3, 5], 'c')` and `(..., 'a')` return; the bond charges are `[[0], [0, 1], [0, 1], [1]]` resp.
`[[0], [0, -1], [0, -1], [-1]]` -/
example : (linFermiBuild ([2, 3, 5] : List Int) true).toOption.map (fun b => b.mpo.qD) = some [[0], [0, 1], [0, 1], [1]] ∧
    (linFermiBuild ([2, 3, 5] : List Int) false).toOption.map (fun b => b.mpo.qD) = some [[0], [0, -1], [0, -1], [-1]] := by
  constructor <;> decide

/-- the words on three sites: `2 · C Z Z + 3 · I C Z + 5 · I I C`; `Z` to the right of the operator, not to the left -/
example : (linFermiGraph ([2, 3, 5] : List Int) true).toOption.map
      (fun g => (g.denF [1, 2, 2], g.denF [0, 1, 2], g.denF [0, 0, 1], g.denF [2, 1, 0], g.denF [1, 0, 0])) = some (2, 3, 5, 0, 0) := by
  decide

/-- a matrix element with a Jordan-Wigner sign: `⟨1 1| (2 a†_0 + 3 a†_1) |0 1⟩ = 2 · C[1,0] · Z[1,1] = -2`;
the particle number goes from 1 to 2 -/
example : (linFermiBuild ([2, 3] : List Int) true).toOption.map (fun b => (b.mpo.toMPO [0, 1]).elem [1, 1] [0, 1]) = some (-2) ∧
    Digits 2 2 [1, 1] ∧ Digits 2 2 [0, 1] := by
  refine ⟨by decide, by decide, by decide⟩

/-- the single-site case `L = 1`: the graph is the single edge `coeff_0 · (C|A)` -/
example : (linFermiGraph ([7] : List Int) false).toOption.map (fun g => (g.denF [-1], g.denF [1], g.length)) = some (7, 0, .ok 1) := by
  decide

end Ptn.C06

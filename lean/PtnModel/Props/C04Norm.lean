import PtnModel.Props.C04
import Mathlib.Algebra.Order.Ring.Defs
import Mathlib.Analysis.Real.Sqrt
import Mathlib.Data.Complex.Basic
import Mathlib.Data.Real.Star
/-!
# C04 (norm) — `norm(psi) = np.sqrt(vdot(psi, psi).real)`

`Props/C04.lean` (`norm_sq_dense`) characterises the radicand.  The wrapper itself is a float kernel call and is not in
`Model/Operation.lean`; it is *defined here* as `Ptn.C04.norm re dsqrt ψ`, with the real-part map `re : R → K` and the
square-root kernel `dsqrt : K → K` as parameters (kernel contracts are hypotheses of the theorem):

* `SqrtContract dsqrt` -- `0 ≤ dsqrt x` and `dsqrt x ^ 2 = x` for `0 ≤ x` (what `np.sqrt` does on non-negative reals, exactly);
* `re` additive with `0 ≤ re (conj x * x)` (`re = id` for real entries with trivial conjugation, `re = Complex.re` for
  complex entries: then `re (conj x * x) = |x|²`).

`norm_dense`: for a shaped MPS the wrapper returns (no exception) the non-negative number whose square is
`Σ_σ |ψ_σ|²` (`|x|² := re (conj x * x)`), i.e. `norm ψ = sqrt (Σ_σ |ψ_σ|²)`, and this number is unique.
-/
namespace Ptn.C04
open Ptn.Env Finset

variable {R : Type} [CommRing R] [StarRing R]
variable {K : Type} [CommRing K] [LinearOrder K] [IsStrictOrderedRing K]
attribute [local instance] starConj

/-- contract of the kernel `np.sqrt` on non-negative reals -/
structure SqrtContract (dsqrt : K → K) : Prop where
  nonneg : ∀ x, 0 ≤ x → 0 ≤ dsqrt x
  sq : ∀ x, 0 ≤ x → dsqrt x ^ 2 = x

/-- `norm(psi) = np.sqrt(vdot(psi, psi).real)` (wrapper defined in this file, on top of the model's `Op.vdot`) -/
def norm (re : R → K) (dsqrt : K → K) (ψ : MPS R) : Except Err K := do
  let v ← Op.vdot ψ ψ
  pure (dsqrt (re v))

/-- **Norm.**  For a shaped MPS, `norm(psi)` raises no exception and returns `dsqrt (re (Σ_σ conj(ψ_σ) ψ_σ))`; under the
contract of the square-root kernel this is the unique `r ≥ 0` with `r² = Σ_σ |ψ_σ|²`: the dense 2-norm. -/
theorem norm_dense {ψ : MPS R} {d : Nat} (hψ : MPS.Shaped ψ d) (re : R →+ K) (hre : ∀ x : R, 0 ≤ re (star x * x))
    {dsqrt : K → K} (hs : SqrtContract dsqrt) :
    ∃ r, norm re dsqrt ψ = .ok r ∧
      r = dsqrt (∑ s ∈ digitsU d ψ.A.length, re (star (ψ.amp s) * ψ.amp s)) ∧
      0 ≤ r ∧ r ^ 2 = ∑ s ∈ digitsU d ψ.A.length, re (star (ψ.amp s) * ψ.amp s) ∧
      ∀ r', 0 ≤ r' → r' ^ 2 = ∑ s ∈ digitsU d ψ.A.length, re (star (ψ.amp s) * ψ.amp s) → r' = r := by
  have hnn : 0 ≤ ∑ s ∈ digitsU d ψ.A.length, re (star (ψ.amp s) * ψ.amp s) :=
    Finset.sum_nonneg fun s _ => hre _
  refine ⟨_, ?_, rfl, hs.nonneg _ hnn, hs.sq _ hnn, ?_⟩
  · unfold norm
    rw [norm_sq_dense hψ]
    show Except.ok (dsqrt (re (∑ s ∈ digitsU d ψ.A.length, star (ψ.amp s) * ψ.amp s))) = _
    rw [map_sum]
  · intro r' h0 hsq
    have h1 := hs.nonneg _ hnn
    have h2 := hs.sq _ hnn
    exact (pow_left_inj₀ h0 h1 (by norm_num)).1 (hsq.trans h2.symm)

/-! ### non-vacuity -/

/-- `Real.sqrt` satisfies the contract -/
theorem sqrtContract_real : SqrtContract Real.sqrt :=
  ⟨fun x _ => Real.sqrt_nonneg x, fun _ hx => Real.sq_sqrt hx⟩

/-- the hypotheses on `re` hold for complex entries with `re = Complex.re` -/
example : ∀ x : ℂ, 0 ≤ Complex.reAddGroupHom (star x * x) := by
  intro x
  show 0 ≤ (star x * x).re
  have : (star x * x).re = x.re * x.re + x.im * x.im := by
    simp [Complex.mul_re]
  rw [this]
  nlinarith [mul_self_nonneg x.re, mul_self_nonneg x.im]

/-- a real MPS: the product state `(3,4) ⊗ (1,0)`, with dense 2-norm `5` -/
noncomputable def ψr : MPS ℝ := ⟨[0, 0], [[0], [0], [0]],
  [⟨2, 1, 1, fun s _ _ => if s = 0 then 3 else 4⟩, ⟨2, 1, 1, fun s _ _ => if s = 0 then 1 else 0⟩]⟩

example : MPS.Shaped ψr 2 ∧ norm (AddMonoidHom.id ℝ) Real.sqrt ψr = .ok 5 := by
  have hsh : MPS.Shaped ψr 2 := by decide
  refine ⟨hsh, ?_⟩
  obtain ⟨r, hr, _, h0, hsq, _⟩ := norm_dense hsh (AddMonoidHom.id ℝ) (fun x => by
    show 0 ≤ star x * x
    simp only [star_trivial]
    exact mul_self_nonneg x) sqrtContract_real
  rw [hr]
  congr 1
  have h25 : r ^ 2 = 25 := by
    rw [hsq]
    have hd : digitsU 2 ψr.A.length = {[0, 0], [0, 1], [1, 0], [1, 1]} := by decide
    rw [hd]
    simp [ψr, MPS.amp, MPS.ampRow, sumRange]
    norm_num
  nlinarith
end Ptn.C04

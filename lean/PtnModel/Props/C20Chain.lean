import PtnModel.Props.C20Layers
import PtnModel.Proofs.Ham2Chain
import PtnModel.Proofs.BridgeExamplesSpin
/-!
# C20 (chain bound) — bond dimension ≤ number of chains with non-zero coefficient

"For arbitrary chain lists the bond dimension at any cut never exceeds the number of chains with non-zero coefficient."

`Ptn.C20.chain_bound_partial` (Props/C20.lean) bounds the number of nodes every round of the sweep of `from_opchains` creates.
This file closes the gap between rounds and layers: round `k` of the sweep hands out a block of consecutive node ids; the *round
function* `ρ` (`ρ = 0` on the start node, `ρ = k + 1` on the block of round `k`) is a layering of the returned graph -- every edge
goes from level `ρ` to level `ρ + 1` (`Og.Lev`) -- so a node reachable from the start terminal by `k` edges has `ρ = k`
(`Ptn.C20.level_is_distance`), i.e. sits in layer `k`, the bond index of `MPO.from_opgraph`.

* `chain_bound`     -- whenever `from_opchains(chains, L, id)` returns `g` (no other hypothesis on the chains): there is a layering
  `ℓ` of `g` with `ℓ (start) = 0`, `0 ≤ ℓ ≤ L`, such that every duplicate-free list of node ids of one level `l ≥ 1` has at most
  `#{chains with non-zero coefficient}` elements; in particular the number of nodes of `g` on level `l` is bounded by it.
* `chain_bound_mpo` -- hence every bond of `MPO.from_opgraph(qd, g, opmap)` (one bond index per node of the layer,
  `C05.from_opgraph_qD`) has dimension at most the number of chains with non-zero coefficient: all of `qD`, including the two
  boundary bonds of dimension 1.

What is proved is the inequality the property asks for.  Not proved (and not needed): that *every* node of a round's block is
reachable from the start node, i.e. the equality `siteNodeCounts = (graphWidths g).tail` that `./check C20` validates per case (it
would need that a `V` vertex of the returned cover has a neighbour outside the `U` part of the cover, a minimality property of
`minimum_vertex_cover`).
-/
set_option linter.unusedSectionVars false

namespace Ptn.C20
open Ptn Ptn.Og Ptn.Ham Ptn.Ham2 List

variable {κ : Type} [CommRing κ] [DecidableEq κ]

/-- **Layer widths of the graph built by `from_opchains`.**  For every chain list, lattice size and identity id: if the call
returns `g`, then `g` is layered by a function `ℓ` that vanishes on the start terminal and takes values in `0 .. L`; for every level
`l ≥ 1`, every duplicate-free list of ids on that level -- in particular the list of nodes of `g` on that level, when the node
dictionary has no duplicate keys -- has at most as many elements as there are chains with non-zero coefficient. -/
theorem chain_bound (chains : List (OpChain κ)) (L id : Int) (g : Graph κ) (h : fromOpchains chains L id = .ok g) :
    ∃ ℓ : Int → Int, Lev g ℓ ∧ ℓ (g.term false) = 0 ∧ (∀ x, 0 ≤ ℓ x ∧ ℓ x ≤ L.toNat) ∧
      (∀ (S : List Int) (l : Int), S.Nodup → 1 ≤ l → (∀ x ∈ S, ℓ x = l) →
        S.length ≤ (chains.filter fun c => c.coeff != 0).length) ∧
      ((dKeys g.nodes).Nodup → ∀ l : Int, 1 ≤ l →
        ((dKeys g.nodes).filter fun x => ℓ x == l).length ≤ (chains.filter fun c => c.coeff != 0).length) := by
  obtain ⟨ρ, ht, h0, hle, hlev, hspan⟩ := fromOpchains_layered chains L id g h
  have hS : ∀ (S : List Int) (l : Int), S.Nodup → 1 ≤ l → (∀ x ∈ S, (ρ x : Int) = l) →
      S.length ≤ (chains.filter fun c => c.coeff != 0).length := by
    intro S l hn hl hx
    exact level_width hspan S hn l.toNat (by omega) (fun x hx' => by have := hx x hx'; omega)
  refine ⟨fun x => (ρ x : Int), ?_, ?_, fun x => ⟨by show (0 : Int) ≤ (ρ x : Int); omega,
    by show (ρ x : Int) ≤ (L.toNat : Int); have := hle x; omega⟩, hS, ?_⟩
  · intro e he
    have := hlev e he
    show (ρ e.nids.2 : Int) = (ρ e.nids.1 : Int) + 1
    omega
  · show (ρ (g.term false) : Int) = 0
    have : g.term false = 0 := by simp [Graph.term, ht]
    rw [this, h0]; rfl
  · intro hn l hl
    exact hS _ l (hn.filter _) hl (fun x hx => by simpa using (mem_filter.1 hx).2)

/-- **Bond dimensions of the compiled MPO.**  For every chain list: if `from_opchains` returns `g` and `MPO.from_opgraph` converts
it (any physical charges, operator map, with or without node map), every entry of `qD` -- one list of bond charges per cut, its
length is the bond dimension -- has at most as many elements as there are chains with non-zero coefficient. -/
theorem chain_bound_mpo (chains : List (OpChain κ)) (L id : Int) (g : Graph κ) (h : fromOpchains chains L id = .ok g)
    (qd : List Int) (opmap : OpMap κ) (on : Bool) (out : MpoOut κ) (ho : fromOpgraph qd g opmap on = .ok out) :
    ∀ q ∈ out.qD, q.length ≤ (chains.filter fun c => c.coeff != 0).length :=
  fromOpchains_bond_dims chains L id g h qd opmap on out ho

/-- the same for the MPO value: the bond dimensions `len(qD[k])` of `MpoOut.toMPO` -/
theorem chain_bound_mpo_value (chains : List (OpChain κ)) (L id : Int) (g : Graph κ) (h : fromOpchains chains L id = .ok g)
    (qd : List Int) (opmap : OpMap κ) (on : Bool) (out : MpoOut κ) (ho : fromOpgraph qd g opmap on = .ok out) :
    ∀ q ∈ (out.toMPO qd).qD, q.length ≤ (chains.filter fun c => c.coeff != 0).length :=
  chain_bound_mpo chains L id g h qd opmap on out ho

/-- non-vacuity: three chains, one of them with coefficient zero; `from_opchains` returns (`Ptn.Ch.ex_from3`), `from_opgraph`
converts the graph; the bound is 2 and the bond dimensions are `1, 1` -/
example : fromOpchains Ptn.Ch.exChains3 1 0 = .ok Ptn.Ch.exGraph3 ∧
    (Ptn.Ch.exChains3.filter fun c => c.coeff != 0).length = 2 ∧
    (fromOpgraph [0, 0] Ptn.Ch.exGraph3 [(14, [[1, 2], [3, 4]]), (3, [[0, 1], [1, 0]])] false).toOption.map
      (fun out => out.qD.map List.length) = some [1, 1] :=
  ⟨Ptn.Ch.ex_from3, by decide, by decide⟩

/-- non-vacuity of `chain_bound` on the same run: the node dictionary is duplicate free and level 1 holds the single end node -/
example : (dKeys Ptn.Ch.exGraph3.nodes).Nodup ∧ Lev Ptn.Ch.exGraph3 (fun x => x) := by
  refine ⟨by decide, ?_⟩
  intro e he
  simp only [Graph.edgeList, Ptn.Ch.exGraph3, map_cons, map_nil, mem_cons, not_mem_nil, or_false] at he
  rcases he with rfl | rfl <;> rfl

end Ptn.C20

import PtnModel.Proofs.HistRun
import PtnModel.Model.Heap
/-!
# Property C19 (operands are never modified, results share no state with them)

"Operations that return a new object or a number leave all their arguments bit-for-bit unchanged, and a returned
MPS, MPO or operator graph shares no mutable state with the operands: later in-place changes to it never alter
them.  The in-place algorithms modify only the object documented as overwritten, never the Hamiltonian or the
other graph."

What is proved here, and about what:

* **Frame theorems** (`step_frame`, `run_frame`, `history_frame`) are about the functional model `Hist.step`
  (`PtnModel/Model/Ops.lean`): one public call on a pool of MPS/MPO values.  A functional model has no object
  identity; "bit-for-bit unchanged" becomes: the pool slot holds *the same term* afterwards (`p'[i]? = p[i]?`,
  an equality of structures whose tensors are index functions — the strongest equality available).  Every
  slot other than the documented target `HOp.target op` is unchanged, and at most one slot is appended (the
  returned object).  "Later in-place changes to a returned object never alter the operands" is the same
  theorem applied to the later call (`history_frame`): the value of slot `i` changes only at steps whose
  documented target is `i`.
* **`target_spec`** ties `HOp.target` to the ownership table `Heap.spec` (which argument a public function may
  overwrite); that table is compared with the running code by `./check C19` (byte snapshots of all arguments,
  `np.shares_memory` of the result with every argument).
* **Allocation model** (`alloc_inv`, `alloc_disjoint`, `alloc_fresh`, `alloc_frame`): every object owns a list of
  array ids; calls returning an object allocate fresh ids (`Heap.allocNew`), in-place calls rebind some arrays of
  their target to fresh ids (`Heap.rebind`).  Along every history no two objects ever own a common array and
  every array of a returned object is fresh.

Honest scope: object identity and aliasing themselves live in the CPython/NumPy runtime (which arrays are views,
which list slots are rebound).  They are *not* derived from the Python source by these theorems; they are tied to
this model only by the differential correspondence of `./check C19`: after every step of random histories the
set of changed pool slots (byte-level snapshots of all objects) and the `np.shares_memory` relation must equal the
model's prediction "only the target changes, nothing is shared", and the write/alias table `Heap.spec` is
compared call by call.  `from_vector`, TDVP and DMRG are operations of `step` (`tdvp_H_unchanged`: the Hamiltonian slot
is never written); operator graphs are covered by the table `Heap.spec` only.
-/
set_option linter.unusedSectionVars false
namespace Ptn.C19
open Ptn.Hist Ptn.Heap

variable {α ρ : Type}

/-! ## (3) the documented target agrees with the ownership table -/

/-- name of the public function modelled by an operation, as used in `Heap.spec` -/
def HOp.fn : HOp α ρ → String
  | .orthoMps _ _ => "MPS.orthonormalize"
  | .orthoMpo _ _ => "MPO.orthonormalize"
  | .compress _ _ _ => "MPS.compress"
  | .addMps _ _ _ => "add_mps"
  | .addMpo _ _ _ => "add_mpo"
  | .mulMpo _ _ => "multiply_mpo"
  | .apply _ _ => "apply_operator"
  | .zeroQ _ => "MPS.zero_qnumbers"
  | .copy _ => "copy"
  | .fromVector _ _ _ _ => "from_vector"
  | .tdvp1 _ _ _ _ _ => "integrate_local_singlesite"
  | .tdvp2 _ _ _ _ _ _ => "integrate_local_twosite"
  | .dmrg1 _ _ _ _ => "calculate_ground_state_local_singlesite"
  | .dmrg2 _ _ _ _ _ => "calculate_ground_state_local_twosite"

/-- positional arguments (pool slots) of the call, in the order of the Python signature -/
def HOp.args : HOp α ρ → List Nat
  | .orthoMps i _ | .orthoMpo i _ | .compress i _ _ | .zeroQ i | .copy i => [i]
  | .addMps i j _ | .addMpo i j _ | .mulMpo i j | .apply i j => [i, j]
  | .fromVector _ _ _ _ => []
  | .tdvp1 iH i _ _ _ | .tdvp2 iH i _ _ _ _ | .dmrg1 iH i _ _ | .dmrg2 iH i _ _ _ => [iH, i]

/-- **(3)** `HOp.target` is what the ownership table says: the slots a call may overwrite are the arguments listed in
`(Heap.spec fn).writes` — argument 0 for `orthonormalize`, `compress`, `zero_qnumbers`, none for `+`, `-`, `@`,
`apply_operator`, copy — and no call returns an alias of an argument. -/
theorem target_spec (op : HOp α ρ) :
    ((spec (HOp.fn op)).writes.filterMap fun a => (HOp.args op)[a]?) = op.target.toList ∧
    (spec (HOp.fn op)).aliases = false := by
  cases op <;> simp [HOp.fn, HOp.args, HOp.target, spec]

/-- the table itself, for the functions without a `step` model (numbers, dense conversions, decompositions return
new values and write nothing; TDVP/DMRG write `psi` = argument 1, never the Hamiltonian = argument 0; the graph
methods write `self` = argument 0, never the other graph) -/
theorem spec_table :
    (∀ fn ∈ ["add_mps", "sub_mps", "add_mpo", "sub_mpo", "mul_mpo", "apply_operator", "vdot", "norm",
        "operator_average", "operator_inner_product", "operator_density_average", "as_vector", "as_matrix",
        "compute_right_operator_blocks", "qr", "split_matrix_svd", "retained_bond_indices", "split_mps_tensor",
        "merge_mps_tensor_pair", "from_vector"], spec fn = ⟨[], false⟩) ∧
    (∀ fn ∈ ["integrate_local_singlesite", "integrate_local_twosite", "calculate_ground_state_local_singlesite",
        "calculate_ground_state_local_twosite"], spec fn = ⟨[1], false⟩) ∧
    (∀ fn ∈ ["MPS.orthonormalize", "MPO.orthonormalize", "MPS.compress", "MPS.zero_qnumbers", "MPO.zero_qnumbers",
        "OpGraph.add", "OpGraph.simplify", "OpGraph.flip", "OpGraph.merge_edges", "OpGraph.rename_node_id",
        "OpGraph.rename_edge_id"], spec fn = ⟨[0], false⟩) := by
  simp [spec]

/-! ## (4) allocation model -/

/-- abstract effect of one call on the allocation state: an in-place call rebinds `n` arrays of its target (the
others, selected by `keep`, stay), a call returning an object allocates `n` fresh arrays -/
def astep (s : HState) (op : HOp α ρ) (n : Nat) (keep : List Nat → List Nat) : HState :=
  match op.target with
  | some i => rebind s i n keep
  | none => allocNew s n

/-- an abstract history: every operation with the number of arrays it allocates and the selection of kept arrays -/
abbrev AHistory (α ρ : Type) := List (HOp α ρ × Nat × (List Nat → List Nat))

def arun (s : HState) : AHistory α ρ → HState
  | [] => s
  | (op, n, keep) :: h => arun (astep s op n keep) h

/-- no object owns an array twice, all ids are allocated (`< next`), and no two objects own a common array -/
structure AllocInv (s : HState) : Prop where
  nodup : ∀ o ∈ s.pool, o.arrays.Nodup
  below : ∀ o ∈ s.pool, ∀ a ∈ o.arrays, a < s.next
  disjoint : ∀ (i j : Nat) (a b : HObj), i ≠ j → s.pool[i]? = some a → s.pool[j]? = some b →
    ∀ x, x ∈ a.arrays → x ∉ b.arrays

theorem mem_range'_iff {a s n : Nat} : a ∈ List.range' s n ↔ s ≤ a ∧ a < s + n := by
  simp [List.mem_range'_1]

theorem allocNew_inv {s : HState} (h : AllocInv s) (n : Nat) : AllocInv (allocNew s n) := by
  refine ⟨?_, ?_, ?_⟩
  · intro o ho
    simp only [allocNew, List.mem_append, List.mem_singleton] at ho
    rcases ho with ho | rfl
    · exact h.nodup o ho
    · exact List.nodup_range' ..
  · intro o ho a ha
    simp only [allocNew, List.mem_append, List.mem_singleton] at ho ⊢
    rcases ho with ho | rfl
    · have := h.below o ho a ha; omega
    · have := (mem_range'_iff.1 ha).2; omega
  · intro i j a b hij ha hb
    simp only [allocNew] at ha hb
    intro x hxa hxb
    rw [List.getElem?_append] at ha hb
    split at ha <;> split at hb
    · exact h.disjoint i j a b hij ha hb x hxa hxb
    · have hb' := List.getElem?_eq_some_iff.1 hb
      obtain ⟨hl, hb'⟩ := hb'
      simp only [List.getElem_singleton] at hb'
      subst hb'
      have := h.below a (List.mem_of_getElem? ha) x hxa
      have := (mem_range'_iff.1 hxb).1
      omega
    · have ha' := List.getElem?_eq_some_iff.1 ha
      obtain ⟨hl, ha'⟩ := ha'
      simp only [List.getElem_singleton] at ha'
      subst ha'
      have := h.below b (List.mem_of_getElem? hb) x hxb
      have := (mem_range'_iff.1 hxa).1
      omega
    · have ha' := (List.getElem?_eq_some_iff.1 ha).1
      have hb' := (List.getElem?_eq_some_iff.1 hb).1
      simp only [List.length_singleton] at ha' hb'
      omega

theorem rebind_inv {s : HState} (h : AllocInv s) (i n : Nat) {keep : List Nat → List Nat}
    (hk : ∀ l, (keep l).Sublist l) : AllocInv (rebind s i n keep) := by
  have hget : ∀ j o, (rebind s i n keep).pool[j]? = some o →
      ∃ o0, s.pool[j]? = some o0 ∧
        ((j ≠ i ∧ o = o0) ∨ (j = i ∧ o = ⟨keep o0.arrays ++ List.range' s.next n⟩)) := by
    intro j o ho
    simp only [rebind, List.getElem?_modify] at ho
    cases hs : s.pool[j]? with
    | none => simp [hs] at ho
    | some o0 =>
      refine ⟨o0, rfl, ?_⟩
      by_cases hji : i = j
      · simp only [hs, hji, if_true, Option.map_eq_map, Option.map_some, Option.some.injEq] at ho
        exact .inr ⟨hji.symm, ho.symm⟩
      · simp only [hs, hji, if_false, Option.map_eq_map, Option.map_some, Option.some.injEq] at ho
        exact .inl ⟨fun e => hji e.symm, ho.symm⟩
  have hmem : ∀ o ∈ (rebind s i n keep).pool, ∃ j : Nat, (rebind s i n keep).pool[j]? = some o := by
    intro o ho
    obtain ⟨j, hj, e⟩ := List.getElem_of_mem ho
    exact ⟨j, by rw [List.getElem?_eq_getElem hj, e]⟩
  refine ⟨?_, ?_, ?_⟩
  · intro o ho
    obtain ⟨j, hj⟩ := hmem o ho
    obtain ⟨o0, h0, hc⟩ := hget j o hj
    have hm0 := List.mem_of_getElem? h0
    rcases hc with ⟨_, rfl⟩ | ⟨_, rfl⟩
    · exact h.nodup _ hm0
    · refine List.nodup_append.2 ⟨(hk _).nodup (h.nodup _ hm0), List.nodup_range' .., ?_⟩
      intro a ha b hb e
      subst e
      have := h.below _ hm0 a ((hk _).subset ha)
      have := (mem_range'_iff.1 hb).1
      omega
  · intro o ho a ha
    obtain ⟨j, hj⟩ := hmem o ho
    obtain ⟨o0, h0, hc⟩ := hget j o hj
    have hm0 := List.mem_of_getElem? h0
    show a < s.next + n
    rcases hc with ⟨_, rfl⟩ | ⟨_, rfl⟩
    · have := h.below _ hm0 a ha; omega
    · rcases List.mem_append.1 ha with ha | ha
      · have := h.below _ hm0 a ((hk _).subset ha); omega
      · have := (mem_range'_iff.1 ha).2; omega
  · intro j1 j2 a b hne ha hb x hxa hxb
    obtain ⟨a0, ha0, hca⟩ := hget j1 a ha
    obtain ⟨b0, hb0, hcb⟩ := hget j2 b hb
    have hma := List.mem_of_getElem? ha0
    have hmb := List.mem_of_getElem? hb0
    have hd := h.disjoint j1 j2 a0 b0 hne ha0 hb0
    rcases hca with ⟨_, rfl⟩ | ⟨e1, rfl⟩ <;> rcases hcb with ⟨_, rfl⟩ | ⟨e2, rfl⟩
    · exact hd x hxa hxb
    · rcases List.mem_append.1 hxb with hxb | hxb
      · exact hd x hxa ((hk _).subset hxb)
      · have := h.below _ hma x hxa
        have := (mem_range'_iff.1 hxb).1
        omega
    · rcases List.mem_append.1 hxa with hxa | hxa
      · exact hd x ((hk _).subset hxa) hxb
      · have := h.below _ hmb x hxb
        have := (mem_range'_iff.1 hxa).1
        omega
    · exact hne (e1.trans e2.symm)

/-- one call preserves the allocation invariant -/
theorem astep_inv {s : HState} (h : AllocInv s) (op : HOp α ρ) (n : Nat) {keep : List Nat → List Nat}
    (hk : ∀ l, (keep l).Sublist l) : AllocInv (astep s op n keep) := by
  unfold astep
  split
  · exact rebind_inv h _ n hk
  · exact allocNew_inv h n

/-- **(4)** The allocation invariant holds along every history. -/
theorem alloc_inv {s : HState} (h : AllocInv s) (hist : AHistory α ρ)
    (hk : ∀ e ∈ hist, ∀ l, (e.2.2 l).Sublist l) : AllocInv (arun s hist) := by
  induction hist generalizing s with
  | nil => exact h
  | cons e hist ih =>
    obtain ⟨op, n, keep⟩ := e
    exact ih (astep_inv h op n (hk _ List.mem_cons_self)) (fun e he => hk e (List.mem_cons_of_mem _ he))

/-- **(4)** `alloc_disjoint`: if initially all objects own pairwise disjoint, duplicate-free id lists below `next`,
then after any history no two distinct objects share an array. -/
theorem alloc_disjoint {s : HState} (h : AllocInv s) (hist : AHistory α ρ)
    (hk : ∀ e ∈ hist, ∀ l, (e.2.2 l).Sublist l) {i j : Nat} {a b : HObj} (hij : i ≠ j)
    (ha : (arun s hist).pool[i]? = some a) (hb : (arun s hist).pool[j]? = some b) :
    ∀ x, x ∈ a.arrays → x ∉ b.arrays :=
  (alloc_inv h hist hk).disjoint i j a b hij ha hb

/-- **(4)** `alloc_fresh`: the object returned by a call owns only arrays allocated by that call (ids `≥` the `next`
before the call), hence none owned by any operand or any other object before the call. -/
theorem alloc_fresh {s : HState} (h : AllocInv s) (op : HOp α ρ) (n : Nat) (keep : List Nat → List Nat)
    (ht : op.target = none) :
    (astep s op n keep).pool = s.pool ++ [⟨List.range' s.next n⟩] ∧
    (∀ x ∈ List.range' s.next n, s.next ≤ x) ∧
    (∀ o ∈ s.pool, ∀ x ∈ o.arrays, x ∉ List.range' s.next n) := by
  refine ⟨by simp [astep, ht, allocNew], fun x hx => (mem_range'_iff.1 hx).1, fun o ho x hx hx' => ?_⟩
  have := h.below o ho x hx
  have := (mem_range'_iff.1 hx').1
  omega

/-- **(4)** `alloc_frame`: an in-place call leaves the arrays of every object other than its target untouched; the
target keeps a selection of its own arrays and gets fresh ones. -/
theorem alloc_frame (s : HState) (op : HOp α ρ) (n : Nat) (keep : List Nat → List Nat) {i : Nat}
    (ht : op.target = some i) :
    (∀ j, j ≠ i → (astep s op n keep).pool[j]? = s.pool[j]?) ∧
    (∀ o, s.pool[i]? = some o →
      (astep s op n keep).pool[i]? = some ⟨keep o.arrays ++ List.range' s.next n⟩) := by
  simp only [astep, ht, rebind]
  refine ⟨fun j hj => ?_, fun o ho => ?_⟩
  · rw [List.getElem?_modify]
    have : ¬ i = j := fun e => hj e.symm
    simp [this]
  · rw [List.getElem?_modify, ho]
    simp

/-! ## (1) frame of one call -/

variable [OfNat α 0] [OfNat α 1] [Add α] [Mul α] [Sub α] [Neg α] [Div α] [DecidableEq α] [HasConj α]
  [RealLike ρ α] [OfNat ρ 0] [OfNat ρ 1] [Add ρ] [Mul ρ] [Div ρ] [Neg ρ] [NatCast ρ] [LT ρ] [DecidableEq ρ] [DecidableLT ρ]

/-- shape of a successful step: either the target slot is overwritten (`List.set`) or one object is appended -/
theorem step_shape {k : StepKernels α ρ} {p p' : Pool α} {op : HOp α ρ} {out : List ρ}
    (h : step k p op = .ok (p', out)) :
    (∃ i o, op.target = some i ∧ i < p.length ∧ p' = p.set i o) ∨ (∃ o, op.target = none ∧ p' = p ++ [o]) := by
  cases op with
  | orthoMps i left =>
    simp only [step] at h
    split at h
    · rename_i ψ hp
      cases hr : MPS.orthonormalize (ρ := ρ) k.dqr ψ left with
      | error e => simp [hr, bind, Except.bind] at h
      | ok r =>
        simp only [hr, bind, Except.bind, pure, Except.pure, Except.ok.injEq, Prod.mk.injEq] at h
        exact .inl ⟨i, _, rfl, (List.getElem?_eq_some_iff.1 hp).1, h.1.symm⟩
    · simp at h
  | orthoMpo i left =>
    simp only [step] at h
    split at h
    · rename_i ψ hp
      cases hr : MPO.orthonormalize (ρ := ρ) k.dqr ψ left with
      | error e => simp [hr, bind, Except.bind] at h
      | ok r =>
        simp only [hr, bind, Except.bind, pure, Except.pure, Except.ok.injEq, Prod.mk.injEq] at h
        exact .inl ⟨i, _, rfl, (List.getElem?_eq_some_iff.1 hp).1, h.1.symm⟩
    · simp at h
  | compress i tol left =>
    simp only [step] at h
    split at h
    · rename_i ψ hp
      cases hr : MPS.compress k.dqr k.svd k.dabs k.divR ψ tol left with
      | error e => simp [hr, bind, Except.bind] at h
      | ok r =>
        simp only [hr, bind, Except.bind, pure, Except.pure, Except.ok.injEq, Prod.mk.injEq] at h
        exact .inl ⟨i, _, rfl, (List.getElem?_eq_some_iff.1 hp).1, h.1.symm⟩
    · simp at h
  | addMps i j alpha =>
    simp only [step] at h
    split at h
    · rename_i a b _ _
      cases hr : MPS.add a b alpha with
      | error e => simp [hr, bind, Except.bind] at h
      | ok r =>
        simp only [hr, bind, Except.bind, pure, Except.pure, Except.ok.injEq, Prod.mk.injEq] at h
        exact .inr ⟨_, rfl, h.1.symm⟩
    · simp at h
  | addMpo i j alpha =>
    simp only [step] at h
    split at h
    · rename_i a b _ _
      cases hr : MPO.add a b alpha with
      | error e => simp [hr, bind, Except.bind] at h
      | ok r =>
        simp only [hr, bind, Except.bind, pure, Except.pure, Except.ok.injEq, Prod.mk.injEq] at h
        exact .inr ⟨_, rfl, h.1.symm⟩
    · simp at h
  | mulMpo i j =>
    simp only [step] at h
    split at h
    · rename_i a b _ _
      cases hr : MPO.multiply a b with
      | error e => simp [hr, bind, Except.bind] at h
      | ok r =>
        simp only [hr, bind, Except.bind, pure, Except.pure, Except.ok.injEq, Prod.mk.injEq] at h
        exact .inr ⟨_, rfl, h.1.symm⟩
    · simp at h
  | apply i j =>
    simp only [step] at h
    split at h
    · rename_i a b _ _
      cases hr : Op.applyOperator a b with
      | error e => simp [hr, bind, Except.bind] at h
      | ok r =>
        simp only [hr, bind, Except.bind, pure, Except.pure, Except.ok.injEq, Prod.mk.injEq] at h
        exact .inr ⟨_, rfl, h.1.symm⟩
    · simp at h
  | zeroQ i =>
    simp only [step] at h
    split at h
    · rename_i o hp
      simp only [Except.ok.injEq, Prod.mk.injEq] at h
      exact .inl ⟨i, _, rfl, (List.getElem?_eq_some_iff.1 hp).1, h.1.symm⟩
    · simp at h
  | copy i =>
    simp only [step] at h
    split at h
    · simp only [Except.ok.injEq, Prod.mk.injEq] at h
      exact .inr ⟨_, rfl, h.1.symm⟩
    · simp at h

  | fromVector d nsites v tol =>
    simp only [step] at h
    cases hr : MPS.fromVector k.svd d nsites v tol with
    | error e => simp [hr, bind, Except.bind] at h
    | ok r =>
      simp only [hr, bind, Except.bind, pure, Except.pure, Except.ok.injEq, Prod.mk.injEq] at h
      exact .inr ⟨_, rfl, h.1.symm⟩
  | tdvp1 iH i dt ns ni =>
    simp only [step] at h
    split at h
    · rename_i H ψ _ hp
      cases hr : Evo.integrateLocalSinglesite k.evo H ψ dt ns ni with
      | error e => simp [hr, bind, Except.bind] at h
      | ok r =>
        simp only [hr, bind, Except.bind, pure, Except.pure, Except.ok.injEq, Prod.mk.injEq] at h
        exact .inl ⟨i, _, rfl, (List.getElem?_eq_some_iff.1 hp).1, h.1.symm⟩
    · simp at h
  | tdvp2 iH i dt ns ni tol =>
    simp only [step] at h
    split at h
    · rename_i H ψ _ hp
      cases hr : Evo.integrateLocalTwosite k.evo H ψ dt ns ni tol with
      | error e => simp [hr, bind, Except.bind] at h
      | ok r =>
        simp only [hr, bind, Except.bind, pure, Except.pure, Except.ok.injEq, Prod.mk.injEq] at h
        exact .inl ⟨i, _, rfl, (List.getElem?_eq_some_iff.1 hp).1, h.1.symm⟩
    · simp at h
  | dmrg1 iH i ns ni =>
    simp only [step] at h
    split at h
    · rename_i H ψ _ hp
      cases hr : Evo.dmrgSinglesite k.evo H ψ ns ni with
      | error e => simp [hr, bind, Except.bind] at h
      | ok r =>
        simp only [hr, bind, Except.bind, pure, Except.pure, Except.ok.injEq, Prod.mk.injEq] at h
        exact .inl ⟨i, _, rfl, (List.getElem?_eq_some_iff.1 hp).1, h.1.symm⟩
    · simp at h
  | dmrg2 iH i ns ni tol =>
    simp only [step] at h
    split at h
    · rename_i H ψ _ hp
      cases hr : Evo.dmrgTwosite k.evo H ψ ns ni tol with
      | error e => simp [hr, bind, Except.bind] at h
      | ok r =>
        simp only [hr, bind, Except.bind, pure, Except.pure, Except.ok.injEq, Prod.mk.injEq] at h
        exact .inl ⟨i, _, rfl, (List.getElem?_eq_some_iff.1 hp).1, h.1.symm⟩
    · simp at h

/-- **(1)** Frame of one call: the pool grows by at most one slot (the returned object) and every slot other than
the documented target holds the same value afterwards — in particular all arguments of `+`, `-`, `@`,
`apply_operator`, copy, and the non-target arguments of every call. -/
theorem step_frame {k : StepKernels α ρ} {p p' : Pool α} {op : HOp α ρ} {out : List ρ}
    (h : step k p op = .ok (p', out)) :
    p.length ≤ p'.length ∧ p'.length ≤ p.length + 1 ∧
      ∀ i, i < p.length → some i ≠ op.target → p'[i]? = p[i]? := by
  rcases step_shape h with ⟨t, o, ht, _, rfl⟩ | ⟨o, ht, rfl⟩
  · refine ⟨by simp, by simp, fun i _ hne => ?_⟩
    rw [ht] at hne
    rw [List.getElem?_set_ne]
    intro e
    exact hne (by rw [e])
  · refine ⟨by simp, by simp, fun i hi _ => ?_⟩
    rw [List.getElem?_append_left hi]

/-- an in-place call does not change the number of objects; a call returning an object appends exactly one -/
theorem step_length {k : StepKernels α ρ} {p p' : Pool α} {op : HOp α ρ} {out : List ρ}
    (h : step k p op = .ok (p', out)) :
    p'.length = p.length + (if op.target = none then 1 else 0) := by
  rcases step_shape h with ⟨t, o, ht, _, rfl⟩ | ⟨o, ht, rfl⟩
  · simp [ht]
  · simp [ht]

/-- the documented target of a successful in-place call is an existing slot -/
theorem step_target_lt {k : StepKernels α ρ} {p p' : Pool α} {op : HOp α ρ} {out : List ρ}
    (h : step k p op = .ok (p', out)) {i : Nat} (ht : op.target = some i) : i < p.length := by
  rcases step_shape h with ⟨t, o, ht', hl, rfl⟩ | ⟨o, ht', rfl⟩
  · rw [ht] at ht'
    cases ht'
    exact hl
  · rw [ht] at ht'
    cases ht'

/-- the Hamiltonian slot of a TDVP / DMRG call -/
def HOp.hamiltonian : HOp α ρ → Option Nat
  | .tdvp1 iH _ _ _ _ | .tdvp2 iH _ _ _ _ _ | .dmrg1 iH _ _ _ | .dmrg2 iH _ _ _ _ => some iH
  | _ => none

/-- **(1')** `tdvp_H_unchanged`: the in-place algorithms (`integrate_local_*`, `calculate_ground_state_local_*`)
overwrite only the state: the Hamiltonian slot holds the same value afterwards (whenever it is not also the slot of
the state, which cannot be since one is an MPO and the other an MPS — see `evo_slots_ne`). -/
theorem tdvp_H_unchanged {k : StepKernels α ρ} {p p' : Pool α} {op : HOp α ρ} {out : List ρ}
    (h : step k p op = .ok (p', out)) {iH : Nat} (hH : HOp.hamiltonian op = some iH) (hne : op.target ≠ some iH) :
    p'[iH]? = p[iH]? := by
  rcases step_shape h with ⟨t, o, ht, _, rfl⟩ | ⟨o, ht, rfl⟩
  · rw [List.getElem?_set_ne]
    intro e
    exact hne (by rw [ht, e])
  · cases op <;> simp [HOp.hamiltonian, HOp.target] at hH ht

/-- in a successful TDVP / DMRG call the Hamiltonian and the state are different slots (an MPO and an MPS) -/
theorem evo_slots_ne {k : StepKernels α ρ} {p p' : Pool α} {op : HOp α ρ} {out : List ρ}
    (h : step k p op = .ok (p', out)) {iH : Nat} (hH : HOp.hamiltonian op = some iH) : op.target ≠ some iH := by
  intro ht
  cases op <;> simp only [HOp.hamiltonian, HOp.target, Option.some.injEq, reduceCtorEq] at hH ht
  all_goals
    subst hH
    subst ht
    simp only [step] at h
    split at h
    · rename_i h1 h2
      rw [h1] at h2
      cases h2
    · cases h

/-! ## (2) frame of a history -/

/-- **(2)** Over any history the pool only grows, and a slot that is the documented target of no step of the history
holds the same value at the end. -/
theorem run_frame {p p' : Pool α} {h : History α ρ} (hr : run p h = .ok p') :
    p.length ≤ p'.length ∧
      ∀ i, i < p.length → (∀ kop ∈ h, kop.2.target ≠ some i) → p'[i]? = p[i]? := by
  induction h generalizing p with
  | nil =>
    simp only [run_nil, Except.ok.injEq] at hr
    subst hr
    exact ⟨Nat.le_refl _, fun _ _ _ => rfl⟩
  | cons kop h ih =>
    obtain ⟨k, op⟩ := kop
    obtain ⟨p1, out, hs, hr'⟩ := run_cons_ok.1 hr
    obtain ⟨l1, _, f1⟩ := step_frame hs
    obtain ⟨l2, f2⟩ := ih hr'
    refine ⟨Nat.le_trans l1 l2, fun i hi hno => ?_⟩
    rw [f2 i (Nat.lt_of_lt_of_le hi l1) (fun kop hk => hno kop (List.mem_cons_of_mem _ hk))]
    exact f1 i hi (fun e => hno (k, op) (List.mem_cons_self) e.symm)

/-- **(2')** The value of slot `i` changes only at steps whose documented target is `i`: between any two points of
a history (`h = h1 ++ h2 ++ h3`, pools `p1` after `h1` and `p2` after `h1 ++ h2`) the slot is unchanged unless a
step of the segment `h2` targets it.  With `i` a freshly returned object and `j` one of its operands this is
"later in-place changes to the result never alter the operands". -/
theorem history_frame {p p1 p2 p3 : Pool α} {h1 h2 h3 : History α ρ}
    (hr : run p (h1 ++ h2 ++ h3) = .ok p3) (hp1 : run p h1 = .ok p1) (hp2 : run p1 h2 = .ok p2)
    {i : Nat} (hi : i < p1.length) (hno : ∀ kop ∈ h2, kop.2.target ≠ some i) :
    p2[i]? = p1[i]? ∧ run p2 h3 = .ok p3 := by
  refine ⟨(run_frame hp2).2 i hi hno, ?_⟩
  rw [List.append_assoc] at hr
  obtain ⟨q1, hq1, hr⟩ := run_append_ok.1 hr
  rw [hp1] at hq1
  cases hq1
  obtain ⟨q2, hq2, hr⟩ := run_append_ok.1 hr
  rw [hp2] at hq2
  cases hq2
  exact hr

/-- the abstract pool tracks the model pool: same number of slots after every successful call -/
theorem alloc_tracks {k : StepKernels α ρ} {p p' : Pool α} {op : HOp α ρ} {out : List ρ}
    (h : step k p op = .ok (p', out)) (s : HState) (hs : s.pool.length = p.length) (n : Nat)
    (keep : List Nat → List Nat) : (astep s op n keep).pool.length = p'.length := by
  rw [step_length h]
  unfold astep
  cases ht : op.target with
  | none => simp [allocNew, hs]
  | some i => simp [rebind, hs]


/-! ## Non-vacuity -/

/-- a concrete pool (one MPS, one MPO) and the history "copy slot 0, then zero the charges of the copy": both steps
succeed, the operand (slot 0) and the bystander (slot 1) hold the same value at the end, the copy (slot 2) is the
only target. -/
def exPsi : MPS Rat := ⟨[0, 1], [[0], [1]], [⟨2, 1, 1, fun s _ _ => if s = 1 then 1 else 0⟩]⟩
def exOp : MPO Rat := ⟨[0, 1], [[0], [0]], [⟨2, 2, 1, 1, fun s t _ _ => if s = t then 1 else 0⟩]⟩
def exPool : Pool Rat := [.mps exPsi, .mpo exOp]
def exK : StepKernels Rat Rat :=
  ⟨fun B => (B, B), ⟨fun B => (B, [], B), fun _ => 0, fun _ => []⟩, fun x => x, fun x _ => x,
    fun x => x, fun _ => 0, fun a _ => (a, ⟨0, 0, fun _ _ => 0⟩), fun x => x, fun M => M, 0⟩
def exHist : History Rat Rat := [(exK, .copy 0), (exK, .zeroQ 2)]

example : ∃ p', run exPool exHist = .ok p' ∧ p'.length = 3 ∧ p'[0]? = exPool[0]? ∧ p'[1]? = exPool[1]? ∧
    (∀ kop ∈ exHist, kop.2.target ≠ some 0) ∧ (∃ kop ∈ exHist, kop.2.target = some 2) :=
  ⟨_, rfl, rfl, rfl, rfl, by simp [exHist, HOp.target], ⟨_, List.mem_cons_of_mem _ List.mem_cons_self, rfl⟩⟩

/-- the hypothesis `AllocInv` is satisfiable by a non-trivial state; an in-place call followed by a call returning an
object keeps everything disjoint (object 0 owns `[0,1,2]` then `[0,5,6]`, object 1 owns `[3,4]`, the new object
`[7,8,9]`) -/
def exS : HState := ⟨[⟨[0, 1, 2]⟩, ⟨[3, 4]⟩], 5⟩

theorem exS_inv : AllocInv exS := by
  refine ⟨by decide, by decide, ?_⟩
  intro i j a b hij ha hb
  match i, j with
  | 0, 0 => exact absurd rfl hij
  | 0, 1 =>
    simp only [exS, List.getElem?_cons_zero, List.getElem?_cons_succ, Option.some.injEq] at ha hb
    subst ha hb; intro x hx hx'; simp at hx hx'; omega
  | 1, 0 =>
    simp only [exS, List.getElem?_cons_zero, List.getElem?_cons_succ, Option.some.injEq] at ha hb
    subst ha hb; intro x hx hx'; simp at hx hx'; omega
  | 1, 1 => exact absurd rfl hij
  | i + 2, _ => simp [exS] at ha
  | 0, j + 2 => simp [exS] at hb
  | 1, j + 2 => simp [exS] at hb

example : (arun exS ([(.orthoMps 0 true, 2, fun l => l.take 1), (.addMps 0 0 1, 3, id)] : AHistory Rat Rat)).pool
    = [⟨[0, 5, 6]⟩, ⟨[3, 4]⟩, ⟨[7, 8, 9]⟩] := by decide

example : AllocInv (arun exS ([(.orthoMps 0 true, 2, fun l => l.take 1), (.addMps 0 0 1, 3, id)] : AHistory Rat Rat)) :=
  alloc_inv exS_inv _ (by
    intro e he l
    simp only [List.mem_cons, List.not_mem_nil, or_false] at he
    rcases he with rfl | rfl
    · exact List.take_sublist _ _
    · exact List.Sublist.refl _)

end Ptn.C19

import Mathlib.Algebra.Order.Field.Rat
import Mathlib.Tactic.Positivity
import PtnModel.Proofs.RbiNorm
/-!
# C12 (truncation rule): `retained_bond_indices(s, tol)`

Property text (the part decided here): *the discarded relative weight never exceeds the tolerance, no kept
singular value is smaller than a discarded one, discarding one more would exceed the tolerance, kept singular
values are positive, and zero tolerance keeps exactly the non-zero values* — for all spectra (decaying,
degenerate, rank-deficient, zeros) and all tolerances `0 ≤ tol`, including values equal to a cumulative weight.

Model: `Ptn.BondOps.retainedBondIndices dnorm dargsort s tol` (file `Model/BondOps.lean`), over any linear
ordered field `ρ`.  The two numpy kernels are oracle arguments and enter only through the hypotheses

* `NormContract s (dnorm s)`: `np.linalg.norm(s)` is the non-negative square root of `Σ s[i]²`;
* `SortContract keys (dargsort keys)`: `np.argsort(keys)` is a permutation of `range(len(keys))` along which
  the keys are non-decreasing (*not* assumed stable), for the one key list the model passes to it,
  `keys = sortKeys s (dnorm s) = (s / w)**2`.

Notation used in the statements: `w = dnorm s`, `kept = retainedBondIndices dnorm dargsort s tol`,
`relWeight s w i = (s[i] / w)²`, `discardedIdx s kept` = the indices `< len(s)` not in `kept`,
`weightOf s w l = Σ_{i ∈ l} relWeight s w i`.

Theorems: `rule_indices_valid`, `rule_zero`, `rule_zero_iff`, `rule_prefix`, `rule_weight`, `rule_total`,
`rule_kept_weight`, `rule_order`, `rule_order_values`, `rule_maximal`, `rule_positive`, `rule_positive_values`,
`rule_tol0`.  Each is followed by an `example` over `ℚ` exhibiting concrete data satisfying the hypotheses
together with the value of `kept` on that data.
-/
namespace Ptn.C12
open Ptn.BondOps

set_option linter.unusedSectionVars false

variable {ρ : Type} [Field ρ] [LinearOrder ρ] [IsStrictOrderedRing ρ]

/-! ## kernel contracts and vocabulary -/

/-- contract of `np.argsort(key)`: a permutation of `range(len(key))` along which the keys are
non-decreasing.  Stability is not assumed. -/
def SortContract (key : List ρ) (σ : List Nat) : Prop :=
  σ.Perm (List.range key.length) ∧ (σ.map fun i => key.getD i 0).Pairwise (· ≤ ·)

/-- contract of `np.linalg.norm(s)`: the non-negative square root of the sum of squares. -/
def NormContract (s : List ρ) (w : ρ) : Prop :=
  0 ≤ w ∧ w * w = (s.map fun x => x * x).sum

/-- the key list the model passes to `argsort`: `(s / w)**2` -/
def sortKeys (s : List ρ) (w : ρ) : List ρ := s.map fun x => (x / w) * (x / w)

/-- relative weight `(s[i] / w)²` of index `i` -/
def relWeight (s : List ρ) (w : ρ) (i : Nat) : ρ := (s.getD i 0 / w) ^ 2

/-- total relative weight of a list of indices -/
def weightOf (s : List ρ) (w : ρ) (l : List Nat) : ρ := (l.map (relWeight s w)).sum

/-- the indices `< len(s)` that are not in `kept`, ascending -/
def discardedIdx (s : List ρ) (kept : List Nat) : List Nat :=
  (List.range s.length).filter fun j => decide (j ∉ kept)

/-- cumulative relative weight along `σ` up to and including position `p` -/
def cumWeight (s : List ρ) (w : ρ) (σ : List Nat) (p : Nat) : ρ := weightOf s w (σ.take (p + 1))

variable (dnorm : List ρ → ρ) (dargsort : List ρ → List Nat) (s : List ρ) (tol : ρ)

/-! ## bridge to the helper files (not part of the property statement) -/

private theorem sortKeys_eq (w : ρ) : sortKeys s w = normSq s w := rfl

private theorem wsum_eq (w : ρ) (l : List Nat) : wsum (normSq s w) l = weightOf s w l := by
  unfold wsum weightOf
  congr 1
  exact List.map_congr_left fun i _ => normSq_getD s w i

private theorem discardedOf_eq (hw : dnorm s ≠ 0) :
    discardedOf (normSq s (dnorm s)) (dargsort (normSq s (dnorm s))) tol =
      discardedIdx s (retainedBondIndices dnorm dargsort s tol) := by
  unfold discardedOf discardedIdx
  rw [retainedBondIndices_of_ne _ _ _ _ hw, normSq_length]

private theorem sort_perm {s : List ρ} {w : ρ} {σ : List Nat} (h : SortContract (sortKeys s w) σ) :
    σ.Perm (List.range (normSq s w).length) := h.1

/-! ## (a) shape of the result -/

/-- **(a)** The result is strictly increasing (ascending, duplicate-free) and every entry is a valid index of
`s`.  No hypothesis on the kernels. -/
theorem rule_indices_valid :
    (retainedBondIndices dnorm dargsort s tol).Pairwise (· < ·) ∧
      ∀ i ∈ retainedBondIndices dnorm dargsort s tol, i < s.length := by
  by_cases hw : dnorm s = 0
  · rw [retainedBondIndices_of_eq _ _ _ _ hw]; simp
  · rw [retainedBondIndices_of_ne _ _ _ _ hw]
    refine ⟨keptOf_pairwise _ _ _, fun i hi => ?_⟩
    have := ((mem_keptOf _ _ _ _).1 hi).1
    rwa [normSq_length] at this

/-- non-vacuity of (a): a degenerate spectrum, `tol` equal to the first cumulative weight; the result is `[1, 2, 3]` -/
example : ∃ (dnorm : List ℚ → ℚ) (dargsort : List ℚ → List ℕ) (s : List ℚ) (tol : ℚ),
    (retainedBondIndices dnorm dargsort s tol).Pairwise (· < ·) ∧
    retainedBondIndices dnorm dargsort s tol = [1, 2, 3] :=
  ⟨fun _ => 2, fun _ => [0, 1, 2, 3], [1, 1, 1, 1], 1 / 4, by decide +kernel, by decide +kernel⟩

/-! ## (g) zero norm -/

/-- **(g)** If the norm kernel returns zero nothing is kept. -/
theorem rule_zero (hw : dnorm s = 0) : retainedBondIndices dnorm dargsort s tol = [] :=
  retainedBondIndices_of_eq _ _ _ _ hw

/-- **(g')** Under the norm contract the norm vanishes exactly for the all-zero spectrum. -/
theorem rule_zero_iff {s : List ρ} {w : ρ} (hnorm : NormContract s w) : w = 0 ↔ ∀ x ∈ s, x = 0 := by
  constructor
  · intro h0
    apply sum_mul_self_eq_zero
    rw [← hnorm.2, h0, mul_zero]
  · intro hs
    have := hnorm.2
    rw [sum_mul_self_of_zero s hs] at this
    exact mul_self_eq_zero.1 this

/-- non-vacuity of (g), (g'): the all-zero spectrum with norm `0` satisfies the norm contract; nothing is kept -/
example : ∃ (dnorm : List ℚ → ℚ) (dargsort : List ℚ → List ℕ) (s : List ℚ) (tol : ℚ),
    NormContract s (dnorm s) ∧
    dnorm s = 0 ∧
    retainedBondIndices dnorm dargsort s tol = [] :=
  ⟨fun _ => 0, fun _ => [0, 1], [0, 0], 1 / 10, by unfold NormContract; decide +kernel, by decide +kernel, by decide +kernel⟩

/-! ## (h) structure: the discarded indices are a prefix of the sorting permutation -/

/-- **(h)** Let `σ` be the sorting permutation, `cumWeight p` the cumulative relative weight along `σ` up to
position `p`, and `k` the number of positions whose cumulative weight is `≤ tol`.  Then the cumulative weights are
non-decreasing, `cumWeight p ≤ tol ↔ p < k`, the discarded indices are exactly `σ.take k` and the kept ones
exactly `σ.drop k`. -/
theorem rule_prefix (hw : dnorm s ≠ 0)
    (hsort : SortContract (sortKeys s (dnorm s)) (dargsort (sortKeys s (dnorm s)))) :
    let σ := dargsort (sortKeys s (dnorm s))
    let k := ((List.range s.length).filter fun p => decide (cumWeight s (dnorm s) σ p ≤ tol)).length
    (∀ p q, p ≤ q → cumWeight s (dnorm s) σ p ≤ cumWeight s (dnorm s) σ q) ∧
    k ≤ s.length ∧
    (∀ p < s.length, cumWeight s (dnorm s) σ p ≤ tol ↔ p < k) ∧
    (∀ j, (j < s.length ∧ j ∉ retainedBondIndices dnorm dargsort s tol) ↔ j ∈ σ.take k) ∧
    (∀ j, j ∈ retainedBondIndices dnorm dargsort s tol ↔ j ∈ σ.drop k) := by
  intro σ k
  have hperm := sort_perm hsort
  have hnn := normSq_nonneg s (dnorm s)
  have hlen : σ.length = s.length := by rw [perm_length hperm, normSq_length]
  have hcw : ∀ p, prefSum (normSq s (dnorm s)) σ p = cumWeight s (dnorm s) σ p := fun p => wsum_eq s _ _
  have hk : cut (normSq s (dnorm s)) σ tol = k := by
    unfold cut countBelow
    rw [hlen]
    simp only [hcw]
    rfl
  rw [retainedBondIndices_of_ne _ _ _ _ hw]
  refine ⟨fun p q hpq => ?_, ?_, fun p hp => ?_, fun j => ?_, fun j => ?_⟩
  · rw [← hcw, ← hcw]; exact prefSum_mono _ hnn σ hpq
  · rw [← hk, ← hlen]; exact cut_le _ _ _
  · rw [← hcw, ← hk]; exact prefSum_le_iff_lt_cut _ hnn σ tol p (by omega)
  · rw [← hk, ← normSq_length s (dnorm s)]; exact not_mem_keptOf_iff hperm hnn tol j
  · rw [← hk]; exact mem_keptOf_iff_drop hperm hnn tol j

/-- non-vacuity of (h): rank-deficient spectrum `[3, 0, 4, 0]`, an unstable sorting permutation `[3, 1, 0, 2]`;
three positions have cumulative weight `≤ 9/25`, so `[3, 1, 0]` is discarded and `[2]` kept -/
example : ∃ (dnorm : List ℚ → ℚ) (dargsort : List ℚ → List ℕ) (s : List ℚ) (tol : ℚ),
    dnorm s ≠ 0 ∧
    SortContract (sortKeys s (dnorm s)) (dargsort (sortKeys s (dnorm s))) ∧
    retainedBondIndices dnorm dargsort s tol = [2] :=
  ⟨fun _ => 5, fun _ => [3, 1, 0, 2], [3, 0, 4, 0], 9 / 25, by decide +kernel, by unfold SortContract sortKeys; decide +kernel, by decide +kernel⟩

/-! ## (b) discarded weight -/

/-- **(b)** The discarded relative weight never exceeds the tolerance.
(For `dnorm s = 0` every relative weight is `(s[i]/0)² = 0` in Lean and the statement reduces to `0 ≤ tol`.) -/
theorem rule_weight
    (hsort : SortContract (sortKeys s (dnorm s)) (dargsort (sortKeys s (dnorm s)))) (htol : 0 ≤ tol) :
    weightOf s (dnorm s) (discardedIdx s (retainedBondIndices dnorm dargsort s tol)) ≤ tol := by
  by_cases hw : dnorm s = 0
  · have : weightOf s (dnorm s) (discardedIdx s (retainedBondIndices dnorm dargsort s tol)) = 0 := by
      apply List.sum_eq_zero
      intro x hx
      obtain ⟨i, _, rfl⟩ := List.mem_map.1 hx
      simp [relWeight, hw]
    rw [this]; exact htol
  · rw [← discardedOf_eq _ _ _ _ hw, ← wsum_eq]
    exact discarded_sum_le (sort_perm hsort) (normSq_nonneg _ _) tol htol

/-- **(b')** Under the norm contract the relative weights of all indices sum to one. -/
theorem rule_total (hnorm : NormContract s (dnorm s)) (hw : dnorm s ≠ 0) :
    weightOf s (dnorm s) (List.range s.length) = 1 := by
  rw [← wsum_eq, ← normSq_length s (dnorm s), wsum_range]
  exact normSq_sum s _ hw hnorm.2

/-- **(b'')** Hence the kept relative weight is at least `1 - tol`. -/
theorem rule_kept_weight (hnorm : NormContract s (dnorm s)) (hw : dnorm s ≠ 0)
    (hsort : SortContract (sortKeys s (dnorm s)) (dargsort (sortKeys s (dnorm s)))) (htol : 0 ≤ tol) :
    1 - tol ≤ weightOf s (dnorm s) (retainedBondIndices dnorm dargsort s tol) := by
  have h1 := rule_weight dnorm dargsort s tol hsort htol
  have h2 := wsum_kept_add_discarded (normSq s (dnorm s)) (dargsort (normSq s (dnorm s))) tol
  rw [normSq_sum s _ hw hnorm.2, discardedOf_eq _ _ _ _ hw, wsum_eq, wsum_eq,
    ← retainedBondIndices_of_ne _ _ _ _ hw] at h2
  linarith

/-- non-vacuity of (b), (b'), (b''): degenerate spectrum, `tol` equal to a cumulative weight; the discarded weight
is exactly `tol = 1/4` -/
example : ∃ (dnorm : List ℚ → ℚ) (dargsort : List ℚ → List ℕ) (s : List ℚ) (tol : ℚ),
    NormContract s (dnorm s) ∧
    dnorm s ≠ 0 ∧
    SortContract (sortKeys s (dnorm s)) (dargsort (sortKeys s (dnorm s))) ∧
    0 ≤ tol ∧
    weightOf s (dnorm s) (discardedIdx s (retainedBondIndices dnorm dargsort s tol)) = 1 / 4 ∧
    retainedBondIndices dnorm dargsort s tol = [1, 2, 3] :=
  ⟨fun _ => 2, fun _ => [0, 1, 2, 3], [1, 1, 1, 1], 1 / 4, by unfold NormContract; decide +kernel, by decide +kernel, by unfold SortContract sortKeys; decide +kernel, by decide +kernel, by decide +kernel, by decide +kernel⟩

/-- the theorems apply to concrete `ℚ` data (the instances derived from the ordered-field classes agree with
the ones the model is run with) -/
example : weightOf ([1, 1, 1, 1] : List ℚ) 2 (discardedIdx [1, 1, 1, 1]
    (retainedBondIndices (fun _ : List ℚ => 2) (fun _ => [0, 1, 2, 3]) [1, 1, 1, 1] (1 / 4))) ≤ 1 / 4 :=
  rule_weight (fun _ => 2) (fun _ => [0, 1, 2, 3]) [1, 1, 1, 1] (1 / 4)
    (by unfold SortContract sortKeys; decide +kernel) (by decide +kernel)

/-! ## (c) order -/

/-- **(c)** No kept relative weight is smaller than a discarded one. -/
theorem rule_order
    (hsort : SortContract (sortKeys s (dnorm s)) (dargsort (sortKeys s (dnorm s)))) :
    ∀ i ∈ retainedBondIndices dnorm dargsort s tol, ∀ j, j < s.length →
      j ∉ retainedBondIndices dnorm dargsort s tol → relWeight s (dnorm s) j ≤ relWeight s (dnorm s) i := by
  intro i hi j hj hjn
  by_cases hw : dnorm s = 0
  · rw [retainedBondIndices_of_eq _ _ _ _ hw] at hi; simp at hi
  · rw [retainedBondIndices_of_ne _ _ _ _ hw] at hi hjn
    have := kept_ge_discarded (sort_perm hsort) hsort.2 (normSq_nonneg _ _) tol hi
      (by rwa [normSq_length]) hjn
    rwa [normSq_getD, normSq_getD] at this

/-- **(c')** For a non-negative spectrum: no kept singular value is smaller than a discarded one. -/
theorem rule_order_values (hnn : ∀ x ∈ s, 0 ≤ x)
    (hsort : SortContract (sortKeys s (dnorm s)) (dargsort (sortKeys s (dnorm s)))) :
    ∀ i ∈ retainedBondIndices dnorm dargsort s tol, ∀ j, j < s.length →
      j ∉ retainedBondIndices dnorm dargsort s tol → s.getD j 0 ≤ s.getD i 0 := by
  intro i hi j hj hjn
  have hw : dnorm s ≠ 0 := by
    intro hw; rw [retainedBondIndices_of_eq _ _ _ _ hw] at hi; simp at hi
  have h := rule_order dnorm dargsort s tol hsort i hi j hj hjn
  unfold relWeight at h
  rw [div_pow, div_pow, div_le_div_iff_of_pos_right (by positivity)] at h
  exact (pow_le_pow_iff_left₀ (getD_nonneg s hnn j) (getD_nonneg s hnn i) (by decide)).1 h

/-- non-vacuity of (c), (c'): non-negative decaying spectrum with a kept and a discarded part -/
example : ∃ (dnorm : List ℚ → ℚ) (dargsort : List ℚ → List ℕ) (s : List ℚ) (tol : ℚ),
    (∀ x ∈ s, 0 ≤ x) ∧
    SortContract (sortKeys s (dnorm s)) (dargsort (sortKeys s (dnorm s))) ∧
    1 ∉ retainedBondIndices dnorm dargsort s tol ∧
    retainedBondIndices dnorm dargsort s tol = [0, 2] :=
  ⟨fun _ => 5, fun _ => [3, 1, 0, 2], [3, 0, 4, 0], 1 / 10, by decide +kernel, by unfold SortContract sortKeys; decide +kernel, by decide +kernel, by decide +kernel⟩

/-! ## (d) maximality -/

/-- **(d)** Discarding any one more (kept) value would exceed the tolerance. -/
theorem rule_maximal
    (hsort : SortContract (sortKeys s (dnorm s)) (dargsort (sortKeys s (dnorm s)))) :
    ∀ i ∈ retainedBondIndices dnorm dargsort s tol,
      tol < weightOf s (dnorm s) (discardedIdx s (retainedBondIndices dnorm dargsort s tol)) +
        relWeight s (dnorm s) i := by
  intro i hi
  have hw : dnorm s ≠ 0 := by
    intro hw; rw [retainedBondIndices_of_eq _ _ _ _ hw] at hi; simp at hi
  rw [← discardedOf_eq _ _ _ _ hw, ← wsum_eq, relWeight, ← normSq_getD]
  rw [retainedBondIndices_of_ne _ _ _ _ hw] at hi
  exact lt_discarded_add_kept (sort_perm hsort) hsort.2 (normSq_nonneg _ _) tol hi

/-- non-vacuity of (d): with `tol = 9/25` index `0` (weight `9/25`) is discarded; the only kept index `2` has
weight `16/25` and `9/25 < 9/25 + 16/25` -/
example : ∃ (dnorm : List ℚ → ℚ) (dargsort : List ℚ → List ℕ) (s : List ℚ) (tol : ℚ),
    SortContract (sortKeys s (dnorm s)) (dargsort (sortKeys s (dnorm s))) ∧
    retainedBondIndices dnorm dargsort s tol = [2] :=
  ⟨fun _ => 5, fun _ => [3, 1, 0, 2], [3, 0, 4, 0], 9 / 25, by unfold SortContract sortKeys; decide +kernel, by decide +kernel⟩

/-! ## (e) positivity -/

/-- **(e)** For `0 ≤ tol` every kept singular value is non-zero. -/
theorem rule_positive
    (hsort : SortContract (sortKeys s (dnorm s)) (dargsort (sortKeys s (dnorm s)))) (htol : 0 ≤ tol) :
    ∀ i ∈ retainedBondIndices dnorm dargsort s tol, s.getD i 0 ≠ 0 := by
  intro i hi h0
  have hw : dnorm s ≠ 0 := by
    intro hw; rw [retainedBondIndices_of_eq _ _ _ _ hw] at hi; simp at hi
  rw [retainedBondIndices_of_ne _ _ _ _ hw] at hi
  have := kept_pos (sort_perm hsort) hsort.2 (normSq_nonneg _ _) tol htol hi
  rw [normSq_getD, h0] at this
  simp at this

/-- **(e')** For a non-negative spectrum and `0 ≤ tol` every kept singular value is positive. -/
theorem rule_positive_values (hnn : ∀ x ∈ s, 0 ≤ x)
    (hsort : SortContract (sortKeys s (dnorm s)) (dargsort (sortKeys s (dnorm s)))) (htol : 0 ≤ tol) :
    ∀ i ∈ retainedBondIndices dnorm dargsort s tol, 0 < s.getD i 0 := fun i hi =>
  lt_of_le_of_ne (getD_nonneg s hnn i) (Ne.symm (rule_positive dnorm dargsort s tol hsort htol i hi))

/-- non-vacuity of (e), (e'): the zeros of a rank-deficient spectrum are discarded even for a tiny tolerance -/
example : ∃ (dnorm : List ℚ → ℚ) (dargsort : List ℚ → List ℕ) (s : List ℚ) (tol : ℚ),
    (∀ x ∈ s, 0 ≤ x) ∧
    SortContract (sortKeys s (dnorm s)) (dargsort (sortKeys s (dnorm s))) ∧
    0 ≤ tol ∧
    retainedBondIndices dnorm dargsort s tol = [0, 2] :=
  ⟨fun _ => 5, fun _ => [1, 3, 0, 2], [3, 0, 4, 0], 1 / 1000, by decide +kernel, by unfold SortContract sortKeys; decide +kernel, by decide +kernel, by decide +kernel⟩

/-! ## (f) zero tolerance -/

/-- **(f)** Zero tolerance keeps exactly the non-zero values: the result is the ascending list of all indices
`i` with `s[i] ≠ 0` (no sign assumption on `s` is needed). -/
theorem rule_tol0 (hnorm : NormContract s (dnorm s))
    (hsort : SortContract (sortKeys s (dnorm s)) (dargsort (sortKeys s (dnorm s)))) :
    retainedBondIndices dnorm dargsort s 0 =
      (List.range s.length).filter fun i => decide (s.getD i 0 ≠ 0) := by
  by_cases hw : dnorm s = 0
  · rw [retainedBondIndices_of_eq _ _ _ _ hw]
    symm
    rw [List.filter_eq_nil_iff]
    intro i hi
    have hz := (rule_zero_iff hnorm).1 hw
    have hi' : i < s.length := by simpa using hi
    have : s.getD i 0 = 0 := by
      rw [List.getD_eq_getElem?_getD, List.getElem?_eq_getElem hi']; exact hz _ (List.getElem_mem hi')
    rw [this]; simp
  · have hk : retainedBondIndices dnorm dargsort s 0 =
        (List.range s.length).filter fun i => decide (i ∈ retainedBondIndices dnorm dargsort s 0) := by
      conv_lhs => rw [retainedBondIndices_of_ne _ _ _ _ hw]
      unfold keptOf
      rw [cumsumAlong_length, normSq_length]
      apply List.filter_congr
      intro i hi
      have hi' : i < s.length := by simpa using hi
      rw [decide_eq_decide, retainedBondIndices_of_ne _ _ _ _ hw, mem_keptOf, normSq_length]
      simp [hi']
    rw [hk]
    apply List.filter_congr
    intro i hi
    have hi' : i < s.length := by simpa using hi
    rw [decide_eq_decide]
    constructor
    · exact rule_positive dnorm dargsort s 0 hsort (le_refl _) i
    · intro hne
      rw [retainedBondIndices_of_ne _ _ _ _ hw]
      apply kept_of_lt (sort_perm hsort) (normSq_nonneg _ _) 0 (by rwa [normSq_length])
      rw [normSq_getD]
      have : s.getD i 0 / dnorm s ≠ 0 := div_ne_zero hne hw
      positivity

/-- non-vacuity of (f): zero tolerance on a rank-deficient spectrum keeps `[0, 2]` -/
example : ∃ (dnorm : List ℚ → ℚ) (dargsort : List ℚ → List ℕ) (s : List ℚ) (tol : ℚ),
    NormContract s (dnorm s) ∧
    SortContract (sortKeys s (dnorm s)) (dargsort (sortKeys s (dnorm s))) ∧
    tol = 0 ∧
    retainedBondIndices dnorm dargsort s tol = [0, 2] :=
  ⟨fun _ => 5, fun _ => [3, 1, 0, 2], [3, 0, 4, 0], 0, by unfold NormContract; decide +kernel, by unfold SortContract sortKeys; decide +kernel, by decide +kernel, by decide +kernel⟩

end Ptn.C12

import PtnModel.Props.C02
import PtnModel.Proofs.HistEvoTwo
/-!
# Property C02, TDVP / DMRG part (block sparsity is an invariant of the evolution operations)

Continuation of `Props/C02.lean` for the operations `tdvp1`, `tdvp2`, `dmrg1`, `dmrg2` of the history model
(`integrate_local_singlesite`, `integrate_local_twosite`, `calculate_ground_state_local_singlesite`,
`calculate_ground_state_local_twosite`, in place on the state).  Setting: entries in `𝕂 = ℝ` or `ℂ` (`RCLike`), real
oracle outputs in `ℝ`, exact arithmetic.  All dense kernels (QR, SVD, vector norm, tridiagonal eigen-solver, scalar and
matrix exponential, square root) are oracle arguments; **only the shape clause of the QR kernel (and of the SVD kernel for
the two-site methods) is assumed** — nothing about the Krylov oracles.

Side conditions on the Hamiltonian (`EvoCompat H ψ`), both necessary and not checked by the Python code:
* `H.qd = ψ.qd`: the MPO tensors are block sparse w.r.t. the physical charges *of the state* (the code only asserts
  `is_qsparse` of the initial right blocks; for `ψ.qd = [0,1]`, `H.qd = [0,0]`, `H = X` on one site the evolved tensor
  `exp(-dt X)|1⟩` has both components non-zero);
* the leading MPO bond charge is zero (`H.qD[0][0] = 0`; the trailing one is zero by the assertion on `BR[L-1]`):
  otherwise `H` shifts the charge sector and `BL[0] = [[[1]]]` is not block sparse.

What is proved:

* `krylov_sector_closed`, `lanczos_sector_closed`, `eigh_sector_closed`: a coordinate sector (vectors vanishing on a set
  `Z` of positions) that contains the start vector and is preserved by `Afunc` contains every Lanczos vector, the result
  of `expm_krylov(…, hermitian=True)` and every Ritz vector of `eigh_krylov` — for EVERY norm / eigen-solver /
  exponential oracle, over every field.
* `local_step_sparse`, `bond_step_sparse`, `minimize_sparse`, `local_bond_sparse`: `_local_hamiltonian_step`,
  `_local_bond_step`, `_minimize_local_energy` return block-sparse tensors of the shape of their input when the
  environment blocks are block sparse and square and `W` is a block-sparse MPO tensor.
* `env_step_left_sparse`, `env_step_right_sparse`: the contraction steps keep `is_qsparse(B, [q, qH, -q])`.
* `tdvp1_wf`, `step_wf_tdvp1`: single-site TDVP keeps the invariant.
-/
set_option linter.unusedSectionVars false
namespace Ptn.C02
open Ptn.Hist Ptn.HistWf Ptn.BondOps Ptn.Ortho Ptn.Krylov Ptn.Evo

/-! ## sectors and the Krylov routines -/

section krylov
variable {α ρ : Type} [Field α] [HasConj α] [RealLike ρ α] [OfNat ρ 0] [NatCast ρ] [Div ρ] [LT ρ] [DecidableLT ρ]
variable {Afun : List α → List α} {dnorm : List α → ρ} {deigh : List ρ → List ρ → List ρ × Mat ρ} {dexp : α → α}
  {dexpm : Mat α → Mat α} {Z : Nat → Prop}

/-- **`lanczos_sector_closed`**: every column of the matrix `V` returned by `lanczos_iteration` vanishes on `Z` when the
start vector does and `Afunc` preserves the sector — every norm oracle. -/
theorem lanczos_sector_closed (hA : ∀ x, InSector Z x → InSector Z (Afun x)) {v : List α} (hv : InSector Z v)
    {numiter : Nat} {alpha beta : List ρ} {V : Mat α} (h : lanczos Afun dnorm v numiter = .ok (alpha, beta, V)) :
    ∀ i c, Z i → V.f i c = 0 :=
  lanczos_cols hA hv h

/-- **`krylov_sector_closed`**: the result of `expm_krylov(Afunc, v, dt, numiter, hermitian=True)` lies in every
coordinate sector that contains `v` and is preserved by `Afunc` — for every oracle `dnorm`, `deigh`, `dexp`. -/
theorem krylov_sector_closed (hA : ∀ x, InSector Z x → InSector Z (Afun x)) {v : List α} (hv : InSector Z v)
    {dt : α} {numiter : Nat} {y : List α}
    (h : expmKrylov Afun dnorm deigh dexp dexpm v dt numiter true = .ok y) : InSector Z y :=
  expmKrylov_inSector hA hv h

/-- **`eigh_sector_closed`**: the same for every Ritz vector returned by `eigh_krylov`. -/
theorem eigh_sector_closed (hA : ∀ x, InSector Z x → InSector Z (Afun x)) {v : List α} (hv : InSector Z v)
    {numiter numeig : Nat} {w : List ρ} {u : Mat α}
    (h : eighKrylov Afun dnorm deigh v numiter numeig = .ok (w, u)) : ∀ i e, Z i → u.f i e = 0 :=
  eighKrylov_cols hA hv h

end krylov

variable {𝕂 : Type} [RCLike 𝕂] [DecidableEq 𝕂]

/-! ## the site-local steps -/

/-- **`local_step_sparse`**: `_local_hamiltonian_step(L, R, W, A, dt, numiter)` returns a tensor of the shape of `A` that is
block sparse w.r.t. the charges `(qd, qa, qb)` of `A`, when `L`, `R` are block-sparse square environment blocks
(`is_qsparse(B, [q, qH, -q])`) and `W` is a block-sparse MPO tensor with square physical axes. -/
theorem local_step_sparse {k : EvoKernels 𝕂 ℝ} {L R : T3 𝕂} {W : T4 𝕂} {A A1 : T3 𝕂} {dt : 𝕂} {numiter : Nat}
    {qd qa qb qw qw' : List Int} (h : localHamiltonianStep k L R W A dt numiter = .ok A1)
    (hL : BlockSparse L qa qw) (hR : BlockSparse R qb qw') (hW : SparseT4 W qd qw qw')
    (sW : W.d0 = W.d1) (sL : L.d2 = L.d0) (sR : R.d2 = R.d0) (hA : SparseT3 A qd qa qb) :
    SparseT3 A1 qd qa qb ∧ A1.d0 = A.d0 ∧ A1.d1 = A.d1 ∧ A1.d2 = A.d2 :=
  localStep_sparse h hL hR hW sW sL sR hA

/-- **`minimize_sparse`**: the same for the tensor returned by `_minimize_local_energy`. -/
theorem minimize_sparse {k : EvoKernels 𝕂 ℝ} {L R : T3 𝕂} {W : T4 𝕂} {A Aopt : T3 𝕂} {en : ℝ} {numiter : Nat}
    {qd qa qb qw qw' : List Int} (h : minimizeLocalEnergy k L R W A numiter = .ok (en, Aopt))
    (hL : BlockSparse L qa qw) (hR : BlockSparse R qb qw') (hW : SparseT4 W qd qw qw')
    (sW : W.d0 = W.d1) (sL : L.d2 = L.d0) (sR : R.d2 = R.d0) (hA : SparseT3 A qd qa qb) :
    SparseT3 Aopt qd qa qb ∧ Aopt.d0 = A.d0 ∧ Aopt.d1 = A.d1 ∧ Aopt.d2 = A.d2 :=
  HistWf.minimize_sparse h hL hR hW sW sL sR hA

/-- **`local_bond_sparse`**: `apply_local_bond_contraction(L, R, C)` keeps the pattern "non-zero only between equal
charges" of a bond matrix. -/
theorem local_bond_sparse {L R : T3 𝕂} {C T : Mat 𝕂} {qa qb qw : List Int}
    (h : Op.applyLocalBondContraction L R C = .ok T)
    (hL : BlockSparse L qa qw) (hR : BlockSparse R qb qw) (hC : Sparse C qa qb) : Sparse T qa qb :=
  localBond_sparse h hL hR hC

/-- **`bond_step_sparse`**: `_local_bond_step(L, R, C, dt, numiter)` returns a block-sparse matrix of the shape of `C`. -/
theorem bond_step_sparse {k : EvoKernels 𝕂 ℝ} {L R : T3 𝕂} {C C1 : Mat 𝕂} {dt : 𝕂} {numiter : Nat}
    {qa qb qw : List Int} (h : localBondStep k L R C dt numiter = .ok C1)
    (hL : BlockSparse L qa qw) (hR : BlockSparse R qb qw) (sL : L.d2 = L.d0) (sR : R.d2 = R.d0)
    (hC : Sparse C qa qb) : Sparse C1 qa qb ∧ C1.m = C.m ∧ C1.n = C.n :=
  bondStep_sparse h hL hR sL sR hC

/-! ## environment blocks -/

/-- **`env_step_left_sparse`**: `BL[i+1] = contraction_operator_step_left(A, A, W, BL[i])` is square and satisfies
`is_qsparse(BL[i+1], [qD[i+1], H.qD[i+1], -qD[i+1]])`. -/
theorem env_step_left_sparse {A : T3 𝕂} {W : T4 𝕂} {E T : T3 𝕂} {qd qa qb qw qw' : List Int}
    (h : Op.opStepLeft A A W E = .ok T) (hA : SparseT3 A qd qa qb) (hW : SparseT4 W qd qw qw')
    (hE : BlockSparse E qa qw) : BlockSparse T qb qw' ∧ T.d0 = A.d2 ∧ T.d1 = W.d3 ∧ T.d2 = A.d2 :=
  opStepLeft_sparse h hA hA hW hE

/-- **`env_step_right_sparse`**: `BR[i-1] = contraction_operator_step_right(A, A, W, BR[i])` is square and satisfies
`is_qsparse(BR[i-1], [qD[i], H.qD[i], -qD[i]])` — the property asserted by the Python code for the initial blocks. -/
theorem env_step_right_sparse {A : T3 𝕂} {W : T4 𝕂} {E T : T3 𝕂} {qd qa qb qw qw' : List Int}
    (h : Op.opStepRight A A W E = .ok T) (hA : SparseT3 A qd qa qb) (hW : SparseT4 W qd qw qw')
    (hE : BlockSparse E qb qw') : BlockSparse T qa qw ∧ T.d0 = A.d1 ∧ T.d1 = W.d2 ∧ T.d2 = A.d1 :=
  opStepRight_sparse h hA hA hW hE

/-! ## the evolution operations -/

/-- compatibility of Hamiltonian and state: same physical charges, leading MPO bond charge zero -/
def EvoCompat (H : MPO 𝕂) (ψ : MPS 𝕂) : Prop := H.qd = ψ.qd ∧ (H.qD.getD 0 []).getD 0 0 = 0

/-- **`tdvp1_wf`**: `integrate_local_singlesite` maps a well-formed state to a well-formed state, for a well-formed
compatible Hamiltonian and every kernel family with the QR shape clause.  No admissibility (positive bond dimensions,
boundary bonds one) is needed. -/
theorem tdvp1_wf {k : EvoKernels 𝕂 ℝ} (hshape : ∀ B, ShapeAt k.dqr B) {H : MPO 𝕂} {ψ ψ' : MPS 𝕂} {dt : 𝕂}
    {numsteps numiter : Nat} {nrm : ℝ} (hH : H.wellFormed = true) (hψ : ψ.wellFormed = true) (hc : EvoCompat H ψ)
    (h : integrateLocalSinglesite k H ψ dt numsteps numiter = .ok (ψ', nrm)) : ψ'.wellFormed = true :=
  HistWf.tdvp1_wf hshape hψ (hOk_of_wf hH hc.1 hc.2) h

/-- **A.1 (TDVP1)** `step_wf_tdvp1`: the operation `tdvp1` keeps the pool invariant. -/
theorem step_wf_tdvp1 {k : StepKernels 𝕂 ℝ} (hk : ∀ B, ShapeAt k.dqr B) {p p' : Pool 𝕂} {iH iψ : Nat} {dt : 𝕂}
    {numsteps numiter : Nat} {out : List ℝ} (hp : poolWF p = true)
    (hc : ∀ H ψ, p[iH]? = some (.mpo H) → p[iψ]? = some (.mps ψ) → EvoCompat H ψ)
    (h : step k p (.tdvp1 iH iψ dt numsteps numiter) = .ok (p', out)) : poolWF p' = true := by
  simp only [step] at h
  split at h
  · rename_i H ψ hi hj
    simp only [Dense.bind_ok, Dense.pure_ok, Prod.mk.injEq] at h
    obtain ⟨⟨ψ', nrm⟩, hrun, rfl, _⟩ := h
    exact poolWF_set hp iψ (tdvp1_wf (k := k.evo) hk (poolWF_get hp hi) (poolWF_get hp hj) (hc H ψ hi hj) hrun)
  · cases h

/-- **`dmrg1_wf`**: `calculate_ground_state_local_singlesite` maps a well-formed state to a well-formed state (same
hypotheses as `tdvp1_wf`). -/
theorem dmrg1_wf {k : EvoKernels 𝕂 ℝ} (hshape : ∀ B, ShapeAt k.dqr B) {H : MPO 𝕂} {ψ ψ' : MPS 𝕂}
    {numsweeps numiter : Nat} {en : List ℝ} (hH : H.wellFormed = true) (hψ : ψ.wellFormed = true) (hc : EvoCompat H ψ)
    (h : dmrgSinglesite k H ψ numsweeps numiter = .ok (ψ', en)) : ψ'.wellFormed = true :=
  HistWf.dmrg1_wf hshape hψ (hOk_of_wf hH hc.1 hc.2) h

/-- **`tdvp2_wf`**: `integrate_local_twosite` maps a well-formed state to a well-formed state: QR and SVD shape clauses,
and the norm oracle is not positive on the empty vector (then a successful Lanczos run excludes merged tensors with an
axis of dimension zero, the only input on which `split_matrix_svd` returns an ill-formed triple).  Every truncation
tolerance, every norm / argsort / sqrt / eigen-solver / exponential oracle. -/
theorem tdvp2_wf {k : EvoKernels 𝕂 ℝ} (hshape : ∀ B, ShapeAt k.dqr B) (hsvd : ∀ B, SvdShapeAt k.svd.dsvd B)
    (hn0 : ¬ 0 < k.cnorm []) {H : MPO 𝕂} {ψ ψ' : MPS 𝕂} {dt : 𝕂} {numsteps numiter : Nat} {tol nrm : ℝ}
    (hH : H.wellFormed = true) (hψ : ψ.wellFormed = true) (hc : EvoCompat H ψ)
    (h : integrateLocalTwosite k H ψ dt numsteps numiter tol = .ok (ψ', nrm)) : ψ'.wellFormed = true :=
  HistWf.tdvp2_wf hshape hsvd hn0 hψ (hOk_of_wf hH hc.1 hc.2) h

/-- **`dmrg2_wf`**: the same for `calculate_ground_state_local_twosite`. -/
theorem dmrg2_wf {k : EvoKernels 𝕂 ℝ} (hshape : ∀ B, ShapeAt k.dqr B) (hsvd : ∀ B, SvdShapeAt k.svd.dsvd B)
    (hn0 : ¬ 0 < k.cnorm []) {H : MPO 𝕂} {ψ ψ' : MPS 𝕂} {numsweeps numiter : Nat} {tol : ℝ} {en : List ℝ}
    (hH : H.wellFormed = true) (hψ : ψ.wellFormed = true) (hc : EvoCompat H ψ)
    (h : dmrgTwosite k H ψ numsweeps numiter tol = .ok (ψ', en)) : ψ'.wellFormed = true :=
  HistWf.dmrg2_wf hshape hsvd hn0 hψ (hOk_of_wf hH hc.1 hc.2) h

/-! ## one call, all operations -/

/-- side condition of an evolution call: Hamiltonian and state are compatible (`True` for every other operation) -/
def EvoOK (p : Pool 𝕂) : HOp 𝕂 ℝ → Prop
  | .tdvp1 iH iψ _ _ _ | .tdvp2 iH iψ _ _ _ _ | .dmrg1 iH iψ _ _ | .dmrg2 iH iψ _ _ _ =>
    ∀ H ψ, p[iH]? = some (.mpo H) → p[iψ]? = some (.mps ψ) → EvoCompat H ψ
  | _ => True

/-- **A.1 (TDVP / DMRG)** `step_wf_evo`: each of the four evolution operations keeps the pool invariant — kernels with the
QR / SVD shape clauses and a norm oracle that is not positive on the empty vector, compatible Hamiltonian. -/
theorem step_wf_evo {k : StepKernels 𝕂 ℝ} (hk : KernelShapes k) (hn0 : ¬ 0 < k.cnorm []) {p p' : Pool 𝕂}
    {op : HOp 𝕂 ℝ} {out : List ℝ} (hevo : HOp.isEvo op = true) (hp : poolWF p = true) (hc : EvoOK p op)
    (h : step k p op = .ok (p', out)) : poolWF p' = true := by
  cases op with
  | tdvp1 iH iψ dt numsteps numiter => exact step_wf_tdvp1 hk.qr hp hc h
  | tdvp2 iH iψ dt numsteps numiter tol =>
    simp only [step] at h
    split at h
    · rename_i H ψ hi hj
      simp only [Dense.bind_ok, Dense.pure_ok, Prod.mk.injEq] at h
      obtain ⟨⟨ψ', nrm⟩, hrun, rfl, _⟩ := h
      exact poolWF_set hp iψ (tdvp2_wf (k := k.evo) hk.qr hk.svd hn0 (poolWF_get hp hi) (poolWF_get hp hj)
        (hc H ψ hi hj) hrun)
    · cases h
  | dmrg1 iH iψ numsweeps numiter =>
    simp only [step] at h
    split at h
    · rename_i H ψ hi hj
      simp only [Dense.bind_ok, Dense.pure_ok, Prod.mk.injEq] at h
      obtain ⟨⟨ψ', en⟩, hrun, rfl, _⟩ := h
      exact poolWF_set hp iψ (dmrg1_wf (k := k.evo) hk.qr (poolWF_get hp hi) (poolWF_get hp hj) (hc H ψ hi hj) hrun)
    · cases h
  | dmrg2 iH iψ numsweeps numiter tol =>
    simp only [step] at h
    split at h
    · rename_i H ψ hi hj
      simp only [Dense.bind_ok, Dense.pure_ok, Prod.mk.injEq] at h
      obtain ⟨⟨ψ', en⟩, hrun, rfl, _⟩ := h
      exact poolWF_set hp iψ (dmrg2_wf (k := k.evo) hk.qr hk.svd hn0 (poolWF_get hp hi) (poolWF_get hp hj)
        (hc H ψ hi hj) hrun)
    · cases h
  | _ => cases hevo

/-- **A.1 (all operations)** `step_wf_all`: one call of ANY operation of the history model keeps the invariant, provided
the scale returned by a left-mode `compress` is non-zero (`ScaleOK`, see `Props/C02.lean`) and the Hamiltonian of an
evolution call is compatible with the state (`EvoOK`). -/
theorem step_wf_all {k : StepKernels 𝕂 ℝ} (hk : KernelShapes k) (habs : k.dabs 0 = 0) (hn0 : ¬ 0 < k.cnorm [])
    {p p' : Pool 𝕂} {op : HOp 𝕂 ℝ} {out : List ℝ} (hp : poolWF p = true) (hc : EvoOK p op)
    (h : step k p op = .ok (p', out)) (hsc : ScaleOK op out) : poolWF p' = true := by
  cases hevo : HOp.isEvo op with
  | false => exact step_wf_of_scale hk habs hevo hp h hsc
  | true => exact step_wf_evo hk hn0 hevo hp hc h

/-! ## histories with all operations -/

/-- along the history every evolution call has a compatible Hamiltonian and every left-mode `compress` returns a
non-zero scale -/
def AllOKRun : Pool 𝕂 → History 𝕂 ℝ → Prop
  | _, [] => True
  | p, (k, op) :: h => EvoOK p op ∧ ∀ p1 out, step k p op = .ok (p1, out) → ScaleOK op out ∧ AllOKRun p1 h

/-- **A.2 (all operations)** `run_wf_all`: every state reached by ANY history of operations of the model (TDVP and DMRG
included) satisfies the invariant, under the side conditions `AllOKRun`.  The pool invariant is `poolWF` alone: the
evolution operations need no admissibility of their arguments. -/
theorem run_wf_all {p p' : Pool 𝕂} {h : History 𝕂 ℝ}
    (hk : ∀ kop ∈ h, KernelShapes kop.1 ∧ kop.1.dabs 0 = 0 ∧ ¬ 0 < kop.1.cnorm [])
    (hp : poolWF p = true) (hr : run p h = .ok p') (hok : AllOKRun p h) : poolWF p' = true := by
  induction h generalizing p with
  | nil =>
    simp only [run_nil, Except.ok.injEq] at hr
    rw [← hr]; exact hp
  | cons kop h ih =>
    obtain ⟨k, op⟩ := kop
    obtain ⟨p1, out, hs, hr'⟩ := run_cons_ok.1 hr
    obtain ⟨hc, hrest⟩ := hok
    obtain ⟨n1, n2⟩ := hrest p1 out hs
    obtain ⟨k1, k2, k3⟩ := hk (k, op) List.mem_cons_self
    exact ih (fun kop hk' => hk kop (List.mem_cons_of_mem _ hk')) (step_wf_all k1 k2 k3 hp hc hs n1) hr' n2

/-- every intermediate state of such a history satisfies the invariant -/
theorem run_wf_all_prefix {p p1 : Pool 𝕂} {h1 h2 : History 𝕂 ℝ}
    (hk : ∀ kop ∈ h1 ++ h2, KernelShapes kop.1 ∧ kop.1.dabs 0 = 0 ∧ ¬ 0 < kop.1.cnorm [])
    (hp : poolWF p = true) (hr : run p h1 = .ok p1) (hok : AllOKRun p h1) : poolWF p1 = true :=
  run_wf_all (fun kop hm => hk kop (List.mem_append_left _ hm)) hp hr hok

end Ptn.C02

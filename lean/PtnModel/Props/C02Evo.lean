import PtnModel.Props.C02
import PtnModel.Proofs.HistEvoTwo
import PtnModel.Proofs.HistEvoBoundary4
import PtnModel.Proofs.HistEvoExample
/-!
# Property C02, TDVP / DMRG part (block sparsity is an invariant of the evolution operations)

Continuation of `Props/C02.lean` for the operations `tdvp1`, `tdvp2`, `dmrg1`, `dmrg2` of the history model
(`integrate_local_singlesite`, `integrate_local_twosite`, `calculate_ground_state_local_singlesite`,
`calculate_ground_state_local_twosite`, in place on the state).  Setting: entries in `𝕂 = ℝ` or `ℂ` (`RCLike`), real
oracle outputs in `ℝ`, exact arithmetic.  All dense kernels (QR, SVD, vector norm, tridiagonal eigen-solver, scalar and
matrix exponential, square root) are oracle arguments; **only the shape clause of the QR kernel (and of the SVD kernel for
the two-site methods) is assumed** — nothing about the Krylov oracles.

Side conditions on the Hamiltonian (`EvoCompat H ψ`), both necessary and not checked by the Python code:
* `H.qd = ψ.qd`: the MPO tensors are block sparse w.r.t. the physical charges *of the state* (the code only asserts
  `is_qsparse` of the initial right blocks; for `ψ.qd = [0,1]`, `H.qd = [0,0]`, `H = X` on one site the evolved tensor
  `exp(-dt X)|1⟩` has both components non-zero);
* the leading MPO bond charge is zero (`H.qD[0][0] = 0`; the trailing one is zero by the assertion on `BR[L-1]`):
  otherwise `H` shifts the charge sector and `BL[0] = [[[1]]]` is not block sparse.

What is proved:

* `krylov_sector_closed`, `lanczos_sector_closed`, `eigh_sector_closed`: a coordinate sector (vectors vanishing on a set
  `Z` of positions) that contains the start vector and is preserved by `Afunc` contains every Lanczos vector, the result
  of `expm_krylov(…, hermitian=True)` and every Ritz vector of `eigh_krylov` — for EVERY norm / eigen-solver /
  exponential oracle, over every field.
* `local_step_sparse`, `bond_step_sparse`, `minimize_sparse`, `local_bond_sparse`: `_local_hamiltonian_step`,
  `_local_bond_step`, `_minimize_local_energy` return block-sparse tensors of the shape of their input when the
  environment blocks are block sparse and square and `W` is a block-sparse MPO tensor (`localH_sparse` of `Props/C02.lean`
  gives the `H_eff`-step, `local_bond_sparse` its zero-site analogue).
* `env_step_left_sparse`, `env_step_right_sparse`: the contraction steps keep `is_qsparse(B, [q, qH, -q])`.
* Sweep invariant `HistWf.EvoSparse H qd s cl cr` (`Proofs/HistEvoInv.lean`): array sizes, every site tensor well-formed
  w.r.t. the current charges, `BL[j]` (`j ≤ cl`) and `BR[j]` (`j ≥ cr`) square and block sparse w.r.t. the current
  charges; established by the prologue (the initial right blocks by the code's own assertion), preserved by every loop
  body of the four drivers.  QR steps: the reshaped `Q` factor and the `R`-push are block sparse by C11; two-site
  updates: `split_mps_tensor` re-asserts the sparsity of its input and its outputs are reshaped `u`, `v` factors (C12).
  No positivity of bond dimensions is assumed anywhere.
* `tdvp1_wf`, `dmrg1_wf`, `tdvp2_wf`, `dmrg2_wf`: each driver maps a well-formed state to a well-formed state;
  `step_wf_tdvp1`, `step_wf_evo`: the pool invariant is kept by the four operations; `step_wf_all`, `run_wf_all`,
  `run_wf_all_prefix`: one call / any history of ANY operations of the model keeps `poolWF` (per-call side conditions:
  `EvoOK` for evolution calls, `ScaleOK` for left-mode `compress`); `evo_compat_kept`: the side condition persists along
  repeated evolutions.  The two-site methods additionally use the SVD shape clause and "the vector-norm oracle is not
  positive on the empty vector" (a successful Lanczos run then excludes merged tensors with an axis of dimension zero, the
  only input on which `split_matrix_svd` returns an ill-formed triple).
* Boundary charges: `boundary_kept_tdvp2`, `boundary_kept_tdvp2_nonzero` (two-site TDVP, full clause);
  `boundary_kept_dmrg1_contract` (single-site DMRG, `L ≥ 2`, non-zero state, contracts of C10);
  `boundary_last_kept_dmrg1_partial`, `boundary_last_kept_dmrg2_partial` (trailing charge only, shape clause only).
  Not proved: `qD[0]` for two-site DMRG and for single-site DMRG without contracts (see `obligations/C02.json`).
-/
set_option linter.unusedSectionVars false
namespace Ptn.C02
open Ptn.Hist Ptn.HistWf Ptn.BondOps Ptn.Ortho Ptn.Krylov Ptn.Evo

/-! ## sectors and the Krylov routines -/

section krylov
variable {α ρ : Type} [Field α] [HasConj α] [RealLike ρ α] [OfNat ρ 0] [NatCast ρ] [Div ρ] [LT ρ] [DecidableLT ρ]
variable {Afun : List α → List α} {dnorm : List α → ρ} {deigh : List ρ → List ρ → List ρ × Mat ρ} {dexp : α → α}
  {dexpm : Mat α → Mat α} {Z : Nat → Prop}

/-- **`lanczos_sector_closed`**: every column of the matrix `V` returned by `lanczos_iteration` vanishes on `Z` when the
start vector does and `Afunc` preserves the sector — every norm oracle. -/
theorem lanczos_sector_closed (hA : ∀ x, InSector Z x → InSector Z (Afun x)) {v : List α} (hv : InSector Z v)
    {numiter : Nat} {alpha beta : List ρ} {V : Mat α} (h : lanczos Afun dnorm v numiter = .ok (alpha, beta, V)) :
    ∀ i c, Z i → V.f i c = 0 :=
  lanczos_cols hA hv h

/-- **`krylov_sector_closed`**: the result of `expm_krylov(Afunc, v, dt, numiter, hermitian=True)` lies in every
coordinate sector that contains `v` and is preserved by `Afunc` — for every oracle `dnorm`, `deigh`, `dexp`. -/
theorem krylov_sector_closed (hA : ∀ x, InSector Z x → InSector Z (Afun x)) {v : List α} (hv : InSector Z v)
    {dt : α} {numiter : Nat} {y : List α}
    (h : expmKrylov Afun dnorm deigh dexp dexpm v dt numiter true = .ok y) : InSector Z y :=
  expmKrylov_inSector hA hv h

/-- **`eigh_sector_closed`**: the same for every Ritz vector returned by `eigh_krylov`. -/
theorem eigh_sector_closed (hA : ∀ x, InSector Z x → InSector Z (Afun x)) {v : List α} (hv : InSector Z v)
    {numiter numeig : Nat} {w : List ρ} {u : Mat α}
    (h : eighKrylov Afun dnorm deigh v numiter numeig = .ok (w, u)) : ∀ i e, Z i → u.f i e = 0 :=
  eighKrylov_cols hA hv h

end krylov

variable {𝕂 : Type} [RCLike 𝕂] [DecidableEq 𝕂]

/-! ## the site-local steps -/

/-- **`local_step_sparse`**: `_local_hamiltonian_step(L, R, W, A, dt, numiter)` returns a tensor of the shape of `A` that is
block sparse w.r.t. the charges `(qd, qa, qb)` of `A`, when `L`, `R` are block-sparse square environment blocks
(`is_qsparse(B, [q, qH, -q])`) and `W` is a block-sparse MPO tensor with square physical axes. -/
theorem local_step_sparse {k : EvoKernels 𝕂 ℝ} {L R : T3 𝕂} {W : T4 𝕂} {A A1 : T3 𝕂} {dt : 𝕂} {numiter : Nat}
    {qd qa qb qw qw' : List Int} (h : localHamiltonianStep k L R W A dt numiter = .ok A1)
    (hL : BlockSparse L qa qw) (hR : BlockSparse R qb qw') (hW : SparseT4 W qd qw qw')
    (sW : W.d0 = W.d1) (sL : L.d2 = L.d0) (sR : R.d2 = R.d0) (hA : SparseT3 A qd qa qb) :
    SparseT3 A1 qd qa qb ∧ A1.d0 = A.d0 ∧ A1.d1 = A.d1 ∧ A1.d2 = A.d2 :=
  localStep_sparse h hL hR hW sW sL sR hA

/-- **`minimize_sparse`**: the same for the tensor returned by `_minimize_local_energy`. -/
theorem minimize_sparse {k : EvoKernels 𝕂 ℝ} {L R : T3 𝕂} {W : T4 𝕂} {A Aopt : T3 𝕂} {en : ℝ} {numiter : Nat}
    {qd qa qb qw qw' : List Int} (h : minimizeLocalEnergy k L R W A numiter = .ok (en, Aopt))
    (hL : BlockSparse L qa qw) (hR : BlockSparse R qb qw') (hW : SparseT4 W qd qw qw')
    (sW : W.d0 = W.d1) (sL : L.d2 = L.d0) (sR : R.d2 = R.d0) (hA : SparseT3 A qd qa qb) :
    SparseT3 Aopt qd qa qb ∧ Aopt.d0 = A.d0 ∧ Aopt.d1 = A.d1 ∧ Aopt.d2 = A.d2 :=
  HistWf.minimize_sparse h hL hR hW sW sL sR hA

/-- **`local_bond_sparse`**: `apply_local_bond_contraction(L, R, C)` keeps the pattern "non-zero only between equal
charges" of a bond matrix. -/
theorem local_bond_sparse {L R : T3 𝕂} {C T : Mat 𝕂} {qa qb qw : List Int}
    (h : Op.applyLocalBondContraction L R C = .ok T)
    (hL : BlockSparse L qa qw) (hR : BlockSparse R qb qw) (hC : Sparse C qa qb) : Sparse T qa qb :=
  localBond_sparse h hL hR hC

/-- **`bond_step_sparse`**: `_local_bond_step(L, R, C, dt, numiter)` returns a block-sparse matrix of the shape of `C`. -/
theorem bond_step_sparse {k : EvoKernels 𝕂 ℝ} {L R : T3 𝕂} {C C1 : Mat 𝕂} {dt : 𝕂} {numiter : Nat}
    {qa qb qw : List Int} (h : localBondStep k L R C dt numiter = .ok C1)
    (hL : BlockSparse L qa qw) (hR : BlockSparse R qb qw) (sL : L.d2 = L.d0) (sR : R.d2 = R.d0)
    (hC : Sparse C qa qb) : Sparse C1 qa qb ∧ C1.m = C.m ∧ C1.n = C.n :=
  bondStep_sparse h hL hR sL sR hC

/-! ## environment blocks -/

/-- **`env_step_left_sparse`**: `BL[i+1] = contraction_operator_step_left(A, A, W, BL[i])` is square and satisfies
`is_qsparse(BL[i+1], [qD[i+1], H.qD[i+1], -qD[i+1]])`. -/
theorem env_step_left_sparse {A : T3 𝕂} {W : T4 𝕂} {E T : T3 𝕂} {qd qa qb qw qw' : List Int}
    (h : Op.opStepLeft A A W E = .ok T) (hA : SparseT3 A qd qa qb) (hW : SparseT4 W qd qw qw')
    (hE : BlockSparse E qa qw) : BlockSparse T qb qw' ∧ T.d0 = A.d2 ∧ T.d1 = W.d3 ∧ T.d2 = A.d2 :=
  opStepLeft_sparse h hA hA hW hE

/-- **`env_step_right_sparse`**: `BR[i-1] = contraction_operator_step_right(A, A, W, BR[i])` is square and satisfies
`is_qsparse(BR[i-1], [qD[i], H.qD[i], -qD[i]])` — the property asserted by the Python code for the initial blocks. -/
theorem env_step_right_sparse {A : T3 𝕂} {W : T4 𝕂} {E T : T3 𝕂} {qd qa qb qw qw' : List Int}
    (h : Op.opStepRight A A W E = .ok T) (hA : SparseT3 A qd qa qb) (hW : SparseT4 W qd qw qw')
    (hE : BlockSparse E qb qw') : BlockSparse T qa qw ∧ T.d0 = A.d1 ∧ T.d1 = W.d2 ∧ T.d2 = A.d1 :=
  opStepRight_sparse h hA hA hW hE

/-! ## the evolution operations -/

/-- compatibility of Hamiltonian and state: same physical charges, leading MPO bond charge zero -/
def EvoCompat (H : MPO 𝕂) (ψ : MPS 𝕂) : Prop := H.qd = ψ.qd ∧ (H.qD.getD 0 []).getD 0 0 = 0

/-- **`tdvp1_wf`**: `integrate_local_singlesite` maps a well-formed state to a well-formed state, for a well-formed
compatible Hamiltonian and every kernel family with the QR shape clause.  No admissibility (positive bond dimensions,
boundary bonds one) is needed. -/
theorem tdvp1_wf {k : EvoKernels 𝕂 ℝ} (hshape : ∀ B, ShapeAt k.dqr B) {H : MPO 𝕂} {ψ ψ' : MPS 𝕂} {dt : 𝕂}
    {numsteps numiter : Nat} {nrm : ℝ} (hH : H.wellFormed = true) (hψ : ψ.wellFormed = true) (hc : EvoCompat H ψ)
    (h : integrateLocalSinglesite k H ψ dt numsteps numiter = .ok (ψ', nrm)) : ψ'.wellFormed = true :=
  HistWf.tdvp1_wf hshape hψ (hOk_of_wf hH hc.1 hc.2) h

/-- **A.1 (TDVP1)** `step_wf_tdvp1`: the operation `tdvp1` keeps the pool invariant. -/
theorem step_wf_tdvp1 {k : StepKernels 𝕂 ℝ} (hk : ∀ B, ShapeAt k.dqr B) {p p' : Pool 𝕂} {iH iψ : Nat} {dt : 𝕂}
    {numsteps numiter : Nat} {out : List ℝ} (hp : poolWF p = true)
    (hc : ∀ H ψ, p[iH]? = some (.mpo H) → p[iψ]? = some (.mps ψ) → EvoCompat H ψ)
    (h : step k p (.tdvp1 iH iψ dt numsteps numiter) = .ok (p', out)) : poolWF p' = true := by
  simp only [step] at h
  split at h
  · rename_i H ψ hi hj
    simp only [Dense.bind_ok, Dense.pure_ok, Prod.mk.injEq] at h
    obtain ⟨⟨ψ', nrm⟩, hrun, rfl, _⟩ := h
    exact poolWF_set hp iψ (tdvp1_wf (k := k.evo) hk (poolWF_get hp hi) (poolWF_get hp hj) (hc H ψ hi hj) hrun)
  · cases h

/-- **`dmrg1_wf`**: `calculate_ground_state_local_singlesite` maps a well-formed state to a well-formed state (same
hypotheses as `tdvp1_wf`). -/
theorem dmrg1_wf {k : EvoKernels 𝕂 ℝ} (hshape : ∀ B, ShapeAt k.dqr B) {H : MPO 𝕂} {ψ ψ' : MPS 𝕂}
    {numsweeps numiter : Nat} {en : List ℝ} (hH : H.wellFormed = true) (hψ : ψ.wellFormed = true) (hc : EvoCompat H ψ)
    (h : dmrgSinglesite k H ψ numsweeps numiter = .ok (ψ', en)) : ψ'.wellFormed = true :=
  HistWf.dmrg1_wf hshape hψ (hOk_of_wf hH hc.1 hc.2) h

/-- **`tdvp2_wf`**: `integrate_local_twosite` maps a well-formed state to a well-formed state: QR and SVD shape clauses,
and the norm oracle is not positive on the empty vector (then a successful Lanczos run excludes merged tensors with an
axis of dimension zero, the only input on which `split_matrix_svd` returns an ill-formed triple).  Every truncation
tolerance, every norm / argsort / sqrt / eigen-solver / exponential oracle. -/
theorem tdvp2_wf {k : EvoKernels 𝕂 ℝ} (hshape : ∀ B, ShapeAt k.dqr B) (hsvd : ∀ B, SvdShapeAt k.svd.dsvd B)
    (hn0 : ¬ 0 < k.cnorm []) {H : MPO 𝕂} {ψ ψ' : MPS 𝕂} {dt : 𝕂} {numsteps numiter : Nat} {tol nrm : ℝ}
    (hH : H.wellFormed = true) (hψ : ψ.wellFormed = true) (hc : EvoCompat H ψ)
    (h : integrateLocalTwosite k H ψ dt numsteps numiter tol = .ok (ψ', nrm)) : ψ'.wellFormed = true :=
  HistWf.tdvp2_wf hshape hsvd hn0 hψ (hOk_of_wf hH hc.1 hc.2) h

/-- **`dmrg2_wf`**: the same for `calculate_ground_state_local_twosite`. -/
theorem dmrg2_wf {k : EvoKernels 𝕂 ℝ} (hshape : ∀ B, ShapeAt k.dqr B) (hsvd : ∀ B, SvdShapeAt k.svd.dsvd B)
    (hn0 : ¬ 0 < k.cnorm []) {H : MPO 𝕂} {ψ ψ' : MPS 𝕂} {numsweeps numiter : Nat} {tol : ℝ} {en : List ℝ}
    (hH : H.wellFormed = true) (hψ : ψ.wellFormed = true) (hc : EvoCompat H ψ)
    (h : dmrgTwosite k H ψ numsweeps numiter tol = .ok (ψ', en)) : ψ'.wellFormed = true :=
  HistWf.dmrg2_wf hshape hsvd hn0 hψ (hOk_of_wf hH hc.1 hc.2) h

/-! ## one call, all operations -/

/-- side condition of an evolution call: Hamiltonian and state are compatible (`True` for every other operation) -/
def EvoOK (p : Pool 𝕂) : HOp 𝕂 ℝ → Prop
  | .tdvp1 iH iψ _ _ _ | .tdvp2 iH iψ _ _ _ _ | .dmrg1 iH iψ _ _ | .dmrg2 iH iψ _ _ _ =>
    ∀ H ψ, p[iH]? = some (.mpo H) → p[iψ]? = some (.mps ψ) → EvoCompat H ψ
  | _ => True

/-- **A.1 (TDVP / DMRG)** `step_wf_evo`: each of the four evolution operations keeps the pool invariant — kernels with the
QR / SVD shape clauses and a norm oracle that is not positive on the empty vector, compatible Hamiltonian. -/
theorem step_wf_evo {k : StepKernels 𝕂 ℝ} (hk : KernelShapes k) (hn0 : ¬ 0 < k.cnorm []) {p p' : Pool 𝕂}
    {op : HOp 𝕂 ℝ} {out : List ℝ} (hevo : HOp.isEvo op = true) (hp : poolWF p = true) (hc : EvoOK p op)
    (h : step k p op = .ok (p', out)) : poolWF p' = true := by
  cases op with
  | tdvp1 iH iψ dt numsteps numiter => exact step_wf_tdvp1 hk.qr hp hc h
  | tdvp2 iH iψ dt numsteps numiter tol =>
    simp only [step] at h
    split at h
    · rename_i H ψ hi hj
      simp only [Dense.bind_ok, Dense.pure_ok, Prod.mk.injEq] at h
      obtain ⟨⟨ψ', nrm⟩, hrun, rfl, _⟩ := h
      exact poolWF_set hp iψ (tdvp2_wf (k := k.evo) hk.qr hk.svd hn0 (poolWF_get hp hi) (poolWF_get hp hj)
        (hc H ψ hi hj) hrun)
    · cases h
  | dmrg1 iH iψ numsweeps numiter =>
    simp only [step] at h
    split at h
    · rename_i H ψ hi hj
      simp only [Dense.bind_ok, Dense.pure_ok, Prod.mk.injEq] at h
      obtain ⟨⟨ψ', en⟩, hrun, rfl, _⟩ := h
      exact poolWF_set hp iψ (dmrg1_wf (k := k.evo) hk.qr (poolWF_get hp hi) (poolWF_get hp hj) (hc H ψ hi hj) hrun)
    · cases h
  | dmrg2 iH iψ numsweeps numiter tol =>
    simp only [step] at h
    split at h
    · rename_i H ψ hi hj
      simp only [Dense.bind_ok, Dense.pure_ok, Prod.mk.injEq] at h
      obtain ⟨⟨ψ', en⟩, hrun, rfl, _⟩ := h
      exact poolWF_set hp iψ (dmrg2_wf (k := k.evo) hk.qr hk.svd hn0 (poolWF_get hp hi) (poolWF_get hp hj)
        (hc H ψ hi hj) hrun)
    · cases h
  | _ => cases hevo

/-- **A.1 (all operations)** `step_wf_all`: one call of ANY operation of the history model keeps the invariant, provided
the scale returned by a left-mode `compress` is non-zero (`ScaleOK`, see `Props/C02.lean`) and the Hamiltonian of an
evolution call is compatible with the state (`EvoOK`). -/
theorem step_wf_all {k : StepKernels 𝕂 ℝ} (hk : KernelShapes k) (habs : k.dabs 0 = 0) (hn0 : ¬ 0 < k.cnorm [])
    {p p' : Pool 𝕂} {op : HOp 𝕂 ℝ} {out : List ℝ} (hp : poolWF p = true) (hc : EvoOK p op)
    (h : step k p op = .ok (p', out)) (hsc : ScaleOK op out) : poolWF p' = true := by
  cases hevo : HOp.isEvo op with
  | false => exact step_wf_of_scale hk habs hevo hp h hsc
  | true => exact step_wf_evo hk hn0 hevo hp hc h

/-! ## the side condition persists -/

theorem evoOK_set {p : Pool 𝕂} {iH iψ : Nat} {H : MPO 𝕂} {ψ ψ' : MPS 𝕂} (hi : p[iH]? = some (.mpo H))
    (hj : p[iψ]? = some (.mps ψ)) (hqd : ψ'.qd = ψ.qd) (hc : EvoCompat H ψ) :
    ∀ H' ψ'', (p.set iψ (.mps ψ'))[iH]? = some (.mpo H') → (p.set iψ (.mps ψ'))[iψ]? = some (.mps ψ'') →
      EvoCompat H' ψ'' := by
  intro H' ψ'' h1 h2
  have hne : iψ ≠ iH := by
    intro e
    rw [e, hi] at hj
    cases hj
  have hlt : iψ < p.length := (List.getElem?_eq_some_iff.1 hj).1
  rw [List.getElem?_set_ne hne, hi] at h1
  rw [List.getElem?_set_self hlt] at h2
  cases h1
  cases h2
  exact ⟨hc.1.trans hqd.symm, hc.2⟩

/-- **`evo_compat_kept`**: an evolution call keeps the physical charges of the state and does not touch the Hamiltonian, so
the compatibility condition for the same pair of slots holds again after the call (C19 frame property, restated here to
make `AllOKRun` checkable along repeated evolutions). -/
theorem evo_compat_kept {k : StepKernels 𝕂 ℝ} {p p' : Pool 𝕂} {op : HOp 𝕂 ℝ} {out : List ℝ}
    (hevo : HOp.isEvo op = true) (hc : EvoOK p op) (h : step k p op = .ok (p', out)) : EvoOK p' op := by
  cases op with
  | tdvp1 iH iψ dt numsteps numiter =>
    simp only [step] at h
    split at h
    · rename_i H ψ hi hj
      simp only [Dense.bind_ok, Dense.pure_ok, Prod.mk.injEq] at h
      obtain ⟨⟨ψ', nrm⟩, hrun, rfl, _⟩ := h
      obtain ⟨s0, s, _, _, _, rfl⟩ := integrate1_unfold hrun
      exact evoOK_set hi hj rfl (hc H ψ hi hj)
    · cases h
  | tdvp2 iH iψ dt numsteps numiter tol =>
    simp only [step] at h
    split at h
    · rename_i H ψ hi hj
      simp only [Dense.bind_ok, Dense.pure_ok, Prod.mk.injEq] at h
      obtain ⟨⟨ψ', nrm⟩, hrun, rfl, _⟩ := h
      obtain ⟨s0, s, _, _, _, rfl⟩ := integrate2_unfold hrun
      exact evoOK_set hi hj rfl (hc H ψ hi hj)
    · cases h
  | dmrg1 iH iψ numsweeps numiter =>
    simp only [step] at h
    split at h
    · rename_i H ψ hi hj
      simp only [Dense.bind_ok, Dense.pure_ok, Prod.mk.injEq] at h
      obtain ⟨⟨ψ', en⟩, hrun, rfl, _⟩ := h
      obtain ⟨s0, nrm, s, _, _, rfl⟩ := dmrgSinglesite_unfold hrun
      exact evoOK_set hi hj rfl (hc H ψ hi hj)
    · cases h
  | dmrg2 iH iψ numsweeps numiter tol =>
    simp only [step] at h
    split at h
    · rename_i H ψ hi hj
      simp only [Dense.bind_ok, Dense.pure_ok, Prod.mk.injEq] at h
      obtain ⟨⟨ψ', en⟩, hrun, rfl, _⟩ := h
      have hqd : ψ'.qd = ψ.qd := by
        unfold dmrgTwosite at hrun
        simp only [Dense.bind_ok] at hrun
        obtain ⟨⟨s0, nrm⟩, _, ⟨s, en'⟩, _, hrun⟩ := hrun
        rw [Dense.pure_ok] at hrun
        injection hrun with ha _
        rw [← ha]; rfl
      exact evoOK_set hi hj hqd (hc H ψ hi hj)
    · cases h
  | _ => cases hevo

/-! ## histories with all operations -/

/-- along the history every evolution call has a compatible Hamiltonian and every left-mode `compress` returns a
non-zero scale -/
def AllOKRun : Pool 𝕂 → History 𝕂 ℝ → Prop
  | _, [] => True
  | p, (k, op) :: h => EvoOK p op ∧ ∀ p1 out, step k p op = .ok (p1, out) → ScaleOK op out ∧ AllOKRun p1 h

/-- **A.2 (all operations)** `run_wf_all`: every state reached by ANY history of operations of the model (TDVP and DMRG
included) satisfies the invariant, under the side conditions `AllOKRun`.  The pool invariant is `poolWF` alone: the
evolution operations need no admissibility of their arguments. -/
theorem run_wf_all {p p' : Pool 𝕂} {h : History 𝕂 ℝ}
    (hk : ∀ kop ∈ h, KernelShapes kop.1 ∧ kop.1.dabs 0 = 0 ∧ ¬ 0 < kop.1.cnorm [])
    (hp : poolWF p = true) (hr : run p h = .ok p') (hok : AllOKRun p h) : poolWF p' = true := by
  induction h generalizing p with
  | nil =>
    simp only [run_nil, Except.ok.injEq] at hr
    rw [← hr]; exact hp
  | cons kop h ih =>
    obtain ⟨k, op⟩ := kop
    obtain ⟨p1, out, hs, hr'⟩ := run_cons_ok.1 hr
    obtain ⟨hc, hrest⟩ := hok
    obtain ⟨n1, n2⟩ := hrest p1 out hs
    obtain ⟨k1, k2, k3⟩ := hk (k, op) List.mem_cons_self
    exact ih (fun kop hk' => hk kop (List.mem_cons_of_mem _ hk')) (step_wf_all k1 k2 k3 hp hc hs n1) hr' n2

/-- every intermediate state of such a history satisfies the invariant -/
theorem run_wf_all_prefix {p p1 : Pool 𝕂} {h1 h2 : History 𝕂 ℝ}
    (hk : ∀ kop ∈ h1 ++ h2, KernelShapes kop.1 ∧ kop.1.dabs 0 = 0 ∧ ¬ 0 < kop.1.cnorm [])
    (hp : poolWF p = true) (hr : run p h1 = .ok p1) (hok : AllOKRun p h1) : poolWF p1 = true :=
  run_wf_all (fun kop hm => hk kop (List.mem_append_left _ hm)) hp hr hok

/-! ## A.3 boundary charges (two-site TDVP) -/

/-- **A.3 (TDVP2)** `boundary_kept_tdvp2`: two-site TDVP never rewrites `qD[0]`, `qD[L]` in its sweeps (a two-site update at
`i, i+1` rewrites `qD[i+1]`, `1 ≤ i+1 ≤ L-1`); the right-orthonormalization of the prologue keeps them when the returned
norm is non-zero.  Admissible input, QR shape clause only, every SVD / truncation / Krylov oracle. -/
theorem boundary_kept_tdvp2 {k : EvoKernels 𝕂 ℝ} (hshape : ∀ B, ShapeAt k.dqr B) {H : MPO 𝕂} {ψ ψ' : MPS 𝕂} {dt : 𝕂}
    {numsteps numiter : Nat} {tol nrm : ℝ} (hadm : Admissible ψ)
    (h : integrateLocalTwosite k H ψ dt numsteps numiter tol = .ok (ψ', nrm)) (hn : nrm ≠ 0) :
    ψ'.qD.head? = ψ.qD.head? ∧ ψ'.qD.getLast? = ψ.qD.getLast? :=
  tdvp2_boundary hshape hadm h hn

/-- **A.3 (TDVP2, non-zero state)** for a non-zero state and a kernel with the full QR contract of C01. -/
theorem boundary_kept_tdvp2_nonzero {k : EvoKernels 𝕂 ℝ} (hc : C01.QRKernel k.dqr) {H : MPO 𝕂} {ψ ψ' : MPS 𝕂} {dt : 𝕂}
    {numsteps numiter : Nat} {tol nrm : ℝ} (hadm : Admissible ψ)
    (h : integrateLocalTwosite k H ψ dt numsteps numiter tol = .ok (ψ', nrm))
    {σ : List Nat} (hσ : σ ∈ Env.digitsU ψ.qd.length ψ.A.length) (hne : ψ.amp σ ≠ 0) :
    ψ'.qD.head? = ψ.qD.head? ∧ ψ'.qD.getLast? = ψ.qD.getLast? :=
  tdvp2_boundary_nonzero hc hadm h hσ hne

/-! ## A.3 boundary charges (DMRG, trailing charge only) -/

/-- **A.3 (DMRG1, partial)** `calculate_ground_state_local_singlesite` keeps the trailing bond charges `qD[L]` when the norm
factor of its initial right-orthonormalization is non-zero (the sweeps never rewrite `qD[L]`).
Partial: nothing is proved about `qD[0]`, which the final `local_orthonormalize_right_qr` of the first site rewrites
(to the same charge unless that QR takes its dummy branch, i.e. unless the first tensor is zero after the sweeps). -/
theorem boundary_last_kept_dmrg1_partial {k : EvoKernels 𝕂 ℝ} (hshape : ∀ B, ShapeAt k.dqr B) {H : MPO 𝕂}
    {ψ ψ' : MPS 𝕂} {numsweeps numiter : Nat} {en : List ℝ} (hadm : Admissible ψ)
    (h : dmrgSinglesite k H ψ numsweeps numiter = .ok (ψ', en))
    (hn : ∀ ψ1 nrm, MPS.orthonormalize (ρ := ℝ) k.dqr ψ false = .ok (ψ1, nrm) → nrm ≠ 0) :
    ψ'.qD.getLast? = ψ.qD.getLast? :=
  dmrg1_last hshape hadm h hn

/-- **A.3 (DMRG2, partial)** the same for `calculate_ground_state_local_twosite` (same gap: `qD[0]`). -/
theorem boundary_last_kept_dmrg2_partial {k : EvoKernels 𝕂 ℝ} (hshape : ∀ B, ShapeAt k.dqr B) {H : MPO 𝕂}
    {ψ ψ' : MPS 𝕂} {numsweeps numiter : Nat} {tol : ℝ} {en : List ℝ} (hadm : Admissible ψ)
    (h : dmrgTwosite k H ψ numsweeps numiter tol = .ok (ψ', en))
    (hn : ∀ ψ1 nrm, MPS.orthonormalize (ρ := ℝ) k.dqr ψ false = .ok (ψ1, nrm) → nrm ≠ 0) :
    ψ'.qD.getLast? = ψ.qD.getLast? :=
  dmrg2_last hshape hadm h hn

/-- the hypothesis `hn` of the two theorems above holds for a non-zero state and a kernel with the full QR contract of
C01 -/
theorem dmrg_prologue_norm_ne_zero {dqr : Mat 𝕂 → Mat 𝕂 × Mat 𝕂} (hc : C01.QRKernel dqr) {ψ : MPS 𝕂}
    (hadm : Admissible ψ) {σ : List Nat} (hσ : σ ∈ Env.digitsU ψ.qd.length ψ.A.length) (hne : ψ.amp σ ≠ 0) :
    ∀ ψ1 nrm, MPS.orthonormalize (ρ := ℝ) dqr ψ false = .ok (ψ1, nrm) → nrm ≠ 0 :=
  ortho_norm_ne_zero hc hadm hσ hne

/-- **A.3 (DMRG1, contracts)** `boundary_kept_dmrg1_contract`: for a non-zero admissible state, `L ≥ 2` and kernels
satisfying the contracts of C10 (`Evo.SweepCtx`: full QR contract of C01, norm contract, contract of `eigh_tridiagonal` at
the Lanczos runs, Hermitian shaped Hamiltonian), single-site DMRG keeps both `qD[0]` and `qD[L]`.  Mechanism for
`qD[0]`: the final `local_orthonormalize_right_qr` of the first site rewrites it with the negated intermediate charges of a
block QR with the single column charge `-qD[0][0]`; outside the dummy branch every intermediate charge is a common charge
and there is exactly one; the dummy branch needs a zero first tensor, excluded because the state held by the sweep has
norm one (C10 invariant). -/
theorem boundary_kept_dmrg1_contract {k : EvoKernels 𝕂 ℝ} {H : MPO 𝕂} {ψ ψ' : MPS 𝕂} {numsweeps numiter : Nat}
    {en : List ℝ} (ctx : SweepCtx k H ψ.qd numiter) (hL2 : 2 ≤ H.A.length) (hadm : Admissible ψ)
    (h : dmrgSinglesite k H ψ numsweeps numiter = .ok (ψ', en))
    {σ : List Nat} (hσ : σ ∈ Env.digitsU ψ.qd.length ψ.A.length) (hne : ψ.amp σ ≠ 0) :
    ψ'.qD.head? = ψ.qD.head? ∧ ψ'.qD.getLast? = ψ.qD.getLast? :=
  dmrg1_boundary_contract ctx hL2 hadm h hσ hne

/-! ## Non-vacuity

* Krylov level: an actual run over `ℚ` (kernel evaluation).
* Local level: runs over `ℂ` with the kernels `Evo.exK` of `Proofs/EvoExample.lean` (one Lanczos iteration, for which the
  Krylov routines provably return), `σ_z` between trivial blocks, start tensor `(1, 0)`.
* Driver level: an actual run of single-site TDVP (one time step, one Lanczos iteration) on the one-site pool
  `[σ_z, |0⟩]` over `ℂ` (`HistWf.tdvp1_one_site_ok`: the run returns for every kernel family with the QR contract of C01,
  the norm contract and the trivial eigen-decomposition of `1 × 1` matrices), used for `step_wf_tdvp1`, `step_wf_all`,
  `run_wf_all`.  For `dmrg1`, `tdvp2`, `dmrg2` and longer chains the hypothesis "the call returns `.ok`" is witnessed (as
  for C08 / C10) by the runs of the correspondence check (`./check C02`: histories with `tdvp1`, `tdvp2`, `dmrg1`,
  `dmrg2` steps, model side over Gaussian rationals); the examples show that all other hypotheses (kernel clauses,
  well-formed pool, compatible Hamiltonian, the side conditions of a history containing all four evolution operations)
  are jointly satisfiable. -/

/-- a symmetric `3 × 3` matrix that does not couple position `1` to the others -/
def exM : Mat ℚ := ⟨3, 3, fun i k => if i = 1 ∨ k = 1 then (if i = k then 3 else 0) else (if i = k then 1 else 2)⟩

theorem exM_sector : ∀ x : List ℚ, InSector (fun i => i = 1) x → InSector (fun i => i = 1) (matvec exM x) := by
  intro x hx i hi
  subst hi
  have h1 := hx 1 rfl
  simp [matvec, sumRange, List.range_succ, exM, h1]
  rfl

/-- non-vacuity of `krylov_sector_closed` / `lanczos_sector_closed`: an actual run (two Lanczos iterations, constant
norm oracle, an eigen-solver oracle returning the all-ones matrix, `dexp = id`) over `ℚ` -/
example : ∃ y : List ℚ,
    expmKrylov (matvec exM) (fun _ => (1 : ℚ)) (fun al _ => (al, ⟨al.length, al.length, fun _ _ => 1⟩)) id id
      [1, 0, 5] 1 2 true = .ok y ∧ y.length = 3 ∧ InSector (fun i => i = 1) y := by
  have hl : (match expmKrylov (matvec exM) (fun _ => (1 : ℚ)) (fun al _ => (al, ⟨al.length, al.length, fun _ _ => 1⟩)) id id
      [1, 0, 5] 1 2 true with | .ok y => y.length == 3 && decide (y.getD 0 0 ≠ 0) | .error _ => false) = true := by
    decide +kernel
  obtain ⟨y, hy⟩ := ok_of_isOk (x := expmKrylov (matvec exM) (fun _ => (1 : ℚ))
    (fun al _ => (al, ⟨al.length, al.length, fun _ _ => 1⟩)) id id [1, 0, 5] 1 2 true) (by decide +kernel)
  rw [hy] at hl
  refine ⟨y, hy, by simpa using (Bool.and_eq_true_iff.1 hl).1, ?_⟩
  refine krylov_sector_closed exM_sector ?_ hy
  intro i hi
  subst hi
  rfl
/-- `σ_z` as a one-site MPO tensor with trivial bonds (block sparse for the charges `[0, 1]`) -/
noncomputable def exWz : T4 ℂ := ⟨2, 2, 1, 1, fun s t _ _ => if s = t then (if s = 0 then 1 else -1) else 0⟩

theorem exWz_sparse : SparseT4 exWz [0, 1] [0] [0] := by
  intro s t a b hs ht ha hb hne
  have hs' : s < 2 := hs
  have ht' : t < 2 := ht
  have ha' : a < 1 := ha
  have hb' : b < 1 := hb
  interval_cases s <;> interval_cases t <;> interval_cases a <;> interval_cases b <;> simp [exWz] at hne ⊢

theorem ones_blockSparse : BlockSparse (ones111 : T3 ℂ) [0] [0] := by
  intro a w b ha hw hb _
  have ha' : a < 1 := ha
  have hw' : w < 1 := hw
  have hb' : b < 1 := hb
  interval_cases a; interval_cases w; interval_cases b
  rfl

theorem exA_sparse : SparseT3 Evo.exA [0, 1] [0] [0] := by
  intro s a b hs ha hb hne
  have hs' : s < 2 := hs
  have ha' : a < 1 := ha
  have hb' : b < 1 := hb
  interval_cases s <;> interval_cases a <;> interval_cases b <;> simp [Evo.exA] at hne ⊢

/-- non-vacuity of `local_step_sparse`: all hypotheses including the successful run (kernels `Evo.exK` over `ℂ`, one
Lanczos iteration, imaginary time step) -/
example : ∃ A1 : T3 ℂ, localHamiltonianStep exK ones111 ones111 exWz Evo.exA Complex.I 1 = .ok A1 ∧
    BlockSparse (ones111 : T3 ℂ) [0] [0] ∧ SparseT4 exWz [0, 1] [0] [0] ∧ exWz.d0 = exWz.d1 ∧
    (ones111 : T3 ℂ).d2 = (ones111 : T3 ℂ).d0 ∧ SparseT3 Evo.exA [0, 1] [0] [0] ∧ SparseT3 A1 [0, 1] [0] [0] := by
  obtain ⟨A1, h⟩ := localStep_ok_one (k := exK) rfl (L := ones111) (R := ones111) (W := exWz) sqrtNorm_contract exA_pos Complex.I
  exact ⟨A1, h, ones_blockSparse, exWz_sparse, rfl, rfl, exA_sparse,
    (local_step_sparse h ones_blockSparse ones_blockSparse exWz_sparse rfl rfl rfl exA_sparse).1⟩

/-- non-vacuity of `minimize_sparse` -/
example : ∃ (en : ℝ) (Aopt : T3 ℂ), minimizeLocalEnergy exK ones111 ones111 exWz Evo.exA 1 = .ok (en, Aopt) ∧
    SparseT3 Aopt [0, 1] [0] [0] := by
  obtain ⟨⟨en, Aopt⟩, h⟩ := minimize_ok_one (k := exK) rfl (L := ones111) (R := ones111) (W := exWz) sqrtNorm_contract exA_pos
  exact ⟨en, Aopt, h, (minimize_sparse h ones_blockSparse ones_blockSparse exWz_sparse rfl rfl rfl exA_sparse).1⟩

theorem exC_sparse : Sparse exC [0] [0] := by
  intro i j hi hj _
  have hi' : i < 1 := hi
  have hj' : j < 1 := hj
  interval_cases i; interval_cases j
  rfl

/-- non-vacuity of `bond_step_sparse` -/
example : ∃ C1 : Mat ℂ, localBondStep exK ones111 ones111 exC Complex.I 1 = .ok C1 ∧ Sparse exC [0] [0] ∧
    Sparse C1 [0] [0] := by
  obtain ⟨C1, h⟩ := bondStep_ok_one (k := exK) rfl (L := ones111) (R := ones111) sqrtNorm_contract exC_pos Complex.I
  exact ⟨C1, h, exC_sparse, (bond_step_sparse h ones_blockSparse ones_blockSparse rfl rfl exC_sparse).1⟩

/-- non-vacuity of `env_step_left_sparse`, `env_step_right_sparse`: the steps run on `Evo.exA`, `σ_z` and the trivial block -/
example : (∃ T : T3 ℂ, Op.opStepLeft Evo.exA Evo.exA exWz ones111 = .ok T ∧ BlockSparse T [0] [0]) ∧
    ∃ T : T3 ℂ, Op.opStepRight Evo.exA Evo.exA exWz ones111 = .ok T ∧ BlockSparse T [0] [0] := by
  obtain ⟨T, hT, _⟩ := Env.opStepLeft_ok Evo.exA Evo.exA exWz (ones111 : T3 ℂ) rfl rfl rfl rfl rfl
  obtain ⟨T', hT', _⟩ := Env.opStepRight_ok Evo.exA Evo.exA exWz (ones111 : T3 ℂ) rfl rfl rfl rfl rfl
  have h1 : Op.opStepLeft Evo.exA Evo.exA exWz (ones111 : T3 ℂ) = .ok T := hT
  have h2 : Op.opStepRight Evo.exA Evo.exA exWz (ones111 : T3 ℂ) = .ok T' := hT'
  exact ⟨⟨T, h1, (env_step_left_sparse h1 exA_sparse exWz_sparse ones_blockSparse).1⟩,
    ⟨T', h2, (env_step_right_sparse h2 exA_sparse exWz_sparse ones_blockSparse).1⟩⟩

/-! ### driver level: kernels, pool and histories over `ℂ` -/

/-- kernels over `ℂ`: the QR kernel `Ortho.realQR`, an SVD oracle returning zero factors of the right shapes, the 2-norm,
the eigen-decomposition of `1 × 1` matrices, `dexp ≡ 1` -/
noncomputable def exKS : StepKernels ℂ ℝ where
  dqr := realQR
  svd := ⟨fun B => (⟨B.m, min B.m B.n, fun _ _ => 0⟩, List.replicate (min B.m B.n) 0, ⟨min B.m B.n, B.n, fun _ _ => 0⟩),
    fun _ => 1, fun s => List.range s.length⟩
  dabs := fun z => ‖z‖
  divR := fun z r => z / (r : ℂ)
  dsqrt := Real.sqrt
  cnorm := sqrtNorm
  deigh := triv1
  dexp := fun _ => 1
  dexpm := id
  half := ((1 / 2 : ℝ) : ℂ)

theorem exKS_shapes : KernelShapes exKS :=
  ⟨realQR_contract.shape, fun _ _ _ => ⟨rfl, rfl, by simp [exKS], rfl, rfl⟩⟩

theorem exKS_norm0 : ¬ 0 < exKS.cnorm [] := by
  show ¬ 0 < sqrtNorm ([] : List ℂ)
  simp [sqrtNorm, sqNorm]

theorem exOC_wf : exOC.wellFormed = true := by
  refine (mpo_wellFormed_iff_idx exOC).2 ⟨rfl, ?_⟩
  intro i hi
  have hi' : i < 2 := hi
  interval_cases i
  · refine ⟨rfl, rfl, rfl, rfl, ?_⟩
    intro s t a b hs ht ha hb hne
    have hs' : s < 2 := hs
    have ht' : t < 2 := ht
    have ha' : a < 1 := ha
    have hb' : b < 2 := hb
    interval_cases s <;> interval_cases t <;> interval_cases a <;> interval_cases b <;> simp [exOC] at hne ⊢
  · refine ⟨rfl, rfl, rfl, rfl, ?_⟩
    intro s t a b hs ht ha hb hne
    have hs' : s < 2 := hs
    have ht' : t < 2 := ht
    have ha' : a < 2 := ha
    have hb' : b < 1 := hb
    interval_cases s <;> interval_cases t <;> interval_cases a <;> interval_cases b <;> simp [exOC] at hne ⊢

/-- the pool `[Z ⊗ 1 + 1 ⊗ Z, |01⟩ + i|10⟩]` -/
noncomputable def exPoolE : Pool ℂ := [.mpo exOC, .mps exψC]

theorem exPoolE_wf : poolWF exPoolE = true := by
  rw [poolWF_iff]
  intro o ho
  simp only [exPoolE, List.mem_cons, List.not_mem_nil, or_false] at ho
  rcases ho with rfl | rfl
  · exact exOC_wf
  · exact exψC_adm.wf

theorem exCompat : EvoCompat exOC exψC := ⟨rfl, rfl⟩

/-- a history with all four evolution operations and a copy -/
noncomputable def exHistE : History ℂ ℝ :=
  [(exKS, .tdvp1 0 1 Complex.I 1 1), (exKS, .dmrg1 0 1 1 1), (exKS, .tdvp2 0 1 Complex.I 1 1 0),
   (exKS, .dmrg2 0 1 1 1 0), (exKS, .copy 1)]


/-- non-vacuity of `tdvp1_wf`, `dmrg1_wf`, `tdvp2_wf`, `dmrg2_wf`, `step_wf_tdvp1`, `step_wf_evo`, `step_wf_all` (all
hypotheses other than the run): kernel clauses, well-formed pool, compatible Hamiltonian -/
example : KernelShapes exKS ∧ exKS.dabs 0 = 0 ∧ ¬ 0 < exKS.cnorm [] ∧ poolWF exPoolE = true ∧
    exOC.wellFormed = true ∧ exψC.wellFormed = true ∧ EvoCompat exOC exψC ∧ Admissible exψC ∧
    EvoOK exPoolE (.tdvp2 0 1 Complex.I 1 1 0) :=
  ⟨exKS_shapes, by simp [exKS], exKS_norm0, exPoolE_wf, exOC_wf, exψC_adm.wf, exCompat, exψC_adm, by
    intro H ψ hH hψ
    simp only [exPoolE, List.getElem?_cons_zero, List.getElem?_cons_succ, Option.some.injEq, Obj.mpo.injEq,
      Obj.mps.injEq] at hH hψ
    subst hH hψ
    exact exCompat⟩

/-- non-vacuity of `run_wf_all`: the side conditions of a history with all four evolution operations on the same pair
of slots hold (`evo_compat_kept` carries the compatibility along) -/
example : (∀ kop ∈ exHistE, KernelShapes kop.1 ∧ kop.1.dabs 0 = 0 ∧ ¬ 0 < kop.1.cnorm []) ∧
    poolWF exPoolE = true ∧ AllOKRun exPoolE exHistE := by
  have hE : ∀ (p : Pool ℂ), EvoOK p (.tdvp1 0 1 Complex.I 1 1) →
      (EvoOK p (.dmrg1 0 1 1 1) ∧ EvoOK p (.tdvp2 0 1 Complex.I 1 1 0) ∧ EvoOK p (.dmrg2 0 1 1 1 0)) :=
    fun p h => ⟨h, h, h⟩
  have h0 : EvoOK exPoolE (.tdvp1 0 1 Complex.I 1 1) := by
    intro H ψ hH hψ
    simp only [exPoolE, List.getElem?_cons_zero, List.getElem?_cons_succ, Option.some.injEq, Obj.mpo.injEq,
      Obj.mps.injEq] at hH hψ
    subst hH hψ
    exact exCompat
  refine ⟨?_, exPoolE_wf, ?_⟩
  · intro kop hk
    simp only [exHistE, List.mem_cons, List.not_mem_nil, or_false] at hk
    rcases hk with rfl | rfl | rfl | rfl | rfl <;> exact ⟨exKS_shapes, by simp [exKS], exKS_norm0⟩
  · refine ⟨h0, fun p1 out h1 => ⟨trivial, ?_⟩⟩
    have e1 : EvoOK p1 (.tdvp1 0 1 Complex.I 1 1) := evo_compat_kept rfl h0 h1
    refine ⟨(hE p1 e1).1, fun p2 out h2 => ⟨trivial, ?_⟩⟩
    have e2 : EvoOK p2 (.tdvp1 0 1 Complex.I 1 1) := evo_compat_kept (op := .dmrg1 0 1 1 1) rfl e1 h2
    refine ⟨(hE p2 e2).2.1, fun p3 out h3 => ⟨trivial, ?_⟩⟩
    have e3 : EvoOK p3 (.tdvp1 0 1 Complex.I 1 1) := evo_compat_kept (op := .tdvp2 0 1 Complex.I 1 1 0) rfl e2 h3
    refine ⟨(hE p3 e3).2.2, fun p4 out h4 => ⟨trivial, ?_⟩⟩
    exact ⟨trivial, fun p5 out h5 => ⟨trivial, trivial⟩⟩

/-- non-vacuity of `boundary_kept_tdvp2*`, `boundary_last_kept_dmrg*_partial`, `dmrg_prologue_norm_ne_zero` (hypotheses
other than the run): the QR kernel `realQR` satisfies the contract of C01, `exψC` is admissible and non-zero -/
example : ∃ σ : List Nat, C01.QRKernel exKS.evo.dqr ∧ (∀ B, ShapeAt exKS.evo.dqr B) ∧ Admissible exψC ∧
    σ ∈ Env.digitsU exψC.qd.length exψC.A.length ∧ exψC.amp σ ≠ 0 := by
  have hne : ∑ s ∈ Env.digitsU exψC.qd.length exψC.A.length, ‖exψC.amp s‖ ^ 2 ≠ 0 := by
    rw [exψC_normsq]; norm_num
  obtain ⟨σ, hσ, h0⟩ := Finset.exists_ne_zero_of_sum_ne_zero hne
  refine ⟨σ, ⟨realQR_contract, realQR_realDiag⟩, realQR_contract.shape, exψC_adm, hσ, fun h => h0 ?_⟩
  rw [h]; simp

/-- non-vacuity of `boundary_kept_dmrg1_contract` (hypotheses other than the run): the kernels `Evo.exK` satisfy the
contracts of C10 for the Hermitian two-site Hamiltonian `exOC` with one Lanczos iteration, `exψC` is admissible -/
example : SweepCtx exK exOC exψC.qd 1 ∧ 2 ≤ exOC.A.length ∧ Admissible exψC := ⟨exK_ctx, by decide, exψC_adm⟩

/-! ### an actual driver-level run: single-site TDVP on one site -/

/-- the one-site Hamiltonian `σ_z` and the one-site state `|0⟩` (charges `[0, 1]`, trivial bonds) -/
noncomputable def exH1 : MPO ℂ := ⟨[0, 1], [[0], [0]], [exWz]⟩
noncomputable def exψ1 : MPS ℂ := ⟨[0, 1], [[0], [0]], [Evo.exA]⟩
noncomputable def exPool1 : Pool ℂ := [.mpo exH1, .mps exψ1]

theorem exψ1_adm : Admissible exψ1 := by
  refine ⟨(wellFormed_iff_idx exψ1).2 ⟨rfl, ?_⟩, by decide, by simp [exψ1], by simp [exψ1], rfl, rfl⟩
  intro i hi
  have hi' : i < 1 := hi
  interval_cases i
  exact ⟨rfl, rfl, rfl, exA_sparse⟩

theorem exH1_wf : exH1.wellFormed = true := by
  refine (mpo_wellFormed_iff_idx exH1).2 ⟨rfl, ?_⟩
  intro i hi
  have hi' : i < 1 := hi
  interval_cases i
  exact ⟨rfl, rfl, rfl, rfl, exWz_sparse⟩

theorem exPool1_wf : poolWF exPool1 = true := by
  rw [poolWF_iff]
  intro o ho
  simp only [exPool1, List.mem_cons, List.not_mem_nil, or_false] at ho
  rcases ho with rfl | rfl
  · exact exH1_wf
  · exact exψ1_adm.wf

theorem exPool1_ok : EvoOK exPool1 (.tdvp1 0 1 Complex.I 1 1) := by
  intro H ψ hH hψ
  simp only [exPool1, List.getElem?_cons_zero, List.getElem?_cons_succ, Option.some.injEq, Obj.mpo.injEq,
    Obj.mps.injEq] at hH hψ
  subst hH hψ
  exact ⟨rfl, rfl⟩

/-- the call `integrate_local_singlesite(σ_z, |0⟩, i, 1, 1)` on the pool returns (`HistWf.tdvp1_one_site_ok`) -/
theorem exPool1_step : ∃ p' out, step exKS exPool1 (.tdvp1 0 1 Complex.I 1 1) = .ok (p', out) := by
  obtain ⟨⟨ψ', nrm⟩, hrun⟩ := tdvp1_one_site_ok (k := exKS.evo) ⟨realQR_contract, realQR_realDiag⟩ sqrtNorm_contract rfl
    (H := exH1) (W := exWz) exψ1_adm rfl rfl rfl Complex.I
  refine ⟨exPool1.set 1 (.mps ψ'), [nrm], ?_⟩
  show (do
    let (ψ', nrm) ← integrateLocalSinglesite exKS.evo exH1 exψ1 Complex.I 1 1
    pure (exPool1.set 1 (.mps ψ'), [nrm]) : Except Err (Pool ℂ × List ℝ)) = _
  rw [hrun]
  rfl

/-- **non-vacuity of `step_wf_tdvp1`, `step_wf_evo`, `step_wf_all`, `tdvp1_wf` including the run**: one time step of
single-site TDVP (one Lanczos iteration) on the pool `[σ_z, |0⟩]` returns, and the new pool is well-formed -/
example : ∃ p' out, KernelShapes exKS ∧ exKS.dabs 0 = 0 ∧ ¬ 0 < exKS.cnorm [] ∧ poolWF exPool1 = true ∧
    EvoOK exPool1 (.tdvp1 0 1 Complex.I 1 1) ∧ step exKS exPool1 (.tdvp1 0 1 Complex.I 1 1) = .ok (p', out) ∧
    poolWF p' = true := by
  obtain ⟨p', out, hs⟩ := exPool1_step
  exact ⟨p', out, exKS_shapes, by simp [exKS], exKS_norm0, exPool1_wf, exPool1_ok, hs,
    step_wf_all exKS_shapes (by simp [exKS]) exKS_norm0 exPool1_wf exPool1_ok hs trivial⟩

/-- **non-vacuity of `run_wf_all` including the run**: the history "one TDVP step, then copy the evolved state" -/
example : ∃ p', run exPool1 [(exKS, .tdvp1 0 1 Complex.I 1 1), (exKS, .copy 1)] = .ok p' ∧ p'.length = 3 ∧
    poolWF p' = true := by
  obtain ⟨p1, out, hs⟩ := exPool1_step
  have hl : p1.length = 2 := by
    have := hs
    simp only [step] at this
    split at this
    · simp only [Dense.bind_ok, Dense.pure_ok, Prod.mk.injEq] at this
      obtain ⟨_, _, rfl, _⟩ := this
      simp [exPool1]
    · cases this
  obtain ⟨o, ho⟩ : ∃ o, p1[1]? = some o := by
    rw [List.getElem?_eq_getElem (by omega)]; exact ⟨_, rfl⟩
  have hc : step exKS p1 (.copy 1) = .ok (p1 ++ [o], []) := by simp only [step, ho]
  have hr : run exPool1 [(exKS, .tdvp1 0 1 Complex.I 1 1), (exKS, .copy 1)] = .ok (p1 ++ [o]) :=
    run_cons_ok.2 ⟨p1, out, hs, run_cons_ok.2 ⟨_, _, hc, rfl⟩⟩
  refine ⟨p1 ++ [o], hr, by simp [hl], ?_⟩
  refine run_wf_all ?_ exPool1_wf hr ?_
  · intro kop hk
    simp only [List.mem_cons, List.not_mem_nil, or_false] at hk
    rcases hk with rfl | rfl <;> exact ⟨exKS_shapes, by simp [exKS], exKS_norm0⟩
  · exact ⟨exPool1_ok, fun _ _ _ => ⟨trivial, trivial, fun _ _ _ => ⟨trivial, trivial⟩⟩⟩

end Ptn.C02

import PtnModel.Props.C13
/-!
# Property C13 / C03: the zero vector (finding F12), every tolerance `0 ≤ tol < 1`

`from_vector_zero`: for the zero vector of length `d^nsites` and EVERY tolerance `0 ≤ tol < 1`, `MPS.from_vector` returns and the
result represents the zero vector (the relative-error bound of C13 reads `‖ψ - 0‖ ≤ sqrt(L · tol) · 0`).  Before the repair of
F12 the call raised an `AssertionError` on exactly this input.
-/
set_option linter.unusedSectionVars false
namespace Ptn.C13
open Ptn.Ortho Ptn.Env Ptn.BondOps Ptn.Compress Finset

variable {𝕜 : Type} [RCLike 𝕜] [DecidableEq 𝕜]
attribute [local instance] rcRealLike
variable {k : MPS.SvdKernels 𝕜 ℝ} {tol : ℝ}

theorem from_vector_zero (hk : SvdKernel k) (htol : 0 ≤ tol) (htol1 : tol < 1) {d n : Nat} (hd : 0 < d) (hn : 0 < n)
    {v : List 𝕜} (hvl : v.length = d ^ n) (hz : ∀ c, v.getD c 0 = 0) :
    ∃ ψ, MPS.fromVector k d n v tol = .ok ψ ∧ ∀ s ∈ digitsU d n, ψ.amp s = 0 := by
  obtain ⟨ψ, h⟩ := from_vector_total (tol := tol) hk htol htol1 hd hn hvl
  refine ⟨ψ, h, ?_⟩
  have hb := (from_vector_bound hk htol h).1
  have hv0 : ∑ c ∈ range v.length, ‖v.getD c 0‖ ^ 2 = 0 :=
    Finset.sum_eq_zero fun c _ => by rw [hz c]; simp
  rw [hv0, mul_zero] at hb
  have h0 : ∀ s ∈ digitsU d n, ‖ψ.amp s - v.getD (flat d s) 0‖ ^ 2 = 0 :=
    (Finset.sum_eq_zero_iff_of_nonneg (fun s _ => by positivity)).1
      (le_antisymm hb (Finset.sum_nonneg fun s _ => by positivity))
  intro s hs
  have := h0 s hs
  rw [hz, sub_zero, pow_eq_zero_iff (by norm_num), norm_eq_zero] at this
  exact this

/-- non-vacuity: the zero vector on two qubits over `ℝ`, tolerance `1/4`, kernels `exKernels ℝ` -/
example : ∃ ψ : MPS ℝ, MPS.fromVector (exKernels ℝ) 2 2 ([0, 0, 0, 0] : List ℝ) (1 / 4 : ℝ) = .ok ψ ∧
    ∀ s ∈ digitsU 2 2, ψ.amp s = 0 :=
  from_vector_zero (exKernels_kernel (𝕜 := ℝ)) (by norm_num) (by norm_num) (by norm_num) (by norm_num) (by simp)
    (fun c => by rcases c with _ | _ | _ | _ | c <;> simp)

end Ptn.C13

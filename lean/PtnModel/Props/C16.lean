import Mathlib.Algebra.Ring.Int.Defs
import PtnModel.Proofs.OgHistory
/-!
# C16 — operator-graph rewrites preserve the denoted operator and graph consistency

Property text: *Simplifying an operator graph, merging two mergeable edges, and renaming node or edge ids leave the
operator denoted by the graph unchanged; adding another graph yields exactly the sum of the two operators and leaves
the other graph untouched; flipping a graph reverses the site order of every term. After each of these the graph
passes its own consistency check, and simplification never increases the number of nodes or edges.*

Setting: `Ptn.Og.Graph κ` is the model of `OpGraph` (`PtnModel/Model/OpGraph.lean`, tied to the Python by the
differential correspondence of `harness/props/c16.py`), `κ` any commutative ring of coefficients.
`g.denF w` is the coefficient of the word `w` (one operator id per site) in the operator denoted by `g`
(path sum from terminal 0 to terminal 1).  `Ptn.Og.Valid g` says that `g` has no duplicate dictionary keys /
edge-id entries (guaranteed by the Python constructors) and that `g.isConsistent = true` (`Ptn.Og.valid_iff`).
-/
namespace Ptn.C16
open Ptn.Og

variable {κ : Type} [CommRing κ] [DecidableEq κ]

/-- a concrete non-trivial valid graph over `ℤ` (two layers, a parallel edge, a two-operator edge, a node charge) -/
def exampleGraph : Graph ℤ :=
  { nodes := [(5, ⟨5, [], [10, 11], 0⟩), (-2, ⟨-2, [10, 11], [12], 1⟩), (7, ⟨7, [12], [], 0⟩)],
    edges := [(10, ⟨10, (5, -2), [(1, 2)]⟩), (11, ⟨11, (5, -2), [(0, -1), (3, 1)]⟩), (12, ⟨12, (-2, 7), [(2, 1)]⟩)],
    nidTerminal := (5, 7) }

theorem exampleGraph_valid : Valid exampleGraph :=
  (valid_iff _).2 ⟨NoDup.of_noDupB (by decide), by decide⟩

/-- **Flip.** Flipping a valid graph reverses the site order of every term of the denoted operator, and the flipped
graph is valid again; in particular it passes the consistency check. -/
theorem flip_sem (g : Graph κ) (h : Valid g) :
    Valid g.flip ∧ g.flip.isConsistent = true ∧ ∀ w : Word, g.flip.denF w = g.denF w.reverse :=
  ⟨h.flip, h.flip.isConsistent, fun w => denF_flip h.1 w⟩

/-- non-vacuity of `flip_sem`: the hypothesis holds for `exampleGraph`, and the conclusion is a non-trivial statement there
(the word `[1, 2]` has coefficient 2, so its reversal has coefficient 2 in the flipped graph) -/
example : Valid exampleGraph ∧ exampleGraph.denF [1, 2] = 2 ∧ exampleGraph.flip.denF [2, 1] = 2 :=
  ⟨exampleGraph_valid, by decide, by decide⟩

/-- **Renaming an edge id** (`rename_edge_id`): whenever the call succeeds on a valid graph, the result is valid again
(it passes the consistency check) and denotes the same operator. -/
theorem rename_edge_sem (g g' : Graph κ) (cur new : Int) (h : Valid g)
    (hr : g.renameEdgeId cur new = .ok g') :
    Valid g' ∧ g'.isConsistent = true ∧ ∀ w : Word, g'.denF w = g.denF w :=
  ⟨h.renameEdgeId hr, (h.renameEdgeId hr).isConsistent, fun w => denF_renameEdgeId h.1 hr w⟩

/-- non-vacuity: renaming edge 11 to 3 in `exampleGraph` succeeds -/
example : Valid exampleGraph ∧
    (exampleGraph.renameEdgeId 11 3).toOption.map (fun g' => (g'.denF [0, 2], g'.isConsistent)) = some (-1, true) :=
  ⟨exampleGraph_valid, by decide⟩

/-- **Renaming a node id** (`rename_node_id`): whenever the call succeeds on a valid graph, the result is valid again
(it passes the consistency check) and denotes the same operator. -/
theorem rename_node_sem (g g' : Graph κ) (cur new : Int) (h : Valid g)
    (hr : g.renameNodeId cur new = .ok g') :
    Valid g' ∧ g'.isConsistent = true ∧ ∀ w : Word, g'.denF w = g.denF w :=
  ⟨h.renameNodeId hr, (h.renameNodeId hr).isConsistent, fun w => denF_renameNodeId h.1 hr w⟩

/-- non-vacuity: renaming the start node 5 to -8 in `exampleGraph` succeeds (terminal id follows) -/
example : Valid exampleGraph ∧
    (exampleGraph.renameNodeId 5 (-8)).toOption.map (fun g' => (g'.nidTerminal, g'.denF [1, 2], g'.isConsistent))
      = some ((-8, 7), 2, true) :=
  ⟨exampleGraph_valid, by decide⟩

/-- **Merging two mergeable edges** (`merge_edges`, both cases: two edges between the same pair of nodes, whose operators
are added; two equal-operator edges from different single-output upstream nodes of equal charge, whose nodes are merged):
whenever the call succeeds on a valid graph for two different edge ids, the result is valid again (it passes the
consistency check), has the same terminals and denotes the same operator. The conditions asserted by the code
(incl. "a terminal node is never absorbed / never acquires upstream edges") are exactly what a successful call provides. -/
theorem merge_edges_sem (g g' : Graph κ) (eid1 eid2 : Int) (d : Bool) (h : Valid g) (hne : eid1 ≠ eid2)
    (hr : g.mergeEdges eid1 eid2 d = .ok g') :
    Valid g' ∧ g'.isConsistent = true ∧ g'.nidTerminal = g.nidTerminal ∧ ∀ w : Word, g'.denF w = g.denF w := by
  obtain ⟨_, ht, hd⟩ := mergeEdges_sem h.1 hne hr
  exact ⟨h.mergeEdges hne hr, (h.mergeEdges hne hr).isConsistent, ht, hd⟩

/-- non-vacuity: the two parallel edges 10, 11 of `exampleGraph` merge (direction 1: common head -2);
the merged edge carries the operators of both -/
example : Valid exampleGraph ∧ (10 : Int) ≠ 11 ∧
    (exampleGraph.mergeEdges 10 11 true).toOption.map (fun g' => (g'.edges.map (·.1), g'.denF [1, 2], g'.denF [3, 2], g'.isConsistent))
      = some ([10, 12], 2, 1, true) :=
  ⟨exampleGraph_valid, by decide, by decide⟩

/-- a graph on which the node-merging case applies: two equal-operator edges 20, 21 from the single-output nodes 1, 2 -/
def exampleGraph2 : Graph ℤ :=
  { nodes := [(0, ⟨0, [], [30, 31], 0⟩), (1, ⟨1, [30], [20], 0⟩), (2, ⟨2, [31], [21], 0⟩), (3, ⟨3, [20, 21], [], 0⟩)],
    edges := [(30, ⟨30, (0, 1), [(1, 1)]⟩), (31, ⟨31, (0, 2), [(2, 3)]⟩), (20, ⟨20, (1, 3), [(5, 1)]⟩), (21, ⟨21, (2, 3), [(5, 1)]⟩)],
    nidTerminal := (0, 3) }

/-- non-vacuity of the node-merging case (nodes 1 and 2 are merged, 2 disappears) -/
example : Valid exampleGraph2 ∧
    (exampleGraph2.mergeEdges 20 21 true).toOption.map (fun g' => (g'.nodes.map (·.1), g'.denF [1, 5], g'.denF [2, 5], g'.isConsistent))
      = some ([0, 1, 3], 1, 3, true) :=
  ⟨(valid_iff _).2 ⟨NoDup.of_noDupB (by decide), by decide⟩, by decide⟩

/-- **Simplification** (`simplify`): whenever it returns on a valid graph, the result is valid again (it passes the
consistency check), has the same terminals, denotes the same operator, and has at most as many nodes and at most as
many edges (every successful `_simplify_step` is a `merge_edges` of two different edges and removes exactly one edge,
`Ptn.Og.simplifyStep_sem`). -/
theorem simplify_sem (g g' : Graph κ) (h : Valid g) (hr : g.simplify = .ok g') :
    Valid g' ∧ g'.isConsistent = true ∧ g'.nidTerminal = g.nidTerminal ∧ (∀ w : Word, g'.denF w = g.denF w) ∧
      g'.nodes.length ≤ g.nodes.length ∧ g'.edges.length ≤ g.edges.length := by
  obtain ⟨_, hrel, hval⟩ := Ptn.Og.simplify_sem h.1 hr
  exact ⟨hval h, (hval h).isConsistent, hrel.term, hrel.den, hrel.nodes, hrel.edges⟩

/-- the same for graphs that are only structurally valid (no assumption on the level clause): structural validity
and the denoted operator are kept -/
theorem simplify_keeps (g g' : Graph κ) (h : SValid g) (hr : g.simplify = .ok g') :
    SValid g' ∧ ∀ w : Word, g'.denF w = g.denF w := by
  obtain ⟨hv, hrel, _⟩ := Ptn.Og.simplify_sem h hr
  exact ⟨hv, hrel.den⟩

/-- non-vacuity: `exampleGraph2` simplifies (the twin nodes 1, 2 cannot be merged from the end because their input
operators differ, but edges 20, 21 are merged and then 30, 31 become parallel and are added: 4 nodes -> 3, 4 edges -> 2) and `exampleGraph` loses its parallel edge -/
example : Valid exampleGraph2 ∧
    (exampleGraph2.simplify).toOption.map (fun g' => (g'.nodes.length, g'.edges.length, g'.denF [1, 5], g'.denF [2, 5], g'.isConsistent))
      = some (3, 2, 1, 3, true) ∧
    (exampleGraph.simplify).toOption.map (fun g' => (g'.nodes.length, g'.edges.length, g'.denF [3, 2], g'.isConsistent))
      = some (3, 2, 1, true) :=
  ⟨(valid_iff _).2 ⟨NoDup.of_noDupB (by decide), by decide⟩, by decide, by decide⟩

/-- **Adding another graph** (`add`; `addWith` is `add` with the iteration order of the two shared-id sets made explicit,
as CPython's set iteration provides one; `Graph.add` iterates ascending): if both graphs are valid, each has two
different terminal nodes, the two graphs have the same length (every terminal-to-terminal distance of `g` equals every
such distance of `other`), and the orders cover all shared node resp. edge ids, then a successful call returns a valid
graph -- it passes the consistency check -- that denotes exactly the sum of the two operators.
"Leaves the other graph untouched" is trivial in the functional model (`other` is a value); on the Python side it is
carried by the correspondence check (`other_unchanged`, `shares_objects`). -/
theorem add_sem (g other g' : Graph κ) (sn se : List Int) (hg : Valid g) (ho : Valid other)
    (htg : g.term false ≠ g.term true) (hto : other.term false ≠ other.term true)
    (hsn : ∀ k, k ∈ dKeys g.nodes → k ∈ dKeys other.nodes → k ∈ sn)
    (hse : ∀ k, k ∈ dKeys g.edges → k ∈ dKeys other.edges → k ∈ se)
    (hlen : ∀ d j j', ReachFrom g d (g.term d) j (g.term (!d)) →
      ReachFrom other d (other.term d) j' (other.term (!d)) → j = j')
    (hr : g.addWith other sn se = .ok g') :
    Valid g' ∧ g'.isConsistent = true ∧ ∀ w : Word, g'.denF w = g.denF w + other.denF w := by
  obtain ⟨hv, hd⟩ := addWith_sem hg ho htg hto hsn hse hlen hr
  exact ⟨hv, hv.isConsistent, hd⟩

/-- the same for `Graph.add` (ascending iteration order of the shared ids) -/
theorem add_asc_sem (g other g' : Graph κ) (hg : Valid g) (ho : Valid other)
    (htg : g.term false ≠ g.term true) (hto : other.term false ≠ other.term true)
    (hlen : ∀ d j j', ReachFrom g d (g.term d) j (g.term (!d)) →
      ReachFrom other d (other.term d) j' (other.term (!d)) → j = j')
    (hr : g.add other = .ok g') :
    Valid g' ∧ g'.isConsistent = true ∧ ∀ w : Word, g'.denF w = g.denF w + other.denF w := by
  obtain ⟨hv, hd⟩ := Ptn.Og.add_sem hg ho htg hto hlen hr
  exact ⟨hv, hv.isConsistent, hd⟩

/-- the structural core of `add_sem`: the graph assembled by `add` before its final `simplify` is `unionG g o` for the
renamed operand `o`; it is valid and denotes the sum -/
theorem add_union (g o : Graph κ) (U : UnionOk g o) (hg : Valid g) (ho : Valid o) (hlen : SameLength g o) :
    Valid (unionG g o) ∧ ∀ w : Word, (unionG g o).denF w = g.denF w + o.denF w :=
  ⟨valid_union U hg ho hlen, denF_union U⟩

/-- non-vacuity of `add_sem`: `exampleGraph2` plus a second length-2 graph with colliding ids (nodes 0, 1 and edge 30 are
shared): the sum has the words of both -/
def exampleGraph3 : Graph ℤ :=
  { nodes := [(0, ⟨0, [], [30], 0⟩), (1, ⟨1, [30], [7], 0⟩), (8, ⟨8, [7], [], 0⟩)],
    edges := [(30, ⟨30, (0, 1), [(1, 2)]⟩), (7, ⟨7, (1, 8), [(5, 1), (6, 1)]⟩)],
    nidTerminal := (0, 8) }

example : Valid exampleGraph2 ∧ Valid exampleGraph3 ∧
    (exampleGraph2.add exampleGraph3).toOption.map
      (fun g' => (g'.denF [1, 5], g'.denF [2, 5], g'.denF [1, 6], g'.isConsistent)) = some (3, 3, 2, true) :=
  ⟨(valid_iff _).2 ⟨NoDup.of_noDupB (by decide), by decide⟩,
   (valid_iff _).2 ⟨NoDup.of_noDupB (by decide), by decide⟩, by decide⟩

/-- **History**: every finite sequence of flips, renamings of node and edge ids, merges of two different edges,
simplifications and additions of valid graphs of the same length that runs through keeps the graph valid -- it passes
the consistency check after each step -- and changes the denoted operator only as `semSteps` says: each `flip` reverses
the site order, each `add` adds the other operator. (`HistOk`: the side conditions of `merge_edges_sem` / `add_sem` hold
at the graph each step is applied to.) -/
theorem history (steps : List (Step κ)) (g g' : Graph κ) (h : Valid g) (hok : HistOk steps g)
    (hr : runSteps steps g = .ok g') :
    Valid g' ∧ g'.isConsistent = true ∧ g'.denF = semSteps steps g.denF := by
  obtain ⟨hv, hd⟩ := history_sem steps h hok hr
  exact ⟨hv, hv.isConsistent, hd⟩

/-- non-vacuity of `history`: a history with all kinds of steps (without `add`, whose side conditions are exemplified
above) runs through on `exampleGraph2`; two flips cancel -/
example : Valid exampleGraph2 ∧
    HistOk [Step.flip, .renameNode 2 9, .mergeEdges 20 21 false, .renameEdge 30 4, .flip, .simplify] exampleGraph2 ∧
    (runSteps [Step.flip, .renameNode 2 9, .mergeEdges 20 21 false, .renameEdge 30 4, .flip, .simplify] exampleGraph2).toOption.map
      (fun g' => (g'.denF [1, 5], g'.denF [2, 5], g'.denF [5, 1], g'.isConsistent)) = some (1, 3, 0, true) := by
  refine ⟨(valid_iff _).2 ⟨NoDup.of_noDupB (by decide), by decide⟩, ?_, by decide⟩
  simp only [HistOk, Step.okAt, ne_eq, true_and]
  intros
  refine ⟨by decide, ?_⟩
  intros
  trivial

end Ptn.C16

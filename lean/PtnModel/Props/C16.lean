import Mathlib.Algebra.Ring.Int.Defs
import PtnModel.Proofs.OgMerge
/-!
# C16 — operator-graph rewrites preserve the denoted operator and graph consistency

Property text: *Simplifying an operator graph, merging two mergeable edges, and renaming node or edge ids leave the
operator denoted by the graph unchanged; adding another graph yields exactly the sum of the two operators and leaves
the other graph untouched; flipping a graph reverses the site order of every term. After each of these the graph
passes its own consistency check, and simplification never increases the number of nodes or edges.*

Setting: `Ptn.Og.Graph κ` is the model of `OpGraph` (`PtnModel/Model/OpGraph.lean`, tied to the Python by the
differential correspondence of `harness/props/c16.py`), `κ` any commutative ring of coefficients.
`g.denF w` is the coefficient of the word `w` (one operator id per site) in the operator denoted by `g`
(path sum from terminal 0 to terminal 1).  `Ptn.Og.Valid g` says that `g` has no duplicate dictionary keys /
edge-id entries (guaranteed by the Python constructors) and that `g.isConsistent = true` (`Ptn.Og.valid_iff`).
-/
namespace Ptn.C16
open Ptn.Og

variable {κ : Type} [CommRing κ] [DecidableEq κ]

/-- a concrete non-trivial valid graph over `ℤ` (two layers, a parallel edge, a two-operator edge, a node charge) -/
def exampleGraph : Graph ℤ :=
  { nodes := [(5, ⟨5, [], [10, 11], 0⟩), (-2, ⟨-2, [10, 11], [12], 1⟩), (7, ⟨7, [12], [], 0⟩)],
    edges := [(10, ⟨10, (5, -2), [(1, 2)]⟩), (11, ⟨11, (5, -2), [(0, -1), (3, 1)]⟩), (12, ⟨12, (-2, 7), [(2, 1)]⟩)],
    nidTerminal := (5, 7) }

theorem exampleGraph_valid : Valid exampleGraph :=
  (valid_iff _).2 ⟨NoDup.of_noDupB (by decide), by decide⟩

/-- **Flip.** Flipping a valid graph reverses the site order of every term of the denoted operator, and the flipped
graph is valid again; in particular it passes the consistency check. -/
theorem flip_sem (g : Graph κ) (h : Valid g) :
    Valid g.flip ∧ g.flip.isConsistent = true ∧ ∀ w : Word, g.flip.denF w = g.denF w.reverse :=
  ⟨h.flip, h.flip.isConsistent, fun w => denF_flip h.1 w⟩

/-- non-vacuity of `flip_sem`: the hypothesis holds for `exampleGraph`, and the conclusion is a non-trivial statement there
(the word `[1, 2]` has coefficient 2, so its reversal has coefficient 2 in the flipped graph) -/
example : Valid exampleGraph ∧ exampleGraph.denF [1, 2] = 2 ∧ exampleGraph.flip.denF [2, 1] = 2 :=
  ⟨exampleGraph_valid, by decide, by decide⟩

/-- **Renaming an edge id** (`rename_edge_id`), partial: whenever the call succeeds on a structurally valid graph,
the result is structurally valid again (so the clauses of `is_consistent` on nodes, edges, terminals hold:
`structOk = true`) and denotes the same operator.
*Missing for the full clause:* that the level clause of `is_consistent` (`levelsOk`) also still holds
(carried by the correspondence check, which compares `is_consistent` after every step). -/
theorem rename_edge_partial (g g' : Graph κ) (cur new : Int) (h : SValid g)
    (hr : g.renameEdgeId cur new = .ok g') :
    SValid g' ∧ g'.structOk = true ∧ ∀ w : Word, g'.denF w = g.denF w :=
  ⟨h.renameEdgeId hr, (h.renameEdgeId hr).structOk, fun w => denF_renameEdgeId h hr w⟩

/-- non-vacuity: renaming edge 11 to 3 in `exampleGraph` succeeds -/
example : SValid exampleGraph ∧
    (exampleGraph.renameEdgeId 11 3).toOption.map (fun g' => (g'.denF [0, 2], g'.isConsistent)) = some (-1, true) :=
  ⟨exampleGraph_valid.1, by decide⟩

/-- **Renaming a node id** (`rename_node_id`), partial: whenever the call succeeds on a structurally valid graph,
the result is structurally valid again (`structOk = true`) and denotes the same operator.
*Missing for the full clause:* the level clause of `is_consistent` (`levelsOk`) for the result. -/
theorem rename_node_partial (g g' : Graph κ) (cur new : Int) (h : SValid g)
    (hr : g.renameNodeId cur new = .ok g') :
    SValid g' ∧ g'.structOk = true ∧ ∀ w : Word, g'.denF w = g.denF w :=
  ⟨h.renameNodeId hr, (h.renameNodeId hr).structOk, fun w => denF_renameNodeId h hr w⟩

/-- non-vacuity: renaming the start node 5 to -8 in `exampleGraph` succeeds (terminal id follows) -/
example : SValid exampleGraph ∧
    (exampleGraph.renameNodeId 5 (-8)).toOption.map (fun g' => (g'.nidTerminal, g'.denF [1, 2], g'.isConsistent))
      = some ((-8, 7), 2, true) :=
  ⟨exampleGraph_valid.1, by decide⟩

/-- **Merging two mergeable edges** (`merge_edges`, both cases: two edges between the same pair of nodes, whose operators
are added; two equal-operator edges from different single-output upstream nodes of equal charge, whose nodes are merged),
partial: whenever the call succeeds on a structurally valid graph for two different edge ids, the result is
structurally valid again (`structOk = true`), has the same terminals and denotes the same operator. The conditions
asserted by the code are exactly what a successful call provides.
*Remaining hypothesis:* `MergeTermOk` (if the surviving upstream node is a terminal, the absorbed node has no further
upstream edges) -- without it the code produces a terminal node with edges in its own direction on graphs that contain an
unconnected non-terminal node (reported). *Missing for the full clause:* the level clause `levelsOk` for the result. -/
theorem merge_edges_partial (g g' : Graph κ) (eid1 eid2 : Int) (d : Bool) (h : SValid g) (hne : eid1 ≠ eid2)
    (hT : MergeTermOk g eid1 eid2 d) (hr : g.mergeEdges eid1 eid2 d = .ok g') :
    SValid g' ∧ g'.structOk = true ∧ g'.nidTerminal = g.nidTerminal ∧ ∀ w : Word, g'.denF w = g.denF w := by
  obtain ⟨hv, ht, hd⟩ := mergeEdges_sem h hne hT hr
  exact ⟨hv, hv.structOk, ht, hd⟩

/-- non-vacuity: the two parallel edges 10, 11 of `exampleGraph` merge (direction 1: common head -2);
the merged edge carries the operators of both -/
example : SValid exampleGraph ∧ (10 : Int) ≠ 11 ∧
    (exampleGraph.mergeEdges 10 11 true).toOption.map (fun g' => (g'.edges.map (·.1), g'.denF [1, 2], g'.denF [3, 2], g'.isConsistent))
      = some ([10, 12], 2, 1, true) :=
  ⟨exampleGraph_valid.1, by decide, by decide⟩

/-- a graph on which the node-merging case applies: two equal-operator edges 20, 21 from the single-output nodes 1, 2 -/
def exampleGraph2 : Graph ℤ :=
  { nodes := [(0, ⟨0, [], [30, 31], 0⟩), (1, ⟨1, [30], [20], 0⟩), (2, ⟨2, [31], [21], 0⟩), (3, ⟨3, [20, 21], [], 0⟩)],
    edges := [(30, ⟨30, (0, 1), [(1, 1)]⟩), (31, ⟨31, (0, 2), [(2, 3)]⟩), (20, ⟨20, (1, 3), [(5, 1)]⟩), (21, ⟨21, (2, 3), [(5, 1)]⟩)],
    nidTerminal := (0, 3) }

/-- non-vacuity of the node-merging case (nodes 1 and 2 are merged, 2 disappears; `MergeTermOk` holds as node 1 is not a terminal) -/
example : Valid exampleGraph2 ∧ MergeTermOk exampleGraph2 20 21 true ∧
    (exampleGraph2.mergeEdges 20 21 true).toOption.map (fun g' => (g'.nodes.map (·.1), g'.denF [1, 5], g'.denF [2, 5], g'.isConsistent))
      = some ([0, 1, 3], 1, 3, true) := by
  refine ⟨(valid_iff _).2 ⟨NoDup.of_noDupB (by decide), by decide⟩, ?_, by decide⟩
  intro edge1 edge2 N2 h1 h2 _ ht _
  have e1 : edge1 = ⟨20, (1, 3), [(5, 1)]⟩ := by
    have : dGet? exampleGraph2.edges 20 = some ⟨20, (1, 3), [(5, 1)]⟩ := by decide
    rw [this] at h1; exact (Option.some.inj h1).symm
  subst e1
  exact absurd ht (by decide)

end Ptn.C16

import Mathlib.Algebra.Ring.Int.Defs
import PtnModel.Props.C20
import PtnModel.Proofs.OgSimplifyLev
/-!
# C20 (layers) — `simplify` never increases a bond dimension

Complement to `Ptn.C20.simplify_mono_partial` (the node ids after `simplify` are a sublist of those before): a node that
survives `simplify` keeps its layer.  For a layered graph (`Lev g ℓ`: every edge goes from level `i` to level `i + 1`; for a
node reachable from the start terminal `ℓ x - ℓ (term false)` is its distance from the start terminal, `reach_level`)
the same `ℓ` is a layering of the simplified graph, hence the width of every layer -- the bond dimension of the MPO at
that cut (`MPO.from_opgraph` makes one bond index per node of the layer) -- does not grow.
-/
set_option linter.unusedSectionVars false
namespace Ptn.C20
open Ptn Ptn.Og List

variable {κ : Type} [CommRing κ] [DecidableEq κ]

/-- **`simplify` is monotone per layer.**  On a structurally valid layered graph, `simplify` returns a graph layered by the
same level function (every surviving node keeps its layer), whose node ids are a sublist of the original ones; so for
every level `l` the number of nodes on that level does not increase, and neither do the total node / edge counts. -/
theorem simplify_mono (g g' : Graph κ) (h : SValid g) (ℓ : Int → Int) (hl : Lev g ℓ) (hr : g.simplify = .ok g') :
    Lev g' ℓ ∧ (dKeys g'.nodes).Sublist (dKeys g.nodes) ∧
    (∀ l : Int, ((dKeys g'.nodes).filter fun nid => ℓ nid == l).length ≤
      ((dKeys g.nodes).filter fun nid => ℓ nid == l).length) ∧
    g'.nodes.length ≤ g.nodes.length ∧ g'.edges.length ≤ g.edges.length := by
  obtain ⟨s1, _, c1, c2, _⟩ := simplify_mono_partial g g' hr
  exact ⟨simplify_lev h hl hr, s1, fun l => (s1.filter _).length_le, c1, c2⟩

/-- the level function measures the distance from the start terminal: a node reached from `term false` by `k` edges lies
`k` levels above it (so "layer" in `simplify_mono` is the bond index of `MPO.from_opgraph`) -/
theorem level_is_distance (g : Graph κ) (h : SValid g) (ℓ : Int → Int) (hl : Lev g ℓ) (k : Nat) (y : Int)
    (hr : ReachFrom g false (g.term false) k y) : ℓ y = ℓ (g.term false) + k := by
  have := reach_level h hl hr
  simpa using this

/-- non-vacuity: a layered graph (levels 0, 1, 1, 2) that `simplify` shrinks on level 1 from two nodes to one -/
def exLayered : Graph ℤ :=
  { nodes := [(0, ⟨0, [], [30, 31], 0⟩), (1, ⟨1, [30], [20], 0⟩), (2, ⟨2, [31], [21], 0⟩), (3, ⟨3, [20, 21], [], 0⟩)],
    edges := [(30, ⟨30, (0, 1), [(1, 1)]⟩), (31, ⟨31, (0, 2), [(2, 3)]⟩), (20, ⟨20, (1, 3), [(5, 1)]⟩), (21, ⟨21, (2, 3), [(5, 1)]⟩)],
    nidTerminal := (0, 3) }

def exLevel (x : Int) : Int := if x = 0 then 0 else if x = 3 then 2 else 1

example : SValid exLayered ∧ Lev exLayered exLevel ∧
    (exLayered.simplify).toOption.map (fun g' => ((dKeys g'.nodes).filter fun nid => exLevel nid == 1).length) = some 1 ∧
    ((dKeys exLayered.nodes).filter fun nid => exLevel nid == 1).length = 2 := by
  refine ⟨((valid_iff _).2 ⟨NoDup.of_noDupB (by decide), by decide⟩).1, ?_, by decide, by decide⟩
  intro e he
  simp only [Graph.edgeList, exLayered, List.map_cons, List.map_nil, List.mem_cons, List.mem_nil_iff, or_false] at he
  rcases he with rfl | rfl | rfl | rfl <;> decide

end Ptn.C20

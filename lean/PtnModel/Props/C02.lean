import PtnModel.Proofs.HistAddMpo
import PtnModel.Proofs.HistMul
import PtnModel.Proofs.HistPush
import PtnModel.Proofs.HistBoundarySvd
import PtnModel.Proofs.HistCompressScale
import PtnModel.Proofs.HistFromVector
import PtnModel.Props.C12Rule
import PtnModel.Props.C01
import PtnModel.Props.C13
import PtnModel.Proofs.HistLocalH
import PtnModel.Proofs.HistEvoBoundary
/-!
# Property C02 (block sparsity is an invariant of every operation sequence)

"After any sequence of public operations that create or update an MPS or MPO (construction, orthonormalization,
compression, addition, subtraction, composition, operator application, …) every non-zero tensor entry obeys the
additive quantum-number rule with respect to the object's current quantum-number lists, and each list has exactly
the length of the tensor dimension it labels.  For a non-zero state the leading and trailing (total) bond quantum
numbers are never changed by orthonormalization, compression, TDVP or DMRG."

All statements are about the executable model `Hist.step` (`PtnModel/Model/Ops.lean`): one public pytenet call
(`MPS/MPO.orthonormalize`, `MPS.compress`, `+`/`-` of MPS and MPO, `@` of MPOs, `apply_operator`, `zero_qnumbers`,
deep copy) on a pool of MPS/MPO values; `Hist.run` folds a history and stops at the first exception.  The model is
tied to `/repo` by the differential correspondence of `./check C02` (after every step of random histories the
changed objects, the returned scalars and the well-formedness flag are compared exactly).

The invariant is `poolWF p = true`: every object of the pool satisfies the model's decidable test
`MPS.wellFormed` / `MPO.wellFormed`: `len(qD) = L + 1`, every tensor `A[i]` has the shape
`(len qd, [len qd,] len qD[i], len qD[i+1])` and is block sparse (`is_qsparse`) w.r.t. `(qd, [-qd,] qD[i], -qD[i+1])`.

Setting: entries in a commutative ring `𝕜` (`ℝ`, `ℂ`, `ℚ`), singular values / norms in a linear ordered field `ρ`,
with arbitrary `RealLike ρ 𝕜`, `HasConj 𝕜`.  Exact arithmetic; IEEE rounding is not modelled.
The dense kernels (`np.linalg.qr`, `np.linalg.svd`, `np.linalg.norm`, `np.argsort`, `abs`, division by a real) are
oracle arguments of every call.  **Only their shape clauses are assumed** (`KernelShapes`): `Q : m × min(m,n)`,
`R : min(m,n) × n`; `U : m × min`, `len s = min`, `V : min × n` for `m, n ≥ 1`.  Nothing about products, isometries,
the norm or the sorting permutation is used for the invariant.

What is proved:

* `step_wf`                   : one call keeps the invariant — all operations except `compress`, unconditionally.
  The code asserts sparsity of most tensors it builds (`+`, `@`, `apply_operator`: same `pyAssert` in the model);
  the tensors that are *not* asserted (first tensor `[X | α·Y]` of a sum), all shapes and all charge-list lengths are
  derived.  `zero_qnumbers` keeps the tensors and zeroes the charges (a tensor is trivially sparse w.r.t. all-zero
  charges).  `orthonormalize` (MPS and MPO, both modes): the new tensors are the reshaped `Q` factors, block sparse
  w.r.t. the new bond charges by C11 (`sparse_Q`), including the dummy branches and bonds of dimension zero.
* `step_wf_compress`          : `compress` keeps the invariant — **right mode unconditionally, left mode whenever the
  returned scale is non-zero** (`abs 0 = 0` is the only fact used about the absolute-value oracle).  Mechanism: if
  the truncation rule discards the complete spectrum of a NON-ZERO matrix (`tol ≥ 1`, or — for oracles violating the
  contracts — an all-zero spectrum / `dnorm s = 0`) the bond collapses to dimension zero.  (A ZERO matrix no longer
  collapses a bond: since the repair of `split_matrix_svd` it takes the dummy branch, intermediate dimension one, also
  when the charge lists intersect; `C12.split_zero`, `C12.split_bond_pos`.)  In right mode the row charges of the next split are
  bond charges of the QR-orthonormalized state, never empty, and the shapes stay consistent.  In left mode the next
  `split_matrix_svd` sees a matrix without rows, returns `u` of shape `(0, 1)` and `q = q0[:1] = []`, and the MPS ends
  up labelling an axis of size one with an empty charge list (observed on the real code: `MPS.compress(tol=2.0)` on a
  random two-site state returns normally with `A[1].shape = (2,0,1)`, `qD = [[0],[],[]]`); but then every later
  factor pushed to the right is `0`, so the returned scale is `0`.  `compress_collapse_example` shows that the
  condition cannot be dropped under shape-only oracles (identity-like QR, all-zero SVD oracle).  `step_wf_of_scale` is the uniform statement for all
  operations.
  `step_wf_compress_partial`: the same conclusion under the alternative output condition "no bond charge list of the
  result is empty" (`NoCollapse`), both modes, without `abs 0 = 0`.
  `truncation_keeps_one`: under the contracts of C12 for `norm`/`argsort`, `0 ≤ tol < 1` and a non-zero spectrum the
  rule keeps at least one singular value.  Not proved: that for a non-zero state and `tol < 1` the returned scale is
  non-zero (`scale² ≥ 1 - tol`, C13) — a property of the *values* (QR/SVD product and isometry contracts), not of
  shapes.
* `run_wf`, `run_wf_of_scale`, `run_wf_of_noCollapse` : by induction, every state reachable by a history satisfies the
  invariant (without `compress` unconditionally; with it under the scale resp. no-collapse condition per call).
* `push_sparse`               : the contraction `R · Anext` of a sparse `R` with a sparse tensor is sparse.
* Boundary charges.  `boundary_kept_of_factor`: for `orthonormalize` (MPS, MPO) and `compress`, both modes, every
  kernel with the shape clauses: **if all returned factors (norm, and scale for `compress`) are non-zero, then
  `qD[0]` and `qD[-1]` of the target are unchanged.**  Mechanism (left mode): `qD[L]` is overwritten with the charge
  returned by the decomposition of the last site, whose column charge list is `qD[L]` (one entry, by
  `assert T.shape == (1,1,1)`); the trailing factor is `T[0,0,0] = R[0,0]` resp. `σ₀ V[0,0]`, and if it is non-zero
  block sparsity of `R` resp. `V` identifies the two charges.  In the dummy branch `R = 0`, `T = 0`: the zero-state
  case, where the code returns `q0[:1]`, in general a different charge.
  `boundary_kept`, `boundary_kept_mpo`: for a **non-zero state / operator** (some dense amplitude `ψ.amp s ≠ 0`,
  `o.elem s t ≠ 0`) and a kernel satisfying the full QR contract of C01 the returned norm is non-zero (C01:
  `nrm · ψ'.amp s = ψ.amp s`), hence the boundary charges are kept by `orthonormalize`.
  `boundary_kept_compress_partial`: the same for `compress` under the hypothesis `nrm ≠ 0 ∧ scale ≠ 0` on the
  returned pair; missing: `scale ≠ 0` for a non-zero state and `tol < 1` (the scale is the norm of the kept part,
  `scale² ≥ 1 - tol`: that is the content of C13, not proved here).
* `from_vector` (operation `fromVector` of the history model) is covered by `step_wf`: the result has all charges zero
  and list lengths equal to the bond dimensions, for every SVD / norm / argsort oracle (no contract at all).
* `step_wf_compress_contract`: under the kernel contracts of C13, `0 ≤ tol < 1` and an admissible target, `compress`
  keeps the invariant with no condition on the returned numbers, and the returned scale is non-zero.
* TDVP / DMRG (operations `tdvp1`, `tdvp2`, `dmrg1`, `dmrg2`, in place on the state, Hamiltonian untouched — C19).
  Proved: `localH_sparse` (the local effective Hamiltonian preserves the charge sector), `tdvp1_lengths` (length clause
  for single-site TDVP), `step_wf_tdvp1_partial` (well-formed given block sparsity of the new tensors),
  `boundary_kept_tdvp1`, `boundary_kept_tdvp1_nonzero` (single-site TDVP keeps `qD[0]`, `qD[L]`: its sweeps never
  rewrite them, the prologue keeps them for a non-zero norm).  Not proved: the sparsity clause for TDVP / DMRG results
  and everything about `tdvp2`, `dmrg1`, `dmrg2` beyond the frame theorems of C19 (see `not_proved`).  The run theorems
  (`run_wf*`) therefore exclude these four operations (`HOp.isEvo`).
-/
set_option linter.unusedSectionVars false
namespace Ptn.C02
open Ptn.Hist Ptn.HistWf Ptn.BondOps Ptn.Ortho

variable {𝕜 : Type} [CommRing 𝕜] [Div 𝕜] [DecidableEq 𝕜] [HasConj 𝕜]
variable {ρ : Type} [Field ρ] [LinearOrder ρ] [IsStrictOrderedRing ρ] [RealLike ρ 𝕜]

/-- Shape clauses of the dense kernels of one call: `np.linalg.qr(B, mode='reduced')` returns `m × k`, `k × n` and
`np.linalg.svd(B, full_matrices=False)` returns `m × k`, `k`, `k × n` with `k = min(m, n)`, for `m, n ≥ 1`. -/
structure KernelShapes (k : StepKernels 𝕜 ρ) : Prop where
  qr : ∀ B : Mat 𝕜, 0 < B.m → 0 < B.n →
    (k.dqr B).1.m = B.m ∧ (k.dqr B).1.n = min B.m B.n ∧ (k.dqr B).2.m = min B.m B.n ∧ (k.dqr B).2.n = B.n
  svd : ∀ B : Mat 𝕜, 0 < B.m → 0 < B.n →
    (k.svd.dsvd B).1.m = B.m ∧ (k.svd.dsvd B).1.n = min B.m B.n ∧ (k.svd.dsvd B).2.1.length = min B.m B.n ∧
    (k.svd.dsvd B).2.2.m = min B.m B.n ∧ (k.svd.dsvd B).2.2.n = B.n

/-- the operation is a `compress` call -/
def HOp.isCompress : HOp 𝕜 ρ → Bool
  | .compress _ _ _ => true
  | _ => false

/-- the operation is a TDVP / DMRG call (`integrate_local_*`, `calculate_ground_state_local_*`) -/
def HOp.isEvo : HOp 𝕜 ρ → Bool
  | .tdvp1 _ _ _ _ _ | .tdvp2 _ _ _ _ _ _ | .dmrg1 _ _ _ _ | .dmrg2 _ _ _ _ _ => true
  | _ => false

/-- no bond of the compressed state collapsed to dimension zero (`True` for every other operation) -/
def NoCollapse (op : HOp 𝕜 ρ) (p' : Pool 𝕜) : Prop :=
  match op with
  | .compress i _ _ => ∀ ψ, p'[i]? = some (.mps ψ) → ∀ q ∈ ψ.qD, q ≠ []
  | _ => True

/-! ## A.1 one call -/

/-- One call keeps the invariant, for every operation and every kernel family with the shape clauses, provided no
bond collapsed in a `compress` (`NoCollapse` is `True` for all other operations). -/
theorem step_wf_of_noCollapse {k : StepKernels 𝕜 ρ} (hk : KernelShapes k) {p p' : Pool 𝕜} {op : HOp 𝕜 ρ}
    {out : List ρ} (hevo : HOp.isEvo op = false) (hp : poolWF p = true) (h : step k p op = .ok (p', out))
    (hnc : NoCollapse op p') : poolWF p' = true := by
  cases op with
  | fromVector d nsites v tol =>
    simp only [step] at h
    simp only [Dense.bind_ok, Dense.pure_ok, Prod.mk.injEq] at h
    obtain ⟨r, hrun, rfl, _⟩ := h
    exact poolWF_append hp (fromVector_wf k.svd d nsites v tol r hrun)
  | tdvp1 _ _ _ _ _ => cases hevo
  | tdvp2 _ _ _ _ _ _ => cases hevo
  | dmrg1 _ _ _ _ => cases hevo
  | dmrg2 _ _ _ _ _ => cases hevo
  | orthoMps i left =>
    simp only [step] at h
    split at h
    · rename_i ψ hi
      simp only [Dense.bind_ok, Dense.pure_ok, Prod.mk.injEq] at h
      obtain ⟨⟨ψ', nrm⟩, hrun, rfl, _⟩ := h
      exact poolWF_set hp i (ortho_mps_wf hk.qr (poolWF_get hp hi) hrun)
    · cases h
  | orthoMpo i left =>
    simp only [step] at h
    split at h
    · rename_i o hi
      simp only [Dense.bind_ok, Dense.pure_ok, Prod.mk.injEq] at h
      obtain ⟨⟨o', nrm⟩, hrun, rfl, _⟩ := h
      exact poolWF_set hp i (ortho_mpo_wf hk.qr (poolWF_get hp hi) hrun)
    · cases h
  | compress i tol left =>
    simp only [step] at h
    split at h
    · rename_i ψ hi
      simp only [Dense.bind_ok, Dense.pure_ok, Prod.mk.injEq] at h
      obtain ⟨⟨ψ', nrm, sc⟩, hrun, rfl, _⟩ := h
      have hlt : i < p.length := (List.getElem?_eq_some_iff.1 hi).1
      refine poolWF_set hp i (compress_wf hk.qr hk.svd (poolWF_get hp hi) hrun ?_)
      exact hnc ψ' (by simp [hlt])
    · cases h
  | addMps i j alpha =>
    simp only [step] at h
    split at h
    · rename_i a b hi hj
      simp only [Dense.bind_ok, Dense.pure_ok, Prod.mk.injEq] at h
      obtain ⟨r, hrun, rfl, _⟩ := h
      exact poolWF_append hp (add_wf a b r alpha (poolWF_get hp hi) (poolWF_get hp hj) hrun)
    · cases h
  | addMpo i j alpha =>
    simp only [step] at h
    split at h
    · rename_i a b hi hj
      simp only [Dense.bind_ok, Dense.pure_ok, Prod.mk.injEq] at h
      obtain ⟨r, hrun, rfl, _⟩ := h
      exact poolWF_append hp (addMpo_wf a b r alpha (poolWF_get hp hi) (poolWF_get hp hj) hrun)
    · cases h
  | mulMpo i j =>
    simp only [step] at h
    split at h
    · rename_i a b hi hj
      simp only [Dense.bind_ok, Dense.pure_ok, Prod.mk.injEq] at h
      obtain ⟨r, hrun, rfl, _⟩ := h
      exact poolWF_append hp (multiply_wf a b r (poolWF_get hp hi) (poolWF_get hp hj) hrun)
    · cases h
  | apply i j =>
    simp only [step] at h
    split at h
    · rename_i a b hi hj
      simp only [Dense.bind_ok, Dense.pure_ok, Prod.mk.injEq] at h
      obtain ⟨r, hrun, rfl, _⟩ := h
      exact poolWF_append hp (apply_wf a b r (poolWF_get hp hi) (poolWF_get hp hj) hrun)
    · cases h
  | zeroQ i =>
    simp only [step] at h
    split at h
    · rename_i o hi
      simp only [Except.ok.injEq, Prod.mk.injEq] at h
      rw [← h.1]
      exact poolWF_set hp i (zeroQ_wf (poolWF_get hp hi))
    · cases h
  | copy i =>
    simp only [step] at h
    split at h
    · rename_i o hi
      simp only [Except.ok.injEq, Prod.mk.injEq] at h
      rw [← h.1]
      exact poolWF_append hp (poolWF_get hp hi)
    · cases h

theorem noCollapse_of_not_compress {op : HOp 𝕜 ρ} (hop : HOp.isCompress op = false) (p' : Pool 𝕜) :
    NoCollapse op p' := by
  cases op <;> trivial

/-- **A.1** `step_wf`: every operation other than `compress` keeps the invariant — orthonormalize (MPS, MPO; both
modes), `+`/`-` (MPS, MPO), `@`, `apply_operator`, `zero_qnumbers`, copy — for every kernel family satisfying only
the shape clauses. -/
theorem step_wf {k : StepKernels 𝕜 ρ} (hk : KernelShapes k) {p p' : Pool 𝕜} {op : HOp 𝕜 ρ} {out : List ρ}
    (hop : HOp.isCompress op = false) (hevo : HOp.isEvo op = false) (hp : poolWF p = true)
    (h : step k p op = .ok (p', out)) : poolWF p' = true :=
  step_wf_of_noCollapse hk hevo hp h (noCollapse_of_not_compress hop p')

/-- **A.1 (compress)** `compress` keeps the invariant provided no bond charge list of the compressed state is empty.
Partial: the hypothesis `hnc` remains (it is output-checkable and necessary, see the header); it is not derived from
kernel contracts and `0 ≤ tol < 1`. -/
theorem step_wf_compress_partial {k : StepKernels 𝕜 ρ} (hk : KernelShapes k) {p p' : Pool 𝕜} {i : Nat} {tol : ρ}
    {left : Bool} {out : List ρ} (hp : poolWF p = true) (h : step k p (.compress i tol left) = .ok (p', out))
    (hnc : ∀ ψ, p'[i]? = some (.mps ψ) → ∀ q ∈ ψ.qD, q ≠ []) : poolWF p' = true :=
  step_wf_of_noCollapse hk rfl hp h hnc

/-- Under the contracts of C12 for `np.linalg.norm` and `np.argsort`, a tolerance `0 ≤ tol < 1` and a non-zero
spectrum, the truncation rule keeps at least one singular value (so the bond does not collapse). -/
theorem truncation_keeps_one (dnorm : List ρ → ρ) (dargsort : List ρ → List Nat) (s : List ρ) (tol : ρ)
    (hnorm : C12.NormContract s (dnorm s)) (hw : dnorm s ≠ 0)
    (hsort : C12.SortContract (C12.sortKeys s (dnorm s)) (dargsort (C12.sortKeys s (dnorm s))))
    (h0 : 0 ≤ tol) (h1 : tol < 1) : retainedBondIndices dnorm dargsort s tol ≠ [] := by
  intro he
  have := C12.rule_kept_weight dnorm dargsort s tol hnorm hw hsort h0
  rw [he] at this
  simp only [C12.weightOf, List.map_nil, List.sum_nil] at this
  linarith

/-- the returned scale of a left-mode `compress` is non-zero (`True` for every other operation, including
right-mode `compress`) -/
def ScaleOK (op : HOp 𝕜 ρ) (out : List ρ) : Prop :=
  match op with
  | .compress _ _ true => out.getD 1 0 ≠ 0
  | _ => True

/-- **A.1 (all operations)** One call keeps the invariant for every operation and every kernel family with the shape
clauses (plus `abs 0 = 0` for the absolute-value oracle), provided the scale returned by a *left-mode* `compress` is
non-zero.  Right-mode `compress` needs no condition: the row charges of its splits are the (non-empty) bond charges of
the QR-orthonormalized state.  In left mode a collapsed bond forces a zero trailing factor, so a non-zero scale
excludes it. -/
theorem step_wf_of_scale {k : StepKernels 𝕜 ρ} (hk : KernelShapes k) (habs : k.dabs 0 = 0) {p p' : Pool 𝕜}
    {op : HOp 𝕜 ρ} {out : List ρ} (hevo : HOp.isEvo op = false) (hp : poolWF p = true)
    (h : step k p op = .ok (p', out)) (hsc : ScaleOK op out) : poolWF p' = true := by
  by_cases hop : HOp.isCompress op = false
  · exact step_wf_of_noCollapse hk hevo hp h (noCollapse_of_not_compress hop p')
  · cases op with
    | compress i tol left =>
      simp only [step] at h
      split at h
      · rename_i ψ hi
        simp only [Dense.bind_ok, Dense.pure_ok, Prod.mk.injEq] at h
        obtain ⟨⟨ψ', nrm, sc⟩, hrun, rfl, rfl⟩ := h
        refine poolWF_set hp i (compress_wf_of_scale hk.qr hk.svd habs (poolWF_get hp hi) hrun ?_)
        intro hl
        subst hl
        exact hsc
      · cases h
    | _ => exact absurd rfl hop

/-- **A.1 (compress)** `compress` keeps the invariant: in right mode always, in left mode whenever the returned scale
(second returned number) is non-zero. -/
theorem step_wf_compress {k : StepKernels 𝕜 ρ} (hk : KernelShapes k) (habs : k.dabs 0 = 0) {p p' : Pool 𝕜} {i : Nat}
    {tol : ρ} {left : Bool} {out : List ρ} (hp : poolWF p = true)
    (h : step k p (.compress i tol left) = .ok (p', out)) (hsc : left = true → out.getD 1 0 ≠ 0) :
    poolWF p' = true := by
  refine step_wf_of_scale hk habs rfl hp h ?_
  cases left with
  | true => exact hsc rfl
  | false => trivial

/-! ## A.2 histories -/

/-- along the history no `compress` call collapses a bond -/
def NoCollapseRun : Pool 𝕜 → History 𝕜 ρ → Prop
  | _, [] => True
  | p, (k, op) :: h => ∀ p1 out, step k p op = .ok (p1, out) → NoCollapse op p1 ∧ NoCollapseRun p1 h

/-- **A.2** Every state reached by a history whose calls run under kernels with the shape clauses satisfies the
invariant, provided no `compress` of the history collapses a bond. -/
theorem run_wf_of_noCollapse {p p' : Pool 𝕜} {h : History 𝕜 ρ} (hk : ∀ kop ∈ h, KernelShapes kop.1)
    (he : ∀ kop ∈ h, HOp.isEvo kop.2 = false) (hp : poolWF p = true) (hr : run p h = .ok p') (hnc : NoCollapseRun p h) : poolWF p' = true := by
  induction h generalizing p with
  | nil =>
    simp only [run_nil, Except.ok.injEq] at hr
    rw [← hr]; exact hp
  | cons kop h ih =>
    obtain ⟨k, op⟩ := kop
    obtain ⟨p1, out, hs, hr'⟩ := run_cons_ok.1 hr
    obtain ⟨n1, n2⟩ := hnc p1 out hs
    exact ih (fun kop hk' => hk kop (List.mem_cons_of_mem _ hk')) (fun kop hk' => he kop (List.mem_cons_of_mem _ hk'))
      (step_wf_of_noCollapse (hk (k, op) List.mem_cons_self) (he (k, op) List.mem_cons_self) hp hs n1) hr' n2

theorem noCollapseRun_of_no_compress : ∀ (p : Pool 𝕜) (h : History 𝕜 ρ),
    (∀ kop ∈ h, HOp.isCompress kop.2 = false) → NoCollapseRun p h
  | _, [], _ => trivial
  | _, (k, op) :: h, hc => fun p1 _ _ =>
    ⟨noCollapse_of_not_compress (hc (k, op) List.mem_cons_self) p1,
      noCollapseRun_of_no_compress p1 h (fun kop hk => hc kop (List.mem_cons_of_mem _ hk))⟩

/-- **A.2** `run_wf`: every state reachable by a history of orthonormalizations, sums, differences, products,
operator applications, `zero_qnumbers` and copies satisfies the invariant (shape clauses only).  Applied to a prefix
of a history this covers every intermediate state. -/
theorem run_wf {p p' : Pool 𝕜} {h : History 𝕜 ρ} (hk : ∀ kop ∈ h, KernelShapes kop.1)
    (hc : ∀ kop ∈ h, HOp.isCompress kop.2 = false) (he : ∀ kop ∈ h, HOp.isEvo kop.2 = false)
    (hp : poolWF p = true) (hr : run p h = .ok p') : poolWF p' = true :=
  run_wf_of_noCollapse hk he hp hr (noCollapseRun_of_no_compress p h hc)

/-- every intermediate state of a history satisfies the invariant -/
theorem run_wf_prefix {p p1 : Pool 𝕜} {h1 h2 : History 𝕜 ρ} (hk : ∀ kop ∈ h1 ++ h2, KernelShapes kop.1)
    (hc : ∀ kop ∈ h1 ++ h2, HOp.isCompress kop.2 = false) (he : ∀ kop ∈ h1 ++ h2, HOp.isEvo kop.2 = false)
    (hp : poolWF p = true) (hr : run p h1 = .ok p1) : poolWF p1 = true :=
  run_wf (fun kop hm => hk kop (List.mem_append_left _ hm)) (fun kop hm => hc kop (List.mem_append_left _ hm))
    (fun kop hm => he kop (List.mem_append_left _ hm)) hp hr

/-- along the history every left-mode `compress` returns a non-zero scale -/
def ScaleOKRun : Pool 𝕜 → History 𝕜 ρ → Prop
  | _, [] => True
  | p, (k, op) :: h => ∀ p1 out, step k p op = .ok (p1, out) → ScaleOK op out ∧ ScaleOKRun p1 h

/-- **A.2 (all operations)** Every state reached by a history satisfies the invariant, provided every left-mode
`compress` of the history returns a non-zero scale (kernels: shape clauses and `abs 0 = 0`). -/
theorem run_wf_of_scale {p p' : Pool 𝕜} {h : History 𝕜 ρ} (hk : ∀ kop ∈ h, KernelShapes kop.1 ∧ kop.1.dabs 0 = 0)
    (he : ∀ kop ∈ h, HOp.isEvo kop.2 = false) (hp : poolWF p = true) (hr : run p h = .ok p') (hsc : ScaleOKRun p h) : poolWF p' = true := by
  induction h generalizing p with
  | nil =>
    simp only [run_nil, Except.ok.injEq] at hr
    rw [← hr]; exact hp
  | cons kop h ih =>
    obtain ⟨k, op⟩ := kop
    obtain ⟨p1, out, hs, hr'⟩ := run_cons_ok.1 hr
    obtain ⟨n1, n2⟩ := hsc p1 out hs
    obtain ⟨k1, k2⟩ := hk (k, op) List.mem_cons_self
    exact ih (fun kop hk' => hk kop (List.mem_cons_of_mem _ hk')) (fun kop hk' => he kop (List.mem_cons_of_mem _ hk'))
      (step_wf_of_scale k1 k2 (he (k, op) List.mem_cons_self) hp hs n1) hr' n2

/-! ## the R-push -/

/-- The tensor `R · Anext` pushed to the next site by a local QR step (`np.tensordot(R, Anext, (1, 1))`) is
well-formed w.r.t. the new left bond charges `qi` when `R` is block sparse w.r.t. `(qi, q1)` (C11 `sparse_R`) and
`Anext` is well-formed w.r.t. `(qd, q1, q2)`. -/
theorem push_sparse {R : Mat 𝕜} {X : T3 𝕜} {qd qi q1 q2 : List Int} (hR : Sparse R qi q1) (hm : R.m = qi.length)
    (hn : R.n = X.d1) (hX : T3Wf X qd q1 q2) : T3Wf (pushR R X) qd qi q2 :=
  HistWf.push_sparse hR hm hn hX

/-! ## A.3 boundary charges -/

def Obj.qD : Obj 𝕜 → List (List Int)
  | .mps ψ => ψ.qD
  | .mpo o => o.qD

/-- **A.3** `boundary_kept_of_factor`: `orthonormalize` (MPS, MPO) and `compress` in either mode, under kernels with
the shape clauses only: if every returned factor (the norm; the norm and the scale for `compress`) is non-zero then
the leading and trailing bond charge lists of the target are unchanged.  (`re 0 = 0` and `abs 0 = 0` are the only
facts used about the real part / absolute value oracles.) -/
theorem boundary_kept_of_factor {k : StepKernels 𝕜 ρ} (hk : KernelShapes k)
    (hre : RealLike.re (0 : 𝕜) = (0 : ρ)) (habs : k.dabs 0 = 0) {p p' : Pool 𝕜} {op : HOp 𝕜 ρ} {out : List ρ}
    (h : step k p op = .ok (p', out)) {i : Nat}
    (hop : (∃ left, op = .orthoMps i left) ∨ (∃ left, op = .orthoMpo i left) ∨ (∃ tol left, op = .compress i tol left))
    (hout : ∀ x ∈ out, x ≠ 0) :
    ∃ o o', p[i]? = some o ∧ p'[i]? = some o' ∧
      (Obj.qD o').head? = (Obj.qD o).head? ∧ (Obj.qD o').getLast? = (Obj.qD o).getLast? := by
  rcases hop with ⟨left, rfl⟩ | ⟨left, rfl⟩ | ⟨tol, left, rfl⟩
  · simp only [step] at h
    split at h
    · rename_i ψ hi
      simp only [Dense.bind_ok, Dense.pure_ok, Prod.mk.injEq] at h
      obtain ⟨⟨ψ', nrm⟩, hrun, rfl, rfl⟩ := h
      have hlt : i < p.length := (List.getElem?_eq_some_iff.1 hi).1
      exact ⟨_, .mps ψ', hi, by simp [hlt], ortho_mps_boundary hk.qr hre hrun (hout nrm (by simp))⟩
    · cases h
  · simp only [step] at h
    split at h
    · rename_i o hi
      simp only [Dense.bind_ok, Dense.pure_ok, Prod.mk.injEq] at h
      obtain ⟨⟨o', nrm⟩, hrun, rfl, rfl⟩ := h
      have hlt : i < p.length := (List.getElem?_eq_some_iff.1 hi).1
      exact ⟨_, .mpo o', hi, by simp [hlt], ortho_mpo_boundary hk.qr hre hrun (hout nrm (by simp))⟩
    · cases h
  · simp only [step] at h
    split at h
    · rename_i ψ hi
      simp only [Dense.bind_ok, Dense.pure_ok, Prod.mk.injEq] at h
      obtain ⟨⟨ψ', nrm, sc⟩, hrun, rfl, rfl⟩ := h
      have hlt : i < p.length := (List.getElem?_eq_some_iff.1 hi).1
      exact ⟨_, .mps ψ', hi, by simp [hlt],
        compress_boundary hk.qr hk.svd hre habs hrun (hout nrm (by simp)) (hout sc (by simp))⟩
    · cases h

/-- **A.3 (compress)** Boundary charges are kept by `compress` when the returned norm and scale are non-zero.
Partial: `sc ≠ 0` is a hypothesis; for a non-zero state and `tol < 1` it follows from `scale² ≥ 1 - tol` (C13),
which is not proved here. -/
theorem boundary_kept_compress_partial {dqr : Mat 𝕜 → Mat 𝕜 × Mat 𝕜} {ks : MPS.SvdKernels 𝕜 ρ} {dabs : 𝕜 → ρ}
    {divR : 𝕜 → ρ → 𝕜} (hqr : ∀ B, ShapeAt dqr B) (hsvd : ∀ B, SvdShapeAt ks.dsvd B)
    (hre : RealLike.re (0 : 𝕜) = (0 : ρ)) (habs : dabs 0 = 0) {ψ ψ' : MPS 𝕜} {tol nrm sc : ρ} {left : Bool}
    (h : MPS.compress dqr ks dabs divR ψ tol left = .ok (ψ', nrm, sc)) (hn : nrm ≠ 0) (hsc : sc ≠ 0) :
    ψ'.qD.head? = ψ.qD.head? ∧ ψ'.qD.getLast? = ψ.qD.getLast? :=
  compress_boundary hqr hsvd hre habs h hn hsc

/-! ### non-zero states (full QR contract of C01) -/

section nonzero
variable {𝕂 : Type} [RCLike 𝕂] [DecidableEq 𝕂]
attribute [local instance] rcRealLike

/-- **A.3** `boundary_kept`: for a non-zero state (some dense amplitude `ψ.amp s ≠ 0`) orthonormalization in either
mode keeps the leading and trailing bond charges `qD[0]`, `qD[-1]`.  Hypotheses as in C01: `ψ` admissible
(well-formed, `d, L ≥ 1`, bonds `≥ 1`, boundary bonds of dimension one), `dqr` satisfies the QR contract. -/
theorem boundary_kept {dqr : Mat 𝕂 → Mat 𝕂 × Mat 𝕂} (hc : C01.QRKernel dqr) {ψ ψ' : MPS 𝕂} {nrm : ℝ} {left : Bool}
    (hadm : Admissible ψ) (hrun : MPS.orthonormalize dqr ψ left = .ok (ψ', nrm))
    {s : List Nat} (hs : s ∈ Env.digitsU ψ.qd.length ψ.A.length) (hne : ψ.amp s ≠ 0) :
    ψ'.qD.head? = ψ.qD.head? ∧ ψ'.qD.getLast? = ψ.qD.getLast? := by
  have hd := C01.ortho_dense hc hadm hrun hs
  have hn : nrm ≠ 0 := by
    intro h0
    rw [h0] at hd
    apply hne
    rw [← hd]
    simp
  exact ortho_mps_boundary hc.contract.shape (by show RCLike.re (0 : 𝕂) = 0; simp) hrun hn

/-- **A.3** the same for a non-zero MPO (some dense matrix element `o.elem s t ≠ 0`). -/
theorem boundary_kept_mpo {dqr : Mat 𝕂 → Mat 𝕂 × Mat 𝕂} (hc : C01.QRKernel dqr) {o o' : MPO 𝕂} {nrm : ℝ}
    {left : Bool} (hadm : MpoAdmissible o) (hrun : MPO.orthonormalize dqr o left = .ok (o', nrm))
    {s t : List Nat} (hs : s ∈ Env.digitsU o.qd.length o.A.length) (ht : t ∈ Env.digitsU o.qd.length o.A.length)
    (hne : o.elem s t ≠ 0) :
    o'.qD.head? = o.qD.head? ∧ o'.qD.getLast? = o.qD.getLast? := by
  have hd := C01.ortho_mpo_dense hc hadm hrun hs ht
  have hn : nrm ≠ 0 := by
    intro h0
    rw [h0] at hd
    apply hne
    rw [← hd]
    simp
  exact ortho_mpo_boundary hc.contract.shape (by show RCLike.re (0 : 𝕂) = 0; simp) hrun hn

/-- **A.1 (compress, contracts)** `step_wf_compress_contract`: under the kernel contracts of C13 (QR contract of C01,
SVD / norm / argsort contracts of C12, `abs z = ‖z‖`, division by the embedded real), `0 ≤ tol < 1` and an admissible
target state, `compress` in either mode keeps the invariant, and the compressed state is admissible again — no
condition on the returned numbers (`C13.compress_wf`; by `C13.compress_scale_bounds` the returned scale then satisfies
`(1 - tol)^L ≤ scale²`, in particular `scale ≠ 0`). -/
theorem step_wf_compress_contract [HasConj 𝕂] {k : StepKernels 𝕂 ℝ} (hq : C01.QRKernel k.dqr)
    (hs : Compress.SvdKernel k.svd) (ha : Compress.AbsContract k.dabs k.divR) {p p' : Pool 𝕂} {i : Nat} {tol : ℝ}
    {left : Bool} {out : List ℝ} (hp : poolWF p = true) (hadm : ∀ ψ, p[i]? = some (.mps ψ) → Admissible ψ)
    (h0 : 0 ≤ tol) (h1 : tol < 1) (h : step k p (.compress i tol left) = .ok (p', out)) :
    poolWF p' = true ∧ (∀ ψ', p'[i]? = some (.mps ψ') → Admissible ψ') ∧ out.getD 1 0 ≠ 0 := by
  simp only [step] at h
  split at h
  · rename_i ψ hi
    simp only [Dense.bind_ok, Dense.pure_ok, Prod.mk.injEq] at h
    obtain ⟨⟨ψ', nrm, sc⟩, hrun, rfl, rfl⟩ := h
    have hlt : i < p.length := (List.getElem?_eq_some_iff.1 hi).1
    obtain ⟨hadm', -, -⟩ := C13.compress_wf hq hs ha (hadm ψ hi) h0 h1 hrun
    obtain ⟨s0, -, s2, -, -⟩ := C13.compress_scale_bounds hq hs ha (hadm ψ hi) h0 h1 hrun
    refine ⟨poolWF_set hp i hadm'.wf, ?_, ?_⟩
    · intro ψ'' hψ
      rw [List.getElem?_set_self hlt] at hψ
      cases hψ
      exact hadm'
    · show sc ≠ 0
      intro hz
      rw [hz] at s2
      have : 0 < (1 - tol) ^ ψ.A.length := pow_pos (by linarith) _
      simp at s2
      linarith
  · cases h

end nonzero

/-! ## TDVP / DMRG (operations `tdvp1`, `tdvp2`, `dmrg1`, `dmrg2` of the history model) -/

section evo
open Ptn.Krylov Ptn.Evo
variable {𝕂 : Type} [RCLike 𝕂] [DecidableEq 𝕂]

/-- **`localH_sparse`**: `apply_local_hamiltonian(L, R, W, A)` maps a tensor of the charge sector `(qd, qa, qb)` into the
same sector when the environment blocks are block sparse (`is_qsparse(B, [q, qH, -q])`, as asserted by the prologue of
TDVP / DMRG for the right blocks) and `W` is a block-sparse MPO tensor: every Krylov vector `H_eff^k A` of the local
steps stays in the sector of `A`. -/
theorem localH_sparse {R : Type} [CommRing R] [StarRing R] [DecidableEq R] {L Rb : T3 R} {W : T4 R} {A T : T3 R}
    {qd qa qb qw qw' : List Int} (h : Op.applyLocalHamiltonian L Rb W A = .ok T)
    (hL : BlockSparse L qa qw) (hR : BlockSparse Rb qb qw') (hW : SparseT4 W qd qw qw') (hA : SparseT3 A qd qa qb) :
    SparseT3 T qd qa qb :=
  HistWf.localH_sparse h hL hR hW hA

/-- **TDVP1, length clause**: after `integrate_local_singlesite` every charge list has exactly the length of the
tensor axis it labels (admissible input, shape clause of the QR kernel only). -/
theorem tdvp1_lengths {k : EvoKernels 𝕂 ℝ} (hshape : ∀ B, ShapeAt k.dqr B) {H : MPO 𝕂} {ψ ψ' : MPS 𝕂} {dt : 𝕂}
    {numsteps numiter : Nat} {nrm : ℝ} (hadm : Admissible ψ)
    (h : integrateLocalSinglesite k H ψ dt numsteps numiter = .ok (ψ', nrm)) :
    ψ'.qd = ψ.qd ∧ ψ'.qD.length = ψ'.A.length + 1 ∧
      ∀ i (hi : i < ψ'.A.length), ψ'.A[i].d0 = ψ'.qd.length ∧ ψ'.A[i].d1 = (ψ'.qD.getD i []).length ∧
        ψ'.A[i].d2 = (ψ'.qD.getD (i + 1) []).length :=
  tdvp1_dims hshape hadm h

/-- **TDVP1, partial**: the result of `integrate_local_singlesite` is well-formed provided its tensors are block sparse
w.r.t. the new charges.  Missing (see `not_proved`): sparsity of the sites `1 … L-1` (reshaped `Q` factors of the last
right half-sweep: C11 plus sweep bookkeeping) and of site `0` (output of `_local_hamiltonian_step`: `localH_sparse`
plus closure of the sector under the Lanczos recurrence and the final combination of `expm_krylov`, plus block
sparsity of the maintained environment blocks). -/
theorem step_wf_tdvp1_partial {k : EvoKernels 𝕂 ℝ} (hshape : ∀ B, ShapeAt k.dqr B) {H : MPO 𝕂} {ψ ψ' : MPS 𝕂} {dt : 𝕂}
    {numsteps numiter : Nat} {nrm : ℝ} (hadm : Admissible ψ)
    (h : integrateLocalSinglesite k H ψ dt numsteps numiter = .ok (ψ', nrm))
    (hsp : ∀ i (hi : i < ψ'.A.length), SparseT3 ψ'.A[i] ψ'.qd (ψ'.qD.getD i []) (ψ'.qD.getD (i + 1) [])) :
    ψ'.wellFormed = true :=
  tdvp1_wf_partial hshape hadm h hsp

/-- **A.3 (TDVP1)** `boundary_kept_tdvp1`: single-site TDVP never rewrites `qD[0]`, `qD[L]` in its sweeps (the left half
rewrites `qD[1..L-1]`, the right half `qD[L-1..1]`); the right-orthonormalization of the prologue keeps them when the
returned norm is non-zero.  Admissible input, shape clause only. -/
theorem boundary_kept_tdvp1 {k : EvoKernels 𝕂 ℝ} (hshape : ∀ B, ShapeAt k.dqr B) {H : MPO 𝕂} {ψ ψ' : MPS 𝕂} {dt : 𝕂}
    {numsteps numiter : Nat} {nrm : ℝ} (hadm : Admissible ψ)
    (h : integrateLocalSinglesite k H ψ dt numsteps numiter = .ok (ψ', nrm)) (hn : nrm ≠ 0) :
    ψ'.qD.head? = ψ.qD.head? ∧ ψ'.qD.getLast? = ψ.qD.getLast? :=
  tdvp1_boundary hshape hadm h hn

/-- **A.3 (TDVP1, non-zero state)** for a non-zero state and a kernel with the full QR contract of C01. -/
theorem boundary_kept_tdvp1_nonzero {k : EvoKernels 𝕂 ℝ} (hc : C01.QRKernel k.dqr) {H : MPO 𝕂} {ψ ψ' : MPS 𝕂} {dt : 𝕂}
    {numsteps numiter : Nat} {nrm : ℝ} (hadm : Admissible ψ)
    (h : integrateLocalSinglesite k H ψ dt numsteps numiter = .ok (ψ', nrm))
    {σ : List Nat} (hσ : σ ∈ Env.digitsU ψ.qd.length ψ.A.length) (hne : ψ.amp σ ≠ 0) :
    ψ'.qD.head? = ψ.qD.head? ∧ ψ'.qD.getLast? = ψ.qD.getLast? :=
  tdvp1_boundary_nonzero hc hadm h hσ hne

end evo

/-! ## Non-vacuity

Concrete data over `ℚ` (all evaluations by kernel reduction of the executable model):
* `exPool = [ψ, φ]`, two one-site states `2·|1⟩`, `3·|1⟩` with charges `qd = [0,1]`, bonds `[0] → [1]`;
* `exPool2 = [χ]`, the two-site state `|01⟩ + |10⟩` with bonds `[0], [0,1], [1]`;
* `exK0`: kernels returning **zero** factors of the right shapes (they satisfy `KernelShapes` and nothing else; the
  norm oracle is `≡ 0`); `exK1`: the same with norm oracle `≡ 1` and the identity permutation; `exKI`: the
  identity-like QR kernel `B ↦ (I, B)` of `QrExample`; `exK0q`: that QR kernel with the zero SVD / norm oracles of
  `exK0`. -/

def isOk {ε α : Type} : Except ε α → Bool
  | .ok _ => true
  | .error _ => false

theorem ok_of_isOk {ε α : Type} {x : Except ε α} (h : isOk x = true) : ∃ a, x = .ok a := by
  cases x with
  | ok a => exact ⟨a, rfl⟩
  | error e => cases h

def exPsi : MPS ℚ := ⟨[0, 1], [[0], [1]], [⟨2, 1, 1, fun s _ _ => if s = 1 then 2 else 0⟩]⟩
def exPhi : MPS ℚ := ⟨[0, 1], [[0], [1]], [⟨2, 1, 1, fun s _ _ => if s = 1 then 3 else 0⟩]⟩
def exPool : Pool ℚ := [.mps exPsi, .mps exPhi]
def exChi : MPS ℚ := ⟨[0, 1], [[0], [0, 1], [1]],
  [⟨2, 1, 2, fun s _ b => if s = b then 1 else 0⟩, ⟨2, 2, 1, fun s a _ => if s + a = 1 then 1 else 0⟩]⟩
def exPool2 : Pool ℚ := [.mps exChi]
def exSvd0 (w : ℚ) : MPS.SvdKernels ℚ ℚ :=
  ⟨fun B => (⟨B.m, min B.m B.n, fun _ _ => 0⟩, List.replicate (min B.m B.n) 0, ⟨min B.m B.n, B.n, fun _ _ => 0⟩),
    fun _ => w, fun s => List.range s.length⟩
/-- kernels with the given QR / SVD oracles; `abs`, division by a real and `sqrt` are the identity on `ℚ`, the Krylov
oracles (not used by the operations of these examples) are trivial -/
def mkK (dqr : Mat ℚ → Mat ℚ × Mat ℚ) (svd : MPS.SvdKernels ℚ ℚ) : StepKernels ℚ ℚ :=
  ⟨dqr, svd, fun x => x, fun x _ => x, fun x => x, fun _ => 0, fun a _ => (a, ⟨0, 0, fun _ _ => 0⟩), fun x => x,
    fun M => M, 1 / 2⟩
def exK0 : StepKernels ℚ ℚ :=
  mkK (fun B => (⟨B.m, min B.m B.n, fun _ _ => 0⟩, ⟨min B.m B.n, B.n, fun _ _ => 0⟩)) (exSvd0 0)
def exK1 : StepKernels ℚ ℚ :=
  mkK (fun B => (⟨B.m, min B.m B.n, fun _ _ => 0⟩, ⟨min B.m B.n, B.n, fun _ _ => 0⟩)) (exSvd0 1)
def exKI : StepKernels ℚ ℚ := mkK exDqr (exSvd0 1)
/-- no bond charge list of an MPS slot is empty (decidable form of `NoCollapse`) -/
def noEmptyBond : Option (Obj ℚ) → Bool
  | some (.mps ψ) => ψ.qD.all fun q => !q.isEmpty
  | _ => false

theorem exK0_shapes : KernelShapes exK0 :=
  ⟨fun _ _ _ => ⟨rfl, rfl, rfl, rfl⟩, fun _ _ _ => ⟨rfl, rfl, by simp [exK0, mkK, exSvd0], rfl, rfl⟩⟩
theorem exK1_shapes : KernelShapes exK1 :=
  ⟨fun _ _ _ => ⟨rfl, rfl, rfl, rfl⟩, fun _ _ _ => ⟨rfl, rfl, by simp [exK1, mkK, exSvd0], rfl, rfl⟩⟩
theorem exKI_shapes : KernelShapes exKI :=
  ⟨fun B => exDqr_shape B, fun _ _ _ => ⟨rfl, rfl, by simp [exKI, mkK, exSvd0], rfl, rfl⟩⟩

/-- a three-step history: orthonormalize `ψ` (under the zero kernel!), add `φ`, zero the charges of the sum -/
def exHist : History ℚ ℚ := [(exK0, .orthoMps 0 true), (exK0, .addMps 0 1 1), (exK0, .zeroQ 2)]

/-- non-vacuity of `step_wf`, `run_wf`, `run_wf_prefix`: all hypotheses hold for `exPool`, `exHist` (the run
succeeds, three objects at the end) -/
example : (∀ kop ∈ exHist, KernelShapes kop.1) ∧ (∀ kop ∈ exHist, HOp.isCompress kop.2 = false) ∧
    poolWF exPool = true ∧ ∃ p', run exPool exHist = .ok p' ∧ p'.length = 3 ∧ poolWF p' = true := by
  have hk : ∀ kop ∈ exHist, KernelShapes kop.1 := by
    intro kop hk
    simp only [exHist, List.mem_cons, List.not_mem_nil, or_false] at hk
    rcases hk with rfl | rfl | rfl <;> exact exK0_shapes
  have hc : ∀ kop ∈ exHist, HOp.isCompress kop.2 = false := by
    intro kop hk
    simp only [exHist, List.mem_cons, List.not_mem_nil, or_false] at hk
    rcases hk with rfl | rfl | rfl <;> rfl
  have hp : poolWF exPool = true := by decide +kernel
  have hl : (match run exPool exHist with | .ok p' => p'.length == 3 | .error _ => false) = true := by
    decide +kernel
  obtain ⟨p', hr⟩ := ok_of_isOk (x := run exPool exHist) (by decide +kernel)
  rw [hr] at hl
  have he : ∀ kop ∈ exHist, HOp.isEvo kop.2 = false := by
    intro kop hk
    simp only [exHist, List.mem_cons, List.not_mem_nil, or_false] at hk
    rcases hk with rfl | rfl | rfl <;> rfl
  exact ⟨hk, hc, hp, p', hr, by simpa using hl, run_wf hk hc he hp hr⟩

/-- non-vacuity of `step_wf_compress_partial`: compressing `χ` under `exK1` with `tol = -1` succeeds and no bond
collapses -/
example : KernelShapes exK1 ∧ poolWF exPool2 = true ∧ ∃ p' out,
    step exK1 exPool2 (.compress 0 (-1) true) = .ok (p', out) ∧
    (∀ ψ, p'[0]? = some (.mps ψ) → ∀ q ∈ ψ.qD, q ≠ []) ∧ poolWF p' = true := by
  have hp : poolWF exPool2 = true := by decide +kernel
  have h : (match step exK1 exPool2 (.compress 0 (-1) true) with
      | .ok (p', _) => noEmptyBond p'[0]?
      | .error _ => false) = true := by decide +kernel
  obtain ⟨⟨p', out⟩, hs⟩ := ok_of_isOk (x := step exK1 exPool2 (.compress 0 (-1) true)) (by decide +kernel)
  rw [hs] at h
  have hnc : ∀ ψ, p'[0]? = some (.mps ψ) → ∀ q ∈ ψ.qD, q ≠ [] := by
    intro ψ hψ q hq h0
    simp only [hψ, noEmptyBond, List.all_eq_true] at h
    have := h q hq
    rw [h0] at this
    simp at this
  exact ⟨exK1_shapes, hp, p', out, hs, hnc, step_wf_compress_partial exK1_shapes hp hs hnc⟩

/-- identity-like QR kernel; SVD oracle returning zero factors and an all-zero spectrum of the right shapes (shape
clauses only: the product clause fails on every non-zero matrix); norm oracle `≡ 0` -/
def exK0q : StepKernels ℚ ℚ := mkK exDqr (exSvd0 0)
theorem exK0q_shapes : KernelShapes exK0q :=
  ⟨fun B => exDqr_shape B, fun _ _ _ => ⟨rfl, rfl, by simp [exK0q, mkK, exSvd0], rfl, rfl⟩⟩

/-- the hypothesis of `step_wf_compress_partial` cannot be dropped: under the zero SVD oracle (`exK0q`, which satisfies
the shape clauses but not the product clause: a NON-ZERO matrix gets the spectrum `[0, …]`, nothing is kept)
`compress` of the well-formed `χ` returns normally with an ill-formed state (bond dimension zero followed by the dummy
branch of `split_matrix_svd` on a matrix without rows).  Since the repair of `split_matrix_svd` a ZERO matrix always
gets the dummy bond of dimension one, so under the zero QR oracle `exK0` (which turns the state into zero before the
SVD sweep) the result is well-formed. -/
theorem compress_collapse_example : KernelShapes exK0q ∧ poolWF exPool2 = true ∧ ∃ p' out,
    step exK0q exPool2 (.compress 0 0 true) = .ok (p', out) ∧ poolWF p' = false := by
  have h : (match step exK0q exPool2 (.compress 0 0 true) with
      | .ok (p', _) => !(poolWF p') | .error _ => false) = true := by decide +kernel
  obtain ⟨⟨p', out⟩, hs⟩ := ok_of_isOk (x := step exK0q exPool2 (.compress 0 0 true)) (by decide +kernel)
  rw [hs] at h
  exact ⟨exK0q_shapes, by decide +kernel, p', out, hs, by simpa using h⟩

/-- the zero-state case after the repair: under the zero QR oracle `exK0` the same call returns a well-formed state -/
example : ∃ p' out, step exK0 exPool2 (.compress 0 0 true) = .ok (p', out) ∧ poolWF p' = true := by
  have h : (match step exK0 exPool2 (.compress 0 0 true) with
      | .ok (p', _) => poolWF p' | .error _ => false) = true := by decide +kernel
  obtain ⟨⟨p', out⟩, hs⟩ := ok_of_isOk (x := step exK0 exPool2 (.compress 0 0 true)) (by decide +kernel)
  rw [hs] at h
  exact ⟨p', out, hs, h⟩

/-- identity-like SVD kernel `B ↦ (I, 1, B)`, norm oracle `≡ 1`, identity permutation -/
def exSvdI : MPS.SvdKernels ℚ ℚ :=
  ⟨fun B => (⟨B.m, min B.m B.n, fun i j => if i = j then 1 else 0⟩, List.replicate (min B.m B.n) 1,
      ⟨min B.m B.n, B.n, B.f⟩), fun _ => 1, fun s => List.range s.length⟩
def exKII : StepKernels ℚ ℚ := mkK exDqr exSvdI
theorem exKII_shapes : KernelShapes exKII :=
  ⟨fun B => exDqr_shape B, fun _ _ _ => ⟨rfl, rfl, by simp [exKII, mkK, exSvdI], rfl, rfl⟩⟩

/-- non-vacuity of `step_wf_compress` / `step_wf_of_scale` (left mode): compressing `ψ` under the identity-like
kernels returns `(2, 1)`, a non-zero scale -/
example : KernelShapes exKII ∧ exKII.dabs 0 = 0 ∧ poolWF exPool = true ∧ ∃ p' out,
    step exKII exPool (.compress 0 (-1) true) = .ok (p', out) ∧ out.getD 1 0 ≠ 0 ∧ poolWF p' = true := by
  have hp : poolWF exPool = true := by decide +kernel
  have h : (match step exKII exPool (.compress 0 (-1) true) with
      | .ok (_, out) => decide (out.getD 1 0 ≠ 0) | .error _ => false) = true := by decide +kernel
  obtain ⟨⟨p', out⟩, hs⟩ := ok_of_isOk (x := step exKII exPool (.compress 0 (-1) true)) (by decide +kernel)
  rw [hs] at h
  have hsc : out.getD 1 0 ≠ 0 := by simpa using h
  exact ⟨exKII_shapes, rfl, hp, p', out, hs, hsc, step_wf_compress exKII_shapes rfl hp hs (fun _ => hsc)⟩

/-- non-vacuity of `step_wf_compress` (right mode, no condition): the two-site state `χ` -/
example : ∃ p' out, step exKII exPool2 (.compress 0 (-1) false) = .ok (p', out) ∧ poolWF p' = true := by
  obtain ⟨⟨p', out⟩, hs⟩ := ok_of_isOk (x := step exKII exPool2 (.compress 0 (-1) false)) (by decide +kernel)
  exact ⟨p', out, hs, step_wf_compress exKII_shapes rfl (by decide +kernel) hs (fun h => by cases h)⟩

/-- non-vacuity of `step_wf` for `from_vector`: `MPS.from_vector(2, 1, [3, 4], tol)` under the identity-like kernels
appends a third, well-formed object -/
example : ∃ p' out, step exKII exPool (.fromVector 2 1 [3, 4] (-1)) = .ok (p', out) ∧ p'.length = 3 ∧
    poolWF p' = true := by
  have hl : (match step exKII exPool (.fromVector 2 1 [3, 4] (-1)) with
      | .ok (p', _) => p'.length == 3 | .error _ => false) = true := by decide +kernel
  obtain ⟨⟨p', out⟩, hs⟩ := ok_of_isOk (x := step exKII exPool (.fromVector 2 1 [3, 4] (-1))) (by decide +kernel)
  rw [hs] at hl
  exact ⟨p', out, hs, by simpa using hl, step_wf exKII_shapes rfl rfl (by decide +kernel) hs⟩

/-- non-vacuity of `boundary_kept_of_factor`: orthonormalizing `χ` under the identity-like kernel returns a non-zero
factor -/
example : KernelShapes exKI ∧ RealLike.re (0 : ℚ) = (0 : ℚ) ∧ exKI.dabs 0 = 0 ∧ ∃ p' out,
    step exKI exPool2 (.orthoMps 0 true) = .ok (p', out) ∧ (∀ x ∈ out, x ≠ 0) := by
  have h : (match step exKI exPool2 (.orthoMps 0 true) with
      | .ok (_, out) => out.all (fun x => decide (x ≠ 0)) | .error _ => false) = true := by decide +kernel
  obtain ⟨⟨p', out⟩, hs⟩ := ok_of_isOk (x := step exKI exPool2 (.orthoMps 0 true)) (by decide +kernel)
  rw [hs] at h
  refine ⟨exKI_shapes, rfl, rfl, p', out, hs, fun x hx => ?_⟩
  simp only [List.all_eq_true, decide_eq_true_eq] at h
  exact h x hx

attribute [local instance] rcRealLike in
/-- non-vacuity of `boundary_kept`: the real two-site state `Ortho.exψ = |01⟩ + |10⟩` is admissible and non-zero, the
kernel `fullQR` satisfies the contract, and the run succeeds in both modes -/
example (left : Bool) : ∃ (ψ' : MPS ℝ) (nrm : ℝ) (s : List Nat),
    C01.QRKernel (QrExists.fullQR : Mat ℝ → Mat ℝ × Mat ℝ) ∧ Admissible exψ ∧
    MPS.orthonormalize QrExists.fullQR exψ left = .ok (ψ', nrm) ∧
    s ∈ Env.digitsU exψ.qd.length exψ.A.length ∧ exψ.amp s ≠ 0 := by
  obtain ⟨ψ', nrm, hrun⟩ := C01.ortho_ok (dqr := QrExists.fullQR) C01.fullQR_kernel.contract.shape exψ_adm left
  have hne : ∑ s ∈ Env.digitsU exψ.qd.length exψ.A.length, ‖exψ.amp s‖ ^ 2 ≠ 0 := by
    rw [exψ_normsq]; norm_num
  obtain ⟨s, hs, h0⟩ := Finset.exists_ne_zero_of_sum_ne_zero hne
  refine ⟨ψ', nrm, s, C01.fullQR_kernel, exψ_adm, hrun, hs, fun h => h0 ?_⟩
  rw [h]; simp

end Ptn.C02

import PtnModel.Props.C19
import PtnModel.Model.OpsX
/-!
# Property C19 for the creating operations (`Model/OpsX.lean`)

The frame discipline of `Props/C19.lean`, extended to the history model with constructors: `MPS(...)`, `MPO(...)`,
`MPO.identity`, `MPO.from_opgraph` return a new object (appended; no existing slot changes, in particular not the graph's
MPO operands -- the graph and the operator map are plain values of the call), and `resplit` (merge + `split_mps_tensor`
written back) changes only its documented target.

* `xstep_shape`  : a successful call either overwrites its documented target or appends one object;
* `xstep_frame`  : every slot other than the documented target holds the same value afterwards;
* `xrun_frame`   : along any history of creating and updating operations an object changes only at calls that name it
                   as target.
Core Lean only (every scalar type, every kernel family, no contract).
-/
set_option linter.unusedSectionVars false
namespace Ptn.C19
open Ptn.Hist

variable {α ρ : Type}
variable [OfNat α 0] [OfNat α 1] [Add α] [Mul α] [Sub α] [Neg α] [Div α] [DecidableEq α] [HasConj α]
  [RealLike ρ α] [OfNat ρ 0] [OfNat ρ 1] [Add ρ] [Mul ρ] [Div ρ] [Neg ρ] [NatCast ρ] [LT ρ] [DecidableEq ρ] [DecidableLT ρ]

/-- shape of a successful call of a creating / updating operation -/
theorem xstep_shape {k : StepKernels α ρ} {p p' : Pool α} {op : XOp α ρ} {out : List ρ}
    (h : xstep k p op = .ok (p', out)) :
    (∃ i o, op.target = some i ∧ i < p.length ∧ p' = p.set i o) ∨ (∃ o, op.target = none ∧ p' = p ++ [o]) := by
  cases op with
  | base op => exact step_shape (show step k p op = .ok (p', out) from h)
  | newMps qd qD x =>
    simp only [xstep] at h
    cases hr : MPS.filled qd qD x with
    | error e => simp [hr, bind, Except.bind] at h
    | ok ψ =>
      simp only [hr, bind, Except.bind, pure, Except.pure, Except.ok.injEq, Prod.mk.injEq] at h
      exact .inr ⟨_, rfl, h.1.symm⟩
  | newMpo qd qD x =>
    simp only [xstep] at h
    cases hr : MPO.filled qd qD x with
    | error e => simp [hr, bind, Except.bind] at h
    | ok o =>
      simp only [hr, bind, Except.bind, pure, Except.pure, Except.ok.injEq, Prod.mk.injEq] at h
      exact .inr ⟨_, rfl, h.1.symm⟩
  | identity qd L scale =>
    simp only [xstep, Except.ok.injEq, Prod.mk.injEq] at h
    exact .inr ⟨_, rfl, h.1.symm⟩
  | fromOpGraph qd g opmap =>
    simp only [xstep] at h
    cases hr : Og.fromOpgraph qd g opmap false with
    | error e => simp [hr, bind, Except.bind] at h
    | ok o =>
      simp only [hr, bind, Except.bind, pure, Except.pure, Except.ok.injEq, Prod.mk.injEq] at h
      exact .inr ⟨_, rfl, h.1.symm⟩
  | resplit i site distr tol =>
    simp only [xstep] at h
    split at h
    · rename_i ψ hp
      cases hr : resplitMps k ψ site distr tol with
      | error e => simp [hr, bind, Except.bind] at h
      | ok ψ' =>
        simp only [hr, bind, Except.bind, pure, Except.pure, Except.ok.injEq, Prod.mk.injEq] at h
        exact .inl ⟨i, _, rfl, (List.getElem?_eq_some_iff.1 hp).1, h.1.symm⟩
    · cases h

/-- **Frame of one call** (creating operations included): the pool grows by at most one slot and every slot other than the
documented target holds the same value afterwards. -/
theorem xstep_frame {k : StepKernels α ρ} {p p' : Pool α} {op : XOp α ρ} {out : List ρ}
    (h : xstep k p op = .ok (p', out)) :
    p.length ≤ p'.length ∧ p'.length ≤ p.length + 1 ∧
      ∀ i, i < p.length → some i ≠ op.target → p'[i]? = p[i]? := by
  rcases xstep_shape h with ⟨t, o, ht, _, rfl⟩ | ⟨o, ht, rfl⟩
  · refine ⟨by simp, by simp, fun i _ hne => ?_⟩
    rw [ht] at hne
    rw [List.getElem?_set_ne]
    intro e
    exact hne (by rw [e])
  · refine ⟨by simp, by simp, fun i hi _ => ?_⟩
    rw [List.getElem?_append_left hi]

theorem xrun_cons_ok' {p p' : Pool α} {k : StepKernels α ρ} {op : XOp α ρ} {h : XHistory α ρ} :
    xrun p ((k, op) :: h) = .ok p' ↔ ∃ p1 out, xstep k p op = .ok (p1, out) ∧ xrun p1 h = .ok p' := by
  simp only [xrun]
  cases hs : xstep k p op with
  | error e => simp
  | ok r =>
    obtain ⟨p1, out⟩ := r
    simp

/-- **Frame of a history**: an object that exists before a history of creating and updating operations and is the
documented target of none of its calls holds the same value afterwards. -/
theorem xrun_frame {p p' : Pool α} {h : XHistory α ρ} (hr : xrun p h = .ok p') :
    p.length ≤ p'.length ∧
      ∀ i, i < p.length → (∀ kop ∈ h, kop.2.target ≠ some i) → p'[i]? = p[i]? := by
  induction h generalizing p with
  | nil =>
    simp only [xrun, Except.ok.injEq] at hr
    subst hr
    exact ⟨Nat.le_refl _, fun _ _ _ => rfl⟩
  | cons kop h ih =>
    obtain ⟨k, op⟩ := kop
    obtain ⟨p1, out, hs, hr'⟩ := xrun_cons_ok'.1 hr
    obtain ⟨l1, _, f1⟩ := xstep_frame hs
    obtain ⟨l2, f2⟩ := ih hr'
    refine ⟨Nat.le_trans l1 l2, fun i hi hno => ?_⟩
    rw [f2 i (Nat.lt_of_lt_of_le hi l1) (fun kop hk => hno kop (List.mem_cons_of_mem _ hk))]
    exact f1 i hi (fun e => hno (k, op) List.mem_cons_self e.symm)

/-- non-vacuity: `MPO.identity` appended to the pool `exPool` of `Props/C19.lean` over `Rat` leaves both old slots as they are -/
example : ∃ p', xstep exK exPool (.identity [0] 2 3) = .ok (p', []) ∧
    p'.length = 3 ∧ p'[0]? = exPool[0]? ∧ p'[1]? = exPool[1]? :=
  ⟨_, rfl, rfl, rfl, rfl⟩

/-! ## operator-graph methods on a pool of graphs

`simplify`, `flip`, `rename_node_id`, `rename_edge_id`, `merge_edges` and `add` are methods that update one graph in place;
`add` reads a second graph.  On a pool of graphs each is a function of the target (and, for `add`, of the value of the other
graph): the call writes the target slot and nothing else -- "graph addition ... never [modifies] the other graph".  The
graph functions are those of `Model/OpGraph.lean`, compared call by call with the real methods by the C16 / C19
correspondences (`og.rewrite`: result, `other` unchanged, no shared node / edge objects). -/

section graphs
variable {κ : Type} [Add κ] [Mul κ] [OfNat κ 0] [OfNat κ 1] [DecidableEq κ]

inductive GOp where
  | simplify (i : Nat)
  | flip (i : Nat)
  | renameNode (i : Nat) (cur new : Int)
  | renameEdge (i : Nat) (cur new : Int)
  | mergeEdges (i : Nat) (eid1 eid2 : Int) (direction : Bool)
  | add (i j : Nat)                       -- pool[i].add(pool[j])

def GOp.target : GOp → Nat
  | .simplify i | .flip i | .renameNode i _ _ | .renameEdge i _ _ | .mergeEdges i _ _ _ | .add i _ => i

/-- one in-place method call on a pool of operator graphs -/
def gstep (p : List (Og.Graph κ)) (op : GOp) : Except Err (List (Og.Graph κ)) :=
  match p[op.target]? with
  | none => .error .index
  | some g =>
    (match op with
      | .simplify _ => g.simplify
      | .flip _ => .ok g.flip
      | .renameNode _ c n => g.renameNodeId c n
      | .renameEdge _ c n => g.renameEdgeId c n
      | .mergeEdges _ e1 e2 d => g.mergeEdges e1 e2 d
      | .add _ j => match p[j]? with
          | some o => g.add o
          | none => .error .index) >>= fun g' => .ok (p.set op.target g')

/-- **Frame of a graph method**: the pool keeps its length and every graph other than the documented target -- in
particular the second operand of `add` -- holds the same value afterwards. -/
theorem gstep_frame {p p' : List (Og.Graph κ)} {op : GOp} (h : gstep p op = .ok p') :
    p'.length = p.length ∧ ∀ i, i ≠ op.target → p'[i]? = p[i]? := by
  unfold gstep at h
  split at h
  · cases h
  · rename_i g hg
    simp only [bind, Except.bind] at h
    split at h
    · cases h
    · rename_i g' _
      simp only [Except.ok.injEq] at h
      subst h
      exact ⟨by simp, fun i hi => List.getElem?_set_ne (fun e => hi e.symm)⟩

/-- `other` is untouched by `add` (when it is not the target itself) -/
theorem gstep_add_other {p p' : List (Og.Graph κ)} {i j : Nat} (h : gstep p (.add i j) = .ok p') (hne : j ≠ i) :
    p'[j]? = p[j]? := (gstep_frame h).2 j hne

/-- any sequence of graph methods: a graph changes only at calls that name it as target -/
theorem gsteps_frame {p p' : List (Og.Graph κ)} {ops : List GOp}
    (h : ops.foldlM (fun q op => gstep q op) p = .ok p') :
    p'.length = p.length ∧ ∀ i, (∀ op ∈ ops, op.target ≠ i) → p'[i]? = p[i]? := by
  induction ops generalizing p with
  | nil =>
    simp only [List.foldlM, pure, Except.pure, Except.ok.injEq] at h
    subst h
    exact ⟨rfl, fun _ _ => rfl⟩
  | cons op ops ih =>
    simp only [List.foldlM, bind, Except.bind] at h
    split at h
    · cases h
    · rename_i p1 hs
      obtain ⟨l1, f1⟩ := gstep_frame hs
      obtain ⟨l2, f2⟩ := ih h
      refine ⟨l2.trans l1, fun i hi => ?_⟩
      rw [f2 i (fun op' hop => hi op' (List.mem_cons_of_mem _ hop))]
      exact f1 i (fun e => hi op List.mem_cons_self e.symm)

end graphs

/-- non-vacuity: `add` on a pool of two copies of a one-edge graph over `Int` succeeds and leaves slot 1 as it is -/
example : ∃ p', gstep (κ := Int) [⟨[(0, ⟨0, [], [0], 0⟩), (1, ⟨1, [0], [], 0⟩)], [(0, ⟨0, (0, 1), [(5, 3)]⟩)], (0, 1)⟩,
      ⟨[(0, ⟨0, [], [0], 0⟩), (1, ⟨1, [0], [], 0⟩)], [(0, ⟨0, (0, 1), [(5, 4)]⟩)], (0, 1)⟩] (.add 0 1) = .ok p' ∧
    p'[1]? = some ⟨[(0, ⟨0, [], [0], 0⟩), (1, ⟨1, [0], [], 0⟩)], [(0, ⟨0, (0, 1), [(5, 4)]⟩)], (0, 1)⟩ := by
  have h : (gstep (κ := Int) [⟨[(0, ⟨0, [], [0], 0⟩), (1, ⟨1, [0], [], 0⟩)], [(0, ⟨0, (0, 1), [(5, 3)]⟩)], (0, 1)⟩,
      ⟨[(0, ⟨0, [], [0], 0⟩), (1, ⟨1, [0], [], 0⟩)], [(0, ⟨0, (0, 1), [(5, 4)]⟩)], (0, 1)⟩] (.add 0 1)).isOk = true := by decide
  cases hr : gstep (κ := Int) [⟨[(0, ⟨0, [], [0], 0⟩), (1, ⟨1, [0], [], 0⟩)], [(0, ⟨0, (0, 1), [(5, 3)]⟩)], (0, 1)⟩,
      ⟨[(0, ⟨0, [], [0], 0⟩), (1, ⟨1, [0], [], 0⟩)], [(0, ⟨0, (0, 1), [(5, 4)]⟩)], (0, 1)⟩] (.add 0 1) with
  | error e => rw [hr] at h; cases h
  | ok p' => exact ⟨p', rfl, by rw [gstep_add_other hr (by decide)]; rfl⟩

end Ptn.C19

import PtnModel.Proofs.HamModels3
import PtnModel.Proofs.HamSparse
import PtnModel.Proofs.HamIsing
import PtnModel.Proofs.HamGraphWords
/-!
# Property C06 (built-in lattice Hamiltonians equal their textbook definitions)

"For every lattice size and every parameter value, the MPOs returned for the Ising, spin-1/2 and spin-1 XXZ Heisenberg,
Bose-Hubbard and Fermi-Hubbard models and for linear combinations of fermionic creation or annihilation operators have
exactly the dense matrix given by the documented formula (with Jordan-Wigner signs for fermions).  The model Hamiltonians
are Hermitian for real parameters, and all of them carry quantum numbers under which their tensors are block sparse,
i.e. they conserve (or shift by a fixed amount) magnetization respectively particle number and spin."

All statements are about the executable model `PtnModel/Model/Hamiltonian.lean` (`xxzLattice`, `xxz1Lattice`, `boseLattice`,
`fermiHubbardLattice`, `translateChains`, `localOpchainsToMpo`, `isingBuild`, `linFermiBuild`) of what
`pytenet/hamiltonian.py` computes itself before handing over to `OpGraph.from_opchains` / `from_automaton` /
`MPO.from_opgraph` (whose model is `Model/OpGraph.lean`, properties C05 / C17); it is tied to the code by the exact
differential correspondence of `./check C06` (complete parameter grid, L = 1..6).  Scalars are an arbitrary commutative
ring `κ`; the constants `0.5` and `√n` enter through `Consts κ`.

What is proved, for every lattice size `L : ℤ` (`L ≤ 0` and `L` shorter than a template included) and all parameters:

* `*_chains_wf`  -- the constructor part never raises and every chain of the list handed to `from_opchains` satisfies its
  guards (`ChainWF`: `len(qnums) = len(oids)+1`, non-empty, start ≥ 0, fits into `L`, leading and trailing charge 0);
  `chains_pass_padding`: such a chain passes `OpChain.padded` with the padded lengths `L`, `L+1`.
* `*_words`      -- the formal sum handed over is, word by word, the documented sum of local terms (two-site terms only for
  `i + 2 ≤ L`: absent when the chain is shorter than the term).
* `ising_automaton`, `ising_words` -- the Ising automaton is returned explicitly and denotes the documented sum on every number of sites.
* `lattice_graph_words`, `*_graph_words`, `ising_graph_words` -- combined with the semantics of the graph compilers proved for C05
  (`from_opchains_sem`) and C17 (`automaton_sem`): whenever a constructor returns (`L ≥ 1`), the operator graph it hands to
  `MPO.from_opgraph` has, for every word, exactly the coefficient of that word in the documented sum.
* `*_tables_charged` -- every table is `d × d`; every local operator of every template shifts the physical charge by exactly
  the jump of the interleaved bond charges at its position; the identity has charge 0 (Bose-Hubbard: for every `d ≥ 0`;
  Fermi-Hubbard: particle number and spin, encoded as `(N << 16) + S`).
* `mpo_block_sparse` -- whenever a constructor returns, every tensor is block sparse under `qd` / `qD`.
* `*_hermitian_terms` -- an involution `adj` of the operator ids with `opmap[adj o] = opmap[o]ᵀ` (all tables are real, so this is
  the adjoint) under which the chain list is closed with equal coefficients and equal positions; the padded word of the
  partner is the `adj`-image of the padded word.  Hence for real parameters the sum of terms equals its own adjoint.

Not proved here (see `obligations/C06.json`): that the dense matrix of the compiled MPO is the dense meaning of these
words (C05's `from_opchains_sem` / C17's `automaton_sem` plus the dense semantics of `from_opgraph`), the words of the
hand-built `linear_fermionic` graph, and that the final `is_qsparse` assertion cannot fire.
-/
set_option linter.unusedSectionVars false

namespace Ptn.C06
open Ptn Ptn.Og Ptn.Ham

variable {κ : Type} [CommRing κ] [DecidableEq κ]

/-! ## guards of `from_opchains` -/

/-- Translation of well-formed templates over a lattice of any size yields chains satisfying the guards of `from_opchains`. -/
theorem translate_wf {lop : List (OpChain κ)} (h : ∀ t ∈ lop, TemplateWF t) (L : Int) :
    ∀ ch ∈ translateChains lop L, ChainWF L ch :=
  translateChains_wf h L

/-- a chain satisfying the guards passes `OpChain.padded(L, oid)`; the result has `L` operators and `L + 1` charges -/
theorem chains_pass_padding {L : Int} {c : OpChain κ} (w : ChainWF L c) (oid : Int) :
    ∃ p, c.padded L oid = .ok p ∧ p.oids.length = L.toNat ∧ p.qnums.length = L.toNat + 1 ∧ p.coeff = c.coeff :=
  padded_ok w oid

/-- `heisenberg_xxz_mpo`: for every `L` and all `J, D, h` the constructor part returns and all chains are well formed. -/
theorem xxz_chains_wf (c : Consts κ) (J D h : κ) (L : Int) :
    ∃ lat, xxzLattice c J D h = .ok lat ∧ lat.qd = [1, -1] ∧ lat.oidIdentity = 0 ∧
      ∀ ch ∈ translateChains lat.lopchains L, ChainWF L ch :=
  ⟨_, xxzLattice_eq c J D h, rfl, rfl, translateChains_wf (xxz_templates c J D h) L⟩

/-- `heisenberg_xxz_spin1_mpo` -/
theorem xxz1_chains_wf (c : Consts κ) (J D h : κ) (L : Int) :
    ∃ lat, xxz1Lattice c J D h = .ok lat ∧ lat.qd = [1, 0, -1] ∧ lat.oidIdentity = 0 ∧
      ∀ ch ∈ translateChains lat.lopchains L, ChainWF L ch :=
  ⟨_, xxz1Lattice_eq c J D h, rfl, rfl, translateChains_wf (xxz1_templates c J D h) L⟩

/-- `bose_hubbard_mpo`, every local dimension `d` -/
theorem bose_chains_wf (c : Consts κ) (d : Nat) (t U mu : κ) (L : Int) :
    ∃ lat, boseLattice c d t U mu = .ok lat ∧ lat.qd = boseQd d ∧ lat.oidIdentity = 0 ∧
      ∀ ch ∈ translateChains lat.lopchains L, ChainWF L ch :=
  ⟨_, boseLattice_eq c d t U mu, rfl, rfl, translateChains_wf (bose_templates t U mu) L⟩

/-- `fermi_hubbard_mpo` -/
theorem fermi_hubbard_chains_wf (c : Consts κ) (t U mu : κ) (L : Int) :
    ∃ lat, fermiHubbardLattice c t U mu = .ok lat ∧ lat.qd = [0, 65535, 65537, 131072] ∧ lat.oidIdentity = 0 ∧
      ∀ ch ∈ translateChains lat.lopchains L, ChainWF L ch :=
  ⟨_, fermiHubbardLattice_eq c t U mu, spinQd_eq, rfl, translateChains_wf (fh_templates t U mu) L⟩

/-- non-vacuity: on `L = 3` sites the XXZ list has `2 + 2 + 2 + 3 = 9` chains, on `L = 1` only the field term survives,
on `L = 0` none -/
example (c : Consts Int) : (translateChains (xxzTemplates c 1 1 1) 3).length = 9 ∧
    (translateChains (xxzTemplates c 1 1 1) 1).length = 1 ∧ (translateChains (xxzTemplates c 1 1 1) 0).length = 0 := by
  refine ⟨?_, ?_, ?_⟩ <;> rfl

/-! ## the words -/

/-- `heisenberg_xxz_mpo`: `Σ_i J/2 S⁺_i S⁻_{i+1} + J/2 S⁻_i S⁺_{i+1} + D Sᶻ_i Sᶻ_{i+1} - h Sᶻ_i` (ids `Sd=-1, Id=0, Su=1, Sz=2`);
`J/2 (S⁺S⁻ + S⁻S⁺) = J (SˣSˣ + SʸSʸ)` is the documented `J X X + J Y Y`. -/
theorem xxz_words (c : Consts κ) (J D h : κ) (L : Int) :
    denChainsRaw (translateChains (xxzTemplates c J D h) L) L 0 =
      ((pyRange 0 (L - 1)).map fun i => (pyRepeat i 0 ++ [1, -1] ++ pyRepeat (L - 2 - i) 0, c.half * J)) ++
      ((pyRange 0 (L - 1)).map fun i => (pyRepeat i 0 ++ [-1, 1] ++ pyRepeat (L - 2 - i) 0, c.half * J)) ++
      ((pyRange 0 (L - 1)).map fun i => (pyRepeat i 0 ++ [2, 2] ++ pyRepeat (L - 2 - i) 0, D)) ++
      ((pyRange 0 L).map fun i => (pyRepeat i 0 ++ [2] ++ pyRepeat (L - 1 - i) 0, -h)) :=
  Ham.xxz_words c J D h L

/-- `heisenberg_xxz_spin1_mpo`: the same words over the spin-1 tables -/
theorem xxz1_words (c : Consts κ) (J D h : κ) (L : Int) :
    denChainsRaw (translateChains (xxz1Templates c J D h) L) L 0 =
      ((pyRange 0 (L - 1)).map fun i => (pyRepeat i 0 ++ [1, -1] ++ pyRepeat (L - 2 - i) 0, c.half * J)) ++
      ((pyRange 0 (L - 1)).map fun i => (pyRepeat i 0 ++ [-1, 1] ++ pyRepeat (L - 2 - i) 0, c.half * J)) ++
      ((pyRange 0 (L - 1)).map fun i => (pyRepeat i 0 ++ [2, 2] ++ pyRepeat (L - 2 - i) 0, D)) ++
      ((pyRange 0 L).map fun i => (pyRepeat i 0 ++ [2] ++ pyRepeat (L - 1 - i) 0, -h)) :=
  Ham.xxz1_words c J D h L

/-- `bose_hubbard_mpo`: `Σ_i -t b†_i b_{i+1} - t b_i b†_{i+1} - μ n_i + U n_i (n_i - 1)/2` (ids `B=-1, Id=0, Bd=1, N=2, NI=3`) -/
theorem bose_words (t U mu : κ) (L : Int) :
    denChainsRaw (translateChains (boseTemplates t U mu) L) L 0 =
      ((pyRange 0 (L - 1)).map fun i => (pyRepeat i 0 ++ [1, -1] ++ pyRepeat (L - 2 - i) 0, -t)) ++
      ((pyRange 0 (L - 1)).map fun i => (pyRepeat i 0 ++ [-1, 1] ++ pyRepeat (L - 2 - i) 0, -t)) ++
      ((pyRange 0 L).map fun i => (pyRepeat i 0 ++ [2] ++ pyRepeat (L - 1 - i) 0, -mu)) ++
      ((pyRange 0 L).map fun i => (pyRepeat i 0 ++ [3] ++ pyRepeat (L - 1 - i) 0, U)) :=
  Ham.bose_words t U mu L

/-- `fermi_hubbard_mpo`: hopping of either spin with the Jordan-Wigner `Z` on the site factor between the two modes
(`CZ·AI`, `AZ·CI`, `IC·ZA`, `IA·ZC`), `-μ (n_up + n_dn)`, `U (n_up - 1/2)(n_dn - 1/2)` -/
theorem fermi_hubbard_words (t U mu : κ) (L : Int) :
    denChainsRaw (translateChains (fhTemplates t U mu) L) L 0 =
      ((pyRange 0 (L - 1)).map fun i => (pyRepeat i 0 ++ [3, 2] ++ pyRepeat (L - 2 - i) 0, -t)) ++
      ((pyRange 0 (L - 1)).map fun i => (pyRepeat i 0 ++ [4, 1] ++ pyRepeat (L - 2 - i) 0, -t)) ++
      ((pyRange 0 (L - 1)).map fun i => (pyRepeat i 0 ++ [5, 8] ++ pyRepeat (L - 2 - i) 0, -t)) ++
      ((pyRange 0 (L - 1)).map fun i => (pyRepeat i 0 ++ [6, 7] ++ pyRepeat (L - 2 - i) 0, -t)) ++
      ((pyRange 0 L).map fun i => (pyRepeat i 0 ++ [9] ++ pyRepeat (L - 1 - i) 0, -mu)) ++
      ((pyRange 0 L).map fun i => (pyRepeat i 0 ++ [10] ++ pyRepeat (L - 1 - i) 0, U)) :=
  fh_words t U mu L

/-- `ising_mpo`: the constructor part returns (its `assert autop.is_consistent()` holds) the explicit three-state automaton, for all
`J, h, g` (zeros included) -/
theorem ising_automaton (J h g : κ) : isingAutomaton J h g = .ok (isingAut J h g) ∧ (isingAut J h g).isConsistent = true :=
  ⟨isingAutomaton_eq J h g, isingAut_consistent J h g⟩

/-- `ising_mpo`: on words of every length the path sum of the automaton handed to `from_automaton` is the coefficient of the word in
`Σ_i J Z_i Z_{i+1} + h Z_i + g X_i` (sum over all positions `i`; ids `I = 0, Z = 1, X = 2`; `placedWord t n i` is the term `t`
at site `i` padded with identities to `n` sites, so the two-site term contributes only for `i + 2 ≤ n`). -/
theorem ising_words (J h g : κ) (w : Word) :
    (isingAut J h g).denF w =
      ((List.range w.length).map fun i =>
        (if w = placedWord [1, 1] w.length i then J else 0) + (if w = placedWord [1] w.length i then h else 0)
        + (if w = placedWord [2] w.length i then g else 0)).sum :=
  ising_denF_sum J h g w

/-- non-vacuity: coefficients of `Z Z I`, `I X I` and of the single-site word `Z` for `J = 2, h = 3, g = 5` -/
example : isingSum (2 : Int) 3 5 [1, 1, 0] = 2 ∧ isingSum (2 : Int) 3 5 [0, 2, 0] = 5 ∧ isingSum (2 : Int) 3 5 [1] = 3 ∧
    isingSum (2 : Int) 3 5 [1, 2, 0] = 0 := by decide

/-- non-vacuity of the word theorems: `L = 2`, the words of the XXZ list -/
example (c : Consts Int) : denChainsRaw (translateChains (xxzTemplates c 2 3 5) 2) 2 0 =
    [([1, -1], c.half * 2), ([-1, 1], c.half * 2), ([2, 2], 3), ([2, 0], -5), ([0, 2], -5)] := rfl

/-! ## the compiled graphs -/

/-- **Chain-template models: the compiled operator graph denotes the documented sum.**  If `_local_opchains_to_mpo` returns for a
lattice of `L ≥ 1` sites, then for every word `w` the coefficient of `w` in the operator denoted by the graph handed to
`MPO.from_opgraph` is the coefficient of `w` in the formal sum of the translated, identity-padded templates
(`coeffIn s w = Σ_{(v, c) ∈ s, v = w} c`; for the four models that sum is spelled out by the `*_words` theorems). -/
theorem lattice_graph_words (lat : Ham.Lattice κ) (L : Int) (b : Built κ) (h : localOpchainsToMpo lat L = .ok b) (hL : 1 ≤ L)
    (w : Word) :
    b.graph.denF w = coeffIn (denChainsRaw (translateChains lat.lopchains L) L lat.oidIdentity) w :=
  lattice_graph_den lat L b h hL w

/-- `heisenberg_xxz_mpo`: the compiled graph denotes `Σ_i J/2 S⁺_i S⁻_{i+1} + J/2 S⁻_i S⁺_{i+1} + D Sᶻ_i Sᶻ_{i+1} - h Sᶻ_i` -/
theorem xxz_graph_words (c : Consts κ) (J D h : κ) (L : Int) (b : Built κ)
    (hb : localOpchainsToMpo (⟨[1, -1], xxzOpmap c, xxzTemplates c J D h, 0⟩ : Ham.Lattice κ) L = .ok b) (hL : 1 ≤ L) (w : Word) :
    b.graph.denF w = coeffIn
      (((pyRange 0 (L - 1)).map fun i => (pyRepeat i 0 ++ [1, -1] ++ pyRepeat (L - 2 - i) 0, c.half * J)) ++
       ((pyRange 0 (L - 1)).map fun i => (pyRepeat i 0 ++ [-1, 1] ++ pyRepeat (L - 2 - i) 0, c.half * J)) ++
       ((pyRange 0 (L - 1)).map fun i => (pyRepeat i 0 ++ [2, 2] ++ pyRepeat (L - 2 - i) 0, D)) ++
       ((pyRange 0 L).map fun i => (pyRepeat i 0 ++ [2] ++ pyRepeat (L - 1 - i) 0, -h))) w := by
  rw [lattice_graph_den _ L b hb hL w, ← Ham.xxz_words]

/-- `heisenberg_xxz_spin1_mpo` -/
theorem xxz1_graph_words (c : Consts κ) (J D h : κ) (L : Int) (b : Built κ)
    (hb : localOpchainsToMpo (⟨[1, 0, -1], xxz1Opmap c, xxz1Templates c J D h, 0⟩ : Ham.Lattice κ) L = .ok b) (hL : 1 ≤ L) (w : Word) :
    b.graph.denF w = coeffIn
      (((pyRange 0 (L - 1)).map fun i => (pyRepeat i 0 ++ [1, -1] ++ pyRepeat (L - 2 - i) 0, c.half * J)) ++
       ((pyRange 0 (L - 1)).map fun i => (pyRepeat i 0 ++ [-1, 1] ++ pyRepeat (L - 2 - i) 0, c.half * J)) ++
       ((pyRange 0 (L - 1)).map fun i => (pyRepeat i 0 ++ [2, 2] ++ pyRepeat (L - 2 - i) 0, D)) ++
       ((pyRange 0 L).map fun i => (pyRepeat i 0 ++ [2] ++ pyRepeat (L - 1 - i) 0, -h))) w := by
  rw [lattice_graph_den _ L b hb hL w, ← Ham.xxz1_words]

/-- `bose_hubbard_mpo`, every local dimension -/
theorem bose_graph_words (c : Consts κ) (d : Nat) (t U mu : κ) (L : Int) (b : Built κ)
    (hb : localOpchainsToMpo (⟨boseQd d, boseOpmap c d, boseTemplates t U mu, 0⟩ : Ham.Lattice κ) L = .ok b) (hL : 1 ≤ L) (w : Word) :
    b.graph.denF w = coeffIn
      (((pyRange 0 (L - 1)).map fun i => (pyRepeat i 0 ++ [1, -1] ++ pyRepeat (L - 2 - i) 0, -t)) ++
       ((pyRange 0 (L - 1)).map fun i => (pyRepeat i 0 ++ [-1, 1] ++ pyRepeat (L - 2 - i) 0, -t)) ++
       ((pyRange 0 L).map fun i => (pyRepeat i 0 ++ [2] ++ pyRepeat (L - 1 - i) 0, -mu)) ++
       ((pyRange 0 L).map fun i => (pyRepeat i 0 ++ [3] ++ pyRepeat (L - 1 - i) 0, U))) w := by
  rw [lattice_graph_den _ L b hb hL w, ← Ham.bose_words]

/-- `fermi_hubbard_mpo` -/
theorem fermi_hubbard_graph_words (c : Consts κ) (t U mu : κ) (L : Int) (b : Built κ)
    (hb : localOpchainsToMpo (⟨spinQd, fermiHubbardOpmap c, fhTemplates t U mu, 0⟩ : Ham.Lattice κ) L = .ok b) (hL : 1 ≤ L) (w : Word) :
    b.graph.denF w = coeffIn
      (((pyRange 0 (L - 1)).map fun i => (pyRepeat i 0 ++ [3, 2] ++ pyRepeat (L - 2 - i) 0, -t)) ++
       ((pyRange 0 (L - 1)).map fun i => (pyRepeat i 0 ++ [4, 1] ++ pyRepeat (L - 2 - i) 0, -t)) ++
       ((pyRange 0 (L - 1)).map fun i => (pyRepeat i 0 ++ [5, 8] ++ pyRepeat (L - 2 - i) 0, -t)) ++
       ((pyRange 0 (L - 1)).map fun i => (pyRepeat i 0 ++ [6, 7] ++ pyRepeat (L - 2 - i) 0, -t)) ++
       ((pyRange 0 L).map fun i => (pyRepeat i 0 ++ [9] ++ pyRepeat (L - 1 - i) 0, -mu)) ++
       ((pyRange 0 L).map fun i => (pyRepeat i 0 ++ [10] ++ pyRepeat (L - 1 - i) 0, U))) w := by
  rw [lattice_graph_den _ L b hb hL w, ← fh_words]

/-- `ising_mpo`: whenever the constructor returns, the graph unrolled from the automaton denotes
`Σ_i J Z_i Z_{i+1} + h Z_i + g X_i` on words of length `L` -/
theorem ising_graph_words (L : Int) (J h g : κ) (b : Built κ) (hb : isingBuild L J h g = .ok b) (w : Word)
    (hw : (w.length : Int) = L) :
    b.graph.denF w =
      ((List.range w.length).map fun i =>
        (if w = placedWord [1, 1] w.length i then J else 0) + (if w = placedWord [1] w.length i then h else 0)
        + (if w = placedWord [2] w.length i then g else 0)).sum :=
  ising_graph_den L J h g b hb w hw

/-- non-vacuity of the hypothesis `localOpchainsToMpo lat L = .ok b` (a constructor that returns): a one-template lattice model on
one site, using the evaluated run `from_opchains([3 · op₅], 1, 0)` of C05's examples -/
example : ∃ b, localOpchainsToMpo
    (⟨[0, 0], [(0, Mat.identity 2), (5, [[1, 0], [0, -1]])], [⟨[5], [0, 0], 3, 0⟩], 0⟩ : Ham.Lattice Int) 1 = .ok b := by
  have h : translateChains ([⟨[5], [0, 0], 3, 0⟩] : List (OpChain Int)) 1 = Ptn.Ch.exChains := rfl
  unfold localOpchainsToMpo
  simp only [h, Ptn.Ch.ex_from, bind, Except.bind]
  exact ⟨_, rfl⟩

/-- non-vacuity of `coeffIn`: two terms with the same word add up -/
example : coeffIn ([([1, 0], 2), ([0, 1], 3), ([1, 0], 5)] : Sym Int) [1, 0] = 7 := by decide

/-! ## charges and block sparsity -/

theorem xxz_tables_charged (c : Consts κ) (J D h : κ) :
    LatticeCharged (⟨[1, -1], xxzOpmap c, xxzTemplates c J D h, 0⟩ : Ham.Lattice κ) := xxz_charged c J D h

theorem xxz1_tables_charged (c : Consts κ) (J D h : κ) :
    LatticeCharged (⟨[1, 0, -1], xxz1Opmap c, xxz1Templates c J D h, 0⟩ : Ham.Lattice κ) := xxz1_charged c J D h

/-- for every local dimension `d` -/
theorem bose_tables_charged (c : Consts κ) (d : Nat) (t U mu : κ) :
    LatticeCharged (⟨boseQd d, boseOpmap c d, boseTemplates t U mu, 0⟩ : Ham.Lattice κ) := bose_charged c d t U mu

theorem fermi_hubbard_tables_charged (c : Consts κ) (t U mu : κ) :
    LatticeCharged (⟨spinQd, fermiHubbardOpmap c, fhTemplates t U mu, 0⟩ : Ham.Lattice κ) := fh_charged c t U mu

/-- non-vacuity of `OpHasCharge`: `S⁺` raises the magnetisation `2 S_z` by 2 and does not have charge 0 -/
example : OpHasCharge [1, -1] ([[0, 1], [0, 0]] : Mat Int) 2 ∧ ¬ OpHasCharge [1, -1] ([[0, 1], [0, 0]] : Mat Int) 0 := by
  constructor
  · charge_cases
  · intro h
    have := h 0 1 (by decide) (by decide) (by decide)
    simp [Mat.entry] at this

/-- **Block sparsity.**  Whenever one of the constructors returns (chain-template models, Ising, linear fermionic), every
tensor of the MPO is block sparse: `A[l][a, b, i, j] ≠ 0 → qd[a] - qd[b] + qD[l][i] - qD[l+1][j] = 0`. -/
theorem mpo_block_sparse :
    (∀ (lat : Ham.Lattice κ) (L : Int) (b : Built κ), localOpchainsToMpo lat L = .ok b → b.Sparse) ∧
    (∀ (L : Int) (J h g : κ) (b : Built κ), isingBuild L J h g = .ok b → b.Sparse) ∧
    (∀ (coeff : List κ) (create : Bool) (b : Built κ), linFermiBuild coeff create = .ok b → b.Sparse) :=
  ⟨fun _ _ _ h => localOpchainsToMpo_sparse h, fun _ _ _ _ _ h => isingBuild_sparse h,
   fun _ _ _ h => linFermiBuild_sparse h⟩

/-! ## Hermiticity of the term list -/

theorem xxz_hermitian_terms (c : Consts κ) (J D h : κ) :
    AdjointClosed (⟨[1, -1], xxzOpmap c, xxzTemplates c J D h, 0⟩ : Ham.Lattice κ) xxzAdj := xxz_adjoint c J D h

theorem xxz1_hermitian_terms (c : Consts κ) (J D h : κ) :
    AdjointClosed (⟨[1, 0, -1], xxz1Opmap c, xxz1Templates c J D h, 0⟩ : Ham.Lattice κ) xxzAdj := xxz1_adjoint c J D h

theorem bose_hermitian_terms (c : Consts κ) (d : Nat) (t U mu : κ) :
    AdjointClosed (⟨boseQd d, boseOpmap c d, boseTemplates t U mu, 0⟩ : Ham.Lattice κ) boseAdj := bose_adjoint c d t U mu

theorem fermi_hubbard_hermitian_terms (c : Consts κ) (t U mu : κ) :
    AdjointClosed (⟨spinQd, fermiHubbardOpmap c, fhTemplates t U mu, 0⟩ : Ham.Lattice κ) fhAdj := fh_adjoint c t U mu

/-- For an adjoint-closed lattice model and every `L`: each chain handed to `from_opchains` has a partner in the same list
with the same coefficient and start site whose operators are the adjoints, and the identity-padded word of the partner
is the `adj`-image of the padded word. -/
theorem hermitian_terms_translated {lat : Ham.Lattice κ} {adj : Int → Int} (h : AdjointClosed lat adj) (L : Int) :
    ∀ ch ∈ translateChains lat.lopchains L, ∃ ch' ∈ translateChains lat.lopchains L,
      ch'.coeff = ch.coeff ∧ ch'.istart = ch.istart ∧
      ch'.paddedWord L lat.oidIdentity = (ch.paddedWord L lat.oidIdentity).map adj := by
  intro ch hch
  obtain ⟨ch', hm, ho, hc, hs⟩ := translate_adjoint_closed h L ch hch
  exact ⟨ch', hm, hc, hs, paddedWord_adjoint h.ident ch ch' L ho hs⟩

end Ptn.C06

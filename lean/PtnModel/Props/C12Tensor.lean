import PtnModel.Proofs.Evo2TotSplit
import PtnModel.Proofs.HistEvoTwo
import PtnModel.Props.C13
/-!
# Property C12, the two-site wrapper `split_mps_tensor` (mps.py:301-331)

`split_mps_tensor(A, qd0, qd1, [qD0, qD2], svd_distr, tol)` reshapes the two-site tensor into the matrix
`(d0·D0) × (d1·D2)`, calls `split_matrix_svd` and distributes the singular values to the left factor, the right factor, or as
square roots to both.  The theorems of `Props/C12Split.lean` are about the matrix routine; here the wrapper itself
(`MPS.splitMpsTensor`, `qd0 = qd1 = qd` as in every call of the library), under the SVD / norm / argsort contracts:

* `split_mps_tensor_total` : the call returns for every block-sparse two-site tensor without an empty axis, every
  distribution and every tolerance (the `is_qsparse` assertion and `assert D <= max_interm_dim` never fire);
* `split_mps_tensor_wf`    : both returned tensors have the shapes `(d, D0, D)`, `(d, D, D2)` with `D = len(qbond)` and are
  block sparse w.r.t. `(qd, qD0, qbond)` resp. `(qd, qbond, qD2)` -- every tolerance and oracle, SVD shape clause only;
* `split_mps_tensor_gauge` : for a non-zero tensor and `0 ≤ tol < 1` the new bond is not empty; for `'right'` the first tensor
  is a left isometry, for `'left'` the second tensor is a right isometry, and the factor that carries the singular values is
  not zero (`Σ kept σ² ≥ (1 - tol) ‖A‖²`).
(`merge ∘ split = id` at zero tolerance for all three distributions is `C03.split_merge_tol0`.)
-/
set_option linter.unusedSectionVars false
namespace Ptn.C12
open Ptn Ptn.BondOps Ptn.Ortho Ptn.Evo Ptn.Krylov

variable {𝕜 : Type} [RCLike 𝕜] [DecidableEq 𝕜]

theorem split_mps_tensor_total {ks : MPS.SvdKernels 𝕜 ℝ} (hk : Compress.SvdKernel ks) (dsqrt : ℝ → ℝ) {A : T3 𝕜}
    {qd qa qc : List Int} (hd0 : A.d0 = qd.length * qd.length) (h1 : A.d1 = qa.length) (h2 : A.d2 = qc.length)
    (hsp : SparseT3 A (QN.flatten2 qd qd) qa qc) (hd : 0 < qd.length) (ha : 0 < qa.length) (hc : 0 < qc.length)
    {distr : Nat} (hdistr : distr ≤ 2) (tol : ℝ) :
    ∃ A0 A1 qb, MPS.splitMpsTensor ks dsqrt A qd qd qa qc distr tol = .ok (A0, A1, qb) :=
  splitMps_total hk dsqrt hd0 h1 h2 hsp hd ha hc hdistr tol

theorem split_mps_tensor_wf {ks : MPS.SvdKernels 𝕜 ℝ} {dsqrt : ℝ → ℝ} (hsvd : ∀ B, SvdShapeAt ks.dsvd B) {A : T3 𝕜}
    {qd qa qc qb : List Int} {distr : Nat} {tol : ℝ} {B0 B1 : T3 𝕜}
    (h : MPS.splitMpsTensor ks dsqrt A qd qd qa qc distr tol = .ok (B0, B1, qb))
    (h1 : A.d1 = qa.length) (h2 : A.d2 = qc.length) (hd : 0 < qd.length) (ha : 0 < qa.length) :
    T3Wf B0 qd qa qb ∧ T3Wf B1 qd qb qc :=
  HistWf.splitMps_wf hsvd h h1 h2 hd ha

theorem split_mps_tensor_gauge {k : MPS.SvdKernels 𝕜 ℝ} (hk : Compress.SvdKernel k) {dsqrt : ℝ → ℝ} {A A0 A1 : T3 𝕜}
    {qd qD0 qD2 : List Int} {distr : Nat} {qb : List Int} (hd : 0 < qd.length) (h1 : 0 < A.d1)
    (h2 : 0 < A.d2) (hpos : 0 < frob3 A) {tol : ℝ} (ht0 : 0 ≤ tol) (ht1 : tol < 1)
    (h : MPS.splitMpsTensor k dsqrt A qd qd qD0 qD2 distr tol = .ok (A0, A1, qb)) :
    0 < qb.length ∧ (distr = 1 → LeftIso A0 ∧ 0 < frob3 A1) ∧ (distr = 0 → RightIso A1 ∧ 0 < frob3 A0) := by
  have F := split_facts_tol hk hd h1 h2 hpos ht0 ht1 h
  exact ⟨F.pos, fun e => ⟨F.liso e, F.wpos1 e⟩, fun e => ⟨F.riso e, F.wpos0 e⟩⟩

/-- the all-ones two-site tensor of two qubits with trivial charges and bonds -/
noncomputable def exPair : T3 ℝ := ⟨4, 1, 1, fun _ _ _ => 1⟩

/-- non-vacuity including the run: `exPair`, kernels `Compress.exKernels ℝ`, tolerance `1/4`, distribution `'right'` -/
example : ∃ A0 A1 qb, MPS.splitMpsTensor (Compress.exKernels ℝ) Real.sqrt exPair [0, 0] [0, 0] [0] [0] 1 (1 / 4 : ℝ) =
      .ok (A0, A1, qb) ∧ 0 < qb.length ∧ LeftIso A0 ∧ T3Wf A0 [0, 0] [0] qb ∧ T3Wf A1 [0, 0] qb [0] := by
  have hsp : SparseT3 exPair (QN.flatten2 [0, 0] [0, 0]) [0] [0] := by
    intro s a b hs ha hb _
    have hs' : s < 4 := hs
    have ha' : a < 1 := ha
    have hb' : b < 1 := hb
    interval_cases s <;> interval_cases a <;> interval_cases b <;> rfl
  obtain ⟨A0, A1, qb, h⟩ := split_mps_tensor_total (C13.exKernels_kernel (𝕜 := ℝ)) Real.sqrt (A := exPair)
    (qd := [0, 0]) (qa := [0]) (qc := [0]) rfl rfl rfl hsp (by decide) (by decide) (by decide) (distr := 1) (by decide)
    (1 / 4 : ℝ)
  have hpos : 0 < frob3 exPair := by
    unfold frob3 exPair
    simp [Finset.sum_range_succ]
  obtain ⟨g0, g1, _⟩ := split_mps_tensor_gauge (C13.exKernels_kernel (𝕜 := ℝ)) (A := exPair) (by decide) Nat.one_pos
    Nat.one_pos hpos (by norm_num : (0 : ℝ) ≤ 1 / 4) (by norm_num) h
  obtain ⟨w0, w1⟩ := split_mps_tensor_wf (fun B => (C13.exKernels_kernel (𝕜 := ℝ)).svd.shape B) h rfl rfl (by decide)
    (by decide)
  exact ⟨A0, A1, qb, h, g0, (g1 rfl).1, w0, w1⟩

end Ptn.C12

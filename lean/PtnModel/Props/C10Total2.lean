import PtnModel.Proofs.Evo2TotDmrg
import PtnModel.Props.C10Two
import PtnModel.Props.C10Total
/-!
# C10 — totality of two-site DMRG (the run returns), and the unconditional form of the energy clauses at zero tolerance

`Props/C10Two.lean` proves consistency, the variational bounds and monotonicity of `calculate_ground_state_local_twosite`
at `tol_split = 0` *conditional on the run returning `.ok`*.  Here the condition is removed, and totality is proved for
**every split tolerance `0 ≤ tol < 1`** and every chain length `L ≥ 1`.

Model: `Ptn.Evo.dmrgTwosite`, `dmrg2Update/Left/Right/Sweep`, `dmrgNormalizeFirst` (`PtnModel/Model/Evolution.lean`).
Exception paths of the model and why they are excluded (see `Props/C08Total2.lean` for the two-site update, which is shared
with two-site TDVP, and `Props/C10Total.lean` for the prologue):

* `_minimize_local_energy` on the merged tensor: `assert nrmv > 0` of the Lanczos run — the merged pair of a window has the
  norm of the centre tensor of the mixed-canonical state, which is not zero; `numiter ≥ 1` (`numiter = 1` is fine);
* `split_mps_tensor` / `split_matrix_svd`: `is_qsparse` holds because the two-site effective operator keeps the charge
  sector (`HistWf.minimize_sparse` with the merged tensors); the optimised tensor has norm one, so neither the zero-matrix
  branch (F9) nor the `norm(s) == 0` guard of `retained_bond_indices` is exercised;
* the next window: the factor carrying the singular values has squared norm `Σ_kept σ² ≥ 1 - tol > 0`
  (`Evo.split_facts_tol`) — **`tol < 1` is needed and necessary** (for `tol_split ≥ 1` the bond dimension becomes `0` and the
  next Lanczos run fails its assertion; observed on the real code);
* `contraction_operator_step_left/right`: the window invariant `Canon2` is kept;
* the final `local_orthonormalize_right_qr(psi.A[0], [[[1]]], …)`: leading bond of dimension one, block QR on a block-sparse
  tensor; afterwards the first tensor is a right isometry with leading bond one, so the state is normalised again whatever was
  truncated during the sweep (`Evo.normalizeP`).

`L = 1`: both half sweeps are empty (`range(-1)`, `reversed(range(0))`), the sweep only normalises.  No hypothesis beyond
those of `dmrg1_total` was forced other than the SVD kernel contracts and `0 ≤ tol < 1`.
-/
set_option linter.unusedSectionVars false

namespace Ptn.C10
open Ptn Ptn.Krylov Ptn.Evo Ptn.BondOps Ptn.Ortho Ptn.Env Finset

variable {𝕜 : Type} [RCLike 𝕜] [DecidableEq 𝕜]

/-- **Totality of two-site DMRG.**  For a well-formed (block-sparse), shaped, dense-Hermitian MPO `H` compatible with the
admissible state `ψ` (`C02.EvoCompat`) whose trailing bond charge is zero, every chain length `L ≥ 1`, `numiter ≥ 1`, any
number of sweeps, **any split tolerance `0 ≤ tol < 1`**, under the kernel contracts (`SweepCtx`: `C01.QRKernel`,
`NormContract`, `C15.EighAt` at all Lanczos runs; `Compress.SvdKernel`: SVD / norm / argsort contracts of
`split_matrix_svd`): `calculate_ground_state_local_twosite` returns. -/
theorem dmrg2_total {k : EvoKernels 𝕜 ℝ} {H : MPO 𝕜} {ψ : MPS 𝕜} {numiter : Nat}
    (ctx : SweepCtx k H ψ.qd numiter) (hk : Compress.SvdKernel k.svd) (hm : 1 ≤ numiter)
    (hHwf : H.wellFormed = true) (hc : C02.EvoCompat H ψ) (hlast : (H.qD.getD H.A.length []).getD 0 0 = 0)
    (hadm : Admissible ψ) (hlen : H.A.length = ψ.A.length) {tol : ℝ} (ht0 : 0 ≤ tol) (ht1 : tol < 1)
    (numsweeps : Nat) :
    ∃ ψ' en, dmrgTwosite k H ψ numsweeps numiter tol = .ok (ψ', en) :=
  dmrg2_ok ctx hk hm (HistWf.hOk_of_wf hHwf hc.1 hc.2) hlast hadm hlen ht0 ht1 numsweeps

/-- **Consistency — unconditional form** (`tol_split = 0`, `L ≥ 2`, `numsweeps ≥ 1`): the call returns `(ψ', en)`, one
reported energy per sweep, `Σ_σ |ψ'[σ]|² = 1`, and `⟨ψ'|H|ψ'⟩` is the last reported energy. -/
theorem dmrg2_energy_consistent_total {k : EvoKernels 𝕜 ℝ} {H : MPO 𝕜} {ψ : MPS 𝕜} {numiter : Nat}
    (ctx : SweepCtx k H ψ.qd numiter) (hk : Compress.SvdKernel k.svd) (hm : 1 ≤ numiter)
    (hHwf : H.wellFormed = true) (hc : C02.EvoCompat H ψ) (hlast : (H.qD.getD H.A.length []).getD 0 0 = 0)
    (hadm : Admissible ψ) (hlen : H.A.length = ψ.A.length) (hL2 : 2 ≤ H.A.length) {numsweeps : Nat}
    (hns : 1 ≤ numsweeps) :
    ∃ ψ' en, dmrgTwosite k H ψ numsweeps numiter (0 : ℝ) = .ok (ψ', en) ∧
      en.length = numsweeps ∧ ∑ σ ∈ digitsU ψ.qd.length ψ'.A.length, ‖ψ'.amp σ‖ ^ 2 = 1 ∧
      ∃ elast, en.getLast? = some elast ∧ energy ψ' H ψ.qd.length = ((elast : ℝ) : 𝕜) := by
  obtain ⟨ψ', en, h⟩ := dmrg2_total ctx hk hm hHwf hc hlast hadm hlen (le_refl 0) zero_lt_one numsweeps
  exact ⟨ψ', en, h, dmrg2_energy_consistent ctx hk hL2 hadm hns h⟩

/-- **Variational bounds and monotonicity — unconditional form** (`tol_split = 0`, `L ≥ 2`): the call returns `(ψ', en)`
and every reported energy `e` satisfies `μ ≤ e` for every lower bound `μ` of the dense operator and
`e ‖ψ‖² ≤ ⟨ψ|H|ψ⟩`; the reported energies are non-increasing. -/
theorem dmrg2_variational_total {k : EvoKernels 𝕜 ℝ} {H : MPO 𝕜} {ψ : MPS 𝕜} {numiter : Nat}
    (ctx : SweepCtx k H ψ.qd numiter) (hk : Compress.SvdKernel k.svd) (hm : 1 ≤ numiter)
    (hHwf : H.wellFormed = true) (hc : C02.EvoCompat H ψ) (hlast : (H.qD.getD H.A.length []).getD 0 0 = 0)
    (hadm : Admissible ψ) (hlen : H.A.length = ψ.A.length) (hL2 : 2 ≤ H.A.length) (numsweeps : Nat) :
    ∃ ψ' en, dmrgTwosite k H ψ numsweeps numiter (0 : ℝ) = .ok (ψ', en) ∧
      (∀ e ∈ en, (∀ μ, DenseLower H ψ.qd.length μ → μ ≤ e) ∧
        e * ∑ σ ∈ digitsU ψ.qd.length ψ.A.length, ‖ψ.amp σ‖ ^ 2 ≤ RCLike.re (energy ψ H ψ.qd.length)) ∧
      en.Pairwise (· ≥ ·) := by
  obtain ⟨ψ', en, h⟩ := dmrg2_total ctx hk hm hHwf hc hlast hadm hlen (le_refl 0) zero_lt_one numsweeps
  exact ⟨ψ', en, h, dmrg2_variational ctx hk hL2 hadm h⟩

/-- **One two-site update returns** (`dmrg2Update`: merge, `_minimize_local_energy` with the merged MPO tensor,
`split_mps_tensor`), in a window `(i, i+1)` of a mixed-canonical (`Canon2`), block-sparse sweep state whose merged pair is
not zero; `svd_distr ∈ {left, right}`, `0 ≤ tol < 1`.  The new state keeps the window invariant and block sparsity; the
factor without the singular values is an isometry and the factor with the singular values is not zero. -/
theorem dmrg2_step_total {k : EvoKernels 𝕜 ℝ} {H : MPO 𝕜} {qd : List Int} {numiter : Nat}
    (ctx : SweepCtx k H qd numiter) (hk : Compress.SvdKernel k.svd) (hm : 1 ≤ numiter) (hH : HistWf.HOk H qd)
    {s : Sweep 𝕜} {i : Nat} (h : Canon2 H qd s i) (hsp : HistWf.EvoSparse H qd s i (i + 1))
    (hpos : 0 < frob3 (mergedA s i)) {distr : Nat} (hdistr : distr ≤ 1) {tol : ℝ} (ht0 : 0 ≤ tol) (ht1 : tol < 1) :
    ∃ s' en, dmrg2Update k H qd numiter tol distr s i = .ok (s', en) ∧ Canon2 H qd s' i ∧
      HistWf.EvoSparse H qd s' i (i + 1) ∧
      (distr = 1 → LeftIso (getA s' i) ∧ 0 < frob3 (getA s' (i + 1))) ∧
      (distr = 0 → RightIso (getA s' (i + 1)) ∧ 0 < frob3 (getA s' i)) := by
  obtain ⟨s', en, h1, h2, h3, h4, h5, _⟩ := dmrg2Update_ok ctx hk hm hH h hsp (Nat.le_refl i) (Nat.le_refl _) hpos
    hdistr ht0 ht1
  rw [Nat.min_self, Nat.max_self] at h3
  exact ⟨s', en, h1, h2, h3, h4, h5⟩

/-! ## non-vacuity

The kernels `Evo.exK2` over `ℂ` (with the SVD kernels `Compress.exKernels ℂ`), one Lanczos iteration, the Hermitian
block-sparse two-site MPO `exOC = Z ⊗ 1 + 1 ⊗ Z` and the admissible state `exψC = |01⟩ + i|10⟩` satisfy all hypotheses; by
the theorems the driver-level run returns for every number of sweeps and every tolerance in `[0, 1)`. -/

example : SweepCtx exK2 exOC exψC.qd 1 ∧ Compress.SvdKernel exK2.svd ∧ 1 ≤ 1 ∧ exOC.wellFormed = true ∧
    C02.EvoCompat exOC exψC ∧ (exOC.qD.getD exOC.A.length []).getD 0 0 = 0 ∧ Admissible exψC ∧
    exOC.A.length = exψC.A.length ∧ 2 ≤ exOC.A.length ∧ (0 : ℝ) ≤ 1 / 2 ∧ (1 / 2 : ℝ) < 1 :=
  ⟨exK2_ctx, exK2_svd, le_refl 1, C02.exOC_wf, C02.exCompat, rfl, exψC_adm, rfl, by decide, by norm_num, by norm_num⟩

/-- an actual driver-level run with a genuine tolerance (`numiter = 1`), every number of sweeps -/
example (numsweeps : Nat) : ∃ ψ' en, dmrgTwosite exK2 exOC exψC numsweeps 1 (1 / 2 : ℝ) = .ok (ψ', en) :=
  dmrg2_total (k := exK2) (H := exOC) (ψ := exψC) exK2_ctx exK2_svd (le_refl 1) C02.exOC_wf C02.exCompat rfl exψC_adm rfl
    (by norm_num) (by norm_num) numsweeps

/-- zero tolerance, every number of sweeps `≥ 1`: normalised result, one energy per sweep, non-increasing -/
example (numsweeps : Nat) (hns : 1 ≤ numsweeps) : ∃ ψ' en, dmrgTwosite exK2 exOC exψC numsweeps 1 (0 : ℝ) = .ok (ψ', en) ∧
    en.length = numsweeps ∧ ∑ σ ∈ digitsU exψC.qd.length ψ'.A.length, ‖ψ'.amp σ‖ ^ 2 = 1 ∧ en.Pairwise (· ≥ ·) := by
  obtain ⟨ψ', en, h, h1, h2, _⟩ := dmrg2_energy_consistent_total (k := exK2) (H := exOC) (ψ := exψC) exK2_ctx exK2_svd
    (le_refl 1) C02.exOC_wf C02.exCompat rfl exψC_adm rfl (by decide) hns
  exact ⟨ψ', en, h, h1, h2, (dmrg2_variational exK2_ctx exK2_svd (by decide) exψC_adm h).2⟩

/-- hypotheses of `dmrg2_step_total` (other than the kernel contracts above): the sweep state returned by the prologue for
`exψC` satisfies the window invariant at `i = 0`, is block sparse with valid blocks `BL[0]`, `BR[1]`, and its merged pair is
not zero; `exOC` satisfies `HOk` -/
example : ∃ s : Sweep ℂ, Canon2 exOC exψC.qd s 0 ∧ HistWf.EvoSparse exOC exψC.qd s 0 (0 + 1) ∧
    0 < frob3 (mergedA s 0) ∧ HistWf.HOk exOC exψC.qd := by
  have hH := HistWf.hOk_of_wf C02.exOC_wf C02.exCompat.1 C02.exCompat.2
  obtain ⟨s0, nrm, E0, hp, hinv0⟩ := prologue_ok (k := exK2) (ψ := exψC) exK2_ctx hH rfl exψC_adm rfl
  have hw := (hinv0.toP exK2_ctx).toWL (by decide) exK2_ctx.hH
  exact ⟨s0, hw.can, hw.sp, hw.pos, hH⟩

end Ptn.C10

import PtnModel.Proofs.QrExample
import PtnModel.Proofs.QrExists
/-!
# Property C11 (block-sparse QR decomposition, `pytenet.bond_ops.qr`)

"For every matrix whose non-zero entries connect equal row and column quantum numbers, the block QR returns
factors whose product equals the matrix, a first factor with orthonormal columns, and intermediate quantum
numbers (one per column) under which both factors are block sparse.  The intermediate dimension never exceeds
the smaller matrix dimension, and when no quantum number is shared the result is a valid factorization of the
zero matrix with intermediate dimension one."

All statements are about the executable model `BondOps.qr` (`PtnModel/Model/BondOps.lean`), tied to
`pytenet/bond_ops.py` by the differential correspondence of `./check C11`.  They hold for every commutative
ring `𝕜` with a star operation (`ℝ`, `ℂ` with conjugation, `ℚ`), for all shapes `m, n ≥ 1` and all integer
charge vectors (sorted or unsorted in either or both arguments, constant, disjoint, with rank-deficient blocks).

Vocabulary (defined in `PtnModel/Proofs/Qr*.lean`):
* `Sparse M qa qb`        : `∀ i j, i < M.m → j < M.n → M.f i j ≠ 0 → qa.getD i 0 = qb.getD j 0`
                            (equivalent to `QN.isSparseMat M qa qb = true`, see `sparse_iff_isSparseMat`);
* `blocks A q0 q1`        : the list of matrices which `qr dqr A q0 q1` hands to the dense kernel `dqr`
                            (one block of the row/column-sorted matrix per shared charge);
* `QRShape/QRProduct/QRIso dqr A q0 q1` : the shape / product / isometry clause of the kernel contract
                            (`ShapeAt`/`ProdAt`/`IsoAt`), required only at the matrices of `blocks A q0 q1`.

The dense kernel `np.linalg.qr(·, mode='reduced')` is the oracle argument `dqr`; its contract is a hypothesis.
The theorems only need the contract at the blocks of the run (`QRContractOn`); the contract for all matrices
(`QRContract`) implies it (`QRContract.on`).  Exact arithmetic in `𝕜`; IEEE rounding is not modelled.
-/
namespace Ptn.C11
open Ptn.BondOps Finset

variable {𝕜 : Type} [CommRing 𝕜] [StarRing 𝕜] [DecidableEq 𝕜]

/-- Contract of `np.linalg.qr(B, mode='reduced')`: shapes `m × k`, `k × n` with `k = min m n`, the product
restores `B`, the first factor has orthonormal columns.  Only in-range entries are constrained. -/
structure QRContract (dqr : Mat 𝕜 → Mat 𝕜 × Mat 𝕜) : Prop where
  shape : ∀ B : Mat 𝕜, 0 < B.m → 0 < B.n →
    (dqr B).1.m = B.m ∧ (dqr B).1.n = min B.m B.n ∧ (dqr B).2.m = min B.m B.n ∧ (dqr B).2.n = B.n
  product : ∀ (B : Mat 𝕜) (i j : Nat), i < B.m → j < B.n → ((dqr B).1.mul (dqr B).2).f i j = B.f i j
  iso : ∀ (B : Mat 𝕜) (p p' : Nat), p < min B.m B.n → p' < min B.m B.n →
    ∑ i ∈ range B.m, star ((dqr B).1.f i p) * (dqr B).1.f i p' = if p = p' then 1 else 0

/-- The same three clauses, required only at the matrices `blocks A q0 q1` that the run `qr dqr A q0 q1`
actually hands to the kernel. -/
structure QRContractOn (dqr : Mat 𝕜 → Mat 𝕜 × Mat 𝕜) (A : Mat 𝕜) (q0 q1 : List Int) : Prop where
  shape : ∀ B ∈ blocks A q0 q1, 0 < B.m → 0 < B.n →
    (dqr B).1.m = B.m ∧ (dqr B).1.n = min B.m B.n ∧ (dqr B).2.m = min B.m B.n ∧ (dqr B).2.n = B.n
  product : ∀ B ∈ blocks A q0 q1, ∀ (i j : Nat), i < B.m → j < B.n → ((dqr B).1.mul (dqr B).2).f i j = B.f i j
  iso : ∀ B ∈ blocks A q0 q1, ∀ (p p' : Nat), p < min B.m B.n → p' < min B.m B.n →
    ∑ i ∈ range B.m, star ((dqr B).1.f i p) * (dqr B).1.f i p' = if p = p' then 1 else 0

omit [DecidableEq 𝕜] in
/-- the contract for all matrices implies the contract at the blocks of any run -/
theorem QRContract.on {dqr : Mat 𝕜 → Mat 𝕜 × Mat 𝕜} (h : QRContract dqr) (A : Mat 𝕜) (q0 q1 : List Int) :
    QRContractOn dqr A q0 q1 :=
  ⟨fun B _ => h.shape B, fun B _ => h.product B, fun B _ => h.iso B⟩

omit [DecidableEq 𝕜] in
/-- the shape clause written with the vocabulary of the proofs -/
theorem QRContractOn.shape' {dqr : Mat 𝕜 → Mat 𝕜 × Mat 𝕜} {A : Mat 𝕜} {q0 q1 : List Int}
    (h : QRContractOn dqr A q0 q1) : QRShape dqr A q0 q1 := h.shape

omit [StarRing 𝕜] in
/-- `Sparse` is the mask test `is_qsparse(M, [qa, -qb])` of the model -/
theorem sparse_iff_isSparseMat (M : Mat 𝕜) (qa qb : List Int) :
    Sparse M qa qb ↔ QN.isSparseMat M qa qb = true := (isSparseMat_iff M qa qb).symm

variable {dqr : Mat 𝕜 → Mat 𝕜 × Mat 𝕜} {A : Mat 𝕜} {q0 q1 : List Int}

omit [StarRing 𝕜] in
/-- (a) No assertion fires: on admissible input `qr` returns a triple, for EVERY kernel that returns factors of
the right shapes on the blocks (no product/isometry clause needed).  In particular the accumulated intermediate
dimension passes `assert D <= max_interm_dim`. -/
theorem qr_ok (hshape : QRShape dqr A q0 q1)
    (hq0 : q0.length = A.m) (hq1 : q1.length = A.n) (hm : 0 < A.m) (hn : 0 < A.n) (hsp : Sparse A q0 q1) :
    ∃ Q R qi, BondOps.qr dqr A q0 q1 = .ok (Q, R, qi) :=
  qr_ok' hshape ⟨hq0, hq1, hm, hn, hsp⟩

omit [StarRing 𝕜] in
/-- (a') Dimensions: one intermediate quantum number per column of `Q` / row of `R`, and the intermediate
dimension is at least one and never exceeds the smaller matrix dimension. -/
theorem dim (hshape : QRShape dqr A q0 q1)
    (hq0 : q0.length = A.m) (hq1 : q1.length = A.n) (hm : 0 < A.m) (hn : 0 < A.n) (hsp : Sparse A q0 q1)
    {Q R : Mat 𝕜} {qi : List Int} (hrun : BondOps.qr dqr A q0 q1 = .ok (Q, R, qi)) :
    Q.m = A.m ∧ Q.n = qi.length ∧ R.m = qi.length ∧ R.n = A.n ∧ 0 < qi.length ∧ qi.length ≤ min A.m A.n :=
  have h := result_of_run hshape ⟨hq0, hq1, hm, hn, hsp⟩ hrun
  ⟨h.Qm, h.Qn, h.Rm, h.Rn, h.pos, h.le⟩

omit [StarRing 𝕜] in
/-- (b) `Q` is block sparse w.r.t. the row charges `q0` and the intermediate charges `qi` — for EVERY kernel
satisfying only the shape clause. -/
theorem sparse_Q (hshape : QRShape dqr A q0 q1)
    (hq0 : q0.length = A.m) (hq1 : q1.length = A.n) (hm : 0 < A.m) (hn : 0 < A.n) (hsp : Sparse A q0 q1)
    {Q R : Mat 𝕜} {qi : List Int} (hrun : BondOps.qr dqr A q0 q1 = .ok (Q, R, qi)) : Sparse Q q0 qi :=
  (result_of_run hshape ⟨hq0, hq1, hm, hn, hsp⟩ hrun).sparseQ

omit [StarRing 𝕜] in
/-- (b) `R` is block sparse w.r.t. the intermediate charges `qi` and the column charges `q1` — for EVERY kernel
satisfying only the shape clause. -/
theorem sparse_R (hshape : QRShape dqr A q0 q1)
    (hq0 : q0.length = A.m) (hq1 : q1.length = A.n) (hm : 0 < A.m) (hn : 0 < A.n) (hsp : Sparse A q0 q1)
    {Q R : Mat 𝕜} {qi : List Int} (hrun : BondOps.qr dqr A q0 q1 = .ok (Q, R, qi)) : Sparse R qi q1 :=
  (result_of_run hshape ⟨hq0, hq1, hm, hn, hsp⟩ hrun).sparseR

/-- (c) The product of the factors equals the matrix. -/
theorem product (hc : QRContractOn dqr A q0 q1)
    (hq0 : q0.length = A.m) (hq1 : q1.length = A.n) (hm : 0 < A.m) (hn : 0 < A.n) (hsp : Sparse A q0 q1)
    {Q R : Mat 𝕜} {qi : List Int} (hrun : BondOps.qr dqr A q0 q1 = .ok (Q, R, qi))
    {i j : Nat} (hi : i < A.m) (hj : j < A.n) : (Q.mul R).f i j = A.f i j :=
  product' hc.shape hc.product ⟨hq0, hq1, hm, hn, hsp⟩ hrun hi hj

/-- (d) The first factor has orthonormal columns. -/
theorem isometry (hc : QRContractOn dqr A q0 q1)
    (hq0 : q0.length = A.m) (hq1 : q1.length = A.n) (hm : 0 < A.m) (hn : 0 < A.n) (hsp : Sparse A q0 q1)
    {Q R : Mat 𝕜} {qi : List Int} (hrun : BondOps.qr dqr A q0 q1 = .ok (Q, R, qi))
    {p p' : Nat} (hp : p < Q.n) (hp' : p' < Q.n) :
    ∑ i ∈ range A.m, star (Q.f i p) * Q.f i p' = if p = p' then 1 else 0 :=
  isometry' hc.shape hc.iso ⟨hq0, hq1, hm, hn, hsp⟩ hrun hp hp'

/-- (e) No shared quantum number: whatever the kernel, the result is `Q = e₀` (one column), `R = 0` (one row),
`qi = q0[:1]`; `A` is the zero matrix, `Q R = A`, and both factors are block sparse. -/
theorem disjoint (dqr : Mat 𝕜 → Mat 𝕜 × Mat 𝕜)
    (hq0 : q0.length = A.m) (hq1 : q1.length = A.n) (hm : 0 < A.m) (hn : 0 < A.n) (hsp : Sparse A q0 q1)
    (he : intersect1d q0 q1 = []) :
    ∃ Q R : Mat 𝕜, BondOps.qr dqr A q0 q1 = .ok (Q, R, q0.take 1) ∧
      Q.m = A.m ∧ Q.n = 1 ∧ R.m = 1 ∧ R.n = A.n ∧ (q0.take 1).length = 1 ∧
      (∀ i p, Q.f i p = if i = 0 then 1 else 0) ∧ (∀ p j, R.f p j = 0) ∧
      (∀ i j, i < A.m → j < A.n → A.f i j = 0) ∧
      (∀ i j, i < A.m → j < A.n → (Q.mul R).f i j = A.f i j) ∧
      (∑ i ∈ range A.m, star (Q.f i 0) * Q.f i 0 = 1) ∧
      Sparse Q q0 (q0.take 1) ∧ Sparse R (q0.take 1) q1 :=
  have H : QRInput A q0 q1 := ⟨hq0, hq1, hm, hn, hsp⟩
  have hr := result_disjoint H
  ⟨e0 A.m, Mat.zero 1 A.n, qr_disjoint dqr H he, rfl, rfl, rfl, rfl, take_one_length H,
    fun _ _ => rfl, fun _ _ => rfl, all_zero_of_disjoint H he,
    fun _ _ hi hj => product_disjoint H he hi hj,
    (isometry_disjoint A.m hm (Nat.lt_succ_self 0) (Nat.lt_succ_self 0)).trans (if_pos rfl),
    hr.sparseQ, hr.sparseR⟩

/-- Property C11 in one statement, for a kernel satisfying the full contract. -/
theorem block_qr (hc : QRContract dqr)
    (hq0 : q0.length = A.m) (hq1 : q1.length = A.n) (hm : 0 < A.m) (hn : 0 < A.n) (hsp : Sparse A q0 q1) :
    ∃ Q R qi, BondOps.qr dqr A q0 q1 = .ok (Q, R, qi) ∧
      Q.m = A.m ∧ Q.n = qi.length ∧ R.m = qi.length ∧ R.n = A.n ∧ 0 < qi.length ∧ qi.length ≤ min A.m A.n ∧
      (∀ i j, i < A.m → j < A.n → (Q.mul R).f i j = A.f i j) ∧
      (∀ p p', p < Q.n → p' < Q.n → ∑ i ∈ range A.m, star (Q.f i p) * Q.f i p' = if p = p' then 1 else 0) ∧
      Sparse Q q0 qi ∧ Sparse R qi q1 ∧
      (intersect1d q0 q1 = [] → qi = q0.take 1 ∧ qi.length = 1 ∧ ∀ i j, i < A.m → j < A.n → A.f i j = 0) := by
  have hon := hc.on A q0 q1
  obtain ⟨Q, R, qi, hrun⟩ := qr_ok hon.shape hq0 hq1 hm hn hsp
  obtain ⟨d1, d2, d3, d4, d5, d6⟩ := dim hon.shape hq0 hq1 hm hn hsp hrun
  refine ⟨Q, R, qi, hrun, d1, d2, d3, d4, d5, d6,
    fun i j hi hj => product hon hq0 hq1 hm hn hsp hrun hi hj,
    fun p p' hp hp' => isometry hon hq0 hq1 hm hn hsp hrun hp hp',
    sparse_Q hon.shape hq0 hq1 hm hn hsp hrun, sparse_R hon.shape hq0 hq1 hm hn hsp hrun, ?_⟩
  intro he
  obtain ⟨Q', R', hrun', -, -, -, -, hl, -, -, hz, -⟩ := disjoint dqr hq0 hq1 hm hn hsp he
  rw [hrun] at hrun'
  injection hrun' with h
  injection h with _ h
  injection h with _ h
  subst h
  exact ⟨rfl, hl, hz⟩

/-! ## Non-vacuity

`exA = [[0, 2, 0], [3, 0, 4]]` with charges `q0 = [1, 0]`, `q1 = [0, 1, 0]` (unsorted in both arguments, two shared
charges, blocks `[[3, 4]]` and `[[2]]`), and the identity-like kernel `exDqr B = (I, B)`, which satisfies the
contract at these blocks.  `exZ = 0` (`2 × 3`) with the disjoint charges `[1, 1]`, `[0, 2, 0]`. -/

/-- the example kernel satisfies the contract at the blocks of the example run -/
theorem ex_contract : QRContractOn exDqr exA exq0 exq1 := ⟨ex_shape, ex_prod, ex_iso⟩

/-- non-vacuity of `qr_ok`, `dim`, `sparse_Q`, `sparse_R`, `product`, `isometry`: all hypotheses (including
`hrun`) hold for the example, which has two shared charges and needs a row and a column permutation -/
example : ∃ (Q R : Mat ℚ) (qi : List Int),
    QRContractOn exDqr exA exq0 exq1 ∧ QRShape exDqr exA exq0 exq1 ∧
    exq0.length = exA.m ∧ exq1.length = exA.n ∧ 0 < exA.m ∧ 0 < exA.n ∧ Sparse exA exq0 exq1 ∧
    intersect1d exq0 exq1 = [0, 1] ∧ isIdPerm (stableArgsort exq0) = false ∧ isIdPerm (stableArgsort exq1) = false ∧
    BondOps.qr exDqr exA exq0 exq1 = .ok (Q, R, qi) ∧ 0 < Q.n := by
  obtain ⟨Q, R, qi, hrun⟩ := qr_ok ex_shape ex_input.hq0 ex_input.hq1 ex_input.hm ex_input.hn ex_input.hsp
  have hd := dim ex_shape ex_input.hq0 ex_input.hq1 ex_input.hm ex_input.hn ex_input.hsp hrun
  exact ⟨Q, R, qi, ex_contract, ex_shape, ex_input.hq0, ex_input.hq1, ex_input.hm, ex_input.hn, ex_input.hsp,
    ex_shared, by decide, by decide, hrun, by omega⟩

/-- non-vacuity of `disjoint`: a zero matrix with disjoint charges -/
example : exz0.length = exZ.m ∧ exz1.length = exZ.n ∧ 0 < exZ.m ∧ 0 < exZ.n ∧ Sparse exZ exz0 exz1 ∧
    intersect1d exz0 exz1 = [] :=
  ⟨exz_input.hq0, exz_input.hq1, exz_input.hm, exz_input.hn, exz_input.hsp, exz_disjoint⟩

/-- non-vacuity of `QRContract` (hence of `block_qr`, `QRContract.on`): over `ℝ`, `ℂ` (any `RCLike` field) the
contract for ALL matrices — both `m ≤ n` and `m > n`, rank-deficient ones included — is satisfied by `fullQR`
(`Q = I`, `R = B` for `m ≤ n`; Gram–Schmidt extended to an orthonormal basis for `m > n`,
`PtnModel/Proofs/QrExists.lean`).  Over `ℚ` no such kernel exists (square roots), which is why the theorems above
only ask for the contract at the blocks of the run. -/
theorem fullQR_contract {𝕜 : Type} [RCLike 𝕜] [DecidableEq 𝕜] :
    QRContract (QrExists.fullQR : Mat 𝕜 → Mat 𝕜 × Mat 𝕜) :=
  ⟨fun B _ _ => QrExists.fullQR_shape B, fun B _ _ hi hj => QrExists.fullQR_product B hi hj,
    fun B _ _ hp hp' => QrExists.fullQR_iso B hp hp'⟩

/-- non-vacuity of `block_qr`: all hypotheses hold for the real `2 × 3` example with the kernel `fullQR` -/
example : ∃ (dqr : Mat ℝ → Mat ℝ × Mat ℝ) (A : Mat ℝ) (q0 q1 : List Int),
    QRContract dqr ∧ q0.length = A.m ∧ q1.length = A.n ∧ 0 < A.m ∧ 0 < A.n ∧ Sparse A q0 q1 ∧
    intersect1d q0 q1 = [0, 1] := by
  refine ⟨QrExists.fullQR, exA.map (fun x => (x : ℝ)), exq0, exq1, fullQR_contract, rfl, rfl, by decide, by decide,
    ?_, ex_shared⟩
  intro i j hi hj hne
  refine ex_input.hsp i j hi hj ?_
  intro h0
  apply hne
  show ((exA.f i j : ℚ) : ℝ) = 0
  rw [h0]; simp

end Ptn.C11

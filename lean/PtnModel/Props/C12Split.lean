import PtnModel.Props.C12Rule
import PtnModel.Proofs.SvdExample
import PtnModel.Proofs.SvdRecon
/-!
# C12 (block-SVD split): `split_matrix_svd(A, q0, q1, tol)`

Property text (the part decided here): *for every block-sparse matrix the split returns `u`, `s`, `v` and
intermediate quantum numbers such that `u` has orthonormal columns, `v` has orthonormal rows, both are block
sparse under the returned quantum numbers, the kept singular values are those selected by the truncation rule
(positive, discarded weight ≤ tol, …), and `u·diag(s)·v` differs from `A` exactly by the discarded part; for the
zero matrix with disjoint quantum numbers it is only required to return a product equal to zero without raising.*

Two branches of the code: a **zero matrix** (`¬ AnyNZ A`: in particular every block-sparse matrix without a shared
charge, but also a zero matrix whose charge lists intersect) gets the dummy bond `u = e₀`, `s = [0]`, `v = 0`,
`q = q0[:1]` of dimension one (`split_zero`); a **non-zero matrix** (`AnyNZ A`, which forces a shared charge:
`split_nonzero_shared`) runs the loop over the shared charges and the truncation rule.  Under the kernel contracts and
`0 ≤ tol < 1` the intermediate dimension is at least one in both branches (`split_bond_pos`).

Model: `BondOps.splitMatrixSvd dsvd dnorm dargsort A q0 q1 tol` (`PtnModel/Model/BondOps.lean`), tied to
`pytenet/bond_ops.py` by the differential correspondence of `./check C12`.  Entries live in a commutative ring
`𝕜` with a star operation (`ℝ`, `ℂ`, `ℚ`), singular values in a linear ordered field `ρ` (`ℝ`, `ℚ`), embedded by a
ring homomorphism `ι : ρ →+* 𝕜` fixed by `star` (`ℝ → ℂ`, `id`).

Vocabulary (`PtnModel/Proofs/Qr*.lean`, `Svd*.lean`):
* `Sparse M qa qb`, `blocks A q0 q1` : as for C11 (the same blocks are handed to the kernel `dsvd`);
* `AnyNZ A` : some in-range entry of `A` is non-zero, `∃ i j, i < A.m ∧ j < A.n ∧ A.f i j ≠ 0` (`np.any(A)`);
* `spectrum dsvd A q0 q1` : the concatenation of the spectra of the blocks, `(blocks A q0 q1).flatMap (dsvd ·).2.1`
  (`split_spectrum`); `retainedBondIndices dnorm dargsort (spectrum …) tol` are the kept indices;
* `tripleF ι u s v i j` : entry `(i, j)` of `u · diag(ι s) · v`, i.e. `∑ t < u.n, u[i,t] * ι s[t] * v[t,j]`;
* `SvdShape / SvdProduct ι / SvdIsoU / SvdIsoV / SvdNonneg dsvd A q0 q1` : the clauses of the kernel contract
  required at the matrices of `blocks A q0 q1` only (fields of `SVDContractOn`).

The kernel contracts are hypotheses: `SVDContractOn` (implied by `SVDContract` for all matrices) for
`np.linalg.svd(·, full_matrices=False)`, and `NormContract`/`SortContract` of `C12Rule` for `np.linalg.norm` /
`np.argsort`.  Exact arithmetic; IEEE rounding is not modelled.
-/
namespace Ptn.C12
open Ptn.BondOps Finset

set_option linter.unusedSectionVars false

variable {𝕜 : Type} [CommRing 𝕜] [StarRing 𝕜] [DecidableEq 𝕜]
variable {ρ : Type} [Field ρ] [LinearOrder ρ] [IsStrictOrderedRing ρ]

/-- Contract of `np.linalg.svd(B, full_matrices=False)` for all matrices: shapes `m × k`, `k`, `k × n` with
`k = min m n`; `U · diag(s) · Vh = B`; `UᴴU = 1`; `Vh Vhᴴ = 1`; `s ≥ 0`.  Only in-range entries are constrained. -/
structure SVDContract (ι : ρ →+* 𝕜) (dsvd : Mat 𝕜 → Mat 𝕜 × List ρ × Mat 𝕜) : Prop where
  shape : ∀ B : Mat 𝕜, 0 < B.m → 0 < B.n →
    (dsvd B).1.m = B.m ∧ (dsvd B).1.n = min B.m B.n ∧ (dsvd B).2.1.length = min B.m B.n ∧
    (dsvd B).2.2.m = min B.m B.n ∧ (dsvd B).2.2.n = B.n
  product : ∀ (B : Mat 𝕜) (i j : Nat), i < B.m → j < B.n →
    ∑ p ∈ range (min B.m B.n), (dsvd B).1.f i p * ι ((dsvd B).2.1.getD p 0) * (dsvd B).2.2.f p j = B.f i j
  isoU : ∀ (B : Mat 𝕜) (p p' : Nat), p < min B.m B.n → p' < min B.m B.n →
    ∑ i ∈ range B.m, star ((dsvd B).1.f i p) * (dsvd B).1.f i p' = if p = p' then 1 else 0
  isoV : ∀ (B : Mat 𝕜) (p p' : Nat), p < min B.m B.n → p' < min B.m B.n →
    ∑ j ∈ range B.n, (dsvd B).2.2.f p j * star ((dsvd B).2.2.f p' j) = if p = p' then 1 else 0
  nonneg : ∀ (B : Mat 𝕜), ∀ x ∈ (dsvd B).2.1, 0 ≤ x

/-- The same clauses, required only at the matrices `blocks A q0 q1` handed to the kernel by the run. -/
structure SVDContractOn (ι : ρ →+* 𝕜) (dsvd : Mat 𝕜 → Mat 𝕜 × List ρ × Mat 𝕜) (A : Mat 𝕜) (q0 q1 : List Int) :
    Prop where
  shape : ∀ B ∈ blocks A q0 q1, 0 < B.m → 0 < B.n →
    (dsvd B).1.m = B.m ∧ (dsvd B).1.n = min B.m B.n ∧ (dsvd B).2.1.length = min B.m B.n ∧
    (dsvd B).2.2.m = min B.m B.n ∧ (dsvd B).2.2.n = B.n
  product : ∀ B ∈ blocks A q0 q1, ∀ (i j : Nat), i < B.m → j < B.n →
    ∑ p ∈ range (min B.m B.n), (dsvd B).1.f i p * ι ((dsvd B).2.1.getD p 0) * (dsvd B).2.2.f p j = B.f i j
  isoU : ∀ B ∈ blocks A q0 q1, ∀ (p p' : Nat), p < min B.m B.n → p' < min B.m B.n →
    ∑ i ∈ range B.m, star ((dsvd B).1.f i p) * (dsvd B).1.f i p' = if p = p' then 1 else 0
  isoV : ∀ B ∈ blocks A q0 q1, ∀ (p p' : Nat), p < min B.m B.n → p' < min B.m B.n →
    ∑ j ∈ range B.n, (dsvd B).2.2.f p j * star ((dsvd B).2.2.f p' j) = if p = p' then 1 else 0
  nonneg : ∀ B ∈ blocks A q0 q1, ∀ x ∈ (dsvd B).2.1, 0 ≤ x

/-- the contract for all matrices implies the contract at the blocks of any run -/
theorem SVDContract.on {ι : ρ →+* 𝕜} {dsvd : Mat 𝕜 → Mat 𝕜 × List ρ × Mat 𝕜} (h : SVDContract ι dsvd)
    (A : Mat 𝕜) (q0 q1 : List Int) : SVDContractOn ι dsvd A q0 q1 :=
  ⟨fun B _ => h.shape B, fun B _ => h.product B, fun B _ => h.isoU B, fun B _ => h.isoV B, fun B _ => h.nonneg B⟩

variable {ι : ρ →+* 𝕜} {dsvd : Mat 𝕜 → Mat 𝕜 × List ρ × Mat 𝕜} {A : Mat 𝕜} {q0 q1 : List Int}
variable (dnorm : List ρ → ρ) (dargsort : List ρ → List Nat) (tol : ρ)

/-- the clauses in the vocabulary of the proofs -/
theorem SVDContractOn.clauses (h : SVDContractOn ι dsvd A q0 q1) :
    SvdShape dsvd A q0 q1 ∧ SvdProduct ι dsvd A q0 q1 ∧ SvdIsoU dsvd A q0 q1 ∧ SvdIsoV dsvd A q0 q1 ∧
      SvdNonneg dsvd A q0 q1 :=
  ⟨h.shape, h.product, h.isoU, h.isoV, h.nonneg⟩

/-- the concatenated spectrum: the spectra of the blocks handed to the kernel, in order -/
theorem split_spectrum (dsvd : Mat 𝕜 → Mat 𝕜 × List ρ × Mat 𝕜) (A : Mat 𝕜) (q0 q1 : List Int) :
    spectrum dsvd A q0 q1 = (blocks A q0 q1).flatMap fun B => (dsvd B).2.1 := spectrum_eq dsvd A q0 q1

/-! ## (1) no assertion fires; dimensions -/

/-- **(1)** On admissible input `split_matrix_svd` returns a quadruple, for EVERY kernel returning factors of the
right shapes on the blocks and every `dnorm`, `dargsort`, `tol` (in particular `D ≤ min m n`). -/
theorem split_ok (hshape : SvdShape dsvd A q0 q1)
    (hq0 : q0.length = A.m) (hq1 : q1.length = A.n) (hm : 0 < A.m) (hn : 0 < A.n) (hsp : Sparse A q0 q1) :
    ∃ u s v q, splitMatrixSvd dsvd dnorm dargsort A q0 q1 tol = .ok (u, s, v, q) :=
  split_ok' dnorm dargsort tol hshape ⟨hq0, hq1, hm, hn, hsp⟩

/-- **(1')** Dimensions: `u` is `m × K`, `v` is `K × n`, `len(s) = len(q) = K ≤ min m n`; for a non-zero matrix
`K` is the number of retained indices of the concatenated spectrum, for a zero matrix `K = 1`; the length of the
concatenated spectrum is at most `min m n`. -/
theorem split_dims (hshape : SvdShape dsvd A q0 q1)
    (hq0 : q0.length = A.m) (hq1 : q1.length = A.n) (hm : 0 < A.m) (hn : 0 < A.n) (hsp : Sparse A q0 q1)
    {u v : Mat 𝕜} {s : List ρ} {q : List Int}
    (hrun : splitMatrixSvd dsvd dnorm dargsort A q0 q1 tol = .ok (u, s, v, q)) :
    u.m = A.m ∧ u.n = s.length ∧ v.m = s.length ∧ v.n = A.n ∧ q.length = s.length ∧ s.length ≤ min A.m A.n ∧
    (AnyNZ A → s.length = (retainedBondIndices dnorm dargsort (spectrum dsvd A q0 q1) tol).length) ∧
    (¬ AnyNZ A → s.length = 1) ∧
    (spectrum dsvd A q0 q1).length ≤ min A.m A.n := by
  have H : QRInput A q0 q1 := ⟨hq0, hq1, hm, hn, hsp⟩
  have h := result_of_split dnorm dargsort tol hshape H hrun
  have hI := svdLoopState_inv hshape hq0 hq1
  obtain ⟨-, -, sm, sn, -⟩ := srt_spec A q0 q1 hq0 hq1
  have hlen : (spectrum dsvd A q0 q1).length ≤ min A.m A.n := by
    rw [spectrum, hI.slen, ← sm, ← sn]
    exact Nat.le_min.2 ⟨hI.base.Dm, hI.base.Dn⟩
  refine ⟨h.um, h.un, h.vm, h.vn, h.ql, h.le, fun hnz => ?_, fun hz => ?_, hlen⟩
  · rcases split_run_cases dnorm dargsort tol hshape H hrun with ⟨hz, -⟩ | ⟨-, -, rfl, -, -⟩
    · exact absurd hnz hz
    · simp [outS, keptIdx]
  · rcases split_run_cases dnorm dargsort tol hshape H hrun with ⟨-, -, rfl, -, -⟩ | ⟨hnz, -⟩
    · rfl
    · exact absurd hnz hz

/-! ## (2) block sparsity (shape clause only) -/

/-- **(2)** `u` is block sparse w.r.t. `(q0, q)` — for every kernel satisfying only the shape clause. -/
theorem split_sparse_u (hshape : SvdShape dsvd A q0 q1)
    (hq0 : q0.length = A.m) (hq1 : q1.length = A.n) (hm : 0 < A.m) (hn : 0 < A.n) (hsp : Sparse A q0 q1)
    {u v : Mat 𝕜} {s : List ρ} {q : List Int}
    (hrun : splitMatrixSvd dsvd dnorm dargsort A q0 q1 tol = .ok (u, s, v, q)) : Sparse u q0 q :=
  (result_of_split dnorm dargsort tol hshape ⟨hq0, hq1, hm, hn, hsp⟩ hrun).sparseU

/-- **(2)** `v` is block sparse w.r.t. `(q, q1)` — for every kernel satisfying only the shape clause. -/
theorem split_sparse_v (hshape : SvdShape dsvd A q0 q1)
    (hq0 : q0.length = A.m) (hq1 : q1.length = A.n) (hm : 0 < A.m) (hn : 0 < A.n) (hsp : Sparse A q0 q1)
    {u v : Mat 𝕜} {s : List ρ} {q : List Int}
    (hrun : splitMatrixSvd dsvd dnorm dargsort A q0 q1 tol = .ok (u, s, v, q)) : Sparse v q q1 :=
  (result_of_split dnorm dargsort tol hshape ⟨hq0, hq1, hm, hn, hsp⟩ hrun).sparseV

/-! ## (3) isometries -/

/-- **(3)** `uᴴ u = 1_K` (also in the zero-matrix branch, where `u = e₀`). -/
theorem split_isometry_u (hc : SVDContractOn ι dsvd A q0 q1)
    (hq0 : q0.length = A.m) (hq1 : q1.length = A.n) (hm : 0 < A.m) (hn : 0 < A.n) (hsp : Sparse A q0 q1)
    {u v : Mat 𝕜} {s : List ρ} {q : List Int}
    (hrun : splitMatrixSvd dsvd dnorm dargsort A q0 q1 tol = .ok (u, s, v, q))
    {t t' : Nat} (ht : t < u.n) (ht' : t' < u.n) :
    ∑ i ∈ range A.m, star (u.f i t) * u.f i t' = if t = t' then 1 else 0 :=
  isoU' dnorm dargsort tol hc.shape hc.isoU ⟨hq0, hq1, hm, hn, hsp⟩ hrun ht ht'

/-- **(3)** `v vᴴ = 1_K`, provided the matrix is not zero (for a zero matrix the code returns `v = 0`, see
`split_zero`). -/
theorem split_isometry_v (hc : SVDContractOn ι dsvd A q0 q1)
    (hq0 : q0.length = A.m) (hq1 : q1.length = A.n) (hm : 0 < A.m) (hn : 0 < A.n) (hsp : Sparse A q0 q1)
    {u v : Mat 𝕜} {s : List ρ} {q : List Int}
    (hrun : splitMatrixSvd dsvd dnorm dargsort A q0 q1 tol = .ok (u, s, v, q))
    (hnz : AnyNZ A) {t t' : Nat} (ht : t < v.m) (ht' : t' < v.m) :
    ∑ j ∈ range A.n, v.f t j * star (v.f t' j) = if t = t' then 1 else 0 :=
  isoV' dnorm dargsort tol hc.shape hc.isoV ⟨hq0, hq1, hm, hn, hsp⟩ hrun hnz ht ht'

/-! ## (4) the returned singular values and the truncation rule -/

/-- **(4)** For a non-zero matrix, the returned `s` are exactly the entries of the concatenated spectrum at the
retained indices (ascending index order); under the non-negativity clause the spectrum is non-negative. -/
theorem split_values (hshape : SvdShape dsvd A q0 q1)
    (hq0 : q0.length = A.m) (hq1 : q1.length = A.n) (hm : 0 < A.m) (hn : 0 < A.n) (hsp : Sparse A q0 q1)
    {u v : Mat 𝕜} {s : List ρ} {q : List Int}
    (hrun : splitMatrixSvd dsvd dnorm dargsort A q0 q1 tol = .ok (u, s, v, q)) (hnz : AnyNZ A) :
    s = (retainedBondIndices dnorm dargsort (spectrum dsvd A q0 q1) tol).map
          (fun i => (spectrum dsvd A q0 q1).getD i 0) ∧
    (SvdNonneg dsvd A q0 q1 → ∀ x ∈ spectrum dsvd A q0 q1, 0 ≤ x) := by
  have H : QRInput A q0 q1 := ⟨hq0, hq1, hm, hn, hsp⟩
  rcases split_run_cases dnorm dargsort tol hshape H hrun with ⟨hz, -⟩ | ⟨-, -, rfl, -, -⟩
  · exact absurd hnz hz
  · exact ⟨rfl, fun hnn => spectrum_nonneg hnn hq0 hq1⟩

/-- **(4a)** Non-zero matrix: the returned singular values are positive (`0 ≤ tol`).  (For a zero matrix `s = [0]`.) -/
theorem split_rule_positive (hc : SVDContractOn ι dsvd A q0 q1)
    (hq0 : q0.length = A.m) (hq1 : q1.length = A.n) (hm : 0 < A.m) (hn : 0 < A.n) (hsp : Sparse A q0 q1)
    {u v : Mat 𝕜} {s : List ρ} {q : List Int}
    (hrun : splitMatrixSvd dsvd dnorm dargsort A q0 q1 tol = .ok (u, s, v, q)) (hnz : AnyNZ A)
    (hsort : SortContract (sortKeys (spectrum dsvd A q0 q1) (dnorm (spectrum dsvd A q0 q1)))
      (dargsort (sortKeys (spectrum dsvd A q0 q1) (dnorm (spectrum dsvd A q0 q1)))))
    (htol : 0 ≤ tol) : ∀ x ∈ s, 0 < x := by
  obtain ⟨hs, hnn⟩ := split_values dnorm dargsort tol hc.shape hq0 hq1 hm hn hsp hrun hnz
  intro x hx
  rw [hs] at hx
  obtain ⟨i, hi, rfl⟩ := List.mem_map.1 hx
  exact rule_positive_values dnorm dargsort _ tol (hnn hc.nonneg) hsort htol i hi

/-- **(4b)** The discarded relative weight of the concatenated spectrum never exceeds the tolerance. -/
theorem split_rule_weight (dsvd : Mat 𝕜 → Mat 𝕜 × List ρ × Mat 𝕜) (A : Mat 𝕜) (q0 q1 : List Int)
    (hsort : SortContract (sortKeys (spectrum dsvd A q0 q1) (dnorm (spectrum dsvd A q0 q1)))
      (dargsort (sortKeys (spectrum dsvd A q0 q1) (dnorm (spectrum dsvd A q0 q1)))))
    (htol : 0 ≤ tol) :
    weightOf (spectrum dsvd A q0 q1) (dnorm (spectrum dsvd A q0 q1))
      (discardedIdx (spectrum dsvd A q0 q1) (retainedBondIndices dnorm dargsort (spectrum dsvd A q0 q1) tol)) ≤ tol :=
  rule_weight dnorm dargsort _ tol hsort htol

/-- **(4c)** Non-zero matrix: no returned singular value is smaller than a discarded one. -/
theorem split_rule_order (hc : SVDContractOn ι dsvd A q0 q1)
    (hq0 : q0.length = A.m) (hq1 : q1.length = A.n) (hm : 0 < A.m) (hn : 0 < A.n) (hsp : Sparse A q0 q1)
    {u v : Mat 𝕜} {s : List ρ} {q : List Int}
    (hrun : splitMatrixSvd dsvd dnorm dargsort A q0 q1 tol = .ok (u, s, v, q)) (hnz : AnyNZ A)
    (hsort : SortContract (sortKeys (spectrum dsvd A q0 q1) (dnorm (spectrum dsvd A q0 q1)))
      (dargsort (sortKeys (spectrum dsvd A q0 q1) (dnorm (spectrum dsvd A q0 q1))))) :
    ∀ x ∈ s, ∀ j, j < (spectrum dsvd A q0 q1).length →
      j ∉ retainedBondIndices dnorm dargsort (spectrum dsvd A q0 q1) tol → (spectrum dsvd A q0 q1).getD j 0 ≤ x := by
  obtain ⟨hs, hnn⟩ := split_values dnorm dargsort tol hc.shape hq0 hq1 hm hn hsp hrun hnz
  intro x hx j hj hjn
  rw [hs] at hx
  obtain ⟨i, hi, rfl⟩ := List.mem_map.1 hx
  exact rule_order_values dnorm dargsort _ tol (hnn hc.nonneg) hsort i hi j hj hjn

/-- **(4d)** Discarding any one more kept value would exceed the tolerance. -/
theorem split_rule_maximal (dsvd : Mat 𝕜 → Mat 𝕜 × List ρ × Mat 𝕜) (A : Mat 𝕜) (q0 q1 : List Int)
    (hsort : SortContract (sortKeys (spectrum dsvd A q0 q1) (dnorm (spectrum dsvd A q0 q1)))
      (dargsort (sortKeys (spectrum dsvd A q0 q1) (dnorm (spectrum dsvd A q0 q1))))) :
    ∀ i ∈ retainedBondIndices dnorm dargsort (spectrum dsvd A q0 q1) tol,
      tol < weightOf (spectrum dsvd A q0 q1) (dnorm (spectrum dsvd A q0 q1))
          (discardedIdx (spectrum dsvd A q0 q1) (retainedBondIndices dnorm dargsort (spectrum dsvd A q0 q1) tol)) +
        relWeight (spectrum dsvd A q0 q1) (dnorm (spectrum dsvd A q0 q1)) i :=
  rule_maximal dnorm dargsort _ tol hsort

/-- **(4e)** Zero tolerance, non-zero matrix: the returned `s` are exactly the non-zero entries of the concatenated spectrum, in
order. -/
theorem split_rule_tol0 (hshape : SvdShape dsvd A q0 q1)
    (hq0 : q0.length = A.m) (hq1 : q1.length = A.n) (hm : 0 < A.m) (hn : 0 < A.n) (hsp : Sparse A q0 q1)
    {u v : Mat 𝕜} {s : List ρ} {q : List Int}
    (hrun : splitMatrixSvd dsvd dnorm dargsort A q0 q1 0 = .ok (u, s, v, q)) (hnz : AnyNZ A)
    (hnorm : NormContract (spectrum dsvd A q0 q1) (dnorm (spectrum dsvd A q0 q1)))
    (hsort : SortContract (sortKeys (spectrum dsvd A q0 q1) (dnorm (spectrum dsvd A q0 q1)))
      (dargsort (sortKeys (spectrum dsvd A q0 q1) (dnorm (spectrum dsvd A q0 q1))))) :
    s = (spectrum dsvd A q0 q1).filter fun x => decide (x ≠ 0) := by
  obtain ⟨hs, -⟩ := split_values dnorm dargsort 0 hshape hq0 hq1 hm hn hsp hrun hnz
  rw [hs, rule_tol0 dnorm dargsort _ hnorm hsort]
  generalize spectrum dsvd A q0 q1 = S
  rw [← List.filterMap_eq_filter, ← List.filterMap_eq_filter]
  conv_rhs => rw [← map_getD_range S 0]
  rw [List.map_filterMap, List.filterMap_map]
  apply List.filterMap_congr
  intro i _
  by_cases h : S[i]?.getD 0 = 0 <;> simp [Option.guard, List.getD_eq_getElem?_getD, h]

/-! ## (5) reconstruction and truncation error -/

/-- **(5a)** Without effective truncation — every discarded index (if any) carries a zero singular value, e.g.
all indices are kept — the returned factors reproduce the matrix: `u · diag(s) · v = A` on in-range entries.
Holds in both branches. -/
theorem split_reconstruct_full (hc : SVDContractOn ι dsvd A q0 q1)
    (hq0 : q0.length = A.m) (hq1 : q1.length = A.n) (hm : 0 < A.m) (hn : 0 < A.n) (hsp : Sparse A q0 q1)
    {u v : Mat 𝕜} {s : List ρ} {q : List Int}
    (hrun : splitMatrixSvd dsvd dnorm dargsort A q0 q1 tol = .ok (u, s, v, q))
    (hdisc : ∀ p, p < (spectrum dsvd A q0 q1).length →
      p ∉ retainedBondIndices dnorm dargsort (spectrum dsvd A q0 q1) tol → (spectrum dsvd A q0 q1).getD p 0 = 0)
    {i j : Nat} (hi : i < A.m) (hj : j < A.n) : tripleF ι u s v i j = A.f i j :=
  reconstruct' dnorm dargsort tol ι hc.shape hc.product ⟨hq0, hq1, hm, hn, hsp⟩ hrun hdisc hi hj

/-- **(5b)** Truncation-error identity: the squared Frobenius norm of `A - u · diag(s) · v` (sum over entries of
`star e * e`) equals the sum of the squares of the discarded singular values of the concatenated spectrum.
`hι` says that singular values are real (`star (ι x) = ι x`).  Holds in both branches. -/
theorem split_error_identity (hι : ∀ x, star (ι x) = ι x) (hc : SVDContractOn ι dsvd A q0 q1)
    (hq0 : q0.length = A.m) (hq1 : q1.length = A.n) (hm : 0 < A.m) (hn : 0 < A.n) (hsp : Sparse A q0 q1)
    {u v : Mat 𝕜} {s : List ρ} {q : List Int}
    (hrun : splitMatrixSvd dsvd dnorm dargsort A q0 q1 tol = .ok (u, s, v, q)) :
    ∑ i ∈ range A.m, ∑ j ∈ range A.n,
        star (A.f i j - tripleF ι u s v i j) * (A.f i j - tripleF ι u s v i j) =
      ∑ p ∈ range (spectrum dsvd A q0 q1).length,
        if p ∈ retainedBondIndices dnorm dargsort (spectrum dsvd A q0 q1) tol then 0
        else ι ((spectrum dsvd A q0 q1).getD p 0) * ι ((spectrum dsvd A q0 q1).getD p 0) :=
  error_identity' dnorm dargsort tol ι hι hc.shape hc.product hc.isoU hc.isoV ⟨hq0, hq1, hm, hn, hsp⟩ hrun

/-- **(5c)** Zero tolerance is exact: `u · diag(s) · v = A` (the discarded values are exactly the zeros of the
spectrum, `rule_tol0`). -/
theorem split_tol0_exact (hc : SVDContractOn ι dsvd A q0 q1)
    (hq0 : q0.length = A.m) (hq1 : q1.length = A.n) (hm : 0 < A.m) (hn : 0 < A.n) (hsp : Sparse A q0 q1)
    {u v : Mat 𝕜} {s : List ρ} {q : List Int}
    (hrun : splitMatrixSvd dsvd dnorm dargsort A q0 q1 0 = .ok (u, s, v, q))
    (hnorm : NormContract (spectrum dsvd A q0 q1) (dnorm (spectrum dsvd A q0 q1)))
    (hsort : SortContract (sortKeys (spectrum dsvd A q0 q1) (dnorm (spectrum dsvd A q0 q1)))
      (dargsort (sortKeys (spectrum dsvd A q0 q1) (dnorm (spectrum dsvd A q0 q1)))))
    {i j : Nat} (hi : i < A.m) (hj : j < A.n) : tripleF ι u s v i j = A.f i j := by
  refine split_reconstruct_full dnorm dargsort 0 hc hq0 hq1 hm hn hsp hrun ?_ hi hj
  intro p hp hk
  rw [rule_tol0 dnorm dargsort _ hnorm hsort] at hk
  by_contra hne
  exact hk (List.mem_filter.2 ⟨List.mem_range.2 hp, by simpa using hne⟩)

/-! ## (6) zero matrix; the intermediate dimension is never zero -/

/-- **(6)** Zero matrix (with or without shared quantum numbers): whatever the kernels, the result is `u = e₀`,
`s = [0]`, `v = 0`, `q = q0[:1]` (intermediate dimension one); `u·diag(s)·v = 0 = A`; both factors are block sparse
and `u` is an isometry. -/
theorem split_zero (ι : ρ →+* 𝕜) (dsvd : Mat 𝕜 → Mat 𝕜 × List ρ × Mat 𝕜)
    (hq0 : q0.length = A.m) (hq1 : q1.length = A.n) (hm : 0 < A.m) (hn : 0 < A.n) (hsp : Sparse A q0 q1)
    (hz : ¬ AnyNZ A) :
    ∃ u v : Mat 𝕜, splitMatrixSvd dsvd dnorm dargsort A q0 q1 tol = .ok (u, [0], v, q0.take 1) ∧
      u.m = A.m ∧ u.n = 1 ∧ v.m = 1 ∧ v.n = A.n ∧ (q0.take 1).length = 1 ∧
      (∀ i p, u.f i p = if i = 0 then 1 else 0) ∧ (∀ p j, v.f p j = 0) ∧
      (∀ i j, i < A.m → j < A.n → A.f i j = 0) ∧
      (∀ i j, i < A.m → j < A.n →
        ∑ p ∈ range 1, u.f i p * ι (([0] : List ρ).getD p 0) * v.f p j = A.f i j) ∧
      (∑ i ∈ range A.m, star (u.f i 0) * u.f i 0 = 1) ∧
      Sparse u q0 (q0.take 1) ∧ Sparse v (q0.take 1) q1 := by
  have H : QRInput A q0 q1 := ⟨hq0, hq1, hm, hn, hsp⟩
  have hr := result_disjoint H
  have hA := (not_anyNZ_iff A).1 hz
  refine ⟨e0 A.m, Mat.zero 1 A.n, split_zero' dnorm dargsort tol dsvd H hz, rfl, rfl, rfl, rfl,
    take_one_length H, fun _ _ => rfl, fun _ _ => rfl, hA, ?_,
    (isometry_disjoint A.m hm (Nat.lt_succ_self 0) (Nat.lt_succ_self 0)).trans (if_pos rfl),
    hr.sparseQ, hr.sparseR⟩
  intro i j hi hj
  rw [hA i j hi hj]
  apply sum_eq_zero
  intro p _
  rw [Mat.zero_f, mul_zero]

/-- **(6')** A block-sparse matrix without a shared quantum number is zero; a block-sparse matrix with a non-zero
entry has a shared quantum number. -/
theorem split_nonzero_shared
    (hq0 : q0.length = A.m) (hq1 : q1.length = A.n) (hm : 0 < A.m) (hn : 0 < A.n) (hsp : Sparse A q0 q1) :
    (intersect1d q0 q1 = [] → ¬ AnyNZ A) ∧ (AnyNZ A → intersect1d q0 q1 ≠ []) :=
  ⟨not_anyNZ_of_disjoint ⟨hq0, hq1, hm, hn, hsp⟩, shared_of_anyNZ ⟨hq0, hq1, hm, hn, hsp⟩⟩

/-- **(6'')** No shared quantum number (special case of `split_zero`): the result is `u = e₀`, `s = [0]`, `v = 0`,
`q = q0[:1]`. -/
theorem split_disjoint (ι : ρ →+* 𝕜) (dsvd : Mat 𝕜 → Mat 𝕜 × List ρ × Mat 𝕜)
    (hq0 : q0.length = A.m) (hq1 : q1.length = A.n) (hm : 0 < A.m) (hn : 0 < A.n) (hsp : Sparse A q0 q1)
    (he : intersect1d q0 q1 = []) :
    ∃ u v : Mat 𝕜, splitMatrixSvd dsvd dnorm dargsort A q0 q1 tol = .ok (u, [0], v, q0.take 1) ∧
      u.m = A.m ∧ u.n = 1 ∧ v.m = 1 ∧ v.n = A.n ∧ (q0.take 1).length = 1 ∧
      (∀ i p, u.f i p = if i = 0 then 1 else 0) ∧ (∀ p j, v.f p j = 0) ∧
      (∀ i j, i < A.m → j < A.n → A.f i j = 0) ∧
      (∀ i j, i < A.m → j < A.n →
        ∑ p ∈ range 1, u.f i p * ι (([0] : List ρ).getD p 0) * v.f p j = A.f i j) ∧
      (∑ i ∈ range A.m, star (u.f i 0) * u.f i 0 = 1) ∧
      Sparse u q0 (q0.take 1) ∧ Sparse v (q0.take 1) q1 :=
  split_zero dnorm dargsort tol ι dsvd hq0 hq1 hm hn hsp
    ((split_nonzero_shared hq0 hq1 hm hn hsp).1 he)

/-- **(7)** The intermediate dimension never collapses: under the shape and product clauses of the SVD contract, the
norm and sort contracts of the truncation rule and `0 ≤ tol < 1`, the returned intermediate dimension is at least
one.  (Zero matrix: the dummy bond.  Non-zero matrix: the concatenated spectrum is not all zero, so its norm is
non-zero and the kept relative weight is `≥ 1 - tol > 0`.) -/
theorem split_bond_pos (hshape : SvdShape dsvd A q0 q1) (hprod : SvdProduct ι dsvd A q0 q1)
    (hq0 : q0.length = A.m) (hq1 : q1.length = A.n) (hm : 0 < A.m) (hn : 0 < A.n) (hsp : Sparse A q0 q1)
    {u v : Mat 𝕜} {s : List ρ} {q : List Int}
    (hrun : splitMatrixSvd dsvd dnorm dargsort A q0 q1 tol = .ok (u, s, v, q))
    (hnorm : NormContract (spectrum dsvd A q0 q1) (dnorm (spectrum dsvd A q0 q1)))
    (hsort : SortContract (sortKeys (spectrum dsvd A q0 q1) (dnorm (spectrum dsvd A q0 q1)))
      (dargsort (sortKeys (spectrum dsvd A q0 q1) (dnorm (spectrum dsvd A q0 q1)))))
    (h0 : 0 ≤ tol) (h1 : tol < 1) : 1 ≤ s.length := by
  have H : QRInput A q0 q1 := ⟨hq0, hq1, hm, hn, hsp⟩
  obtain ⟨-, -, -, -, -, -, hK, hK0, -⟩ := split_dims dnorm dargsort tol hshape hq0 hq1 hm hn hsp hrun
  by_cases hnz : AnyNZ A
  · rw [hK hnz]
    have hw : dnorm (spectrum dsvd A q0 q1) ≠ 0 := fun hw =>
      spectrum_ne_zero_of_anyNZ ι hshape hprod H hnz ((rule_zero_iff hnorm).1 hw)
    have hkw := rule_kept_weight dnorm dargsort _ tol hnorm hw hsort h0
    rcases hk : retainedBondIndices dnorm dargsort (spectrum dsvd A q0 q1) tol with _ | ⟨a, l⟩
    · rw [hk] at hkw
      simp only [weightOf, List.map_nil, List.sum_nil] at hkw
      linarith
    · simp
  · rw [hK0 hnz]

/-! ## Non-vacuity

`sxA = [[0, 12, 0], [3, 0, 4]]`, charges `[1, 0]`, `[0, 1, 0]` (unsorted in both arguments); blocks `[[3, 4]]`,
`[[12]]`; `sxDsvd` is an exact SVD of both; spectrum `[5, 12]`, `dnorm = 13`, `dargsort = [0, 1]`.  With
`tol = 25/169` index `0` is discarded and `[1]` kept; with `tol = 0` both are kept. -/

/-- the example kernel satisfies the SVD contract at the blocks of the example run -/
theorem sx_contract : SVDContractOn (RingHom.id ℚ) sxDsvd sxA [1, 0] [0, 1, 0] :=
  ⟨sx_shape, sx_prod, sx_isoU, sx_isoV, sx_nonneg⟩

/-- the norm and sort contracts hold on the example spectrum `[5, 12]` -/
theorem sx_rule_contracts :
    NormContract (spectrum sxDsvd sxA [1, 0] [0, 1, 0]) ((fun _ => (13 : ℚ)) (spectrum sxDsvd sxA [1, 0] [0, 1, 0])) ∧
    SortContract (sortKeys (spectrum sxDsvd sxA [1, 0] [0, 1, 0]) 13)
      ((fun _ => [0, 1]) (sortKeys (spectrum sxDsvd sxA [1, 0] [0, 1, 0]) 13)) := by
  rw [sx_spectrum]
  constructor
  · unfold NormContract; decide +kernel
  · unfold SortContract sortKeys; decide +kernel

/-- non-vacuity of `split_ok`, `split_dims`, `split_sparse_*`, `split_isometry_*`, `split_values`,
`split_rule_*`: all hypotheses (including `hrun`, a non-zero matrix, the rule contracts, `0 ≤ tol`) hold for the
example with a genuine truncation (`kept = [1]` out of the spectrum `[5, 12]`) -/
example : ∃ (u v : Mat ℚ) (s : List ℚ) (q : List Int),
    SVDContractOn (RingHom.id ℚ) sxDsvd sxA [1, 0] [0, 1, 0] ∧
    [1, 0].length = sxA.m ∧ [0, 1, 0].length = sxA.n ∧ 0 < sxA.m ∧ 0 < sxA.n ∧ Sparse sxA [1, 0] [0, 1, 0] ∧
    AnyNZ sxA ∧ (0 : ℚ) ≤ 25 / 169 ∧
    splitMatrixSvd sxDsvd (fun _ => (13 : ℚ)) (fun _ => [0, 1]) sxA [1, 0] [0, 1, 0] (25 / 169) = .ok (u, s, v, q) ∧
    spectrum sxDsvd sxA [1, 0] [0, 1, 0] = [5, 12] ∧
    retainedBondIndices (fun _ => (13 : ℚ)) (fun _ => [0, 1]) (spectrum sxDsvd sxA [1, 0] [0, 1, 0]) (25 / 169) = [1] := by
  obtain ⟨u, s, v, q, hrun⟩ := split_ok (fun _ => (13 : ℚ)) (fun _ => [0, 1]) (25 / 169) sx_shape
    sx_input.hq0 sx_input.hq1 sx_input.hm sx_input.hn sx_input.hsp
  exact ⟨u, v, s, q, sx_contract, sx_input.hq0, sx_input.hq1, sx_input.hm, sx_input.hn, sx_input.hsp,
    sx_anyNZ, by norm_num, hrun, sx_spectrum, sx_kept⟩

/-- non-vacuity of `split_error_identity` and `split_reconstruct_full`: for the example `star` is trivial on `ℚ`
(`hι`), and with `tol = 0` nothing is discarded, so `hdisc` holds -/
example : (∀ x : ℚ, star ((RingHom.id ℚ) x) = (RingHom.id ℚ) x) ∧
    ∀ p, p < (spectrum sxDsvd sxA [1, 0] [0, 1, 0]).length →
      p ∉ retainedBondIndices (fun _ => (13 : ℚ)) (fun _ => [0, 1]) (spectrum sxDsvd sxA [1, 0] [0, 1, 0]) 0 →
      (spectrum sxDsvd sxA [1, 0] [0, 1, 0]).getD p 0 = 0 := by
  refine ⟨fun x => rfl, ?_⟩
  have hk : retainedBondIndices (fun _ => (13 : ℚ)) (fun _ => [0, 1]) (spectrum sxDsvd sxA [1, 0] [0, 1, 0]) 0 = [0, 1] :=
    sx_kept0
  rw [hk, sx_spectrum]
  intro p hp hnot
  simp only [List.length_cons, List.length_nil] at hp
  have : p = 0 ∨ p = 1 := by omega
  rcases this with rfl | rfl <;> simp at hnot

/-- non-vacuity of `split_rule_tol0`, `split_tol0_exact`: zero tolerance on the example keeps both values -/
example : ∃ (u v : Mat ℚ) (s : List ℚ) (q : List Int),
    splitMatrixSvd sxDsvd (fun _ => (13 : ℚ)) (fun _ => [0, 1]) sxA [1, 0] [0, 1, 0] 0 = .ok (u, s, v, q) ∧
    retainedBondIndices (fun _ => (13 : ℚ)) (fun _ => [0, 1]) (spectrum sxDsvd sxA [1, 0] [0, 1, 0]) 0 = [0, 1] := by
  obtain ⟨u, s, v, q, hrun⟩ := split_ok (fun _ => (13 : ℚ)) (fun _ => [0, 1]) 0 sx_shape
    sx_input.hq0 sx_input.hq1 sx_input.hm sx_input.hn sx_input.hsp
  exact ⟨u, v, s, q, hrun, sx_kept0⟩

/-- non-vacuity of the hypothesis `AnyNZ A` and of `split_bond_pos`: the example matrix is non-zero, the rule
contracts hold and `0 ≤ 25/169 < 1` -/
example : AnyNZ sxA ∧ (0 : ℚ) ≤ 25 / 169 ∧ (25 / 169 : ℚ) < 1 ∧
    SvdShape sxDsvd sxA [1, 0] [0, 1, 0] ∧ SvdProduct (RingHom.id ℚ) sxDsvd sxA [1, 0] [0, 1, 0] :=
  ⟨sx_anyNZ, by norm_num, by norm_num, sx_shape, sx_prod⟩

/-- non-vacuity of `split_zero` beyond `split_disjoint`: the `2 × 3` zero matrix with SHARED charges `[1, 0]`,
`[0, 1, 0]` is admissible input of the zero-matrix branch -/
example : [1, 0].length = exZ.m ∧ [0, 1, 0].length = exZ.n ∧ 0 < exZ.m ∧ 0 < exZ.n ∧ Sparse exZ [1, 0] [0, 1, 0] ∧
    ¬ AnyNZ exZ ∧ intersect1d [1, 0] [0, 1, 0] ≠ [] :=
  ⟨sz_input.hq0, sz_input.hq1, sz_input.hm, sz_input.hn, sz_input.hsp, sz_zero, by rw [sx_shared]; simp⟩

/-- non-vacuity of `split_disjoint`: a zero matrix with disjoint charges -/
example : exz0.length = exZ.m ∧ exz1.length = exZ.n ∧ 0 < exZ.m ∧ 0 < exZ.n ∧ Sparse exZ exz0 exz1 ∧
    intersect1d exz0 exz1 = [] :=
  ⟨exz_input.hq0, exz_input.hq1, exz_input.hm, exz_input.hn, exz_input.hsp, exz_disjoint⟩

end Ptn.C12

import PtnModel.Proofs.DenseAdd
import PtnModel.Proofs.DenseAddMpo
import PtnModel.Proofs.DenseApply
import PtnModel.Proofs.DenseIdentity
import PtnModel.Proofs.DenseMergeMpo
import PtnModel.Proofs.DenseSplitEx
import PtnModel.Proofs.DenseApplyOk
import PtnModel.Proofs.DenseSplitFullEx
import PtnModel.Proofs.DenseFromVectorEx
import PtnModel.Proofs.DenseClosureAdd
import PtnModel.Proofs.DenseFromVectorShape
import PtnModel.Proofs.DenseExamples
/-!
# Property C03 (MPS/MPO arithmetic agrees with dense linear algebra)

"For all compatible operands, the dense form of an MPS sum or difference, an MPO sum, difference or composition, an MPO
applied to an MPS, and the identity MPO equals the same expression evaluated on the operands' dense vectors and matrices.
The dense and sparse matrix forms of an MPO are equal, building an MPS from a vector with zero tolerance reproduces the
vector, and merging two neighbouring tensors undoes a zero-tolerance split for every way of distributing the singular
values."  Quantifier: all `L ≥ 1` (single-site special case included), physical dimensions, independent bond profiles of the
two operands, quantum-number assignments with matching boundary bonds, real/complex entries.

All statements are about the executable model (`PtnModel/Model/MPS.lean`, `MPO.lean`, `Operation.lean`, `MPSSvd.lean`),
tied to `pytenet/mps.py`, `mpo.py`, `operation.py` by the differential correspondence of `./check C03`.
Entries range over an arbitrary commutative ring `R` (covers real and complex entries; rounding is outside the model).

Vocabulary (definitions in `PtnModel/Proofs/DenseDefs.lean`):
* `Digits d n s`     : `s` is a list of `n` digits `< d` (a basis state of `n` sites);
* `ψ.amp s`          : the entry of the dense vector of `ψ` at basis state `s`, `(∏ₖ A_k[s_k])₀₀` (model `MPS.amp`);
* `o.elem s t`       : the entry of the dense matrix of `o` at `(s, t)` (model `MPO.elem`);
* `MPS.Shaped ψ d`   : `L ≥ 1` tensors of physical dimension `d = len(qd)`, consecutive bond dimensions match, dummy
                       boundary bonds, charge lists as long as the bond dimensions; `MPO.Shaped` likewise;
* `sumDigits d n f`  : `Σ_{u ∈ {0..d-1}^n} f u`;
* `flat d s`         : row-major position of basis state `s`.

Inventory:
* (a)-(e) `add_mps_dense`, `add_mpo_dense`, `mul_mpo_dense`, `apply_dense`, `identity_dense` : homomorphism laws, for
  every result the call returns; `add_mps_ok`, `add_mpo_ok`, `mul_mpo_ok`, `apply_ok` : the calls do return on
  well-formed operands satisfying the asserted preconditions; `*_shaped`, `chained_dense` : results are shaped again,
  so the laws compose along chained expressions;
* (f) `merge_mps_dense`, `merge_mpo_dense`, `as_vector_amp`, `as_matrix_elem` : merging neighbouring tensors preserves
  the dense meaning; `as_vector()` / `as_matrix()` (dense path) list exactly `amp` / `elem` in row-major order;
* (g) `split_merge_tol0` (under the C12 kernel contracts) and `split_merge_tol0_partial` (contract-free, reconstruction
  as explicit hypothesis, any tolerance) : merge undoes split for the three singular-value distributions;
* (h) `from_vector_tol0`, `from_vector_as_vector_tol0` : zero-tolerance `from_vector` reproduces the vector.
Not decided here: equality of the sparse and dense forms of `as_matrix` (the sparse path is not modelled; it is compared
with the dense model by the correspondence only).
-/
namespace Ptn.C03
open Ptn.Dense.Ex Ptn.Dense

variable {R : Type} [CommRing R] [DecidableEq R]

/-- (a) MPS sum / difference (`add_mps`, `alpha = ±1` or any scalar): whenever `add_mps` returns, every entry of the dense
vector of the result is `ψ0[s] + α·ψ1[s]`.  Covers `L = 1` (entrywise sum), `L = 2` (no interior tensor) and `L ≥ 3`
(block-diagonal interior tensors); the bond profiles of the two operands are independent. -/
theorem add_mps_dense (ψ0 ψ1 r : MPS R) (α : R) (d : Nat) (h0 : MPS.Shaped ψ0 d) (h1 : MPS.Shaped ψ1 d)
    (h : MPS.add ψ0 ψ1 α = .ok r) (s : List Nat) (hs : Digits d ψ0.A.length s) :
    r.amp s = ψ0.amp s + α * ψ1.amp s :=
  MPS.add_dense ψ0 ψ1 r α d h0 h1 h s hs

/-- non-vacuity of `add_mps_dense`: three sites, charges `qd = [0, 1]`, bond profiles `(1,2,2,1)` and `(1,3,1,1)` -/
example : MPS.Shaped ψ0 2 ∧ MPS.Shaped ψ1 2 ∧ (MPS.add ψ0 ψ1 (-1)).isOk = true ∧
    Digits 2 ψ0.A.length [1, 0, 1] ∧ ψ0.amp [1, 0, 1] = 45 ∧ ψ1.amp [1, 0, 1] = 204 :=
  ⟨shaped_ψ0, shaped_ψ1, by decide, by decide, by decide, by decide⟩

/-- non-vacuity of `add_mps_dense`, single-site special case -/
example : MPS.Shaped φ0 2 ∧ MPS.Shaped φ1 2 ∧ (MPS.add φ0 φ1 1).isOk = true ∧
    Digits 2 φ0.A.length [1] ∧ φ0.amp [1] = 3 :=
  ⟨shaped_φ0, shaped_φ1, by decide, by decide, by decide⟩

/-- (b) MPO sum / difference (`add_mpo`): whenever `add_mpo` returns, every entry of the dense matrix of the result is
`o0[s,t] + α·o1[s,t]` (all `L ≥ 1`, independent bond profiles). -/
theorem add_mpo_dense (o0 o1 r : MPO R) (α : R) (d : Nat) (h0 : MPO.Shaped o0 d) (h1 : MPO.Shaped o1 d)
    (h : MPO.add o0 o1 α = .ok r) (s t : List Nat) (hs : Digits d o0.A.length s) (ht : Digits d o0.A.length t) :
    r.elem s t = o0.elem s t + α * o1.elem s t :=
  MPO.add_dense o0 o1 r α d h0 h1 h s t hs ht

/-- non-vacuity of `add_mpo_dense`: three sites, bond profiles `(1,3,2,1)` and `(1,1,2,1)` -/
example : MPO.Shaped o0 2 ∧ MPO.Shaped o1 2 ∧ (MPO.add o0 o1 (-1)).isOk = true ∧
    Digits 2 o0.A.length [1, 0, 1] ∧ o0.elem [1, 0, 1] [1, 0, 1] = 40 ∧ o1.elem [1, 0, 1] [1, 0, 1] = 112 :=
  ⟨shaped_o0, shaped_o1, by decide, by decide, by decide, by decide⟩

/-- non-vacuity of `add_mpo_dense`, single-site special case -/
example : MPO.Shaped w0 2 ∧ MPO.Shaped w1 2 ∧ (MPO.add w0 w1 1).isOk = true ∧ w0.elem [1] [1] = 3 :=
  ⟨shaped_w0, shaped_w1, by decide, by decide⟩

/-- (c) MPO composition (`multiply_mpo`, `@`): whenever it returns, the dense matrix of the result is the matrix product
of the operands' dense matrices, `r[s,t] = Σ_u o0[s,u]·o1[u,t]` with `u` ranging over all basis states. -/
theorem mul_mpo_dense (o0 o1 r : MPO R) (d : Nat) (h0 : MPO.Shaped o0 d) (h1 : MPO.Shaped o1 d)
    (h : MPO.multiply o0 o1 = .ok r) (s t : List Nat) (hs : Digits d o0.A.length s) (ht : Digits d o0.A.length t) :
    r.elem s t = sumDigits d o0.A.length (fun u => o0.elem s u * o1.elem u t) :=
  MPO.mul_dense o0 o1 r d h0 h1 h s t hs ht

/-- non-vacuity of `mul_mpo_dense` -/
example : MPO.Shaped o0 2 ∧ MPO.Shaped o1 2 ∧ (MPO.multiply o0 o1).isOk = true ∧
    Digits 2 o0.A.length [0, 1, 1] ∧ o0.elem [1, 0, 1] [0, 1, 1] = 75 :=
  ⟨shaped_o0, shaped_o1, by decide, by decide, by decide⟩

/-- (d) MPO applied to an MPS (`apply_operator`): whenever it returns, the dense vector of the result is the dense matrix
of the operator times the dense vector of the state, `r[s] = Σ_t o[s,t]·ψ[t]`. -/
theorem apply_dense (o : MPO R) (ψ r : MPS R) (d : Nat) (h0 : MPO.Shaped o d) (h1 : MPS.Shaped ψ d)
    (h : Op.applyOperator o ψ = .ok r) (s : List Nat) (hs : Digits d o.A.length s) :
    r.amp s = sumDigits d o.A.length (fun t => o.elem s t * ψ.amp t) :=
  Op.apply_dense o ψ r d h0 h1 h s hs

/-- non-vacuity of `apply_dense` -/
example : MPO.Shaped o0 2 ∧ MPS.Shaped ψ0 2 ∧ (Op.applyOperator o0 ψ0).isOk = true ∧
    (Op.applyOperator o0 ψ0).toOption.map (fun r => r.amp [1, 0, 1]) = some 2475 :=
  ⟨shaped_o0, shaped_ψ0, by decide, by decide⟩

omit [DecidableEq R] in
/-- (e) identity MPO (`MPO.identity(qd, L, scale)`): its dense matrix is `scale^L` times the identity matrix. -/
theorem identity_dense (qd : List Int) (L : Nat) (c : R) (s t : List Nat) (hs : Digits qd.length L s)
    (ht : Digits qd.length L t) :
    (MPO.identity qd L c).elem s t = if s = t then c ^ L else 0 :=
  MPO.identity_dense' qd L c s t hs.1 ht.1

/-- non-vacuity of `identity_dense` -/
example : Digits qd.length 3 [1, 0, 1] ∧ (MPO.identity qd 3 (2 : Int)).elem [1, 0, 1] [1, 0, 1] = 8 ∧
    MPO.Shaped (MPO.identity qd 3 (2 : Int)) 2 :=
  ⟨by decide, by decide,
   ⟨rfl, by simp [MPO.identity], by simp [MPO.Chain, MPO.identity, qd, List.replicate],
    by simp [MPO.DimsMatch, MPO.identity, qd, List.replicate]⟩⟩

omit [DecidableEq R] in
/-- (f1) `merge_mps_tensor_pair`: replacing two neighbouring tensors `A0, A1` (matching bond) of an MPS by their merged
tensor preserves every amplitude, the merged site carrying the combined digit `s0 * d1 + s1` (`d1 = A1.shape[0]`). -/
theorem merge_mps_dense (qd : List Int) (qD qD' : List (List Int)) (pre post : List (T3 R)) (A0 A1 : T3 R)
    (spre spost : List Nat) (s0 s1 : Nat) (hpre : spre.length = pre.length) (h : A0.d2 = A1.d1) (hs1 : s1 < A1.d0) :
    (⟨qd, qD', pre ++ MPS.mergePair A0 A1 :: post⟩ : MPS R).amp (spre ++ (s0 * A1.d0 + s1) :: spost)
      = (⟨qd, qD, pre ++ A0 :: A1 :: post⟩ : MPS R).amp (spre ++ s0 :: s1 :: spost) :=
  MPS.merge_dense qd qD qD' pre post A0 A1 spre spost s0 s1 hpre h hs1

/-- non-vacuity of `merge_mps_dense`: merging sites 1 and 2 of `ψ0` -/
example : ∃ X A0 A1, ψ0.A = [X] ++ A0 :: A1 :: [] ∧ A0.d2 = A1.d1 ∧ 1 < A1.d0 ∧
    (⟨qd, [[0], [0, 1], [2]], [X] ++ MPS.mergePair A0 A1 :: []⟩ : MPS Int).amp ([1] ++ (0 * A1.d0 + 1) :: []) = 45 :=
  ⟨_, _, _, rfl, by decide, by decide, by decide⟩

omit [DecidableEq R] in
/-- (f2) `merge_mpo_tensor_pair`: the same for MPOs, with combined digits `s0 * d1 + s1` and `t0 * d1' + t1`. -/
theorem merge_mpo_dense (qd : List Int) (qD qD' : List (List Int)) (pre post : List (T4 R)) (A0 A1 : T4 R)
    (spre spost tpre tpost : List Nat) (s0 s1 t0 t1 : Nat) (hpre : spre.length = pre.length)
    (hpre' : tpre.length = pre.length) (h : A0.d3 = A1.d2) (hs1 : s1 < A1.d0) (ht1 : t1 < A1.d1) :
    (⟨qd, qD', pre ++ MPO.mergePair A0 A1 :: post⟩ : MPO R).elem (spre ++ (s0 * A1.d0 + s1) :: spost)
        (tpre ++ (t0 * A1.d1 + t1) :: tpost)
      = (⟨qd, qD, pre ++ A0 :: A1 :: post⟩ : MPO R).elem (spre ++ s0 :: s1 :: spost) (tpre ++ t0 :: t1 :: tpost) :=
  MPO.merge_dense qd qD qD' pre post A0 A1 spre spost tpre tpost s0 s1 t0 t1 hpre hpre' h hs1 ht1

/-- non-vacuity of `merge_mpo_dense`: merging sites 0 and 1 of `o0` -/
example : ∃ A0 A1 X, o0.A = [] ++ A0 :: A1 :: [X] ∧ A0.d3 = A1.d2 ∧ 0 < A1.d0 ∧ 1 < A1.d1 ∧
    (⟨qd, [[0], [0, 1], [0]], [] ++ MPO.mergePair A0 A1 :: [X]⟩ : MPO Int).elem
      ([] ++ (1 * A1.d0 + 0) :: [1]) ([] ++ (0 * A1.d1 + 1) :: [1]) = 75 :=
  ⟨_, _, _, rfl, by decide, by decide, by decide, by decide⟩

omit [DecidableEq R] in
/-- (f3) `MPS.as_vector()`: the returned list has `d^L` entries and its entry at the row-major position of the basis
state `s` (first site most significant) is the amplitude `ψ.amp s`. -/
theorem as_vector_amp (ψ : MPS R) (d : Nat) (hψ : MPS.Shaped ψ d) (v : List R) (h : ψ.asVector = .ok v) :
    v.length = d ^ ψ.A.length ∧ ∀ s, Digits d ψ.A.length s → v[flat d s]? = some (ψ.amp s) :=
  MPS.asVector_amp ψ d hψ v h

/-- non-vacuity of `as_vector_amp` -/
example : MPS.Shaped ψ0 2 ∧ ψ0.asVector = .ok [0, 0, 0, 9, 0, 45, 50, 0] ∧ flat 2 [1, 0, 1] = 5 :=
  ⟨shaped_ψ0, by decide, by decide⟩

omit [DecidableEq R] in
/-- (f4) `MPO.as_matrix()` (dense path): the returned matrix is `d^L × d^L` and its entry at the row-major positions of
the basis states `(s, t)` is the matrix element `o.elem s t`. -/
theorem as_matrix_elem (o : MPO R) (d : Nat) (ho : MPO.Shaped o d) (m : Mat R) (h : o.asMatrix = .ok m) :
    m.m = d ^ o.A.length ∧ m.n = d ^ o.A.length ∧
    ∀ s t, Digits d o.A.length s → Digits d o.A.length t → m.f (flat d s) (flat d t) = o.elem s t :=
  MPO.asMatrix_elem o d ho m h

/-- non-vacuity of `as_matrix_elem` -/
example : MPO.Shaped o0 2 ∧ o0.asMatrix.isOk = true ∧ o0.asMatrix.toOption.map (fun m => m.f 5 3) = some 75 ∧
    flat 2 [1, 0, 1] = 5 ∧ flat 2 [0, 1, 1] = 3 :=
  ⟨shaped_o0, by decide, by decide, by decide, by decide⟩

/-- (g) merging undoes a split, for each of the three ways of distributing the singular values (`distr` = 0 left,
1 right, 2 sqrt): if `split_mps_tensor` returns `(B0, B1, _)` then `merge_mps_tensor_pair(B0, B1)` has the shape and the
entries of the input tensor.

PARTIAL: the zero-tolerance exactness of the block-wise SVD split is not derived here from the SVD kernel contract but
taken as the explicit hypothesis `hrec` about the one call of `split_matrix_svd` made by `split_mps_tensor`:
its outputs satisfy `Σ_p U[i,p]·σ[p]·V[p,j] = M[i,j]` on in-range entries (true for `tol = 0` when the kernel returns an
exact SVD of every block; to be supplied from the `split_matrix_svd` facts of C11/C12), and, for `sqrt`,
`sqrt(σ_p)·sqrt(σ_p) = σ_p` in the entry type on the kept singular values. -/
theorem split_merge_tol0_partial {ρ : Type} [RealLike ρ R] [OfNat ρ 0] [Add ρ] [Mul ρ] [Div ρ] [LT ρ] [DecidableEq ρ]
    [DecidableLT ρ] (k : MPS.SvdKernels R ρ) (dsqrt : ρ → ρ) (A : T3 R) (qd0 qd1 qD0 qD2 : List Int) (distr : Nat)
    (tol : ρ) (B0 B1 : T3 R) (qb : List Int)
    (h : MPS.splitMpsTensor k dsqrt A qd0 qd1 qD0 qD2 distr tol = .ok (B0, B1, qb))
    (hrec : ∀ U σ V q, BondOps.splitMatrixSvd k.dsvd k.dnorm k.dargsort (MPS.splitMat A qd0.length qd1.length).tab
        (QN.flatten2 qd0 qD0) (QN.flatten2 (QN.neg qd1) qD2) tol = .ok (U, σ, V, q) →
        (distr = 2 → ∀ p < σ.length, (RealLike.ofReal (dsqrt (σ.getD p 0)) : R) * RealLike.ofReal (dsqrt (σ.getD p 0))
            = RealLike.ofReal (σ.getD p 0)) ∧
        ∀ i < qd0.length * A.d1, ∀ j < qd1.length * A.d2,
          ∑ p ∈ Finset.range σ.length, U.f i p * RealLike.ofReal (σ.getD p 0) * V.f p j
            = (MPS.splitMat A qd0.length qd1.length).f i j) :
    (MPS.mergePair B0 B1).d0 = A.d0 ∧ (MPS.mergePair B0 B1).d1 = A.d1 ∧ (MPS.mergePair B0 B1).d2 = A.d2 ∧
    ∀ s < A.d0, ∀ a < A.d1, ∀ c < A.d2, (MPS.mergePair B0 B1).f s a c = A.f s a c :=
  MPS.split_merge k dsqrt A qd0 qd1 qD0 qD2 distr tol B0 B1 qb h hrec

/-- non-vacuity of `split_merge_tol0_partial`: a two-site tensor over `ℤ` with exact toy kernels (`M = M·diag(1)·I`),
zero tolerance, all three distribution modes -/
example (distr : Nat) (hd : distr = 0 ∨ distr = 1 ∨ distr = 2) :
    (∃ r, MPS.splitMpsTensor SplitEx.k id SplitEx.A [0, 0] [0, 0] [0] [0] distr (0 : Int) = .ok r) ∧
    ∀ U σ V q, BondOps.splitMatrixSvd SplitEx.k.dsvd SplitEx.k.dnorm SplitEx.k.dargsort
        (MPS.splitMat SplitEx.A [0, 0].length [0, 0].length).tab (QN.flatten2 [0, 0] [0])
        (QN.flatten2 (QN.neg [0, 0]) [0]) (0 : Int) = .ok (U, σ, V, q) →
      (distr = 2 → ∀ p < σ.length, (RealLike.ofReal (id (σ.getD p 0)) : Int) * RealLike.ofReal (id (σ.getD p 0))
          = RealLike.ofReal (σ.getD p 0)) ∧
      ∀ i < [0, 0].length * SplitEx.A.d1, ∀ j < [0, 0].length * SplitEx.A.d2,
        ∑ p ∈ Finset.range σ.length, U.f i p * RealLike.ofReal (σ.getD p 0) * V.f p j
          = (MPS.splitMat SplitEx.A [0, 0].length [0, 0].length).f i j := by
  refine ⟨?_, SplitEx.hrec distr⟩
  rcases hd with rfl | rfl | rfl
  · exact SplitEx.exists_of_isOk SplitEx.split_isOk.1
  · exact SplitEx.exists_of_isOk SplitEx.split_isOk.2.1
  · exact SplitEx.exists_of_isOk SplitEx.split_isOk.2.2

/-- (g') Zero tolerance, under the kernel contracts of C12: merging undoes `split_mps_tensor(·, tol = 0)` for every way
of distributing the singular values (`distr` = 0 left, 1 right, 2 sqrt).  Hypotheses (all about the one call of
`split_matrix_svd` on the reshaped matrix `M`, vocabulary of `Props/C12Split.lean`):
* `hc`    : the SVD kernel returns an exact SVD of every charge block of `M` (`C12.SVDContractOn`);
* `hnorm`, `hsort` : `np.linalg.norm` / `np.argsort` contracts on the concatenated spectrum;
* `hsqrt` : for `sqrt` only, `dsqrt x * dsqrt x = x` for `x = 0` and for the values of the spectrum;
* `hι`    : the embedding of the reals into the entries used by the model is the ring homomorphism `ι`.
Entries in a commutative star ring `𝕜` (`ℝ`, `ℂ`, `ℚ`), singular values in an ordered field `ρ`. -/
theorem split_merge_tol0 {𝕜 : Type} [CommRing 𝕜] [StarRing 𝕜] [DecidableEq 𝕜]
    {ρ : Type} [Field ρ] [LinearOrder ρ] [IsStrictOrderedRing ρ] [RealLike ρ 𝕜]
    (ι : ρ →+* 𝕜) (hι : ∀ x : ρ, (RealLike.ofReal x : 𝕜) = ι x)
    (k : MPS.SvdKernels 𝕜 ρ) (dsqrt : ρ → ρ) (A : T3 𝕜) (qd0 qd1 qD0 qD2 : List Int) (distr : Nat)
    (hc : C12.SVDContractOn ι k.dsvd (MPS.splitMat A qd0.length qd1.length).tab (QN.flatten2 qd0 qD0)
      (QN.flatten2 (QN.neg qd1) qD2))
    (hnorm : C12.NormContract
      (BondOps.spectrum k.dsvd (MPS.splitMat A qd0.length qd1.length).tab (QN.flatten2 qd0 qD0)
        (QN.flatten2 (QN.neg qd1) qD2))
      (k.dnorm (BondOps.spectrum k.dsvd (MPS.splitMat A qd0.length qd1.length).tab (QN.flatten2 qd0 qD0)
        (QN.flatten2 (QN.neg qd1) qD2))))
    (hsort : C12.SortContract
      (C12.sortKeys (BondOps.spectrum k.dsvd (MPS.splitMat A qd0.length qd1.length).tab (QN.flatten2 qd0 qD0)
          (QN.flatten2 (QN.neg qd1) qD2))
        (k.dnorm (BondOps.spectrum k.dsvd (MPS.splitMat A qd0.length qd1.length).tab (QN.flatten2 qd0 qD0)
          (QN.flatten2 (QN.neg qd1) qD2))))
      (k.dargsort (C12.sortKeys (BondOps.spectrum k.dsvd (MPS.splitMat A qd0.length qd1.length).tab
          (QN.flatten2 qd0 qD0) (QN.flatten2 (QN.neg qd1) qD2))
        (k.dnorm (BondOps.spectrum k.dsvd (MPS.splitMat A qd0.length qd1.length).tab (QN.flatten2 qd0 qD0)
          (QN.flatten2 (QN.neg qd1) qD2))))))
    (hsqrt : distr = 2 → ∀ x, (x = 0 ∨ x ∈ BondOps.spectrum k.dsvd (MPS.splitMat A qd0.length qd1.length).tab
      (QN.flatten2 qd0 qD0) (QN.flatten2 (QN.neg qd1) qD2)) → dsqrt x * dsqrt x = x)
    (B0 B1 : T3 𝕜) (qb : List Int)
    (h : MPS.splitMpsTensor k dsqrt A qd0 qd1 qD0 qD2 distr (0 : ρ) = .ok (B0, B1, qb)) :
    (MPS.mergePair B0 B1).d0 = A.d0 ∧ (MPS.mergePair B0 B1).d1 = A.d1 ∧ (MPS.mergePair B0 B1).d2 = A.d2 ∧
    ∀ s < A.d0, ∀ a < A.d1, ∀ c < A.d2, (MPS.mergePair B0 B1).f s a c = A.f s a c :=
  MPS.split_merge_tol0' ι hι k dsqrt A qd0 qd1 qD0 qD2 distr hc hnorm hsort hsqrt B0 B1 qb h

/-- non-vacuity of `split_merge_tol0`: the tensor with reshaped matrix `[[12/5, 16/5]] = 1 · 4 · [3/5, 4/5]` over `ℚ`;
all contracts hold and the split returns, for each of the three distributions -/
example (distr : Nat) (hd : distr = 0 ∨ distr = 1 ∨ distr = 2) :
    (∀ x : ℚ, (RealLike.ofReal x : ℚ) = (RingHom.id ℚ) x) ∧
    C12.SVDContractOn (RingHom.id ℚ) SplitQ.k.dsvd SplitQ.M SplitQ.q0 SplitQ.q1 ∧
    C12.NormContract (BondOps.spectrum SplitQ.k.dsvd SplitQ.M SplitQ.q0 SplitQ.q1)
      (SplitQ.k.dnorm (BondOps.spectrum SplitQ.k.dsvd SplitQ.M SplitQ.q0 SplitQ.q1)) ∧
    C12.SortContract (C12.sortKeys (BondOps.spectrum SplitQ.k.dsvd SplitQ.M SplitQ.q0 SplitQ.q1)
        (SplitQ.k.dnorm (BondOps.spectrum SplitQ.k.dsvd SplitQ.M SplitQ.q0 SplitQ.q1)))
      (SplitQ.k.dargsort (C12.sortKeys (BondOps.spectrum SplitQ.k.dsvd SplitQ.M SplitQ.q0 SplitQ.q1)
        (SplitQ.k.dnorm (BondOps.spectrum SplitQ.k.dsvd SplitQ.M SplitQ.q0 SplitQ.q1)))) ∧
    (∀ x, (x = 0 ∨ x ∈ BondOps.spectrum SplitQ.k.dsvd SplitQ.M SplitQ.q0 SplitQ.q1) →
      SplitQ.dsqrt x * SplitQ.dsqrt x = x) ∧
    ∃ r, MPS.splitMpsTensor SplitQ.k SplitQ.dsqrt SplitQ.A [0] [0, 0] [0] [0] distr (0 : ℚ) = .ok r := by
  refine ⟨fun _ => rfl, SplitQ.contract, SplitQ.norm_contract, SplitQ.sort_contract, SplitQ.sqrt_contract, ?_⟩
  rcases hd with rfl | rfl | rfl
  · exact SplitEx.exists_of_isOk SplitQ.split_isOk.1
  · exact SplitEx.exists_of_isOk SplitQ.split_isOk.2.1
  · exact SplitEx.exists_of_isOk SplitQ.split_isOk.2.2

/-- (h) `MPS.from_vector(d, nsites, v, tol = 0)` reproduces the vector: whenever it returns, the result has `nsites`
tensors and its dense amplitude at every basis state `s` is the entry of `v` at the row-major position of `s`.
Hypothesis `hk` (kernel contracts, required only at the matrices `fvMats …` handed to the SVD kernel during the run;
`MPS.FvSvdAt` in `Proofs/DenseFromVectorFull.lean`): outer shapes `U : m × ·`, `V : · × n`; `U · diag(s) · V = M`;
`np.linalg.norm` / `np.argsort` contracts of C12 on `s`.  (No orthogonality or sign clause is needed.) -/
theorem from_vector_tol0 {𝕜 : Type} [CommRing 𝕜] {ρ : Type} [Field ρ] [LinearOrder ρ] [IsStrictOrderedRing ρ]
    [RealLike ρ 𝕜] (ι : ρ →+* 𝕜) (hι : ∀ x : ρ, (RealLike.ofReal x : 𝕜) = ι x)
    (k : MPS.SvdKernels 𝕜 ρ) (d n : Nat) (v : List 𝕜) (ψ : MPS 𝕜)
    (hk : ∀ M ∈ MPS.fvMats k d n (⟨1, v.length, fun _ c => v.toArray.getD c 0⟩ : Mat 𝕜) (0 : ρ), MPS.FvSvdAt ι k M)
    (h : MPS.fromVector k d n v (0 : ρ) = .ok ψ) :
    ψ.A.length = n ∧ ∀ s, Digits d n s → ψ.amp s = v.getD (flat d s) 0 :=
  MPS.fromVector_tol0 ι hι k d n v ψ hk h

/-- non-vacuity of `from_vector_tol0`: `v = [3, 0, 0, 4]` on two sites over `ℚ` with exact rational SVD steps
(`diag(3, 4)`, then the column `[3, 0, 0, 4]ᵀ = [3/5, 0, 0, 4/5]ᵀ · 5 · [1]`) -/
example : (∀ x : ℚ, (RealLike.ofReal x : ℚ) = (RingHom.id ℚ) x) ∧
    (∀ M ∈ MPS.fvMats FvQ.k 2 2 FvQ.v0 (0 : ℚ), MPS.FvSvdAt (RingHom.id ℚ) FvQ.k M) ∧
    (MPS.fromVector FvQ.k 2 2 FvQ.v (0 : ℚ)).isOk = true ∧
    (MPS.fromVector FvQ.k 2 2 FvQ.v (0 : ℚ)).toOption.map
      (fun ψ => [ψ.amp [0, 0], ψ.amp [0, 1], ψ.amp [1, 0], ψ.amp [1, 1]]) = some [3, 0, 0, 4] :=
  ⟨fun _ => rfl, FvQ.contracts, FvQ.run_isOk, FvQ.run_dense⟩

/-- (h') the same in terms of `as_vector`: under the contracts of `from_vector_tol0` the result is a shaped MPS and
`MPS.from_vector(d, nsites, v, 0).as_vector()`, whenever both calls return, is exactly `v`. -/
theorem from_vector_as_vector_tol0 {𝕜 : Type} [CommRing 𝕜] {ρ : Type} [Field ρ] [LinearOrder ρ]
    [IsStrictOrderedRing ρ] [RealLike ρ 𝕜] (ι : ρ →+* 𝕜) (hι : ∀ x : ρ, (RealLike.ofReal x : 𝕜) = ι x)
    (k : MPS.SvdKernels 𝕜 ρ) (d n : Nat) (v : List 𝕜) (ψ : MPS 𝕜)
    (hk : ∀ M ∈ MPS.fvMats k d n (⟨1, v.length, fun _ c => v.toArray.getD c 0⟩ : Mat 𝕜) (0 : ρ), MPS.FvSvdAt ι k M)
    (h : MPS.fromVector k d n v (0 : ρ) = .ok ψ) :
    MPS.Shaped ψ d ∧ ∀ v', ψ.asVector = .ok v' → v' = v :=
  ⟨(MPS.fromVector_shaped k d n v 0 ψ h (fun M hM => MPS.stepExact_of_contract ι hι k M (hk M hM))).1,
   fun v' hv' => MPS.fromVector_asVector k d n v 0 ψ h
     (fun M hM => MPS.stepExact_of_contract ι hι k M (hk M hM)) v' hv'⟩

/-- non-vacuity of `from_vector_as_vector_tol0`: for the example of `from_vector_tol0`, `as_vector` returns -/
example : ((MPS.fromVector FvQ.k 2 2 FvQ.v (0 : ℚ)).toOption.map fun ψ => ψ.asVector.isOk) = some true := by
  decide +kernel

/-! ### The calls do return on operands satisfying the asserted preconditions

`wellFormed` (model `MPS.wellFormed` / `MPO.wellFormed`): `len(qD) = L + 1`, every tensor has the shape given by `qd` and
the charge lists, and every tensor is block sparse (`is_qsparse`). -/

/-- (a-ok) `add_mps` raises no exception on well-formed operands with equal `qd`, equal length and equal boundary
charges; together with `add_mps_dense` this gives the unconditional statement. -/
theorem add_mps_ok (ψ0 ψ1 : MPS R) (α : R) (w0 : ψ0.wellFormed = true) (w1 : ψ1.wellFormed = true)
    (hqd : ψ0.qd = ψ1.qd) (hlen : ψ0.A.length = ψ1.A.length) (hb0 : ψ0.qD.getD 0 [] = ψ1.qD.getD 0 [])
    (hbL : ψ0.qD.getD ψ0.A.length [] = ψ1.qD.getD ψ0.A.length []) : ∃ r, MPS.add ψ0 ψ1 α = .ok r :=
  MPS.add_ok ψ0 ψ1 α w0 w1 hqd hlen hb0 hbL

/-- non-vacuity of `add_mps_ok` -/
example : ψ0.wellFormed = true ∧ ψ1.wellFormed = true ∧ ψ0.qd = ψ1.qd ∧ ψ0.A.length = ψ1.A.length ∧
    ψ0.qD.getD 0 [] = ψ1.qD.getD 0 [] ∧ ψ0.qD.getD ψ0.A.length [] = ψ1.qD.getD ψ0.A.length [] := by decide

/-- (b-ok) `add_mpo` raises no exception on well-formed operands with equal `qd`, length and boundary charges. -/
theorem add_mpo_ok (o0 o1 : MPO R) (α : R) (w0 : o0.wellFormed = true) (w1 : o1.wellFormed = true)
    (hqd : o0.qd = o1.qd) (hlen : o0.A.length = o1.A.length) (hb0 : o0.qD.getD 0 [] = o1.qD.getD 0 [])
    (hbL : o0.qD.getD o0.A.length [] = o1.qD.getD o0.A.length []) : ∃ r, MPO.add o0 o1 α = .ok r :=
  MPO.add_ok o0 o1 α w0 w1 hqd hlen hb0 hbL

/-- non-vacuity of `add_mpo_ok` -/
example : o0.wellFormed = true ∧ o1.wellFormed = true ∧ o0.qd = o1.qd ∧ o0.A.length = o1.A.length ∧
    o0.qD.getD 0 [] = o1.qD.getD 0 [] ∧ o0.qD.getD o0.A.length [] = o1.qD.getD o0.A.length [] := by decide

/-- (c-ok) `multiply_mpo` raises no exception on well-formed operands with equal `qd` and length. -/
theorem mul_mpo_ok (o0 o1 : MPO R) (w0 : o0.wellFormed = true) (w1 : o1.wellFormed = true)
    (hqd : o0.qd = o1.qd) (hlen : o0.A.length = o1.A.length) : ∃ r, MPO.multiply o0 o1 = .ok r :=
  MPO.multiply_ok o0 o1 w0 w1 hqd hlen

/-- (d-ok) `apply_operator` raises no exception on well-formed operands with equal `qd` and length and boundary bonds of
dimension 1. -/
theorem apply_ok (o : MPO R) (ψ : MPS R) (w0 : o.wellFormed = true) (w1 : ψ.wellFormed = true)
    (hqd : ψ.qd = o.qd) (hlen : ψ.A.length = o.A.length)
    (ho0 : (o.qD.getD 0 []).length = 1) (hp0 : (ψ.qD.getD 0 []).length = 1)
    (hoL : (o.qD.getD ψ.A.length []).length = 1) (hpL : (ψ.qD.getD ψ.A.length []).length = 1) :
    ∃ r, Op.applyOperator o ψ = .ok r :=
  Op.apply_ok o ψ w0 w1 hqd hlen ho0 hp0 hoL hpL

/-- non-vacuity of `mul_mpo_ok` and `apply_ok` -/
example : o0.wellFormed = true ∧ o1.wellFormed = true ∧ ψ0.wellFormed = true ∧ ψ0.qd = o0.qd ∧
    ψ0.A.length = o0.A.length ∧ (o0.qD.getD 0 []).length = 1 ∧ (ψ0.qD.getD 0 []).length = 1 ∧
    (o0.qD.getD ψ0.A.length []).length = 1 ∧ (ψ0.qD.getD ψ0.A.length []).length = 1 := by decide

/-! ### Results are again `Shaped`, so the dense theorems compose along chained expressions -/

/-- the result of `add_mps` on shaped operands is shaped -/
theorem add_mps_shaped (ψ0 ψ1 r : MPS R) (α : R) (d : Nat) (h0 : MPS.Shaped ψ0 d) (h1 : MPS.Shaped ψ1 d)
    (h : MPS.add ψ0 ψ1 α = .ok r) : MPS.Shaped r d :=
  MPS.add_shaped ψ0 ψ1 r α d h0 h1 h

/-- the result of `add_mpo` on shaped operands is shaped -/
theorem add_mpo_shaped (o0 o1 r : MPO R) (α : R) (d : Nat) (h0 : MPO.Shaped o0 d) (h1 : MPO.Shaped o1 d)
    (h : MPO.add o0 o1 α = .ok r) : MPO.Shaped r d :=
  MPO.add_shaped o0 o1 r α d h0 h1 h

/-- the result of `multiply_mpo` on shaped operands is shaped -/
theorem mul_mpo_shaped (o0 o1 r : MPO R) (d : Nat) (h0 : MPO.Shaped o0 d) (h1 : MPO.Shaped o1 d)
    (h : MPO.multiply o0 o1 = .ok r) : MPO.Shaped r d :=
  MPO.multiply_shaped o0 o1 r d h0 h1 h

/-- the result of `apply_operator` on shaped operands is shaped -/
theorem apply_shaped (o : MPO R) (ψ r : MPS R) (d : Nat) (h0 : MPO.Shaped o d) (h1 : MPS.Shaped ψ d)
    (h : Op.applyOperator o ψ = .ok r) : MPS.Shaped r d :=
  Op.apply_shaped o ψ r d h0 h1 h

/-- chained expression: the dense vector of `((o0 + α·o1) @ o2) ψ` is `(O0 + α·O1) · O2 · ψ` evaluated on the operands'
dense matrices and vector. -/
theorem chained_dense (o0 o1 o2 a m : MPO R) (ψ r : MPS R) (α : R) (d : Nat)
    (h0 : MPO.Shaped o0 d) (h1 : MPO.Shaped o1 d) (h2 : MPO.Shaped o2 d) (hψ : MPS.Shaped ψ d)
    (ha : MPO.add o0 o1 α = .ok a) (hm : MPO.multiply a o2 = .ok m) (hr : Op.applyOperator m ψ = .ok r)
    (s : List Nat) (hs : Digits d o0.A.length s) :
    r.amp s = sumDigits d o0.A.length (fun t =>
      sumDigits d o0.A.length (fun u => (o0.elem s u + α * o1.elem s u) * o2.elem u t) * ψ.amp t) :=
  MPO.chained_dense o0 o1 o2 a m ψ r α d h0 h1 h2 hψ ha hm hr s hs

/-- non-vacuity of the closure theorems and of `chained_dense`: `((w0 - w1) @ w0) φ0` (single site) is computed
without exception; the three-site results of the examples above are shaped operands for further operations -/
example : MPO.Shaped w0 2 ∧ MPO.Shaped w1 2 ∧ MPS.Shaped φ0 2 ∧
    ((MPO.add w0 w1 (-1)).toOption.bind fun a => (MPO.multiply a w0).toOption.bind fun m =>
      (Op.applyOperator m φ0).toOption.map fun r => r.amp [1]) = some (-54) :=
  ⟨shaped_w0, shaped_w1, shaped_φ0, by decide⟩

end Ptn.C03

import PtnModel.Props.C03
import PtnModel.Proofs.DenseSparseEq
import PtnModel.Proofs.DenseSparseExamples
/-!
# Property C03, clause "The dense and sparse matrix forms of an MPO are equal"

`MPO.as_matrix(sparse_format=True)` (`pytenet/mpo.py`) contracts the MPO by a different route than the dense path:
the running operator is a 2-D (scipy sparse) array with the right virtual bond as column index; every further site is
absorbed by `d` matrix products `op @ T_j` (one per physical output index `j`), a flat-index `reshape((n, -1))`, an
`hstack` over `j`, and a `reshape((n², -1))`.  The model `MPO.asMatrixSparse` (`PtnModel/Model/MPOSparse.lean`) mirrors
this index arithmetic step by step (sparse storage plays no role for the values) and is tied to the Python code by the
differential correspondence of `./check C03` (stream `dense`: the sparse form is compared with the sparse model, the
dense form with the dense model).

Statements, for every shaped MPO (`MPO.Shaped o d`: `L ≥ 1` sites, physical dimension `d = len(qd)`, matching bond
dimensions, dummy boundary bonds), entries in any commutative ring:
* `as_matrix_sparse_eq_dense` : both forms return, both are `d^L × d^L`, and all entries are equal;
* `as_matrix_sparse_elem`     : the sparse form lists exactly the digit-indexed matrix elements `o.elem s t` in row-major
                                order (the counterpart of `as_matrix_elem` for the dense form);
* `as_matrix_sparse_raises`   : the two side conditions of the above are necessary — see below.

Side conditions (degenerate shapes on which the *Python* sparse path raises while the dense path returns):
* `0 < d ∨ L = 1` : with an empty physical space (`len(qd) = 0`) and `L ≥ 2` the list handed to `hstack` is empty
  (IndexError), whereas the dense form is the `0 × 0` matrix;
* every bond dimension is positive: at a bond of dimension 0 `T[j].transpose(..).reshape(0, -1)` (or
  `A[0].reshape((-1, 0))`) raises ValueError, whereas the dense form is the zero matrix.
Row layout proved by induction over the sites (`MPO.sparseLoop_spec`): after `k` sites `op` is the `(d^k·d^k) × D_k`
matrix whose row `flat(s_0..s_{k-1})·d^k + flat(t_0..t_{k-1})` is `e₀·A_0[s_0,t_0]⋯A_{k-1}[s_{k-1},t_{k-1}]`.
-/
namespace Ptn.C03
open Ptn.Dense.Ex Ptn.Dense

variable {R : Type} [CommRing R]

/-- The dense and sparse matrix forms of an MPO are equal: for every shaped MPO with non-empty physical space (or a
single site) and positive bond dimensions, `as_matrix(sparse_format=True)` and `as_matrix()` both return, both results
have shape `d^L × d^L`, and they agree in every entry. -/
theorem as_matrix_sparse_eq_dense (o : MPO R) (d : Nat) (ho : MPO.Shaped o d) (hd : 0 < d ∨ o.A.length = 1)
    (hpos : ∀ A ∈ o.A, 0 < A.d2) :
    ∃ ms md, o.asMatrixSparse = .ok ms ∧ o.asMatrix = .ok md ∧
      ms.m = d ^ o.A.length ∧ ms.n = d ^ o.A.length ∧ md.m = d ^ o.A.length ∧ md.n = d ^ o.A.length ∧
      ∀ i < d ^ o.A.length, ∀ j < d ^ o.A.length, ms.f i j = md.f i j :=
  MPO.asMatrixSparse_eq_asMatrix o d ho hd hpos

/-- non-vacuity of `as_matrix_sparse_eq_dense`: the three-site MPO `o0` over `ℤ` (charges `qd = [0, 1]`, bond profile
`(1,3,2,1)`); the sparse path returns the entry `75` at `(flat [1,0,1], flat [0,1,1]) = (5, 3)` as the dense path -/
example : MPO.Shaped o0 2 ∧ (0 < 2 ∨ o0.A.length = 1) ∧ (∀ A ∈ o0.A, 0 < A.d2) ∧
    o0.asMatrixSparse.toOption.map (fun m => (m.m, m.n, m.f 5 3)) = some (8, 8, 75) ∧
    o0.asMatrix.toOption.map (fun m => (m.m, m.n, m.f 5 3)) = some (8, 8, 75) :=
  ⟨shaped_o0, by decide, by decide, by decide, by decide⟩

/-- the sparse form lists exactly the digit-indexed matrix elements: `as_matrix(sparse_format=True)` returns a
`d^L × d^L` matrix whose entry at the row-major positions of the basis states `(s, t)` is `o.elem s t`. -/
theorem as_matrix_sparse_elem (o : MPO R) (d : Nat) (ho : MPO.Shaped o d) (hd : 0 < d ∨ o.A.length = 1)
    (hpos : ∀ A ∈ o.A, 0 < A.d2) :
    ∃ m, o.asMatrixSparse = .ok m ∧ m.m = d ^ o.A.length ∧ m.n = d ^ o.A.length ∧
      ∀ s t, Digits d o.A.length s → Digits d o.A.length t → m.f (flat d s) (flat d t) = o.elem s t :=
  MPO.asMatrixSparse_elem o d ho hd hpos

/-- non-vacuity of `as_matrix_sparse_elem`: the two-site operator `w2` over `ℤ` (bond profile `(1,2,1)`; all 16 entries
of the sparse form listed), and the single-site operator `w0` -/
example : MPO.Shaped w2 2 ∧ (∀ A ∈ w2.A, 0 < A.d2) ∧
    w2.asMatrixSparse.toOption.map (fun m => (List.range 4).map fun i => (List.range 4).map fun j => m.f i j)
      = some [[2, 0, 0, 0], [0, 6, 0, 0], [0, 20, 8, 0], [0, 0, 0, 24]] ∧
    flat 2 [1, 0] = 2 ∧ flat 2 [0, 1] = 1 ∧ w2.elem [1, 0] [0, 1] = 20 ∧
    MPO.Shaped w0 2 ∧ w0.asMatrixSparse.toOption.map (fun m => m.f 1 1) = some 3 ∧ w0.elem [1] [1] = 3 :=
  ⟨shaped_w2, by decide, by decide, by decide, by decide, by decide, shaped_w0, by decide, by decide⟩

/-- The side conditions are necessary: on a shaped MPO with an empty physical space and `L ≠ 1` sites, or with a bond
of dimension 0, `as_matrix(sparse_format=True)` raises (while the dense form returns, `MPO.asMatrix_ok`). -/
theorem as_matrix_sparse_raises (o : MPO R) (d : Nat) (ho : MPO.Shaped o d)
    (h : (d = 0 ∧ o.A.length ≠ 1) ∨ ∃ A ∈ o.A, A.d2 = 0) :
    (∃ e, o.asMatrixSparse = .error e) ∧ ∃ m, o.asMatrix = .ok m :=
  ⟨MPO.asMatrixSparse_error o d ho h, MPO.asMatrix_ok o d ho⟩

/-- non-vacuity of `as_matrix_sparse_raises`: a two-site operator with an interior bond of dimension 0 (ValueError in
the sparse path, `4 × 4` zero matrix in the dense path) and a two-site operator on an empty physical space (IndexError
in the sparse path, `0 × 0` matrix in the dense path) -/
example : MPO.Shaped z2 2 ∧ (∃ A ∈ z2.A, A.d2 = 0) ∧ (z2.asMatrixSparse.map fun _ => ()) = .error .value ∧
    z2.asMatrix.toOption.map (fun m => (m.m, m.n, m.f 1 1)) = some (4, 4, 0) ∧
    MPO.Shaped e2 0 ∧ e2.A.length ≠ 1 ∧ (e2.asMatrixSparse.map fun _ => ()) = .error .index ∧
    e2.asMatrix.toOption.map (fun m => (m.m, m.n)) = some (0, 0) :=
  ⟨shaped_z2, by decide, by decide, by decide, shaped_e2, by decide, by decide, by decide⟩

end Ptn.C03

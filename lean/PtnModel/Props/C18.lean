import PtnModel.Proofs.BipKoenig
import PtnModel.Proofs.BipTotal
import PtnModel.Proofs.BipExamples
/-!
# Property C18 (bipartite matching / vertex cover)

"For every bipartite graph the matching routine returns a set of existing edges that share no vertex
and whose size equals the maximum matching size; the vertex-cover routine returns vertices within
range that touch every edge and whose number equals that maximum (Koenig), hence is minimum.  Both
terminate on every input, including graphs with no edges and with duplicate edges."

All statements are about the executable model `PtnModel/Model/Bipartite.lean`
(`BGraph.mk'`, `hopcroftKarp`, `minimumVertexCover`, `explore`), which is tied to
`pytenet/bipartite_graph.py` by the differential correspondence of `./check C18`.

Vocabulary (defined in `PtnModel/Proofs/BipBasic.lean`):
* `g.Edge u v`      : `v ∈ g.adjU[u]`;
* `g.WF`            : adjacency lists have lengths `numU`/`numV`, entries in range, duplicate-free,
                      `adjU`/`adjV` mutually consistent;
* `IsMatching g m`  : every pair of `m` is an edge of `g`; first components pairwise distinct; second
                      components pairwise distinct;
* `IsCover g uc vc` : every edge `(u, v)` of `g` has `u ∈ uc` or `v ∈ vc`.
-/
namespace Ptn.C18
open Ptn.Bip

/-- `BipartiteGraph.__init__` (model `BGraph.mk'`) only ever yields well-formed graphs, with the
requested (positive) numbers of vertices; duplicate edges in the input are harmless.  Hence the
hypothesis `g.WF` of all theorems below holds for every graph the Python code can construct. -/
theorem mk'_wf {numU numV : Int} {edges : List (Int × Int)} {g : BGraph}
    (h : BGraph.mk' numU numV edges = .ok g) :
    g.WF ∧ (g.numU : Int) = numU ∧ (g.numV : Int) = numV ∧ 1 ≤ g.numU ∧ 1 ≤ g.numV :=
  mk'_wf' h

/-- non-vacuity of `mk'_wf`: a graph given with a duplicated edge -/
example : BGraph.mk' 2 2 [(0, 0), (1, 0), (1, 1), (1, 0)] = .ok exG ∧ exG.Edge 1 0 := ⟨exG_mk, by decide⟩

/-- (a) Weak duality: in any graph, a matching is never larger than a vertex cover. -/
theorem weak_duality {g : BGraph} {m : List (Nat × Nat)} {uc vc : List Nat}
    (hm : IsMatching g m) (hc : IsCover g uc vc) : m.length ≤ uc.length + vc.length :=
  weak_duality' hm hc

/-- (a') Consequently a matching and a cover of equal size are a maximum matching and a minimum
cover. -/
theorem weak_duality_optimal {g : BGraph} {m : List (Nat × Nat)} {uc vc : List Nat}
    (hm : IsMatching g m) (hc : IsCover g uc vc) (heq : uc.length + vc.length = m.length) :
    (∀ m', IsMatching g m' → m'.length ≤ m.length) ∧
    (∀ uc' vc', IsCover g uc' vc' → uc.length + vc.length ≤ uc'.length + vc'.length) :=
  ⟨fun _ hm' => heq ▸ weak_duality' hm' hc, fun _ _ hc' => heq ▸ weak_duality' hm hc'⟩

/-- non-vacuity of `weak_duality`/`weak_duality_optimal`: the path `0-0, 1-0, 1-1` -/
example : exG.WF ∧ IsMatching exG [(0, 0), (1, 1)] ∧ IsCover exG [1] [0] ∧
    [1].length + [0].length = [(0, 0), (1, 1)].length := by
  refine ⟨exG_wf, ⟨by decide, by decide, by decide⟩, ?_, rfl⟩
  intro u v h
  obtain ⟨hu, hv⟩ := exG_wf.edge_lt h
  have key : ∀ u ∈ List.range 2, ∀ v ∈ List.range 2, exG.Edge u v → u ∈ [1] ∨ v ∈ [0] := by decide
  exact key u (List.mem_range.2 hu) v (List.mem_range.2 hv) h

/-- (b) On a well-formed graph the pairs returned by `hopcroftKarp` are edges of the graph and share
no vertex (no `U`-vertex and no `V`-vertex occurs twice). -/
theorem matching_valid {g : BGraph} (hg : g.WF) {m : List (Nat × Nat)} (h : hopcroftKarp g = .ok m) :
    (∀ p ∈ m, p.2 ∈ g.adjU.getD p.1 []) ∧ (m.map Prod.fst).Nodup ∧ (m.map Prod.snd).Nodup :=
  let hm := hopcroftKarp_isMatching hg h
  ⟨hm.edge, hm.nodupU, hm.nodupV⟩

/-- non-vacuity of `matching_valid` (a graph on which the first phase re-matches a vertex) -/
example : exH.WF ∧ hopcroftKarp exH = .ok [(0, 1), (1, 0), (2, 2)] := ⟨exH_wf, exH_hk⟩

/-- (c) If `minimumVertexCover` succeeds on a well-formed graph, the returned lists are in range and
duplicate-free, they cover every edge of the graph, and their total number equals the size of the
matching returned by `hopcroftKarp`. -/
theorem cover_valid_and_size {g : BGraph} (hg : g.WF) {uc vc : List Nat}
    (h : minimumVertexCover g = .ok (uc, vc)) :
    ∃ m, hopcroftKarp g = .ok m ∧ (∀ u ∈ uc, u < g.numU) ∧ (∀ v ∈ vc, v < g.numV) ∧
      uc.Nodup ∧ vc.Nodup ∧ (∀ u v, v ∈ g.adjU.getD u [] → u ∈ uc ∨ v ∈ vc) ∧
      uc.length + vc.length = m.length :=
  mvc_spec hg h

/-- non-vacuity of `cover_valid_and_size` and `cover_minimum_matching_maximum`
(a graph with an unmatched `U`-vertex, so that the exploration loop runs) -/
example : exK.WF ∧ minimumVertexCover exK = .ok ([2], [0]) := ⟨exK_wf, exK_mvc⟩

/-- (d) Whenever `minimumVertexCover` succeeds on a well-formed graph, the returned cover is a
minimum vertex cover and the matching of `hopcroftKarp` is a maximum matching (and both have the
same size: Koenig). -/
theorem cover_minimum_matching_maximum {g : BGraph} (hg : g.WF) {uc vc : List Nat}
    (h : minimumVertexCover g = .ok (uc, vc)) :
    ∃ m, hopcroftKarp g = .ok m ∧ IsMatching g m ∧ IsCover g uc vc ∧ uc.length + vc.length = m.length ∧
      (∀ m', IsMatching g m' → m'.length ≤ m.length) ∧
      (∀ uc' vc', IsCover g uc' vc' → uc.length + vc.length ≤ uc'.length + vc'.length) := by
  obtain ⟨m, hk, _, _, _, _, hc, hlen⟩ := mvc_spec hg h
  have hm := hopcroftKarp_isMatching hg hk
  obtain ⟨h1, h2⟩ := weak_duality_optimal hm hc hlen
  exact ⟨m, hk, hm, hc, hlen, h1, h2⟩

/-- (e) On a well-formed graph the exploration `_explore_alternating_paths` started at an in-range
vertex with empty visited lists and fuel `exploreFuel g` always finishes (in particular it never
returns `.error .fuel`; `explore` has no other error), for every list `m` of "matching" pairs. -/
theorem explore_total {g : BGraph} (hg : g.WF) (m : List (Nat × Nat)) {u : Nat} (hu : u < g.numU) :
    ∃ st, explore g m (exploreFuel g) u ([], []) = .ok st :=
  explore_ok hg m hu

/-- non-vacuity of `explore_total` -/
example : exK.WF ∧ 1 < exK.numU ∧
    explore exK [(0, 0), (2, 1)] (exploreFuel exK) 1 ([], []) = .ok ([1, 0], [0]) :=
  ⟨exK_wf, by decide, exK_explore⟩

/-- (f) Koenig: if `hopcroftKarp` returns on a well-formed graph then `minimumVertexCover` returns
as well, i.e. no exploration runs out of fuel and the internal assertion
`len(u_cover) + len(v_cover) == len(matching)` of `minimum_vertex_cover` holds. -/
theorem mvc_returns_of_hk_returns {g : BGraph} (hg : g.WF) {m : List (Nat × Nat)}
    (hk : hopcroftKarp g = .ok m) : ∃ uc vc, minimumVertexCover g = .ok (uc, vc) :=
  mvc_ok_of_hk_ok hg hk

/-- (f) On a well-formed graph the only way `minimumVertexCover` can fail is a failure of
`hopcroftKarp` itself (which can only be fuel exhaustion, see `hk_total`); in particular
the assertion of `minimum_vertex_cover` never fails after a successful matching run. -/
theorem mvc_assert_never_fails {g : BGraph} (hg : g.WF) {e : Err}
    (h : minimumVertexCover g = .error e) : hopcroftKarp g = .error e :=
  mvc_error hg h

/-- (f) The matching returned by `hopcroftKarp` on a well-formed graph is a maximum matching:
no matching of the graph has more pairs. -/
theorem hk_maximum {g : BGraph} (hg : g.WF) {m : List (Nat × Nat)} (hk : hopcroftKarp g = .ok m) :
    IsMatching g m ∧ ∀ m', IsMatching g m' → m'.length ≤ m.length :=
  ⟨hopcroftKarp_isMatching hg hk, hk_maximum' hg hk⟩

/-- non-vacuity of `mvc_returns_of_hk_returns` and `hk_maximum` -/
example : exK.WF ∧ hopcroftKarp exK = .ok [(0, 0), (2, 1)] := ⟨exK_wf, exK_hk⟩

/-- (f) Termination of the matching routine: on a well-formed graph `hopcroftKarp` never returns an
error; in particular neither the BFS fuel, nor the DFS fuel, nor the phase fuel of the model runs out
(every phase whose BFS reaches NIL augments the matching at least once). -/
theorem hk_total {g : BGraph} (hg : g.WF) : ∃ m, hopcroftKarp g = .ok m :=
  hopcroftKarp_ok' hg

/-- Termination of the vertex-cover routine: on a well-formed graph `minimumVertexCover` returns a
value (no fuel exhaustion, and its internal assertion holds). -/
theorem mvc_total {g : BGraph} (hg : g.WF) : ∃ uc vc, minimumVertexCover g = .ok (uc, vc) := by
  obtain ⟨m, hk⟩ := hk_total hg
  exact mvc_ok_of_hk_ok hg hk

/-- C18, all clauses together, for every graph the constructor can build (this includes graphs
without edges and edge lists with duplicates): both routines return; the matching consists of edges of
the graph sharing no vertex and is a maximum matching; the cover lists are duplicate-free and within
range, touch every edge, have as many vertices as the matching has pairs (Koenig), and no vertex cover
is smaller. -/
theorem c18_all {numU numV : Int} {edges : List (Int × Int)} {g : BGraph}
    (h : BGraph.mk' numU numV edges = .ok g) :
    ∃ m uc vc, hopcroftKarp g = .ok m ∧ minimumVertexCover g = .ok (uc, vc) ∧
      IsMatching g m ∧ (∀ m', IsMatching g m' → m'.length ≤ m.length) ∧
      (∀ u ∈ uc, u < g.numU) ∧ (∀ v ∈ vc, v < g.numV) ∧ uc.Nodup ∧ vc.Nodup ∧
      IsCover g uc vc ∧ uc.length + vc.length = m.length ∧
      (∀ uc' vc', IsCover g uc' vc' → uc.length + vc.length ≤ uc'.length + vc'.length) := by
  have hg := (mk'_wf h).1
  obtain ⟨uc, vc, hc⟩ := mvc_total hg
  obtain ⟨m, hk, hu, hv, hnu, hnv, hcov, hlen⟩ := mvc_spec hg hc
  have hm := hopcroftKarp_isMatching hg hk
  obtain ⟨h1, h2⟩ := weak_duality_optimal hm hcov hlen
  exact ⟨m, uc, vc, hk, hc, hm, h1, hu, hv, hnu, hnv, hcov, hlen, h2⟩

/-- non-vacuity of `c18_all`: the constructor succeeds on an edge list with a duplicate -/
example : BGraph.mk' 2 2 [(0, 0), (1, 0), (1, 1), (1, 0)] = .ok exG := exG_mk

/-- the graph without edges is covered as well -/
example : ∃ g, BGraph.mk' 1 1 [] = .ok g := ⟨_, rfl⟩

end Ptn.C18

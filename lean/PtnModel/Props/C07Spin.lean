import PtnModel.Props.C07Total
import PtnModel.Proofs.SpinEnum
import PtnModel.Proofs.SpinNative
/-!
# Property C07, Jordan-Wigner semantics of the bond-optimized SPIN-ORBITAL construction

"... `spin_molecular_hamiltonian_mpo(tkin, vint)` represents
`H = Σ_{i,j,σ} t_ij a†_{iσ} a_{jσ} + ½ Σ_{i,j,k,l,σ,τ} v_ijkl a†_{iσ} a†_{jτ} a_{lτ} a_{kσ}` ..." (docstring of the function; physicists'
convention, note the order of `k` and `l`; `tkin`, `vint` are the spatial-orbital integrals, the same for both spins).

`Props/C07Dense.lean` / `C07Total.lean` (`optimized_dense`, `optimized_dense_total`) show that the MPO of the bond-optimized spin-orbital
construction has `L` sites of dimension 4 and the dense matrix of the sum of its enumerated chains over the pair tables
`spinMolOpmap`.  Here that sum is interpreted.

Conventions.  The `2 L` fermionic modes are ordered `(0↑, 0↓, 1↑, 1↓, …)`, mode `m = 2 i + σ` (`σ = 0` spin up, `σ = 1` spin down); site
`i` carries the modes `2 i, 2 i + 1` and its basis index is `s_i = 2 n_{i↑} + n_{i↓}` (`np.kron(op_up, op_dn)`).  `unpair s` is the list of
the `2 L` occupation digits `[s_0 / 2, s_0 % 2, s_1 / 2, s_1 % 2, …]`.  The Jordan-Wigner matrices are those of `Props/C07JW.lean` on
`2 L` modes: `a†_m = I^m C Z^{2L-1-m}` (`jwC (2 L) m`), `a_m = I^m A Z^{2L-1-m}` (`jwA (2 L) m`), `Z` string to the right, tables
`molOpmap`; products are products of dense `2^{2L} × 2^{2L}` matrices (`sumDigits 2 (2 L)`), and
`jw4 (2 L) m1 m2 m3 m4 s' t' = ⟨s'| a†_{m1} a†_{m2} a_{m4} a_{m3} |t'⟩`.

* `spin_tables_kron`      -- every table of `spinMolOpmap` is the Kronecker product of the two single-mode tables of its pair, entry by
                             entry: `spinMolOpmap[(x, y)][a, b] = molOpmap[x][a / 2, b / 2] · molOpmap[y][a % 2, b % 2]`, all 23 pairs.
* `to_spin_opchain_word`  -- `to_spin_opchain` keeps the coefficient and maps the identity-padded word on `2 L` modes to the word of the
                             aligned pairs on `L` sites; hence the dense entries of the converted chain at `(s, t)` are those of the
                             mode chain at `(unpair s, unpair t)`.
* `spin_chain_word_jw`    -- ONE chain: the chain created for a hopping pair of modes of equal spin is `t · a†_m a_m'`; the chain created
                             for an interaction tuple `m1 < m2`, `m3 < m4` with a spin pattern accepted by `get_vint_coeff` is
                             `coeff · a†_{m1} a†_{m2} a_{m4} a_{m3}`.
* `spin_vint_coeff`       -- `get_vint_coeff` is the antisymmetrisation `V_{m1 m2 m3 m4} - V_{m2 m1 m3 m4} - V_{m1 m2 m4 m3} + V_{m2 m1 m4 m3}`
                             of `V_{m1 m2 m3 m4} = ½ δ_{σ1 σ3} δ_{σ2 σ4} v_{i j k l}` (`spinV`); it reports `valid = False` only where
                             all four terms vanish identically, so the `continue` of the loop drops nothing.
* `spin_kinetic_sum_jw`   -- the hopping chains sum to `Σ_ij Σ_σ t_ij a†_{iσ} a_{jσ}`.
* `spin_two_body_sum_jw`  -- the interaction chains sum to `Σ_ijkl Σ_στ ½ v_ijkl a†_{iσ} a†_{jτ} a_{lτ} a_{kσ}`, all four orbital indices
                             over `0..L-1`, both spins unrestricted (no symmetry of `vint` assumed).
* `spin_molecular_chain_sum_jw` -- **the documented operator**: whenever the constructor returns (`L ≥ 1`), the MPO has `L` sites of
                             dimension 4 and `MPO.DenseIs` (matrix elements `MPO.elem`, `as_matrix()` dense and sparse) the entries
                             `⟨unpair s| H |unpair t⟩` of the documented operator `H`.
* `spin_jordan_wigner_sites` -- the same operators as `4^L × 4^L` matrices: `a†_{iσ}` / `a_{iσ}` are the product operators over the pair
                             tables with `Id` before site `i`, `(C, Z)` / `(A, Z)` (spin up) resp. `(I, C)` / `(I, A)` (spin down) at
                             site `i`, `(Z, Z)` after it (`sjwC`, `sjwA`); their entries and their matrix products (sums over
                             `{0..3}^L`) are those of the `2 L`-mode Jordan-Wigner matrices at the split digit lists.
* `spin_molecular_chain_sum_jw_sites` -- the documented operator, stated entirely on `L` sites of dimension 4 (no digit splitting).
* `spin_molecular_total`  -- unconditional form: for `L ≥ 1`, well-shaped tensors and `SpinMolNonzero` the constructor returns and the
                             same holds (both forms).

`½` is the model constant `Consts.half` (the code's `0.5`), used linearly; no identity about it is needed.
Not covered: the explicit (`optimize=False`) spin-orbital graphs.
-/
set_option linter.unusedSectionVars false

namespace Ptn.C07
open Ptn Ptn.Og Ptn.Ham Ptn.Ch Ptn.Dense Ptn.Ham2 Ptn.Spin

variable {κ : Type} [CommRing κ] [DecidableEq κ]

/-- **The pair tables are Kronecker products** (`_spin_molecular_hamiltonian_generate_operator_map`): for each of the 23 entries
`((x, y), o)` of `oid_single_pair_map` and all indices `a, b` (rows / columns `2 n_up + n_dn`; out-of-range indices give `0` on both
sides): `spinMolOpmap[o][a, b] = molOpmap[x][a / 2, b / 2] · molOpmap[y][a % 2, b % 2]`. -/
theorem spin_tables_kron (p : (Int × Int) × Int) (hp : p ∈ oidSinglePairMap) (a b : Nat) :
    Ch.opEntry (spinMolOpmap : OpMap κ) p.2 a b =
      Ch.opEntry (molOpmap : OpMap κ) p.1.1 (a / 2) (b / 2) * Ch.opEntry (molOpmap : OpMap κ) p.1.2 (a % 2) (b % 2) := by
  have key : pairMapGet p.1 = .ok p.2 ∧ isMolOid p.1.1 ∧ isMolOid p.1.2 := by
    simp only [oidSinglePairMap, List.mem_cons, List.not_mem_nil, or_false] at hp
    unfold isMolOid
    rcases hp with rfl | rfl | rfl | rfl | rfl | rfl | rfl | rfl | rfl | rfl | rfl | rfl | rfl | rfl | rfl | rfl | rfl | rfl |
      rfl | rfl | rfl | rfl | rfl <;> decide
  exact spin_opEntry p.1.1 p.1.2 p.2 key.2.1 key.2.2 key.1 a b

/-- **`to_spin_opchain`, word and dense entries.**  On a chain `ch` on `2 L` modes that satisfies the guards, is Jordan-Wigner shaped and
spin balanced (`SpinReady L ch tail`; all chains of the enumeration are, `Proofs/HamSpinChains.lean`) the conversion succeeds, keeps
the coefficient, the identity-padded word of the result on `L` sites is the list of `oid_single_pair_map` values of the aligned pairs
of the identity-padded word on `2 L` modes, and for all digit lists `s, t` of length `L` the dense entry of the converted word over
the pair tables at `(s, t)` is the dense entry of the mode word over the single-mode tables at `(unpair s, unpair t)`. -/
theorem to_spin_opchain_word (L : Nat) (ch : OpChain κ) (tail : List Int) (h : SpinReady (L : Int) ch tail) :
    ∃ sc, toSpinOpchain ch = .ok sc ∧ ChainWF (L : Int) sc ∧ sc.coeff = ch.coeff ∧
      (evenOddPairs (ch.paddedWord (2 * (L : Int)) 0)).mapM pairMapGet = .ok (sc.paddedWord (L : Int) 0) ∧
      ∀ s t : List Nat, s.length = L → t.length = L →
        wordWeight (spinMolOpmap : OpMap κ) (sc.paddedWord (L : Int) 0) s t =
          wordWeight molOpmap (ch.paddedWord (2 * (L : Int)) 0) (unpair s) (unpair t) := by
  obtain ⟨sc, h1, h2, h3, h4, h5⟩ := toSpinOpchain_word (L : Int) ch tail h
  refine ⟨sc, h1, h2, h3, h4, ?_⟩
  intro s t hs ht
  have hlen : (ch.paddedWord (2 * (L : Int)) 0).length = 2 * L := by
    have := h.wf.start
    have := h.wf.fits
    simp only [OpChain.paddedWord, OpChain.length, pyRepeat, List.length_append, List.length_replicate]
    omega
  have hl' : (sc.paddedWord (L : Int) 0).length = L := by
    rw [mapM_len _ _ _ h4]; exact evenOddPairs_length L _ hlen
  exact pairWord_weight _ _ s t h5 (by rw [hl', hlen]) h4 (by rw [hl', hs]) (by rw [hl', ht])

/-- **One chain of the spin-orbital enumeration under the Jordan-Wigner matrices.**  For `L` spatial orbitals, digit lists `s, t` of
length `L`:
* hopping: for modes `m, m' < 2 L` of equal spin (`m % 2 = m' % 2`) the chain built in the hopping loop (diagonal: `[N]` at mode `m`;
  off-diagonal: `molHopChain m m'`) and converted by `to_spin_opchain` has, as a dense operator over the pair tables, the entries
  `coeff · Σ_u ⟨s'| a†_m |u⟩ ⟨u| a_m' |t'⟩` with `s' = unpair s`, `t' = unpair t`;
* interaction: for modes `m1 < m2 < 2 L`, `m3 < m4 < 2 L` whose spins satisfy `(σ1 = σ3 ∧ σ2 = σ4) ∨ (σ1 = σ4 ∧ σ2 = σ3)` (the patterns
  accepted by `get_vint_coeff`) `molIntChain` and `to_spin_opchain` succeed and the converted chain has the entries
  `coeff · ⟨s'| a†_{m1} a†_{m2} a_{m4} a_{m3} |t'⟩`. -/
theorem spin_chain_word_jw (L : Nat) (s t : List Nat) (hs : s.length = L) (ht : t.length = L) :
    (∀ (m m' : Nat) (coeff : κ) (y : OpChain κ), m < 2 * L → m' < 2 * L → m % 2 = m' % 2 →
      (if ((m : Int) == (m' : Int)) = true then (do
          let single ← OpChain.mk' [mN] [0, 0] coeff (m : Int)
          toSpinOpchain single)
        else (do
          let single ← molHopChain (m : Int) (m' : Int) coeff
          toSpinOpchain single)) = .ok y →
      y.coeff * wordWeight (spinMolOpmap : OpMap κ) (y.paddedWord (L : Int) 0) s t =
        coeff * sumDigits 2 (2 * L) (fun u =>
          wordWeight molOpmap (jwC (2 * L) m) (unpair s) u * wordWeight molOpmap (jwA (2 * L) m') u (unpair t))) ∧
    (∀ (m1 m2 m3 m4 : Nat) (coeff : κ), m1 < m2 → m2 < 2 * L → m3 < m4 → m4 < 2 * L →
      ((m1 % 2 = m3 % 2 ∧ m2 % 2 = m4 % 2) ∨ (m1 % 2 = m4 % 2 ∧ m2 % 2 = m3 % 2)) →
      ∃ ch sc : OpChain κ, molIntChain (m1 : Int) (m2 : Int) (m3 : Int) (m4 : Int) coeff = .ok ch ∧ toSpinOpchain ch = .ok sc ∧
        sc.coeff * wordWeight (spinMolOpmap : OpMap κ) (sc.paddedWord (L : Int) 0) s t
          = coeff * jw4 (2 * L) m1 m2 m3 m4 (unpair s) (unpair t)) := by
  constructor
  · intro m m' coeff y hm hm' hpar hy
    rw [spin_hop_chain L m m' hm hm' hpar coeff coeff (fun _ => rfl) s t hs ht y hy,
      jw_hop_dense (2 * L) m m' hm hm' _ _ (by rw [unpair_length, hs]) (by rw [unpair_length, ht])]
  · intro m1 m2 m3 m4 coeff h12 h2 h34 h4 hv
    exact spin_int_chain L m1 m2 m3 m4 h12 h2 h34 h4 hv coeff s t hs ht

/-- **`get_vint_coeff`.**  With `V_{m1 m2 m3 m4} = ½ v_{m1/2, m2/2, m3/2, m4/2}` if `σ(m1) = σ(m3)` and `σ(m2) = σ(m4)`, `0` otherwise
(`spinV`; the coefficient of `a†_{m1} a†_{m2} a_{m4} a_{m3}` in the documented operator), the value returned by
`get_vint_coeff((m1/2, m2/2, m3/2, m4/2), (m1%2, m2%2, m3%2, m4%2))` is `V_{m1 m2 m3 m4} - V_{m2 m1 m3 m4} - V_{m1 m2 m4 m3} + V_{m2 m1 m4 m3}`
when it reports `valid`, and that combination is `0` when it does not. -/
theorem spin_vint_coeff (c : Consts κ) (vint : List (List (List (List κ)))) (m1 m2 m3 m4 : Nat) :
    (∀ a b d e : Nat, spinV c vint a b d e = if a % 2 = d % 2 ∧ b % 2 = e % 2 then
      c.half * v4 vint ((a / 2 : Nat) : Int) ((b / 2 : Nat) : Int) ((d / 2 : Nat) : Int) ((e / 2 : Nat) : Int) else 0) ∧
    (if (getVintCoeff c vint ((m1 : Int) / 2, (m2 : Int) / 2, (m3 : Int) / 2, (m4 : Int) / 2)
          ((m1 : Int) % 2, (m2 : Int) % 2, (m3 : Int) % 2, (m4 : Int) % 2)).2 = true then
        (getVintCoeff c vint ((m1 : Int) / 2, (m2 : Int) / 2, (m3 : Int) / 2, (m4 : Int) / 2)
          ((m1 : Int) % 2, (m2 : Int) % 2, (m3 : Int) % 2, (m4 : Int) % 2)).1 else 0)
      = spinV c vint m1 m2 m3 m4 - spinV c vint m2 m1 m3 m4 - spinV c vint m1 m2 m4 m3 + spinV c vint m2 m1 m4 m3 :=
  ⟨fun _ _ _ _ => rfl, getVintCoeff_eq c vint m1 m2 m3 m4⟩

/-- **The kinetic part of the spin-orbital enumeration.**  Whenever the chain enumeration of
`spin_molecular_hamiltonian_mpo(tkin, vint, optimize=True)` returns `chains` (it does for every `L`, `spin_molecular_chains_wf`),
`chains = hop ++ int` with `hop` the chains of the hopping loop, and for all digit lists `s, t` of length `L` the dense entry of the sum
of the hopping chains is `Σ_i Σ_j Σ_σ t_ij · (a†_{2i+σ} a_{2j+σ})[unpair s, unpair t]`. -/
theorem spin_kinetic_sum_jw (c : Consts κ) (tkin : List (List κ)) (vint : List (List (List (List κ)))) (chains : List (OpChain κ))
    (h : spinMolChains c tkin vint = .ok chains) :
    ∃ hop int, chains = hop ++ int ∧
      ∀ s t : List Nat, s.length = tkin.length → t.length = tkin.length →
        termsEntry spinMolOpmap (denChainsRaw hop (tkin.length : Int) 0) s t =
          ((List.range tkin.length).map fun (i : Nat) => ((List.range tkin.length).map fun (j : Nat) =>
            ((List.range 2).map fun (σ : Nat) =>
              t2 tkin (i : Int) (j : Int) * sumDigits 2 (2 * tkin.length) (fun u =>
                wordWeight molOpmap (jwC (2 * tkin.length) (2 * i + σ)) (unpair s) u *
                  wordWeight molOpmap (jwA (2 * tkin.length) (2 * j + σ)) u (unpair t))).sum).sum).sum := by
  obtain ⟨hop, int, rfl, hhop, _⟩ := spinMolChains_split c tkin vint chains h
  exact ⟨hop, int, rfl, fun s t hs ht => spin_hop_sum tkin hop hhop s t hs ht⟩

/-- **The two-body part of the spin-orbital enumeration.**  With `chains = hop ++ int` as above, for all digit lists `s, t` of length
`L` the dense entry of the sum of the interaction chains is
`Σ_i Σ_j Σ_k Σ_l Σ_σ Σ_τ ½ v_ijkl · (a†_{2i+σ} a†_{2j+τ} a_{2l+τ} a_{2k+σ})[unpair s, unpair t]`, all orbital indices over `0..L-1`, both spins
over `{0, 1}` (the enumeration runs over mode tuples `m1 < m2`, `m3 < m4` with the coefficients of `get_vint_coeff`; the
antisymmetrisation is undone with the anticommutation relations `jordan_wigner_anticommute`). -/
theorem spin_two_body_sum_jw (c : Consts κ) (tkin : List (List κ)) (vint : List (List (List (List κ)))) (chains : List (OpChain κ))
    (h : spinMolChains c tkin vint = .ok chains) :
    ∃ hop int, chains = hop ++ int ∧
      ∀ s t : List Nat, s.length = tkin.length → t.length = tkin.length →
        termsEntry spinMolOpmap (denChainsRaw int (tkin.length : Int) 0) s t =
          ((List.range tkin.length).map fun (i : Nat) => ((List.range tkin.length).map fun (j : Nat) =>
            ((List.range tkin.length).map fun (k : Nat) => ((List.range tkin.length).map fun (l : Nat) =>
              ((List.range 2).map fun (σ : Nat) => ((List.range 2).map fun (τ : Nat) =>
                (c.half * v4 vint (i : Int) (j : Int) (k : Int) (l : Int)) *
                  jw4 (2 * tkin.length) (2 * i + σ) (2 * j + τ) (2 * k + σ) (2 * l + τ) (unpair s) (unpair t)).sum).sum).sum).sum).sum).sum := by
  obtain ⟨hop, int, rfl, _, hint⟩ := spinMolChains_split c tkin vint chains h
  exact ⟨hop, int, rfl, fun s t hs ht => spin_int_sum c tkin.length vint int hint s t hs ht⟩

/-- the matrix elements of the documented spin-orbital operator
`H = Σ_{ij,σ} t_ij a†_{iσ} a_{jσ} + ½ Σ_{ijkl,στ} v_ijkl a†_{iσ} a†_{jτ} a_{lτ} a_{kσ}` between the site digit lists `s, t ∈ {0..3}^L`, under the
Jordan-Wigner matrices of the `2 L` modes `2 i + σ` -/
def spinHamEntry (c : Consts κ) (tkin : List (List κ)) (vint : List (List (List (List κ)))) (s t : List Nat) : κ :=
  ((List.range tkin.length).map fun (i : Nat) => ((List.range tkin.length).map fun (j : Nat) =>
    ((List.range 2).map fun (σ : Nat) =>
      t2 tkin (i : Int) (j : Int) * sumDigits 2 (2 * tkin.length) (fun u =>
        wordWeight molOpmap (jwC (2 * tkin.length) (2 * i + σ)) (unpair s) u *
          wordWeight molOpmap (jwA (2 * tkin.length) (2 * j + σ)) u (unpair t))).sum).sum).sum +
  ((List.range tkin.length).map fun (i : Nat) => ((List.range tkin.length).map fun (j : Nat) =>
    ((List.range tkin.length).map fun (k : Nat) => ((List.range tkin.length).map fun (l : Nat) =>
      ((List.range 2).map fun (σ : Nat) => ((List.range 2).map fun (τ : Nat) =>
        (c.half * v4 vint (i : Int) (j : Int) (k : Int) (l : Int)) *
          jw4 (2 * tkin.length) (2 * i + σ) (2 * j + τ) (2 * k + σ) (2 * l + τ) (unpair s) (unpair t)).sum).sum).sum).sum).sum).sum

/-- **The bond-optimized spin-orbital MPO is the documented second-quantized operator under the Jordan-Wigner matrices.**  Whenever
`spin_molecular_hamiltonian_mpo(tkin, vint, optimize=True)` returns for `L ≥ 1` spatial orbitals (all coefficient tensors, no symmetry
assumed): the MPO has `L` sites of dimension 4, and for all site digit lists `s, t ∈ {0..3}^L`
`⟨s| MPO |t⟩ = Σ_{ij} Σ_σ t_ij ⟨s'| a†_{iσ} a_{jσ} |t'⟩ + Σ_{ijkl} Σ_{στ} ½ v_ijkl ⟨s'| a†_{iσ} a†_{jτ} a_{lτ} a_{kσ} |t'⟩` with `s' = unpair s`, `t' = unpair t`,
`a_{iσ}` the Jordan-Wigner matrix of mode `2 i + σ` among `2 L` modes; `as_matrix()` (dense and sparse path) returns the `4^L × 4^L`
matrix with exactly these entries (`MPO.DenseIs`, `spinHamEntry`). -/
theorem spin_molecular_chain_sum_jw (c : Consts κ) (tkin : List (List κ)) (vint : List (List (List (List κ))))
    (hL : 1 ≤ (tkin.length : Int)) (b : Built κ) (hb : spinMolBuildOpt c tkin vint = .ok b) :
    MPO.DenseIs (b.mpo.toMPO spinQd) 4 tkin.length (spinHamEntry c tkin vint) := by
  obtain ⟨chains, hch, _, _, _, hd⟩ := (optimized_dense c tkin vint hL).2 b hb
  obtain ⟨hop, int, rfl, hhop, hint⟩ := spinMolChains_split c tkin vint chains hch
  apply hd.congr
  intro s t hs ht
  rw [denChainsRaw, List.map_append, termsEntry_append]
  have e1 := spin_hop_sum tkin hop hhop s t hs.1 ht.1
  have e2 := spin_int_sum c tkin.length vint int hint s t hs.1 ht.1
  unfold denChainsRaw at e1 e2
  rw [e1, e2]
  rfl

/-- **The spin-orbital Jordan-Wigner matrices on `L` sites of dimension 4.**  With the `SpinMolecularOID`s `Id = 0`, `IC = 1`, `IA = 2`,
`CZ = 8`, `AZ = 13`, `ZZ = 22`: `a†_{iσ} = Id^i · (CZ | IC) · ZZ^{L-1-i}` (`sjwC`), `a_{iσ} = Id^i · (AZ | IA) · ZZ^{L-1-i}` (`sjwA`), first
alternative for `σ = 0` (spin up).  For `i < L`, `σ < 2` and digit lists of length `L` their entries over the pair tables are the entries
of the Jordan-Wigner words of mode `2 i + σ` among `2 L` modes at the split digit lists, and the matrix products
`a†_{iσ} a_{jτ}` (`sjw2`), `(a†_{iσ} a†_{jτ})(a_{lν} a_{kμ})` (`sjw4`) of the `4^L × 4^L` matrices are the products of the `2^{2L} × 2^{2L}`
matrices.  (So the anticommutation relations `jordan_wigner_anticommute` on `2 L` modes are those of the `a_{iσ}`.) -/
theorem spin_jordan_wigner_sites (L : Nat) (s t : List Nat) (hs : s.length = L) (ht : t.length = L) :
    (∀ i σ : Nat, sjwC L i σ = List.replicate i 0 ++ (if σ = 0 then 8 else 1) :: List.replicate (L - 1 - i) 22 ∧
      sjwA L i σ = List.replicate i 0 ++ (if σ = 0 then 13 else 2) :: List.replicate (L - 1 - i) 22) ∧
    (∀ i σ : Nat, i < L → σ < 2 →
      wordWeight (spinMolOpmap : OpMap κ) (sjwC L i σ) s t = wordWeight molOpmap (jwC (2 * L) (2 * i + σ)) (unpair s) (unpair t) ∧
      wordWeight (spinMolOpmap : OpMap κ) (sjwA L i σ) s t = wordWeight molOpmap (jwA (2 * L) (2 * i + σ)) (unpair s) (unpair t)) ∧
    (∀ i σ j τ : Nat, i < L → σ < 2 → j < L → τ < 2 →
      sjw2 (κ := κ) L i σ j τ s t = sumDigits 2 (2 * L) (fun u =>
        wordWeight molOpmap (jwC (2 * L) (2 * i + σ)) (unpair s) u * wordWeight molOpmap (jwA (2 * L) (2 * j + τ)) u (unpair t))) ∧
    (∀ i σ j τ k μ l ν : Nat, i < L → σ < 2 → j < L → τ < 2 → k < L → μ < 2 → l < L → ν < 2 →
      sjw4 (κ := κ) L i σ j τ k μ l ν s t
        = jw4 (2 * L) (2 * i + σ) (2 * j + τ) (2 * k + μ) (2 * l + ν) (unpair s) (unpair t)) :=
  ⟨fun _ _ => ⟨rfl, rfl⟩,
   fun i σ hi hσ => ⟨sjwC_weight L i σ hi hσ s t hs ht, sjwA_weight L i σ hi hσ s t hs ht⟩,
   fun i σ j τ hi hσ hj hτ => sjw2_eq L i σ j τ hi hσ hj hτ s t hs ht,
   fun i σ j τ k μ l ν hi hσ hj hτ hk hμ hl hν => sjw4_eq L i σ j τ k μ l ν hi hσ hj hτ hk hμ hl hν s t hs ht⟩

/-- the matrix elements of the documented spin-orbital operator between site digit lists, entirely on `L` sites of dimension 4:
`Σ_ij Σ_σ t_ij (a†_{iσ} a_{jσ})[s, t] + Σ_ijkl Σ_στ ½ v_ijkl (a†_{iσ} a†_{jτ} a_{lτ} a_{kσ})[s, t]` with the `4^L × 4^L` matrices `sjwC`, `sjwA` -/
def spinHamEntrySites (c : Consts κ) (tkin : List (List κ)) (vint : List (List (List (List κ)))) (s t : List Nat) : κ :=
  ((List.range tkin.length).map fun (i : Nat) => ((List.range tkin.length).map fun (j : Nat) =>
    ((List.range 2).map fun (σ : Nat) => t2 tkin (i : Int) (j : Int) * sjw2 tkin.length i σ j σ s t).sum).sum).sum +
  ((List.range tkin.length).map fun (i : Nat) => ((List.range tkin.length).map fun (j : Nat) =>
    ((List.range tkin.length).map fun (k : Nat) => ((List.range tkin.length).map fun (l : Nat) =>
      ((List.range 2).map fun (σ : Nat) => ((List.range 2).map fun (τ : Nat) =>
        (c.half * v4 vint (i : Int) (j : Int) (k : Int) (l : Int)) *
          sjw4 tkin.length i σ j τ k σ l τ s t).sum).sum).sum).sum).sum).sum

theorem spinHamEntry_sites (c : Consts κ) (tkin : List (List κ)) (vint : List (List (List (List κ)))) (s t : List Nat)
    (hs : s.length = tkin.length) (ht : t.length = tkin.length) :
    spinHamEntry c tkin vint s t = spinHamEntrySites c tkin vint s t := by
  unfold spinHamEntry spinHamEntrySites
  congr 1
  · apply Ch.sum_map_congr; intro i hi
    apply Ch.sum_map_congr; intro j hj
    apply Ch.sum_map_congr; intro σ hσ
    rw [sjw2_eq _ i σ j σ (List.mem_range.1 hi) (List.mem_range.1 hσ) (List.mem_range.1 hj) (List.mem_range.1 hσ) s t hs ht]
  · apply Ch.sum_map_congr; intro i hi
    apply Ch.sum_map_congr; intro j hj
    apply Ch.sum_map_congr; intro k hk
    apply Ch.sum_map_congr; intro l hl
    apply Ch.sum_map_congr; intro σ hσ
    apply Ch.sum_map_congr; intro τ hτ
    rw [sjw4_eq _ i σ j τ k σ l τ (List.mem_range.1 hi) (List.mem_range.1 hσ) (List.mem_range.1 hj) (List.mem_range.1 hτ)
      (List.mem_range.1 hk) (List.mem_range.1 hσ) (List.mem_range.1 hl) (List.mem_range.1 hτ) s t hs ht]

/-- **The documented operator on `L` sites of dimension 4.**  Whenever `spin_molecular_hamiltonian_mpo(tkin, vint, optimize=True)` returns
for `L ≥ 1`: for all site digit lists `s, t ∈ {0..3}^L`
`⟨s| MPO |t⟩ = Σ_{ij} Σ_σ t_ij ⟨s| a†_{iσ} a_{jσ} |t⟩ + Σ_{ijkl} Σ_{στ} ½ v_ijkl ⟨s| a†_{iσ} a†_{jτ} a_{lτ} a_{kσ} |t⟩`, where `a†_{iσ}`, `a_{iσ}` are the `4^L × 4^L`
Jordan-Wigner matrices `sjwC L i σ`, `sjwA L i σ` over the pair tables (modes ordered `0↑, 0↓, 1↑, 1↓, …`, `Z` string to the right) and the
products are matrix products (sums over `{0..3}^L`); `as_matrix()` (dense and sparse) returns exactly these entries. -/
theorem spin_molecular_chain_sum_jw_sites (c : Consts κ) (tkin : List (List κ)) (vint : List (List (List (List κ))))
    (hL : 1 ≤ (tkin.length : Int)) (b : Built κ) (hb : spinMolBuildOpt c tkin vint = .ok b) :
    MPO.DenseIs (b.mpo.toMPO spinQd) 4 tkin.length (spinHamEntrySites c tkin vint) :=
  (spin_molecular_chain_sum_jw c tkin vint hL b hb).congr fun s t hs ht => spinHamEntry_sites c tkin vint s t hs.1 ht.1

/-- **Unconditional form.**  For every `L = len(tkin) ≥ 1`, well-shaped tensors and at least one chain with non-zero coefficient
(`SpinMolNonzero`, the exact condition for the constructor to return, `optimized_returns`):
`spin_molecular_hamiltonian_mpo(tkin, vint, optimize=True)` returns, and the MPO it returns has `L` sites of dimension 4, the matrix
elements / `as_matrix()` entries of the documented operator -- in both forms, `spinHamEntry` (split digit lists, `2 L` modes) and
`spinHamEntrySites` (`4^L × 4^L` matrices) -- and block-sparse tensors. -/
theorem spin_molecular_total (c : Consts κ) (tkin : List (List κ)) (vint : List (List (List (List κ))))
    (hL : 1 ≤ tkin.length) (hsh : shapesOk tkin vint = true) (hnz : SpinMolNonzero c tkin vint) :
    ∃ b, spinMolBuildOpt c tkin vint = .ok b ∧
      MPO.DenseIs (b.mpo.toMPO spinQd) 4 tkin.length (spinHamEntry c tkin vint) ∧
      MPO.DenseIs (b.mpo.toMPO spinQd) 4 tkin.length (spinHamEntrySites c tkin vint) ∧ b.Sparse := by
  obtain ⟨b, chains, hb, _, _, hsp⟩ := (optimized_dense_total c tkin vint hL hsh).2 hnz
  exact ⟨b, hb, spin_molecular_chain_sum_jw c tkin vint (by omega) b hb,
    spin_molecular_chain_sum_jw_sites c tkin vint (by omega) b hb, hsp⟩

/-! ## non-vacuity -/

/-- non-vacuity of `spin_tables_kron`: the pair `(C, Z)` (`SpinMolecularOID.CZ = 8`, `a†_up` together with the `Z` it puts on the spin-down
mode of the same site): `[2, 0] = C[1,0] · Z[0,0] = 1`, `[3, 1] = C[1,0] · Z[1,1] = -1` -/
example : ((mC, mZ), 8) ∈ oidSinglePairMap ∧ Ch.opEntry (spinMolOpmap : OpMap Int) 8 2 0 = 1 ∧
    Ch.opEntry (spinMolOpmap : OpMap Int) 8 3 1 = -1 := by decide

/-- non-vacuity of `spin_chain_word_jw` / `to_spin_opchain_word`: two spatial orbitals, the hopping chain `a†_{0,dn} a_{1,dn}` (modes 1, 3) is
`C Z A` starting at mode 1; it is converted into `(I, C) (Z, A)` = `[IC, ZA] = [1, 20]` on the two sites -/
example : molHopChain 1 3 (7 : Int) = .ok ⟨[1, 3, -1], [0, 1, 1, 0], 7, 1⟩ ∧
    (toSpinOpchain (⟨[1, 3, -1], [0, 1, 1, 0], 7, 1⟩ : OpChain Int)).map (fun sc => (sc.oids, sc.coeff, sc.istart)) = .ok ([1, 20], 7, 0) := by
  constructor <;> decide

/-- concrete coefficient tensors on two spatial orbitals (no symmetry), with the formal constant `½ := 1` (the statements are linear in
`Consts.half`; with this choice `spinHamEntry` is the operator of the real code for `2 · vint`) -/
def exT : List (List Int) := [[1, 2], [3, -1]]
def exV : List (List (List (List Int))) :=
  [[[[1, 0], [2, 0]], [[0, 3], [0, 1]]], [[[0, -1], [5, 0]], [[2, 0], [0, 7]]]]
def exC : Consts Int := ⟨1, fun _ => 0⟩

/-- the hypotheses of `spin_molecular_total` hold for these tensors -/
theorem ex_hyp : 1 ≤ exT.length ∧ shapesOk exT exV = true ∧ SpinMolNonzero exC exT exV := by
  refine ⟨by decide, by decide +kernel, by decide +kernel⟩

/-- an off-diagonal matrix element of the documented operator: `⟨up dn, 0| H |dn, up⟩ = -4` (row 12, column 6 of the `16 × 16` matrix; the
real code returns the same number for `tkin = exT`, `vint = 2 · exV`) -/
theorem ex_entry_12_6 : spinHamEntry exC exT exV [3, 0] [1, 2] = -4 := by decide +kernel

/-- a diagonal matrix element: all four spin orbitals occupied, `⟨3 3| H |3 3⟩ = 50` -/
theorem ex_entry_15_15 : spinHamEntry exC exT exV [3, 3] [3, 3] = 50 := by decide +kernel

/-- non-vacuity of `spin_molecular_total` / `spin_molecular_chain_sum_jw`: for these tensors the constructor returns an MPO with two sites
whose matrix elements at the two positions above are `-4` and `50` -/
example : ∃ b, spinMolBuildOpt exC exT exV = .ok b ∧ (b.mpo.toMPO spinQd).A.length = 2 ∧
    (b.mpo.toMPO spinQd).elem [3, 0] [1, 2] = -4 ∧ (b.mpo.toMPO spinQd).elem [3, 3] [3, 3] = 50 := by
  obtain ⟨b, hb, hd, _, _⟩ := spin_molecular_total exC exT exV ex_hyp.1 ex_hyp.2.1 ex_hyp.2.2
  refine ⟨b, hb, hd.sites, ?_, ?_⟩
  · rw [hd.elem [3, 0] [1, 2] (by decide) (by decide)]; exact ex_entry_12_6
  · rw [hd.elem [3, 3] [3, 3] (by decide) (by decide)]; exact ex_entry_15_15

/-- non-vacuity of `spin_jordan_wigner_sites` and of the sign convention: two sites, `a†_{0,up} a_{1,up}` as a product of `16 × 16` matrices:
`⟨up, 0| a†_{0↑} a_{1↑} |0, up⟩ = 1`, and with the spin-down orbital of site 0 occupied the `Z` of the string gives
`⟨up dn, 0| a†_{0↑} a_{1↑} |dn, up⟩ = -1` -/
example : sjwC 2 0 0 = [8, 22] ∧ sjwA 2 1 0 = [0, 13] ∧ sjw2 (κ := Int) 2 0 0 1 0 [2, 0] [0, 2] = 1 ∧
    sjw2 (κ := Int) 2 0 0 1 0 [3, 0] [1, 2] = -1 := by
  refine ⟨by decide, by decide, by decide +kernel, by decide +kernel⟩

/-- the same matrix element in the form on sites of dimension 4 -/
example : spinHamEntrySites exC exT exV [3, 0] [1, 2] = -4 := by
  rw [← spinHamEntry_sites exC exT exV _ _ rfl rfl]; exact ex_entry_12_6

end Ptn.C07

import PtnModel.Props.C04
import PtnModel.Proofs.SmallEnv
/-!
# C04 (left blocks) — the loop computing all left environment blocks

`Props/C04.lean` characterises left blocks through the single step `contraction_operator_step_left`
(`left_step_dense`) and the initial block (`left_block_zero_dense`).  `operation.py` has no function computing all
left blocks (its right-hand analogue `compute_right_operator_blocks` is `right_blocks_dense`); the loop

    BL[0] = np.array([[[1]]]);  for i in range(L-1): BL[i+1] = contraction_operator_step_left(A[i], A[i], W[i], BL[i])

lives in `dmrg.py` / `evolution.py`, interleaved with the local updates.  The two functions below are *defined here*
(not in `Model/Operation.lean`): `leftBlockFold ψ o i` iterates the model's `Op.opStepLeft` from `[[[1]]]` over the
sites `0 … i-1`, and `leftBlocks ψ o` is the loop above run over all sites (returning `BL[0 … L]`).

* `left_blocks_dense`      -- for every `i ≤ L` the fold returns (no exception) the dense partial contraction of the sites
  `0 … i-1`;
* `left_blocks_list_dense` -- the loop returns `L + 1` blocks and `BL[i]` is that partial contraction;
* `left_block_full_average` -- consistency: the block over all sites is the expectation value of `operator_average`.
-/
namespace Ptn.C04
open Ptn.Env Finset

variable {R : Type} [CommRing R] [StarRing R]
attribute [local instance] starConj

/-- iterate `contraction_operator_step_left(A[k], A[k], W[k], ·)` from `[[[1]]]` over the sites `k = 0 … i-1`
(defined in this file; the model of `operation.py` has the step only) -/
def leftBlockFold (ψ : MPS R) (o : MPO R) (i : Nat) : Except Err (T3 R) :=
  ((List.zip ψ.A o.A).take i).foldlM (fun E p => Op.opStepLeft p.1 p.1 p.2 E) (MPS.ones111 : T3 R)

/-- the loop `BL[0] = [[[1]]]; BL[k+1] = step(A[k], A[k], W[k], BL[k])` over the site list, returning all blocks -/
def leftBlocksLoop : List (T3 R × T4 R) → T3 R → Except Err (List (T3 R))
  | [], E => .ok [E]
  | p :: rest, E => do
    let E' ← Op.opStepLeft p.1 p.1 p.2 E
    let l ← leftBlocksLoop rest E'
    pure (E :: l)

/-- all left blocks `BL[0 … L]` -/
def leftBlocks (ψ : MPS R) (o : MPO R) : Except Err (List (T3 R)) :=
  leftBlocksLoop (List.zip ψ.A o.A) (MPS.ones111 : T3 R)

theorem ok_bind' {ε α β : Type} (a : α) (f : α → Except ε β) : ((Except.ok a : Except ε α) >>= f) = f a := rfl

/-- **All left blocks (fold form).**  For shaped operands and every `i ≤ L`, iterating
`contraction_operator_step_left` from the initial block `[[[1]]]` over the sites `0 … i-1` raises no exception and
gives the dense partial contraction (bra, operator, ket) of these sites. -/
theorem left_blocks_dense {ψ : MPS R} {o : MPO R} {d : Nat} (hψ : MPS.Shaped ψ d) (ho : MPO.Shaped o d)
    (hL : ψ.A.length = o.A.length) (i : Nat) (hi : i ≤ ψ.A.length) :
    ∃ E, leftBlockFold ψ o i = .ok E ∧ IsLeftBlock ψ o d i E := by
  induction i with
  | zero => exact ⟨MPS.ones111, rfl, left_block_zero_dense hψ ho hL⟩
  | succ i ih =>
    obtain ⟨E, hE, hblk⟩ := ih (by omega)
    have hi' : i < ψ.A.length := by omega
    have hio : i < o.A.length := hL ▸ hi'
    have hA : ψ.A[i]? = some ψ.A[i] := List.getElem?_eq_getElem hi'
    have hW : o.A[i]? = some o.A[i] := List.getElem?_eq_getElem hio
    obtain ⟨T, hT, hTblk⟩ := left_step_dense hψ ho hL hi' hA hW hblk
    refine ⟨T, ?_, hTblk⟩
    have hz : (List.zip ψ.A o.A)[i]? = some (ψ.A[i], o.A[i]) := by
      rw [List.getElem?_zip_eq_some]; exact ⟨hA, hW⟩
    unfold leftBlockFold at hE ⊢
    rw [List.take_add_one, hz, Option.toList_some, List.foldlM_append, hE, ok_bind']
    simp only [List.foldlM_cons, List.foldlM_nil]
    rw [hT]; rfl

theorem leftBlocksLoop_spec (l : List (T3 R × T4 R)) : ∀ (E : T3 R),
    (∀ i, i ≤ l.length → ∃ Ei, (l.take i).foldlM (fun E p => Op.opStepLeft p.1 p.1 p.2 E) E = .ok Ei) →
    ∃ BL, leftBlocksLoop l E = .ok BL ∧ BL.length = l.length + 1 ∧
      ∀ i, i ≤ l.length → ∀ Ei, (l.take i).foldlM (fun E p => Op.opStepLeft p.1 p.1 p.2 E) E = .ok Ei →
        BL[i]? = some Ei := by
  induction l with
  | nil =>
    intro E _
    refine ⟨[E], rfl, rfl, ?_⟩
    intro i hi Ei h
    have : i = 0 := by simpa using hi
    subst this
    simp only [List.take_nil, List.foldlM_nil] at h
    cases h
    rfl
  | cons p rest ih =>
    intro E h
    obtain ⟨E1, hE1⟩ := h 1 (by simp)
    have hstep : Op.opStepLeft p.1 p.1 p.2 E = .ok E1 := by
      simp only [List.take_succ_cons, List.take_zero, List.foldlM_cons, List.foldlM_nil] at hE1
      cases hs : Op.opStepLeft p.1 p.1 p.2 E with
      | error e => rw [hs] at hE1; cases hE1
      | ok E' => rw [hs] at hE1; cases hE1; rfl
    have hrest : ∀ i Ei, ((p :: rest).take (i + 1)).foldlM (fun E p => Op.opStepLeft p.1 p.1 p.2 E) E = .ok Ei ↔
        (rest.take i).foldlM (fun E p => Op.opStepLeft p.1 p.1 p.2 E) E1 = .ok Ei := by
      intro i Ei
      rw [List.take_succ_cons, List.foldlM_cons, hstep, ok_bind']
    obtain ⟨BL, hBL, hlen, hget⟩ := ih E1 (by
      intro i hi
      obtain ⟨Ei, hEi⟩ := h (i + 1) (by simpa using hi)
      exact ⟨Ei, (hrest i Ei).1 hEi⟩)
    refine ⟨E :: BL, ?_, by simp [hlen], ?_⟩
    · rw [leftBlocksLoop, hstep, ok_bind', hBL]; rfl
    · intro i hi Ei hEi
      cases i with
      | zero =>
        simp only [List.take_zero, List.foldlM_nil] at hEi
        cases hEi
        rfl
      | succ i =>
        rw [List.getElem?_cons_succ]
        exact hget i (by simpa using hi) Ei ((hrest i Ei).1 hEi)

/-- **All left blocks (list form).**  For shaped operands the loop `BL[0] = [[[1]]]`,
`BL[k+1] = contraction_operator_step_left(A[k], A[k], W[k], BL[k])` raises no exception, returns `L + 1` blocks, and
`BL[i]` is the dense partial contraction of the sites `0 … i-1` (the mirror image of `right_blocks_dense`). -/
theorem left_blocks_list_dense {ψ : MPS R} {o : MPO R} {d : Nat} (hψ : MPS.Shaped ψ d) (ho : MPO.Shaped o d)
    (hL : ψ.A.length = o.A.length) :
    ∃ BL, leftBlocks ψ o = .ok BL ∧ BL.length = ψ.A.length + 1 ∧
      ∀ i, i ≤ ψ.A.length → ∃ E, BL[i]? = some E ∧ IsLeftBlock ψ o d i E := by
  have hzl : (List.zip ψ.A o.A).length = ψ.A.length := by simp [List.length_zip, hL]
  obtain ⟨BL, hBL, hlen, hget⟩ := leftBlocksLoop_spec (List.zip ψ.A o.A) (MPS.ones111 : T3 R) (by
    intro i hi
    obtain ⟨E, hE, _⟩ := left_blocks_dense hψ ho hL i (hzl ▸ hi)
    exact ⟨E, hE⟩)
  refine ⟨BL, hBL, by rw [hlen, hzl], ?_⟩
  intro i hi
  obtain ⟨E, hE, hblk⟩ := left_blocks_dense hψ ho hL i hi
  exact ⟨E, hget i (hzl ▸ hi) E hE, hblk⟩

/-- consistency with (b): the left block over *all* sites holds the expectation value of `operator_average` -/
theorem left_block_full_average {ψ : MPS R} {o : MPO R} {d : Nat} (hψ : MPS.Shaped ψ d) (ho : MPO.Shaped o d)
    (hL : ψ.A.length = o.A.length) {E : T3 R} (hE : IsLeftBlock ψ o d ψ.A.length E) :
    E.f 0 0 0 = ∑ s ∈ digitsU d ψ.A.length, ∑ t ∈ digitsU d ψ.A.length, star (ψ.amp s) * o.elem s t * ψ.amp t := by
  have b3 : mpsBond ψ ψ.A.length = 1 := bond3_length_of_chain hψ.2
  have b4 : mpoBond o ψ.A.length = 1 := by
    have := bond4_length_of_chain ho.2
    rw [hL]; exact this
  rw [hE.2.2.2 0 0 0 (by omega) (by omega) (by omega)]
  refine Finset.sum_congr rfl fun s _ => Finset.sum_congr rfl fun t _ => ?_
  have e1 : o.A.take ψ.A.length = o.A := by rw [hL, List.take_length]
  simp only [ampPrefix, elemPrefix, List.take_length, e1, MPS.amp, MPO.elem]
  ring

/-! ### non-vacuity -/

/-- on `χ₀` (bond dimension 2) and `o₀` (bond dimension 2) of `Props/C04.lean`: the loop returns three blocks, and the
block over all sites holds the expectation value `⟨χ₀| o₀ |χ₀⟩ = 8` (cf. `average_dense`'s example) -/
example : MPS.Shaped χ₀ 2 ∧ MPO.Shaped o₀ 2 ∧
    (leftBlocks χ₀ o₀).toOption.map (fun BL => (BL.length, BL.map (fun E => (E.d0, E.d1, E.d2)), (BL.getD 2 MPS.ones111).f 0 0 0))
      = some (3, [(1, 1, 1), (2, 2, 2), (1, 1, 1)], 8) := by
  refine ⟨by decide, by decide, by decide⟩

end Ptn.C04

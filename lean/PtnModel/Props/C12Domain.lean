import PtnModel.Props.C12Rule
/-!
# Property C12: why the tolerance lives in `[0, 1)`

`rule_tol_ge_one`: for `tol ≥ 1` the truncation rule discards EVERY singular value -- the whole spectrum has relative weight
one, so no cumulative weight exceeds the tolerance.  With `tol ≥ 1` `split_matrix_svd` therefore returns an intermediate bond
of dimension zero for a non-zero matrix (`compress(tol ≥ 1)` collapses a bond, the two-site drivers raise): the domain of
C12 / C13 / C02 / C08 / C10 is `0 ≤ tol < 1`, as the property says.
-/
set_option linter.unusedSectionVars false
namespace Ptn.C12
open Ptn.BondOps

variable {ρ : Type} [Field ρ] [LinearOrder ρ] [IsStrictOrderedRing ρ]
variable (dnorm : List ρ → ρ) (dargsort : List ρ → List Nat) (s : List ρ) (tol : ρ)

theorem wsum_eq' (w : ρ) (l : List Nat) : wsum (normSq s w) l = weightOf s w l := by
  unfold wsum weightOf
  congr 1
  exact List.map_congr_left fun i _ => normSq_getD s w i

theorem discardedOf_eq' (hw : dnorm s ≠ 0) :
    discardedOf (normSq s (dnorm s)) (dargsort (normSq s (dnorm s))) tol =
      discardedIdx s (retainedBondIndices dnorm dargsort s tol) := by
  unfold discardedOf discardedIdx
  rw [retainedBondIndices_of_ne _ _ _ _ hw, normSq_length]

theorem rule_tol_ge_one (hnorm : NormContract s (dnorm s))
    (hsort : SortContract (sortKeys s (dnorm s)) (dargsort (sortKeys s (dnorm s)))) (h1 : 1 ≤ tol) :
    retainedBondIndices dnorm dargsort s tol = [] := by
  by_cases hw : dnorm s = 0
  · exact retainedBondIndices_of_eq _ _ _ _ hw
  · rw [List.eq_nil_iff_forall_not_mem]
    intro i hi
    have hmax := rule_maximal dnorm dargsort s tol hsort i hi
    have hsum := wsum_kept_add_discarded (normSq s (dnorm s)) (dargsort (normSq s (dnorm s))) tol
    rw [normSq_sum s _ hw hnorm.2, discardedOf_eq' _ _ _ _ hw, wsum_eq', wsum_eq',
      ← retainedBondIndices_of_ne _ _ _ _ hw] at hsum
    have hle : relWeight s (dnorm s) i ≤ weightOf s (dnorm s) (retainedBondIndices dnorm dargsort s tol) := by
      unfold weightOf
      exact List.single_le_sum (fun x hx => by
        obtain ⟨j, _, rfl⟩ := List.mem_map.1 hx
        exact sq_nonneg _) _ (List.mem_map.2 ⟨i, hi, rfl⟩)
    linarith

/-- non-vacuity: `s = (3, 0, 4, 0)`, `tol = 1`: nothing is kept (with `tol = 9/10` index `2` is) -/
example : ∃ (dnorm : List ℚ → ℚ) (dargsort : List ℚ → List ℕ) (s : List ℚ),
    NormContract s (dnorm s) ∧ SortContract (sortKeys s (dnorm s)) (dargsort (sortKeys s (dnorm s))) ∧
    retainedBondIndices dnorm dargsort s 1 = [] ∧ retainedBondIndices dnorm dargsort s (9 / 10) ≠ [] :=
  ⟨fun _ => 5, fun _ => [3, 1, 0, 2], [3, 0, 4, 0], by unfold NormContract; decide +kernel,
    by unfold SortContract sortKeys; decide +kernel, by decide +kernel, by decide +kernel⟩

end Ptn.C12

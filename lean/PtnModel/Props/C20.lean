import PtnModel.Proofs.HamBound
import PtnModel.Proofs.HamSimplify
import PtnModel.Proofs.ChainExamples
/-!
# Property C20 (compiled Hamiltonian MPOs are as compact as the operator allows)

"For generic non-zero parameters the MPOs produced for the built-in models through the chain, automaton and optimized
molecular constructions have, at every cut, a bond dimension equal to the operator Schmidt rank of the dense operator
across that cut, for every lattice size.  For arbitrary chain lists the bond dimension at any cut never exceeds the number
of chains with non-zero coefficient, and simplifying a graph never increases any bond dimension."

Statements are about the executable model of `OpGraph.from_opchains` / `simplify` (`Model/OpGraph.lean`, by the opgraph
engineer) and the bookkeeping functions `chainsInitState`, `sweepCounts`, `siteNodeCounts`, `graphWidths` of
`Model/Hamiltonian.lean`.  The bond dimension of the compiled MPO at cut `k` is the number of graph nodes in layer `k`
(`MPO.from_opgraph` makes one bond index per node); `from_opchains` creates the nodes of layer `k + 1` in round `k` of its
sweep (`nid_next` increments).  `./check C20` compares, on every case, `MPO.bond_dims` of the real code with the layer
widths of the model graph *and* with the per-round node counts (`site_counts = widths[1:] = bond_dims[1:]`).

* `chain_bound_partial` -- for every chain list, every lattice size and every round of the sweep, the number of nodes the round
  creates is at most the number of chains with non-zero coefficient.  Ingredients: the half-chains carried after `k` rounds are
  `k`-th suffixes of the initial ones; the new nodes are the vertices of the cover returned by `minimum_vertex_cover`, whose
  number equals the size of the Hopcroft-Karp matching (`Ptn.C18.cover_valid_and_size`) and hence is at most the number of
  `V` vertices, which are pairwise different suffixes.  *Partial*: that the nodes created in round `k` are exactly layer `k+1`
  of the returned graph (i.e. `siteNodeCounts = (graphWidths g).tail`) is not proved; it is validated on every correspondence case.
* `chain_bound_applies` -- every successful `from_opchains` run is a run of the counted sweep (so the bound is not vacuous).
* `simplify_mono_partial` -- `simplify` never creates or renames a node or an edge: the node ids after `simplify` are a sublist of
  those before, so for *every* assignment of node ids to layers no layer gains a node, and the total numbers of nodes and
  edges do not grow.  *Partial*: that a surviving node keeps its layer (distance from the start terminal) is not proved.

The first sentence (bond dimension = operator Schmidt rank for generic parameters) is a statement about numerical rank for
generic reals and is covered by the search oracle only.
-/
set_option linter.unusedSectionVars false

namespace Ptn.C20
open Ptn Ptn.Og Ptn.Ham

variable {κ : Type} [CommRing κ] [DecidableEq κ]

/-- **Bond dimension ≤ number of non-zero chains (per sweep round).**  If the counted sweep of
`from_opchains(chains, L, id)` returns the per-round node counts `counts`, there is one count per site and each is at most the
number of chains with non-zero coefficient.  No hypothesis on the chains (charged or not, duplicates, cancelling pairs). -/
theorem chain_bound_partial (chains : List (OpChain κ)) (L id : Int) (counts : List Nat)
    (h : siteNodeCounts chains L id = .ok counts) :
    counts.length = L.toNat ∧ ∀ c ∈ counts, c ≤ (chains.filter fun c => c.coeff != 0).length := by
  unfold siteNodeCounts at h
  simp only [Ptn.Ch.bind_ok_iff, Ptn.Ch.pure_ok_iff] at h
  obtain ⟨s0, hs0, ⟨s, cs⟩, hsw, h⟩ := h
  simp only at h
  subst h
  obtain ⟨hl, hb, _⟩ := sweepCounts_bound s0 L.toNat s cs hsw
  rw [chainsInitState_length chains L id s0 hs0] at hb
  exact ⟨hl, hb⟩

/-- every successful `from_opchains` run is covered by `chain_bound_partial` -/
theorem chain_bound_applies (chains : List (OpChain κ)) (L id : Int) (g : Graph κ)
    (h : fromOpchains chains L id = .ok g) :
    ∃ counts, siteNodeCounts chains L id = .ok counts ∧ counts.length = L.toNat ∧
      ∀ c ∈ counts, c ≤ (chains.filter fun c => c.coeff != 0).length := by
  obtain ⟨counts, hc⟩ := fromOpchains_counts chains L id g h
  exact ⟨counts, hc, chain_bound_partial chains L id counts hc⟩

/-- one round of the sweep: the general invariant behind the bound -/
theorem site_step_bound (orig : List HalfChain) (k : Nat) (s s' : ChState κ)
    (hinv : ∀ h ∈ s.vlistNext, IsSuffix k orig h) (h : siteStep s = .ok s') :
    s.nidNext ≤ s'.nidNext ∧ (s'.nidNext - s.nidNext).toNat ≤ orig.length ∧
    ∀ h ∈ s'.vlistNext, IsSuffix (k + 1) orig h :=
  siteStep_bound orig k s s' hinv h

/-- non-vacuity: the successful run `from_opchains([3 · op₅], 1, 0)` of C05's examples is covered: its single round creates at
most one node -/
example : ∃ counts, siteNodeCounts Ptn.Ch.exChains 1 0 = .ok counts ∧ counts.length = 1 ∧
    ∀ c ∈ counts, c ≤ (Ptn.Ch.exChains.filter fun c => c.coeff != 0).length :=
  chain_bound_applies _ _ _ _ Ptn.Ch.ex_from

/-- **`simplify` never increases a layer population.**  The node (edge) ids after `simplify` form a sublist of the node (edge)
ids before; hence for every layer assignment `lev` and every layer `l` the number of nodes of layer `l` does not grow, and
neither do the total numbers of nodes and edges. -/
theorem simplify_mono_partial (g g' : Graph κ) (h : g.simplify = .ok g') :
    (dKeys g'.nodes).Sublist (dKeys g.nodes) ∧ (dKeys g'.edges).Sublist (dKeys g.edges) ∧
    g'.nodes.length ≤ g.nodes.length ∧ g'.edges.length ≤ g.edges.length ∧
    ∀ (lev : Int → Nat) (l : Nat),
      ((dKeys g'.nodes).filter fun nid => lev nid == l).length ≤ ((dKeys g.nodes).filter fun nid => lev nid == l).length := by
  have s := simplify_shrinks g g' h
  refine ⟨s.1, s.2, ?_, ?_, fun lev l => simplify_layer_count g g' h lev l⟩
  · simpa [dKeys] using s.1.length_le
  · simpa [dKeys] using s.2.length_le

/-- `merge_edges`, the single rewrite step of `simplify`, already has this property -/
theorem merge_edges_mono (g g' : Graph κ) (eid1 eid2 : Int) (d : Bool) (h : g.mergeEdges eid1 eid2 d = .ok g') :
    (dKeys g'.nodes).Sublist (dKeys g.nodes) ∧ (dKeys g'.edges).Sublist (dKeys g.edges) :=
  mergeEdges_shrinks g g' eid1 eid2 d h

end Ptn.C20

import PtnModel.Proofs.KryArnoldi
/-!
# C14 — Lanczos and Arnoldi iterations satisfy their Krylov factorisation relations

Property (properties.jsonl): *For a Hermitian map and a starting vector whose Krylov space has at least the requested
dimension, the Lanczos iteration returns orthonormal vectors, real coefficients with positive off-diagonals, and the
projected map equals the returned tridiagonal matrix; the Arnoldi iteration does the same for a general map with an
upper Hessenberg matrix.  If the Krylov space is exhausted earlier the call still returns without error, with mutually
consistent output sizes (possibly shortened), and the relations hold for the leading part up to the exhaustion point.*

Model: `Ptn.Krylov.lanczos`, `Ptn.Krylov.arnoldi` (`PtnModel/Model/Krylov.lean`), tied to `pytenet/krylov.py` by the
correspondence of `harness/props/c14.py`.  Scalars: any `RCLike 𝕜` (ℝ and ℂ), exact arithmetic.
Vectors are lists read through `vget`; `vdot n x y = ∑_{i<n} conj(x_i) y_i` is `np.vdot`;
`matCol V c` is column `c` of the returned matrix.

Kernel contract (hypothesis, not axiom): `NormContract dnorm` — `np.linalg.norm` returns the non-negative square
root of the sum of squared moduli.  The map `Afun` is only assumed Hermitian w.r.t. `vdot` on vectors of length `n`
(`IsHermitian`; satisfied by `x ↦ A @ x` for every Hermitian matrix: `isHermitian_matvec`); linearity is not needed.

The theorems hold for *whatever the call returns*: the full run (`k = numiter` vectors) and the shortened result after
a breakdown (`k < numiter`) alike — all `k` returned vectors are orthonormal and the projected map on them is the
returned `k × k` matrix, so "the relations hold for the leading part up to the exhaustion point" is the case `k < numiter`
of `lanczos_relations` / `arnoldi_relations`.  `lanczos_full` / `arnoldi_full` say that the result is shortened only
if a residual norm fell below the threshold `100 n 2^-52`.

F11 (repair of `krylov.py`, mirrored in the model): both iterations start with `numiter = min(numiter, len(vstart))`.
The run therefore never returns more than `n = len(vstart)` vectors (`lanczos_le_dim`, `arnoldi_le_dim`), a call with
`numiter > n` *is* the call with `numiter = n` (`lanczos_capped`, `arnoldi_capped`), "full size" means
`min numiter n` vectors (`lanczos_full`, `arnoldi_full`; for `numiter ≤ n`, the quantifier of the property, this is
`numiter`: `lanczos_full_le`, `arnoldi_full_le`), and the allocation errors of `numiter = 0` are those of the capped count.
-/
set_option linter.unusedSectionVars false

namespace Ptn.C14
open Ptn Ptn.Krylov

section shapes
variable {α ρ : Type} [OfNat α 0] [Add α] [Mul α] [Sub α] [Div α] [HasConj α] [RealLike ρ α]
  [OfNat ρ 0] [NatCast ρ] [Div ρ] [LT ρ] [DecidableLT ρ]
variable (Afun : List α → List α) (dnorm : List α → ρ)

/-- **Sizes (Lanczos)**, for every scalar type and every norm oracle: the outputs have mutually consistent sizes
`alpha : k`, `beta : k - 1`, `V : n × k` with `1 ≤ k ≤ numiter` (full run and early return). -/
theorem lanczos_shapes {vstart : List α} {numiter : Nat} {alpha beta : List ρ} {V : Mat α}
    (h : lanczos Afun dnorm vstart numiter = .ok (alpha, beta, V)) :
    1 ≤ alpha.length ∧ alpha.length ≤ numiter ∧ beta.length = alpha.length - 1 ∧
      V.m = vstart.length ∧ V.n = alpha.length := lanczos_sizes Afun dnorm h

/-- **The call returns** exactly when the start vector has positive norm, `numiter ≥ 1` and the vector is not empty
(for a norm oracle satisfying the contract the last condition follows from the first: `lanczos_returns_contract`);
otherwise it raises `AssertionError` (`assert nrmv > 0`) resp. `ValueError` (`np.zeros(-1)` for the capped count `0`).
In particular an exhausted Krylov space never makes the call fail. -/
theorem lanczos_returns {vstart : List α} {numiter : Nat} (h0 : 0 < dnorm vstart) (hm : 1 ≤ numiter)
    (hn : 1 ≤ vstart.length) : ∃ r, lanczos Afun dnorm vstart numiter = .ok r := lanczos_isOk Afun dnorm h0 hm hn

/-- the only exceptions.  After F11 the `ValueError` belongs to the capped count `min numiter (len vstart) = 0`:
`numiter = 0`, or an empty start vector for which the norm oracle (against its contract) reports a positive norm. -/
theorem lanczos_raises {vstart : List α} {numiter : Nat} {e : Err}
    (h : lanczos Afun dnorm vstart numiter = .error e) :
    (e = .assertion ∧ ¬ 0 < dnorm vstart) ∨ (e = .value ∧ (numiter = 0 ∨ vstart.length = 0)) :=
  lanczos_error Afun dnorm h

/-- both error branches are taken: the capped count `0` raises `ValueError` as soon as the assertion passes -/
theorem lanczos_zero_raises {vstart : List α} {numiter : Nat} (h0 : 0 < dnorm vstart)
    (hz : numiter = 0 ∨ vstart.length = 0) : lanczos Afun dnorm vstart numiter = .error .value := by
  have hm : min numiter vstart.length = 0 := by omega
  unfold lanczos lanczosCore lanczosCoreU
  simp [pyAssert, h0, hm, bind, Except.bind, throw, throwThe, MonadExceptOf.throw]

/-- **F11: the cap.**  The call with `numiter` iterations is the call with `min numiter (len vstart)` iterations -/
theorem lanczos_capped (vstart : List α) (numiter : Nat) :
    lanczos Afun dnorm vstart numiter = lanczos Afun dnorm vstart (min numiter vstart.length) :=
  lanczos_capped' Afun dnorm vstart numiter

/-- **F11: never more vectors than the dimension of the vector space** -/
theorem lanczos_le_dim {vstart : List α} {numiter : Nat} {alpha beta : List ρ} {V : Mat α}
    (h : lanczos Afun dnorm vstart numiter = .ok (alpha, beta, V)) :
    V.n ≤ vstart.length ∧ alpha.length ≤ vstart.length := lanczos_le_length Afun dnorm h

/-- **Sizes (Arnoldi)**, for every scalar type and every norm oracle: `H : k × k`, `V : n × k`, `1 ≤ k ≤ numiter`. -/
theorem arnoldi_shapes {vstart : List α} {numiter : Nat} {H V : Mat α}
    (h : arnoldi Afun dnorm vstart numiter = .ok (H, V)) :
    1 ≤ H.m ∧ H.m ≤ numiter ∧ H.n = H.m ∧ V.m = vstart.length ∧ V.n = H.m := by
  obtain ⟨st, hc, rfl, rfl⟩ := arnoldi_ok Afun dnorm h
  obtain ⟨k, h1, h2, ha, hb, hv⟩ := arnoldiCore_sized Afun dnorm hc
  exact ⟨by simp [hessMat, ha]; omega, by simp [hessMat, ha]; omega, rfl, rfl, by simp [colsMat, hessMat, hv, ha]⟩

theorem arnoldi_returns {vstart : List α} {numiter : Nat} (h0 : 0 < dnorm vstart) (hm : 1 ≤ numiter)
    (hn : 1 ≤ vstart.length) : ∃ r, arnoldi Afun dnorm vstart numiter = .ok r := arnoldi_isOk Afun dnorm h0 hm hn

/-- after F11 the `IndexError` of `V[0] = vstart` belongs to the capped count `min numiter (len vstart) = 0` -/
theorem arnoldi_raises {vstart : List α} {numiter : Nat} {e : Err}
    (h : arnoldi Afun dnorm vstart numiter = .error e) :
    (e = .assertion ∧ ¬ 0 < dnorm vstart) ∨ (e = .index ∧ (numiter = 0 ∨ vstart.length = 0)) :=
  arnoldi_error Afun dnorm h

theorem arnoldi_zero_raises {vstart : List α} {numiter : Nat} (h0 : 0 < dnorm vstart)
    (hz : numiter = 0 ∨ vstart.length = 0) : arnoldi Afun dnorm vstart numiter = .error .index := by
  have hm : min numiter vstart.length = 0 := by omega
  unfold arnoldi arnoldiCore arnoldiCoreU
  simp [pyAssert, h0, hm, bind, Except.bind, throw, throwThe, MonadExceptOf.throw]

/-- **F11: the cap (Arnoldi)** -/
theorem arnoldi_capped (vstart : List α) (numiter : Nat) :
    arnoldi Afun dnorm vstart numiter = arnoldi Afun dnorm vstart (min numiter vstart.length) :=
  arnoldi_capped' Afun dnorm vstart numiter

/-- **F11: never more vectors than the dimension (Arnoldi)** -/
theorem arnoldi_le_dim {vstart : List α} {numiter : Nat} {H V : Mat α}
    (h : arnoldi Afun dnorm vstart numiter = .ok (H, V)) : V.n ≤ vstart.length ∧ H.m ≤ vstart.length :=
  arnoldi_le_length Afun dnorm h

end shapes

variable {𝕜 : Type} [RCLike 𝕜]

/-- under the norm contract a vector of positive norm is not empty, so the call returns whenever the start vector has
positive norm and `numiter ≥ 1` -/
theorem lanczos_returns_contract {Afun : List 𝕜 → List 𝕜} {dnorm : List 𝕜 → ℝ} (hN : NormContract dnorm)
    {vstart : List 𝕜} {numiter : Nat} (h0 : 0 < dnorm vstart) (hm : 1 ≤ numiter) :
    ∃ r, lanczos Afun dnorm vstart numiter = .ok r := lanczos_returns Afun dnorm h0 hm (hN.pos_dim h0)

theorem arnoldi_returns_contract {Afun : List 𝕜 → List 𝕜} {dnorm : List 𝕜 → ℝ} (hN : NormContract dnorm)
    {vstart : List 𝕜} {numiter : Nat} (h0 : 0 < dnorm vstart) (hm : 1 ≤ numiter) :
    ∃ r, arnoldi Afun dnorm vstart numiter = .ok r := arnoldi_returns Afun dnorm h0 hm (hN.pos_dim h0)

/-- **Lanczos relations.**  Under the norm contract, for a Hermitian map, whatever `lanczos_iteration` returns
(`k` columns, `k = numiter` or shortened by a breakdown):
* the first column is the normalised start vector,
* the columns of `V` are orthonormal,
* the off-diagonal coefficients are positive (indeed at least the breakdown threshold); `alpha`, `beta` are real by type,
* the projected map is the returned tridiagonal matrix: `⟪v_a, A v_b⟫ = T[a, b]` for all `a, b < k`. -/
theorem lanczos_relations {Afun : List 𝕜 → List 𝕜} {dnorm : List 𝕜 → ℝ} (hN : NormContract dnorm)
    {vstart : List 𝕜} {numiter : Nat} (hA : IsHermitian vstart.length Afun)
    {alpha beta : List ℝ} {V : Mat 𝕜} (h : lanczos Afun dnorm vstart numiter = .ok (alpha, beta, V)) :
    matCol V 0 = vdiv vstart.length vstart (RealLike.ofReal (dnorm vstart)) ∧
    (∀ a b, a < V.n → b < V.n → vdot V.m (matCol V a) (matCol V b) = if a = b then 1 else 0) ∧
    (∀ i, i < beta.length → 0 < beta.getD i 0 ∧ breakdownThr ℝ vstart.length ≤ beta.getD i 0) ∧
    (∀ a b, a < V.n → b < V.n →
      vdot V.m (matCol V a) (Afun (matCol V b)) = ((tridiag alpha beta a b : ℝ) : 𝕜)) := by
  obtain ⟨st, hc, rfl, rfl, rfl⟩ := lanczos_ok Afun dnorm h
  obtain ⟨k, _, hf⟩ := lanczosCore_fin hN hA hc
  obtain ⟨h0, _, _⟩ := lanczosCore_ok Afun dnorm hc
  have hn : 0 < vstart.length := hN.pos_dim (of_decide_eq_true h0)
  have hVn : (colsMat vstart.length st.V).n = k := hf.sized.2.2
  have hcol : ∀ c, c < k → matCol (colsMat vstart.length st.V) c = st.vec c :=
    fun c hc' => matCol_colsMat st.V c (hf.len c hc')
  refine ⟨?_, ?_, ?_, ?_⟩
  · rw [hcol 0 hf.kpos]; exact lanczosCore_first Afun dnorm hc
  · intro a b ha hb
    rw [hVn] at ha hb
    rw [hcol a ha, hcol b hb]
    exact hf.orth a b ha hb
  · intro i hi
    have hi' : i + 1 < k := by have := hf.sized.2.1; omega
    have := hf.bpos i hi'
    exact ⟨lt_of_lt_of_le (breakdownThr_pos hn) this, this⟩
  · intro a b ha hb
    rw [hVn] at ha hb
    rw [hcol a ha, hcol b hb]
    exact hf.proj hA ha hb

/-- **Full size unless breakdown.**  If fewer than `min numiter n` vectors are returned (F11: the count is capped at
`n = len(vstart)`), then the norm of the last residual
`A v_{k-1} - alpha_{k-1} v_{k-1} - beta_{k-2} v_{k-2}` is below the threshold `100 n 2^-52`; contrapositive: as long as
all residual norms stay at or above the threshold (no breakdown), `min numiter n` vectors are returned. -/
theorem lanczos_full {Afun : List 𝕜 → List 𝕜} {dnorm : List 𝕜 → ℝ} (hN : NormContract dnorm)
    {vstart : List 𝕜} {numiter : Nat} (hA : IsHermitian vstart.length Afun)
    {alpha beta : List ℝ} {V : Mat 𝕜} (h : lanczos Afun dnorm vstart numiter = .ok (alpha, beta, V))
    (hk : V.n < min numiter vstart.length) :
    dnorm (lanczosResidual Afun alpha beta V (V.n - 1)) < breakdownThr ℝ vstart.length := by
  obtain ⟨st, hc, rfl, rfl, rfl⟩ := lanczos_ok Afun dnorm h
  obtain ⟨k, _, hf⟩ := lanczosCore_fin hN hA hc
  have hVn : (colsMat vstart.length st.V).n = k := hf.sized.2.2
  have hal : st.alpha.length = k := hf.sized.1
  have hcol : ∀ c, c < k → matCol (colsMat vstart.length st.V) c = st.vec c :=
    fun c hc' => matCol_colsMat st.V c (hf.len c hc')
  have hs := lanczosCore_short Afun dnorm hc (by rw [hal, ← hVn]; exact hk)
  have hk1 := hf.kpos
  rw [hVn]
  rw [hal] at hs
  have e := lanczosResidual_eq hf
  rw [e]; exact hs

/-- `lanczos_full` for `numiter ≤ n` (the quantifier of the property: a Krylov space of dimension `≥ numiter` lives in a
space of dimension `≥ numiter`): fewer than `numiter` vectors only after a residual below the threshold -/
theorem lanczos_full_le {Afun : List 𝕜 → List 𝕜} {dnorm : List 𝕜 → ℝ} (hN : NormContract dnorm)
    {vstart : List 𝕜} {numiter : Nat} (hA : IsHermitian vstart.length Afun)
    {alpha beta : List ℝ} {V : Mat 𝕜} (h : lanczos Afun dnorm vstart numiter = .ok (alpha, beta, V))
    (hle : numiter ≤ vstart.length) (hk : V.n < numiter) :
    dnorm (lanczosResidual Afun alpha beta V (V.n - 1)) < breakdownThr ℝ vstart.length :=
  lanczos_full hN hA h (by omega)

/-- the Gram–Schmidt residual of `A v_j` against `v_0 … v_j`, from the returned data -/
noncomputable def arnoldiResidual (Afun : List 𝕜 → List 𝕜) (V : Mat 𝕜) (j : Nat) : List 𝕜 :=
  (mgs V.m ((List.range (j + 1)).map (matCol V)) (Afun (matCol V j))).1

/-- **Arnoldi relations.**  Under the norm contract, for an *arbitrary* map, whatever `arnoldi_iteration` returns
(`k` columns, `k = numiter` or shortened by a breakdown):
* the first column is the normalised start vector,
* the columns of `V` are orthonormal,
* `H` is upper Hessenberg with real positive subdiagonal (at least the breakdown threshold),
* the projected map is the returned matrix: `⟪v_a, A v_b⟫ = H[a, b]` for all `a, b < k`. -/
theorem arnoldi_relations {Afun : List 𝕜 → List 𝕜} {dnorm : List 𝕜 → ℝ} (hN : NormContract dnorm)
    {vstart : List 𝕜} {numiter : Nat} {H V : Mat 𝕜} (h : arnoldi Afun dnorm vstart numiter = .ok (H, V)) :
    matCol V 0 = vdiv vstart.length vstart (RealLike.ofReal (dnorm vstart)) ∧
    (∀ a b, a < V.n → b < V.n → vdot V.m (matCol V a) (matCol V b) = if a = b then 1 else 0) ∧
    (∀ a b, b + 1 < a → H.f a b = 0) ∧
    (∀ b, b + 1 < H.m → ∃ s : ℝ, H.f (b + 1) b = (s : 𝕜) ∧ 0 < s ∧ breakdownThr ℝ vstart.length ≤ s) ∧
    (∀ a b, a < V.n → b < V.n → vdot V.m (matCol V a) (Afun (matCol V b)) = H.f a b) := by
  obtain ⟨st, hc, rfl, rfl⟩ := arnoldi_ok Afun dnorm h
  obtain ⟨k, _, hf⟩ := arnoldiCore_fin hN hc
  obtain ⟨h0, _, _⟩ := arnoldiCore_ok Afun dnorm hc
  have hn : 0 < vstart.length := hN.pos_dim (of_decide_eq_true h0)
  have hVn : (colsMat vstart.length st.V).n = k := hf.sized.2.2
  have hHm : (hessMat st.cols st.sub : Mat 𝕜).m = k := hf.sized.1
  have hcol : ∀ c, c < k → matCol (colsMat vstart.length st.V) c = st.vec c :=
    fun c hc' => matCol_colsMat st.V c (hf.len c hc')
  refine ⟨?_, ?_, ?_, ?_, ?_⟩
  · rw [hcol 0 hf.kpos]; exact arnoldiCore_first Afun dnorm hc
  · intro a b ha hb
    rw [hVn] at ha hb
    rw [hcol a ha, hcol b hb]
    exact hf.orth a b ha hb
  · intro a b hab
    show (if a ≤ b then _ else if a = b + 1 then _ else (0 : 𝕜)) = 0
    rw [if_neg (by omega), if_neg (by omega)]
  · intro b hb
    rw [hHm] at hb
    refine ⟨st.sub.getD b 0, ?_, ?_, hf.bpos b hb⟩
    · show (if b + 1 ≤ b then _ else if b + 1 = b + 1 then _ else (0 : 𝕜)) = _
      rw [if_neg (by omega), if_pos rfl]; rfl
    · exact lt_of_lt_of_le (breakdownThr_pos hn) (hf.bpos b hb)
  · intro a b ha hb
    rw [hVn] at ha hb
    rw [hcol a ha, hcol b hb]
    exact hf.proj ha hb

/-- **Full size unless breakdown (Arnoldi).**  If fewer than `min numiter n` vectors are returned, the norm of the last
Gram–Schmidt residual is below the threshold `100 n 2^-52`. -/
theorem arnoldi_full {Afun : List 𝕜 → List 𝕜} {dnorm : List 𝕜 → ℝ} (hN : NormContract dnorm)
    {vstart : List 𝕜} {numiter : Nat} {H V : Mat 𝕜} (h : arnoldi Afun dnorm vstart numiter = .ok (H, V))
    (hk : V.n < min numiter vstart.length) :
    dnorm (arnoldiResidual Afun V (V.n - 1)) < breakdownThr ℝ vstart.length := by
  obtain ⟨st, hc, rfl, rfl⟩ := arnoldi_ok Afun dnorm h
  obtain ⟨k, _, hf⟩ := arnoldiCore_fin hN hc
  have hVn : (colsMat vstart.length st.V).n = k := hf.sized.2.2
  have hcl : st.cols.length = k := hf.sized.1
  have hvl : st.V.length = k := hf.sized.2.2
  have hcol : ∀ c, c < k → matCol (colsMat vstart.length st.V) c = st.vec c :=
    fun c hc' => matCol_colsMat st.V c (hf.len c hc')
  have hs := arnoldiCore_short Afun dnorm hc (by rw [hcl, ← hVn]; exact hk)
  have hk1 := hf.kpos
  rw [hVn]
  rw [hcl] at hs
  have e : arnoldiResidual Afun (colsMat vstart.length st.V) (k - 1) = (arW Afun vstart.length (k - 1) st).1 := by
    unfold arnoldiResidual arW
    rw [hcol (k - 1) (by omega)]
    have : (List.range (k - 1 + 1)).map (matCol (colsMat vstart.length st.V)) = st.V.take (k - 1 + 1) := by
      rw [show k - 1 + 1 = k by omega, List.take_of_length_le (by omega)]
      apply List.ext_getElem
      · simp [hvl]
      · intro i h1 h2
        have hi : i < k := by simpa using h1
        simp only [List.getElem_map, List.getElem_range]
        rw [hcol i hi]
        simp [List.getD_eq_getElem?_getD, h2]
    rw [this]; rfl
  rw [e]; exact hs

theorem arnoldi_full_le {Afun : List 𝕜 → List 𝕜} {dnorm : List 𝕜 → ℝ} (hN : NormContract dnorm)
    {vstart : List 𝕜} {numiter : Nat} {H V : Mat 𝕜} (h : arnoldi Afun dnorm vstart numiter = .ok (H, V))
    (hle : numiter ≤ vstart.length) (hk : V.n < numiter) :
    dnorm (arnoldiResidual Afun V (V.n - 1)) < breakdownThr ℝ vstart.length :=
  arnoldi_full hN h (by omega)

/-! ### non-vacuity -/

/-- the hypotheses of `lanczos_relations` / `lanczos_full` are satisfiable: the 2-norm, the Hermitian matrix
`[[2, 1], [1, 2]]`, the start vector `(1, 0)`, two iterations — and the call returns. -/
example : ∃ (Afun : List ℝ → List ℝ) (dnorm : List ℝ → ℝ) (vstart : List ℝ),
    NormContract dnorm ∧ IsHermitian vstart.length Afun ∧ ∃ r, lanczos Afun dnorm vstart 2 = .ok r := by
  let A : Mat ℝ := ⟨2, 2, fun i k => if i = k then 2 else 1⟩
  refine ⟨matvec A, sqrtNorm, [1, 0], sqrtNorm_contract, ?_, ?_⟩
  · apply isHermitian_matvec A rfl rfl
    intro i k _ _
    simp only [A, RCLike.conj_to_real]
    by_cases h : i = k
    · subst h; rfl
    · rw [if_neg h, if_neg (Ne.symm h)]
  · apply lanczos_returns
    · exact (sqrtNorm_contract.pos_iff _).2 ⟨1, by simp, one_ne_zero⟩
    · omega
    · simp

/-- the hypothesis of `arnoldi_relations` / `arnoldi_full` is satisfiable for a non-normal map, and the call returns -/
example : ∃ (Afun : List ℝ → List ℝ) (dnorm : List ℝ → ℝ) (vstart : List ℝ),
    NormContract dnorm ∧ ∃ r, arnoldi Afun dnorm vstart 2 = .ok r := by
  let A : Mat ℝ := ⟨2, 2, fun i k => if i ≤ k then 1 else 0⟩
  refine ⟨matvec A, sqrtNorm, [1, 1], sqrtNorm_contract, ?_⟩
  apply arnoldi_returns
  · exact (sqrtNorm_contract.pos_iff _).2 ⟨1, by simp, one_ne_zero⟩
  · omega
  · simp

example : ∃ r, arnoldi (α := Rat) (ρ := Rat) (matvec ⟨2, 2, fun i k => if i ≤ k then 1 else 0⟩) (fun _ => 1) [1, 1] 2 = .ok r :=
  arnoldi_returns _ _ (by decide) (by decide) (by decide)

/-- `lanczos_shapes` is not vacuous over the executable scalars either: a concrete run -/
example : ∃ r, lanczos (α := Rat) (ρ := Rat) (matvec ⟨2, 2, fun i k => if i = k then 2 else 1⟩) (fun _ => 1) [1, 0] 2 = .ok r :=
  lanczos_returns _ _ (by decide) (by decide) (by decide)

/-- the cap is effective: `numiter = 25` on a vector of length 2 returns at most 2 vectors -/
example {alpha beta : List Rat} {V : Mat Rat}
    (h : lanczos (α := Rat) (ρ := Rat) (matvec ⟨2, 2, fun i k => if i = k then 2 else 1⟩) (fun _ => 1) [1, 0] 25
      = .ok (alpha, beta, V)) : V.n ≤ 2 := (lanczos_le_dim _ _ h).1

/-- the error branch of the capped count is taken: an empty vector with a norm oracle that reports `1` -/
example : lanczos (α := Rat) (ρ := Rat) id (fun _ => 1) [] 3 = .error .value :=
  lanczos_zero_raises _ _ (by decide) (Or.inr rfl)

end Ptn.C14

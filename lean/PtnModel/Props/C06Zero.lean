import PtnModel.Props.C06Total
/-!
# Property C06 on the identically-zero operator: the negative statement (known finding F14)

`lattice_zero_operator_raises`: when no template with non-zero coefficient fits on the lattice (every parameter zero, or `L = 1`
with only two-site couplings non-zero) the chain-based constructor `_local_opchains_to_mpo` does NOT return (the Python raises a
bare `AssertionError` from the empty chain list) although the documented formula is the zero operator.  A corollary of
`C06.lattice_returns_iff`; the checks print it as KNOWN-FINDING (key `zero-operator-raises`).
-/
set_option linter.unusedSectionVars false
namespace Ptn.C06
open Ptn Ptn.Og Ptn.Ham Ptn.Ch Ptn.Ham2

variable {κ : Type} [CommRing κ] [DecidableEq κ]

theorem lattice_zero_operator_raises (lat : Ham.Lattice κ) (L : Int) (htw : ∀ t ∈ lat.lopchains, TemplateWF t)
    (hch : LatticeCharged lat) (hd : 1 ≤ lat.qd.length) (hL : 1 ≤ L)
    (hz : ∀ t ∈ lat.lopchains, t.coeff = 0 ∨ L < (t.oids.length : Int)) :
    ¬ ∃ b, localOpchainsToMpo lat L = .ok b := by
  rw [lattice_returns_iff lat L htw hch hd hL]
  rintro ⟨t, ht, hc, hl⟩
  rcases hz t ht with h | h
  · exact hc h
  · omega

/-- the XXZ chain: `heisenberg_xxz_mpo(L, J, D, h)` does not return when `h = 0` and (`L = 1` or `J/2 = D = 0`) -- in particular
`heisenberg_xxz_mpo(1, 0.7, 0.7, 0.)` and `heisenberg_xxz_mpo(3, 0, 0, 0)`, the listed inputs of F14 -/
theorem xxz_zero_operator_raises (c : Consts κ) (J D h : κ) (L : Int) (hL : 1 ≤ L) (hh : h = 0)
    (hz : L < 2 ∨ (c.half * J = 0 ∧ D = 0)) :
    ¬ ∃ lat b, xxzLattice c J D h = .ok lat ∧ localOpchainsToMpo lat L = .ok b := by
  rw [xxz_returns c J D h L hL]
  rintro (h1 | ⟨h2, h3⟩)
  · exact h1 hh
  · rcases hz with hz | ⟨hz1, hz2⟩
    · omega
    · rcases h3 with h3 | h3
      · exact h3 hz1
      · exact h3 hz2

/-- non-vacuity: one site, `J = D = 7/10`, `h = 0` over `ℚ` -/
example (c : Consts ℚ) : ¬ ∃ lat b, xxzLattice c (7 / 10) (7 / 10) (0 : ℚ) = .ok lat ∧ localOpchainsToMpo lat 1 = .ok b :=
  xxz_zero_operator_raises c _ _ _ 1 (le_refl 1) rfl (Or.inl (by norm_num))

end Ptn.C06

import PtnModel.Props.C16
import PtnModel.Props.C05Total
/-!
# Property C16 / C05: a flipped graph can still be converted to an MPO (after the repair of F18)

`OpGraph.flip()` reverses every edge.  The bond quantum numbers stored in the nodes belong to the direction of the operators
on the edges: for an edge `n0 → n1` carrying an operator with non-zero entry `[s, t]`, `qd[s] - qd[t] + q(n0) - q(n1) = 0`.
After the flip the same operator sits on `n1 → n0`, so the stored numbers have to change sign.  Before the repair they were left
as they were and `MPO.from_opgraph` of a flipped graph with non-zero bond quantum numbers failed its own sparsity assertion
(finding F18).  With `qnum := -qnum` in `OpGraphNode.flip` (mirrored in `Model/AutOp.lean`, `Node.flip`):

* `flip_qOf`               : the quantum number of every node changes sign;
* `flip_ops_charged`       : charge consistency of an operator map w.r.t. the graph is invariant under `flip`;
* `flip_from_opgraph_total`: for a valid graph with charge-consistent operators, `MPO.from_opgraph` of the FLIPPED graph returns
                             (`C05.from_opgraph_total`), so flip → convert never raises.
-/
set_option linter.unusedSectionVars false
namespace Ptn.C16
open Ptn Ptn.Og Ptn.Ch List

variable {κ : Type} [CommRing κ] [DecidableEq κ]

theorem lookup_map_snd {β γ : Type} (f : β → γ) (l : List (Int × β)) (k : Int) :
    (l.map fun p => (p.1, f p.2)).lookup k = (l.lookup k).map f := by
  induction l with
  | nil => rfl
  | cons p l ih =>
    obtain ⟨a, b⟩ := p
    simp only [map_cons, lookup_cons]
    cases h : (k == a) with
    | true => rfl
    | false => exact ih

/-- `flip` negates the quantum number of every node -/
theorem flip_qOf (g : Graph κ) (nid : Int) : qOf g.flip nid = -qOf g nid := by
  unfold qOf dGet? Graph.flip
  dsimp only
  have : (g.nodes.map fun (p : Int × Node) => (p.1, p.2.flip)) = g.nodes.map (fun (k, n) => (k, n.flip)) := rfl
  rw [← this, lookup_map_snd]
  cases g.nodes.lookup nid with
  | none => simp
  | some n => simp [Node.flip]

/-- **charge consistency is invariant under `flip`** -/
theorem flip_ops_charged {qd : List Int} {g : Graph κ} {opmap : OpMap κ} (h : OpsCharged qd g opmap) :
    OpsCharged qd g.flip opmap := by
  intro p hp oc hoc
  obtain ⟨k, e⟩ := p
  obtain ⟨e', he', rfl⟩ := Graph.flip_mem_edges.1 hp
  have := h (k, e') he' oc hoc
  simp only [Edge.flip, flip_qOf] at this ⊢
  have e : -qOf g e'.nids.2 - -qOf g e'.nids.1 = qOf g e'.nids.1 - qOf g e'.nids.2 := by ring
  rw [e]
  exact this

/-- **flip, then convert**: for a valid graph with charge-consistent `d × d` operators (`d ≥ 1`) the conversion of the flipped
graph returns -/
theorem flip_from_opgraph_total (qd : List Int) (g : Graph κ) (opmap : OpMap κ) (on : Bool) (hv : Valid g)
    (hd : 1 ≤ qd.length) (hch : OpsCharged qd g opmap) : ∃ out, fromOpgraph qd g.flip opmap on = .ok out :=
  C05.from_opgraph_total qd g.flip opmap on (flip_sem g hv).2.1 hd (flip_ops_charged hch)

/-- non-vacuity, the listed input of F18: nodes `(0, q=0) → (1, q=1) → (2, q=0)`, `σ⁻`-like then `σ⁺`-like operators, `qd = [0, 1]`:
charge consistent; the flipped graph carries the quantum numbers `0, -1, 0` and its conversion returns -/
def exCharged : Graph Int :=
  ⟨[(0, ⟨0, [], [0], 0⟩), (1, ⟨1, [0], [1], 1⟩), (2, ⟨2, [1], [], 0⟩)],
   [(0, ⟨0, (0, 1), [(1, 1)]⟩), (1, ⟨1, (1, 2), [(2, 1)]⟩)], (0, 2)⟩

example : OpsCharged [0, 1] exCharged ([(1, [[0, 0], [1, 0]]), (2, [[0, 1], [0, 0]])] : OpMap Int) ∧
    qOf exCharged.flip 1 = -1 ∧
    (fromOpgraph [0, 1] exCharged.flip ([(1, [[0, 0], [1, 0]]), (2, [[0, 1], [0, 0]])] : OpMap Int) false).toOption.map (·.qD)
      = some [[0], [-1], [0]] := by
  refine ⟨by decide, by decide, by decide⟩

end Ptn.C16

import PtnModel.Proofs.SpecSectorTwo
import PtnModel.Proofs.SpecEighCtx
import PtnModel.Props.C10Total
import PtnModel.Props.C10Two
/-!
# C10 — the DMRG energies are bounded below by the ground-state energy of the quantum-number SECTOR of the state

Clause of the property: *every reported energy is at least the exact ground-state energy (of the quantum-number sector of
the state)*.  `Props/C10.lean`, `C10Two.lean`, `C10Total.lean` prove `μ ≤ e` for lower bounds `μ` of the WHOLE dense operator
(`Evo.DenseLower`: `μ ‖x‖² ≤ ⟨x|H|x⟩` for all dense vectors `x`).  Here the sharper form: it suffices that `μ` is a lower bound
on the vectors supported on the sector of the state.

Vocabulary (`PtnModel/Proofs/SpecSector.lean`):
* `Sector.chargeSum qd σ = Σ_i qd[σ_i]`, the total physical charge of the basis state `σ`;
* `Sector.sectorMPS ψ = ψ.qD[-1][0] - ψ.qD[0][0]`, the sector of a block-sparse MPS: the only total charge on which it can
  have a non-zero amplitude (`amp_sector_support`);
* `Sector.SectorLower H qd Q μ` : `μ Σ_σ |x_σ|² ≤ Re Σ_{σ,τ} conj(x_σ) H[σ,τ] x_τ` for every dense vector `x` that vanishes
  on all basis states `σ` with `chargeSum qd σ ≠ Q` — e.g. `μ` = the exact ground-state energy of `H` restricted to the
  sector `Q`.  Weaker than `DenseLower` (`sector_lower_of_dense_lower`), so the theorems below are stronger than
  `dmrg1_variational` / `dmrg2_variational`; strictly so in the example at the end (`Z⊗1 + 1⊗Z`: sector bound `0`, dense
  ground-state energy `-2`).

Proved:
* `dmrg1_sector_lower_bound`         : single-site DMRG, non-zero admissible start state `ψ`: the returned state lies in the
  sector of `ψ` and every reported energy is `≥` every lower bound on the sector of `ψ`;
* `dmrg1_sector_lower_bound_result`  : the same w.r.t. the sector of the RETURNED state, without the hypothesis `ψ ≠ 0`
  (for the zero state the QR of the prologue takes its dummy branch and may change the boundary charges, see
  `boundary_kept` in `Props/C02.lean`; the sector of the returned state is then the relevant one);
* `dmrg2_sector_lower_bound`, `dmrg2_sector_lower_bound_result` : two-site DMRG with `tol_split = 0`;
* `dmrg1_sector_lower_bound_total`   : unconditional form (the run returns) under the hypotheses of `dmrg1_total`.

Mechanism: every reported energy is the energy of a NORMALISED state held by the sweep (`Evo.DInv`, C10) which is BLOCK SPARSE
w.r.t. its current bond charges (`HistWf.EvoSparse`, C02) and has the boundary charges of the state after the prologue (the
sweeps rewrite `qD[1..L-1]` only; the final `local_orthonormalize_right_qr` of the first site keeps `qD[0]` because the
first tensor has norm one, `HistWf.normalizeFirst_q0`).  Block sparsity forces the dense amplitudes to vanish outside the
sector (induction over the sites: a non-zero amplitude needs a chain of bond indices with
`qD_i[a_i] + qd[σ_i] = qD_{i+1}[a_{i+1}]`), so the state is an admissible test vector for `SectorLower`.

Hypotheses beyond those of `dmrg1_variational`: `H.wellFormed` (block-sparse MPO) and `C02.EvoCompat H ψ` (same physical
charges, leading MPO bond charge zero) — needed for block sparsity of the environment blocks and of the optimised tensors.
-/
set_option linter.unusedSectionVars false

namespace Ptn.C10
open Ptn Ptn.Krylov Ptn.Evo Ptn.BondOps Ptn.Ortho Ptn.Env Ptn.Sector Finset

variable {𝕜 : Type} [RCLike 𝕜] [DecidableEq 𝕜]

/-- **Support of a block-sparse MPS.**  If `ψ` is well-formed (every site tensor block sparse w.r.t. the bond charges) and
its last bond has at least one index, every basis state with a non-zero dense amplitude has total physical charge
`qD[-1][0] - qD[0][0]`. -/
theorem amp_sector_support {ψ : MPS 𝕜} (hw : ψ.wellFormed = true) (hl : 0 < (ψ.qD.getLast?.getD []).length)
    {σ : List Nat} (hσ : σ ∈ digitsU ψ.qd.length ψ.A.length) (hne : ψ.amp σ ≠ 0) :
    chargeSum ψ.qd σ = sectorMPS ψ :=
  mps_amp_support hw hl hσ hne

omit [DecidableEq 𝕜] in
/-- a lower bound of the whole dense operator is a lower bound on every sector (so the theorems below imply the
lower-bound clauses of `dmrg1_variational`, `dmrg2_variational`) -/
theorem sector_lower_of_dense_lower {H : MPO 𝕜} {qd : List Int} {μ : ℝ} (h : DenseLower H qd.length μ) (Q : Int) :
    SectorLower H qd Q μ :=
  SectorLower.of_dense h Q

/-- **Single-site DMRG: sector lower bound, sector of the returned state.**  Hermitian block-sparse MPO compatible with
the admissible start state, `L ≥ 2`, any number of sweeps and Lanczos iterations: if the call returns `(ψ', en)` then every
reported energy `e` satisfies `μ ≤ e` for every `μ` that bounds the quadratic form of `H` from below on the dense vectors
supported on the sector `ψ'.qD[-1][0] - ψ'.qD[0][0]` of the returned state. -/
theorem dmrg1_sector_lower_bound_result {k : EvoKernels 𝕜 ℝ} {H : MPO 𝕜} {ψ ψ' : MPS 𝕜} {numiter : Nat}
    (ctx : SweepCtx k H ψ.qd numiter) (hHwf : H.wellFormed = true) (hc : C02.EvoCompat H ψ)
    (hL2 : 2 ≤ H.A.length) (hadm : Admissible ψ) {numsweeps : Nat} {en : List ℝ}
    (h : dmrgSinglesite k H ψ numsweeps numiter = .ok (ψ', en)) :
    ∀ e ∈ en, ∀ μ, SectorLower H ψ.qd (sectorMPS ψ') μ → μ ≤ e :=
  dmrg1_sector_main ctx (HistWf.hOk_of_wf hHwf hc.1 hc.2) hL2 hadm h

/-- **Single-site DMRG: sector lower bound.**  Under the same hypotheses and for a NON-ZERO start state `ψ` (some dense
amplitude `ψ.amp σ ≠ 0`): the returned state has the sector of `ψ`, and every reported energy `e` satisfies `μ ≤ e` for every
`μ` with `μ ‖x‖² ≤ ⟨x|H|x⟩` for all dense `x` supported on the basis states `σ` with `Σ_i qd[σ_i] = ψ.qD[-1][0] - ψ.qD[0][0]`
— in particular for the exact ground-state energy of the sector of `ψ`. -/
theorem dmrg1_sector_lower_bound {k : EvoKernels 𝕜 ℝ} {H : MPO 𝕜} {ψ ψ' : MPS 𝕜} {numiter : Nat}
    (ctx : SweepCtx k H ψ.qd numiter) (hHwf : H.wellFormed = true) (hc : C02.EvoCompat H ψ)
    (hL2 : 2 ≤ H.A.length) (hadm : Admissible ψ) {numsweeps : Nat} {en : List ℝ}
    (h : dmrgSinglesite k H ψ numsweeps numiter = .ok (ψ', en))
    {σ : List Nat} (hσ : σ ∈ digitsU ψ.qd.length ψ.A.length) (hne : ψ.amp σ ≠ 0) :
    sectorMPS ψ' = sectorMPS ψ ∧ ∀ e ∈ en, ∀ μ, SectorLower H ψ.qd (sectorMPS ψ) μ → μ ≤ e :=
  dmrg1_sector_start ctx (HistWf.hOk_of_wf hHwf hc.1 hc.2) hL2 hadm h hσ hne

/-- **Two-site DMRG, `tol_split = 0`: sector lower bound, sector of the returned state.** -/
theorem dmrg2_sector_lower_bound_result {k : EvoKernels 𝕜 ℝ} {H : MPO 𝕜} {ψ ψ' : MPS 𝕜} {numiter : Nat}
    (ctx : SweepCtx k H ψ.qd numiter) (hk : Compress.SvdKernel k.svd) (hHwf : H.wellFormed = true)
    (hc : C02.EvoCompat H ψ) (hL2 : 2 ≤ H.A.length) (hadm : Admissible ψ) {numsweeps : Nat} {en : List ℝ}
    (h : dmrgTwosite k H ψ numsweeps numiter (0 : ℝ) = .ok (ψ', en)) :
    ∀ e ∈ en, ∀ μ, SectorLower H ψ.qd (sectorMPS ψ') μ → μ ≤ e :=
  (dmrg2_sector_main ctx hk (HistWf.hOk_of_wf hHwf hc.1 hc.2) hL2 hadm h).1

/-- **Two-site DMRG, `tol_split = 0`: sector lower bound** for a non-zero start state (sector of the start state, which is
the sector of the returned state). -/
theorem dmrg2_sector_lower_bound {k : EvoKernels 𝕜 ℝ} {H : MPO 𝕜} {ψ ψ' : MPS 𝕜} {numiter : Nat}
    (ctx : SweepCtx k H ψ.qd numiter) (hk : Compress.SvdKernel k.svd) (hHwf : H.wellFormed = true)
    (hc : C02.EvoCompat H ψ) (hL2 : 2 ≤ H.A.length) (hadm : Admissible ψ) {numsweeps : Nat} {en : List ℝ}
    (h : dmrgTwosite k H ψ numsweeps numiter (0 : ℝ) = .ok (ψ', en))
    {σ : List Nat} (hσ : σ ∈ digitsU ψ.qd.length ψ.A.length) (hne : ψ.amp σ ≠ 0) :
    sectorMPS ψ' = sectorMPS ψ ∧ ∀ e ∈ en, ∀ μ, SectorLower H ψ.qd (sectorMPS ψ) μ → μ ≤ e := by
  obtain ⟨h1, h2⟩ := dmrg2_sector_main ctx hk (HistWf.hOk_of_wf hHwf hc.1 hc.2) hL2 hadm h
  have hs := h2 σ hσ hne
  exact ⟨hs, fun e he μ hμ => h1 e he μ (by rw [hs]; exact hμ)⟩

/-- **Unconditional form** (single-site): under the hypotheses of `dmrg1_total` the call returns, the returned state lies
in the sector of the non-zero start state, and every reported energy is `≥` every lower bound on that sector. -/
theorem dmrg1_sector_lower_bound_total {k : EvoKernels 𝕜 ℝ} {H : MPO 𝕜} {ψ : MPS 𝕜} {numiter : Nat}
    (ctx : SweepCtx k H ψ.qd numiter) (hm : 1 ≤ numiter)
    (hHwf : H.wellFormed = true) (hc : C02.EvoCompat H ψ) (hlast : (H.qD.getD H.A.length []).getD 0 0 = 0)
    (hadm : Admissible ψ) (hlen : H.A.length = ψ.A.length) (hL2 : 2 ≤ H.A.length) (numsweeps : Nat)
    {σ : List Nat} (hσ : σ ∈ digitsU ψ.qd.length ψ.A.length) (hne : ψ.amp σ ≠ 0) :
    ∃ ψ' en, dmrgSinglesite k H ψ numsweeps numiter = .ok (ψ', en) ∧ sectorMPS ψ' = sectorMPS ψ ∧
      ∀ e ∈ en, ∀ μ, SectorLower H ψ.qd (sectorMPS ψ) μ → μ ≤ e := by
  obtain ⟨ψ', en, h⟩ := dmrg1_total ctx hm hHwf hc hlast hadm hlen numsweeps
  exact ⟨ψ', en, h, dmrg1_sector_lower_bound ctx hHwf hc hL2 hadm h hσ hne⟩

/-! ## non-vacuity

`exOC = Z ⊗ 1 + 1 ⊗ Z` over `ℂ` (physical charges `qd = [0, 1]`), start state `exψC = |01⟩ + i|10⟩` with bond charges
`[[0], [0, 1], [1]]`, i.e. sector `1` = span `{|01⟩, |10⟩}`, on which `H = 0`.  So `μ = 0` is a lower bound on the sector
(`exSectorLower`) — but NOT of the dense operator, whose ground-state energy is `-2` (`exNotDenseLower`): the sector theorem
gives `0 ≤ e` for every reported energy, which `dmrg1_variational` cannot. -/

theorem exDigits : digitsU 2 2 = {[0, 0], [0, 1], [1, 0], [1, 1]} := by decide

theorem exElem (s0 s1 t0 t1 : Nat) (h0 : s0 < 2) (h1 : s1 < 2) (g0 : t0 < 2) (g1 : t1 < 2) :
    exOC.elem [s0, s1] [t0, t1] = if s0 = t0 ∧ s1 = t1 then (if s0 = 0 then 1 else -1) + (if s1 = 0 then 1 else -1) else 0 := by
  interval_cases s0 <;> interval_cases s1 <;> interval_cases t0 <;> interval_cases t1 <;>
    simp [MPO.elem, MPO.elemRow, exOC, sumRange, List.range_succ]

/-- `0` is a lower bound of `Z⊗1 + 1⊗Z` on the sector of `exψC` (total charge `1`) -/
theorem exSectorLower : SectorLower exOC exψC.qd (sectorMPS exψC) 0 := by
  intro x hx
  have h00 : x [0, 0] = 0 := by
    by_contra hne
    have := hx [0, 0] (by decide) hne
    simp [chargeSum, sectorMPS, exψC] at this
  have h11 : x [1, 1] = 0 := by
    by_contra hne
    have := hx [1, 1] (by decide) hne
    simp [chargeSum, sectorMPS, exψC] at this
  have hL : exOC.A.length = 2 := rfl
  have hd : exψC.qd.length = 2 := rfl
  rw [hL, hd, exDigits]
  simp [Finset.sum_insert, exElem, h00, h11]

/-- `0` is NOT a lower bound of the whole dense operator: `⟨11|H|11⟩ = -2` -/
theorem exNotDenseLower : ¬ DenseLower exOC 2 0 := by
  intro h
  have := h (fun σ => if σ = [1, 1] then 1 else 0)
  have hL : exOC.A.length = 2 := rfl
  rw [hL, exDigits] at this
  simp [Finset.sum_insert, exElem] at this
  norm_num at this

/-- the start state is not zero -/
theorem exψC_ne : exψC.amp [0, 1] ≠ 0 := by
  simp [MPS.amp, MPS.ampRow, exψC, sumRange, List.range_succ]

/-- all hypotheses of `dmrg1_sector_lower_bound_total` hold for `exK`, `exOC`, `exψC`, one Lanczos iteration; the driver-level
run returns for every number of sweeps and every reported energy is `≥ 0`, the ground-state energy of the sector, although
the dense ground-state energy is `-2` -/
example (numsweeps : Nat) : ∃ ψ' en, dmrgSinglesite exK exOC exψC numsweeps 1 = .ok (ψ', en) ∧
    sectorMPS ψ' = 1 ∧ (∀ e ∈ en, 0 ≤ e) ∧ ¬ DenseLower exOC exψC.qd.length 0 := by
  obtain ⟨ψ', en, h, hs, hall⟩ := dmrg1_sector_lower_bound_total (k := exK) (H := exOC) (ψ := exψC) exK_ctx (le_refl 1)
    C02.exOC_wf C02.exCompat rfl exψC_adm rfl (by decide) numsweeps (σ := [0, 1]) (by decide) exψC_ne
  exact ⟨ψ', en, h, hs, fun e he => hall e he 0 exSectorLower, exNotDenseLower⟩

/-- the same for EVERY number of Lanczos iterations `numiter ≥ 1`, with the kernels `Evo.exKE` whose `eigh_tridiagonal` oracle is
the exact kernel `C15.eighExact` (`Props/C15Exists.lean`): genuine multi-step Lanczos runs inside the driver-level call -/
example (numiter : Nat) (hm : 1 ≤ numiter) (numsweeps : Nat) :
    ∃ ψ' en, dmrgSinglesite exKE exOC exψC numsweeps numiter = .ok (ψ', en) ∧
      sectorMPS ψ' = 1 ∧ (∀ e ∈ en, 0 ≤ e) := by
  obtain ⟨ψ', en, h, hs, hall⟩ := dmrg1_sector_lower_bound_total (k := exKE) (H := exOC) (ψ := exψC) (exKE_ctx numiter) hm
    C02.exOC_wf C02.exCompat rfl exψC_adm rfl (by decide) numsweeps (σ := [0, 1]) (by decide) exψC_ne
  exact ⟨ψ', en, h, hs, fun e he => hall e he 0 exSectorLower⟩

/-- hypotheses of the two-site theorems (other than the run, witnessed by the correspondence): as in `Props/C10Two.lean`,
plus block sparsity / compatibility of the MPO and a non-zero start state -/
example : SweepCtx exK2 exOC exψC.qd 1 ∧ Compress.SvdKernel exK2.svd ∧ exOC.wellFormed = true ∧ C02.EvoCompat exOC exψC ∧
    2 ≤ exOC.A.length ∧ Admissible exψC ∧ [0, 1] ∈ digitsU exψC.qd.length exψC.A.length ∧ exψC.amp [0, 1] ≠ 0 ∧
    SectorLower exOC exψC.qd (sectorMPS exψC) 0 :=
  ⟨exK2_ctx, exK2_svd, C02.exOC_wf, C02.exCompat, by decide, exψC_adm, by decide, exψC_ne, exSectorLower⟩

/-- the support lemma is not vacuous: `exψC` is well-formed, its last bond has one index and it has a non-zero amplitude -/
example : exψC.wellFormed = true ∧ 0 < (exψC.qD.getLast?.getD []).length ∧
    [0, 1] ∈ digitsU exψC.qd.length exψC.A.length ∧ exψC.amp [0, 1] ≠ 0 ∧ chargeSum exψC.qd [0, 1] = sectorMPS exψC :=
  ⟨exψC_adm.wf, by decide, by decide, exψC_ne, amp_sector_support exψC_adm.wf (by decide) (by decide) exψC_ne⟩

end Ptn.C10
